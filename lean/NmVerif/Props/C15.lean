import NmVerif.Index.Checked
import NmVerif.Props.C04
import NmVerif.Props.C06
import NmVerif.Props.C07
import Mathlib.Tactic.Ring
/-
  C15 — Invalid arguments are reported as 'Nothing', never as garbage or a crash.
-/
namespace NmVerif.Props.C15
open NmVerif NmVerif.Checked NmVerif.Index

/-- an empty optional fed into any further stage stays empty, at any depth: the pipeline has a value
    iff NO stage failed -/
theorem nothing_propagates (p : Pipe) : p.denote = none ↔ p.hasFailedStage := by
  induction p with
  | leaf s => simp [Pipe.denote, Pipe.hasFailedStage]
  | nothing => simp [Pipe.denote, Pipe.hasFailedStage]
  | unary f x ih =>
    simp only [Pipe.denote, Pipe.hasFailedStage]
    cases hx : x.denote with
    | none => simp [ih.1 hx]
    | some s =>
      have : ¬ x.hasFailedStage := fun h => by rw [ih.2 h] at hx; cases hx
      simp [this]
  | binary f x y ihx ihy =>
    simp only [Pipe.denote, Pipe.hasFailedStage]
    cases hx : x.denote with
    | none => simp [ihx.1 hx]
    | some a =>
      have hnx : ¬ x.hasFailedStage := fun h => by rw [ihx.2 h] at hx; cases hx
      cases hy : y.denote with
      | none => simp [ihy.1 hy]
      | some b =>
        have hny : ¬ y.hasFailedStage := fun h => by rw [ihy.2 h] at hy; cases hy
        simp [hnx, hny]

/-- normalize_axis reports Nothing exactly for axes outside [-ndim, ndim) -/
theorem normalizeAxis_isSome_iff (ndim : Nat) (a : Int) :
    (normalizeAxis ndim a).isSome ↔ (-(ndim : Int) ≤ a ∧ a < ndim) := by
  unfold normalizeAxis; split <;> simp_all

theorem normalizeAxis_lt (ndim : Nat) (a : Int) (k : Nat) (h : normalizeAxis ndim a = some k) : k < ndim := by
  unfold normalizeAxis at h
  split at h
  · simp only [Option.some.injEq] at h
    subst h
    split <;> omega
  · cases h

theorem prodOthers_pos (dst : List Int) (h : ∀ d ∈ dst, d = -1 ∨ 0 < d) : 0 < prodOthers dst := by
  induction dst with
  | nil => simp [prodOthers]
  | cons x xs ih =>
    have hxs : ∀ d ∈ xs, d = -1 ∨ 0 < d := fun d hd => h d (by simp [hd])
    unfold prodOthers
    split
    · exact ih hxs
    · rename_i hx
      rcases h x (by simp) with h1 | h1
      · exact absurd h1 hx
      · exact Int.mul_pos h1 (ih hxs)

theorem any_bad_iff (dst : List Int) : dst.any (fun d => d ≠ -1 ∧ d ≤ 0) = true ↔ ¬ ∀ d ∈ dst, d = -1 ∨ 0 < d := by
  simp only [List.any_eq_true, decide_eq_true_eq]
  constructor
  · rintro ⟨d, hd, h1, h2⟩ hall
    rcases hall d hd with h | h <;> omega
  · intro h
    apply Classical.byContradiction
    intro hne
    apply h
    intro d hd
    by_cases h1 : d = -1
    · exact Or.inl h1
    · right
      apply Classical.byContradiction
      intro h2
      exact hne ⟨d, hd, h1, by omega⟩

/-- the five checks, in the order the code performs them -/
theorem shapeReshape_isSome (src : Shape) (dst : List Int) :
    (shapeReshape src dst).isSome ↔
      (¬ countMinusOne dst > 1 ∧ ¬ dst.any (fun d => d ≠ -1 ∧ d ≤ 0) = true ∧
       ¬ (countMinusOne dst = 0 ∧ prod src ≠ dstNumel dst) ∧ dstNumel dst ≠ 0 ∧ prod src % dstNumel dst = 0) := by
  unfold shapeReshape
  by_cases h1 : countMinusOne dst > 1
  · rw [if_pos h1]; simp only [Option.isSome_none]; constructor
    · intro h; cases h
    · intro h; exact absurd h1 h.1
  · rw [if_neg h1]
    by_cases h2 : dst.any (fun d => d ≠ -1 ∧ d ≤ 0) = true
    · rw [if_pos h2]; simp only [Option.isSome_none]; constructor
      · intro h; cases h
      · intro h; exact absurd h2 h.2.1
    · rw [if_neg h2]
      by_cases h3 : countMinusOne dst = 0 ∧ prod src ≠ dstNumel dst
      · rw [if_pos h3]; simp only [Option.isSome_none]; constructor
        · intro h; cases h
        · intro h; exact absurd h3 h.2.2.1
      · rw [if_neg h3]
        by_cases h4 : dstNumel dst = 0
        · rw [if_pos h4]; simp only [Option.isSome_none]; constructor
          · intro h; cases h
          · intro h; exact absurd h4 h.2.2.2.1
        · rw [if_neg h4]
          by_cases h5 : prod src % dstNumel dst ≠ 0
          · rw [if_pos h5]; simp only [Option.isSome_none]; constructor
            · intro h; cases h
            · intro h; exact absurd h.2.2.2.2 h5
          · rw [if_neg h5]; simp only [Option.isSome_some, true_iff]
            exact ⟨h1, h2, h3, h4, by omega⟩

/-- reshape reports Nothing EXACTLY when the arguments are invalid (more than one -1, a zero or negative extent,
    a mismatching element count, a non-dividing inferred extent) — for every source shape and every non-empty target -/
theorem shapeReshape_isSome_iff (src : Shape) (dst : List Int) (hne : dst ≠ []) :
    (shapeReshape src dst).isSome ↔ ValidReshape src dst := by
  rw [shapeReshape_isSome]
  have hemp : dst.isEmpty = false := by cases dst <;> simp_all
  have hdn : dstNumel dst = (prodOthers dst).toNat := by simp [dstNumel, hemp]
  rw [hdn]
  unfold ValidReshape
  constructor
  · rintro ⟨h1, h2, h3, h4, h5⟩
    have hall : ∀ d ∈ dst, d = -1 ∨ 0 < d := by
      apply Classical.byContradiction; intro h; exact h2 ((any_bad_iff dst).2 h)
    have hpo := prodOthers_pos dst hall
    have hcast : ((prodOthers dst).toNat : Int) = prodOthers dst := Int.toNat_of_nonneg (by omega)
    refine ⟨by omega, hall, ?_, ?_⟩
    · intro hc0
      have : prod src = (prodOthers dst).toNat := by
        apply Classical.byContradiction; intro hn; exact h3 ⟨hc0, hn⟩
      rw [this, hcast]
    · intro _
      rw [← hcast, Int.natCast_dvd_natCast]
      exact Nat.dvd_of_mod_eq_zero h5
  · rintro ⟨h1, hall, h3, h4⟩
    have hpo := prodOthers_pos dst hall
    have hcast : ((prodOthers dst).toNat : Int) = prodOthers dst := Int.toNat_of_nonneg (by omega)
    have hbad : ¬ dst.any (fun d => d ≠ -1 ∧ d ≤ 0) = true := fun h => (any_bad_iff dst).1 h hall
    refine ⟨by omega, hbad, ?_, by omega, ?_⟩
    · rintro ⟨hc0, hn⟩
      apply hn
      have := h3 hc0
      omega
    · by_cases hc0 : countMinusOne dst = 0
      · have := h3 hc0
        have : prod src = (prodOthers dst).toNat := by omega
        rw [this]; exact Nat.mod_self _
      · have hd := h4 (by omega)
        rw [← hcast, Int.natCast_dvd_natCast] at hd
        exact Nat.mod_eq_zero_of_dvd hd

/-- an accepted reshape has positive extents and exactly the source's element count: never garbage -/
theorem shapeReshape_sound (src : Shape) (hs : Pos src) (dst : List Int) (hne : dst ≠ []) (t : Shape)
    (h : shapeReshape src dst = some t) : prod t = prod src ∧ Pos t ∧ t.length = dst.length := by
  have hv := (shapeReshape_isSome_iff src dst hne).1 (by rw [h]; rfl)
  have hchk := (shapeReshape_isSome src dst).1 (by rw [h]; rfl)
  obtain ⟨c1, hall, hv0, hv1⟩ := hv
  obtain ⟨h1, h2, h3, h4, h5⟩ := hchk
  unfold shapeReshape at h
  rw [if_neg h1, if_neg h2, if_neg h3, if_neg h4, if_neg (by omega)] at h
  simp only [Option.some.injEq] at h
  subst h
  have hpo := prodOthers_pos dst hall
  have hemp : dst.isEmpty = false := by cases dst <;> simp_all
  have hdn : dstNumel dst = (prodOthers dst).toNat := by simp [dstNumel, hemp]
  refine ⟨?_, ?_, by simp⟩
  · -- product of the result = product of the source
    have key : ∀ (l : List Int) (q : Nat), (∀ d ∈ l, d = -1 ∨ 0 < d) →
        (prod (l.map (fun d => if d = -1 then q else d.toNat)) : Int) = prodOthers l * (q : Int) ^ countMinusOne l := by
      intro l q hl
      induction l with
      | nil => simp [prod, prodOthers, countMinusOne]
      | cons x xs ih =>
        have hxs : ∀ d ∈ xs, d = -1 ∨ 0 < d := fun d hd => hl d (by simp [hd])
        by_cases hx : x = -1
        · simp only [hx, List.map_cons, if_true, prod, prodOthers, countMinusOne]
          rw [Int.natCast_mul, ih hxs]; ring
        · have hxp : 0 < x := by rcases hl x (by simp) with h | h; exact absurd h hx; exact h
          simp only [hx, List.map_cons, if_false, prod, prodOthers, countMinusOne]
          rw [Int.natCast_mul, ih hxs, Int.toNat_of_nonneg (by omega)]; ring
    have hk := key dst (prod src / dstNumel dst) hall
    have hcast : ((prodOthers dst).toNat : Int) = prodOthers dst := Int.toNat_of_nonneg (by omega)
    by_cases hc0 : countMinusOne dst = 0
    · rw [hc0] at hk
      have e := hv0 hc0
      have : (prod (dst.map (fun d => if d = -1 then prod src / dstNumel dst else d.toNat)) : Int) = (prod src : Int) := by
        rw [hk, ← e]; simp
      exact_mod_cast this
    · have hc1 : countMinusOne dst = 1 := by omega
      rw [hc1] at hk
      have hmul : dstNumel dst * (prod src / dstNumel dst) = prod src := Nat.mul_div_cancel' (Nat.dvd_of_mod_eq_zero h5)
      have : (prod (dst.map (fun d => if d = -1 then prod src / dstNumel dst else d.toNat)) : Int) = (prod src : Int) := by
        rw [hk, ← hcast, ← hdn, pow_one, ← Int.natCast_mul, hmul]
      exact_mod_cast this
  · intro x hx
    simp only [List.mem_map] at hx
    obtain ⟨d, hd, rfl⟩ := hx
    by_cases hd1 : d = -1
    · simp only [hd1, if_true]
      have : dstNumel dst ≤ prod src := Nat.le_of_dvd (prod_pos hs) (Nat.dvd_of_mod_eq_zero h5)
      exact Nat.div_pos this (by omega)
    · simp only [hd1, if_false]
      rcases hall d hd with h | h
      · exact absurd h hd1
      · omega

/-! ### the other checked operations: validity theorems proved next to their models, re-exported here -/

/-- broadcasting (any number of shapes) reports failure exactly when the shapes are NumPy-incompatible -/
theorem broadcast_isSome_iff (ss : List Shape) (hne : ss ≠ []) (hp : C06.AllPos ss) :
    (broadcastShape ss).isSome ↔ Compatible ss := C06.broadcast_isSome_iff_compatible ss hne hp

/-- broadcast_to is refused exactly when the source cannot be broadcast to the target -/
theorem broadcastTo_isSome_iff (src dst : Shape) : (broadcastToView src dst).isSome ↔ BroadcastableTo src dst :=
  C06.broadcastTo_isSome_iff src dst

/-- a binary element-wise view is Nothing exactly for incompatible operand shapes -/
theorem ufunc2_none_iff {α β γ : Type} (op : α → β → γ) (a : Arr α) (b : Arr β) (ha : Pos a.shape) (hb : Pos b.shape) :
    ufunc2 op a b = none ↔ ¬ Compatible [a.shape, b.shape] := C07.ufunc2_none_iff_incompatible op a b ha hb

/-- pad refuses a width list that does not have two entries per axis, accepts every other -/
theorem pad_isSome_iff (s w : List Nat) : (padView s w).isSome ↔ 2 * s.length = w.length := by
  constructor
  · intro h
    apply Classical.byContradiction
    intro hne
    rw [C04.pad_nothing s w hne] at h; cases h
  · intro h
    have hb : (w.take s.length).length = s.length := by simp; omega
    have ha : (w.drop s.length).length = s.length := by simp; omega
    obtain ⟨v, hv, _⟩ := C04.pad_shape s (w.take s.length) (w.drop s.length) hb ha
    rw [List.take_append_drop] at hv
    rw [hv]; rfl

/-- roll refuses an axis outside [-dim, dim) -/
theorem roll_invalid_axis_nothing (s : Shape) (shift axis : Int) (h : axis < -(s.length : Int) ∨ (s.length : Int) ≤ axis) :
    rollView s shift axis = none := C04.roll_nothing s shift axis h

/-! the behaviours the property singles out, on concrete arguments (also non-vacuity of `ValidReshape`) -/
example : shapeReshape [2,3] [3,-1] = some [3,2] ∧ ValidReshape [2,3] [3,-1] := by decide
example : shapeReshape [2,3] [0,-1] = none ∧ shapeReshape [2,3] [-2,-3] = none ∧ shapeReshape [2,3] [-1,-1] = none ∧
    shapeReshape [2,3] [4,-1] = none ∧ shapeReshape [2,3] [5] = none := by decide

end NmVerif.Props.C15

