// C09 kind matrix: normalisation of results of nmtools index functions / arrays, independent of the
// container kind the library chose for the result (constant tuple, clipped tuple, std::array,
// static_vector, vector, maybe<...>, fail type).  Used by the TUs that harness/gen_kinds_c09.py generates.
#pragma once
#include "nmtools/meta.hpp"
#include "nmtools/constants.hpp"
#include "nmtools/utl.hpp"
#include "nmtools/utility/at.hpp"
#include "nmtools/utility/shape.hpp"
#include "nmtools/utility/has_value.hpp"
#include "nmtools/utility/unwrap.hpp"
#include "nmtools/utility/get.hpp"
#include <string>

namespace nmtools { namespace array {} namespace view {} namespace index {} }

namespace k9 {
namespace nm = nmtools; namespace meta = nmtools::meta;

// clamp / capacity events reported by the -DNMTOOLS_VERIF hooks (include/nmtools/verif.hpp)
inline long long g_events = 0;

template <typename T> inline std::string items(const T& r);

template <typename T> inline constexpr bool is_scalar_v =
    meta::is_constant_index_v<T> || meta::is_clipped_integer_v<T> || meta::is_num_v<T> || meta::is_same_v<T,bool>;

template <typename T> inline std::string num(const T& v) {
    if constexpr (meta::is_constant_index_v<T>) return std::to_string((long long)T::value);
    else if constexpr (meta::is_clipped_integer_v<T>) return std::to_string((long long)(typename T::value_type)v);
    else if constexpr (is_scalar_v<T>) return std::to_string((long long)v);
    else if constexpr (nm::is_none_v<T>) return "None";
    else if constexpr (meta::is_maybe_v<T>) { if (!nm::has_value(v)) return "nothing"; return num(*v); }
    else return "(" + items(v) + ")";     // nested list (e.g. the free-axes mask of shape_broadcast_to)
}

template <typename T> inline std::string items(const T& r) {
    std::string o; bool first = true;
    auto put = [&](const auto& e){ if (!first) o += ","; first = false; o += num(e); };
    if constexpr (meta::is_tuple_v<T>) {
        constexpr auto N = meta::len_v<T>;
        meta::template_for<N>([&](auto i){ put(nm::at(r,i)); });
    } else {
        auto n = (size_t)nm::len(r);
        for (size_t i=0;i<n;i++) put(nm::at(r,i));
    }
    if (first) return "[]";
    return o;
}

template <typename T> inline std::string norm(const T& r) {
    if constexpr (meta::is_fail_v<T>) return "fail-type";
    else if constexpr (meta::is_maybe_v<T>) {
        if (!nm::has_value(r)) return "nothing";
        return norm(*r);
    }
    else if constexpr (nm::is_none_v<T>) return "ok None";
    else if constexpr (is_scalar_v<T>) return "ok " + num(r);
    else return "ok " + items(r);
}

// maybe<tuple<shape, extra...>> (shape_broadcast_to): nothing / whole tuple
// tuple<bool ok, value> (shape_concatenate): the flag decides between nothing and the value
template <typename T> inline std::string norm_flagged(const T& r) {
    if constexpr (meta::is_fail_v<T>) return "fail-type";
    else if constexpr (meta::is_maybe_v<T>) {
        if (!nm::has_value(r)) return "nothing";
        return norm_flagged(*r);
    } else {
        const auto& ok = nmtools::get<0>(r);
        if (!static_cast<bool>(ok)) return "nothing";
        return norm(nmtools::get<1>(r));
    }
}
} // namespace k9
