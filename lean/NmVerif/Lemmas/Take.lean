import NmVerif.Index.Take
import NmVerif.Lemmas.SelCommon
import NmVerif.Lemmas.Addressing
/-
  SPEC of np.take and proofs that the MODEL meets it on the domain "axis ≥ 0 (or None), entries ≥ 0".
  NumPy: `np.take(a, ind, axis=k).shape = a.shape[:k] + (len ind,) + a.shape[k+1:]`,
         `out[..., j, ...] = a[..., ind[j], ...]` (negative entries count from the end);
         axis None works on the flattened array.
-/
namespace NmVerif.Index

/-- NumPy: shape of `np.take(a, ind, axis=k)` for a 1-d index list of length `n` -/
def takeShapeSpec (s : Shape) (n k : Nat) : Shape := s.take k ++ n :: s.drop (k + 1)

/-- NumPy's reading of one index entry against an axis of extent `n` (negative entries count from the end) -/
def normIndex (n : Nat) (v : Int) : Option Nat :=
  if 0 ≤ v ∧ v < n then some v.toNat
  else if -(n : Int) ≤ v ∧ v < 0 then some (v + n).toNat
  else none

theorem shapeTake_eq_spec (s : Shape) (n k : Nat) (hk : k < s.length) :
    shapeTake s n (k : Int) = takeShapeSpec s n k := by
  unfold shapeTake takeShapeSpec
  rw [normAxis_nat, mapAt_nat]
  have : s[k]? = some s[k] := by simp [hk]
  rw [this]
  simp [List.set_eq_take_append_cons_drop, hk]

/-- `normalize_take_index` computes NumPy's reading of an entry inside `[-extent, extent)` -/
theorem takeEntry_norm (ind : List Int) (n x : Nat) (v : Int) (j : Nat) (h : ind[x]? = some v)
    (hn : normIndex n v = some j) : takeEntry ind n x = j := by
  simp only [takeEntry, h]
  unfold normIndex at hn
  split at hn
  · rename_i h1
    simp only [Option.some.injEq] at hn
    have : ¬ v < 0 := by omega
    rw [if_neg this, i2u_of_nonneg _ h1.1]; exact hn
  · split at hn
    · rename_i h2
      simp only [Option.some.injEq] at hn
      rw [if_pos h2.2, i2u_of_nonneg _ (by omega)]; exact hn
    · simp at hn

theorem takeEntry_nat (ind : List Int) (n x j : Nat) (h : ind[x]? = some (j : Int)) : takeEntry ind n x = j := by
  have : ¬ ((j : Int) < 0) := by omega
  simp [takeEntry, h, this, i2u_nat]

/-- a non-negative entry is used as it is, whatever the extent -/
theorem indexTake_eq_nat (d : Idx) (s : Shape) (ind : List Int) (k x j : Nat)
    (hx : d[k]? = some x) (hj : ind[x]? = some (j : Int)) : indexTake d s ind (k : Int) = d.set k j := by
  unfold indexTake
  rw [normAxis_nat, mapAt_nat, hx]
  simp [takeEntry_nat ind _ x j hj]

theorem normIndex_lt (n : Nat) (v : Int) (j : Nat) (h : normIndex n v = some j) : j < n := by
  unfold normIndex at h
  split at h
  · simp only [Option.some.injEq] at h; omega
  · split at h
    · simp only [Option.some.injEq] at h; omega
    · simp at h

theorem normIndex_isSome (n : Nat) (v : Int) (h1 : -(n : Int) ≤ v) (h2 : v < n) : ∃ j, normIndex n v = some j := by
  unfold normIndex
  by_cases c : 0 ≤ v ∧ v < n
  · exact ⟨_, by rw [if_pos c]⟩
  · have c2 : -(n : Int) ≤ v ∧ v < 0 := by omega
    exact ⟨_, by rw [if_neg c, if_pos c2]⟩

theorem axisExtent_nat (s : Shape) (k n : Nat) (h : s[k]? = some n) : axisExtent s (k : Int) = n := by
  simp [axisExtent, normAxis_nat, h]

theorem indexTake_eq (d : Idx) (s : Shape) (ind : List Int) (k x n : Nat) (v : Int) (j : Nat)
    (hx : d[k]? = some x) (hn : s[k]? = some n) (hv : ind[x]? = some v) (hj : normIndex n v = some j) :
    indexTake d s ind (k : Int) = d.set k j := by
  unfold indexTake
  rw [normAxis_nat, mapAt_nat, hx, axisExtent_nat s k n hn]
  simp [takeEntry_norm ind n x v j hv hj]

/-- an accepted (possibly negative) axis behaves exactly like its normalised position -/
theorem takeView_axis_normalize (s : Shape) (ind : List Int) (axis : Int) (k : Nat)
    (hk : normalizeAxis1 axis s.length = some k) :
    takeView s ind (some axis) = takeView s ind (some (k : Int)) := by
  simp [takeView, shapeTake, indexTake, axisExtent, normAxis_of_normalizeAxis1 axis _ k hk, normAxis_nat]

theorem takeShapeSpec_length (s : Shape) (n k : Nat) (hk : k < s.length) : (takeShapeSpec s n k).length = s.length := by
  simp [takeShapeSpec]; omega

theorem takeShapeSpec_eq_set (s : Shape) (n k : Nat) (hk : k < s.length) : takeShapeSpec s n k = s.set k n := by
  simp [takeShapeSpec, List.set_eq_take_append_cons_drop, hk]

end NmVerif.Index
