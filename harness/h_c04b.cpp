// C04 harness, part B: joining / splitting / windowing / diagonal views (view level, dynamic arrays)
//
// Operands: first  A = mk(shape)          data[k] = k
//           second B = mk(shape2, 1000)   data[k] = 1000 + k
// Answers : `ok shape=<dims> data=<elements, C order>` | `nothing` | `oob` | `unsupported` | `bad-args` |
//           `ok shape=<dims> data=huge` (a result extent wrapped around, nothing is enumerated) | `unknown-op`
//
// Request syntax (all values runtime: int / std::vector<int> / nm::None):
//   stack         shape=<dims> shape2=<dims> axis=<int>          view::stack(A, B, axis)
//   hstack        shape=<dims> shape2=<dims>                     view::hstack(A, B)
//   vstack        shape=<dims> shape2=<dims>                     view::vstack(A, B)
//   dstack        shape=<dims> shape2=<dims>                     view::dstack(A, B)
//   column_stack  shape=<dims> shape2=<dims>                     view::column_stack(A, B)
//   split         shape=<dims> sections=<int> axis=<int> part=<j>   view::split(A, sections, axis)[j]
//   split         shape=<dims> indices=<ints> axis=<int> part=<j>   view::split(A, indices, axis)[j]
//                 answer `ok parts=<N> shape=<dims> data=<...>` ; part >= N -> `ok parts=<N> part-out-of-range`
//   sliding_window shape=<dims> window=<int>   axis=None|<int>      view::sliding_window(A, window[, axis])
//   sliding_window shape=<dims> wlist=<ints>   axis=None            view::sliding_window(A, wlist)
//   sliding_window shape=<dims> wlist=<ints>   alist=<ints>         view::sliding_window(A, wlist, alist)
//   diagonal      shape=<dims> offset=<int> axis1=<int> axis2=<int> view::diagonal(A, offset, axis1, axis2)
//   diagflat      shape=<dims> k=<int>        view::diagflat(mk(shape, 1), k)   (source data[i] = i+1 : the fill
//                                             value of diagflat is hard-wired to 0, so 0 = fill, v>0 = source i=v-1)
#include "nmtools/array/view/stack.hpp"
#include "nmtools/array/view/hstack.hpp"
#include "nmtools/array/view/vstack.hpp"
#include "nmtools/array/view/dstack.hpp"
#include "nmtools/array/view/column_stack.hpp"
#include "nmtools/array/view/split.hpp"
#include "nmtools/array/view/sliding_window.hpp"
#include "nmtools/array/view/diagonal.hpp"
#include "nmtools/array/view/diagflat.hpp"
#include "c04_bc.hpp"
using namespace c04;

std::string handle(const std::string& op, const Args& a) {
    auto s = nats(a, "shape");
    if (op == "stack" || op == "hstack" || op == "vstack" || op == "dstack" || op == "column_stack") {
        auto A = mk(s); auto B = mk(nats(a, "shape2"), 1000);
        if (op == "stack") return sdump(view::stack(A, B, (int)integer(a, "axis")));
        if (op == "hstack") return sdump(view::hstack(A, B));
        if (op == "vstack") return sdump(view::vstack(A, B));
        if (op == "dstack") return sdump(view::dstack(A, B));
        return sdump(view::column_stack(A, B));
    }
    if (op == "split") {
        auto A = mk(s); int axis = (int)integer(a, "axis"); size_t part = (size_t)integer(a, "part");
        auto answer = [&](const auto& parts) {
            size_t n = nm::len(parts);
            std::string head = "ok parts=" + std::to_string(n);
            if (part >= n) return head + " part-out-of-range";
            auto r = sdump(nm::at(parts, part));
            if (r.rfind("ok ", 0) == 0) return head + r.substr(2);
            return r;
        };
        if (has(a, "sections")) return answer(view::split(A, (int)integer(a, "sections"), axis));
        return answer(view::split(A, intsi(a, "indices"), axis));
    }
    if (op == "sliding_window") {
        auto A = mk(s);
        if (has(a, "window")) {
            int w = (int)integer(a, "window");
            if (is_none(a, "axis")) return sdump(view::sliding_window(A, w));
            return sdump(view::sliding_window(A, w, (int)integer(a, "axis")));
        }
        auto w = intsi(a, "wlist");
        if (has(a, "alist")) return sdump(view::sliding_window(A, w, intsi(a, "alist")));
        if (is_none(a, "axis")) return sdump(view::sliding_window(A, w));
        return "bad-args";
    }
    if (op == "diagonal") {
        auto A = mk(s);
        return sdump(view::diagonal(A, (int)integer(a, "offset"), (int)integer(a, "axis1"), (int)integer(a, "axis2")));
    }
    if (op == "diagflat") { auto A = mk(s, 1); return sdump(view::diagflat(A, (int)integer(a, "k"))); }
    return "unknown-op";
}
