import NmVerif.Containers.NDArrayObj
import NmVerif.Lemmas.Addressing
import NmVerif.Arr
/-
  C20 — Array objects keep their invariants under resize, write (and writes through mutable views).
-/
namespace NmVerif.Props.C20
open NmVerif NmVerif.NDObj

theorem resizeBuf_length (d : List Int) (n : Nat) : (resizeBuf d n).length = n := by
  simp [resizeBuf]

theorem prod_replicate_one (k n : Nat) : prod (List.replicate k 1 ++ [n]) = n := by
  induction k with
  | zero => simp [prod]
  | succ m ih => simp [List.replicate_succ, prod, ih]

/-- a freshly constructed array satisfies the invariant -/
theorem init_inv (c : Cfg) (h : CfgOk c) : ObjInv c (init c) := by
  obtain ⟨hs, hb⟩ := h
  unfold ObjInv init
  refine ⟨?_, rfl, ?_, ?_⟩
  · cases hsk : c.sk <;> cases hbk : c.bk <;> simp [prod, prod_replicate_one]
  · cases hsk : c.sk <;> simp_all <;> omega
  · cases hbk : c.bk <;> simp_all <;> omega

/-- a refused resize returns false and leaves shape, strides and contents unchanged -/
theorem resize_refused_unchanged (c : Cfg) (st : St) (new : List Nat) (h : (resize c st new).2 = false) :
    (resize c st new).1 = st := by
  by_cases hacc : accepts c st new = true
  · simp [resize, hacc] at h
  · simp [resize, hacc]

/-- an accepted resize installs exactly the requested shape, matching strides and element count -/
theorem resize_accepted (c : Cfg) (st : St) (new : List Nat) (h : (resize c st new).2 = true) :
    (resize c st new).1.shape = new ∧ (resize c st new).1.strides = stridesOf c.colMajor new ∧
    (resize c st new).1.data.length = prod new := by
  by_cases hacc : accepts c st new = true
  · simp [resize, hacc, resizeBuf_length]
  · simp [resize, hacc] at h

/-- an accepted resize keeps the common prefix of the buffer (std::vector / static_vector semantics) -/
theorem resize_keeps_prefix (c : Cfg) (st : St) (new : List Nat) (k : Nat) (hk : k < st.data.length) (hk2 : k < prod new)
    (h : (resize c st new).2 = true) : (resize c st new).1.data[k]? = st.data[k]? := by
  by_cases hacc : accepts c st new = true
  · simp only [resize, hacc, if_true, resizeBuf, List.getElem?_take, hk2, List.getElem?_append_left hk]
  · simp [resize, hacc] at h

theorem resize_inv (c : Cfg) (st : St) (new : List Nat) (hi : ObjInv c st) : ObjInv c (resize c st new).1 := by
  unfold resize
  split
  · rename_i hacc
    unfold accepts at hacc
    simp only [Bool.and_eq_true] at hacc
    obtain ⟨h1, h2⟩ := hacc
    refine ⟨by simp [resizeBuf_length], rfl, ?_, ?_⟩
    · obtain ⟨_, _, hk, _⟩ := hi
      cases hsk : c.sk <;> simp_all <;> omega
    · obtain ⟨_, _, _, hk⟩ := hi
      cases hbk : c.bk <;> simp_all [resizeBuf_length]
  · exact hi

theorem write_inv (c : Cfg) (st : St) (i : Idx) (v : Int) (hi : ObjInv c st) : ObjInv c (write st i v) := by
  unfold ObjInv write at *; simpa using hi

theorem fill_inv (c : Cfg) (st : St) (b : Int) (hi : ObjInv c st) : ObjInv c (fill st b) := by
  unfold ObjInv fill at *; simpa using hi

/-- one step preserves the invariant -/
theorem step_inv (c : Cfg) (st : St) (op : Op) (hi : ObjInv c st) : ObjInv c (step c st op).1 := by
  cases op with
  | resize s => exact resize_inv c st s hi
  | write i v => exact write_inv c st i v hi
  | fill b => exact fill_inv c st b hi

/-- EVERY reachable state (any operation sequence of any length) satisfies the invariant:
    product of shape = element count, strides match shape and layout, kind constraints hold -/
theorem reachable_inv (c : Cfg) (h : CfgOk c) (ops : List Op) : ObjInv c (run c (init c) ops) := by
  have key : ∀ (st : St), ObjInv c st → ObjInv c (run c st ops) := by
    induction ops with
    | nil => intro st hst; exact hst
    | cons o os ih => intro st hst; exact ih _ (step_inv c st o hst)
  exact key _ (init_inv c h)

/-- distinct in-shape indices address distinct buffer cells, inside the buffer (either layout) -/
theorem distinct_cells (c : Cfg) (st : St) (hi : ObjInv c st) (i j : Idx) (hI : InShape i st.shape) (hJ : InShape j st.shape)
    (hne : i ≠ j) : computeOffset i st.strides ≠ computeOffset j st.strides ∧ computeOffset i st.strides < st.data.length := by
  obtain ⟨hlen, hstr, _, _⟩ := hi
  rw [hstr, hlen]
  unfold stridesOf
  split
  · exact ⟨fun h => hne (colOffset_injective hI hJ h), colOffset_lt hI⟩
  · exact ⟨fun h => hne (offset_injective hI hJ h), offset_lt hI⟩

/-- write then read: exactly the addressed element changes -/
theorem write_read (c : Cfg) (st : St) (hi : ObjInv c st) (i j : Idx) (hI : InShape i st.shape) (hJ : InShape j st.shape) (v : Int) :
    read? (write st i v) j = if i = j then some v else read? st j := by
  unfold read? write
  simp only [List.getElem?_set]
  by_cases hij : i = j
  · subst hij
    have := (distinct_cells c st hi i i hI hI)
    have hlt : computeOffset i st.strides < st.data.length := by
      obtain ⟨hlen, hstr, _, _⟩ := hi
      rw [hstr, hlen]; unfold stridesOf; split
      · exact colOffset_lt hI
      · exact offset_lt hI
    simp [hlt]
  · have := (distinct_cells c st hi i j hI hJ hij).1
    simp [hij, this]

/-- writing through a mutable indexing view (mutable_reshape / mutable_flatten / mutable_ref / mutable_slice)
    at destination index `d` changes exactly the source element `map d` and nothing else -/
theorem mutable_view_write_exact (c : Cfg) (st : St) (hi : ObjInv c st) (v : IxView) (hsrc : v.src = st.shape)
    (hb : v.InBounds) (d : Idx) (hd : InShape d v.dst) (i : Idx) (hm : v.map d = some i) (j : Idx) (hJ : InShape j st.shape) (x : Int) :
    read? (write st i x) j = if i = j then some x else read? st j :=
  write_read c st hi i j (hsrc ▸ hb d hd i hm) hJ x

/-! non-vacuity -/
example : CfgOk ⟨.fixedDim 2, .dyn, false⟩ ∧ CfgOk ⟨.dyn, .fixed 6, true⟩ ∧ CfgOk ⟨.bounded 3, .bounded 8, false⟩ := by
  simp [CfgOk]
example : (resize ⟨.dyn, .fixed 6, false⟩ (resize ⟨.dyn, .fixed 6, false⟩ (init ⟨.dyn, .fixed 6, false⟩) [2,3]).1 [2,2,2]).2 = false := by decide
example : (resize ⟨.fixedDim 2, .dyn, false⟩ (init ⟨.fixedDim 2, .dyn, false⟩) [2,3]).2 = true := by decide

end NmVerif.Props.C20

namespace NmVerif.Props.C20
open NmVerif NmVerif.NDObj

/-- the strides an array reports agree with its addressing strides for row-major arrays … -/
theorem reportedStrides_rowMajor (c : Cfg) (st : St) (hi : ObjInv c st) (hc : c.colMajor = false) :
    reportedStrides st = st.strides := by
  obtain ⟨_, hstr, _, _⟩ := hi
  simp [reportedStrides, hstr, stridesOf, hc]

/-- … but NOT for column-major ones (known finding C20.colmajor-strides): `strides()` of a column-major (2,3) array
    reports (3,1) while elements are addressed with (1,2) -/
theorem reportedStrides_colMajor_counterexample :
    let c : Cfg := ⟨.dyn, .dyn, true⟩
    let st := (resize c (init c) [2,3]).1
    ObjInv c st ∧ reportedStrides st = [3,1] ∧ st.strides = [1,2] := by
  refine ⟨?_, by decide, by decide⟩
  exact resize_inv _ _ _ (init_inv _ (by simp [CfgOk]))

end NmVerif.Props.C20
