/-
  L4 `Functional` — functors, currying, composition, combinators, extraction (C14).

  Mirrors include/nmtools/array/functional/functor.hpp, function_composition.hpp, combinator.hpp, compute_graph.hpp,
  utility/ct_map.hpp, utility/ct_digraph.hpp:

    fmap_t<F, Arity, N_OUT>                       `Functor`: arity + a map from (attributes, exactly `arity` operands) to N_OUT results
    functor_t<F, operands_t, attributes_t>        `Fn`: fmap + attributes bound by operator[] + operands bound so far
    functor_t::arity = F::arity - len(operands)   `Fn.arity`
    apply_function_t<functor_t>::operator()       `applyFn`   (0-arity apply / return self / apply and pass the rest / curry / apply)
    functor_composition_t<tuple<functors...>, operands>   `Comp`
    operator* (4 overloads)                       `FC.mul` : all of them are list append (operands held by a composition are dropped)
    apply_function_t<functor_composition_t>::operator()   `applyComp` / `run`: take the LAST functor, apply it to the first `arity`
                                                  operands, put the result(s) in front of the remaining operands, recurse
    combinator::swap / dup_n / dig_n / bury_n     operand-list rearrangements
    get_function_composition(view)                `compile`  : function * (composition of each view operand, visited last to first),
                                                  each operand through the `if constexpr` chain `View.dispatch` (alias / view / number-or-array)
    get_function_operands(view)                   `operandsOf`: leaves of the operands, visited first to last
    get_compute_graph(view)                       `graphOf` over ct_map / ct_digraph (`Graph.addNode` = insert-if-absent, `addEdge`)

  `V` = operand values (arrays / views, opaque), `A` = attribute values.  Core Lean only (linked into the driver).
-/
namespace NmVerif.Functional

/-- `fmap_t<F,Arity,N_OUT>` -/
structure Functor (A V : Type) where
  arity : Nat
  fmap : List A → List V → List V

/-- `functor_t<F,operands_t,attributes_t>` -/
structure Fn (A V : Type) where
  f : Functor A V
  attrs : List A
  held : List V

namespace Fn
variable {A V : Type}

def ofFunctor (f : Functor A V) : Fn A V := ⟨f, [], []⟩

/-- `functor_t::arity` -/
def arity (g : Fn A V) : Nat := g.f.arity - g.held.length

/-- `operator[]`: `tuple_append(attributes, new_attribute)` -/
def withAttr (g : Fn A V) (a : A) : Fn A V := { g with attrs := g.attrs ++ [a] }

/-- currying: `initialize_operands(functor.operands, new_operands...)` -/
def bind (g : Fn A V) (xs : List V) : Fn A V := { g with held := g.held ++ xs }

/-- the fmap call with everything bound so far plus `xs` -/
def call (g : Fn A V) (xs : List V) : List V := g.f.fmap g.attrs (g.held ++ xs)

end Fn

/-- what applying operands to a functor returns: still a functor (currying) or the operand tuple / result -/
inductive Res (A V : Type) where
  | curried (g : Fn A V)
  | values (vs : List V)

/-- `apply_function_t<functor_t>::operator()(new_operands...)`, functor.hpp:368-428 -/
def applyFn {A V : Type} (g : Fn A V) (new : List V) : Res A V :=
  if new.length = 0 then
    if g.arity = 0 then .values (g.call []) else .curried g
  else if g.arity < new.length then
    -- apply to the first `arity` operands, push / cat the result in front of the others
    .values (g.call (new.take g.arity) ++ new.drop g.arity)
  else if new.length < g.arity then .curried (g.bind new)
  else .values (g.call new)

/-- operands given chunk by chunk (`f (a) (b,c) (d)`); applying to a finished result is not a C++ program: `none` -/
def applyChunks {A V : Type} (g : Fn A V) : List (List V) → Option (Res A V)
  | [] => some (.curried g)
  | c :: cs =>
    match applyFn g c with
    | .curried g' => applyChunks g' cs
    | .values vs => if cs.isEmpty then some (.values vs) else none

/-! ### compositions -/

/-- `functor_composition_t` -/
structure Comp (A V : Type) where
  fs : List (Fn A V)
  held : List V

/-- `functor_composition_t::arity`: Σ arity_i, minus one for every functor but the right-most -/
def Comp.arity {A V : Type} (c : Comp A V) : Int :=
  (c.fs.map (fun g => (g.arity : Int))).sum - ((c.fs.length : Int) - 1)

inductive CRes (A V : Type) where
  | curried (c : Comp A V)
  | values (vs : List V)

/-- the stack machine: `rfs` = the functors still to run, next one first (= the composition reversed).
    `none` = neither enough operands for the next functor nor a positive remaining arity (the C++ returns nothing). -/
def run {A V : Type} : List (Fn A V) → List V → Option (CRes A V)
  | [], ops => some (.values ops)
  | g :: rest, ops =>
    if g.arity ≤ ops.length then
      run rest (g.call (ops.take g.arity) ++ ops.drop g.arity)
    else
      let c : Comp A V := ⟨(g :: rest).reverse, ops⟩
      if 0 < c.arity - ops.length then some (.curried c) else none

/-- `apply_function_t<functor_composition_t>::operator()(new_operands...)`, functor.hpp:450-528 -/
def applyComp {A V : Type} (c : Comp A V) (new : List V) : Option (CRes A V) :=
  run c.fs.reverse (c.held ++ new)

/-- a functor or a composition, the two operand kinds of `operator*` -/
inductive FC (A V : Type) where
  | fn (g : Fn A V)
  | comp (fs : List (Fn A V))

def FC.toList {A V : Type} : FC A V → List (Fn A V)
  | .fn g => [g]
  | .comp fs => fs

/-- the four `operator*` overloads (functor.hpp:288-300,348-366) -/
def FC.mul {A V : Type} : FC A V → FC A V → FC A V
  | .fn f, .fn g => .comp [f, g]
  | .fn f, .comp gs => .comp (f :: gs)              -- tuple_cat(tuple{*this}, other.functors)
  | .comp fs, .comp gs => .comp (fs ++ gs)          -- tuple_cat(left.functors, right.functors)
  | .comp fs, .fn g => .comp (fs ++ [g])            -- tuple_append(left.functors, right)

/-! ### combinators (combinator.hpp) -/

def swapF {A V : Type} : Functor A V :=
  ⟨2, fun _ xs => match xs with | [a, b] => [b, a] | _ => xs⟩
/-- `dup_n<N>` -/
def dupF {A V : Type} (n : Nat) : Functor A V :=
  ⟨1, fun _ xs => match xs with | [a] => List.replicate n a | _ => xs⟩
/-- `dig_n<N>`: operand N comes to the front -/
def digF {A V : Type} (n : Nat) : Functor A V :=
  ⟨n + 1, fun _ xs => match xs[n]? with | some x => x :: (xs.take n ++ xs.drop (n + 1)) | none => xs⟩
/-- `bury_n<N>`: the front operand goes to position N -/
def buryF {A V : Type} (n : Nat) : Functor A V :=
  ⟨n + 1, fun _ xs => match xs with | x :: r => r.take n ++ x :: r.drop n | [] => xs⟩

/-! ### views and extraction -/

/-- a view function: `arity` operands, one result -/
structure VFun (A V : Type) where
  arity : Nat
  fmap1 : List A → List V → V

def VFun.toFunctor {A V : Type} (f : VFun A V) : Functor A V := ⟨f.arity, fun ats xs => [f.fmap1 ats xs]⟩

mutual
/-- the view tree.  An operand of a view is one of the kinds the extraction code tells apart by type traits
    (`get_function_composition_t`, function_composition.hpp:46-66,89-125; `get_function_operands_t`, functor.hpp:788-811):

      leaf  i   a host array (pointer / bounded array):          `is_ndarray ∧ ¬is_view`
      alias i   `view::alias(x_i, id)` of a host array:           `is_view`, `is_same_view<alias_t>`
      lit   i   a number literal (`add(a, 2)`), held by value:     `is_num ∧ ¬is_view`
      node      an ARRAY-valued view function of its operands:     `is_view ∧ is_ndarray`
      snode     a NUMBER-valued view (a reduction over ALL axes, `reduce_add(a, None)`, keepdims false: a 0-d result
                that broadcasts like a scalar):                     `is_view ∧ is_num`

    `id` = which operand of the program (host array or literal).  Broadcast views that a ufunc puts around its operands
    are part of the ufunc node (`get_function_composition` looks through them — the dispatch below is applied to what is
    inside — and the ufunc functor re-creates them). -/
inductive View (A V : Type) where
  | leaf (id : Nat)
  | alias (id : Nat)
  | lit (id : Nat)
  | node (f : VFun A V) (attrs : List A) (args : Args A V)
  | snode (f : VFun A V) (attrs : List A) (args : Args A V)
inductive Args (A V : Type) where
  | nil
  | cons (v : View A V) (rest : Args A V)
end

/-- `meta::is_view_v<operand_t>` -/
def View.isView {A V : Type} : View A V → Bool
  | .leaf _ => false | .alias _ => true | .lit _ => false | .node .. => true | .snode .. => true
/-- `meta::is_same_view_v<view::alias_t, operand_t>` -/
def View.isAlias {A V : Type} : View A V → Bool
  | .alias _ => true | _ => false
/-- `meta::is_num_v<operand_t>`: number literals AND number-valued views -/
def View.isNum {A V : Type} : View A V → Bool
  | .lit _ => true | .snode .. => true | _ => false
/-- `meta::is_ndarray_v<operand_t>` -/
def View.isNdarray {A V : Type} : View A V → Bool
  | .leaf _ => true | .alias _ => true | .node .. => true | _ => false

/-- the `if constexpr` chain applied to every operand (after looking through the broadcast_to of a ufunc), with `sub` =
    `get_function_composition(operand)`:
      `is_same_view_v<alias_t, operand_t>`                     → `init`                    ("finish")
      `is_view_v<operand_t>`                                   → `init * sub`
      `(is_num_v || is_ndarray_v) && !is_view_v`               → `init`
    (anything else is refused by the `static_assert` in front of the chain: `View.operandKindOk`).  The order of the
    tests matters: a number-valued view satisfies `is_num_v` too. -/
def View.dispatch {A V : Type} (v : View A V) (sub : List (Fn A V)) : List (Fn A V) :=
  if v.isAlias then [] else if v.isView then sub else []

/-- the `static_assert` in front of the chain -/
def View.operandKindOk {A V : Type} (v : View A V) : Bool :=
  v.isView || ((v.isNum || v.isNdarray) && !v.isView)

mutual
/-- host evaluation -/
def View.denote {A V : Type} (env : Nat → V) : View A V → V
  | .leaf i => env i
  | .alias i => env i
  | .lit i => env i
  | .node f ats args => f.fmap1 ats (Args.denote env args)
  | .snode f ats args => f.fmap1 ats (Args.denote env args)
def Args.denote {A V : Type} (env : Nat → V) : Args A V → List V
  | .nil => []
  | .cons v rest => View.denote env v :: Args.denote env rest
end

mutual
/-- `get_function_composition`: `function * sub-composition(operand N-1) * … * sub-composition(operand 0)` -/
def View.compile {A V : Type} : View A V → List (Fn A V)
  | .leaf _ => []
  | .alias _ => []
  | .lit _ => []
  | .node f ats args => ⟨f.toFunctor, ats, []⟩ :: Args.compileRev args
  | .snode f ats args => ⟨f.toFunctor, ats, []⟩ :: Args.compileRev args
/-- sub-compositions of the operands, visited from the last operand to the first, each through the operand dispatch -/
def Args.compileRev {A V : Type} : Args A V → List (Fn A V)
  | .nil => []
  | .cons v rest => Args.compileRev rest ++ View.dispatch v (View.compile v)
end

mutual
/-- `get_function_operands`: leaves, operands visited first to last (ids of the host arrays / literals, one per occurrence);
    a view operand (`is_view_v`: alias, array- or number-valued view) is descended into, anything else is appended -/
def View.operandsOf {A V : Type} : View A V → List Nat
  | .leaf i => [i]
  | .alias i => [i]
  | .lit i => [i]
  | .node _ _ args => Args.operandsOf args
  | .snode _ _ args => Args.operandsOf args
def Args.operandsOf {A V : Type} : Args A V → List Nat
  | .nil => []
  | .cons v rest => View.operandsOf v ++ Args.operandsOf rest
end

def Args.length {A V : Type} : Args A V → Nat
  | .nil => 0
  | .cons _ rest => 1 + rest.length

/-- a view function applied to nothing but host arrays / aliases / literals -/
def View.isLeaf {A V : Type} : View A V → Bool
  | .leaf _ => true | .alias _ => true | .lit _ => true | _ => false

def Args.allLeaves {A V : Type} : Args A V → Bool
  | .nil => true
  | .cons v rest => v.isLeaf && rest.allLeaves

mutual
/-- the trees on which extraction is right: every node has as many operands as its arity and only its FIRST operand
    may itself be a view (array- or number-valued) -/
def View.leftLinear {A V : Type} : View A V → Bool
  | .leaf _ => true
  | .alias _ => true
  | .lit _ => true
  | .node f _ args => (args.length == f.arity) && Args.leftLinear args
  | .snode f _ args => (args.length == f.arity) && Args.leftLinear args
def Args.leftLinear {A V : Type} : Args A V → Bool
  | .nil => true
  | .cons v rest => View.leftLinear v && rest.allLeaves
end

mutual
/-- every node has as many operands as its arity (what the view constructors guarantee); sub-views in any position -/
def View.wellFormed {A V : Type} : View A V → Bool
  | .leaf _ => true
  | .alias _ => true
  | .lit _ => true
  | .node f _ args => (args.length == f.arity) && Args.wellFormed args
  | .snode f _ args => (args.length == f.arity) && Args.wellFormed args
def Args.wellFormed {A V : Type} : Args A V → Bool
  | .nil => true
  | .cons v rest => View.wellFormed v && Args.wellFormed rest
end

mutual
/-- SPEC of the operand list: leaves in reading order, by an accumulator passed right to left (independent of `operandsOf`) -/
def View.leavesAcc {A V : Type} : View A V → List Nat → List Nat
  | .leaf i, acc => i :: acc
  | .alias i, acc => i :: acc
  | .lit i, acc => i :: acc
  | .node _ _ args, acc => Args.leavesAcc args acc
  | .snode _ _ args, acc => Args.leavesAcc args acc
def Args.leavesAcc {A V : Type} : Args A V → List Nat → List Nat
  | .nil, acc => acc
  | .cons v rest, acc => View.leavesAcc v (Args.leavesAcc rest acc)
end

mutual
/-- number of operations in a view tree (array- and number-valued views alike) -/
def View.nOps {A V : Type} : View A V → Nat
  | .leaf _ => 0
  | .alias _ => 0
  | .lit _ => 0
  | .node _ _ args => 1 + Args.nOps args
  | .snode _ _ args => 1 + Args.nOps args
def Args.nOps {A V : Type} : Args A V → Nat
  | .nil => 0
  | .cons v rest => View.nOps v + Args.nOps rest
end

mutual
/-- SPEC of what the extracted composition must consist of: the operations of the view tree in EXECUTION order (post-order:
    operands first to last, then the node), each with the attribute list its view carries (`view.attributes()`: axis, shape,
    … and the op of a ufunc WITH its run-time parameters — leaky_relu slope, elu alpha, hardtanh bounds, …) -/
def View.opsPost {A V : Type} : View A V → List (VFun A V × List A)
  | .leaf _ => []
  | .alias _ => []
  | .lit _ => []
  | .node f ats args => Args.opsPost args ++ [(f, ats)]
  | .snode f ats args => Args.opsPost args ++ [(f, ats)]
def Args.opsPost {A V : Type} : Args A V → List (VFun A V × List A)
  | .nil => []
  | .cons v rest => View.opsPost v ++ Args.opsPost rest
end

/-- `get_function(view)` = `functor[view.attributes()]`: the functor of the view function with the view's attributes bound, no operands -/
def VFun.bindAttrs {A V : Type} (p : VFun A V × List A) : Fn A V := ⟨p.1.toFunctor, p.2, []⟩

/-! ### compute graph over ct_map / ct_digraph -/

/-- `ct_digraph`: two insertion-ordered `ct_map`s (node → out-edges, node → data) that always have the same keys
    (`add_node` inserts into both, nothing else inserts), kept here as one list of entries `(key, data, out-edges)` -/
structure Graph (L : Type) where
  entries : List (Nat × L × List Nat)

namespace Graph
variable {L : Type}
def empty : Graph L := ⟨[]⟩
def keys (g : Graph L) : List Nat := g.entries.map (·.1)
def hasNode (g : Graph L) (k : Nat) : Bool := g.keys.contains k
/-- `add_node` = `ct_map::insert`: a key that is already present is left alone (first one wins) -/
def addNode (g : Graph L) (k : Nat) (l : L) : Graph L :=
  if g.hasNode k then g else ⟨g.entries ++ [(k, l, [])]⟩
/-- `add_edge(from, to)`: appended to the out-edges of `from` unless present; `none` = `from` is not a node
    (`ct_map::at` answers CT_MAP_OUT_OF_RANGE: the C++ does not compile) -/
def addEdge (g : Graph L) (src dst : Nat) : Option (Graph L) :=
  if g.hasNode src then
    some ⟨g.entries.map fun e => if e.1 == src && !e.2.2.contains dst then (e.1, e.2.1, e.2.2 ++ [dst]) else e⟩
  else none
def entryEdges (e : Nat × L × List Nat) : List (Nat × Nat) := e.2.2.map fun d => (e.1, d)
def edges (g : Graph L) : List (Nat × Nat) := g.entries.flatMap entryEdges
def nodes (g : Graph L) : List (Nat × L) := g.entries.map fun e => (e.1, e.2.1)
end Graph

/-- node labels of the model graph -/
inductive GLabel where
  | leaf (id : Nat)                 -- which host array
  | op (operands : List Nat)        -- `node_t::operands`: node ids of the inputs, in operand order
deriving DecidableEq, Repr

mutual
/-- view tree decorated with the node id of every leaf occurrence and every operation -/
inductive IView where
  | leaf (nid : Nat) (id : Nat)
  | node (nid : Nat) (args : IArgs)
inductive IArgs where
  | nil
  | cons (v : IView) (rest : IArgs)
end

def IView.nid : IView → Nat
  | .leaf n _ => n
  | .node n _ => n

def IArgs.ids : IArgs → List Nat
  | .nil => []
  | .cons v rest => v.nid :: rest.ids

def IArgs.len : IArgs → Nat
  | .nil => 0
  | .cons _ rest => 1 + rest.len

/-- merge `sub` into `g` the way both `get_compute_graph_t` specialisations do: for every key of `sub` (insertion order)
    `add_node(key, data)` then `add_edge(key, out)` for its out-edges -/
def Graph.mergeEntry {L : Type} (acc : Graph L) (e : Nat × L × List Nat) : Option (Graph L) :=
  e.2.2.foldlM (fun a d => a.addEdge e.1 d) (acc.addNode e.1 e.2.1)
def Graph.merge {L : Type} (g sub : Graph L) : Option (Graph L) :=
  sub.entries.foldlM Graph.mergeEntry g

mutual
/-- `get_compute_graph` with the node ids the decorators carry: sub-graphs of the operands merged first to last, then
    `add_node(id, node_t{functor, operand ids})`, then `add_edge(operand id, id)` for every operand -/
def IView.graph : IView → Option (Graph GLabel)
  | .leaf n i => some (Graph.empty.addNode n (.leaf i))
  | .node n args => do
      let g ← IArgs.graph args Graph.empty
      let g := g.addNode n (.op args.ids)
      args.ids.foldlM (fun a src => a.addEdge src n) g
def IArgs.graph : IArgs → Graph GLabel → Option (Graph GLabel)
  | .nil, g => some g
  | .cons v rest, g => do
      let sub ← IView.graph v
      let g' ← g.merge sub
      IArgs.graph rest g'
end

mutual
/-- all node ids of a decorated tree, reading order (operands first to last, then the node) -/
def IView.allIds : IView → List Nat
  | .leaf n _ => [n]
  | .node n args => IArgs.allIds args ++ [n]
def IArgs.allIds : IArgs → List Nat
  | .nil => []
  | .cons v rest => IView.allIds v ++ IArgs.allIds rest
end

mutual
/-- SPEC: one node per leaf occurrence (labelled with its host array) and per operation (labelled with its inputs) -/
def IView.specNodes : IView → List (Nat × GLabel)
  | .leaf n i => [(n, .leaf i)]
  | .node n args => IArgs.specNodes args ++ [(n, .op args.ids)]
def IArgs.specNodes : IArgs → List (Nat × GLabel)
  | .nil => []
  | .cons v rest => IView.specNodes v ++ IArgs.specNodes rest
end

mutual
/-- SPEC: edges exactly from each operation's inputs -/
def IView.specEdges : IView → List (Nat × Nat)
  | .leaf _ _ => []
  | .node n args => IArgs.specEdges args ++ args.ids.map (fun s => (s, n))
def IArgs.specEdges : IArgs → List (Nat × Nat)
  | .nil => []
  | .cons v rest => IView.specEdges v ++ IArgs.specEdges rest
end

/-- `index::generate_alias(ids, base = 512, prime = 1033)`: polynomial rolling hash -/
def generateAlias (ids : List Nat) (base : Nat := 512) (prime : Nat := 1033) : Nat :=
  ids.foldl (fun r x => (r * base + x) % prime) 0

end NmVerif.Functional
