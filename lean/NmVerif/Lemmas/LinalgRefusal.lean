import NmVerif.Lemmas.LinalgMatmul
import NmVerif.Lemmas.LinalgMatmulV2
import NmVerif.Lemmas.LinalgDot
/-
  Refusals (C16: "the shape NumPy produces" — for operands NumPy refuses there is none): a routine answers `Nothing`
  exactly on the operand pairs NumPy refuses.  `view::matmul` decides with `index::shape_matmul`; `view::dot` through the
  element count of its reshape (tile by the rhs column count, reshape to `… ++ [n, k']`): `k·n = n·k'` only for `k = k'`.
-/
namespace NmVerif
open NmVerif.MB
open Linalg

theorem matmulV1_isSome_iff (sa sb : Shape) (ha : 1 ≤ sa.length) (hb : 1 ≤ sb.length) :
    (matmulV1 sa sb).isSome ↔ (specMatmulShape sa sb).isSome := by
  rw [← shapeMatmul_eq_spec sa sb ha hb]
  unfold matmulV1
  cases shapeMatmul sa sb <;> simp

theorem reshape_isSome {α : Type} {a : Arr α} {t : Shape} {r : Arr α} (h : reshape a t = some r) : prod a.shape = prod t := by
  unfold reshape at h
  split at h
  · assumption
  · simp at h

theorem specDot_isSome_iff (ba sb : Shape) (k : Nat) :
    (specDot (ba ++ [k]) sb).isSome ↔ (if sb.length = 1 then sb.head? else sb[sb.length - 2]?) = some k := by
  unfold specDot
  have h1 : (ba ++ [k]).getLast? = some k := by simp
  rw [h1]
  cases hk : (if sb.length = 1 then sb.head? else sb[sb.length - 2]?) with
  | none => simp
  | some k' =>
    simp only
    by_cases e : k = k'
    · simp [e]
    · simp [e]; exact fun h => e h.symm

/-- `view::dot` yields a value only if the contracted extents agree (positive extents) -/
theorem dot_some_contracted (ba sb : Shape) (k : Nat) (hb : 1 ≤ sb.length) (hpa : Pos (ba ++ [k])) (hpb : Pos sb)
    (r : Arr (List Term)) (h : dot (ba ++ [k]) sb = some r) :
    (if sb.length = 1 then sb.head? else sb[sb.length - 2]?) = some k := by
  have hpba : 0 < prod ba := prod_pos (Pos_append.1 hpa).1
  by_cases hb2 : 2 ≤ sb.length
  · obtain ⟨bb, k', n, rfl⟩ := exists_append_two sb hb2
    have hn : 0 < n := (Pos_append.1 hpb).2 n (by simp)
    have e1 : ¬ (bb ++ [k', n]).length = 1 := by simp
    simp only [e1, if_false]
    have e2 : (bb ++ [k', n]).length - 2 = bb.length := by simp
    rw [e2]
    simp only [List.getElem?_append_right (Nat.le_refl _), Nat.sub_self, List.getElem?_cons_zero]
    unfold dot at h
    rw [dotLhsTile_x2, dotLhsReshape_x2] at h
    simp only [Option.bind_eq_bind, Option.bind_some] at h
    cases hr : reshape (tile (ident (ba ++ [k])) (List.replicate ba.length 1 ++ [n])) (ba ++ List.replicate bb.length 1 ++ [n, k']) with
    | none => rw [hr] at h; simp at h
    | some tfL =>
      have hp := reshape_isSome hr
      have hs : (tile (ident (ba ++ [k])) (List.replicate ba.length 1 ++ [n])).shape = ba ++ [k * n] := tile_last_shape ba k n
      rw [hs] at hp
      simp only [prod_append, prod_ones, prod_one', prod_two, Nat.mul_one] at hp
      have : k * n = n * k' := Nat.eq_of_mul_eq_mul_left hpba hp
      have : k = k' := by
        rw [Nat.mul_comm k n] at this
        exact Nat.eq_of_mul_eq_mul_left hn this
      rw [this]
  · obtain ⟨k', rfl⟩ := eq_singleton_of_length hb hb2
    simp only [List.length_singleton, if_true, List.head?_cons]
    unfold dot at h
    rw [dotLhsTile_x1, dotLhsReshape_x1] at h
    simp only [Option.bind_eq_bind, Option.bind_some] at h
    cases hr : reshape (tile (ident (ba ++ [k])) (List.replicate (ba ++ [k]).length 1)) (ba ++ [k']) with
    | none => rw [hr] at h; simp at h
    | some tfL =>
      have hp := reshape_isSome hr
      have hs : (tile (ident (ba ++ [k])) (List.replicate (ba ++ [k]).length 1)).shape = ba ++ [k] := by
        show shapeTile (ba ++ [k]) (List.replicate (ba ++ [k]).length 1) = ba ++ [k]
        rw [shapeTile_eq_length _ _ (by simp), zipWith_mul_replicate_one]
      rw [hs] at hp
      simp only [prod_append, prod_one'] at hp
      rw [Nat.eq_of_mul_eq_mul_left hpba hp]

/-- `view::dot` answers a value exactly on the operand pairs `np.dot` accepts (ranks ≥ 1, positive extents) -/
theorem dot_isSome_iff_spec (sa sb : Shape) (ha : 1 ≤ sa.length) (hb : 1 ≤ sb.length) (hpa : Pos sa) (hpb : Pos sb) :
    (dot sa sb).isSome ↔ (specDot sa sb).isSome := by
  obtain ⟨ba, k, rfl⟩ := exists_append_one sa ha
  constructor
  · intro h
    obtain ⟨r, hr⟩ := Option.isSome_iff_exists.1 h
    exact (specDot_isSome_iff ba sb k).2 (dot_some_contracted ba sb k hb hpa hpb r hr)
  · intro h
    obtain ⟨s, hs⟩ := Option.isSome_iff_exists.1 h
    obtain ⟨r, hr, -, -⟩ := dot_eq_spec (ba ++ [k]) sb s ha hb hpb hs
    simp [hr]

end NmVerif
