"""
C09 kind matrix generator.

Compile-time kinds (constant tuples, clipped integers, std::array, raw arrays, ...) cannot take their
values at run time, so this module GENERATES C++ translation units from a request list: for each
operation x request (argument values) x assignment of a container kind to every argument there is one
`case` function that declares the arguments in that kind, calls the real nmtools function and returns
the normalised result (`ok <list>` / `ok <n>` / `nothing` / `fail-type`, see harness/kinds_c09.hpp).
All kinds of one request must give the same normalised answer, and that answer must be the single
reference answer (Lean driver + python/NumPy oracle, lib/props/c09.py).

The module knows nothing about expected answers; it only spells types.  Pieces:
  BUILDS            build configurations (STL / -DNMTOOLS_DISABLE_STL  x  g++ / clang++-14)
  OPS               operation table: headers, argument list with value types, call expression
  kinds_for(...)    the kinds applicable to an argument type in a build
  emit_tu(...)      C++ text of one TU holding a list of cases (line protocol of harness/proto.hpp)
  sig(...)          the "kind signature" of a case, the unit pinned in lib/kinds_supported_c09.json
Run as a script (`python harness/gen_kinds_c09.py --pin`) it probes which (build, op, signature)
combinations compile and rewrites the pin file.
"""
import os, sys, json, hashlib, itertools, subprocess, random

HERE = os.path.dirname(os.path.abspath(__file__))
ROOT = os.path.dirname(HERE)
GEN_DIR = os.path.join(ROOT, '.build', 'gen_c09')
PIN_FILE = os.path.join(ROOT, 'lib', 'kinds_supported_c09.json')

BUILDS = {
    'stl-gcc': dict(compiler='g++', extra=[], stl=True),
    'stl-clang': dict(compiler='clang++-14', extra=[], stl=True),
    'nostl-gcc': dict(compiler='g++', extra=['-DNMTOOLS_DISABLE_STL'], stl=False),
    'nostl-clang': dict(compiler='clang++-14', extra=['-DNMTOOLS_DISABLE_STL'], stl=False),
}

# ------------------------------------------------------------------------------------------------
# argument kinds
# ------------------------------------------------------------------------------------------------
# value types of arguments:
#   L  list of naturals (shape-like)          I  list of ints (axes; may be negative)
#   n  natural scalar                         i  int scalar (may be negative)
#   b  bool                                   (a value None is always spelled nmtools::None, kind `none`)
#   A  array operand (value = its shape; logical content = 1000*position + row-major flat id)
#   C  condition array operand (value = its shape; logical content = row-major flat id % 2)
LIST_KINDS_STL = ['ct', 'cl', 'clt', 'a', 'raw', 'sv', 'v', 'tup', 'f', 'h', 'utla', 'utlv', 'ba', 'bsv']
LIST_KINDS_NOSTL = ['ct', 'cl', 'clt', 'a', 'raw', 'sv', 'v', 'tup', 'f', 'h']
SCALAR_KINDS = ['ct', 'cl', 'rt', 'rtz']          # rt = int, rtz = size_t (only for naturals)
BOOL_KINDS = ['ct', 'rt']
CX_LIST_KINDS = ['ct', 'cl', 'clt', 'a', 'raw', 'tup']   # kinds usable in `constexpr auto r = f(args)`
ARRAY_KINDS_STL = ['a', 'raw', 'f', 'h', 'd',
                   'cs_fb', 'cs_hb', 'cs_db', 'fs_fb', 'fs_hb', 'fs_db', 'hs_fb', 'hs_hb', 'hs_db',
                   'ds_fb', 'ds_hb', 'ds_db', 'ls_fb', 'ls_hb', 'ls_db']
ARRAY_KINDS_COL = [k + '_col' for k in ARRAY_KINDS_STL if '_' in k]

KIND_DOC = {
    'ct': 'compile-time constant: nmtools_tuple{2_ct,3_ct} / 3_ct / nmtools::True',
    'cl': 'clipped: nmtools_tuple{clipped_size_t<Max>{v}...} / clipped_integer_t<int,Min,Max>{v}, bounds with slack',
    'clt': 'clipped with TIGHT bounds (Max = v, Min = min(v,0)): the same type family as cl, pinned under the signature of cl',
    'a': 'nmtools_array<T,N> (std::array, or utl::array under NMTOOLS_DISABLE_STL)',
    'raw': 'raw C array T[N]',
    'sv': 'nmtools_static_vector<T,8> (utl::static_vector)',
    'v': 'nmtools_list<T> (std::vector, or utl::vector under NMTOOLS_DISABLE_STL)',
    'tup': 'nmtools_tuple<int,...> of run-time values',
    'f': 'array::fixed_ndarray (1-d) via nmtools::cast(raw, kind::fixed)',
    'h': 'array::hybrid_ndarray (1-d) via nmtools::cast(raw, kind::hybrid)',
    'utla': 'nmtools::utl::array<T,N> in an STL build',
    'utlv': 'nmtools::utl::vector<T> in an STL build',
    'ba': 'boost::array<T,N>',
    'bsv': 'boost::container::static_vector<T,8>',
    'rt': 'run-time int', 'rtz': 'run-time size_t', 'none': 'nmtools::None',
}


VIEW_LIST_KINDS = ['ct', 'cl', 'clt', 'a', 'raw', 'sv', 'v', 'tup']     # argument kinds of view-level ops (besides the arrays)
SECOND_ARRAY_KINDS = ['a', 'raw', 'd', 'cs_fb', 'fs_hb', 'ds_db', 'ls_hb', 'hs_db_col']


def kinds_for(vtype, build, value=None, level='index', second=False):
    stl = BUILDS[build]['stl']
    if value is None and vtype not in ('A', 'C'):
        return ['none']
    if vtype in ('A', 'C'):
        return list(SECOND_ARRAY_KINDS) if second else list(ARRAY_KINDS_STL) + list(ARRAY_KINDS_COL)
    if level == 'view' and vtype in ('L', 'I'):
        ks = list(VIEW_LIST_KINDS)
        if len(value) == 0:
            ks = [k for k in ks if k not in ('raw', 'clt')]
        return ks
    if vtype in ('L', 'I'):
        ks = list(LIST_KINDS_STL if stl else LIST_KINDS_NOSTL)
        if len(value) == 0:
            ks = [k for k in ks if k not in ('raw', 'f', 'h', 'ba', 'clt')]   # no zero-length raw arrays; cl = clt
        if len(value) > 8:
            ks = [k for k in ks if k not in ('sv', 'bsv', 'h')]
        return ks
    if vtype == 'S':
        return ['rt', 'ct'] + (['a'] if all(x is not None for x in value) else [])
    if vtype == 'n':
        return list(SCALAR_KINDS)
    if vtype == 'i':
        return ['ct', 'cl', 'rt']
    if vtype == 'b':
        return list(BOOL_KINDS)
    raise ValueError(vtype)


def ct_lit(v):
    v = int(v)
    if v >= 0:
        return '%d_ct' % v
    if v >= -9:
        return '"%d"_ct' % v
    return 'nm::meta::ct_v<%d>' % v


def cl_bounds(v, salt, signed, tight=False):
    """(min, max) of the clipped type used for value v; min < max is a static_assert of the type."""
    v = int(v)
    if tight:
        if signed:
            return (v, max(v + 1, 0)) if v < 0 else (0, max(v, 1))
        return 0, max(v, 1)
    hi = v + (salt % 3)
    if signed:
        lo = min(v, 0) - ((salt // 3) % 2)
        if hi <= lo:
            hi = lo + 1
        return lo, hi
    return 0, max(hi, 1)


def cl_lit(v, salt, signed, tight=False):
    lo, hi = cl_bounds(v, salt, signed, tight)
    if signed:
        return 'nm::clipped_integer_t<int,%d,%d>{%d}' % (lo, hi, v)
    return 'nm::clipped_size_t<%d>{%d}' % (hi, v)


def nested_init(shape, start):
    """brace initialiser of an int array of the given shape holding start, start+1, ... in row-major order"""
    n = 1
    for e in shape:
        n *= e
    flat = list(range(start, start + n))

    def rec(sh, vals):
        if len(sh) == 1:
            return '{' + ','.join(str(v) for v in vals) + '}'
        step = len(vals) // sh[0]
        return '{' + ','.join(rec(sh[1:], vals[k * step:(k + 1) * step]) for k in range(sh[0])) + '}'
    return rec(list(shape), flat)


def nested_init_mod2(shape):
    n = 1
    for e in shape:
        n *= e
    flat = [k % 2 for k in range(n)]

    def rec(sh, vals):
        if len(sh) == 1:
            return '{' + ','.join(str(v) for v in vals) + '}'
        step = len(vals) // sh[0]
        return '{' + ','.join(rec(sh[1:], vals[k * step:(k + 1) * step]) for k in range(sh[0])) + '}'
    return rec(list(shape), flat)


def decl_array(name, shape, kind, pos, cond=False):
    dims = ''.join('[%d]' % e for e in shape)
    init = nested_init_mod2(shape) if cond else nested_init(shape, 1000 * pos)
    if kind == 'raw':
        return ['int %s%s = %s;' % (name, dims, init)]
    col = kind.endswith('_col')
    base = kind[:-4] if col else kind
    tag = {'a': 'nested_arr', 'f': 'fixed', 'h': 'hybrid', 'd': 'dynamic'}.get(base, 'ndarray_' + base)
    ls = ['int %s_raw%s = %s;' % (name, dims, init)]
    if col:
        ls.append('auto %s_row = nm::cast(%s_raw, na::kind::%s); auto %s = k9::to_col(%s_row);' % (name, name, tag, name, name))
    else:
        ls.append('auto %s = nm::cast(%s_raw, na::kind::%s);' % (name, name, tag))
    return ls


def decl_arg(name, vtype, value, kind, salt=0, cx=False, pos=0):
    """C++ declaration lines for one argument; the argument is then usable as `name`."""
    q = 'constexpr ' if cx else ''
    if vtype in ('A', 'C'):
        return decl_array(name, value, kind, pos, cond=(vtype == 'C'))
    if value is None:
        return ['%sauto %s = nm::None;' % (q, name)]
    if vtype in ('L', 'I'):
        signed = vtype == 'I'
        et = 'int' if signed else 'size_t'
        n = len(value)
        vals = ','.join(str(int(v)) for v in value)
        if kind == 'ct':
            if n == 0:
                return ['%sauto %s = nmtools_tuple<>{};' % (q, name)]
            return ['%sauto %s = nmtools_tuple{%s};' % (q, name, ','.join(ct_lit(v) for v in value))]
        if kind in ('cl', 'clt'):
            if n == 0:
                return ['%sauto %s = nmtools_tuple<>{};' % (q, name)]
            return ['%sauto %s = nmtools_tuple{%s};' % (q, name, ','.join(cl_lit(v, salt + j, signed, kind == 'clt') for j, v in enumerate(value)))]
        if kind == 'a':
            return ['%sauto %s = nmtools_array<%s,%d>{%s};' % (q, name, et, n, vals)]
        if kind == 'utla':
            return ['%sauto %s = nm::utl::array<%s,%d>{%s};' % (q, name, et, n, vals)]
        if kind == 'ba':
            return ['%sauto %s = boost::array<%s,%d>{%s};' % (q, name, et, n, vals)]
        if kind == 'raw':
            return ['%s%s %s[%d] = {%s};' % (q, 'int' if signed else 'int', name, n, vals)]
        if kind == 'tup':
            if n == 0:
                return ['%sauto %s = nmtools_tuple<>{};' % (q, name)]
            return ['%sauto %s = nmtools_tuple<%s>{%s};' % (q, name, ','.join(['int'] * n), vals)]
        if kind in ('sv', 'v', 'utlv', 'bsv'):
            t = {'sv': 'nmtools_static_vector<%s,8>' % et, 'v': 'nmtools_list<%s>' % et,
                 'utlv': 'nm::utl::vector<%s>' % et, 'bsv': 'boost::container::static_vector<%s,8>' % et}[kind]
            ls = ['%s %s; %s.resize(%d);' % (t, name, name, n)]
            ls += ['%s[%d] = %d;' % (name, j, int(v)) for j, v in enumerate(value)]
            return [' '.join(ls)]
        if kind in ('f', 'h'):
            return ['int %s_raw[%d] = {%s}; auto %s = nm::cast(%s_raw, na::kind::%s);' % (
                name, n, vals, name, name, 'fixed' if kind == 'f' else 'hybrid')]
        raise ValueError(kind)
    if vtype == 'S':
        # one slice: (start, stop) or (start, stop, step); an entry None is nmtools::None
        if kind == 'a':
            return ['%sauto %s = nmtools_array<int,%d>{%s};' % (q, name, len(value), ','.join(str(int(x)) for x in value))]
        el = [('nm::None' if x is None else (ct_lit(x) if kind == 'ct' else str(int(x)))) for x in value]
        return ['%sauto %s = nmtools_tuple{%s};' % (q, name, ','.join(el))]
    if vtype in ('n', 'i'):
        v = int(value)
        if kind == 'ct':
            return ['%sauto %s = %s;' % (q, name, ct_lit(v))]
        if kind == 'cl':
            return ['%sauto %s = %s;' % (q, name, cl_lit(v, salt, vtype == 'i' or v < 0))]
        if kind == 'rt':
            return ['%sint %s = %d;' % (q, name, v)]
        if kind == 'rtz':
            return ['%ssize_t %s = %d;' % (q, name, v)]
        raise ValueError(kind)
    if vtype == 'b':
        if kind == 'ct':
            return ['%sauto %s = nm::%s;' % (q, name, 'True' if value else 'False')]
        return ['%sbool %s = %s;' % (q, name, 'true' if value else 'false')]
    raise ValueError(vtype)


# ------------------------------------------------------------------------------------------------
# operations
# ------------------------------------------------------------------------------------------------
class Op:
    def __init__(self, name, includes, args, call, rep, post='k9::norm(r)', level='index', rep_bad=(), kinds=None, sparse=False):
        self.name = name; self.includes = includes; self.args = args      # args: [(name, vtype)]
        self.sparse = sparse                                              # kind universe = diagonals + class pairs (see all_assignments)
        self.kinds = dict(kinds or {})                                    # argument name -> kinds (overrides kinds_for)
        self.call = call; self.post = post; self.level = level
        self.rep = rep                                                    # representative requests used for pinning
        self.rep_bad = list(rep_bad)                                      # representative REFUSED requests (pinned apart)


IX = 'nmtools/array/index/'
OPS = {}


def _op(*a, **k):
    o = Op(*a, **k); OPS[o.name] = o


_op('compute_strides', [IX + 'compute_strides.hpp'], [('shape', 'L')], 'ix::compute_strides(shape)', [[[2, 3, 4]]])
_op('product', [IX + 'product.hpp'], [('shape', 'L')], 'ix::product(shape)', [[[2, 3, 4]]])
_op('compute_offset', [IX + 'compute_offset.hpp'], [('indices', 'L'), ('strides', 'L')], 'ix::compute_offset(indices,strides)',
    [[[1, 2, 3], [12, 4, 1]]])
_op('compute_indices', [IX + 'compute_indices.hpp'], [('offset', 'n'), ('shape', 'L')], 'ix::compute_indices(offset,shape)',
    [[23, [2, 3, 4]]])
_op('shape_reshape', [IX + 'reshape.hpp'], [('shape', 'L'), ('newshape', 'I')], 'ix::shape_reshape(shape,newshape)',
    [[[2, 3, 4], [4, -1]]], rep_bad=[[[2, 3, 4], [5, -1]]])
_op('shape_transpose', [IX + 'transpose.hpp'], [('shape', 'L'), ('axes', 'I')], 'ix::shape_transpose(shape,axes)',
    [[[2, 3, 4], [2, 0, 1]], [[2, 3, 4], None]])
_op('broadcast_shape', [IX + 'broadcast_shape.hpp'], [('a', 'L'), ('b', 'L')], 'ix::broadcast_shape(a,b)',
    [[[2, 1, 4], [3, 1]]], rep_bad=[[[2, 3, 4], [2, 1]]])
_op('broadcast_shape3', [IX + 'broadcast_shape.hpp'], [('a', 'L'), ('b', 'L'), ('c', 'L')], 'ix::broadcast_shape(a,b,c)',
    [[[2, 1, 4], [3, 1], [1]]], rep_bad=[[[2, 1, 4], [3, 1], [5]]])
_op('shape_broadcast_to', [IX + 'broadcast_to.hpp'], [('ashape', 'L'), ('bshape', 'L')], 'ix::shape_broadcast_to(ashape,bshape)',
    [[[3, 1], [2, 3, 4]]], rep_bad=[[[3, 2], [2, 3, 4]]])
_op('shape_tile', [IX + 'tile.hpp'], [('shape', 'L'), ('reps', 'L')], 'ix::shape_tile(shape,reps)',
    [[[2, 3], [2, 1, 2]]])
_op('shape_repeat', [IX + 'repeat.hpp'], [('shape', 'L'), ('repeats', 'n'), ('axis', 'i')], 'ix::shape_repeat(shape,repeats,axis)',
    [[[2, 3], 2, 1], [[2, 3], 2, None]])
_op('shape_repeat_l', [IX + 'repeat.hpp'], [('shape', 'L'), ('repeats', 'L'), ('axis', 'i')], 'ix::shape_repeat(shape,repeats,axis)',
    [[[2, 3], [1, 2, 3], 1]])
_op('remove_dims', [IX + 'remove_dims.hpp'], [('shape', 'L'), ('axis', 'I'), ('keepdims', 'b')], 'ix::remove_dims(shape,axis,keepdims)',
    [[[2, 3, 4], [0, 2], False], [[2, 3, 4], [1], True], [[2, 3, 4], None, False]])
_op('remove_dims_s', [IX + 'remove_dims.hpp'], [('shape', 'L'), ('axis', 'i'), ('keepdims', 'b')], 'ix::remove_dims(shape,axis,keepdims)',
    [[[2, 3, 4], 1, False], [[2, 3, 4], -1, True]])
_op('normalize_axis', [IX + 'normalize_axis.hpp'], [('axis', 'I'), ('ndim', 'n')], 'ix::normalize_axis(axis,ndim)',
    [[[-1, 0], 3]], rep_bad=[[[3, 0], 3]])
_op('normalize_axis_s', [IX + 'normalize_axis.hpp'], [('axis', 'i'), ('ndim', 'n')], 'ix::normalize_axis(axis,ndim)',
    [[-1, 3]], rep_bad=[[3, 3], [-4, 3]])
_op('shape_concatenate', [IX + 'concatenate.hpp'], [('ashape', 'L'), ('bshape', 'L'), ('axis', 'i')], 'ix::shape_concatenate(ashape,bshape,axis)',
    [[[2, 3], [4, 3], 0], [[2, 3], [4, 3], None]], post='k9::norm_flagged(r)', rep_bad=[[[2, 3], [4, 2], 0]])
_op('shape_pad', [IX + 'pad.hpp'], [('shape', 'L'), ('pad_width', 'L')], 'ix::shape_pad(shape,pad_width)',
    [[[2, 3], [0, 2, 1, 0]]], rep_bad=[[[2, 3], [0, 2, 1]]])
_op('shape_slice', [IX + 'slice.hpp'], [('shape', 'L'), ('s0', 'S'), ('s1', 'S')], 'ix::shape_slice(shape,s0,s1)',
    [[[4, 5], [1, 3], [None, None, 2]], [[4, 5], [0, 4], [1, 5, 2]]])


VW = 'nmtools/array/view/'
AR = 'nmtools/array/array/'
_op('shape_matmul', [VW + 'matmul.hpp'], [('ashape', 'L'), ('bshape', 'L')], 'ix::shape_matmul(ashape,bshape)',
    [[[2, 3], [3, 4]], [[2, 1, 3, 4], [5, 4, 2]]], rep_bad=[[[2, 3], [2, 2]]])
_op('v_transpose', [VW + 'transpose.hpp'], [('x', 'A'), ('axes', 'I')], 'view::transpose(x,axes)',
    [[[2, 3], [1, 0]], [[2, 3], None]], post='k9::norm_arr(r)', level='view')
_op('v_reshape', [VW + 'reshape.hpp'], [('x', 'A'), ('newshape', 'I')], 'view::reshape(x,newshape)',
    [[[2, 3], [3, 2]]], post='k9::norm_arr(r)', level='view')
_op('v_tile', [VW + 'tile.hpp'], [('x', 'A'), ('reps', 'L')], 'view::tile(x,reps)',
    [[[2, 3], [2, 1]]], post='k9::norm_arr(r)', level='view')
_op('v_add', [VW + 'ufuncs/add.hpp'], [('x', 'A'), ('y', 'A')], 'view::add(x,y)',
    [[[2, 3], [3]]], post='k9::norm_arr(r)', level='view')
_op('v_sum', [VW + 'sum.hpp'], [('x', 'A'), ('axis', 'i')], 'view::sum(x,axis)',
    [[[2, 3], 1]], post='k9::norm_arr(r)', level='view')
_op('e_transpose', [AR + 'transpose.hpp'], [('x', 'A'), ('axes', 'I')], 'na::transpose(x,axes)',
    [[[2, 3], [1, 0]]], post='k9::norm_arr(r)', level='view')
_op('e_add', [AR + 'ufuncs/add.hpp'], [('x', 'A'), ('y', 'A')], 'na::add(x,y)',
    [[[2, 3], [3]]], post='k9::norm_arr(r)', level='view')
_op('e_tile', [VW + 'tile.hpp', 'nmtools/array/eval.hpp'], [('x', 'A'), ('reps', 'L')], 'na::eval(view::tile(x,reps))',
    [[[2, 3], [2, 1]]], post='k9::norm_arr(r)', level='view')

# ---- round 4: more views / evaluations.  rep = requests accepted under EVERY kind; rep_bad = refused requests (only for
# operations that CAN refuse: the others assert / run out of bounds on invalid arguments, which is C15 material)
NA = dict(post='k9::norm_arr(r)', level='view', sparse=True)
OPS['v_reshape'].rep_bad = [[[2, 3], [4, 2]]]
OPS['v_add'].rep_bad = [[[2, 3], [2]]]
OPS['e_add'].rep_bad = [[[2, 3], [2]]]
# refusing since the fix: commits 812bb12 (repeat), 972adee (concatenate), 7d7a8ac (matmul), fb06f17 (expand_dims) of /repo
OPS['shape_repeat'].rep_bad = [[[2, 3], 2, 2]]
OPS['shape_repeat_l'].rep_bad = [[[2, 3], [1, 2], 1]]
_op('e_reshape', [AR + 'reshape.hpp'], [('x', 'A'), ('newshape', 'I')], 'na::reshape(x,newshape)',
    [[[2, 3], [3, 2]]], rep_bad=[[[2, 3], [4, 2]]], **NA)
_op('v_broadcast_to', [VW + 'broadcast_to.hpp'], [('x', 'A'), ('shape', 'L')], 'view::broadcast_to(x,shape)',
    [[[3, 1], [2, 3, 2]]], rep_bad=[[[3, 2], [2, 3]]], **NA)
_op('v_broadcast_arrays', [VW + 'broadcast_arrays.hpp'], [('x', 'A'), ('y', 'A')], 'view::broadcast_arrays(x,y)',
    [[[2, 1], [3]]], rep_bad=[[[2, 3], [2]]], post='k9::norm_arrs(r)', level='view', sparse=True)
_op('v_repeat', [VW + 'repeat.hpp'], [('x', 'A'), ('repeats', 'n'), ('axis', 'i')], 'view::repeat(x,repeats,axis)',
    [[[2, 3], 2, 1], [[2, 3], 2, None]], **NA)
_op('v_pad', [VW + 'pad.hpp'], [('x', 'A'), ('pad_width', 'L')], 'view::pad(x,pad_width,9999)',
    [[[2, 3], [0, 2, 1, 0]]], rep_bad=[[[2, 3], [0, 2, 1]]], **NA)
_op('v_slice', [VW + 'slice.hpp'], [('x', 'A'), ('s0', 'S'), ('s1', 'S')], 'view::slice(x,s0,s1)',
    [[[3, 4], [1, 3], [None, None, 3]]], **NA)
_op('v_flip', [VW + 'flip.hpp'], [('x', 'A'), ('axis', 'I')], 'view::flip(x,axis)',
    [[[2, 3], [1]], [[2, 3], None]], **NA)
_op('v_flip_s', [VW + 'flip.hpp'], [('x', 'A'), ('axis', 'i')], 'view::flip(x,axis)',
    [[[2, 3], 1]], **NA)
_op('v_expand_dims', [VW + 'expand_dims.hpp'], [('x', 'A'), ('axis', 'I')], 'view::expand_dims(x,axis)',
    [[[2, 3], [0, 2]]], **NA)
_op('v_squeeze', [VW + 'squeeze.hpp'], [('x', 'A')], 'view::squeeze(x)',
    [[[2, 1, 3]]], **NA)
_op('v_concatenate', [VW + 'concatenate.hpp'], [('x', 'A'), ('y', 'A'), ('axis', 'i')], 'view::concatenate(x,y,axis)',
    [[[2, 3], [1, 3], 0], [[2, 3], [2], None]], kinds={'y': ['a', 'd', 'fs_hb', 'ls_hb']}, **NA)
_op('v_where', [VW + 'where.hpp'], [('c', 'C'), ('x', 'A'), ('y', 'A')], 'view::where(c,x,y)',
    [[[2, 3], [3], [2, 1]]], rep_bad=[[[2, 3], [2], [2, 3]]],
    kinds={'x': ['a', 'd', 'cs_fb', 'ls_hb'], 'y': ['raw', 'd', 'fs_hb', 'hs_db_col']}, **NA)
_op('v_matmul', [VW + 'matmul.hpp'], [('x', 'A'), ('y', 'A')], 'view::matmul(x,y)',
    [[[2, 3], [3, 2]]], **NA)
_op('v_sum_k', [VW + 'sum.hpp'], [('x', 'A'), ('axis', 'I'), ('keepdims', 'b')], 'view::sum(x,axis,nm::None,nm::None,keepdims)',
    [[[2, 3, 2], [0, 2], True], [[2, 3], None, False]], **NA)
_op('v_sum_ks', [VW + 'sum.hpp'], [('x', 'A'), ('axis', 'i'), ('keepdims', 'b')], 'view::sum(x,axis,nm::None,nm::None,keepdims)',
    [[[2, 3], -2, True]], **NA)
_op('v_take', [VW + 'take.hpp'], [('x', 'A'), ('indices', 'L'), ('axis', 'i')], 'view::take(x,indices,axis)',
    [[[2, 3], [2, 0], 1]], kinds={'axis': ['ct', 'rt']}, **NA)
_op('e_matmul', [AR + 'matmul.hpp'], [('x', 'A'), ('y', 'A')], 'na::matmul(x,y)',
    [[[2, 3], [3, 2]]], **NA)
_op('e_sum_k', [AR + 'sum.hpp'], [('x', 'A'), ('axis', 'I'), ('keepdims', 'b')], 'na::sum(x,axis,nm::None,nm::None,keepdims)',
    [[[2, 3], [1], True], [[2, 3], None, False]], kinds={'keepdims': ['ct']}, **NA)
OPS['v_repeat'].rep_bad = [[[2, 3], 2, 2]]
OPS['v_expand_dims'].rep_bad = [[[2, 3], [3]]]
OPS['v_concatenate'].rep_bad = [[[2, 3], [2, 2], 0]]
OPS['v_matmul'].rep_bad = [[[2, 3], [2, 2]]]
OPS['e_matmul'].rep_bad = [[[2, 3], [2, 2]]]


def sig(op, kinds, mode='rt'):
    """kind signature: what is pinned as supported / unsupported"""
    o = OPS[op]
    ks = []
    for (an, _), k in zip(o.args, kinds):
        ks.append('%s:%s' % (an, 'cl' if k == 'clt' else k))     # tight clipped: same types up to the bounds
    return ','.join(ks) + ('|cx' if mode == 'cx' else '')


class KCase:
    """one generated case: op, argument values, kinds, mode (rt|cx), salt (clipped slack)"""
    __slots__ = ('op', 'vals', 'kinds', 'mode', 'salt', 'key', 'rid')

    def __init__(self, op, vals, kinds, mode='rt', salt=0, rid=0):
        self.op = op; self.vals = vals; self.kinds = tuple(kinds); self.mode = mode; self.salt = salt; self.rid = rid
        self.key = hashlib.sha256(self.text().encode()).hexdigest()[:12]

    def text(self):
        o = OPS[self.op]
        parts = ['op=' + self.op]
        for (an, vt), v in zip(o.args, self.vals):
            parts.append('%s=%s' % (an, fmtv(v)))
        parts.append('kinds=' + '/'.join(self.kinds))
        parts.append('mode=' + self.mode)
        parts.append('salt=%d' % self.salt)
        return ' '.join(parts)

    def sig(self):
        return sig(self.op, self.kinds, self.mode)


def fmtv(v):
    if v is None:
        return 'None'
    if isinstance(v, bool):
        return '1' if v else '0'
    if isinstance(v, (list, tuple)):
        return '[]' if len(v) == 0 else ','.join('N' if x is None else str(int(x)) for x in v)
    return str(int(v))


def knows_at_compile_time(c):
    """the refusal of this case can surface as a compile error: constexpr evaluation, or a constant argument"""
    return c.mode == 'cx' or any(k == 'ct' for k in c.kinds)


def emit_case(c, fname, stub=False):
    o = OPS[c.op]
    cx = c.mode == 'cx'
    if stub:
        # this case does not compile against the tree under test (see compile-error cache); keep the id answerable
        return 'static std::string %s() {   // %s\n    return "%s";\n}' % (
            fname, c.text(), 'compile-error:ct' if knows_at_compile_time(c) else 'compile-error')
    lines = ['static std::string %s() {   // %s' % (fname, c.text())]
    for j, ((an, vt), v, k) in enumerate(zip(o.args, c.vals, c.kinds)):
        for l in decl_arg(an, vt, v, k, salt=c.salt + 5 * j, cx=cx, pos=j):
            lines.append('    ' + l)
    lines.append('    %sauto r = %s;' % ('constexpr ' if cx else '', o.call))
    lines.append('    return %s;' % o.post)
    lines.append('}')
    return '\n'.join(lines)


def emit_tu(cases, build, stubs=()):
    """C++ source of a TU answering `k9 id=<key> ...` for the given cases; `stubs` = keys of cases known not to compile"""
    stl = BUILDS[build]['stl']
    incs = []
    for c in cases:
        for i in OPS[c.op].includes:
            if i not in incs:
                incs.append(i)
    need_arr = any(OPS[c.op].level == 'view' for c in cases)
    need_cast = any(k in ('f', 'h') for c in cases for k in c.kinds)
    need_boost = any(k in ('ba', 'bsv') for c in cases for k in c.kinds)
    out = ['// generated by harness/gen_kinds_c09.py (build %s) -- do not edit' % build]
    if need_boost:
        out.append('#include "nmtools/array/impl/boost.hpp"')
    for i in incs:
        out.append('#include "%s"' % i)
    if need_cast:
        out.append('#include "nmtools/array/ndarray.hpp"')
        out.append('#include "nmtools/utility/cast.hpp"')
    out.append('#include "kinds_c09_arr.hpp"' if need_arr else '#include "kinds_c09.hpp"')
    out.append('#include "proto.hpp"')
    out.append('namespace nm = nmtools; namespace ix = nmtools::index; namespace na = nmtools::array; namespace view = nmtools::view;')
    out.append('using namespace nmtools::literals;')
    names = []
    for j, c in enumerate(cases):
        fn = 'c%d_%s' % (j, c.key)
        names.append(fn)
        out.append(emit_case(c, fn, stub=(c.key in stubs)))
    out.append('using fn_t = std::string(*)();')
    out.append('static const std::map<std::string, fn_t>& table() {')
    out.append('    static const std::map<std::string, fn_t> t = {')
    for c, fn in zip(cases, names):
        out.append('        {"%s", %s},' % (c.key, fn))
    out.append('    };')
    out.append('    return t;')
    out.append('}')
    out.append('std::string handle(const std::string& op, const proto::Args& a) {')
    out.append('    if (op != "k9") return "unknown-op";')
    out.append('    auto it = table().find(proto::get(a, "id"));')
    out.append('    if (it == table().end()) return "unknown-case";')
    out.append('    return it->second();')
    out.append('}')
    return '\n'.join(out) + '\n'


def write_tu(name, cases, build, stubs=(), subdir=None):
    d = os.path.join(GEN_DIR, subdir) if subdir else GEN_DIR
    os.makedirs(d, exist_ok=True)
    p = os.path.join(d, name + '.cpp')
    src = emit_tu(cases, build, stubs)
    if not (os.path.exists(p) and open(p).read() == src):
        tmp = '%s.%d.tmp' % (p, os.getpid())       # atomic: checks may run side by side on the same generated directory
        with open(tmp, 'w') as f:
            f.write(src)
        os.replace(tmp, p)
    return p


# ------------------------------------------------------------------------------------------------
# kind assignments
# ------------------------------------------------------------------------------------------------
# array kinds standing for the classes of shape knowledge: constant (nested array, constant-shape ndarray), fixed rank,
# bounded rank, dynamic, clipped
ARRAY_CLASS_REPS = ['a', 'cs_hb', 'fs_db', 'hs_hb', 'ds_db', 'ls_fb']


def view_pairs(op, per):
    """first array operand over the shape classes x EVERY kind of the second argument (list kinds constant / clipped /
    array / raw / static_vector / vector / tuple, or the kinds of the second array operand), other arguments cycling"""
    if len(per) < 2:
        return []
    out = []
    t = 0
    for ka in ARRAY_CLASS_REPS:
        if ka not in per[0]:
            continue
        for kb in per[1]:
            k = [p[(t + 2 * i) % len(p)] for i, p in enumerate(per)]
            k[0] = ka; k[1] = kb
            out.append(tuple(k)); t += 1
    return out


def diagonals(per, rotations=1):
    """every kind of the widest argument once, the other arguments cycling; rotation r shifts argument i by r*i"""
    width = max(len(p) for p in per)
    out = []
    for r in range(rotations):
        for j in range(width):
            k = tuple(p[(j + r * i) % len(p)] for i, p in enumerate(per))
            if k not in out:
                out.append(k)
    return out


def all_assignments(op, vals, build):
    """the kind universe of a request: the full product, or for `sparse` operations (views of round 4, where every case
    costs ~0.3 s of compile time) two diagonals + the shape-class x second-argument pairs"""
    per = kinds_per_arg(op, vals, build)
    if OPS[op].sparse:
        out = diagonals(per, 2)
        for k in view_pairs(op, per):
            if k not in out:
                out.append(k)
        return out
    return [tuple(x) for x in itertools.product(*per)]


def kinds_per_arg(op, vals, build):
    o = OPS[op]
    per = []
    seen_array = False
    for (an, vt), v in zip(o.args, vals):
        ks = kinds_for(vt, build, v, level=o.level, second=(vt in ('A', 'C') and seen_array))
        if an in o.kinds and v is not None:
            ks = [k for k in o.kinds[an] if k in ks or vt in ('A', 'C')]
        per.append(ks)
        seen_array |= vt in ('A', 'C')
    return per


def cx_ok(op, vals, kinds):
    o = OPS[op]
    for (an, vt), v, k in zip(o.args, vals, kinds):
        if v is None:
            continue
        if vt in ('L', 'I') and k not in CX_LIST_KINDS:
            return False
        if vt == 'S' and k == 'rt' and False:
            return False
        if vt in ('A', 'C'):
            return False
    return True


def load_pins():
    if not os.path.exists(PIN_FILE):
        return {}
    return json.load(open(PIN_FILE))


# ------------------------------------------------------------------------------------------------
# probing which cases compile (used for pinning, and to explain a TU that stopped compiling)
# ------------------------------------------------------------------------------------------------
def compile_cmd(build, src, out=None, repo=None, syntax_only=False):
    b = BUILDS[build]
    repo = repo or os.environ.get('VERIF_REPO', '/repo')
    cmd = [b['compiler'], '-std=c++17', '-I' + os.path.join(repo, 'include'), '-I' + HERE, '-DNMTOOLS_VERIF', '-w',
           '-ffp-contract=off', '-O1', '-DNDEBUG'] + b['extra']
    if 'clang' in b['compiler']:
        cmd += ['-ferror-limit=0']
    if syntax_only:
        cmd += ['-fsyntax-only', src]
    else:
        cmd += ['-c', src, '-o', out]
    return cmd


def case_line_ranges(src_text):
    """{function name: (first line, last line)} of the generated case functions"""
    rng = {}
    cur = None
    for ln, l in enumerate(src_text.splitlines(), 1):
        if l.startswith('static std::string c') and l.rstrip().endswith(')') is False and '() {' in l:
            cur = l.split()[2].split('(')[0]
            rng[cur] = [ln, ln]
        elif cur is not None:
            rng[cur][1] = ln
            if l == '}':
                cur = None
    return rng


def probe(cases, build, tag, repo=None, max_rounds=12, subdir=None):
    """iteratively drop the cases the compiler complains about; returns (ok_cases, {key: error excerpt})"""
    import re
    bad = {}
    cases = list(cases)
    for rnd in range(max_rounds):
        if not cases:
            break
        p = write_tu('probe_%s_%s' % (tag, build), cases, build, subdir=subdir)
        r = subprocess.run(compile_cmd(build, p, out=p[:-4] + '.o', repo=repo, syntax_only=False), stdout=subprocess.PIPE, stderr=subprocess.STDOUT)
        if r.returncode == 0:
            break
        log = r.stdout.decode('utf-8', 'replace')
        src = open(p).read()
        rngs = case_line_ranges(src)
        byline = {}
        for fn, (a, b) in rngs.items():
            for ln in range(a, b + 1):
                byline[ln] = fn
        hit = {}
        base = os.path.basename(p)
        loglines = log.splitlines()
        for i, l in enumerate(loglines):
            for m in re.finditer(re.escape(base) + r':(\d+)', l):
                fn = byline.get(int(m.group(1)))
                if fn and fn not in hit:
                    # first 'error' line at or before this mention
                    err = ''
                    for j in range(i, max(-1, i - 60), -1):
                        if 'error' in loglines[j]:
                            err = loglines[j]; break
                    if not err:
                        for j in range(i, min(len(loglines), i + 60)):
                            if 'error' in loglines[j]:
                                err = loglines[j]; break
                    hit[fn] = err.strip()[:300]
        if not hit:
            # cannot attribute: give up on the whole group
            for c in cases:
                bad[c.key] = 'unattributed: ' + log[-300:]
            cases = []
            break
        keep = []
        for j, c in enumerate(cases):
            fn = 'c%d_%s' % (j, c.key)
            if fn in hit:
                bad[c.key] = hit[fn]
            else:
                keep.append(c)
        cases = keep
    return cases, bad


# ------------------------------------------------------------------------------------------------
# pinning
# ------------------------------------------------------------------------------------------------
def pin_reps(op, reps, build, repo, tag):
    sup, unsup = set(), {}
    for ri, vals in enumerate(reps):
        cs = []
        seen = set()
        for k in all_assignments(op, vals, build):
            k = tuple('cl' if x == 'clt' else x for x in k)      # tight clipped is pinned under the signature of cl
            if k in seen:
                continue
            seen.add(k)
            cs.append(KCase(op, vals, k, 'rt', salt=1))
            if cx_ok(op, vals, k):
                cs.append(KCase(op, vals, k, 'cx', salt=1))
        step = 60 if OPS[op].level == 'view' else 400
        for j in range(0, len(cs), step):     # big groups make the compiler slow: chunk
            chunk = cs[j:j + step]
            ok, bad = probe(chunk, build, '%s_%s%d_%d' % (op, tag, ri, j), repo=repo, subdir='pin')
            for ext in ('.cpp', '.o'):
                try:
                    os.remove(os.path.join(GEN_DIR, 'pin', 'probe_%s_%s%d_%d_%s%s' % (op, tag, ri, j, build, ext)))
                except OSError:
                    pass
            for c in chunk:
                if c.key in bad:
                    unsup[c.sig()] = bad[c.key]
                else:
                    sup.add(c.sig())
    for s_ in list(unsup):
        sup.discard(s_)          # compiles for one representative only: treat as unsupported
    return sup, unsup


def pin_op(build, op, repo=None, refusal_only=False):
    """probe one operation in one build; returns (build, op, entry)"""
    old = load_pins().get(build, {})
    o = OPS[op]
    os.makedirs(os.path.join(GEN_DIR, 'pin'), exist_ok=True)
    if refusal_only and op in old:
        # an operation that gained refused representatives: its accepted combinations stay pinned as they are
        e = dict(old[op])
        sup, unsup = set(old[op]['supported']), old[op]['unsupported']
    else:
        sup, unsup = pin_reps(op, o.rep, build, repo, 'ok')
        e = {'supported': sorted(sup), 'unsupported': {k: unsup[k] for k in sorted(unsup)}}
    if o.rep_bad:
        bsup, bunsup = pin_reps(op, o.rep_bad, build, repo, 'bad')
        e['supported_refusal'] = sorted(bsup)
        e['unsupported_refusal'] = {k: bunsup[k] for k in sorted(bunsup)}
    sys.stderr.write('%s %s: supported %d unsupported %d refusal-supported %d\n' % (
        build, op, len(sup), len(unsup), len(e.get('supported_refusal', []))))
    with open(os.path.join(GEN_DIR, 'pin', 'partial_%s_%s.json' % (build, op)), 'w') as f:
        json.dump(e, f)
    return build, op, e


def main():
    import argparse
    from concurrent.futures import ProcessPoolExecutor
    ap = argparse.ArgumentParser()
    ap.add_argument('--pin', action='store_true', help='probe every (build, op, kind signature) and rewrite the pin file')
    ap.add_argument('--ops', default='', help='comma separated subset of ops (others keep their pins)')
    ap.add_argument('--jobs', type=int, default=4)
    ap.add_argument('--refusal-only', action='store_true', help='with --ops: only (re)probe the refused representatives')
    ap.add_argument('--merge-partial', action='store_true', help='merge the partial results of an interrupted --pin run')
    a = ap.parse_args()
    if a.pin:
        ops = [o for o in a.ops.split(',') if o] or None
        pins = load_pins()
        os.makedirs(os.path.join(GEN_DIR, 'pin'), exist_ok=True)
        if a.merge_partial:
            for b in BUILDS:
                for op in OPS:
                    pp = os.path.join(GEN_DIR, 'pin', 'partial_%s_%s.json' % (b, op))
                    if os.path.exists(pp):
                        pins.setdefault(b, {})[op] = json.load(open(pp))
            with open(PIN_FILE, 'w') as f:
                json.dump(pins, f, indent=0, sort_keys=True)
            return
        with ProcessPoolExecutor(max_workers=a.jobs) as ex:
            futs = [ex.submit(pin_op, b, op, None, a.refusal_only) for op in (ops or list(OPS)) for b in BUILDS]
            for f in futs:
                b, op, e = f.result()
                pins.setdefault(b, {})[op] = e
        with open(PIN_FILE, 'w') as f:
            json.dump(pins, f, indent=0, sort_keys=True)
        for b in pins:
            print(b, 'supported', sum(len(v['supported']) for v in pins[b].values()), 'unsupported', sum(len(v['unsupported']) for v in pins[b].values()))


if __name__ == '__main__':
    main()
