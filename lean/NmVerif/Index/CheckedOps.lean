import NmVerif.Index.Transpose
import NmVerif.Index.Reshape
import NmVerif.Index.Repeat
import NmVerif.Index.Concatenate
/-
  NmVerif.Index.CheckedOps — MODEL of the run-time argument validation of the view constructors that C15 drives with
  invalid arguments (repaired by fixes/C15-*.diff: the constructor returns Nothing where NumPy raises; for transpose the check is proposed only, see fixes/C15-README.md).  Each `…Checked` function
  performs the checks in the order of the C++ and then hands over to the value model of the owning property
  (C03: Index/Transpose, Index/Reshape; C04: Index/Repeat, Index/Concatenate), which is unchanged on valid arguments.

    transposeAxesOk dim axes     the loop added to `view::transposer` (run-time axes): `len(axes) == dim`, every entry
                                 in `[-dim, dim)`, no two entries equal after normalisation
    transposeChecked src axes    view::transpose(a, axes), run-time axes
    swapaxesChecked src a1 a2    view::swapaxes(a, a1, a2): `index::swapaxes_to_transpose` is Nothing when
                                 `normalize_axis` is (instead of unwrapping it); the Nothing is carried by `transposer`
    pairwiseDistinct l           the double loop `for i, for j > i: l[i] == l[j] → Nothing`
    expandDimsChecked src axes   view::expand_dims: `normalize_axis(axes, dim + len axes)` Nothing → Nothing, a repeated
                                 axis → Nothing, else `view::reshape` to the expanded shape
    repeatChecked src r axis     view::repeat(a, r, axis), scalar repeats, run-time axis: outside `[-dim, dim)` → Nothing
    repeatListChecked src rs axis   … per-element repeats: additionally `len(repeats) == shape[axis]`
    concatenateChecked a b axis  view::concatenate(a, b, axis): the `success` flag of `index::shape_concatenate`
                                 (equal ranks, axis in `[0, dim)` after normalisation, equal extents off the axis)
                                 decides between the view and Nothing
  Core Lean only.
-/
namespace NmVerif.Checked
open NmVerif NmVerif.Index

/-- `-dim ≤ a < dim` -/
def axisInRange (dim : Nat) (a : Int) : Bool := decide (-(dim : Int) ≤ a) && decide (a < (dim : Int))

/-- `a < 0 ? a + dim : a` (as a position; only used for in-range axes) -/
def normPos (dim : Nat) (a : Int) : Nat := if a < 0 then ((dim : Int) + a).toNat else a.toNat

/-- inner part of the validation loop of `view::transposer`: `seen` = the normalised axes met so far -/
def transposeAxesLoop (dim : Nat) : List Int → List Nat → Bool
  | [], _ => true
  | a :: rest, seen =>
    axisInRange dim a && !(seen.contains (normPos dim a)) && transposeAxesLoop dim rest (normPos dim a :: seen)

def transposeAxesOk (dim : Nat) (axes : List Int) : Bool :=
  decide (axes.length = dim) && transposeAxesLoop dim axes []

def transposeChecked (src : Shape) (axes : List Int) : Option IxView :=
  if transposeAxesOk src.length axes then transposeView src (some axes) else none

/-- both `normalize_axis` results are tested before use; the value model already is `none` exactly there -/
def swapaxesChecked (src : Shape) (a1 a2 : Int) : Option IxView :=
  if axisInRange src.length a1 && axisInRange src.length a2 then swapaxesView src a1 a2 else none

def pairwiseDistinct : List Nat → Bool
  | [] => true
  | x :: xs => !(xs.contains x) && pairwiseDistinct xs

def expandDimsChecked (src : Shape) (axes : List Int) : Option IxView :=
  match normalizeAxes (src.length + axes.length) axes with
  | none => none
  | some nax => if pairwiseDistinct nax then expandDimsView src axes else none

def repeatChecked (src : Shape) (r : Nat) (axis : Int) : Option IxView :=
  if axisInRange src.length axis then repeatView src r (some axis) else none

def repeatListChecked (src : Shape) (rs : List Nat) (axis : Int) : Option IxView :=
  if axisInRange src.length axis then
    (if atPy src axis = some rs.length then repeatListView src rs axis else none)
  else none

/-- the `success` flag of the repaired `index::shape_concatenate` (integer axis) -/
def concatenateOk (a b : Shape) (axis : Int) : Bool :=
  decide (a.length = b.length) && decide (0 ≤ normAxis axis a.length) && decide (normAxis axis a.length < (a.length : Int)) &&
    (shapeConcatenate a b axis).1

def concatenateChecked (a b : Shape) (axis : Int) : Option IxView2 :=
  if concatenateOk a b axis then concatenateView a b (some axis) else none

end NmVerif.Checked
