"""C01 — index <-> offset bijection. IMPL: index::compute_strides/offset/indices, ndindex_t, ndarray_t element access."""
import itertools
from runner import Case
from shapes import shapes, prod, fmt, all_idx, rand_shape

ID = 'C01'
LEVEL = 'proof'
RULE = ('exhaustive: every shape of rank 1..R with extents 1..E, every flat offset (strides, indices, ndindex) and every '
        'multi-index (offset, row- and column-major ndarray read/write); container kinds vec/std::array/static_vector; '
        'random shapes with prod near 2^31 / 2^40 at index level; machine width: int32 / uint32 / int64 / uint64 element types x '
        'vec/std::array/static_vector/run-time tuple (and mixed pairs for compute_offset) on shapes whose element count and leading stride straddle '
        '2^31, 2^32, 2^40, 2^63, 2^64, offsets at the marks +-1, last element, leading axis at its maximum, random (exact Python integers). '
        'non-trivial = shape has >= 2 axes with extent > 1')
EXHAUSTIVE = {'quick': True, 'thorough': True}
ANCHORS = {'NmVerif.strides': 'index::compute_strides', 'NmVerif.computeOffset': 'index::compute_offset',
           'NmVerif.computeIndices/ndindex': 'index::compute_indices, index::ndindex_t::operator[]',
           'NmVerif.NDA.get?/set': 'array::ndarray_t::operator() with row_major_offset_t / column_major_offset_t',
           'NmVerif.mStrides/mStrideFrom': 'index::stride / index::compute_strides with the suffix product formed in the element type of the shape container',
           'NmVerif.mOffset': 'index::compute_offset: every operand widened to nm_size_t before the multiplication (run-time loop and template_for branch)',
           'NmVerif.mIndices/mNdindex': 'index::compute_indices (3- and 2-argument forms) with 64-bit quotient/remainder stored into the element type of the shape'}
MANIFEST = dict(
    text='Proof: 27 Lean theorems (round trip both ways, in-shape, suffix-product strides, enumeration = lexicographic list of all multi-indices without repetition, row/column-major get/set laws; machine-width model with the element type of the index containers as a parameter: strides / offset / indices / both round trips are exact whenever extents and the leading stride fit the element type and the element count is at most 2^64, with counterexamples outside) for every rank and extent; tied to the C++ by an exhaustive small-scope + large-extent differential run of compute_strides/compute_offset/compute_indices/ndindex/ndarray_t access on every check.',
    note='Lean kernel + propext/Classical.choice/Quot.sound; model hand-written, fidelity rests on the correspondence run; unbounded Nat in the base model; machine width: NmVerif.Index.MachineAddr models 32/64-bit signed/unsigned element types and 64-bit nm_size_t (mStrides_exact, computeOffset_widened_exact, mIndices_exact, machine round trips) and is compared with the real code on 32/64-bit containers of every run-time kind up to 2^64 (h_c01w); compile-time-constant and clipped argument kinds of compute_strides / compute_offset / compute_indices / product / ndindex run over a fixed table in a generated TU (harness/gen_c01_ct.py); the full kind matrix is C09.',
    technique='Lean 4 induction proofs over List Nat shapes + differential correspondence (exhaustive small scope)')
ASSUMPTIONS = ['nm_size_t is 64 bit (SZ = 2^64 in NmVerif.Index.MachineAddr; the harness platform); element types narrower than int (integral promotion) are not modelled',
               'signed overflow in index::stride is undefined behaviour: modelled as `none`, signed off-domain inputs are compared with the Python oracle only',
               'compile-time-constant and clipped index kinds are covered by C09 kind matrix, not here']


def harness_specs(tier):
    return [dict(name='h_c01', src='h_c01.cpp', flavour='fast'),
            dict(name='h_c01ct', src='h_c01ct.cpp', flavour='fast'),     # generated: harness/gen_c01_ct.py
            dict(name='h_c01s', src='h_c01s.cpp', flavour='fast'),      # user-chosen strides containers
            dict(name='h_c01w', src='h_c01w.cpp', flavour='fast')]      # machine width: 32/64-bit signed/unsigned element types


CT_TABLE = [[2, 3, 4], [3, 2], [4], [2, 1, 3], [1], [3, 3], [2, 2, 2, 2], [4, 3]]     # = TABLE of harness/gen_c01_ct.py


def strides_py(s):
    return [prod(s[k + 1:]) for k in range(len(s))]


def offset_py(i, st):
    return sum(a * b for a, b in zip(i, st))


def indices_py(off, s):
    st = strides_py(s)
    return [(off // st[k]) % s[k] for k in range(len(s))]


# ----------------------------------------------------------------------------------------------------------------
# machine width (harness/h_c01w.cpp, NmVerif.Index.MachineAddr): element types of the index containers
# ----------------------------------------------------------------------------------------------------------------
W_LIM = {'i32': 2 ** 31, 'u32': 2 ** 32, 'i64': 2 ** 63, 'u64': 2 ** 64}       # number of non-negative values
W_KINDS = ['vec', 'arr', 'sv', 'tup']      # dynamic list, fixed std::array (rank <= 6), bounded static_vector, run-time tuple (rank <= 3)


def w_kind(n, r):
    k = W_KINDS[n % 4]
    return 'sv' if (k == 'tup' and r > 3) else 'vec' if (k == 'arr' and r > 6) else k

W_PAIRS = [('i32', 'i32'), ('u32', 'u32'), ('i64', 'i64'), ('u64', 'u64'), ('i32', 'u64'), ('u64', 'i32'), ('i32', 'u32')]
SZ = 2 ** 64


def w_in_domain(ty, s):
    """hypotheses of mStrides_exact / mIndices_exact: extents >= 1 that fit, suffix product of the tail fits"""
    return all(1 <= e < W_LIM[ty] for e in s) and prod(s[1:]) < W_LIM[ty]


def w_factor(rng, target, r):
    """r extents >= 1 whose product is <= target and (for the last few) close to it"""
    out = []
    rem = target
    for k in range(r):
        if k == r - 1:
            e = rem
        else:
            e = int(round(rem ** (1.0 / (r - k)) * rng.uniform(0.4, 1.6)))
        e = max(1, min(e, rem))
        out.append(e)
        rem = max(1, rem // e)
    rng.shuffle(out)
    return out


def w_shapes(tier, rng, ty):
    """shapes in the domain of `ty` whose element count and whose leading stride straddle 2^31, 2^32, 2^40, 2^63, 2^64"""
    M = W_LIM[ty]
    marks = [2 ** 31, 2 ** 32, 2 ** 40, 2 ** 63, 2 ** 64]
    # the seeded / textbook shapes
    fixed = [[3, 2 ** 30], [5, 1024, 2 ** 20], [8, 1, 1024, 1024, 1, 1024], [2, 2 ** 30], [2 ** 15, 2 ** 16], [2 ** 16, 2 ** 15],
             [4, 2 ** 30 + 1], [2, 2, 2 ** 30 - 1], [2 ** 31 - 1], [2 ** 31 - 1, 2 ** 31 - 1], [3, 1, 2 ** 31 - 1], [2 ** 31 - 1, 1, 1]]
    if M > 2 ** 31:
        fixed += [[2 ** 32 - 1], [2 ** 32 - 1, 2 ** 32 - 1], [2 ** 16, 2 ** 16], [3, 2 ** 16 - 1, 2 ** 16 + 1], [2, 2 ** 31], [2 ** 32 - 1, 2 ** 31, 1]]
    if M > 2 ** 32:
        fixed += [[2 ** 32, 2 ** 31 - 1], [2 ** 31, 2 ** 31, 2], [2 ** 21, 2 ** 21, 2 ** 21], [2 ** 62, 2], [3, 2 ** 62], [2 ** 63 - 1], [1, 2 ** 63 - 1, 1],
                  [2 ** 32, 2 ** 32 - 1], [2 ** 16] * 4 if M > 2 ** 63 else [2 ** 16, 2 ** 16, 2 ** 16, 2 ** 15]]
    if M > 2 ** 63:
        fixed += [[2 ** 64 - 1], [2, 2 ** 63], [2 ** 32, 2 ** 32], [1, 2 ** 64 - 1], [3, 2 ** 63 + 5], [2 ** 32 + 1, 2 ** 32 - 1]]
    for s in fixed:
        if w_in_domain(ty, s):
            yield s
    n = 40 if tier == 'quick' else 400
    for t in range(n):
        r = rng.randint(1, 6)
        # leading stride: just below the limit of the type, or near one of the marks below it
        tails = [M - 1 - rng.randrange(0, 4), M // 2 + rng.randrange(-2, 3)] + [m + rng.randrange(-3, 0) for m in marks if m < M] + [rng.randrange(1, 2 ** 20)]
        tail_target = max(1, tails[t % len(tails)])
        tail = w_factor(rng, tail_target, r - 1) if r > 1 else []
        pt = prod(tail)
        # element count: straddle a mark
        m = marks[(t // len(tails)) % len(marks)]
        a = m // pt + rng.choice([-1, 0, 0, 1, 1, 2])
        a = max(1, min(a, M - 1))
        s = [a] + tail
        if w_in_domain(ty, s):
            yield s


def _kv(req):
    return dict(x.split('=', 1) for x in req.split()[1:] if '=' in x)


def _nats(v):
    return [] if v in ('[]', '') else [int(x) for x in v.split(',')]


def pred_strides_narrow_element_type(case):
    """compute_strides / the two-argument compute_indices on a shape whose LEADING stride (product of all extents but the
    first) is not representable in the element type of the shape container: index::stride forms the product in that type"""
    op = case.req.split()[0]
    if op not in ('w_strides', 'w_indices'):
        return False
    kv = _kv(case.req)
    if kv.get('ty') not in W_LIM or 'shape' not in kv:
        return False
    s = _nats(kv['shape'])
    return all(1 <= e < W_LIM[kv['ty']] for e in s) and prod(s[1:]) >= W_LIM[kv['ty']]


KNOWN_PREDICATES = {'strides_narrow_element_type': pred_strides_narrow_element_type}


def w_wrap(ty, x):
    return x % W_LIM[ty] if ty[0] == 'u' else ((x + W_LIM[ty]) % (2 * W_LIM[ty]) - W_LIM[ty])


def w_offdomain_cases(tier, rng):
    """known finding strides.narrow-element-type: extents fit the element type, the leading stride does not.
    Unsigned element types wrap (well defined: the model mirrors it, `mStrides_unsigned_wrap_counterexample`); for signed
    ones the multiplication overflows (UB, model answer `ub`, not compared: `model=False`)."""
    table = [('u32', [2, 65537, 65537], [0, 7, 4295098369, 2 ** 33]), ('u32', [2, 65536, 65536], [5]), ('u32', [3, 2 ** 20, 2 ** 20, 5], [12345678901]),
             ('u32', [5, 2 ** 32 - 1, 2], [2 ** 33 + 1]), ('u64', [2, 2 ** 32 + 1, 2 ** 32 + 1], [2 ** 34 + 3]), ('u64', [3, 2 ** 63, 2], [7])]
    for i in range(6 if tier == 'quick' else 60):
        ty = ('u32', 'u64')[i % 2]
        M = W_LIM[ty]
        r = rng.randint(2, 5)
        tail = w_factor(rng, M * rng.randint(2, 2 ** 10) + rng.randrange(0, 2 ** 10), r)
        if all(e < M for e in tail) and prod(tail) >= M and prod(tail) < 2 ** 100:
            table.append((ty, [rng.randint(1, 5)] + tail, [rng.randrange(2 ** 63)]))
    for n, (ty, s, offs) in enumerate(table):
        st = strides_py(s)
        k = w_kind(n, len(s))
        yield Case('w_strides ty=%s kind=%s shape=%s' % (ty, k, fmt(s)), 'h_c01w', dom=False, oracle='ok ' + fmt(st), tags=['w_strides', 'off-domain', 'ty=' + ty])
        wst = [w_wrap(ty, x) for x in st]
        for off in offs:
            if 0 in wst and tier == 'quick' and n > 1:
                continue        # division by zero kills the harness; one instance is enough in the quick tier
            yield Case('w_indices ty=%s kind=%s off=%d shape=%s' % (ty, k, off, fmt(s)), 'h_c01w', dom=False, oracle='ok ' + fmt(indices_py(off, s)), tags=['w_indices', 'off-domain', 'ty=' + ty])
    for n, (ty, s) in enumerate([('i32', [2, 65536, 65536]), ('i32', [3, 46341, 46341]), ('i64', [2, 2 ** 32, 2 ** 31]), ('i32', [1, 2 ** 16, 2 ** 15])]):
        yield Case('w_strides ty=%s kind=%s shape=%s' % (ty, w_kind(n, len(s)), fmt(s)), 'h_c01w', dom=False, model=False, oracle='ok ' + fmt(strides_py(s)),
                   tags=['w_strides', 'off-domain', 'signed-overflow', 'ty=' + ty])


def w_cases(tier, rng):
    ctr = 0
    yield from w_offdomain_cases(tier, rng)
    # (a) small scope, every element type x kind: every offset / index
    for s in shapes(3, 3, min_rank=1):
        n = prod(s); st = strides_py(s); nt = sum(1 for e in s if e > 1) >= 2
        for ty in W_LIM:
            for k in W_KINDS:
                yield Case('w_strides ty=%s kind=%s shape=%s' % (ty, k, fmt(s)), 'h_c01w', oracle='ok ' + fmt(st), nontrivial=nt, tags=['w_strides', 'small', 'ty=' + ty, 'kind=' + k])
        for off in range(n):
            idx = indices_py(off, s)
            for rep in range(2):
                ctr += 1
                ty = list(W_LIM)[ctr % 4]; k = W_KINDS[(ctr // 4) % 4]
                same = ' offty=same' if (ctr // 16) % 2 else ''
                yield Case('w_indices ty=%s kind=%s off=%d shape=%s%s' % (ty, k, off, fmt(s), same), 'h_c01w', oracle='ok ' + fmt(idx), nontrivial=nt, tags=['w_indices', 'small', 'ty=' + ty, 'kind=' + k])
                ti, ts = W_PAIRS[ctr % 7]; ki = W_KINDS[(ctr // 7) % 4]; ks = W_KINDS[(ctr // 28) % 4]
                yield Case('w_offset tyi=%s tys=%s ki=%s ks=%s idx=%s strides=%s' % (ti, ts, ki, ks, fmt(idx), fmt(st)), 'h_c01w', oracle='ok %d' % off, nontrivial=nt,
                           tags=['w_offset', 'small', 'ty=%s/%s' % (ti, ts), 'kind=%s/%s' % (ki, ks)])
    # (b) large extents: only index math.  Everything here satisfies the hypotheses of the machine-width theorems
    #     (operands fit the element type, leading stride fits, true offset < 2^64), so the exact Python integers are demanded.
    for ty in W_LIM:
        M = W_LIM[ty]
        for s in w_shapes(tier, rng, ty):
            n = prod(s); st = strides_py(s); r = len(s)
            nt = sum(1 for e in s if e > 1) >= 2
            size_tag = 'n>=2^64' if n >= 2 ** 64 else 'n>=2^63' if n >= 2 ** 63 else 'n>=2^32' if n >= 2 ** 32 else 'n>=2^31' if n >= 2 ** 31 else 'n<2^31'
            tags = ['large', 'ty=' + ty, size_tag]
            for k in W_KINDS:
                if (k == 'arr' and r > 6) or (k == 'tup' and r > 3):
                    continue
                yield Case('w_strides ty=%s kind=%s shape=%s' % (ty, k, fmt(s)), 'h_c01w', oracle='ok ' + fmt(st), nontrivial=nt, tags=['w_strides', 'kind=' + k] + tags)
            # multi-indices: last element, leading axis at its maximum, random ones, neighbours of the marks
            top = min(n, SZ)                      # offsets must be size_t values
            offs = {top - 1, 0, rng.randrange(top), rng.randrange(top), (s[0] - 1) * st[0] if (s[0] - 1) * st[0] < top else top - 1}
            for m in (2 ** 31, 2 ** 32, 2 ** 63):
                for d in (-1, 0, 1):
                    if 0 <= m + d < top:
                        offs.add(m + d)
            for off in sorted(offs):
                idx = indices_py(off, s)
                assert offset_py(idx, st) == off
                ctr += 1
                big = max(a * b for a, b in zip(idx, st))
                ttag = 'term>=2^32' if big >= 2 ** 32 else 'term>=2^31' if big >= 2 ** 31 else 'term<2^31'
                k = w_kind(ctr, r)
                same = ' offty=same' if (off < M and (ctr // 4) % 3 == 0) else ''
                yield Case('w_indices ty=%s kind=%s off=%d shape=%s%s' % (ty, k, off, fmt(s), same), 'h_c01w', oracle='ok ' + fmt(idx), nontrivial=nt, tags=['w_indices', 'kind=' + k] + tags)
                if ctr % 5 == 0:
                    yield Case('w_indices3 ty=%s kind=%s off=%d shape=%s strides=%s' % (ty, k, off, fmt(s), fmt(st)), 'h_c01w', oracle='ok ' + fmt(idx), nontrivial=nt, tags=['w_indices3', 'kind=' + k] + tags)
                # offset: same element type for both containers in rotating kind pairs, plus the mixed pairs that can hold the operands
                ki = w_kind(ctr // 4, r); ks = w_kind(ctr // 16, r)
                pairs = [(ty, ty)] + [p for p in W_PAIRS if p[0] != p[1] and (ctr % 3 == 0 or r <= 3) and all(x < W_LIM[p[0]] for x in idx) and all(x < W_LIM[p[1]] for x in st)]
                for ti, ts in pairs:
                    yield Case('w_offset tyi=%s tys=%s ki=%s ks=%s idx=%s strides=%s' % (ti, ts, ki, ks, fmt(idx), fmt(st)), 'h_c01w', oracle='ok %d' % off, nontrivial=nt,
                               tags=['w_offset', 'ty=%s/%s' % (ti, ts), 'kind=%s/%s' % (ki, ks), ttag] + tags)


def gen(tier, rng):
    yield from gen_nat(tier, rng)
    yield from w_cases(tier, rng)


def gen_nat(tier, rng):
    R, E = (4, 3) if tier == 'quick' else (5, 4)
    kinds = ['vec', 'arr', 'sv']
    for s in shapes(R, E, min_rank=1):
        nt = sum(1 for e in s if e > 1) >= 2
        n = prod(s)
        st = strides_py(s)
        for k in kinds:
            yield Case('strides shape=%s kind=%s' % (fmt(s), k), 'h_c01', oracle='ok ' + fmt(st), nontrivial=nt, tags=['strides', 'kind=' + k, 'rank=%d' % len(s)])
        yield Case('product shape=%s' % fmt(s), 'h_c01', oracle='ok %d' % n, nontrivial=nt, tags=['product'])
        step = 1 if (tier == 'quick' or n <= 64) else 7
        for off in list(range(0, n, step)) + [n, n + 1, 2 * n + 1]:
            # offsets >= n: no spec (property only demands in-shape result) -> compare with model only
            idx = indices_py(off, s)
            k = kinds[off % 3]
            yield Case('indices off=%d shape=%s kind=%s' % (off, fmt(s), k), 'h_c01', oracle='ok ' + fmt(idx), nontrivial=nt, tags=['indices', 'oob-offset' if off >= n else 'offset<n'])
            if off < n:
                yield Case('ndindex off=%d shape=%s' % (off, fmt(s)), 'h_c01', oracle='ok %s size=%d' % (fmt(idx), n), model=False, nontrivial=nt, tags=['ndindex'])
        for idx in all_idx(s)[::step]:
            off = offset_py(idx, st)
            yield Case('offset idx=%s strides=%s kind=%s' % (fmt(idx), fmt(st), kinds[off % 3]), 'h_c01', oracle='ok %d' % off, nontrivial=nt, tags=['offset'])
            # logical element (data[k]=k row-major  <=> value at idx is the row-major offset);
            # column-major buffer position = offset of reversed index in reversed shape
            coff = offset_py(idx[::-1], strides_py(s[::-1]))
            yield Case('nd_get shape=%s layout=row idx=%s' % (fmt(s), fmt(idx)), 'h_c01', oracle='ok %d' % off, nontrivial=nt, tags=['nd_get', 'row'])
            yield Case('nd_get shape=%s layout=col idx=%s' % (fmt(s), fmt(idx)), 'h_c01', oracle='ok %d' % coff, nontrivial=nt, tags=['nd_get', 'col'])
            yield Case('nd_set shape=%s layout=row idx=%s' % (fmt(s), fmt(idx)), 'h_c01', oracle='ok %d' % off, nontrivial=nt, tags=['nd_set', 'row'])
            yield Case('nd_set shape=%s layout=col idx=%s' % (fmt(s), fmt(idx)), 'h_c01', oracle='ok %d' % coff, nontrivial=nt, tags=['nd_set', 'col'])
    # compile-time-constant / clipped argument kinds (fixed table of harness/gen_c01_ct.py): the all-constant branches of
    # the index functions compute their answer in the TYPE (`ct<...>` tuples) through code of their own (seeded C01-2)
    for s in CT_TABLE:
        n = prod(s); st = strides_py(s); nt = sum(1 for e in s if e > 1) >= 2
        for k in ('ct', 'cl'):
            yield Case('strides shape=%s kind=%s' % (fmt(s), k), 'h_c01ct', oracle='ok ' + fmt(st), nontrivial=nt, tags=['strides', 'kind=' + k])
        yield Case('product shape=%s kind=ct' % fmt(s), 'h_c01ct', oracle='ok %d' % n, nontrivial=nt, tags=['product', 'kind=ct'])
        for off in list(range(n)) + [n, n + 1]:
            idx = indices_py(off, s)
            for k in ('ct', 'ctshape', 'ctoff', 'cl'):
                yield Case('indices off=%d shape=%s kind=%s' % (off, fmt(s), k), 'h_c01ct', oracle='ok ' + fmt(idx), nontrivial=nt,
                           tags=['indices', 'kind=' + k, 'oob-offset' if off >= n else 'offset<n'])
            if off < n:
                yield Case('ndindex off=%d shape=%s kind=ct' % (off, fmt(s)), 'h_c01ct', oracle='ok ' + fmt(idx), model=False, nontrivial=nt, tags=['ndindex', 'kind=ct'])
        for idx in all_idx(s):
            off = offset_py(idx, st)
            for k in ('ct', 'ctidx'):
                yield Case('offset idx=%s strides=%s kind=%s' % (fmt(idx), fmt(st), k), 'h_c01ct', oracle='ok %d' % off, nontrivial=nt, tags=['offset', 'kind=' + k])
    # ndarray_t with a user-chosen strides container whose type differs from what compute_strides deduces for the shape
    # (base_ndarray_t::compute_strides converts element by element; seeded change C01-3), both layouts: strides() and the
    # buffer position of every element.  (strides() of a column-major array reports the row-major strides: C20 finding.)
    for s in [x for x in shapes(3, 3 if tier == 'quick' else 4, min_rank=1)]:
        n = prod(s); st = strides_py(s); nt = sum(1 for e in s if e > 1) >= 2
        fst = [prod(s[:k]) for k in range(len(s))]
        for lay in ('row', 'col'):
            pos = [offset_py(i, st if lay == 'row' else fst) for i in all_idx(s)]
            for k in ('a_al', 'a_ai', 'a_vu', 'v_vl', 'v_vi'):
                yield Case('nd_strides kind=%s layout=%s shape=%s' % (k, lay, fmt(s)), 'h_c01s', oracle='ok strides=%s pos=%s' % (fmt(st), fmt(pos)), model=False,
                           nontrivial=nt, tags=['nd_strides', 'kind=' + k, lay])
    # large extents, index math only
    nlarge = 400 if tier == 'quick' else 5000
    for t in range(nlarge):
        target = 2 ** 31 if t % 2 == 0 else 2 ** 40
        r = rng.randint(1, 6)
        s = []
        rem = target
        for k in range(r):
            e = max(1, int(rem ** (1.0 / (r - k)) * rng.uniform(0.5, 1.5))) if k < r - 1 else max(1, rem)
            e = min(e, max(1, rem))
            s.append(e)
            rem = max(1, rem // e)
        rng.shuffle(s)
        n = prod(s)
        if n >= 2 ** 62:
            continue
        st = strides_py(s)
        off = rng.randrange(n)
        idx = indices_py(off, s)
        tags = ['large', 'near2^31' if t % 2 == 0 else 'near2^40']
        yield Case('strides shape=%s kind=vec' % fmt(s), 'h_c01', oracle='ok ' + fmt(st), tags=tags)
        yield Case('indices off=%d shape=%s kind=vec' % (off, fmt(s)), 'h_c01', oracle='ok ' + fmt(idx), tags=tags)
        yield Case('offset idx=%s strides=%s kind=vec' % (fmt(idx), fmt(st)), 'h_c01', oracle='ok %d' % off, tags=tags)
