import NmVerif.Proto
import NmVerif.Arr
import NmVerif.Index.Checked
import NmVerif.Index.Transpose
import NmVerif.Index.Broadcast
import NmVerif.Index.Pad
import NmVerif.Index.Tile
import NmVerif.Index.Roll
import NmVerif.Index.CheckedOps
namespace NmVerif.Driver.C15
open NmVerif NmVerif.Proto NmVerif.Index

def fmtView (v : IxView) : String := s!"ok shape={fmtNats v.dst} data={fmtInts v.provenance}"

/-- reshape with full argument checking (Checked.shapeReshape), element map as view::reshape -/
def reshapeChecked (src : Shape) (dst : List Int) : Option IxView :=
  (Checked.shapeReshape src dst).map (fun t =>
    ⟨src, t, fun d => some (computeIndices (computeOffset d (strides t)) src (strides src))⟩)

/-- two operands (left filled `k`, right `k + 1000`) joined by an `IxView2` -/
def fmtView2 (v : IxView2) : String :=
  let d : List Int := (allIdx v.dst).map (fun d =>
    match v.map d with
    | some (false, i) => (computeOffset i (strides v.srcA) : Int)
    | some (true, i) => (computeOffset i (strides v.srcB) : Int) + 1000
    | none => -1)
  s!"ok shape={fmtNats v.dst} data={fmtInts d}"

def fmtOpt (v : Option IxView) : String := match v with | some v => fmtView v | none => "nothing"

def handle : Handler := fun op a =>
  match op with
  | "v_transpose" => orBad do
      let s ← a.nats "shape"; let ax ← a.ints "axes"
      pure (fmtOpt (Checked.transposeChecked s ax))
  | "v_swapaxes" => orBad do
      let s ← a.nats "shape"; let p ← a.int "a1"; let q ← a.int "a2"
      pure (fmtOpt (Checked.swapaxesChecked s p q))
  | "v_expand_dims" => orBad do
      let s ← a.nats "shape"; let ax ← a.ints "axes"
      pure (fmtOpt (Checked.expandDimsChecked s ax))
  | "v_repeat" => orBad do
      let s ← a.nats "shape"; let ax ← a.int "axis"
      match a.get? "repeats" with
      | some _ =>
        let r ← a.nat "repeats"
        pure (fmtOpt (Checked.repeatChecked s r ax))
      | none =>
        let rs ← a.nats "counts"
        pure (fmtOpt (Checked.repeatListChecked s rs ax))
  | "v_concatenate" => orBad do
      let s ← a.nats "shape"; let s2 ← a.nats "shape2"; let ax ← a.int "axis"
      pure (match Checked.concatenateChecked s s2 ax with | some v => fmtView2 v | none => "nothing")
  | "v_reshape" => orBad do
      let s ← a.nats "shape"; let t ← a.ints "to"
      pure (match reshapeChecked s t with | some v => fmtView v | none => "nothing")
  | "v_pipe_reshape_transpose" => orBad do
      let s ← a.nats "shape"; let t ← a.ints "to"
      pure (match reshapeChecked s t with
        | none => "nothing"
        | some v => match transposeView v.dst none with
          | some w => fmtView (w.comp v)
          | none => "nothing")
  | "v_broadcast_to" => orBad do
      let s ← a.nats "shape"; let t ← a.nats "to"
      pure (match broadcastToView s t with | some v => fmtView v | none => "nothing")
  | "v_add" => orBad do
      -- operands data[k]=k and data[k]=1000+k: the sum decodes both source ids
      let s1 ← a.nats "shape"; let s2 ← a.nats "shape2"
      pure (match broadcastArraysViews [s1, s2] with
        | some [v1, v2] =>
          let d := (v1.provenance.zip v2.provenance).map (fun p => p.1 + p.2 + 1000)
          s!"ok shape={fmtNats v1.dst} data={fmtInts d}"
        | _ => "nothing")
  | "v_where3" => orBad do
      -- cond data k%2, x data 1000+k, y data 2000+k, all broadcast together (variadic broadcast_shape)
      let s1 ← a.nats "shape"; let s2 ← a.nats "shape2"; let s3 ← a.nats "shape3"
      pure (match broadcastArraysViews [s1, s2, s3] with
        | some [v1, v2, v3] =>
          let d := (v1.provenance.zip (v2.provenance.zip v3.provenance)).map
            (fun p => if p.1 % 2 != 0 then p.2.1 + 1000 else p.2.2 + 2000)
          s!"ok shape={fmtNats v1.dst} data={fmtInts d}"
        | _ => "nothing")
  | "v_pad" => orBad do
      let s ← a.nats "shape"; let w ← a.nats "width"
      pure (match padView s w with | some v => fmtView v | none => "nothing")
  | "v_tile" => orBad do
      let s ← a.nats "shape"; let r ← a.nats "reps"
      pure (match tileView s r with | some v => fmtView v | none => "nothing")
  | "v_roll" => orBad do
      let s ← a.nats "shape"; let sh ← a.int "shift"; let ax ← a.int "axis"
      pure (match rollView s sh ax with | some v => fmtView v | none => "nothing")
  | _ => none

end NmVerif.Driver.C15
