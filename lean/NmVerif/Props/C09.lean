/-
  Property C09 — results are independent of container kind and of compile- vs run-time knowledge.

  The index functions of the model take `List Nat`: one semantic function per operation.  The part of
  C09 that is a theorem is the container layer (NmVerif.Containers.Kinds): a bounded vector refines a
  list as long as no capacity event occurs, a clipped integer is the identity inside its range, and the
  bounded / clipped result containers the C++ metafunctions pick are large enough, so none of those
  events can occur.  That each kind-specific C++ branch computes the one reference function is
  validated by the generated kind matrix (lib/props/c09.py), not proved.
-/
import NmVerif.Basic
import NmVerif.Containers.Kinds
import NmVerif.Containers.KindRefs
import NmVerif.Lemmas.Kinds
import NmVerif.Lemmas.KindRefusals
namespace NmVerif.Props.C09
open NmVerif NmVerif.Kinds NmVerif.KindRefs

/-! ### clipped integers -/

/-- inside `[lo,hi]` a clipped integer holds exactly the value it was given -/
theorem clipped_eq_of_inRange (lo hi v : Int) (h1 : lo ≤ v) (h2 : v ≤ hi) :
    (Clipped.mk' lo hi v).val = v := by
  unfold Clipped.mk'
  simp only
  split
  · omega
  · split
    · omega
    · rfl

/-- whatever it is given, a clipped integer lies in `[lo,hi]`; above the range it holds `hi`, below `lo` -/
theorem clipped_clamps (lo hi v : Int) (h : lo ≤ hi) :
    lo ≤ (Clipped.mk' lo hi v).val ∧ (Clipped.mk' lo hi v).val ≤ hi ∧
    (hi < v → (Clipped.mk' lo hi v).val = hi) ∧ (v < lo → (Clipped.mk' lo hi v).val = lo) := by
  unfold Clipped.mk'
  simp only
  split
  · refine ⟨h, Int.le_refl _, fun _ => rfl, fun h' => by omega⟩
  · split
    · refine ⟨Int.le_refl _, h, fun h' => by omega, fun _ => rfl⟩
    · refine ⟨by omega, by omega, fun h' => by omega, fun h' => by omega⟩

/-- assignment behaves as construction -/
theorem clipped_assign_eq_of_inRange (lo hi v : Int) (c : Clipped lo hi) (h1 : lo ≤ v) (h2 : v ≤ hi) :
    (c.assign v).val = v := clipped_eq_of_inRange lo hi v h1 h2

example : (Clipped.mk' 0 6 4).val = 4 := by decide
example : (Clipped.mk' 0 6 9).val = 6 := by decide
example : (Clipped.mk' (-2) 3 (-7)).val = -2 := by decide

/-- outside the range the clipped kind silently disagrees with the plain integer: the boundary of the refinement -/
theorem clipped_outOfRange_counterexample : (Clipped.mk' 0 6 9).val ≠ 9 := by decide

/-! ### bounded vector (`utl::static_vector`) refines the list -/

/-- ANY sequence of `resize` / element assignment / `push_back` that never exceeds the capacity and never
    shrinks behaves on a bounded vector exactly as on the dynamic list (`std::vector` semantics) -/
theorem bvec_refines_list (cap : Nat) (ops : List VOp) (h : Fits cap ops 0) :
    (runBVec ops (BVec.empty cap)).toList = runList ops [] :=
  rel_toList (rel_run ops _ _ (rel_empty cap) h)

/-- the same from any state reached so far -/
theorem bvec_refines_list_from (cap : Nat) (pre ops : List VOp) (h1 : Fits cap pre 0)
    (h2 : Fits cap ops (runList pre []).length) :
    (runBVec ops (runBVec pre (BVec.empty cap))).toList = runList ops (runList pre []) :=
  rel_toList (rel_run ops _ _ (rel_run pre _ _ (rel_empty cap) h1) h2)

example : (runBVec [.resize 3, .set 0 12, .set 1 4, .set 2 1, .push 7] (BVec.empty 8)).toList
    = runList [.resize 3, .set 0 12, .set 1 4, .set 2 1, .push 7] [] := by decide

/-- filling a bounded result container the way the index functions do (`resize(len)`, then element
    assignment) reproduces the list-level result whenever it fits -/
theorem bvec_ofList (cap : Nat) (l : List Nat) (h : l.length ≤ cap) : (BVec.ofList cap l).toList = l := by
  unfold BVec.ofList
  rw [bvec_refines_list cap (fillOps l) (fits_fillOps cap l h), runList_fillOps]

example : (BVec.ofList 8 [12, 4, 1]).toList = [12, 4, 1] := by decide

/-- above the capacity the request is silently ignored and the two kinds differ: the boundary of the refinement -/
theorem bvec_overflow_counterexample :
    (runBVec [.resize 3] (BVec.empty 2)).toList ≠ runList [.resize 3] [] := by decide

/-- a shrink followed by a growth exposes stale cells (std::vector zero-fills): the other boundary -/
theorem bvec_shrink_grow_counterexample :
    (runBVec [.resize 2, .set 1 7, .resize 1, .resize 2] (BVec.empty 4)).toList
      ≠ runList [.resize 2, .set 1 7, .resize 1, .resize 2] [] := by decide

/-! ### the result containers picked by the metafunctions are large enough -/

/-- `compute_strides`: the bounded result (`utl::static_vector<index_t,B_DIM>`, `B_DIM` = bound of the
    argument) holds exactly the strides of the list-level function -/
theorem strides_result_fits (cap : Nat) (s : List Nat) (h : s.length ≤ cap) :
    (BVec.ofList cap (strides s)).toList = strides s :=
  bvec_ofList cap _ (by rw [strides_length]; exact h)

example : (BVec.ofList 8 (strides [2, 3, 4])).toList = [12, 4, 1] := by decide

/-- strides are monotone in the shape … -/
theorem strides_mono {s m : List Nat} (h : LeList s m) : LeList (strides s) (strides m) := by
  induction s generalizing m with
  | nil => cases m <;> simp_all [LeList, strides]
  | cons x xs ih =>
    cases m with
    | nil => simp [LeList] at h
    | cons y ys =>
      simp only [LeList] at h
      simp only [strides, LeList]
      exact ⟨prod_mono h.2, ih h.2⟩

theorem clipList_of_le {maxs vals : List Nat} (h : LeList vals maxs) : clipList maxs vals = vals := by
  induction vals generalizing maxs with
  | nil => cases maxs <;> simp_all [LeList, clipList]
  | cons v vs ih =>
    cases maxs with
    | nil => simp [LeList] at h
    | cons m ms =>
      simp only [LeList] at h
      have hv := clipped_eq_of_inRange 0 (m : Int) (v : Int) (by omega) (by omega)
      have := ih h.2
      simp only [clipList] at this ⊢
      simp [List.zipWith, hv, this]

/-- … hence the clipped result of `compute_strides` on a clipped shape (result bounds = strides of the
    bounds, compute_strides.hpp:121-141) never clamps: it holds the strides of the values -/
theorem clipped_strides_no_clamp (s m : List Nat) (h : LeList s m) :
    clipList (strides m) (strides s) = strides s :=
  clipList_of_le (strides_mono h)

example : clipList (strides [3, 3, 6]) (strides [2, 3, 4]) = [12, 4, 1] := by decide

/-- `shape_transpose` keeps the rank, so the bounded result of the bound of the shape is large enough -/
theorem transpose_result_fits (cap : Nat) (s : List Nat) (axes : Option (List Nat)) (r : List Nat)
    (h : transpose s axes = some r) (hc : s.length ≤ cap) :
    r.length = s.length ∧ (BVec.ofList cap r).toList = r := by
  have hl : r.length = s.length := by
    unfold transpose at h
    cases axes with
    | none => simp at h; subst h; simp
    | some ax =>
      simp only at h
      split at h
      · rename_i hp
        simp at h; subst h
        simp [isPerm] at hp
        simp [hp.1]
      · simp at h
  exact ⟨hl, bvec_ofList cap r (by omega)⟩

example : transpose [2, 3, 4] (some [2, 0, 1]) = some [4, 2, 3] := by decide

/-- `broadcast_shape` of two shapes has the rank of the longer one: the bound `max(B_a, B_b)` suffices -/
theorem broadcast_result_fits (capa capb : Nat) (a b r : List Nat) (h : broadcastShape a b = some r)
    (ha : a.length ≤ capa) (hb : b.length ≤ capb) :
    r.length = max a.length b.length ∧ (BVec.ofList (max capa capb) r).toList = r := by
  have hl : r.length = max a.length b.length := by
    unfold broadcastShape at h
    cases hr : bshapeRev a.reverse b.reverse with
    | none => simp [hr] at h
    | some r' =>
      simp [hr] at h
      subst h
      have := bshapeRev_length _ _ _ hr
      simpa using this
  exact ⟨hl, bvec_ofList _ r (by omega)⟩

example : broadcastShape [2, 1, 4] [3, 1] = some [2, 3, 4] := by decide

/-- former known finding C09.broadcast-clipped-one-with-slack (repaired in /repo by 90a319c, kept as a regression instance of
    the matrix): the C++ took the result bounds from the clipped operand
    alone (`"2:[2]","1:[2]","4:[6]"` against the run-time shape (3,1)); the true result does not fit them -/
theorem broadcast_bound_from_one_operand_counterexample :
    broadcastShape [2, 1, 4] [3, 1] = some [2, 3, 4] ∧ clipList [2, 2, 6] [2, 3, 4] ≠ [2, 3, 4] := by decide

/-- known finding C09.reshape-clipped-bounds: the `-1` slot of a clipped target keeps its own bound -/
theorem reshape_minus_one_bound_counterexample :
    reshape [2, 3, 4] [4, -1] = some [4, 6] ∧ clipList [4, 4] [4, 6] ≠ [4, 6] := by decide

/-- known finding C09.repeat-clipped-repeats: the constant branch of `shape_repeat` repeats by the BOUNDS
    `(3,2)` of the clipped repeats `(2,1)` -/
theorem repeat_bounds_counterexample :
    repeatList [2, 2] [2, 1] (some 0) = some [3, 2] ∧ repeatList [2, 2] [3, 2] (some 0) ≠ some [3, 2] := by decide

/-- known finding C09.reshape-clipped-bounds, second face: a clipped target extent whose RANGE reaches below 0
    (`clipped_integer_t<int,-1,12>{12}`) is read as the `-1` placeholder by the result-type resolver; the result slot
    gets the bound 1 (the element count of the remaining slots) and the extent 12 is clamped to it -/
theorem reshape_negative_min_bound_counterexample :
    reshape [2, 3, 2] [12] = some [12] ∧ clipList [1] [12] ≠ [12] := by decide

/-- known finding C09.take-clipped-indices: `take` types its result shape by the index ENTRIES; with the clipped
    entries `(2 ≤ 3, 0 ≤ 1)` every extent of the true result `(2,2)` is clamped to the bound `1` of the last entry -/
theorem take_index_bound_counterexample :
    vTake [2, 3] [2, 0] 1 = some ([2, 2], [2, 0, 5, 3]) ∧ clipList [1, 1] [2, 2] ≠ [2, 2] := by decide

/-- known finding C09.repeat-constant-axis-unchecked: with the axis `2_ct` the code returns the source shape `(2,3)`
    unchanged (and `(2,3)` again for two counts on the extent 3); the reference, and the code with a run-time axis, refuse -/
theorem repeat_constant_axis_counterexample :
    some [2, 3] ≠ repeatScalar [2, 3] 2 (some 2) ∧ some [2, 3] ≠ repeatList [2, 3] [1, 2] (some 1) := by decide

/-- known finding C09.concatenate-clipped-operand: `tuple_at` reads the extent 3 of the joining axis of a clipped shape
    `(3,2)` through the type of the LAST entry (bound 2): the first operand is taken to have 2 rows, and row 2 of the
    result `(5,2)` comes from the wrong operand -/
theorem concatenate_clipped_extent_counterexample :
    vConcatenate [3, 2] [2, 2] (some 0) = some ([5, 2], [0, 1, 2, 3, 4, 5, 1000, 1001, 1002, 1003]) ∧
    (Clipped.mk' 0 2 3).val ≠ 3 := by decide

/-! ### the reference refuses every member of the refusal classes of the kind matrix -/

/-- all-positive target: accepted exactly when the element counts agree, and then the answer is the target itself.
    In particular a target whose count is a proper divisor / a multiple of / coprime to the source count is
    refused, whatever the kinds of the two arguments. -/
theorem reshape_allpos_iff (src : List Nat) (dst : List Int) (r : List Nat) (h : ∀ d ∈ dst, 0 < d) :
    reshape src dst = some r ↔ (prod (dst.map Int.toNat) = prod src ∧ r = dst.map Int.toNat) := by
  unfold reshape
  simp only [filter_neg_of_pos dst h, filter_nonneg_of_pos dst h, List.any_nil, List.length_nil]
  by_cases hc : prod (dst.map Int.toNat) = prod src
  · simp [hc, eq_comm]
  · simp [hc]

theorem reshape_refuses_count_mismatch (src : List Nat) (dst : List Int) (h : ∀ d ∈ dst, 0 < d)
    (hc : prod (dst.map Int.toNat) ≠ prod src) : reshape src dst = none := by
  cases hr : reshape src dst with
  | none => rfl
  | some r => exact absurd ((reshape_allpos_iff src dst r h).mp hr).1 hc

example : reshape [12] [2, 3] = none := by decide
example : reshape [6] [3, 4] = none := by decide
example : reshape [6] [5] = none := by decide
example : reshape [2, 3, 2] [12] = some [12] := by decide

theorem reshape_refuses_two_unknown (src : List Nat) (dst : List Int)
    (h : 2 ≤ (dst.filter (· < 0)).length) : reshape src dst = none := by
  unfold reshape
  simp only
  split
  · rfl
  · split
    · rename_i h0; omega
    · rename_i h1; omega
    · rfl

theorem reshape_refuses_bad_extent (src : List Nat) (dst : List Int) (hs : Pos src) (d : Int) (hd : d ∈ dst)
    (hbad : d = 0 ∨ d < -1) : reshape src dst = none := by
  have hn := prod_pos hs
  unfold reshape
  simp only
  split
  · rfl
  · rename_i hany
    rcases hbad with h0 | hneg
    · have hk : prod ((dst.filter (· ≥ 0)).map Int.toNat) = 0 := by
        apply prod_eq_zero_of_mem
        apply List.mem_map.mpr
        exact ⟨d, List.mem_filter.mpr ⟨hd, by simp [h0]⟩, by simp [h0]⟩
      split
      · rw [hk]; simp; omega
      · simp [hk]
      · rfl
    · exfalso
      apply hany
      apply List.any_eq_true.mpr
      exact ⟨d, List.mem_filter.mpr ⟨hd, by simp; omega⟩, by simp; omega⟩

example : reshape [6] [-1, -1] = none := by decide
example : reshape [6] [0, -1] = none := by decide
example : reshape [6] [-2, 3] = none := by decide

/-- operand order does not matter (the kind matrix runs every request of a binary operation in both orders) -/
theorem broadcastShape_comm (a b : List Nat) : broadcastShape a b = broadcastShape b a :=
  broadcastShape_comm' a b

example : broadcastShape [2, 1, 4] [3, 1] = some [2, 3, 4] ∧ broadcastShape [3, 1] [2, 1, 4] = some [2, 3, 4] := by decide

/-- two extents that meet on the `k`-th axis counted from the last, differ and are both not 1: refused -/
theorem broadcastShape_refuses_mismatch (a b : List Nat) (k x y : Nat)
    (ha : a.reverse[k]? = some x) (hb : b.reverse[k]? = some y) (hxy : x ≠ y) (hx : x ≠ 1) (hy : y ≠ 1) :
    broadcastShape a b = none := by
  unfold broadcastShape
  rw [bshapeRev_none_of_mismatch _ _ k x y ha hb (bdim_none hxy hx hy)]
  rfl

example : broadcastShape [2, 3, 4] [2, 1] = none := by decide
example : [2, 3, 4].reverse[1]? = some 3 ∧ [2, 1].reverse[1]? = some 2 := by decide

/-- `broadcast_to`: a source of higher rank than the target is refused -/
theorem broadcastTo_refuses_longer (a b : List Nat) (h : b.length < a.length) : broadcastTo a b = none := by
  unfold broadcastTo
  have : ¬ a.length ≤ b.length := by omega
  simp [this]

/-- `broadcast_to`: an extent mismatch is refused -/
theorem broadcastTo_refuses_mismatch (a b : List Nat) (k x y : Nat)
    (ha : a.reverse[k]? = some x) (hb : b.reverse[k]? = some y) (hxy : x ≠ y) (hx : x ≠ 1) (hy : y ≠ 1) :
    broadcastTo a b = none := by
  unfold broadcastTo
  rw [broadcastShape_refuses_mismatch a b k x y ha hb hxy hx hy]
  simp

example : broadcastTo [2, 3] [3] = none := by decide
example : broadcastTo [3, 2] [2, 3, 4] = none := by decide
example : broadcastTo [3, 1] [2, 3, 4] = some [2, 3, 4] := by decide

theorem matmulShape_refuses_contraction (a b : List Nat) (x y : Nat)
    (ha : a.reverse[0]? = some x) (hb : b.reverse[1]? = some y) (hxy : x ≠ y) : matmulShape a b = none := by
  unfold matmulShape
  by_cases hl : a.length < 2 ∨ b.length < 2
  · simp [hl]
  · have h1 : 2 ≤ a.length := by omega
    have h2 : 2 ≤ b.length := by omega
    rw [List.getElem?_reverse (by omega)] at ha hb
    have e1 : (a.drop (a.length - 2)).getD 1 0 = x := by
      rw [List.getD_eq_getElem?_getD, List.getElem?_drop]
      have : a.length - 2 + 1 = a.length - 1 - 0 := by omega
      rw [this, ha]; rfl
    have e2 : (b.drop (b.length - 2)).getD 0 0 = y := by
      rw [List.getD_eq_getElem?_getD, List.getElem?_drop]
      have : b.length - 2 + 0 = b.length - 1 - 1 := by omega
      rw [this, hb]; rfl
    simp only [hl, if_false, e1, e2]
    simp [hxy]
example : matmulShape [2, 3] [2, 2] = none := by decide
example : matmulShape [2, 1, 3, 4] [5, 4, 2] = some [2, 5, 3, 2] := by decide

/-! ### views: refused exactly when the shape function refuses; accepted answers are well-formed arrays -/

theorem vReshape_none_iff (s : List Nat) (d : List Int) : vReshape s d = none ↔ reshape s d = none := by
  simp [vReshape]

theorem vBroadcastTo_none_iff (s t : List Nat) : vBroadcastTo s t = none ↔ broadcastTo s t = none := by
  simp [vBroadcastTo]

theorem vAdd_none_iff (a b : List Nat) : vAdd a b = none ↔ broadcastShape a b = none := by
  simp [vAdd]

theorem vBroadcastArrays_none_iff (a b : List Nat) : vBroadcastArrays a b = none ↔ broadcastShape a b = none := by
  simp [vBroadcastArrays]

theorem vWhere_none_iff (c x y : List Nat) : vWhere c x y = none ↔ broadcastShapes [c, x, y] = none := by
  simp [vWhere]

theorem vPad_none_iff (s pw : List Nat) : vPad s pw = none ↔ pw.length ≠ 2 * s.length := by
  simp [vPad, pad]

theorem vMatmul_none_iff (a b : List Nat) : vMatmul a b = none ↔ matmulShape a b = none := by
  simp [vMatmul]

/-- operand order: `x + y` and `y + x` are refused together and have the same shape -/
theorem vAdd_shape_comm (a b : List Nat) : (vAdd a b).map (·.1) = (vAdd b a).map (·.1) := by
  simp only [vAdd, Option.map_map]
  rw [broadcastShape_comm' a b]
  rfl

example : (vAdd [2, 1] [1, 3]).map (·.1) = some [2, 3] ∧ (vAdd [1, 3] [2, 1]).map (·.1) = some [2, 3] := by decide
example : vAdd [2, 3] [2] = none ∧ vAdd [2] [2, 3] = none := by decide

/-- every accepted reference answer of the tabulated views is a well-formed array -/
theorem vrefs_wf (v : ArrV) :
    (∀ s t, vBroadcastTo s t = some v → WF v) ∧ (∀ a b, vAdd a b = some v → WF v) ∧
    (∀ s pw, vPad s pw = some v → WF v) ∧ (∀ s ax, vFlip s ax = some v → WF v) ∧
    (∀ c x y, vWhere c x y = some v → WF v) ∧ (∀ a b, vMatmul a b = some v → WF v) ∧
    (∀ s ind ax, vTake s ind ax = some v → WF v) ∧ (∀ s r, vTile s r = v → WF v) := by
  refine ⟨?_, ?_, ?_, ?_, ?_, ?_, ?_, ?_⟩
  · intro s t h; simp only [vBroadcastTo, Option.map_eq_some_iff] at h
    obtain ⟨r, _, rfl⟩ := h; exact tabulate_wf _ _
  · intro a b h; simp only [vAdd, Option.map_eq_some_iff] at h
    obtain ⟨r, _, rfl⟩ := h; exact tabulate_wf _ _
  · intro s pw h; simp only [vPad, Option.map_eq_some_iff] at h
    obtain ⟨r, _, rfl⟩ := h; exact tabulate_wf _ _
  · intro s ax h; simp only [vFlip, Option.map_eq_some_iff] at h
    obtain ⟨r, _, rfl⟩ := h; exact tabulate_wf _ _
  · intro c x y h; simp only [vWhere, Option.map_eq_some_iff] at h
    obtain ⟨r, _, rfl⟩ := h; exact tabulate_wf _ _
  · intro a b h; simp only [vMatmul, Option.map_eq_some_iff] at h
    obtain ⟨r, _, rfl⟩ := h; exact tabulate_wf _ _
  · intro s ind ax h; simp only [vTake, Option.bind_eq_some_iff] at h
    obtain ⟨k, _, h⟩ := h
    split at h
    · cases h
    · cases h; exact tabulate_wf _ _
  · intro s r h; subst h; exact tabulate_wf _ _

example : vPad [2, 3] [0, 2, 1, 0] = some ([3, 5], [9999, 9999, 0, 1, 2, 9999, 9999, 3, 4, 5, 9999, 9999, 9999, 9999, 9999]) := by decide

/-- all-positive target: the reshaped reference array is well formed (the element counts agree) -/
theorem vReshape_wf_allpos (s : List Nat) (d : List Int) (v : ArrV) (h : ∀ x ∈ d, 0 < x) (hv : vReshape s d = some v) :
    WF v := by
  simp only [vReshape, Option.map_eq_some_iff] at hv
  obtain ⟨r, hr, rfl⟩ := hv
  have := (reshape_allpos_iff s d r h).mp hr
  simp [WF, this.2, this.1]

example : vReshape [2, 3] [3, 2] = some ([3, 2], [0, 1, 2, 3, 4, 5]) := by decide

/-- every accepted reshape (with or without an inferred `-1` extent) keeps the element count … -/
theorem reshape_keeps_count (src : List Nat) (dst : List Int) (r : List Nat) (h : reshape src dst = some r) :
    prod r = prod src := reshape_prod src dst r h

/-- … so the reshaped reference array is well formed for EVERY accepted target (full version of `vReshape_wf_allpos`) -/
theorem vReshape_wf (s : List Nat) (d : List Int) (v : ArrV) (hv : vReshape s d = some v) : WF v := by
  simp only [vReshape, Option.map_eq_some_iff] at hv
  obtain ⟨r, hr, rfl⟩ := hv
  simp [WF, reshape_prod s d r hr]

example : vReshape [2, 3, 2] [4, -1] = some ([4, 3], [0, 1, 2, 3, 4, 5, 6, 7, 8, 9, 10, 11]) := by decide

/-- an axis outside `[-ndim, ndim)` is refused -/
theorem normAxis_refuses (ndim : Nat) (a : Int) (h : a < -(ndim : Int) ∨ (ndim : Int) ≤ a) : normAxis ndim a = none := by
  unfold normAxis
  have h1 : ¬ (0 ≤ a ∧ a < ndim) := by omega
  have h2 : ¬ (a < 0 ∧ -(ndim : Int) ≤ a) := by omega
  simp [h1, h2]

example : normAxis 3 3 = none ∧ normAxis 3 (-4) = none ∧ normAxis 3 (-1) = some 2 := by decide

/-- `repeat` (scalar count) along an axis out of range is refused, at shape level and as a view -/
theorem repeat_refuses_axis (s : List Nat) (r : Nat) (a : Int) (h : a < -(s.length : Int) ∨ (s.length : Int) ≤ a) :
    repeatScalar s r (some a) = none ∧ vRepeat s r (some a) = none := by
  simp [repeatScalar, vRepeat, normAxis_refuses s.length a h]

/-- `repeat` with one count per element: an axis out of range, or a number of counts different from the extent of the
    axis, is refused -/
theorem repeatList_refuses (s r : List Nat) (a : Int) :
    ((a < -(s.length : Int) ∨ (s.length : Int) ≤ a) → repeatList s r (some a) = none) ∧
    (∀ k e, normAxis s.length a = some k → s[k]? = some e → r.length ≠ e → repeatList s r (some a) = none) := by
  constructor
  · intro h; simp [repeatList, normAxis_refuses s.length a h]
  · intro k e hk he hne
    simp [repeatList, hk, he, hne]

example : repeatList [2, 3] [1, 2] (some 1) = none ∧ repeatList [2, 3] [1, 2, 3] (some 2) = none ∧
    repeatList [2, 3] [1, 2, 3] (some 1) = some [2, 6] := by decide

/-- `expand_dims` with an axis outside the result rank is refused -/
theorem expandDims_refuses_axis (s : List Nat) (axes : List Int) (a : Int) (ha : a ∈ axes)
    (h : a < -((s.length + axes.length : Nat) : Int) ∨ ((s.length + axes.length : Nat) : Int) ≤ a) :
    vExpandDims s axes = none := by
  unfold vExpandDims
  have : normAxes (s.length + axes.length) axes = none :=
    mapM_none_of_mem _ _ a ha (normAxis_refuses _ a h)
  simp [this]

example : vExpandDims [2, 3] [3] = none ∧ vExpandDims [2, 3] [0, 0] = none := by decide

end NmVerif.Props.C09
