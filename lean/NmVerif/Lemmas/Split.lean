import NmVerif.Index.Split
import NmVerif.Lemmas.SelCommon
import NmVerif.Lemmas.SelUtil
/-
  NmVerif.Lemmas.Split — helper lemmas for `view::split` with a list of cut points (`np.split(a, [i1, i2, …], axis)`).

    `axisReads v k d`        SPEC-side observation: the positions along source axis `k` that part `v` reads while its own
                             index runs along axis `k` (all other coordinates as in `d`), in order; `none` = a failed read
    `splitAxis_of_normalizeAxis1`   the local `axis >= 0 ? axis : dim + axis` of split_args agrees with normalize_axis
    `splitViews_indices_eq`  the parts as an explicit `map` over NumPy's `(lo, hi)` pairs clamped to the extent
    `flatMap_zip_ranges`     consecutive half-open ranges between sorted cut points tile `[a, n)`
-/
namespace NmVerif.Index

/-- positions along source axis `k` read by the view `v` while its index runs along axis `k`, in order -/
def axisReads (v : IxView) (k : Nat) (d : Idx) : List (Option Nat) :=
  match v.dst[k]? with
  | some e => (List.range e).map (fun x => (v.map (d.set k x)).bind (·[k]?))
  | none => []

theorem splitAxis_of_normalizeAxis1 (axis : Int) (n k : Nat) (h : normalizeAxis1 axis n = some k) :
    (if axis ≥ 0 then axis.toNat else ((n : Int) + axis).toNat) = k := by
  unfold normalizeAxis1 at h
  split at h
  · simp at h
  · split at h
    · rename_i hneg
      have : ¬ (axis ≥ 0) := by omega
      simp only [Option.some.injEq] at h
      simp only [this, if_false, h]
    · rename_i hneg
      have : axis ≥ 0 := by omega
      simp only [Option.some.injEq] at h
      simp only [this, if_true, h]

/-- one part of a split: source `s`, extent `sp' - st` on axis `k`, coordinate `k` shifted by `st` -/
def splitPart (s : Shape) (k n : Nat) (p : Nat × Nat) : IxView :=
  ⟨s, s.set k (min p.2 n - p.1), fun d => match d[k]? with
    | some x => some (d.set k (x + p.1))
    | none => some d⟩

theorem splitViews_indices_eq (s : Shape) (cuts : List Int) (axis : Int) (k n : Nat)
    (hk : normalizeAxis1 axis s.length = some k) (hn : s[k]? = some n) :
    splitViews s none cuts axis = some ((splitBoundsIndices n cuts).map (splitPart s k n)) := by
  simp only [splitViews, splitAxis_of_normalizeAxis1 axis _ k hk, hn]
  rfl

/-- non-negative cut points: the clamped cut list is NumPy's cut list clamped to the extent -/
theorem splitCuts_nonneg (n : Nat) (cuts : List Int) (hnn : ∀ c ∈ cuts, 0 ≤ c) :
    cuts.map (fun v => min (i2u v) n) = (cuts.map Int.toNat).map (fun c => min c n) := by
  rw [List.map_map]
  apply List.map_congr_left
  intro c hc
  simp [i2u_of_nonneg c (hnn c hc)]

theorem splitBoundsIndices_length (n : Nat) (cuts : List Int) : (splitBoundsIndices n cuts).length = cuts.length + 1 := by
  simp [splitBoundsIndices]

/-- the `i`-th `(start, stop)` pair: NumPy's `lo = ([0] + cuts)[i]`, `hi = (cuts + [n])[i]`, both clamped to `n` -/
theorem splitBoundsIndices_getElem? (n : Nat) (cuts : List Int) (hnn : ∀ c ∈ cuts, 0 ≤ c) (i lo hi : Nat)
    (hlo : (0 :: cuts.map Int.toNat)[i]? = some lo) (hhi : (cuts.map Int.toNat ++ [n])[i]? = some hi) :
    (splitBoundsIndices n cuts)[i]? = some (min lo n, min hi n) := by
  simp only [splitBoundsIndices, splitCuts_nonneg n cuts hnn]
  rw [List.getElem?_zip_eq_some]
  constructor
  · have : (0 :: (cuts.map Int.toNat).map (fun c => min c n)) = (0 :: cuts.map Int.toNat).map (fun c => min c n) := by simp
    rw [this, List.getElem?_map, hlo]; rfl
  · have : ((cuts.map Int.toNat).map (fun c => min c n) ++ [n]) = (cuts.map Int.toNat ++ [n]).map (fun c => min c n) := by simp
    rw [this, List.getElem?_map, hhi]; rfl

/-- what a part reads along the axis: `st, st+1, …, sp'-1` -/
theorem axisReads_splitPart (s : Shape) (k n : Nat) (p : Nat × Nat) (d : Idx) (hk : k < s.length) (hd : d.length = s.length) :
    axisReads (splitPart s k n p) k d = (List.range (min p.2 n - p.1)).map (fun x => some (x + p.1)) := by
  simp only [axisReads, splitPart, List.getElem?_set, hk, if_true]
  apply List.map_congr_left
  intro x _
  have hkd : k < d.length := by omega
  simp [hkd]

/-- consecutive half-open ranges between sorted cut points `a ≤ c1 ≤ c2 ≤ … ≤ n` tile `[a, n)`, in order -/
theorem flatMap_zip_ranges (n : Nat) (cs : List Nat) (a : Nat) (han : a ≤ n) (hs : cs.Pairwise (· ≤ ·))
    (hb : ∀ c ∈ cs, a ≤ c ∧ c ≤ n) :
    (List.zip (a :: cs) (cs ++ [n])).flatMap (fun p => (List.range (min p.2 n - p.1)).map (fun x => some (x + p.1))) =
      (List.range' a (n - a)).map some := by
  induction cs generalizing a with
  | nil =>
    simp only [List.nil_append, List.zip_cons_cons, List.zip_nil_right, List.flatMap_cons, List.flatMap_nil,
      List.append_nil, Nat.min_self]
    rw [List.range'_eq_map_range, List.map_map]
    apply List.map_congr_left
    intro x _
    simp [Nat.add_comm]
  | cons c cs ih =>
    have hc := hb c (by simp)
    rw [List.pairwise_cons] at hs
    simp only [List.cons_append, List.zip_cons_cons, List.flatMap_cons]
    rw [ih c hc.2 hs.2 (fun c' hc' => ⟨hs.1 c' hc', (hb c' (by simp [hc'])).2⟩)]
    have e : n - a = (c - a) + (n - c) := by omega
    have e2 : min c n = c := by omega
    rw [e, ← List.range'_append_1, List.map_append, e2]
    have e3 : a + (c - a) = c := by omega
    rw [e3]
    congr 1
    rw [List.range'_eq_map_range, List.map_map]
    apply List.map_congr_left
    intro x _
    simp [Nat.add_comm]

end NmVerif.Index
