"""prints the per-property status table of DESIGN.md §6a from MANIFEST.json, evidence/*.json, known_findings.json, seeded/"""
import json, os, glob
ROOT = os.path.dirname(os.path.dirname(os.path.abspath(__file__)))
man = json.load(open(os.path.join(ROOT, 'MANIFEST.json')))
kf = json.load(open(os.path.join(ROOT, 'known_findings.json')))
props = {json.loads(l)['id']: json.loads(l)['title'] for l in open(os.path.join(ROOT, 'properties.jsonl'))}
seeded = {}
for d in sorted(glob.glob(os.path.join(ROOT, 'seeded', '*'))):
    try:
        m = json.load(open(os.path.join(d, 'meta.json')))
    except Exception:
        continue
    seeded.setdefault(m.get('property_id', os.path.basename(d)[:3]), []).append(os.path.basename(d))
import sys, re, io
_out = io.StringIO()
_print = print
def print(*a):
    _print(*a, file=_out)
print('| id | level | theorems (discharged/listed) | quick cases (IMPL~MODEL / IMPL~ORACLE) | open known findings | repaired by fix: commits | seeded changes |')
print('|---|---|---|---|---|---|---|')
for c in man['checks']:
    pid = c['property_id']
    try:
        ev = json.load(open(os.path.join(ROOT, 'evidence', pid + '.json')))
        cov = ev['coverage']
        th = '%s/%s' % (cov.get('discharged', '?'), cov.get('obligations', '?'))
        cs = '%s (%s / %s)' % (cov.get('evaluations', '?'), cov.get('compared_impl_vs_model', '?'), cov.get('compared_impl_vs_oracle', '?'))
    except Exception:
        th = cs = '?'
    openk = [e['id'] for e in kf if e.get('property') == pid and 'fixed' not in e]
    fixed = [e for e in kf if e.get('property') == pid and 'fixed' in e]
    print('| %s | %s | %s | %s | %s | %d | %s |' % (pid, c['level_claimed']['category'], th, cs, ', '.join(openk) or '–', len(fixed), ', '.join(seeded.get(pid, [])) or '–'))

status = _out.getvalue()
_out = io.StringIO()
print('Repaired in /repo (%d `fix:` commits):' % len([e for e in kf if 'fixed' in e]))
print()
print('| property | commit | subject | what failed |')
print('|---|---|---|---|')
for e in kf:
    if 'fixed' in e:
        what = re.sub(r'^property=\S+ \S+ ', '', e['fixed']).replace('|', '/')
        print('| %s | %s | %s | %s |' % (e.get('property', '?'), e.get('commit', '?'), e.get('subject', '').replace('|', '/'), what[:400]))
print()
print('Open known findings (%d):' % len([e for e in kf if 'fixed' not in e]))
print()
print('| property | id | call site | input class | witness |')
print('|---|---|---|---|---|')
for e in kf:
    if 'fixed' not in e:
        print('| %s | %s | %s | %s | `%s` |' % (e.get('property'), e.get('id'), str(e.get('call_site', '')).replace('|', '/')[:160], str(e.get('class', '')).replace('|', '/')[:420], str(e.get('witness', '')).replace('|', '/')[:160]))
findings = _out.getvalue()
if '--write' in sys.argv:
    p = os.path.join(ROOT, 'DESIGN.md'); d = open(p).read()
    d = re.sub(r'(<!-- STATUS-BEGIN -->\n).*?(<!-- STATUS-END -->)', lambda m: m.group(1) + status + m.group(2), d, flags=re.S)
    d = re.sub(r'(<!-- FINDINGS-BEGIN -->\n).*?(<!-- FINDINGS-END -->)', lambda m: m.group(1) + findings + m.group(2), d, flags=re.S)
    open(p, 'w').write(d)
else:
    _print(status); _print(findings)
