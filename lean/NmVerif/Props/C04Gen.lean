import NmVerif.Index.Where
import NmVerif.Index.Generators
import NmVerif.Props.C06
import Mathlib.Tactic.Ring
/-
  C04, second file — `where` and the generators (arange, linspace, full / zeros / ones(_like)).
  Same namespace as Props/C04.lean (imported there, so the audit sees these theorems).
  Models: Index/Where.lean (on top of C06's broadcast model), Index/Generators.lean.
-/
namespace NmVerif.Props.C04
open NmVerif NmVerif.Index

/-! ### where(cond, x, y) — NumPy: the three operands are broadcast against each other;
    `out[d] = x'[d] if cond'[d] ≠ 0 else y'[d]` (primes: broadcast operands, i.e. the element at `specBroadcastIdx`) -/

private theorem whereView_some (c x y : Shape) (w : WhereView) (h : whereView c x y = some w) :
    broadcastArraysViews [c, x, y] = some [w.c, w.x, w.y] := by
  unfold whereView at h
  split at h
  · rename_i vc vx vy heq
    simp only [Option.some.injEq] at h
    subst h
    exact heq
  · simp at h

private theorem whereView_isSome (c x y : Shape) :
    (whereView c x y).isSome = (broadcastArraysViews [c, x, y]).isSome := by
  cases hb : broadcastArraysViews [c, x, y] with
  | none => simp [whereView, hb]
  | some vs =>
    obtain ⟨r, _, hl, _⟩ := C06.broadcastArrays_elem [c, x, y] vs hb
    match vs, hl with
    | [vc, vx, vy], _ => simp [whereView, hb]

private theorem mapM_zip' {α β} (f : α → Option β) (l : List α) (vs : List β) (h : l.mapM f = some vs) :
    ∀ p ∈ l.zip vs, f p.1 = some p.2 := by
  induction l generalizing vs with
  | nil => simp at h; subst h; simp
  | cons a t ih =>
    simp only [List.mapM_cons, Option.bind_eq_bind, Option.bind_eq_some_iff, Option.pure_def, Option.some.injEq] at h
    obtain ⟨y, hy, ys, hys, rfl⟩ := h
    intro p hp
    simp only [List.zip_cons_cons, List.mem_cons] at hp
    rcases hp with rfl | hp
    · exact hy
    · exact ih ys hys p hp

private theorem allPos3 {c x y : Shape} (hc : Pos c) (hx : Pos x) (hy : Pos y) : C06.AllPos [c, x, y] := by
  intro s hs
  simp only [List.mem_cons, List.not_mem_nil, or_false] at hs
  rcases hs with rfl | rfl | rfl <;> assumption

/-- `where` answers Nothing exactly when the three shapes are not broadcast-compatible (NumPy's rule) -/
theorem where_isSome_iff (c x y : Shape) (hc : Pos c) (hx : Pos x) (hy : Pos y) :
    (whereView c x y).isSome ↔ Compatible [c, x, y] := by
  rw [whereView_isSome]
  exact C06.broadcastArrays_isSome_iff [c, x, y] (by simp) (allPos3 hc hx hy)

theorem where_nothing (c x y : Shape) (hc : Pos c) (hx : Pos x) (hy : Pos y) (h : ¬ Compatible [c, x, y]) :
    whereView c x y = none := by
  cases hw : whereView c x y with
  | none => rfl
  | some w => exact absurd ((where_isSome_iff c x y hc hx hy).1 (by simp [hw])) h

/-- the result shape is the broadcast of the three shapes: the per-axis maximum (rank = largest rank), and each broadcast
    operand views its own source -/
theorem where_shape (c x y : Shape) (hc : Pos c) (hx : Pos x) (hy : Pos y) (w : WhereView)
    (h : whereView c x y = some w) :
    broadcastShape [c, x, y] = some w.dst ∧ IsAxisMax w.dst [c, x, y] ∧
      w.c.src = c ∧ w.x.src = x ∧ w.y.src = y ∧ w.x.dst = w.dst ∧ w.y.dst = w.dst := by
  have hb := whereView_some c x y w h
  obtain ⟨r, hr, _, hz⟩ := C06.broadcastArrays_elem [c, x, y] _ hb
  have h0 := hz (c, w.c) (by simp)
  have h1 := hz (x, w.x) (by simp)
  have h2 := hz (y, w.y) (by simp)
  have hdst : w.dst = r := h0.2.1
  rw [hdst]
  exact ⟨hr, C06.broadcast_eq_max [c, x, y] (by simp) (allPos3 hc hx hy) r hr, h0.1, h1.1, h2.1, h1.2.1, h2.2.1⟩

/-- `out[d]` is `x` at the broadcast index of `d` where the condition (at ITS broadcast index) is non-zero, else `y` at its
    broadcast index: NumPy's `where` -/
theorem where_elem (c x y : Shape) (w : WhereView) (h : whereView c x y = some w) (cond : Idx → Int) (d : Idx)
    (hd : InShape d w.dst) :
    w.select cond d = some (if cond (specBroadcastIdx c d) ≠ 0 then (false, specBroadcastIdx x d)
                            else (true, specBroadcastIdx y d)) := by
  have hb := whereView_some c x y w h
  obtain ⟨r, hr, _, hz⟩ := C06.broadcastArrays_elem [c, x, y] _ hb
  have h0 := hz (c, w.c) (by simp)
  have h1 := hz (x, w.x) (by simp)
  have h2 := hz (y, w.y) (by simp)
  have hdst : w.dst = r := h0.2.1
  rw [hdst] at hd
  have e0 : w.c.map d = some (specBroadcastIdx c d) := h0.2.2 d hd
  have e1 : w.x.map d = some (specBroadcastIdx x d) := h1.2.2 d hd
  have e2 : w.y.map d = some (specBroadcastIdx y d) := h2.2.2 d hd
  simp only [WhereView.select, e0, e1, e2, Option.bind_some, Option.map_some]
  split <;> rfl

/-- no read of `where` leaves its operand: the condition, and whichever of `x` / `y` is selected -/
theorem where_inBounds (c x y : Shape) (w : WhereView) (h : whereView c x y = some w) (cond : Idx → Int) (d : Idx)
    (hd : InShape d w.dst) :
    InShape (specBroadcastIdx c d) c ∧
      ∀ fl i, w.select cond d = some (fl, i) → InShape i (if fl then y else x) := by
  have hb := whereView_some c x y w h
  obtain ⟨r, hr, _, hz⟩ := C06.broadcastArrays_elem [c, x, y] _ hb
  have hdst : w.dst = r := (hz (c, w.c) (by simp)).2.1
  have hbv : ∀ s v, (s, v) ∈ [c, x, y].zip [w.c, w.x, w.y] → broadcastToView s r = some v := by
    intro s v hm
    unfold broadcastArraysViews at hb
    rw [hr] at hb
    exact mapM_zip' _ _ _ hb (s, v) hm
  rw [hdst] at hd
  have inb : ∀ s v, (s, v) ∈ [c, x, y].zip [w.c, w.x, w.y] → InShape (specBroadcastIdx s d) s := by
    intro s v hm
    have hv := hbv s v hm
    have hin := C06.broadcastTo_inBounds s r v hv
    obtain ⟨hs1, hs2⟩ := C06.broadcastTo_shape s r v hv
    have := hin d (by rw [hs2]; exact hd) _ (C06.broadcastTo_index_eq_spec s r v hv d hd)
    rwa [hs1] at this
  refine ⟨inb c w.c (by simp), ?_⟩
  intro fl i hsel
  rw [where_elem c x y w h cond d (by rw [hdst]; exact hd)] at hsel
  split at hsel
  · simp only [Option.some.injEq, Prod.mk.injEq] at hsel
    obtain ⟨rfl, rfl⟩ := hsel
    simpa using inb x w.x (by simp)
  · simp only [Option.some.injEq, Prod.mk.injEq] at hsel
    obtain ⟨rfl, rfl⟩ := hsel
    simpa using inb y w.y (by simp)

example : Pos [2, 1] ∧ Pos [3] ∧ Pos [1] ∧ (whereView [2, 1] [3] [1]).map (·.dst) = some [2, 3] := by decide
example : whereView [2, 3] [2] [1] = none ∧ ¬ Compatible [[2, 3], [2], [1]] :=
  ⟨by decide, fun h => absurd ((where_isSome_iff _ _ _ (by decide) (by decide) (by decide)).2 h) (by decide)⟩
example : (whereView [2, 1] [3] [1]).map (fun w =>
    (w.select (fun i => if i = [1, 0] then 1 else 0) [1, 2], w.select (fun i => if i = [1, 0] then 1 else 0) [0, 2])) =
    some (some (false, [2]), some (true, [0])) := by decide

/-! ### full / zeros / ones and the `_like` forms: the requested shape (the shape of the array), the constant everywhere -/

theorem full_shape_elem (s : Shape) (v : Int) : (fullGen s v).dst = s ∧ ∀ d, (fullGen s v).elem d = v := ⟨rfl, fun _ => rfl⟩
theorem zeros_shape_elem (s : Shape) : (zerosGen s).dst = s ∧ ∀ d, (zerosGen s).elem d = 0 := ⟨rfl, fun _ => rfl⟩
theorem ones_shape_elem (s : Shape) : (onesGen s).dst = s ∧ ∀ d, (onesGen s).elem d = 1 := ⟨rfl, fun _ => rfl⟩
theorem fullLike_shape_elem (src : Shape) (v : Int) :
    (fullLikeGen src v).dst = src ∧ (zerosLikeGen src).dst = src ∧ (onesLikeGen src).dst = src ∧
    ∀ d, (fullLikeGen src v).elem d = v ∧ (zerosLikeGen src).elem d = 0 ∧ (onesLikeGen src).elem d = 1 :=
  ⟨rfl, rfl, rfl, fun _ => ⟨rfl, rfl, rfl⟩⟩

example : (fullGen [2, 3] 7).dst = [2, 3] ∧ (fullGen [2, 3] 7).elem [1, 2] = 7 ∧ (onesLikeGen [4]).elem [3] = 1 := by decide

/-! ### arange(start, stop, step), integer start / stop, step `sn / sd` (integer grid: `sd = 1`; quarter grid: `sd = 4`).
    NumPy: the values `start + k·step`, `k = 0, 1, …`, that lie strictly before `stop` in the direction of the step,
    i.e. `max(0, ⌈(stop - start) / step⌉)` of them. -/

/-- `max(0, ⌈(stop - start)·sd / sn⌉)` -/
def arangeLenSpec (start stop sn : Int) (sd : Nat) : Nat :=
  let a := (stop - start) * sd
  if 0 < sn then (if 0 < a then (a.toNat + sn.toNat - 1) / sn.toNat else 0)
  else (if a < 0 then ((-a).toNat + (-sn).toNat - 1) / (-sn).toNat else 0)

private theorem lt_ceilDiv (k A S : Nat) (hS : 0 < S) : k < (A + S - 1) / S ↔ k * S < A := by
  rw [show k < (A + S - 1) / S ↔ k + 1 ≤ (A + S - 1) / S from Iff.rfl, Nat.le_div_iff_mul_le hS, Nat.add_mul, Nat.one_mul]
  omega

/-- the spec counts exactly the grid points before `stop`: for either sign of the step, `k < len` iff `start + k·step`
    has not reached `stop` (multiplied through by `sd > 0`) -/
theorem arange_len_char (start stop sn : Int) (sd : Nat) (hsn : sn ≠ 0) (k : Nat) :
    k < arangeLenSpec start stop sn sd ↔
      (0 < sn ∧ start * sd + k * sn < stop * sd) ∨ (sn < 0 ∧ stop * sd < start * sd + k * sn) := by
  unfold arangeLenSpec
  have hmul : (stop - start) * (sd : Int) = stop * sd - start * sd := Int.sub_mul ..
  simp only [hmul]
  by_cases hpos : 0 < sn
  · simp only [hpos, if_true, true_and, show ¬ sn < 0 by omega, false_and, or_false]
    obtain ⟨S, rfl⟩ : ∃ S : Nat, sn = S := ⟨sn.toNat, by omega⟩
    have hS : 0 < S := by omega
    by_cases ha : 0 < stop * (sd : Int) - start * sd
    · obtain ⟨A, hA⟩ : ∃ A : Nat, (stop * (sd : Int) - start * sd).toNat = A := ⟨_, rfl⟩
      simp only [ha, if_true, hA, Int.toNat_natCast]
      rw [lt_ceilDiv k A S hS]
      have : ((k * S : Nat) : Int) = (k : Int) * (S : Int) := by push_cast; rfl
      omega
    · simp only [ha, if_false, Nat.not_lt_zero, false_iff]
      have : (0 : Int) ≤ (k : Int) * (S : Int) := Int.mul_nonneg (by omega) (by omega)
      omega
  · have hneg : sn < 0 := by omega
    simp only [hpos, if_false, false_and, false_or, hneg, true_and]
    obtain ⟨S, hSe⟩ : ∃ S : Nat, -sn = S := ⟨(-sn).toNat, by omega⟩
    have hS : 0 < S := by omega
    have h2 : (k : Int) * sn = -((k : Int) * (S : Int)) := by rw [← hSe]; simp [Int.mul_neg]
    by_cases ha : stop * (sd : Int) - start * sd < 0
    · obtain ⟨A, hA⟩ : ∃ A : Nat, (-(stop * (sd : Int) - start * sd)).toNat = A := ⟨_, rfl⟩
      have hS' : (-sn).toNat = S := by omega
      simp only [ha, if_true, hA, hS']
      rw [lt_ceilDiv k A S hS]
      have h1 : ((k * S : Nat) : Int) = (k : Int) * (S : Int) := by push_cast; rfl
      omega
    · simp only [ha, if_false, Nat.not_lt_zero, false_iff]
      have : (0 : Int) ≤ (k : Int) * (S : Int) := Int.mul_nonneg (by omega) (by omega)
      omega

/-- the exact-quotient count (what the code computes inside the float-exact range, and what an integer ceiling division
    computes everywhere) is NumPy's count, for either sign of the step — no range restriction -/
theorem arangeLenExact_eq_spec (start stop sn : Int) (sd : Nat) (hsn : sn ≠ 0) :
    arangeLenExact (stop - start) sn sd = arangeLenSpec start stop sn sd := by
  unfold arangeLenExact arangeLenSpec Q.div ceilPos
  simp only [Int.mul_one, Nat.one_mul, Int.natCast_one]
  by_cases hpos : 0 < sn
  · have h1 : ¬ sn < 0 := by omega
    have h2 : sn.natAbs = sn.toNat := by omega
    simp only [hpos, h1, if_true, if_false, Int.one_mul, h2, gt_iff_lt]
  · have hneg : sn < 0 := by omega
    have h2 : sn.natAbs = (-sn).toNat := by omega
    have h3 : ∀ a : Int, (0 < -1 * a ↔ a < 0) := by intro a; omega
    have h4 : ∀ a : Int, (-1 * a).toNat = (-a).toNat := by intro a; congr 1; omega
    simp only [hpos, hneg, if_true, if_false, h2, gt_iff_lt, h3, h4]

/-- integer step: the length is NumPy's for EVERY start / stop / step (exact integer ceiling division; the binary32
    count of the original code was repaired in /repo, "arange.float32-length") -/
theorem arange_len_int (start stop sn : Int) (hsn : sn ≠ 0) :
    arangeLen start stop sn 1 = some (arangeLenSpec start stop sn 1) := by
  simp only [arangeLen, if_true, hsn, if_false, Option.some.injEq]
  exact arangeLenExact_eq_spec start stop sn 1 hsn

/-- real step on the quarter grid: inside the float-exact range the length is NumPy's, for either sign of the step -/
theorem arange_len (start stop sn : Int) (sd : Nat) (hsn : sn ≠ 0) (hsd : 0 < sd)
    (hA : (stop - start).natAbs * sd < 2 ^ 24 ∧ sn.natAbs < 2 ^ 24) :
    arangeLen start stop sn sd = some (arangeLenSpec start stop sn sd) := by
  by_cases h1 : sd = 1
  · subst h1; exact arange_len_int start stop sn hsn
  · have hsd' : ¬ sd = 0 := by omega
    simp only [arangeLen, h1, hsn, hsd', or_self, if_false, hA, and_self, if_true, Option.some.injEq]
    exact arangeLenExact_eq_spec start stop sn sd hsn

/-- an integer step 0 gives an empty range; a real step 0 divides by zero and converts the result to `size_t` (UB) — no
    answer in the model -/
theorem arange_step_zero (start stop : Int) (sd : Nat) :
    arangeLen start stop 0 1 = some 0 ∧ (sd ≠ 1 → arangeLen start stop 0 sd = none) := by
  refine ⟨by simp [arangeLen], fun h => by simp [arangeLen, h]⟩

/-- shape `[len]`, element `k` is `start + k·step` (as the fraction `(start·sd + k·sn) / sd`) -/
theorem arange_shape_elem (start stop sn : Int) (sd : Nat) (hsn : sn ≠ 0) (hsd : 0 < sd)
    (hA : (stop - start).natAbs * sd < 2 ^ 24 ∧ sn.natAbs < 2 ^ 24) :
    ∃ g, arangeGen start stop sn sd = some g ∧ g.dst = [arangeLenSpec start stop sn sd] ∧
      ∀ k : Nat, g.elem [k] = ⟨start * sd + k * sn, sd⟩ := by
  simp only [arangeGen, arange_len start stop sn sd hsn hsd hA, Option.map_some]
  exact ⟨_, rfl, rfl, fun _ => rfl⟩

/-- regression guard for the repaired binary32 count -/
example : arangeLen 0 16777217 1 1 = some 16777217 ∧ arangeLen 0 33554433 16777216 1 = some 3 := by decide

example : arangeLenSpec 3 10 3 1 = 3 ∧ arangeLenSpec 10 3 (-3) 1 = 3 ∧ arangeLenSpec 3 10 (-3) 1 = 0 ∧
    arangeLenSpec 0 5 3 4 = 7 := by decide
example : (7 - 3 : Int).natAbs * 4 < 2 ^ 24 ∧ (-3 : Int).natAbs < 2 ^ 24 := by decide
example : (arangeGen 10 3 (-3) 1).map (fun g => (g.dst, g.elem [2])) = some ([3], ⟨4, 1⟩) := by decide
example : (arangeGen 0 5 3 4).map (fun g => (g.dst, g.elem [6])) = some ([7], ⟨18, 4⟩) := by decide
/-- the literal binary32 path agrees with the exact count on a small grid (sanity check of the ASSUMPTION "arange quotient") -/
example : ((List.range 25).all fun n => (List.range 7).all fun s =>
    arangeLenF32 (n : Int) ((s : Int) + 1) == arangeLenExact n ((s : Int) + 1) 1 &&
    arangeLenF32 (-(n : Int)) (-((s : Int) + 1)) == arangeLenExact (-(n : Int)) (-((s : Int) + 1)) 1) = true := by decide

/-! ### linspace(start, stop, num, endpoint), start / stop on the quarter grid (`startq / 4`, `stopq / 4`).
    NumPy: `num` samples `start + k·(stop - start)/div`, `div = num - 1` with the endpoint, `num` without; a single sample
    with the endpoint is `start`.  The statement fixes WHICH rational each element is; its floating value is the harness's. -/

theorem linspace_shape (startq stopq : Int) (num : Nat) (endpoint : Bool) :
    (linspaceGen startq stopq num endpoint).dst = [num] := rfl

/-- element `k` is the fraction `(startq·div + k·(stopq - startq)) / (4·div)`, `div = num - 1` (endpoint) or `num` -/
theorem linspace_elem (startq stopq : Int) (num : Nat) (endpoint : Bool) (k : Nat) (dv : Nat)
    (hdv : dv = if endpoint then num - 1 else num) (hpos : 0 < dv) :
    (linspaceGen startq stopq num endpoint).elem [k] = ⟨startq * dv + k * (stopq - startq), 4 * dv⟩ := by
  have hd : linspaceDiv num endpoint = dv := by
    unfold linspaceDiv
    cases endpoint with
    | true =>
      simp only [if_true] at hdv ⊢
      have : ¬ num = 0 := by omega
      simp [this, hdv]
    | false => simp [hdv]
  show linspaceElem startq stopq num endpoint k = _
  unfold linspaceElem
  simp only [hd, hpos, gt_iff_lt, if_true]

/-- one sample with the endpoint: `start` itself -/
theorem linspace_single (startq stopq : Int) : (linspaceGen startq stopq 1 true).elem [0] = ⟨startq, 4⟩ := rfl

/-- the first sample is `start`; with the endpoint (and at least two samples) the last one is `stop`
    (equalities of fractions, cross-multiplied) -/
theorem linspace_endpoints (startq stopq : Int) (num : Nat) (endpoint : Bool) (dv : Nat)
    (hdv : dv = if endpoint then num - 1 else num) (hpos : 0 < dv) :
    (let e := (linspaceGen startq stopq num endpoint).elem [0]; e.num * 4 = startq * e.den) ∧
    (endpoint = true → let e := (linspaceGen startq stopq num endpoint).elem [num - 1]; e.num * 4 = stopq * e.den) := by
  refine ⟨?_, ?_⟩
  · rw [linspace_elem startq stopq num endpoint 0 dv hdv hpos]
    simp only
    push_cast
    ring
  · intro he
    subst he
    simp only [if_true] at hdv
    rw [linspace_elem startq stopq num true (num - 1) dv (by simp [hdv]) hpos, ← hdv]
    simp only
    push_cast
    ring

example : (linspaceGen 0 16 5 true).elem [3] = ⟨48, 16⟩ ∧ (linspaceGen 0 16 5 false).elem [3] = ⟨48, 20⟩ := by decide
example : (4 : Nat) = (if true then 5 - 1 else 5) ∧ 0 < 4 := by decide

end NmVerif.Props.C04
