/-
  NmVerif.Simd.IntLanes — integer element types of the SIMD evaluators.

  The evaluators of include/nmtools/array/eval/simd/evaluator/ufunc.hpp are generic in the element type of the
  OUTPUT (`element_type = meta::get_element_type_t<output_t>`); for the integer types int8_t … uint64_t the wrappers
  `simd_op_t<tag,T>::add / sub / mul` pick an instruction by `n_bit = 8*sizeof(T)` ONLY (never by signedness):

      x86_sse.hpp   add : _mm_add_epi8/16/32/64        sub : _mm_sub_epi8/16/32/64      mul : _mm_mullo_epi16/32
      x86_avx.hpp   add : _mm256_add_epi8/16/32/64     sub : _mm256_sub_epi8/16/32/64   mul : _mm256_mullo_epi16/32
      simde_avx512  add : simde_mm512_add_epi8/…/64    sub : simde_mm512_sub_epi8/…/64  mul : simde_mm512_mullo_epi16/32/64
      vector_extension.hpp (vector_128/256/512)   x + y,  x - y,  x * y   on  T __attribute__((vector_size))

  MODEL.  A lane of a register is a bit pattern `BitVec w` (`w = n_bit`); the packed instruction is the modular
  operation on every lane (`IOp.lane`, `packInt`) — this is the documented meaning of padd* / psub* / pmullo* and it
  is the ASSUMPTION about the intrinsics the correspondence run measures on boundary values.  Signedness only enters
  where a bit pattern is read as a number (`IntTy.decode`) and where a number is stored (`IntTy.encode`).
  The scalar functor `view::add_t<T,T,T>::operator()` etc. is `static_cast<T>(t + u)`: usual arithmetic conversions
  (types narrower than int are promoted to `int`), exact result, signed overflow of the promoted type is undefined
  behaviour (`scalarOp … = none`), conversion to `T` keeps the low `w` bits.

  Core Lean only: linked into the driver.
-/
namespace NmVerif.Simd

/-- integer element type: width in bits and signedness (`int8_t` = ⟨8,true⟩ … `uint64_t` = ⟨64,false⟩) -/
structure IntTy where
  bits : Nat
  signed : Bool
deriving DecidableEq, Repr

namespace IntTy

/-- the number a lane's bit pattern stands for when read as `T` -/
def decode (t : IntTy) (b : BitVec t.bits) : Int := if t.signed then b.toInt else (b.toNat : Int)

/-- `static_cast<T>(x)` / the bit pattern stored for `x`: the low `bits` bits of the two's complement representation -/
def encode (t : IntTy) (x : Int) : BitVec t.bits := BitVec.ofInt t.bits x

/-- the numbers representable in `T` -/
def InRange (t : IntTy) (x : Int) : Prop :=
  if t.signed then -(2 ^ (t.bits - 1) : Int) ≤ x ∧ x < 2 ^ (t.bits - 1) else 0 ≤ x ∧ x < 2 ^ t.bits

instance (t : IntTy) (x : Int) : Decidable (t.InRange x) := by unfold InRange; exact inferInstance

/-- SPEC (NumPy arithmetic in dtype `T`): the exact result reduced modulo `2^bits` into the range of `T` -/
def wrap (t : IntTy) (x : Int) : Int :=
  if t.signed then x.bmod (2 ^ t.bits) else x % ((2 ^ t.bits : Nat) : Int)

/-- type the operands of `t + u` have after the usual arithmetic conversions (`int` for everything narrower than `int`) -/
def promoted (t : IntTy) : IntTy := if t.bits < 32 then ⟨32, true⟩ else t

end IntTy

/-- the element-wise operations the SIMD layer provides for integer element types -/
inductive IOp | add | sub | mul
deriving DecidableEq, Repr

/-- exact (mathematical) result -/
def IOp.exact : IOp → Int → Int → Int
  | .add, x, y => x + y
  | .sub, x, y => x - y
  | .mul, x, y => x * y

/-- one lane of padd* / psub* / pmullo* (and of `x + y`, `x - y`, `x * y` on a vector type): modular, sign-agnostic -/
def IOp.lane {w : Nat} : IOp → BitVec w → BitVec w → BitVec w
  | .add, a, b => a + b
  | .sub, a, b => a - b
  | .mul, a, b => a * b

/-- `simd_op_t<tag,T>::add / sub / mul` on a register (ASSUMPTION about the intrinsic: every lane is `IOp.lane`) -/
def packInt {w : Nat} (o : IOp) : List (BitVec w) → List (BitVec w) → List (BitVec w) := List.zipWith o.lane

/-- the scalar functor `static_cast<T>(t op u)` of `view::add_t / subtract_t / multiply_t <T,T,T>` (tail loops, PAD
    steps and the default evaluator): `none` = signed overflow in the promoted type (undefined behaviour) -/
def scalarOp (t : IntTy) (o : IOp) (a b : BitVec t.bits) : Option (BitVec t.bits) :=
  let z := o.exact (t.decode a) (t.decode b)
  if t.promoted.signed && !decide (t.promoted.InRange z) then none else some (t.encode z)

/-- `view.op.identity()`: 0 for add, 1 for multiply, none for subtract (`meta::has_identity_v`) -/
def IOp.identity {w : Nat} : IOp → Option (BitVec w)
  | .add => some 0
  | .mul => some 1
  | .sub => none

/-! ### what a wrong intrinsic would compute (sensitivity counterexamples in Props/C12.lean) -/

/-- `_mm_subs_epi16` & co.: signed saturating subtraction on one lane -/
def satSubS {w : Nat} (a b : BitVec w) : BitVec w :=
  BitVec.ofInt w (max (-(2 ^ (w - 1) : Int)) (min (2 ^ (w - 1) - 1) (a.toInt - b.toInt)))

/-- `_mm256_adds_epu8` & co.: unsigned saturating addition on one lane -/
def satAddU {w : Nat} (a b : BitVec w) : BitVec w :=
  BitVec.ofNat w (min (2 ^ w - 1) (a.toNat + b.toNat))

/-! ### lanes of the vector-extension contexts (vector_extension.hpp:186-208: `x + y`, `x - y`, `x * y` on
    `T __attribute__((vector_size))`) -/

/-- one lane of `x op y` on a vector of `T`: the arithmetic is done IN `T` (no integral promotion on vector lanes), so for a
    signed `T` a result outside `T` is signed overflow = undefined behaviour (`none`; g++ emits wrapping code, UBSan aborts);
    unsigned lanes wrap -/
def vecExtLane (t : IntTy) (o : IOp) (a b : BitVec t.bits) : Option (BitVec t.bits) :=
  if t.signed && !decide (t.InRange (o.exact (t.decode a) (t.decode b))) then none else some (o.lane a b)

/-! ### the register type of the vector-extension contexts (vector_extension.hpp:19-20) -/

/-- lanes of `vector_type_t<bit_width,T>` = `T __attribute__((vector_size(bit_width / sizeof(T))))`: the attribute
    counts BYTES, so the type has `bit_width / sizeof(T)` bytes = `bit_width / sizeof(T) / sizeof(T)` lanes -/
def vecExtTypeLanes (bitWidth szBytes : Nat) : Nat := bitWidth / szBytes / szBytes

/-- lanes that `loadu` / `storeu` / `set1` fill: `n_elements = bit_width / (sizeof(T) * 8)`; the remaining lanes of the
    register variable stay uninitialised and take part in `x + y`, `x - y`, `x * y` -/
def vecExtUsedLanes (bitWidth szBytes : Nat) : Nat := bitWidth / (szBytes * 8)

end NmVerif.Simd
