// C13 harness core: the per-thread body of the device kernels, run on the host.
//
//   host side   (eval/cuda/evaluator.hpp:22-37, cuda/context.hpp:246-283, hip, sycl):
//       f = get_function_composition(view); operands = get_function_operands(view);
//       every array operand -> (data(), shape, dim) -> device_array        [mode=dev : CUDA / HIP / SYCL]
//   kernel body (eval/cuda/context.hpp:10-31, hip/context.hpp:15-33, sycl/context.hpp:498-517), once per thread:
//       output = create_mutable_array(out, out_shape_ptr, out_dim);
//       result = fn::apply(f, operands);
//       assign_result(output, result, thread_id, block_id, block_size);
//   OpenCL kernels (eval/opencl/kernels/*.hpp) [mode=ref], once per work item:
//       x_i = create_array(ptr_i, shape_ptr_i, dim_i);  output = create_mutable_array(out, out_shape_ptr, out_dim);
//       result = view::op(x_0, .., attributes);  assign_array(output, result)   (= assign_result with idx = get_global_id(0);
//       assign_array itself is only compiled under __OPENCL_VERSION__, assign_result is the same statement sequence)
//
// request:  kern prog=<name> shapes=<s0;s1;..> <attributes of prog> mode=dev|ref data=prov|small
//                bsz=<block size> sched=<tid,bid;tid,bid;...> init=<sentinel>
// answer :  ok shape=<out shape> out=<output buffer after the schedule> hosteq=<1 iff out == flattened na::eval(view)>
#pragma once
#include "nmtools/array/functional.hpp"
#include "nmtools/array/eval/kernel_helper.hpp"
#include "nmtools/array/eval.hpp"
#include "nmtools/array/index/ndindex.hpp"
#include "nmtools/array/ndarray.hpp"
#include "proto.hpp"
#include <vector>
#include <string>
#include <tuple>
#include <cstring>
#include <cstdint>

namespace nm = nmtools; namespace na = nmtools::array; namespace fn = nmtools::functional;
namespace view = nmtools::view; namespace meta = nmtools::meta; namespace ix = nmtools::index;
using namespace proto;

namespace c13 {

// element type of the leaves: int (provenance data) or, with -DC13_ELEM_FLOAT, float (parametrised activations).
// Elements are printed as integer CODES: the value itself for int, the binary32 bit pattern (as int32) for float.
#ifdef C13_ELEM_FLOAT
using elem_t = float;
inline long long to_code(float v) { int32_t b; static_assert(sizeof(b) == sizeof(v)); std::memcpy(&b, &v, sizeof(b)); return (long long)b; }
#else
using elem_t = int;
inline long long to_code(int v) { return (long long)v; }
#endif
using arr_t  = na::ndarray_t<std::vector<elem_t>, std::vector<size_t>>;
using carr_t = na::column_major_ndarray_t<std::vector<elem_t>, std::vector<size_t>>;
using ks_t   = na::kernel_size<size_t>;
using dshape_t = nmtools_static_vector<size_t,8>;     // what context_t::create_array uses for the device shape

// leaf data: logical element with row-major flat id k of operand j
inline elem_t leaf_value(const std::string& data, size_t j, size_t k) {
    if (data == "small") return (elem_t)(((k * 7 + 3 * j) % 5) + 1);
    if (data == "cond" && j == 0) return (elem_t)(k % 3 != 1);        // 0/1 valued condition operand
    if (data == "float") return (elem_t)(0.5 * (double)((k * 7 + 3 * j) % 13) - 3.0);   // multiples of 0.5 in [-3, 3]
    return (elem_t)(k + 1000 * j);
}

template <typename array_t>
inline array_t make_leaf(const uvec& shape, size_t j, const std::string& data) {
    array_t a; a.resize(shape);
    size_t n = 1; for (auto e : shape) n *= e;
    auto nd = ix::ndindex(shape);
    for (size_t k = 0; k < n; k++) nm::apply_at(a, nd[k]) = leaf_value(data, j, k);   // layout independent
    return a;
}

struct leaves_t {
    std::vector<arr_t> row; std::vector<carr_t> col;
    const arr_t& r(size_t i) const { if (i >= row.size()) throw bad_args("operand"); return row[i]; }
    const carr_t& c(size_t i) const { if (i >= col.size()) throw bad_args("operand"); return col[i]; }
};
inline leaves_t make_leaves(const Args& a, bool with_col = false) {
    leaves_t l; std::string data = has(a, "data") ? get(a, "data") : "prov";
    auto shapes = int_lists(a, "shapes");
    for (size_t j = 0; j < shapes.size(); j++) {
        uvec s; for (auto v : shapes[j]) s.push_back((size_t)v);
        l.row.push_back(make_leaf<arr_t>(s, j, data));
        if (with_col) l.col.push_back(make_leaf<carr_t>(s, j, data));
    }
    return l;
}

// shape + row-major element listing of any array / view
template <typename T> inline void dump(const T& x, uvec& shape, std::vector<long long>& data) {
    auto s = nm::shape(x);
    shape.clear(); for (size_t i = 0; i < (size_t)nm::len(s); i++) shape.push_back((size_t)nm::at(s, i));
    size_t n = 1; for (auto e : shape) n *= e;
    auto nd = ix::ndindex(shape);
    data.clear(); for (size_t k = 0; k < n; k++) data.push_back(to_code((elem_t)nm::apply_at(x, nd[k])));
}

// ---- operand rebuilding -------------------------------------------------------------------------------------------
template <typename T> auto rebuild_dev(const T& op) {
    if constexpr (meta::is_pointer_v<T>) return rebuild_dev(*op);
    else if constexpr (meta::is_num_v<T>) return op;
    else {
        // context_t::create_array (cuda/context.hpp:155-200): buffer verbatim, shape into static_vector<size_t,8>, dim
        const auto buffer = nm::data(op);
        const auto shape  = nm::shape(op);
        const auto dim    = nm::dim(op);
        using element_t = meta::get_element_type_t<T>;
        using dim_t     = meta::remove_cvref_t<decltype(dim)>;
        dshape_t dshape{}; dshape.resize(dim);
        for (size_t i = 0; i < (size_t)dim; i++) nm::at(dshape, i) = nm::at(shape, i);
        return na::device_array<element_t, dshape_t, dim_t>(const_cast<element_t*>(buffer), dshape, dim);
    }
}
template <typename tuple_t, size_t... Is> auto rebuild_all_dev(const tuple_t& t, std::index_sequence<Is...>) {
    return nmtools_tuple{rebuild_dev(nm::get<Is>(t))...};
}

struct launch_t { size_t bsz; std::vector<std::pair<size_t,size_t>> sched; long long init; };
inline launch_t parse_launch(const Args& a) {
    launch_t l; l.bsz = (size_t)integer(a, "bsz"); l.init = has(a, "init") ? integer(a, "init") : -7;
    for (auto& p : int_lists(a, "sched")) { if (p.size() != 2) throw bad_args("sched"); l.sched.push_back({(size_t)p[0], (size_t)p[1]}); }
    return l;
}

template <typename function_t, typename operands_t>
inline void run_threads(const function_t& f, const operands_t& operands, const launch_t& l,
                        std::vector<elem_t>& out, const uvec& oshape) {
    for (auto& tb : l.sched) {
        // ---- kernel body, once per thread ----
        auto output = na::create_mutable_array(out.data(), oshape.data(), (size_t)oshape.size());
        auto result = fn::apply(f, operands);
        auto thread_id  = ks_t{{tb.first, 0, 0}};
        auto block_id   = ks_t{{tb.second, 0, 0}};
        auto block_size = ks_t{{l.bsz, 1, 1}};
        na::assign_result(output, result, thread_id, block_id, block_size);
    }
}

// shape of a leaf as the raw memory a kernel argument points to (with unrelated memory behind it)
template <typename T> inline std::vector<size_t> raw_shape(const T& leaf) {
    std::vector<size_t> sv; auto shape = nm::shape(leaf);
    for (size_t i = 0; i < (size_t)nm::dim(leaf); i++) sv.push_back((size_t)nm::at(shape, i));
    sv.push_back(99); sv.push_back(77);
    return sv;
}

template <typename T> inline bool host_eval(const T& v, uvec& hshape, std::vector<long long>& hdata) {
    auto host = na::eval(v);
    if constexpr (meta::is_maybe_v<decltype(host)>) {
        if (!nm::has_value(host)) return false;
        auto h = nm::unwrap(host); dump(h, hshape, hdata);
    } else dump(host, hshape, hdata);
    return true;
}

// out: element codes (to_code) of the output buffer
inline std::string answer_codes(const uvec& hshape, const std::vector<long long>& hdata, const std::vector<long long>& out) {
    bool eq = true; for (size_t k = 0; k < out.size(); k++) eq = eq && (out[k] == hdata[k]);
    return "ok shape=" + fmt(hshape) + " out=" + fmt(out) + " hosteq=" + (eq ? "1" : "0");
}
inline std::string answer(const uvec& hshape, const std::vector<long long>& hdata, const std::vector<elem_t>& out) {
    std::vector<long long> codes; for (auto v : out) codes.push_back(to_code(v));
    return answer_codes(hshape, hdata, codes);
}

// mode=dev: extraction + device_array operands + fn::apply (CUDA / HIP / SYCL).  v: a (non-maybe) view
template <typename view_t>
std::string run_dev_(const view_t& v, const Args& a) {
    auto l = parse_launch(a);
    uvec hshape; std::vector<long long> hdata;
    if (!host_eval(v, hshape, hdata)) return "nothing-eval";
    // what the evaluator hands to context->run
    auto f = fn::get_function_composition(v);
    const auto& operands = fn::get_function_operands(v);
    constexpr auto N = meta::len_v<meta::remove_cvref_t<decltype(operands)>>;
    std::vector<elem_t> out(hdata.size(), (elem_t)l.init);
    auto dops = rebuild_all_dev(operands, std::make_index_sequence<N>{});
    run_threads(f, dops, l, out, hshape);
    return answer(hshape, hdata, out);
}
template <typename view_t>
std::string run_dev(const view_t& v, const Args& a) {
    if constexpr (meta::is_maybe_v<view_t>) {
        if (!nm::has_value(v)) return "nothing";
        return run_dev_(*v, a);
    } else return run_dev_(v, a);
}

// mode=ref: leaves rebuilt with create_array(ptr, shape_ptr, dim), the view function called on them (OpenCL kernels)
template <typename builder_t, typename... leaf_t>
std::string run_ref(const builder_t& build, const Args& a, const leaf_t&... leaf) {
    auto l = parse_launch(a);
    uvec hshape; std::vector<long long> hdata;
    {
        auto v = build(leaf...);
        if constexpr (meta::is_maybe_v<decltype(v)>) { if (!nm::has_value(v)) return "nothing"; }
        if (!host_eval(v, hshape, hdata)) return "nothing-eval";
    }
    std::vector<elem_t> out(hdata.size(), (elem_t)l.init);
    auto shapes = std::make_tuple(raw_shape(leaf)...);   // std::vector<size_t> per leaf, alive during the launch
    for (auto& tb : l.sched) {
        // ---- kernel body, once per work item ----
        auto result = [&](){
            return std::apply([&](const auto&... sv){
                return build(nm::unwrap(na::create_array(nm::data(leaf), sv.data(), (size_t)nm::dim(leaf)))...);
            }, shapes);
        }();
        auto output = na::create_mutable_array(out.data(), hshape.data(), (size_t)hshape.size());
        na::assign_result(output, result, ks_t{{tb.first, 0, 0}}, ks_t{{tb.second, 0, 0}}, ks_t{{l.bsz, 1, 1}});
    }
    return answer(hshape, hdata, out);
}

template <typename builder_t, typename... leaf_t>
std::string run_prog(const builder_t& build, const Args& a, const leaf_t&... leaf) {
    std::string mode = has(a, "mode") ? get(a, "mode") : "dev";
    if (mode == "dev") return run_dev(build(leaf...), a);
    if (mode == "ref") return run_ref(build, a, leaf...);
    throw bad_args("mode");
}

} // namespace c13
