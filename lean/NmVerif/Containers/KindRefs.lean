/-
  NmVerif.Containers.KindRefs — ONE reference function per operation of the C09 kind matrix,
  written directly from the NumPy semantics over `List Nat` / `List Int` (not a mirror of a C++
  loop: every C++ kind-specific branch must agree with these).

  Core Lean only (linked into the driver).
-/
import NmVerif.Basic
namespace NmVerif.KindRefs
open NmVerif

/-- `np.reshape` target resolution: at most one `-1`, other extents positive. -/
def reshape (src : List Nat) (dst : List Int) : Option (List Nat) :=
  let n := prod src
  let neg := (dst.filter (· < 0))
  let known := prod ((dst.filter (· ≥ 0)).map Int.toNat)
  if neg.any (· ≠ -1) then none
  else match neg.length with
    | 0 => if known = n then some (dst.map Int.toNat) else none
    | 1 => if known = 0 then none
           else if n % known = 0 then some (dst.map (fun d => if d < 0 then n / known else d.toNat)) else none
    | _ => none

/-- is `axes` a permutation of `0..n-1` -/
def isPerm (axes : List Nat) (n : Nat) : Bool :=
  axes.length == n && (List.range n).all (fun k => axes.contains k)

/-- `np.transpose(a, axes).shape`; `axes = none` reverses. -/
def transpose (s : List Nat) (axes : Option (List Nat)) : Option (List Nat) :=
  match axes with
  | none => some s.reverse
  | some ax => if isPerm ax s.length then some (ax.map (fun a => s.getD a 0)) else none

/-- one axis of `np.broadcast_shapes` -/
def bdim (a b : Nat) : Option Nat :=
  if a = b then some a else if a = 1 then some b else if b = 1 then some a else none

/-- right-aligned broadcasting of two reversed shapes -/
def bshapeRev : List Nat → List Nat → Option (List Nat)
  | [], bs => some bs
  | as, [] => some as
  | a :: as, b :: bs => do
      let d ← bdim a b
      let r ← bshapeRev as bs
      pure (d :: r)

/-- `np.broadcast_shapes(a, b)` -/
def broadcastShape (a b : List Nat) : Option (List Nat) :=
  (bshapeRev a.reverse b.reverse).map List.reverse

def broadcastShapes : List (List Nat) → Option (List Nat)
  | [] => some []
  | s :: ss => ss.foldl (fun acc t => acc.bind (fun r => broadcastShape r t)) (some s)

/-- `np.broadcast_to(a, b).shape`: `a` must broadcast to exactly `b`. -/
def broadcastTo (a b : List Nat) : Option (List Nat) :=
  if a.length ≤ b.length ∧ broadcastShape a b = some b then some b else none

/-- the second component of `index::shape_broadcast_to`: axis `k` of the result is "free" when the source
    has no such axis or its extent differs from the target's (then it is 1) -/
def broadcastFreeAxes (a b : List Nat) : List Nat :=
  let off := b.length - a.length
  (List.range b.length).map (fun k => if k < off then 1 else if a.getD (k - off) 0 = b.getD k 0 then 0 else 1)

/-- `np.tile(a, reps).shape` -/
def tile (s reps : List Nat) : List Nat :=
  let n := max s.length reps.length
  let s' := List.replicate (n - s.length) 1 ++ s
  let r' := List.replicate (n - reps.length) 1 ++ reps
  List.zipWith (· * ·) s' r'

/-- normalise one axis against `ndim` (`numpy.lib.array_utils.normalize_axis_index`) -/
def normAxis (ndim : Nat) (a : Int) : Option Nat :=
  if 0 ≤ a ∧ a < ndim then some a.toNat
  else if a < 0 ∧ -(ndim : Int) ≤ a then some (a + ndim).toNat
  else none

def normAxes (ndim : Nat) (ax : List Int) : Option (List Nat) := ax.mapM (normAxis ndim)

/-- `np.repeat(a, repeats, axis).shape` with scalar repeats; `axis = none` flattens -/
def repeatScalar (s : List Nat) (r : Nat) (axis : Option Int) : Option (List Nat) :=
  match axis with
  | none => some [prod s * r]
  | some a => (normAxis s.length a).map (fun k => s.set k (s.getD k 0 * r))

/-- `np.repeat(a, repeats, axis).shape` with one repeat count per element along `axis` -/
def repeatList (s : List Nat) (r : List Nat) (axis : Option Int) : Option (List Nat) :=
  match axis with
  | none => if r.length = prod s then some [r.foldl (· + ·) 0] else none
  | some a => (normAxis s.length a).bind (fun k =>
      if r.length = s.getD k 0 then some (s.set k (r.foldl (· + ·) 0)) else none)

/-- shape of `np.sum(a, axis, keepdims)`; `axes = none` reduces everything -/
def removeDims (s : List Nat) (axes : Option (List Int)) (keepdims : Bool) : Option (List Nat) :=
  match axes with
  | none => some (if keepdims then s.map (fun _ => 1) else [])
  | some ax => (normAxes s.length ax).map (fun ks =>
      let idx := List.range s.length
      if keepdims then idx.map (fun k => if ks.contains k then 1 else s.getD k 0)
      else (idx.filter (fun k => !ks.contains k)).map (fun k => s.getD k 0))

/-- `np.concatenate((a,b), axis).shape`; `axis = none` flattens both -/
def concatenate (a b : List Nat) (axis : Option Int) : Option (List Nat) :=
  match axis with
  | none => some [prod a + prod b]
  | some ax =>
    if a.length ≠ b.length then none else
    (normAxis a.length ax).bind (fun k =>
      if (List.range a.length).all (fun j => j == k || a.getD j 0 == b.getD j 0)
      then some (a.set k (a.getD k 0 + b.getD k 0)) else none)

/-- `np.pad` result shape; `pw` in the ONNX layout `[begin_0..begin_{d-1}, end_0..end_{d-1}]` -/
def pad (s pw : List Nat) : Option (List Nat) :=
  if pw.length = 2 * s.length then
    some ((List.range s.length).map (fun k => s.getD k 0 + pw.getD k 0 + pw.getD (s.length + k) 0))
  else none

/-- `np.matmul(a, b).shape` for operands of rank ≥ 2: the last two axes contract, the leading (batch) axes broadcast -/
def matmulShape (a b : List Nat) : Option (List Nat) :=
  if a.length < 2 ∨ b.length < 2 then none
  else
    let (ba, ma) := (a.take (a.length - 2), a.drop (a.length - 2))
    let (bb, mb) := (b.take (b.length - 2), b.drop (b.length - 2))
    if ma.getD 1 0 ≠ mb.getD 0 0 then none
    else (broadcastShape ba bb).map (fun r => r ++ [ma.getD 0 0, mb.getD 1 0])

/-- length of the Python slice `start:stop:step` on an axis of extent `n`, for `0 ≤ start, stop ≤ n`, `step ≥ 1`
    (absent entries default to `0`, `n`, `1`) -/
def sliceLen (n : Nat) (start stop step : Option Nat) : Nat :=
  let a := start.getD 0
  let b := min (stop.getD n) n
  let st := step.getD 1
  if st = 0 then 0 else if b ≤ a then 0 else (b - a + st - 1) / st

/-! ### views / evaluations over provenance data (`data[k] = start + k`, row-major) -/

/-- element at multi-index `i` of the row-major array of shape `s` holding `start, start+1, …` -/
def iotaAt (s : List Nat) (start : Nat) (i : List Nat) : Nat := start + computeOffset i (strides s)

/-- an array value: shape and elements in row-major order -/
abbrev ArrV := List Nat × List Nat

def tabulate (r : List Nat) (f : List Nat → Nat) : ArrV := (r, (allIdx r).map f)

/-- `np.transpose(x, axes)` -/
def vTranspose (s : List Nat) (axes : Option (List Nat)) : Option ArrV := do
  let r ← transpose s axes
  let ax := axes.getD (List.range s.length).reverse
  pure (tabulate r (fun o => iotaAt s 0 ((List.range s.length).map (fun j => o.getD (ax.idxOf j) 0))))

/-- `np.reshape(x, newshape)` -/
def vReshape (s : List Nat) (d : List Int) : Option ArrV :=
  (reshape s d).map (fun r => (r, (List.range (prod s))))

/-- `np.tile(x, reps)` -/
def vTile (s reps : List Nat) : ArrV :=
  let r := tile s reps
  let off := r.length - s.length
  tabulate r (fun o => iotaAt s 0 ((List.range s.length).map (fun j => o.getD (j + off) 0 % s.getD j 1)))

/-- index of operand `a` read at result index `o` under broadcasting -/
def bsrc (a : List Nat) (o : List Nat) : List Nat :=
  let off := o.length - a.length
  (List.range a.length).map (fun j => if a.getD j 1 = 1 then 0 else o.getD (j + off) 0)

/-- `x + y` with broadcasting (`x` holds `0..`, `y` holds `1000..`) -/
def vAdd (a b : List Nat) : Option ArrV :=
  (broadcastShape a b).map (fun r => tabulate r (fun o => iotaAt a 0 (bsrc a o) + iotaAt b 1000 (bsrc b o)))

/-- `np.sum(x, axis)` for one axis -/
def vSum (s : List Nat) (axis : Int) : Option ArrV :=
  (normAxis s.length axis).map (fun k =>
    let r := (s.take k) ++ (s.drop (k + 1))
    tabulate r (fun o => ((List.range (s.getD k 0)).map (fun t => iotaAt s 0 (o.take k ++ [t] ++ o.drop k))).foldl (· + ·) 0))

/-! ### more views (round 4): every function below is the NumPy definition over provenance data;
    operand `k` holds `1000*k + flat id`, the condition operand of `where` holds `flat id % 2`,
    the fill value of `pad` is `9999` -/

def fillValue : Nat := 9999

/-- `np.broadcast_to(x, t)` -/
def vBroadcastTo (s t : List Nat) : Option ArrV :=
  (broadcastTo s t).map (fun r => tabulate r (fun o => iotaAt s 0 (bsrc s o)))

/-- `np.broadcast_arrays(x, y)` -/
def vBroadcastArrays (a b : List Nat) : Option (ArrV × ArrV) :=
  (broadcastShape a b).map (fun r =>
    (tabulate r (fun o => iotaAt a 0 (bsrc a o)), tabulate r (fun o => iotaAt b 1000 (bsrc b o))))

/-- `np.repeat(x, r, axis)` with a scalar `r` -/
def vRepeat (s : List Nat) (r : Nat) (axis : Option Int) : Option ArrV :=
  match axis with
  | none => some ([prod s * r], (List.range (prod s * r)).map (fun k => k / r))
  | some a => (normAxis s.length a).map (fun k =>
      tabulate (s.set k (s.getD k 0 * r)) (fun o => iotaAt s 0 (o.set k (o.getD k 0 / r))))

/-- `np.pad(x, ..., constant_values=fill)`; `pw` in the layout `[begin_0.., end_0..]` -/
def vPad (s pw : List Nat) : Option ArrV :=
  (pad s pw).map (fun r => tabulate r (fun o =>
    if (List.range s.length).all (fun j => pw.getD j 0 ≤ o.getD j 0 ∧ o.getD j 0 < pw.getD j 0 + s.getD j 0)
    then iotaAt s 0 ((List.range s.length).map (fun j => o.getD j 0 - pw.getD j 0))
    else fillValue))

/-- `x[a0:b0:c0, a1:b1:c1]` on a 2-d array, non-negative entries -/
def vSlice2 (s : List Nat) (s0 s1 : Option Nat × Option Nat × Option Nat) : Option ArrV :=
  match s with
  | [n0, n1] =>
    let r := [sliceLen n0 s0.1 s0.2.1 s0.2.2, sliceLen n1 s1.1 s1.2.1 s1.2.2]
    some (tabulate r (fun o => iotaAt s 0
      [s0.1.getD 0 + o.getD 0 0 * s0.2.2.getD 1, s1.1.getD 0 + o.getD 1 0 * s1.2.2.getD 1]))
  | _ => none

/-- `np.flip(x, axis)`; `none` flips every axis -/
def vFlip (s : List Nat) (axes : Option (List Int)) : Option ArrV :=
  let ks := match axes with
    | none => some (List.range s.length)
    | some ax => normAxes s.length ax
  ks.map (fun ks => tabulate s (fun o => iotaAt s 0
    ((List.range s.length).map (fun j => if ks.contains j then s.getD j 0 - 1 - o.getD j 0 else o.getD j 0))))

/-- insert `1` at the (sorted, normalised) positions `ks` of the result -/
def insertOnes (s : List Nat) (ks : List Nat) (n : Nat) : List Nat :=
  ((List.range n).foldl (fun (acc : List Nat × List Nat) j =>
    if ks.contains j then (acc.1 ++ [1], acc.2)
    else (acc.1 ++ [acc.2.headD 0], acc.2.tail)) ([], s)).1

/-- `np.expand_dims(x, axes)` -/
def vExpandDims (s : List Nat) (axes : List Int) : Option ArrV :=
  let n := s.length + axes.length
  (normAxes n axes).bind (fun ks =>
    if ks.eraseDups.length ≠ ks.length then none
    else some (insertOnes s ks n, List.range (prod s)))

/-- `np.squeeze(x)` -/
def vSqueeze (s : List Nat) : ArrV := (s.filter (· ≠ 1), List.range (prod s))

/-- `np.concatenate((x, y), axis)` -/
def vConcatenate (a b : List Nat) (axis : Option Int) : Option ArrV :=
  match axis with
  | none => some ([prod a + prod b], List.range (prod a) ++ (List.range (prod b)).map (· + 1000))
  | some ax => (concatenate a b axis).bind (fun r => (normAxis a.length ax).map (fun k =>
      tabulate r (fun o => if o.getD k 0 < a.getD k 0 then iotaAt a 0 o
                            else iotaAt b 1000 (o.set k (o.getD k 0 - a.getD k 0)))))

/-- `np.where(c, x, y)`; `c` holds `flat id % 2`, `x` holds `1000..`, `y` holds `2000..` -/
def vWhere (c x y : List Nat) : Option ArrV :=
  (broadcastShapes [c, x, y]).map (fun r => tabulate r (fun o =>
    if iotaAt c 0 (bsrc c o) % 2 ≠ 0 then iotaAt x 1000 (bsrc x o) else iotaAt y 2000 (bsrc y o)))

/-- `np.matmul(x, y)` for operands of rank ≥ 2 -/
def vMatmul (a b : List Nat) : Option ArrV :=
  (matmulShape a b).map (fun r =>
    let nb := r.length - 2
    let ba := a.take (a.length - 2)
    let bb := b.take (b.length - 2)
    let kk := a.getD (a.length - 1) 0
    tabulate r (fun o =>
      let ob := o.take nb
      let i := o.getD nb 0
      let j := o.getD (nb + 1) 0
      ((List.range kk).map (fun t =>
        iotaAt a 0 (bsrc ba ob ++ [i, t]) * iotaAt b 1000 (bsrc bb ob ++ [t, j]))).foldl (· + ·) 0))

/-- interleave: position `j` of the result takes the next entry of `t` when `mask[j]`, else the next entry of `o` -/
def mergeIdx : List Bool → List Nat → List Nat → List Nat
  | [], _, _ => []
  | true :: m, o, t => t.headD 0 :: mergeIdx m o t.tail
  | false :: m, o, t => o.headD 0 :: mergeIdx m o.tail t

/-- `np.sum(x, axis, keepdims)`; `axes = none` reduces everything -/
def vSumK (s : List Nat) (axes : Option (List Int)) (keepdims : Bool) : Option ArrV :=
  let ks := match axes with
    | none => some (List.range s.length)
    | some ax => normAxes s.length ax
  ks.bind (fun ks =>
    if ks.eraseDups.length ≠ ks.length then none else
    let mask := (List.range s.length).map (fun j => ks.contains j)
    let red := ((List.range s.length).filter (fun j => ks.contains j)).map (fun j => s.getD j 0)
    let keep := ((List.range s.length).filter (fun j => !ks.contains j)).map (fun j => s.getD j 0)
    let r := if keepdims then (List.range s.length).map (fun j => if ks.contains j then 1 else s.getD j 0) else keep
    some (r, (allIdx keep).map (fun o => ((allIdx red).map (fun t => iotaAt s 0 (mergeIdx mask o t))).foldl (· + ·) 0)))

/-- `np.take(x, indices, axis)` with a 1-d index list -/
def vTake (s : List Nat) (ind : List Nat) (axis : Int) : Option ArrV :=
  (normAxis s.length axis).bind (fun k =>
    if ind.any (fun i => s.getD k 0 ≤ i) then none
    else some (tabulate (s.set k ind.length) (fun o => iotaAt s 0 (o.set k (ind.getD (o.getD k 0) 0)))))

end NmVerif.KindRefs
