// C12 harness, integer element types, x86 AVX context (256 bit); flags as h_c12_avx.cpp
#include "nmtools/array/eval/simd/x86_avx.hpp"
#define C12_CTX  nmtools::array::simd::x86_AVX
#define C12_BITS 256
// simd_op_t<x86_avx_t,T>::mul: _mm256_mullo_epi16 / _mm256_mullo_epi32 only
#define C12I_NO_MUL8
#define C12I_NO_MUL64
// simd_op_t<...>::fmadd: _ps / _pd intrinsics only, an integer matmul does not compile
#define C12I_NO_MATMUL
#include "h_c12_int_common.hpp"
