import NmVerif.Basic
import NmVerif.NDA
/-
  State-machine model of the array classes (include/nmtools/array/ndarray/ndarray.hpp `ndarray_t`,
  hybrid.hpp, dynamic.hpp): construction, resize, element write, fill.

  `Cfg` abstracts the 15 shape×buffer kinds to what matters at run time:
    shape  : dyn (std::vector) | fixedDim n (std::array<size_t,n>) | bounded cap (static_vector<size_t,cap>) | clipped maxs
             | const s (tuple of integral constants: the shape is part of the type, there is no `resize`)
    buffer : dyn (std::vector) | fixed n (std::array<T,n>)        | bounded cap (static_vector<T,cap>)
    layout : row / column major (offset functor)
  `resize` mirrors ndarray_t::resize: validate the request (dimension, element count, capacity, clipped bounds),
  only then resize shape/buffer, assign the shape, recompute strides.
-/
namespace NmVerif.NDObj
open NmVerif

inductive ShapeKind where
  | dyn | fixedDim (n : Nat) | bounded (cap : Nat) | clipped (maxs : List Nat) | const (s : List Nat)
deriving Repr, DecidableEq

inductive BufKind where
  | dyn | fixed (n : Nat) | bounded (cap : Nat)
deriving Repr, DecidableEq

structure Cfg where
  sk : ShapeKind
  bk : BufKind
  colMajor : Bool
deriving Repr, DecidableEq

structure St where
  shape : List Nat
  strides : List Nat
  data : List Int
deriving Repr, DecidableEq

def stridesOf (cm : Bool) (s : Shape) : List Nat := if cm then colStrides s else strides s

/-- std::vector::resize / static_vector::resize on the buffer: keep the prefix, new cells value-initialised -/
def resizeBuf (d : List Int) (n : Nat) : List Int := (d ++ List.replicate n 0).take n

/-- default construction: buffer of 1 element (or its fixed size), shape (1,…,1,len buffer) — or the constant shape —,
    then a resizable buffer is resized to the product of the shape (ndarray.hpp:46-59) -/
def init (c : Cfg) : St :=
  let n0 := match c.bk with | .fixed n => n | _ => 1
  let shape := match c.sk with
    | .fixedDim k => List.replicate (k - 1) 1 ++ [n0]
    | .clipped ms =>    -- `at(shape,-1) = len(buffer)` on a clipped_size_t<max> clamps to max
        List.replicate (ms.length - 1) 1 ++ [match ms.getLast? with | some m => min n0 m | none => n0]
    | .const s => s
    | _ => [n0]
  let n := match c.bk with | .fixed n => n | _ => prod shape
  { shape := shape, strides := stridesOf c.colMajor shape, data := List.replicate n 0 }

/-- would `ndarray_t::resize(new)` be accepted in state `st`? (the validation block) -/
def accepts (c : Cfg) (st : St) (new : List Nat) : Bool :=
  (match c.sk with
    | .dyn => true
    | .fixedDim _ => st.shape.length == new.length
    | .bounded cap => new.length ≤ cap
    | .clipped ms => new.length == ms.length && prod new ≤ prod ms && (List.zipWith (fun a b => decide (a ≤ b)) new ms).all id
    | .const _ => false) &&
  (match c.bk with
    | .dyn => true
    | .fixed _ => st.data.length == prod new
    | .bounded cap => prod new ≤ cap)

def resize (c : Cfg) (st : St) (new : List Nat) : St × Bool :=
  if accepts c st new then
    ({ shape := new, strides := stridesOf c.colMajor new, data := resizeBuf st.data (prod new) }, true)
  else (st, false)

/-- element write through operator()(indices…) -/
def write (st : St) (i : Idx) (v : Int) : St :=
  { st with data := st.data.set (computeOffset i st.strides) v }

def read? (st : St) (i : Idx) : Option Int := st.data[computeOffset i st.strides]?

/-- overwrite the whole buffer with `base, base+1, …` (harness helper, keeps shape) -/
def fill (st : St) (base : Int) : St :=
  { st with data := (List.range st.data.length).map (fun (k : Nat) => base + (k : Int)) }

inductive Op where
  | resize (s : List Nat) | write (i : Idx) (v : Int) | fill (base : Int)
deriving Repr

def step (c : Cfg) (st : St) : Op → St × Bool
  | .resize s => resize c st s
  | .write i v => (write st i v, true)
  | .fill b => (fill st b, true)

def run (c : Cfg) (st : St) (ops : List Op) : St := ops.foldl (fun s o => (step c s o).1) st

/-- class invariant -/
def ObjInv (c : Cfg) (st : St) : Prop :=
  st.data.length = prod st.shape ∧ st.strides = stridesOf c.colMajor st.shape ∧
  (match c.sk with | .fixedDim k => st.shape.length = k | .bounded cap => st.shape.length ≤ cap | .clipped ms => st.shape.length = ms.length | .dyn => True | .const s => st.shape = s) ∧
  (match c.bk with | .fixed n => st.data.length = n | .bounded cap => st.data.length ≤ cap | .dyn => True)

/-- configuration sanity (the template parameters make sense) -/
def CfgOk (c : Cfg) : Prop :=
  (match c.sk with | .fixedDim k => 0 < k | .bounded cap => 0 < cap | .clipped ms => 0 < ms.length | .dyn => True | .const _ => True) ∧
  (match c.bk with | .bounded cap => 0 < cap | _ => True) ∧
  (match c.sk, c.bk with | .const s, .fixed n => n = prod s | .const s, .bounded cap => prod s ≤ cap | _, _ => True)

/-- the default-constructed state is consistent: with a clipped shape and a fixed buffer of `n` cells the last extent
    `len(buffer)` must not exceed its maximum, otherwise it is clamped and the shape no longer has `n` elements -/
def DefaultOk (c : Cfg) : Prop :=
  match c.sk, c.bk with
  | .clipped ms, .fixed n => (match ms.getLast? with | some m => n ≤ m | none => True)
  | _, _ => True

instance (c : Cfg) : Decidable (DefaultOk c) := by
  unfold DefaultOk; split
  · split <;> exact inferInstance
  · exact inferInstance

end NmVerif.NDObj

namespace NmVerif.NDObj
/-- what `a.strides()` reports: `strides_`, always computed by `index::compute_strides(shape_)` (row-major),
    whatever the layout functor is (mirrors ndarray_t; for column-major arrays this is NOT the addressing stride) -/
def reportedStrides (st : St) : List Nat := NmVerif.strides st.shape
end NmVerif.NDObj

/-! ## cast (include/nmtools/utility/cast.hpp)

  `cast<dst_t>(a)`, `cast(a, as_value<dst_t>)` and `cast(a, kind)` all do the same at run time:
    ret = dst_t{};  ret.resize(shape(a))  (result IGNORED; skipped when dst_t has no resize);
    for i < size(a):  mutable_flatten(ret)(i) = static_cast<element_t>( flatten(a)(i) )
  where `flatten(x)(i) = x(compute_indices(i, shape(x)))` goes through the array's own offset functor, so the copy is by
  LOGICAL (row-major rank) position whatever the two layouts are.  When the resize is refused `ret` keeps its default
  shape and the loop writes at `compute_indices(i, shape(ret))`, which wraps modulo the extents (no bounds check). -/
namespace NmVerif.NDObj
open NmVerif

/-- element types exercised for cast(dtype); the source element type is `int` -/
inductive DType where
  | i8 | u8 | i16 | i64 | f64
deriving Repr, DecidableEq

def wrapSigned (bits : Nat) (v : Int) : Int := (v + 2 ^ (bits - 1)) % 2 ^ bits - 2 ^ (bits - 1)

/-- `static_cast<T>(int v)` read back as an integer -/
def convTo : DType → Int → Int
  | .i8, v => wrapSigned 8 v
  | .u8, v => v % 256
  | .i16, v => wrapSigned 16 v
  | .i64, v => v
  | .f64, v => v

/-- one iteration of `cast_impl` -/
def castStep (conv : Int → Int) (src : St) (acc : Option St) (i : Nat) : Option St :=
  match acc with
  | none => none
  | some r =>
    match read? src (ndindex src.shape i) with      -- flatten(a)(i); `none` = read outside the source buffer (UB)
    | none => none
    | some v => some (write r (ndindex r.shape i) (conv v))

/-- `cast` into a default-constructed array of configuration `cd`, element conversion `conv` -/
def castInto (cd : Cfg) (conv : Int → Int) (src : St) : Option St :=
  (List.range (prod src.shape)).foldl (castStep conv src) (some (resize cd (init cd) src.shape).1)

/-- the destination kind can take the shape: its `resize` accepts it from the default state, or the default state
    already has it (constant-shape kinds) -/
def castFits (cd : Cfg) (s : List Nat) : Bool :=
  accepts cd (init cd) s || (match cd.sk with | .const s' => decide (s' = s) | _ => false)

/-- `cast(a, kind)`: the kind tags of cast.hpp / ndarray.hpp:625-660 -/
inductive SKTag where | c | f | h | d | l deriving Repr, DecidableEq
inductive BKTag where | f | h | d deriving Repr, DecidableEq
inductive KindTag where
  | fixed | hybrid | dynamic | nd (s : SKTag) (b : BKTag)
deriving Repr, DecidableEq

/-- destination configuration resolved (at compile time) for a source of fixed shape `s`
    (`resolve_optype<cast_kind_t,…>`): fixed buffers get `prod s` cells, bounded ones capacity `prod s`, a fixed /
    bounded dimension is `len s`, clipped maxima are `s`; every kind tag yields a row-major array -/
def kindCfg (k : KindTag) (s : List Nat) : Cfg :=
  match k with
  | .fixed => ⟨.const s, .fixed (prod s), false⟩                    -- fixed_ndarray<T, s…>
  | .hybrid => ⟨.fixedDim s.length, .bounded (prod s), false⟩       -- hybrid_ndarray<T, prod s, len s>
  | .dynamic => ⟨.dyn, .dyn, false⟩                                  -- dynamic_ndarray<T>
  | .nd sk bk =>
    ⟨match sk with | .c => .const s | .f => .fixedDim s.length | .h => .bounded s.length | .d => .dyn | .l => .clipped s,
     match bk with | .f => .fixed (prod s) | .h => .bounded (prod s) | .d => .dyn, false⟩

/-- what the UNREPAIRED `column_major_offset_t` addresses with when the shape is a tuple of clipped integers with different
    maxima (known finding C20.clipped-colmajor-strides; `stridesOf` follows the repaired code, fixes/C20-clipped-colmajor-reverse.diff):
    `index::reverse` of the tuple of clipped strides returns an array of their COMMON clipped type, whose bound is the
    bound of the unit stride, 1 — every stride is clamped to 1 -/
def colStridesClippedAsCoded (s : Shape) : List Nat := (colStrides s).map (fun x => min x 1)

/-- the extended machine: the array kind changes with a cast -/
inductive XOp where
  | base (o : Op) | cast (cd : Cfg) | dcast (t : DType)
deriving Repr

def xstep (cs : Cfg × St) : XOp → Option (Cfg × St)
  | .base o => some (cs.1, (step cs.1 cs.2 o).1)
  | .cast cd => (castInto cd id cs.2).map (fun r => (cd, r))
  | .dcast t => (castInto cs.1 (convTo t) cs.2).map (fun r => (cs.1, r))   -- replace_element_type keeps kind and layout

def xrun (cs : Cfg × St) (ops : List XOp) : Option (Cfg × St) :=
  ops.foldl (fun a o => a.bind (fun x => xstep x o)) (some cs)

end NmVerif.NDObj
