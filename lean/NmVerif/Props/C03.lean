import NmVerif.Arr
import NmVerif.Index.Transpose
import NmVerif.Index.Reshape
import NmVerif.Index.Flip
/-
  C03 — Rearranging views (reshape, transpose, moveaxis, ...) equal NumPy's result.
  Only property statements (+ non-vacuity examples, counterexamples of known findings) live here.
-/
namespace NmVerif.Props.C03
open NmVerif

end NmVerif.Props.C03
