"""C17 — neural-network routines equal their reference (PyTorch/NumPy) definitions.
IMPL: array::conv1d/conv2d (view::convnd), index::shape_pool2d/slice_pool2d, view::pool2d, array::max_pool2d/avg_pool2d,
softmax/softmin, batch/layer/instance/group norm, linear, bilinear, pairwise_distance, cosine_similarity.
ORACLE: lib/nn_ref_c17.py (nested loops from the PyTorch documentation formulas; no PyTorch in this sandbox)."""
import itertools, math, os, struct, sys, zlib
import numpy as np
from runner import Case
from shapes import prod, fmt, all_idx

sys.path.insert(0, os.path.dirname(os.path.dirname(os.path.abspath(__file__))))
import nn_ref_c17 as ref

ID = 'C17'
LEVEL = 'proof'
RULE = ('witnesses of the repaired findings conv.groups-interleaved, conv.unbatched-groups and batch_norm.rank-not-4 as regression requests; conv1d: full grid batch 1..2, C 1..4 x every divisor as groups x O in {g,2g}, '
        'L 1..5 (quick) / 1..7, K 1..3, stride 1..3, padding 0..2, dilation 1..2, positive output size, bias on/off, defaults passed as None '
        'or as the explicit value, a third of the points again with one-element index arrays as stride / padding / dilation (forms aaa, aia, iai, nan, ana), float32 and int element types, plus seeded cases beyond the grid (batch<=3, C<=6, L<=12, K<=5, s<=4, p<=3, d<=3) and on unbatched inputs (C, L) / (C, H, W) (off-domain: the reference is PyTorch\'s batch of one, squeezed); '
        'conv2d: seeded sample (700 quick / 15000 thorough) of the same ranges, batch 1..2, with None / int / pair argument forms; pooling: every (H,W) 1..5 '
        '(quick, interior thinned 1:3) / 1..7, kernel 1..3, stride 1..3 per axis, ceil on/off, 0..2 leading axes: shape_pool2d, slice_pool2d, window '
        'provenance fold through view::pool2d, max_pool2d, avg_pool2d (data -9..9, so all-negative windows occur; MODEL = fold over the window, exact for max, float32 for avg); '
        'softmax/softmin over every axis (negative too) of rank 1..4; '
        'batch/layer/instance/group norm on rank 2..4 (every trailing normalized_shape, every divisor as num_groups; batch_norm also on rank 5, and every batch_norm request twice: input rank known at run time and at compile time); linear, bilinear (rank 1..3, and rank 4 with a middle '
        'leading extent of 1 and of 2..3), pairwise_distance (default and ord/eps/keepdims forms, broadcast, equal operands), cosine_similarity (every axis, zero vectors) on rank 1..3: '
        'all of these are evaluated by the Lean MODEL too (the polymorphic compositions of NN/Compose.lean at Float32, at Int for integer linear / bilinear / max pooling) and compared with IMPL and with the oracle. '
        'integer-valued data compared exactly, float results within 4 ulp(float32) x terms x magnitude. non-trivial = parameters not all default')
EXHAUSTIVE = {'quick': True, 'thorough': True}
ANCHORS = {'NmVerif.NN.convnd (convWeight, convInput, convCore, convBias, convStride)':
               'view::convnd / conv1d / conv2d with index::conv_reshape_input, conv_reshape_weight, conv_reshape_reduce, conv_reshape_bias, '
               'conv_kernel_size, conv_window_axis, conv_sum_axes, conv_expand_spacing, conv_pad, conv_slices (view/convnd.hpp)',
           'NmVerif.NN.slidingWindowV / expandV / padV / reshapeV / binop / sumAxes / sliceStepV':
               'index::shape_sliding_window + sliding_window, view/expand.hpp shape_expand + expand, index::shape_pad + pad, reshape, broadcast, reduce, slice as used by convnd',
           'NmVerif.NN.shapePool2d / slicePool2d / poolWindow / poolFold':
               'index::shape_pool2d, index::slice_pool2d, view::pool2d_t::operator() (apply_slice + flatten + reducer)',
           'NmVerif.NN.maxPool2d / avgPool2d (slicedArr, Reduce.reduceElem maximum, Reduce.mean)':
               'view::max_reducer_t (reduce_maximum(sliced, None, None, None, False)), view::avg_reducer_t (mean(sliced, None, None, False): reduce_add / index::product(shape(sliced))) (view/pooling.hpp, view/mean.hpp)',
           'NmVerif.NN.softmax / softmin (red, bin, un over Reduce.reduce and ufunc2)':
               'view::softmax (reduce_maximum keepdims, subtract, exp, reduce_add keepdims, divide), view::softmin (negative) (view/softmax.hpp, view/softmin.hpp)',
           'NmVerif.NN.linear (tensordotVal over Linalg.tensordotAxes, bin add)': 'view::linear = tensordot(input, weight, ((-1),(-1))) + bias (view/linear.hpp, view/tensordot.hpp)',
           'NmVerif.NN.bilinear (bilinearInputReshape, matmulVal over Linalg.matmulV2, bilinearResultTranspose)':
               'view::bilinear with index::bilinear_input_reshape, index::bilinear_result_transpose, matmulv2, multiply, sum, transpose (view/bilinear.hpp)',
           'NmVerif.NN.pairwiseDistance / cosineSimilarity (vectorNormO, broadcast2)':
               'view::pairwise_distance, view::cosine_similarity, view::vector_norm, view::broadcast_arrays (view/pairwise_distance.hpp, cosine_similarity.hpp, vector_norm.hpp)',
           'NmVerif.NN.batchNorm / layerNorm / instanceNorm / groupNorm (normCore over Reduce.mean, Reduce.var; chanParam = atleastNd + moveLast; groupNormReshape / groupNormAxis / groupNormArgsReshape)':
               'view::batch_norm, layer_norm (index::layer_norm_axis), instance_norm, group_norm (index::group_norm_reshape, group_norm_axis, group_norm_args_reshape), view::mean, view::var, atleast_nd, moveaxis'}
ASSUMPTIONS = ['the tree under test carries the fix commits of fixes/C17-conv-batch, C17-conv2d-dilation-pair, C17-pool-ceil-window, C17-max-pool-initial, C17-bilinear-lead-axes, C17-conv-groups-interleaved, C17-batch-norm-rank (the model mirrors the repaired code)',
               'shape_pool2d and the strided slice compute extents in float32 (ceil/floor of a float quotient): exact only while the quotient is representable (extents < 2^24); the model uses naturals',
               'k <= n for pooling (the C++ wraps in size_t otherwise; the reference rejects it)',
               'floating-point tolerance (4 ulp x terms) is a harness statement, not a Lean statement: the theorems about softmax, the norms, linear, pairwise_distance, cosine_similarity and avg pooling are over an abstract element type with opaque element operations and say which elements are combined in which order; the driver instantiates them at Float32 (IEEE single, libm expf/powf) for the correspondence run',
               'the conv theorems are stated over integer-valued arrays (Arr Int) for all inputs: an identity of term sets, not a statement about float rounding',
               'the element type of intermediate results (e.g. double inside vector_norm through std::pow(float, int)) is not modelled',
               'PyTorch itself is not available: the reference is lib/nn_ref_c17.py written from the documented formulas']
PARTIAL = ['bilinear: the nested-loop definition is proved for rank-1, rank-2 and rank-3 inputs (bilinear_rank1_eq_def, bilinear_rank2_eq_def, bilinear_rank3_eq_def); for rank >= 4 (repaired defect bilinear.lead-axes, instance bilinear_rank4_regression) the composition is modelled and compared with the real code and the oracle on every run but has no Lean theorem for all extents (missing: the matmulv2 term structure for the reshaped (B0, .., Bk, 1, Bk+1, I) x (O, I, J) operands with a lead of arbitrary length carried through multiply / sum / transpose)',
           'softmax / softmin / cosine_similarity are proved in the form the code computes (stabilised exponent, quotient summed term by term); equality with the textbook formula is proved under explicit algebraic laws of the element operations (softmax_eq_textbook, cosine_similarity_eq_textbook), which floating point satisfies only approximately',
           'conv1d theorems cover None | int | one-element index array forms (conv1d_forms_eq_code_loop, conv1d_forms_eq_nested_loop); conv2d theorems cover None | int | pair forms; the correspondence run serves 5 of the 19 conv1d combinations that contain an array (aaa, aia, iai, nan, ana) besides the 8 without']
MANIFEST = dict(
    text='Proof: 37 Lean theorems. conv1d and conv2d: the mirrored view::convnd pipeline (reshape by groups, pad, sliding_window of input and of the dilation-expanded weight, multiply, sum, reshape, bias, strided slice) is defined, has the extent floor((n+2p-d(k-1)-1)/s)+1 per plane and each element is the nested loop over (channel, kernel) terms, for every batch, extent, kernel, stride, padding, dilation, groups and optional bias (None / int / one-element array forms, and pairs for conv2d), with PyTorch\'s group assignment o / (O/groups) for every groups (the weight is laid out (groups, O/groups, ...)). Pooling: shape_pool2d = PyTorch extents in floor and ceil mode (with the last-window rule), every window is non-empty, inside the input and equal to the clipped reference window, for any number of leading axes; max_pool2d = left fold of max over exactly that window from its first element (the greatest element over the integers), avg_pool2d = window sum / number of window elements, the divisor PyTorch uses without padding. Over an abstract element type with opaque operations, for all ranks, extents and axes: softmax / softmin (which elements enter the maximum and the normalising sum: the line through the index along the axis), linear (sum_i x[p,i] w[o,i] + b[o]), pairwise_distance, cosine_similarity, layer / instance / group norm (mean and variance over exactly the trailing block / spatial block / consecutive-channel group), batch_norm on every rank >= 2 (parameters of the element\'s channel, axis 1) and bilinear on rank-1, rank-2 and rank-3 inputs. Tied to the headers by a differential run of every routine (model + nested-loop oracle) on every check.',
    note='Lean kernel + propext/Classical.choice/Quot.sound; model hand-written, fidelity rests on the correspondence run; theorems about softmax / norms / linear / distances are about term selection and fold order over abstract operations (float tolerance 4 ulp x terms is the harness\'s); seven defects found by this check were repaired in /repo (fixes/C17-*.diff), the last two being the conv group interleaving for O/groups > 1 and batch_norm on rank 2/3 inputs; no known finding remains.',
    technique='Lean 4 proofs over the mirrored convnd / pool2d index pipeline and over compositions of the C06-C08 / C16 models (Mathlib ring tactic in lemma files only) + differential correspondence (IMPL vs Lean MODEL at Float32 / Int vs independent nested-loop NumPy oracle)')

H_C1, H_C2A, H_C2B, H_POOL, H_NORM, H_LIN = 'h_c17_conv1d', 'h_c17_conv2d_nb', 'h_c17_conv2d_b', 'h_c17_pool', 'h_c17_norm', 'h_c17_lin'
H_C1A = 'h_c17_conv1d_arr'     # conv1d with one-element index arrays as stride / padding / dilation
H_NORMFD = 'h_c17_normfd'     # batch_norm on inputs of compile-time rank (the `if constexpr` branch of view::batch_norm)


def harness_specs(tier):
    return [dict(name=H_C1, src='h_c17_conv1d.cpp', flavour='fast'),
            dict(name=H_C1A, src='h_c17_conv1d_arr.cpp', flavour='fast'),
            dict(name=H_C2A, src='h_c17_conv2d.cpp', flavour='fast', extra=('-DC17_BIAS=0',)),
            dict(name=H_C2B, src='h_c17_conv2d.cpp', flavour='fast', extra=('-DC17_BIAS=1',)),
            dict(name=H_POOL, src='h_c17_pool.cpp', flavour='fast'),
            dict(name=H_NORM, src='h_c17_norm.cpp', flavour='fast'),
            dict(name=H_NORMFD, src='h_c17_normfd.cpp', flavour='fast'),
            dict(name=H_LIN, src='h_c17_lin.cpp', flavour='fast')]


# ---------------------------------------------------------------------------------------------
# formatting / comparison
# ---------------------------------------------------------------------------------------------

def fnum(v):
    v = float(v)
    if math.isnan(v):
        return 'nan'
    if math.isinf(v):
        return 'inf' if v > 0 else '-inf'
    if v == math.floor(v) and abs(v) < 1e15:
        return '%d' % int(v)
    return '%.9g' % v


def fdata(vals):
    vals = list(vals)
    return '[]' if not vals else ','.join(fnum(v) for v in vals)


def fres(arr):
    arr = np.asarray(arr)
    return 'ok shape=%s data=%s' % (fmt(arr.shape), fdata(arr.ravel()))


def parse_res(s):
    if not s or not s.startswith('ok shape='):
        return None
    try:
        a, b = s[3:].split(' ')
        shp = a.split('=', 1)[1]
        dat = b.split('=', 1)[1]
        shape = [] if shp == '[]' else [int(t) for t in shp.split(',')]
        data = [] if dat == '[]' else [fval(t) for t in dat.split(',')]
        return shape, data
    except Exception:
        return None


def fval(t):
    """one data token: decimal, or `b<bits>` = the IEEE-754 float32 bit pattern the Lean driver prints (exact)"""
    if t.startswith('b'):
        return struct.unpack('<f', struct.pack('<I', int(t[1:])))[0]
    return float(t)


EPS32 = 2.0 ** -23


def close_cmp(terms, mag):
    tol = 4 * EPS32 * terms * max(mag, 1e-30)

    def cmp(a, b):
        if a == b:
            return True
        pa, pb = parse_res(a), parse_res(b)
        if pa is None or pb is None:
            return False
        if pa[0] != pb[0] or len(pa[1]) != len(pb[1]):
            return False
        for x, y in zip(pa[1], pb[1]):
            if math.isnan(x) or math.isnan(y):
                return False
            if abs(x - y) > tol:
                return False
        return True
    return cmp


def argstr(req):
    d = {}
    for kv in req.split(' ')[1:]:
        k, v = kv.split('=', 1)
        d[k] = v
    return d


def ints(s):
    return [] if s in ('[]', '') else [int(t) for t in s.split(',')]


def oi(v):
    return 'None' if v is None else (fmt(v) if isinstance(v, (list, tuple)) else str(v))


# ---------------------------------------------------------------------------------------------
# known-finding input classes (membership decided from the request only)
# ---------------------------------------------------------------------------------------------

def k_conv_groups(c):
    """conv1d / conv2d with groups > 1 and more than one output channel per group"""
    if not (c.req.startswith('conv1d ') or c.req.startswith('conv2d ')):
        return False
    a = argstr(c.req)
    g = int(a['groups'])
    return g > 1 and ints(a['ws'])[0] // g > 1


def k_conv_unbatched_groups(c):
    """conv1d / conv2d on an unbatched input (C, *spatial) with groups > 1"""
    if not (c.req.startswith('conv1d ') or c.req.startswith('conv2d ')):
        return False
    a = argstr(c.req)
    return len(ints(a['xs'])) == len(ints(a['ws'])) - 1 and int(a['groups']) > 1


def k_batch_norm_rank(c):
    return c.req.startswith('batch_norm ') and len(ints(argstr(c.req)['xs'])) != 4


def k_bilinear_lead(c):
    """bilinear on inputs of rank >= 4 whose leading axes 1 .. rank-3 are not all of extent 1"""
    if not c.req.startswith('bilinear '):
        return False
    sh = ints(argstr(c.req)['as'])
    return len(sh) >= 4 and any(e != 1 for e in sh[1:len(sh) - 2])


KNOWN_PREDICATES = {
    'conv_groups_interleaved': k_conv_groups,
    'conv_unbatched_groups': k_conv_unbatched_groups,
    'batch_norm_rank_not4': k_batch_norm_rank,
    'bilinear_lead_axes': k_bilinear_lead,
}


# ---------------------------------------------------------------------------------------------
# generators
# ---------------------------------------------------------------------------------------------

def rints(rng, n, lo, hi):
    return [rng.randint(lo, hi) for _ in range(n)]


def reals8(rng, n, lo=-16, hi=16):
    """multiples of 1/8: exact in float32"""
    return [rng.randint(lo, hi) / 8.0 for _ in range(n)]


def divisors(n):
    return [d for d in range(1, n + 1) if n % d == 0]


def h32(s):
    return zlib.crc32(s.encode())


def conv_case(rng, nsp, N, C, g, O, sp, ks, s, p, d, bias, forms, dt='f', model=True):
    """forms: for stride/padding/dilation one of 'none' | 'int' | 'pair' (none only legal for the default value);
    N = None: unbatched input (C, *spatial), the reference is PyTorch's (a batch of one, squeezed)"""
    unbatched = N is None
    xs = ([] if unbatched else [N]) + [C] + list(sp)
    ws = [O, C // g] + list(ks)
    x = rints(rng, prod(xs), -3, 3)
    w = rints(rng, prod(ws), -3, 3)
    b = rints(rng, O, -5, 5) if bias else None

    def form(v, f, default):
        if f == 'none':
            assert all(t == default for t in v)
            return None
        if f == 'int':
            assert len(set(v)) == 1
            return v[0]
        return list(v)
    sv, pv, dv = form(s, forms[0], 1), form(p, forms[1], 0), form(d, forms[2], 1)
    op = 'conv%dd' % nsp
    req = '%s dt=%s xs=%s x=%s ws=%s w=%s b=%s%s stride=%s padding=%s dilation=%s groups=%d' % (
        op, dt, fmt(xs), fmt(x), fmt(ws), fmt(w), 'None' if b is None else fmt(b), '' if b is None else ' bs=%d' % O,
        oi(sv), oi(pv), oi(dv), g)
    if nsp == 2:
        req = req.replace(' dt=%s' % dt, '')
    arr1 = nsp == 1 and 'pair' in forms          # conv1d with one-element index arrays: other harness TU, `forms=` tells which
    if arr1:
        req += ' forms=' + ''.join({'none': 'n', 'int': 'i', 'pair': 'a'}[f] for f in forms)
    try:
        out = ref.convnd(np.array(x, dtype=object).reshape(([1] if unbatched else []) + xs), np.array(w, dtype=object).reshape(ws), b, sv, pv, dv, g)
        oracle = fres(out[0] if unbatched else out)
    except ref.RefError:
        return None
    nontriv = not (all(t == 1 for t in s) and all(t == 0 for t in p) and all(t == 1 for t in d) and g == 1 and not bias)
    if nsp == 1:
        forms = tuple('array' if f == 'pair' else f for f in forms)
    tags = [op, 'groups=%d' % g, 'unbatched' if unbatched else 'batch=%d' % N, 'bias' if bias else 'nobias', 'stride:' + forms[0], 'padding:' + forms[1], 'dilation:' + forms[2],
            's=%s' % oi(list(s)), 'p=%s' % oi(list(p)), 'd=%s' % oi(list(d)), 'dt=' + dt]
    if nsp == 1:
        h = H_C1A if arr1 else H_C1
    else:
        h = H_C2B if bias else H_C2A
    c = Case(req, h, oracle=oracle, model=model, nontrivial=nontriv, tags=tags)
    # on-domain = hypotheses of conv1d_eq_nested_loop / conv2d_eq_nested_loop: a batched input, every groups
    c.dom = not unbatched
    if k_conv_groups(c):
        c.tags = tuple(c.tags) + ('conv.groups-interleaved-regression',)      # class of the repaired defect: in-domain now
    if k_conv_unbatched_groups(c):
        c.tags = tuple(c.tags) + ('conv.unbatched-groups-regression',)
    return c


def pick_form(key, v, default, allow_pair):
    """deterministic choice of the argument form from the case key"""
    h = h32(key)
    opts = []
    if all(t == default for t in v):
        opts.append('none')
    if len(set(v)) == 1:
        opts.append('int')
    if allow_pair:
        opts.append('pair')
    return opts[h % len(opts)]


def gen_conv1d(tier, rng):
    Lmax = 5 if tier == 'quick' else 7
    for C in range(1, 5):
        for g in divisors(C):
            for O in (g, 2 * g):
                for L in range(1, Lmax + 1):
                    for K in range(1, 4):
                        for s in range(1, 4):
                            for p in range(0, 3):
                                for d in range(1, 3):
                                    if ref.conv_out_size(L, K, s, p, d) <= 0:
                                        continue
                                    key = 'c1 %d %d %d %d %d %d %d %d' % (C, g, O, L, K, s, p, d)
                                    h = h32(key)
                                    bias = bool(h & 1)
                                    forms = (pick_form(key + 's', [s], 1, False), pick_form(key + 'p', [p], 0, False), pick_form(key + 'd', [d], 1, False))
                                    dt = 'i' if (h >> 3) % 4 == 0 else 'f'
                                    N = 1 + (h >> 7) % 2
                                    c = conv_case(rng, 1, N, C, g, O, [L], [K], [s], [p], [d], bias, forms, dt)
                                    if c is not None:
                                        yield c
                                    if tier != 'quick' or (h >> 5) % 4 == 0:
                                        c = conv_case(rng, 1, 3 - N, C, g, O, [L], [K], [s], [p], [d], not bias, forms, dt)
                                        if c is not None:
                                            yield c
                                    # the same point with one-element index arrays as arguments (forms served by h_c17_conv1d_arr)
                                    if tier != 'quick' or (h >> 9) % 3 == 0:
                                        combos = [('pair', 'pair', 'pair'), ('pair', 'int', 'pair'), ('int', 'pair', 'int')]
                                        if s == 1 and d == 1:
                                            combos.append(('none', 'pair', 'none'))
                                        if p == 0:
                                            combos.append(('pair', 'none', 'pair'))
                                        c = conv_case(rng, 1, N, C, g, O, [L], [K], [s], [p], [d], bool((h >> 11) & 1), combos[(h >> 12) % len(combos)], 'f')
                                        if c is not None:
                                            yield c
    # unbatched inputs (C, L): outside the property's quantifier (batch 1..2) and outside the theorems, PyTorch accepts them;
    # the code reshapes the sum by conv_reshape_reduce in a branch of its own
    # (every groups: conv.unbatched-groups was repaired together with conv.groups-interleaved)
    for t in range(120 if tier == 'quick' else 1500):
        C = rng.randint(1, 4); g = rng.choice(divisors(C)); O = g * rng.randint(1, 3)
        L = rng.randint(1, 6); K = rng.randint(1, 3); s_ = rng.randint(1, 3); p_ = rng.randint(0, 2); d_ = rng.randint(1, 2)
        if ref.conv_out_size(L, K, s_, p_, d_) <= 0:
            continue
        key = 'c1u %d %d %d %d %d %d %d %d' % (C, g, O, L, K, s_, p_, d_)
        forms = (pick_form(key + 's', [s_], 1, False), pick_form(key + 'p', [p_], 0, False), pick_form(key + 'd', [d_], 1, False))
        c = conv_case(rng, 1, None, C, g, O, [L], [K], [s_], [p_], [d_], bool(rng.randint(0, 1)), forms, 'f')
        if c is not None:
            yield c
    # beyond the property's grid: larger extents / kernels / strides, seeded
    for t in range(150 if tier == 'quick' else 3000):
        C = rng.randint(1, 6); g = rng.choice(divisors(C)); O = g * rng.randint(1, 3)
        L = rng.randint(1, 12); K = rng.randint(1, 5); s_ = rng.randint(1, 4); p_ = rng.randint(0, 3); d_ = rng.randint(1, 3)
        if ref.conv_out_size(L, K, s_, p_, d_) <= 0:
            continue
        key = 'c1r %d %d %d %d %d %d %d %d' % (C, g, O, L, K, s_, p_, d_)
        forms = (pick_form(key + 's', [s_], 1, False), pick_form(key + 'p', [p_], 0, False), pick_form(key + 'd', [d_], 1, False))
        c = conv_case(rng, 1, rng.randint(1, 3), C, g, O, [L], [K], [s_], [p_], [d_], bool(rng.randint(0, 1)), forms, 'f')
        if c is not None:
            c.tags = c.tags + ('beyond-grid',)
            yield c


def gen_conv2d(tier, rng):
    n = 700 if tier == 'quick' else 15000
    smax = 5 if tier == 'quick' else 7
    made = 0
    seen = set()
    while made < n:
        C = rng.randint(1, 4); g = rng.choice(divisors(C)); O = g * rng.randint(1, 2)
        H, W = rng.randint(1, smax), rng.randint(1, smax)
        kh, kw = rng.randint(1, 3), rng.randint(1, 3)
        mode = rng.randint(0, 3)
        if mode == 0:
            s, p, d = [1, 1], [0, 0], [1, 1]
        elif mode == 1:
            a, b, e = rng.randint(1, 3), rng.randint(0, 2), rng.randint(1, 2)
            s, p, d = [a, a], [b, b], [e, e]
        else:
            s = [rng.randint(1, 3), rng.randint(1, 3)]; p = [rng.randint(0, 2), rng.randint(0, 2)]
            d = [rng.randint(1, 2), rng.randint(1, 2)]
            if mode == 2:
                d = [d[0], d[0]]
        key = (C, g, O, H, W, kh, kw, tuple(s), tuple(p), tuple(d))
        if key in seen:
            continue
        seen.add(key)
        if any(ref.conv_out_size(n_, k_, s_, p_, d_) <= 0 for n_, k_, s_, p_, d_ in zip((H, W), (kh, kw), s, p, d)):
            continue
        ks = 'c2 ' + repr(key)
        forms = (pick_form(ks + 's', s, 1, True), pick_form(ks + 'p', p, 0, True), pick_form(ks + 'd', d, 1, True))
        bias = bool(rng.randint(0, 1))
        c = conv_case(rng, 2, rng.randint(1, 2), C, g, O, [H, W], [kh, kw], s, p, d, bias, forms)
        if c is not None:
            made += 1
            yield c
            if made % 8 == 0:
                # the same point on an unbatched input (C, H, W)
                c = conv_case(rng, 2, None, C, g, O, [H, W], [kh, kw], s, p, d, bias, forms)
                if c is not None:
                    yield c


def nm_pool_extent(n, k, s, ceil):
    """what the code computes (used only to decide which index requests are meaningful, never as oracle)"""
    if k > n:
        return 0
    return (-((-(n - k)) // s) if ceil else (n - k) // s) + 1


def gen_pool(tier, rng):
    smax = 5 if tier == 'quick' else 7
    leads = [[], [1], [2], [1, 1], [2, 2], [1, 3]]
    for H in range(1, smax + 1):
        for W in range(1, smax + 1):
            for kh in range(1, 4):
                for kw in range(1, 4):
                    if kh > H or kw > W:
                        continue
                    for sh in range(1, 4):
                        for sw in range(1, 4):
                            for ceil in (0, 1):
                                key = 'p %d %d %d %d %d %d %d' % (H, W, kh, kw, sh, sw, ceil)
                                h = h32(key)
                                # quick: the (kh,kw,sh,sw) product is 81 per extent pair; keep all shapes but thin the symmetric interior
                                if tier == 'quick' and H > 3 and W > 3 and h % 3 != 0:
                                    continue
                                lead = leads[h % len(leads)]
                                shape = lead + [H, W]
                                try:
                                    oshape, wins = ref.pool_windows(shape, [kh, kw], [sh, sw], bool(ceil))
                                except ref.RefError:
                                    continue
                                overhang = ceil and ((oshape[-2] - 1) * sh + kh > H or (oshape[-1] - 1) * sw + kw > W)
                                tags = ['pool', 'ceil=%d' % ceil, 'overhang' if overhang else 'inside', 'lead=%d' % len(lead)]
                                nt = not (kh == 1 and kw == 1 and sh == 1 and sw == 1)
                                com = 'kernel=%d,%d stride=%d,%d ceil=%d' % (kh, kw, sh, sw, ceil)
                                c = Case('pool_shape shape=%s %s' % (fmt(shape), com), H_POOL, oracle='ok ' + fmt(oshape), nontrivial=nt, tags=tags + ['pool_shape'])
                                yield c
                                # window fold over provenance data through the real view::pool2d
                                folds = []
                                for wdw in wins:
                                    acc = 0
                                    for sid in wdw:
                                        acc = (31 * acc + sid + 1) % 2 ** 32
                                    folds.append(acc)
                                c = Case('pool_fold xs=%s %s' % (fmt(shape), com), H_POOL, oracle='ok shape=%s data=%s' % (fmt(oshape), fmt(folds)),
                                         nontrivial=nt, tags=tags + ['pool_fold'])
                                yield c
                                # slices of the last output index (overhang lives there) and of a random one
                                if True:
                                    idxs = [[t - 1 for t in oshape]]
                                    idxs.append([rng.randrange(t) for t in oshape])
                                    for idx in idxs:
                                        sl = [[i, i + 1, 1] for i in idx[:-2]] + [[idx[-2] * sh, idx[-2] * sh + kh, 1], [idx[-1] * sw, idx[-1] * sw + kw, 1]]
                                        yield Case('pool_slice idx=%s shape=%s %s' % (fmt(idx), fmt(shape), com), H_POOL,
                                                   oracle='ok ' + ';'.join(fmt(t) for t in sl), nontrivial=nt, tags=tags + ['pool_slice'])
                                # real reducers
                                n = prod(shape)
                                if (h >> 4) % 2 == 0 or tier != 'quick':
                                    dt = 'i' if (h >> 6) % 3 == 0 else 'f'
                                    x = rints(rng, n, -9, 9)
                                    xa = np.array(x).reshape(shape)
                                    mx = ref.pool2d(xa, [kh, kw], [sh, sw], bool(ceil), 'max')
                                    c = Case('max_pool2d dt=%s xs=%s x=%s %s' % (dt, fmt(shape), fmt(x), com), H_POOL, oracle=fres(mx),
                                             nontrivial=nt, tags=tags + ['max_pool2d', 'dt=' + dt])
                                    yield c
                                    av = ref.pool2d(xa, [kh, kw], [sh, sw], bool(ceil), 'avg')
                                    c = Case('avg_pool2d dt=%s xs=%s x=%s %s' % (dt, fmt(shape), fmt(x), com), H_POOL, oracle=fres(av),
                                             nontrivial=nt, tags=tags + ['avg_pool2d', 'dt=' + dt], cmp=close_cmp(kh * kw + 2, 9.0))
                                    yield c


def small_shapes(rng, rank, emax=4):
    return [rng.randint(1, emax) for _ in range(rank)]


def gen_softmax(tier, rng):
    reps = 2 if tier == 'quick' else 8
    for rank in range(1, 5):
        for rep in range(reps):
            shape = small_shapes(rng, rank, 4 if rank < 4 else 3)
            x = reals8(rng, prod(shape), -24, 24)
            xa = np.array(x).reshape(shape)
            for axis in range(-rank, rank):
                for op, f in (('softmax', ref.softmax), ('softmin', ref.softmin)):
                    out = f(xa, axis)
                    yield Case('%s xs=%s x=%s axis=%d' % (op, fmt(shape), fdata(x), axis), H_NORM, oracle=fres(out),
                               nontrivial=shape[axis] > 1, tags=[op, 'rank=%d' % rank, 'axis<0' if axis < 0 else 'axis>=0'],
                               cmp=close_cmp(shape[axis] + 4, 1.0))
    # lines of very different magnitude (seeded change C17-1): the stabilising maximum must be taken per LINE along the
    # axis; taken over the whole array the shift cancels only in exact arithmetic - in binary32 a line ~90 below the
    # global maximum loses all precision and one ~105 below becomes 0/0.  Each line along the axis gets its own offset.
    offs = [0.0, -95.0, 110.0, -130.0, 60.0, -20.0]
    for rank in (2, 3):
        for rep in range(reps):
            shape = [rng.randint(2, 4) for _ in range(rank)]
            for axis in range(-rank, rank):
                ax = axis % rank
                xa = np.zeros(shape)
                for idx in itertools.product(*[range(t) for t in shape]):
                    line = idx[:ax] + idx[ax + 1:]
                    k = sum(c * (7 ** i) for i, c in enumerate(line)) + rep
                    xa[idx] = offs[k % len(offs)] + rng.randint(-24, 24) / 8.0
                x = [float(t) for t in xa.ravel()]
                for op, f in (('softmax', ref.softmax), ('softmin', ref.softmin)):
                    out = f(xa, axis)
                    yield Case('%s xs=%s x=%s axis=%d' % (op, fmt(shape), fdata(x), axis), H_NORM, oracle=fres(out),
                               nontrivial=True, tags=[op, 'rank=%d' % rank, 'lines-of-different-magnitude'],
                               cmp=close_cmp(shape[ax] + 4, 1.0))


def norm_mag(x, w, b, vmin, eps=1e-5):
    return (max(abs(t) for t in x) * 2 / math.sqrt(max(vmin, 0) + eps)) * max([abs(t) for t in w] + [1]) + max([abs(t) for t in b] + [0])


def gen_norms(tier, rng):
    reps = 6 if tier == 'quick' else 40
    for rank in (2, 3, 4):
        for rep in range(reps):
            shape = [rng.randint(1, 2), rng.randint(1, 4)] + [rng.randint(1, 3) for _ in range(rank - 2)]
            n = prod(shape); C = shape[1]
            x = reals8(rng, n)
            xa = np.array(x).reshape(shape)
            # batch_norm
            m = reals8(rng, C, -8, 8); v = [abs(t) + 0.125 for t in reals8(rng, C, 0, 16)]; w = reals8(rng, C, -8, 8); b = reals8(rng, C, -8, 8)
            out = ref.batch_norm(xa, m, v, w, b)
            bnreq = 'batch_norm xs=%s x=%s ms=%d m=%s vs=%d v=%s ws=%d w=%s bs=%d b=%s' % (fmt(shape), fdata(x), C, fdata(m), C, fdata(v), C, fdata(w), C, fdata(b))
            bntags = ['batch_norm', 'rank=%d' % rank] + (['batch_norm.rank-not-4-regression'] if rank != 4 else [])
            bncmp = close_cmp(8, (max(abs(t) for t in x) + 1) / math.sqrt(0.125) * 1 + 1)
            yield Case(bnreq, H_NORM, oracle=fres(out), tags=bntags + ['rank:run-time'], cmp=bncmp)
            # the same request on an input whose rank is a compile-time constant (other branch of the parameter placement)
            yield Case(bnreq + ' kind=fixed_dim', H_NORMFD, oracle=fres(out), tags=bntags + ['rank:compile-time'], cmp=bncmp)
            if rank == 4 and rep % 2 == 0:
                # one more spatial axis: (N, C, D, H, W)
                shape5 = shape[:2] + [rng.randint(1, 2)] + shape[2:]
                x5 = reals8(rng, prod(shape5))
                out5 = ref.batch_norm(np.array(x5).reshape(shape5), m, v, w, b)
                req5 = 'batch_norm xs=%s x=%s ms=%d m=%s vs=%d v=%s ws=%d w=%s bs=%d b=%s' % (fmt(shape5), fdata(x5), C, fdata(m), C, fdata(v), C, fdata(w), C, fdata(b))
                cmp5 = close_cmp(8, (max(abs(t) for t in x5) + 1) / math.sqrt(0.125) * 1 + 1)
                yield Case(req5, H_NORM, oracle=fres(out5), tags=['batch_norm', 'rank=5', 'batch_norm.rank-not-4-regression', 'rank:run-time'], cmp=cmp5)
                yield Case(req5 + ' kind=fixed_dim', H_NORMFD, oracle=fres(out5), tags=['batch_norm', 'rank=5', 'batch_norm.rank-not-4-regression', 'rank:compile-time'], cmp=cmp5)
            # layer_norm over the last k axes
            for k in range(1, rank + 1):
                if rep % 2 == 1 and k not in (1, rank):
                    continue
                wshape = shape[rank - k:]
                wn = prod(wshape)
                w = reals8(rng, wn, -8, 8); b = reals8(rng, wn, -8, 8)
                out = ref.layer_norm(xa, np.array(w).reshape(wshape), np.array(b).reshape(wshape))
                yield Case('layer_norm xs=%s x=%s ws=%s w=%s bs=%s b=%s' % (fmt(shape), fdata(x), fmt(wshape), fdata(w), fmt(wshape), fdata(b)),
                           H_NORM, oracle=fres(out), tags=['layer_norm', 'rank=%d' % rank, 'k=%d' % k],
                           cmp=close_cmp(wn + 8, norm_mag(x, w, b, 0)))
            w = reals8(rng, C, -8, 8); b = reals8(rng, C, -8, 8)
            # instance_norm: (N, C, *spatial) with nd = rank-2
            if rank >= 3:
                out = ref.instance_norm(xa, w, b)
                yield Case('instance_norm xs=%s x=%s ws=%d w=%s bs=%d b=%s nd=%d' % (fmt(shape), fdata(x), C, fdata(w), C, fdata(b), rank - 2),
                           H_NORM, oracle=fres(out), tags=['instance_norm', 'rank=%d' % rank],
                           cmp=close_cmp(prod(shape[2:]) + 8, norm_mag(x, w, b, 0)))
            # group_norm with every divisor of C
            for G in divisors(C):
                out = ref.group_norm(xa, G, w, b)
                yield Case('group_norm xs=%s x=%s ws=%d w=%s bs=%d b=%s groups=%d' % (fmt(shape), fdata(x), C, fdata(w), C, fdata(b), G),
                           H_NORM, oracle=fres(out), tags=['group_norm', 'rank=%d' % rank, 'G=%d' % G],
                           cmp=close_cmp(prod(shape[1:]) // G + 8, norm_mag(x, w, b, 0)))


def gen_eps_forms(tier, rng):
    """cosine_similarity / pairwise_distance with an EXPLICIT eps (not the default), lazily (the view, evaluated) and eagerly
    (array::fn): the clamp max(norm, eps) must use the caller's eps - some vector along the axis is non-zero with a norm far
    below it (seeded change C10-4: the eager wrapper dropped the argument).  Requests answered by the oracle only."""
    reps = 4 if tier == 'quick' else 16
    for rep in range(reps):
        for rank in (2, 3):
            sa = small_shapes(rng, rank, 4); D = sa[-1]
            a = reals8(rng, prod(sa)); b = reals8(rng, prod(sa))
            # the first line along the last axis gets a tiny non-zero norm (multiples of 2^-10)
            for t in range(D):
                a[t] = (rng.randint(1, 3) / 1024.0) if t < 2 else 0.0
            aa, ba = np.array(a).reshape(sa), np.array(b).reshape(sa)
            axis = rank - 1
            for eps, etxt in ((0.25, '0.25'), (0.5, '0.5')):
                out = ref.cosine_similarity(aa, ba, axis, eps)
                for api in ('view', 'array'):
                    yield Case('cosine_similarity as=%s a=%s bs=%s b=%s axis=%d eps=%s api=%s' % (fmt(sa), fdata(a), fmt(sa), fdata(b), axis, etxt, api), H_LIN,
                               oracle=fres(out), model=False, tags=['cosine_similarity', 'explicit-eps', 'api=' + api], cmp=close_cmp(D + 8, 1.0))
                mag = max(abs(t) for t in a + b) + eps
                out = ref.pairwise_distance(aa, ba, 2, eps, False)
                for api in ('view', 'array'):
                    yield Case('pairwise_distance as=%s a=%s bs=%s b=%s ord=2 eps=%s keepdims=0 api=%s' % (fmt(sa), fdata(a), fmt(sa), fdata(b), etxt, api), H_LIN,
                               oracle=fres(out), model=False, tags=['pairwise_distance', 'explicit-eps', 'api=' + api], cmp=close_cmp(D + 6, mag * D))


def gen_linear(tier, rng):
    reps = 8 if tier == 'quick' else 60
    for rank in (1, 2, 3):
        for rep in range(reps):
            lead = [rng.randint(1, 3) for _ in range(rank - 1)]
            I, J, O = rng.randint(1, 4), rng.randint(1, 4), rng.randint(1, 3)
            dt = 'i' if rep % 2 == 0 else 'f'
            # linear
            xs = lead + [I]
            x = rints(rng, prod(xs), -4, 4); w = rints(rng, O * I, -4, 4)
            for bias in (None, rints(rng, O, -9, 9)):
                out = ref.linear(np.array(x, dtype=object).reshape(xs), np.array(w, dtype=object).reshape(O, I), bias)
                yield Case('linear dt=%s xs=%s x=%s ws=%d,%d w=%s b=%s%s' % (dt, fmt(xs), fmt(x), O, I, fmt(w), 'None' if bias is None else fmt(bias), '' if bias is None else ' bs=%d' % O),
                           H_LIN, oracle=fres(out), tags=['linear', 'rank=%d' % rank, 'bias' if bias else 'nobias', 'dt=' + dt])
            # bilinear (rank 4: a second lead, with and without a middle extent of 1 — the class of bilinear.lead-axes)
            leads_b = [lead]
            if rank == 3 and rep % 2 == 0:
                leads_b.append([lead[0], 1, lead[1]])
                leads_b.append([lead[0], rng.randint(2, 3), lead[1]])
            for lead_b in leads_b:
                as_, bs_ = lead_b + [I], lead_b + [J]
                a = rints(rng, prod(as_), -3, 3); b = rints(rng, prod(bs_), -3, 3); w = rints(rng, O * I * J, -3, 3)
                for bias in (None, rints(rng, O, -9, 9)):
                    out = ref.bilinear(np.array(a, dtype=object).reshape(as_), np.array(b, dtype=object).reshape(bs_), np.array(w, dtype=object).reshape(O, I, J), bias)
                    c = Case('bilinear dt=%s as=%s a=%s bs=%s b=%s ws=%d,%d,%d w=%s c=%s%s' % (dt, fmt(as_), fmt(a), fmt(bs_), fmt(b), O, I, J, fmt(w),
                                                                                           'None' if bias is None else fmt(bias), '' if bias is None else ' cs=%d' % O),
                             H_LIN, oracle=fres(out), tags=['bilinear', 'rank=%d' % (len(lead_b) + 1), 'bias' if bias else 'nobias', 'dt=' + dt])
                    if k_bilinear_lead(c):
                        c.tags = list(c.tags) + ['bilinear.lead-axes-regression']     # class of the repaired defect (fix 908c6a6): in-domain now
                    yield c
            # pairwise_distance / cosine_similarity
            D = rng.randint(1, 5)
            sa = lead + [D]
            sb = list(sa)
            if rank > 1 and rep % 3 == 0:
                sb = sb[1:]            # broadcast partner
            a = reals8(rng, prod(sa)); b = reals8(rng, prod(sb))
            if rep % 5 == 3:
                # equal operands: the distance is ||eps||_p, only the eps term is left
                sb = list(sa); b = list(a)
            if rep % 5 == 4:
                # a zero vector along the last axis: cosine_similarity must clamp the norm with eps instead of dividing by 0
                for t in range(D):
                    a[t] = 0.0
            aa, ba = np.array(a).reshape(sa), np.array(b).reshape(sb)
            # magnitude of the terms |a_i - b_i + eps| (a, b multiples of 1/8: the difference is exact)
            dmax = float(np.max(np.abs(np.broadcast_to(aa, np.broadcast_shapes(tuple(sa), tuple(sb))) - np.broadcast_to(ba, np.broadcast_shapes(tuple(sa), tuple(sb))))))
            mag = dmax + 1e-6
            if rep % 2 == 0:
                out = ref.pairwise_distance(aa, ba)
                yield Case('pairwise_distance as=%s a=%s bs=%s b=%s form=default' % (fmt(sa), fdata(a), fmt(sb), fdata(b)), H_LIN, oracle=fres(out),
                           tags=['pairwise_distance', 'rank=%d' % rank, 'default'] + (['equal-operands'] if rep % 5 == 3 else []), cmp=close_cmp(D + 6, mag * D))
            else:
                ordv = rng.randint(1, 3); kd = rng.randint(0, 1)
                out = ref.pairwise_distance(aa, ba, ordv, 1e-6, bool(kd))
                yield Case('pairwise_distance as=%s a=%s bs=%s b=%s ord=%d eps=0.000001 keepdims=%d' % (fmt(sa), fdata(a), fmt(sb), fdata(b), ordv, kd), H_LIN,
                           oracle=fres(out), tags=['pairwise_distance', 'rank=%d' % rank, 'ord=%d' % ordv, 'keepdims=%d' % kd] + (['equal-operands'] if rep % 5 == 3 else []),
                           cmp=close_cmp(D + 6, mag * D))
            if rank >= 2 and rep % 2 == 0:
                out = ref.cosine_similarity(aa, ba)
                yield Case('cosine_similarity as=%s a=%s bs=%s b=%s form=default' % (fmt(sa), fdata(a), fmt(sb), fdata(b)), H_LIN, oracle=fres(out),
                           tags=['cosine_similarity', 'rank=%d' % rank, 'default'], cmp=close_cmp(sa[1] + 8, 1.0))
            for axis in range(-rank, rank):
                out = ref.cosine_similarity(aa, ba, axis)
                yield Case('cosine_similarity as=%s a=%s bs=%s b=%s axis=%d' % (fmt(sa), fdata(a), fmt(sb), fdata(b), axis), H_LIN, oracle=fres(out),
                           tags=['cosine_similarity', 'rank=%d' % rank, 'axis=%d' % axis], cmp=close_cmp(sa[axis] + 8, 1.0))


def _arr(a, key, dtype=float):
    shape = ints(a[key + 's'])
    vals = [dtype(t) for t in a[key].split(',')]
    return np.array(vals, dtype=object if dtype is int else np.float64).reshape(shape)


def _opt(v):
    if v == 'None':
        return None
    t = ints(v)
    return t[0] if len(t) == 1 else t


def oracle_for(req):
    """reference answer for a request line of this property (None when the reference rejects the arguments)"""
    op = req.split(' ')[0]
    a = argstr(req)
    try:
        if op in ('conv1d', 'conv2d'):
            b = None if a['b'] == 'None' else [int(t) for t in a['b'].split(',')]
            xa, wa = _arr(a, 'x', int), _arr(a, 'w', int)
            if xa.ndim == wa.ndim - 1:          # unbatched: PyTorch's batch of one, squeezed
                return fres(ref.convnd(xa[None], wa, b, _opt(a['stride']), _opt(a['padding']), _opt(a['dilation']), int(a['groups']))[0])
            return fres(ref.convnd(xa, wa, b, _opt(a['stride']), _opt(a['padding']), _opt(a['dilation']), int(a['groups'])))
        if op == 'pool_shape':
            return 'ok ' + fmt(ref.pool_windows(ints(a['shape']), ints(a['kernel']), ints(a['stride']), a['ceil'] == '1')[0])
        if op in ('max_pool2d', 'avg_pool2d'):
            return fres(ref.pool2d(_arr(a, 'x'), ints(a['kernel']), ints(a['stride']), a['ceil'] == '1', op[:3]))
        if op == 'bilinear':
            cb = None if a['c'] == 'None' else [int(t) for t in a['c'].split(',')]
            return fres(ref.bilinear(_arr(a, 'a', int), _arr(a, 'b', int), _arr(a, 'w', int), cb))
        if op == 'batch_norm':
            f = lambda k: [float(t) for t in a[k].split(',')]
            return fres(ref.batch_norm(_arr(a, 'x'), f('m'), f('v'), f('w'), f('b')))
    except ref.RefError:
        return None
    return None


REGRESSION = [
    ('conv.groups-interleaved', 'conv1d dt=f xs=1,2,1 x=1,2 ws=4,1,1 w=1,1,1,1 b=None stride=None padding=None dilation=None groups=2'),
    ('conv.groups-interleaved', 'conv1d dt=i xs=2,4,3 x=1,2,3,4,5,6,7,8,9,10,11,12,-1,-2,-3,-4,-5,-6,-7,-8,-9,-10,-11,-12 ws=6,2,2 '
                                'w=1,0,0,1,2,0,0,2,3,0,0,3,1,1,0,0,0,0,1,1,1,-1,1,-1 b=1,2,3,4,5,6 bs=6 stride=2 padding=1 dilation=1 groups=2'),
    ('conv.groups-interleaved', 'conv2d xs=1,2,1,1 x=1,2 ws=4,1,1,1 w=1,1,1,1 b=None stride=None padding=None dilation=None groups=2'),
    ('conv.groups-interleaved', 'conv2d xs=1,4,2,2 x=1,2,3,4,5,6,7,8,9,10,11,12,13,14,15,16 ws=6,2,1,2 w=1,0,0,1,2,0,0,2,3,0,0,3,1,1,0,0,0,0,1,1,1,-1,1,-1 '
                                'b=1,2,3,4,5,6 bs=6 stride=1,1 padding=0,1 dilation=1,2 groups=2'),
    ('conv.unbatched-groups', 'conv1d dt=f xs=2,4 x=1,2,3,4,5,6,7,8 ws=4,1,2 w=1,2,3,4,5,6,7,8 b=None stride=None padding=None dilation=None groups=2'),
    ('conv.unbatched-groups', 'conv2d xs=4,2,2 x=1,2,3,4,5,6,7,8,9,10,11,12,13,14,15,16 ws=6,2,1,2 w=1,0,0,1,2,0,0,2,3,0,0,3,1,1,0,0,0,0,1,1,1,-1,1,-1 '
                              'b=1,2,3,4,5,6 bs=6 stride=1,1 padding=0,1 dilation=1,2 groups=2'),
    ('batch_norm.rank-not-4', 'batch_norm xs=1,2 x=1,2 ms=2 m=0,0 vs=2 v=1,1 ws=2 w=1,1 bs=2 b=0,0'),
    ('batch_norm.rank-not-4', 'batch_norm xs=2,3 x=1,2,3,4,5,6 ms=3 m=0,1,2 vs=3 v=1,4,0.25 ws=3 w=1,2,-1 bs=3 b=0,10,20'),
    ('batch_norm.rank-not-4', 'batch_norm xs=2,2,3 x=1,2,3,4,5,6,7,8,9,10,11,12 ms=2 m=0,1 vs=2 v=1,4 ws=2 w=1,2 bs=2 b=0,10'),
    ('batch_norm.rank-not-4', 'batch_norm xs=1,2,1,2,2 x=1,2,3,4,5,6,7,8 ms=2 m=0,1 vs=2 v=1,4 ws=2 w=1,2 bs=2 b=0,10'),
]


def gen_witnesses(tier, rng):
    """the witness of every known finding is re-executed on every run"""
    import json
    path = os.path.join(os.path.dirname(os.path.dirname(os.path.dirname(os.path.abspath(__file__)))), 'known', 'C17.json')
    hmap = {'conv1d': H_C1, 'pool_shape': H_POOL, 'max_pool2d': H_POOL, 'avg_pool2d': H_POOL, 'batch_norm': H_NORM, 'bilinear': H_LIN}
    for e in json.load(open(path)):
        if e.get('status', 'open') != 'open':
            continue            # recorded only (e.g. outside the property's quantifier): suppresses nothing, not re-executed
        req = e['witness']
        op = req.split(' ')[0]
        h = hmap.get(op) or (H_C2A if argstr(req)['b'] == 'None' else H_C2B)
        o = oracle_for(req)
        cmpf = close_cmp(8, 8.0) if op in ('batch_norm', 'avg_pool2d') else None
        yield Case(req, h, oracle=o, dom=False, model=op in ('conv1d', 'conv2d', 'pool_shape'),
                   tags=['witness', 'witness:' + e['id']], cmp=cmpf)
    # witnesses of repaired findings stay as regression requests (in-domain: MODEL, IMPL and ORACLE must agree)
    for fid, req in REGRESSION:
        op = req.split(' ')[0]
        h = hmap.get(op) or (H_C2A if argstr(req)['b'] == 'None' else H_C2B)
        cmpf = close_cmp(8, 8.0) if op == 'batch_norm' else None
        yield Case(req, h, oracle=oracle_for(req), dom=(fid != 'conv.unbatched-groups'), model=True, tags=['regression', 'regression:' + fid], cmp=cmpf)
        if op == 'batch_norm':
            yield Case(req + ' kind=fixed_dim', H_NORMFD, oracle=oracle_for(req), dom=True, model=True, tags=['regression', 'regression:' + fid, 'rank:compile-time'], cmp=cmpf)


def gen(tier, rng):
    only = os.environ.get('C17_ONLY')
    parts = [('witness', gen_witnesses), ('conv1d', gen_conv1d), ('conv2d', gen_conv2d), ('pool', gen_pool), ('softmax', gen_softmax), ('norms', gen_norms), ('linear', gen_linear), ('eps', gen_eps_forms)]
    for name, g in parts:
        if only and name not in only.split(','):
            continue
        for c in g(tier, rng):
            if os.environ.get('C17_NOMODEL'):
                c.model = False
            yield c
