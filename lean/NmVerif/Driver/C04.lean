import NmVerif.Proto
import NmVerif.Arr
import NmVerif.Index.Tile
namespace NmVerif.Driver.C04
open NmVerif NmVerif.Proto NmVerif.Index

/-- What the harness prints for an indexing view over `data[k] = k`: `ndarray_t::operator()` computes the offset
    in `size_t` (wraps mod 2^64) and reads `data_.at(offset)`, which throws (→ `oob`) iff `offset ≥ size`;
    an index outside the shape whose offset stays below `size` is read silently.  `-1` = fill value. -/
def fmtView (v : Option IxView) : String :=
  match v with
  | none => "nothing"
  | some v =>
    let st := strides v.src
    let n := prod v.src
    let offs : List (Option Nat) := (allIdx v.dst).map (fun d => (v.map d).map (fun i => computeOffset i st % 2^64))
    if offs.any (fun o => match o with | some k => decide (n ≤ k) | none => false) then "oob"
    else
      let data : List Int := offs.map (fun o => match o with | some k => (k : Int) | none => -1)
      s!"ok shape={fmtNats v.dst} data={fmtInts data}"

def handle : Handler := fun op a =>
  match op with
  | "tile" => orBad do
      let s ← a.nats "shape"
      let r ← a.nats "reps"
      pure (fmtView (tileView s r))
  | _ => none

end NmVerif.Driver.C04
