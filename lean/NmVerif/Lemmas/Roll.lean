import NmVerif.Index.Roll
import NmVerif.Lemmas.SelCommon
import NmVerif.Lemmas.Addressing
/-
  SPEC of np.roll and proofs that the MODEL meets it on the domain `|shift| ≤ extent` (single wrap).
  NumPy: `np.roll(a, shift, axis=k)[…, x, …] = a[…, (x - shift) mod n, …]` (`n` the extent; Python's non-negative mod);
         axis None rolls the flattened array and restores the shape.
-/
namespace NmVerif.Index

/-- NumPy: source position of destination position `x` on an axis of extent `n` rolled by `shift` -/
def rollSrc (n x : Nat) (shift : Int) : Nat := (((x : Int) - shift) % (n : Int)).toNat

theorem rollSrc_lt (n x : Nat) (shift : Int) (hn : 0 < n) : rollSrc n x shift < n := by
  unfold rollSrc
  have h1 := Int.emod_nonneg ((x : Int) - shift) (by omega : (n : Int) ≠ 0)
  have h2 := Int.emod_lt_of_pos ((x : Int) - shift) (by omega : (0 : Int) < n)
  omega

/-- a single wrap is the full modulo as long as `|shift| ≤ n` -/
theorem normalizeRollIndex_eq (n x : Nat) (shift : Int) (hx : x < n) (h1 : -(n : Int) ≤ shift) (h2 : shift ≤ n) :
    normalizeRollIndex ((x : Int) - shift) n = ((x : Int) - shift) % (n : Int) := by
  unfold normalizeRollIndex
  by_cases c1 : (x : Int) - shift < 0
  · simp only [c1, if_true]
    rw [← Int.add_emod_left (n : Int) ((x : Int) - shift)]
    exact (Int.emod_eq_of_lt (by omega) (by omega)).symm
  · simp only [c1, if_false]
    by_cases c2 : (n : Int) ≤ (x : Int) - shift
    · simp only [c2, if_true]
      rw [← Int.sub_emod_right ((x : Int) - shift) (n : Int)]
      exact (Int.emod_eq_of_lt (by omega) (by omega)).symm
    · simp only [c2, if_false]
      exact (Int.emod_eq_of_lt (by omega) (by omega)).symm

theorem i2u_normalizeRollIndex (n x : Nat) (shift : Int) (hx : x < n) (h1 : -(n : Int) ≤ shift) (h2 : shift ≤ n) :
    i2u (normalizeRollIndex ((x : Int) - shift) n) = rollSrc n x shift := by
  rw [normalizeRollIndex_eq n x shift hx h1 h2, i2u_of_nonneg _ (Int.emod_nonneg _ (by omega))]
  rfl

theorem normalizeAxis1_some (axis : Int) (n k : Nat) (h : normalizeAxis1 axis n = some k) :
    k < n ∧ posPy n axis = some k := by
  unfold normalizeAxis1 at h
  split at h
  · simp at h
  · rename_i hr
    split at h
    · rename_i hneg
      simp only [Option.some.injEq] at h
      subst h
      refine ⟨by omega, ?_⟩
      rw [posPy_neg n axis hneg (by omega)]
    · rename_i hneg
      simp only [Option.some.injEq] at h
      subst h
      refine ⟨by omega, ?_⟩
      have : ¬ axis < 0 := hneg
      simp [posPy, this]

theorem normalizeAxis1_none (axis : Int) (n : Nat) (h : axis < -(n : Int) ∨ (n : Int) ≤ axis) :
    normalizeAxis1 axis n = none := by
  simp [normalizeAxis1, h]

/-- one accepted axis: the loop writes `rollSrc` at the normalised position -/
theorem indexRollU_single (s : Shape) (d : Idx) (shift axis : Int) (k : Nat)
    (hk : normalizeAxis1 axis s.length = some k) (hd : InShape d s)
    (h1 : -(s[k]'(normalizeAxis1_some axis _ k hk).1 : Int) ≤ shift)
    (h2 : shift ≤ (s[k]'(normalizeAxis1_some axis _ k hk).1 : Int)) :
    indexRollU s d [shift] [axis] = some (d.set k (rollSrc (s[k]'(normalizeAxis1_some axis _ k hk).1) (d[k]'(by
      have := hd.length_eq; have := (normalizeAxis1_some axis _ k hk).1; omega)) shift)) := by
  obtain ⟨hkn, hpos⟩ := normalizeAxis1_some axis _ k hk
  have hl := hd.length_eq
  have hkd : k < d.length := by omega
  have hxk : d[k] < s[k] := ((inShape_iff_forall _ _).1 hd).2 k hkd hkn
  simp only [indexRollU, indexRollLoop, atPy, hpos, hl, Option.bind_some]
  simp only [List.getElem?_eq_getElem hkn, List.getElem?_eq_getElem hkd, setPy, hl, hpos]
  rw [i2u_normalizeRollIndex s[k] d[k] shift hxk h1 h2]

end NmVerif.Index

namespace NmVerif.Index

/-- `ks` are the normalised (`normalize_axis`) positions of the accepted axis list `axes` of an array of rank `n` -/
inductive AxesNorm (n : Nat) : List Int → List Nat → Prop
  | nil : AxesNorm n [] []
  | cons {ax : Int} {k : Nat} {axes : List Int} {ks : List Nat} :
      normalizeAxis1 ax n = some k → AxesNorm n axes ks → AxesNorm n (ax :: axes) (k :: ks)

/-- one step of the axis loop on accepted arguments -/
theorem indexRollLoop_cons (s : Shape) (d : Idx) (hd : InShape d s) (ax : Int) (axes : List Int) (sh : Int) (shifts : List Int)
    (res : Idx) (hres : res.length = d.length) (k : Nat) (hk : normalizeAxis1 ax s.length = some k)
    (n x : Nat) (hn : s[k]? = some n) (hx : d[k]? = some x) (h1 : -(n : Int) ≤ sh) (h2 : sh ≤ (n : Int)) :
    indexRollLoop s d (ax :: axes) (sh :: shifts) res =
      indexRollLoop s d axes shifts (res.set k (rollSrc n x sh)) := by
  obtain ⟨hkn, hpos⟩ := normalizeAxis1_some ax _ k hk
  have hl := hd.length_eq
  have hkd : k < d.length := by omega
  have e1 : s[k] = n := by simpa [hkn] using hn
  have e2 : d[k] = x := by simpa [hkd] using hx
  have hxk : x < n := by
    have := ((inShape_iff_forall _ _).1 hd).2 k hkd hkn
    omega
  simp only [indexRollLoop, atPy, hpos, hl, Option.bind_some, hn, hx, setPy, hres]
  rw [i2u_normalizeRollIndex n x sh hxk h1 h2]

/-- the axis loop with pairwise distinct accepted axes: every listed axis gets NumPy's source position, the others are copied -/
theorem indexRollLoop_spec (s : Shape) (d : Idx) (hd : InShape d s) :
    ∀ (axes : List Int) (ks : List Nat) (shifts : List Int) (res : Idx),
      AxesNorm s.length axes ks →
      shifts.length = axes.length →
      (∀ (i k : Nat) (sh : Int), ks[i]? = some k → shifts[i]? = some sh → ∃ n : Nat, s[k]? = some n ∧ -(n : Int) ≤ sh ∧ sh ≤ (n : Int)) →
      res.length = d.length →
      ∃ r, indexRollLoop s d axes shifts res = some r ∧ r.length = d.length ∧
        ∀ j, (j ∉ ks → r[j]? = res[j]?) ∧
          (ks.Nodup → ∀ (i : Nat) (sh : Int), ks[i]? = some j → shifts[i]? = some sh →
            ∃ n x : Nat, s[j]? = some n ∧ d[j]? = some x ∧ r[j]? = some (rollSrc n x sh)) := by
  intro axes
  induction axes with
  | nil =>
    intro ks shifts res hf _ _ hres
    cases hf
    exact ⟨res, by simp [indexRollLoop], hres, fun j => ⟨fun _ => rfl, fun _ i sh hi => by simp at hi⟩⟩
  | cons ax axes ih =>
    intro ks shifts res hf hlen hb hres
    cases hf with
    | cons hk hf' =>
      rename_i k ks'
      cases shifts with
      | nil => simp at hlen
      | cons sh shifts' =>
        obtain ⟨n, hn, h1, h2⟩ := hb 0 k sh (by simp) (by simp)
        obtain ⟨hkn, _⟩ := normalizeAxis1_some ax _ k hk
        have hl := hd.length_eq
        have hkd : k < d.length := by omega
        have hx : d[k]? = some d[k] := by simp [hkd]
        rw [indexRollLoop_cons s d hd ax axes sh shifts' res hres k hk n d[k] hn hx h1 h2]
        obtain ⟨r, hr, hrl, hspec⟩ := ih ks' shifts' (res.set k (rollSrc n d[k] sh)) hf' (by simpa using hlen)
          (fun i k' sh' hi hs => hb (i + 1) k' sh' (by simpa using hi) (by simpa using hs)) (by simpa using hres)
        refine ⟨r, hr, hrl, fun j => ⟨?_, ?_⟩⟩
        · intro hj
          simp only [List.mem_cons, not_or] at hj
          rw [(hspec j).1 hj.2, List.getElem?_set]
          simp [Ne.symm hj.1]
        · intro hnd i sh'' hi hs
          simp only [List.nodup_cons] at hnd
          cases i with
          | zero =>
            simp only [List.getElem?_cons_zero, Option.some.injEq] at hi hs
            subst hi hs
            refine ⟨n, d[k], hn, hx, ?_⟩
            rw [(hspec k).1 hnd.1, List.getElem?_set]
            simp [hres, hkd]
          | succ i =>
            exact (hspec j).2 hnd.2 i sh'' (by simpa using hi) (by simpa using hs)

end NmVerif.Index

namespace NmVerif.Index

theorem AxesNorm.length_eq {n : Nat} {axes : List Int} {ks : List Nat} (h : AxesNorm n axes ks) : ks.length = axes.length := by
  induction h with
  | nil => rfl
  | cons _ _ ih => simp [ih]

theorem shapeRoll_of_axesNorm (s : Shape) (axes : List Int) (ks : List Nat) (h : AxesNorm s.length axes ks) :
    shapeRoll s axes = some s := by
  have : axes.all (fun a => (normalizeAxis1 a s.length).isSome) = true := by
    induction h with
    | nil => rfl
    | cons hk _ ih => simp [hk, ih]
  simp [shapeRoll, this]

end NmVerif.Index
