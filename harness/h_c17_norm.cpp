// C17 harness: softmax / softmin / batch_norm / layer_norm / instance_norm / group_norm (float32, evaluated)
//   softmax|softmin xs=.. x=.. axis=int
//   batch_norm xs x ms m vs v ws w bs b            (mean, var, weight, bias: rank 1)
//   layer_norm xs x ws w bs b                      (weight/bias: trailing shape of x)
//   instance_norm xs x ws w bs b nd=1|2|3
//   group_norm xs x ws w bs b groups=int
#include "nmtools/array/array/softmax.hpp"
#include "nmtools/array/array/softmin.hpp"
#include "nmtools/array/array/batch_norm.hpp"
#include "nmtools/array/array/layer_norm.hpp"
#include "nmtools/array/array/instance_norm.hpp"
#include "nmtools/array/array/group_norm.hpp"
#include "c17_util.hpp"

using namespace c17;

std::string handle(const std::string& op, const Args& a) {
    if (op == "softmax" || op == "softmin") {
        auto x = mk<float>(a, "x"); int axis = (int)proto::integer(a, "axis");
        if (op == "softmax") return fmt_result(na::softmax(x, axis));
        return fmt_result(na::softmin(x, axis));
    }
    if (op == "batch_norm") {
        auto x = mk<float>(a, "x"); auto m = mk<float>(a, "m"); auto v = mk<float>(a, "v"); auto w = mk<float>(a, "w"); auto b = mk<float>(a, "b");
        return fmt_result(na::batch_norm(x, m, v, w, b));
    }
    if (op == "layer_norm") {
        auto x = mk<float>(a, "x"); auto w = mk<float>(a, "w"); auto b = mk<float>(a, "b");
        return fmt_result(na::layer_norm(x, w, b));
    }
    if (op == "instance_norm") {
        auto x = mk<float>(a, "x"); auto w = mk<float>(a, "w"); auto b = mk<float>(a, "b");
        switch (proto::integer(a, "nd")) {
            case 1: return fmt_result(na::instance_norm_1d(x, w, b));
            case 2: return fmt_result(na::instance_norm_2d(x, w, b));
            case 3: return fmt_result(na::instance_norm(x, w, b, meta::ct_v<3>));
            default: return "bad-args";
        }
    }
    if (op == "group_norm") {
        auto x = mk<float>(a, "x"); auto w = mk<float>(a, "w"); auto b = mk<float>(a, "b"); int g = (int)proto::integer(a, "groups");
        return fmt_result(na::group_norm(x, g, w, b));
    }
    return "unknown-op";
}
