import NmVerif.Basic
import NmVerif.NDA
/-
  L2 — denotation of arrays and views (shared by C02–C10, C16, C17).

  `Arr α`     what any array or view *is* to its consumer: a shape and an element function
              (`nmtools::shape(v)`, `apply_at(v, idx)`; everything except the SIMD evaluators goes through these).
  `IxView`    an indexing view (`view::indexing_t`, view/indexing.hpp): result shape + map from a destination
              multi-index to a source multi-index (`none` = the view answers with its fill value, e.g. pad/expand).
-/
namespace NmVerif

structure Arr (α : Type) where
  shape : Shape
  get : Idx → α

namespace Arr
variable {α β : Type}

/-- same shape, same element at every in-shape index -/
def Equiv (a b : Arr α) : Prop := a.shape = b.shape ∧ ∀ i, InShape i a.shape → a.get i = b.get i

theorem Equiv.refl (a : Arr α) : a.Equiv a := ⟨rfl, fun _ _ => rfl⟩
theorem Equiv.symm {a b : Arr α} (h : a.Equiv b) : b.Equiv a :=
  ⟨h.1.symm, fun i hi => (h.2 i (h.1 ▸ hi)).symm⟩
theorem Equiv.trans {a b c : Arr α} (h1 : a.Equiv b) (h2 : b.Equiv c) : a.Equiv c :=
  ⟨h1.1.trans h2.1, fun i hi => (h1.2 i hi).trans (h2.2 i (h1.1 ▸ hi))⟩

/-- elements in C (row-major) order -/
def flat (a : Arr α) : List α := (allIdx a.shape).map a.get

def map (f : α → β) (a : Arr α) : Arr β := ⟨a.shape, fun i => f (a.get i)⟩

/-- the array `data[k] = k` of a given shape, row-major: element at `i` is its flat id (provenance data) -/
def iota (s : Shape) : Arr Nat := ⟨s, fun i => computeOffset i (strides s)⟩

end Arr

/-- concrete buffer → denotation (element `none`-free only under `WF` and in-shape, see Props.C01) -/
def NDA.toArr {α : Type} [Inhabited α] (a : NDA α) : Arr α := ⟨a.shape, fun i => (a.get? i).getD default⟩

structure IxView where
  src : Shape
  dst : Shape
  map : Idx → Option Idx

namespace IxView

/-- apply an indexing view to an operand -/
def apply {α : Type} (v : IxView) (a : Arr α) (fill : α) : Arr α :=
  ⟨v.dst, fun d => match v.map d with | some i => a.get i | none => fill⟩

/-- every non-fill access stays inside the source shape (the C02 obligation of this view kind) -/
def InBounds (v : IxView) : Prop := ∀ d, InShape d v.dst → ∀ i, v.map d = some i → InShape i v.src

/-- what the harness prints for a view over provenance data: flat source id per destination index, -1 = fill -/
def provenance (v : IxView) : List Int :=
  (allIdx v.dst).map (fun d => match v.map d with
    | some i => (computeOffset i (strides v.src) : Int)
    | none => -1)

/-- composition: `outer` reads from the result of `inner` -/
def comp (outer inner : IxView) : IxView :=
  ⟨inner.src, outer.dst, fun d => (outer.map d).bind inner.map⟩

end IxView
end NmVerif
