import NmVerif.Basic
import NmVerif.Arr
/-
  NmVerif.Index.Slice — MODEL of include/nmtools/array/index/slice.hpp and SPEC (Python / NumPy basic indexing).

  MODEL (mirrors the C++ case analysis branch for branch, including its defects):
    compute_range (slice.hpp:35)   `computeRange`
    compute_step  (slice.hpp:93)   `computeStep`
    ceil(float(range)/step)        `lengthOf` through an exact binary32 emulation `f32Round` (slice.hpp:473, 992;
                                    platform/math/constexpr.hpp `constexpr_ceil<int>`)
    compute_index (slice.hpp:106)  `computeIndex`
    shape_slice / slice            `shapeSlice` / `sliceIdx`               (packed: variadic / tuple of typed parts)
    shape_dynamic_slice / dynamic_slice   `shapeDynamicSlice` / `dynamicSlice`   (list of either / array<int,3>)
    view::slice(array, s...)       `ctadCollapse` (the `nmtools_tuple{slices...}` copy-deduction), `sliceView`

  Machine arithmetic.  The harness instantiates the functions as the views do: shape and indices are `size_t`
  containers, slice parts are `int`.  Values are modelled as `Int`; `u64` / `i32` are the conversions the C++ performs
  (`size_t` arithmetic wraps mod 2^64, `static_cast<int>` / `promote_index_t<int,size_t> = int` truncate to 32 bit).
  `none` = the C++ has undefined behaviour or throws (float → int overflow, division by zero, reading past the shape,
  negative resize); everything else is the value the code computes, garbage included.

  Core Lean only (linked into the driver).
-/
namespace NmVerif.Slice

/-- one part of a basic index.  `range2` is the two-part tuple `{start, stop}` (its step is `None`). -/
inductive Entry where
  | int (k : Int)
  | ellipsis
  | range (start stop step : Option Int)
  | range2 (start stop : Option Int)
  deriving Repr, DecidableEq, Inhabited

/-! ### machine integers -/

def u64 (x : Int) : Int := x % 18446744073709551616
def i32 (x : Int) : Int := (x + 2147483648) % 4294967296 - 2147483648
def absI (x : Int) : Int := if x < 0 then -x else x

/-! ### compute_range / compute_step -/

/-- the `stop` lambda of `compute_range`: `None ↦ si`, else `min(stop_, (int)si)` (stop_type = int) -/
def stopForRange (si : Int) : Option Int → Int
  | none => si
  | some sp => if sp < i32 si then sp else i32 si

/-- `compute_range(si, start, stop, step)`; the value of the C++ result (a `size_t` for the branches with a `None`
    bound, an `int` when both bounds are integers). -/
def computeRange (si : Int) (start stop step : Option Int) : Int :=
  let sp := stopForRange si stop
  match start, stop with
  | none, none => si
  | some st, none =>
    match step with
    | some k => u64 (if k < 0 ∧ st ≥ 0 then st + 1 else si - st)
    | none => u64 (si - st)
  | none, some sp_ => u64 (if sp_ < 0 then si + sp_ else sp)
  | some st, some _ =>
    i32 (if sp < 0 ∧ st < 0 then (si - absI sp) - (si - absI st)
         else if sp < 0 ∧ st ≥ 0 then (si - absI sp) - st
         else if sp ≥ 0 ∧ st < 0 then sp - (si - absI st)
         else if sp > st then sp - st else st - sp)

/-- `compute_step`: `None ↦ 1`, else `|step|` -/
def computeStep : Option Int → Int
  | none => 1
  | some k => absI k

/-! ### binary32 emulation of `ceil(float(range) / step)` -/

/-- round half to even: `m + r/d` with `0 ≤ r < d` -/
def rhe (m r d : Nat) : Nat := if 2 * r > d ∨ (2 * r = d ∧ m % 2 = 1) then m + 1 else m

/-- `(float)a` for a non-negative integer `a < 2^64`, as an exact integer value -/
def f32OfNat (a : Nat) : Nat :=
  if a < 16777216 then a else
  let e := a.log2 - 23
  rhe (a / 2 ^ e) (a % 2 ^ e) (2 ^ e) * 2 ^ e

/-- least `t` (searched upwards from `t`) with `2^23 ≤ ⌊x·2^t / k⌋` -/
def findT (x k : Nat) : Nat → Nat → Nat
  | 0, t => t
  | fuel + 1, t => if x * 2 ^ t / k ≥ 8388608 then t else findT x k fuel (t + 1)

/-- binary32 quotient `fl(x / k)` for `0 < x`, `x / k < 2^24`: the pair `(m, t)` stands for `m / 2^t` -/
def f32DivSmall (x k : Nat) : Nat × Nat :=
  let t := findT x k 64 0
  (rhe (x * 2 ^ t / k) (x * 2 ^ t % k) k, t)

/-- binary32 quotient `fl(x / k)` for `x / k ≥ 2^24` (an integer) -/
def f32DivBig (x k : Nat) : Nat :=
  let e := (x / k).log2 - 23
  let d := k * 2 ^ e
  rhe (x / d) (x % d) d * 2 ^ e

/-- `⌈fl(x / k)⌉` -/
def f32DivCeil (x k : Nat) : Nat :=
  if x = 0 then 0
  else if x / k < 16777216 then
    let q := f32DivSmall x k
    (q.1 + 2 ^ q.2 - 1) / 2 ^ q.2
  else f32DivBig x k

/-- `⌊fl(x / k)⌋` -/
def f32DivFloor (x k : Nat) : Nat :=
  if x = 0 then 0
  else if x / k < 16777216 then
    let q := f32DivSmall x k
    q.1 / 2 ^ q.2
  else f32DivBig x k

/-- `static_cast<size_type>(constexpr_ceil<int>(static_cast<float>(s) / step))` for a range `s` (unsigned or int value)
    and `step = compute_step(..)`.  `none`: division by zero or float → int conversion out of range (UB), or a step that
    is not exactly representable (not modelled). -/
def lengthOf (s : Int) (k : Int) : Option Int :=
  if k ≤ 0 ∨ k ≥ 16777216 then none else
  if s ≥ 0 then
    let c := f32DivCeil (f32OfNat s.toNat) k.toNat
    if c < 2147483648 then some (c : Int) else none
  else
    let c := f32DivFloor (f32OfNat (-s).toNat) k.toNat   -- (int) truncates towards zero; `f > i` is false for negative f
    if c ≤ 2147483648 then some (u64 (-(c : Int))) else none

/-- extent of the sliced axis as `shape_slice` / `shape_dynamic_slice` compute it -/
def sliceLen (si : Int) (start stop step : Option Int) : Option Int :=
  lengthOf (computeRange si start stop step) (computeStep step)

/-! ### compute_index -/

/-- the `stop` lambda of `compute_index`: clipped into `[-si, si]` in `int` -/
def stopForIndex (si : Int) : Option Int → Int
  | none => si
  | some sp =>
    let s := if sp < i32 si then sp else i32 si
    if s > i32 (-si) then s else i32 (-si)

/-- `compute_index(indices, si, start, stop, step, i_i)` with `size_t` indices: source index of destination index `i` -/
def computeIndex (si : Int) (start stop step : Option Int) (i : Int) : Int :=
  let sp := stopForIndex si stop
  u64 (match start, stop, step with
  | none, none, none => i
  | some st, none, none => (if st ≥ 0 then st else sp - st) + i
  | some st, some _, none =>
    (if st ≥ 0 ∧ sp > 0 then st
     else if st < 0 ∧ sp > 0 then sp + st
     else if st ≥ 0 ∧ sp < 0 then st
     else si + st) + i
  | some st, some _, some k =>
    (if st ≥ 0 ∧ sp ≥ 0 ∧ k < 0 then (if sp > 0 then sp - 1 else st)
     else if st < 0 ∧ sp > 0 ∧ k < 0 then sp + st
     else if st ≥ 0 ∧ sp < 0 ∧ k < 0 then st
     else if st < 0 ∧ sp < 0 ∧ k < 0 then si + st - 1
     else if st ≥ 0 ∧ sp > 0 ∧ k > 0 then st
     else if st < 0 ∧ sp > 0 ∧ k > 0 then sp + st
     else if st ≥ 0 ∧ sp < 0 ∧ k > 0 then st
     else si + st) + i * k
  | none, some _, none => i
  | none, some _, some k =>
    (if sp > 0 ∧ k > 0 then 0 else if sp > 0 ∧ k < 0 then si else 0) + i * k
  | none, none, some k => (if k < 0 then si - 1 else 0) + i * k
  | some st, none, some k =>
    (if st ≥ 0 ∧ k > 0 then st
     else if st ≥ 0 ∧ k < 0 then st
     else if st < 0 ∧ k > 0 then si + st
     else st) + i * k)

/-- integer entry: `slice < 0 ? si - abs(slice) : slice` in `size_t` -/
def intIndex (si : Int) (k : Int) : Int := u64 (if k < 0 then si - absI k else k)

/-! ### per-entry helpers -/

def Entry.isInt : Entry → Bool
  | .int _ => true
  | _ => false

def Entry.isEllipsis : Entry → Bool
  | .ellipsis => true
  | _ => false

def numInt (es : List Entry) : Nat := (es.filter Entry.isInt).length

/-- extent produced by a range entry -/
def Entry.len (si : Nat) : Entry → Option Int
  | .range a b c => sliceLen si a b c
  | .range2 a b => sliceLen si a b none
  | _ => none

/-- source index produced by a range entry -/
def Entry.idx (si : Nat) (i : Nat) : Entry → Int
  | .range a b c => computeIndex si a b c i
  | .range2 a b => computeIndex si a b none i
  | _ => 0

/-- pad a computed prefix with the value-initialised (zero) tail of the result container; `none` when the prefix is
    longer than the container (the C++ wrote past the end) -/
def padZeros (len : Nat) (l : List Nat) : Option (List Nat) :=
  if l.length ≤ len then some (l ++ List.replicate (len - l.length) 0) else none

/-! ### packed encoding: shape_slice / slice -/

/-- the `template_for` loop of `shape_slice`; `nEll` = number of axes an ellipsis takes, `sh` = shape from the active
    shape index on -/
def shapeGo (nEll : Nat) : List Nat → List Entry → Option (List Nat)
  | _, [] => some []
  | [], _ :: _ => none      -- `size_t si = at(shape, s_i)` is read for every entry, also for an ellipsis taking no axis
  | sh, .ellipsis :: es =>
    if nEll ≤ sh.length then (shapeGo nEll (sh.drop nEll) es).map (sh.take nEll ++ ·) else none
  | _ :: t, .int _ :: es => shapeGo nEll t es
  | si :: t, e :: es =>
    match e.len si with
    | some l => (shapeGo nEll t es).map (l.toNat :: ·)
    | none => none

/-- `index::shape_slice(shape, slices...)` -/
def shapeSlice (shape : List Nat) (es : List Entry) : Option (List Nat) :=
  let dim := shape.length
  if numInt es > dim then none                        -- res.resize(dim - N_INT) with a wrapped size: length_error
  else if es.length - 1 > dim then none               -- ellipsis count dim-(N-1) wraps
  else (shapeGo (dim - (es.length - 1)) shape es).bind (padZeros (dim - numInt es))

/-- the `template_for` loop of `slice` -/
def idxGo (nEll : Nat) : List Nat → List Nat → List Entry → Option (List Nat)
  | _, _, [] => some []
  | [], _, _ :: _ => none   -- `size_t si = at(shape, s_i)` is read for every entry
  | sh, ix, .ellipsis :: es =>
    if nEll ≤ sh.length ∧ nEll ≤ ix.length then
      (idxGo nEll (sh.drop nEll) (ix.drop nEll) es).map (ix.take nEll ++ ·)
    else none
  | si :: t, ix, .int k :: es => (idxGo nEll t ix es).map ((intIndex si k).toNat :: ·)
  | _ :: _, [], _ :: _ => none
  | si :: t, i :: ix, e :: es => (idxGo nEll t ix es).map ((e.idx si i).toNat :: ·)

/-- `index::slice(indices, shape, slices...)` -/
def sliceIdx (shape : List Nat) (es : List Entry) (ix : List Nat) : Option (List Nat) :=
  let dim := shape.length
  if es.length - 1 > dim then none
  else (idxGo (dim - (es.length - 1)) shape ix es).bind (padZeros dim)

/-! ### dynamic encoding: shape_dynamic_slice / dynamic_slice (counter based loops over a run-time list) -/

structure ShapeSt where
  res : List Nat      -- entries written so far (res_i = res.length)
  shp : Nat           -- shp_i
  deriving Repr

/-- one iteration of the `for slc_i` loop of `shape_dynamic_slice` -/
def shapeDynStep (shape : List Nat) (nEll : Nat) (st : Option ShapeSt) (e : Entry) : Option ShapeSt :=
  match st with
  | none => none
  | some s =>
    match e with
    | .ellipsis =>
      if s.shp + nEll ≤ shape.length then some ⟨s.res ++ (shape.drop s.shp).take nEll, s.shp + nEll⟩ else none
    | .int _ => some ⟨s.res, s.shp + 1⟩
    | e =>
      match shape[s.shp]? with
      | none => none
      | some si =>
        match e.len si with
        | some l => some ⟨s.res ++ [l.toNat], s.shp + 1⟩
        | none => none

/-- `index::shape_dynamic_slice(shape, slices)` -/
def shapeDynamicSlice (shape : List Nat) (es : List Entry) : Option (List Nat) :=
  let dim := shape.length
  if numInt es > dim then none
  else if es.length - 1 > dim then none
  else ((es.foldl (shapeDynStep shape (dim - (es.length - 1))) (some ⟨[], 0⟩)).map (·.res)).bind (padZeros (dim - numInt es))

structure IdxSt where
  res : List Nat
  shp : Nat
  ind : Nat
  deriving Repr

/-- one iteration of the loop of `dynamic_slice` -/
def idxDynStep (shape ix : List Nat) (nEll : Nat) (st : Option IdxSt) (e : Entry) : Option IdxSt :=
  match st with
  | none => none
  | some s =>
    match e with
    | .ellipsis =>
      if s.shp + nEll ≤ shape.length ∧ s.ind + nEll ≤ ix.length then
        some ⟨s.res ++ (ix.drop s.ind).take nEll, s.shp + nEll, s.ind + nEll⟩
      else none
    | .int k =>
      match shape[s.shp]? with
      | none => none
      | some si => some ⟨s.res ++ [(intIndex si k).toNat], s.shp + 1, s.ind⟩
    | e =>
      match shape[s.shp]?, ix[s.ind]? with
      | some si, some i => some ⟨s.res ++ [(e.idx si i).toNat], s.shp + 1, s.ind + 1⟩
      | _, _ => none

/-- `index::dynamic_slice(indices, shape, slices)` -/
def dynamicSlice (shape : List Nat) (es : List Entry) (ix : List Nat) : Option (List Nat) :=
  let dim := shape.length
  if es.length - 1 > dim then none
  else ((es.foldl (idxDynStep shape ix (dim - (es.length - 1))) (some ⟨[], 0, 0⟩)).map (·.res)).bind (padZeros dim)

/-! ### view level -/

/-- `view::slice(array, slices...)` packs with `nmtools_tuple{slices...}`: with exactly one argument that is itself a
    tuple of integers, class template argument deduction copies it, and its parts are read as integer indices. -/
def ctadCollapse : List Entry → List Entry
  | [.range (some a) (some b) (some c)] => [.int a, .int b, .int c]
  | [.range2 (some a) (some b)] => [.int a, .int b]
  | es => es

/-- the slice indexing view (`view::slice_t`): `none` = construction fails (UB / exception in the shape function) -/
def sliceView (src : Shape) (es : List Entry) : Option IxView :=
  (shapeSlice src es).map (fun dst => ⟨src, dst, fun d => sliceIdx src es d⟩)

def dynamicSliceView (src : Shape) (es : List Entry) : Option IxView :=
  (shapeDynamicSlice src es).map (fun dst => ⟨src, dst, fun d => dynamicSlice src es d⟩)

/-! ## SPEC — Python `slice.indices` (CPython `PySlice_Unpack` + `PySlice_AdjustIndices`) and NumPy basic indexing -/

/-- one bound after `PySlice_AdjustIndices`; `none` (omitted) adjusts to what the ±PY_SSIZE_T_MAX default clamps to -/
def pyAdjust (n step : Int) (dfltNeg dfltPos : Int) : Option Int → Int
  | none => if step < 0 then dfltNeg else dfltPos
  | some b =>
    if b < 0 then
      (if b + n < 0 then (if step < 0 then -1 else 0) else b + n)
    else if b ≥ n then (if step < 0 then n - 1 else n)
    else b

/-- `slice(start, stop, step).indices(n)`: `(start', stop', step')`; `none` = ValueError (step 0) -/
def pyIndices (n : Int) (start stop step : Option Int) : Option (Int × Int × Int) :=
  let k : Int := match step with | none => 1 | some k => k
  if k = 0 then none
  else some (pyAdjust n k (n - 1) 0 start, pyAdjust n k (-1) n stop, k)

/-- `len(range(start', stop', step'))` as `PySlice_AdjustIndices` returns it -/
def pyLen (st sp k : Int) : Int :=
  if k < 0 then (if sp < st then (st - sp - 1) / (-k) + 1 else 0)
  else (if st < sp then (sp - st - 1) / k + 1 else 0)

/-- reference for one range on an axis of extent `n`: `(length, first, step)`; element `j` is `first + j*step` -/
def pyAxis (n : Nat) (start stop step : Option Int) : Option (Nat × Int × Int) :=
  match pyIndices n start stop step with
  | none => none
  | some (st, sp, k) => some ((pyLen st sp k).toNat, st, k)

/-- what one entry means on its axis: NumPy -/
inductive AxisSel where
  | pick (i : Nat)                      -- integer: axis dropped, source index i
  | walk (len : Nat) (first step : Int) -- range: axis kept
  deriving Repr, DecidableEq

def specEntry (n : Nat) : Entry → Option AxisSel
  | .int k => if -(n : Int) ≤ k ∧ k < n then some (.pick (if k < 0 then k + n else k).toNat) else none   -- IndexError otherwise
  | .range a b c => (pyAxis n a b c).map fun (l, f, k) => .walk l f k
  | .range2 a b => (pyAxis n a b none).map fun (l, f, k) => .walk l f k
  | .ellipsis => none

/-- a full slice `:` of an axis of extent `n` -/
def fullSel (n : Nat) : AxisSel := .walk n 0 1

/-- entries against axes, left to right: the ellipsis stands for `nEll` full slices, axes left over at the end are
    kept whole (NumPy appends `:`), an entry without an axis is an IndexError -/
def specGo (nEll : Nat) : List Nat → List Entry → Option (List AxisSel)
  | sh, [] => some (sh.map fullSel)
  | sh, .ellipsis :: es =>
    if nEll ≤ sh.length then (specGo nEll (sh.drop nEll) es).map ((sh.take nEll).map fullSel ++ ·) else none
  | [], _ :: _ => none
  | n :: t, e :: es =>
    match specEntry n e with
    | some s => (specGo nEll t es).map (s :: ·)
    | none => none

def numEllipsis (es : List Entry) : Nat := (es.filter Entry.isEllipsis).length

/-- NumPy basic indexing `a[es]` on shape `shape`: per-axis selections.  `none`: more than one ellipsis or too many
    indices (IndexError).  The ellipsis expands to `dim - (number of other entries)` full slices. -/
def specSlice (shape : List Nat) (es : List Entry) : Option (List AxisSel) :=
  let nAx := es.length - numEllipsis es
  if numEllipsis es > 1 ∨ nAx > shape.length then none
  else specGo (shape.length - nAx) shape es

def specShape : List AxisSel → List Nat
  | [] => []
  | .pick _ :: t => specShape t
  | .walk l _ _ :: t => l :: specShape t

/-- source multi-index of destination multi-index `d` (in the reference shape) -/
def specIdx : List AxisSel → List Nat → Option (List Nat)
  | [], [] => some []
  | .pick i :: t, d => (specIdx t d).map (i :: ·)
  | .walk _ f k :: t, j :: d => (specIdx t d).map ((f + j * k).toNat :: ·)
  | _, _ => none

/-- the reference as an indexing view -/
def specView (src : Shape) (es : List Entry) : Option IxView :=
  (specSlice src es).map fun sels => ⟨src, specShape sels, specIdx sels⟩

end NmVerif.Slice
