// C04 harness, part D: triangular / masked / resampled views (view level, dynamic arrays)
//
// Operands: first  A = mk(shape)          data[k] = k
//           second X = mk(shape2, 1000)   data[k] = 1000 + k
//           third  Y = mk(shape3, 2000)   data[k] = 2000 + k
// Answers : `ok shape=<dims> data=<elements, C order>` | `nothing` | `oob` | `unsupported` | `bad-args` |
//           `ok shape=<dims> data=huge` (a result extent wrapped around, nothing is enumerated) | `unknown-op`
//
// Request syntax (all values runtime: int / std::vector<int> / nm::None):
//   tril      shape=<dims> k=<int>      view::tril(mk(shape, 1), k)   } source data[i] = i+1: the fill value is
//   triu      shape=<dims> k=<int>      view::triu(mk(shape, 1), k)   } hard-wired to 0, so 0 = fill, v>0 = source v-1
//   tri       n=<int> m=<int>|None k=<int>     view::tri(n, m, k, int32)      (0/1 matrix)
//   eye       n=<int> m=<int>|None k=<int>     view::eye(n, m, k, int32)      (0/1 matrix)
//   identity  n=<int>                          view::identity(n, int32)
//   where     shape=<dims> cond=<0/1 list, prod(shape) entries, C order> shape2=<dims> shape3=<dims>
//                                              view::where(C, X, Y), C = int array of `shape` holding cond
//   compress  shape=<dims> cond=<0/1 list> axis=<int>|None      view::compress(cond, A, axis)
//   resize    shape=<dims> to=<dims>                            view::resize(A, to)
//   expand    shape=<dims> axis=<int>   spacing=<int>           view::expand(A, axis, spacing, -1)
//   expand    shape=<dims> alist=<ints> spacing=<int>           view::expand(A, alist, spacing, -1)
//   expand    shape=<dims> alist=<ints> slist=<ints>            view::expand(A, alist, slist, -1)
#include "nmtools/array/view/tril.hpp"
#include "nmtools/array/view/triu.hpp"
#include "nmtools/array/view/tri.hpp"
#include "nmtools/array/view/eye.hpp"
#include "nmtools/array/view/identity.hpp"
#include "nmtools/array/view/where.hpp"
#include "nmtools/array/view/compress.hpp"
#include "nmtools/array/view/resize.hpp"
#include "nmtools/array/view/expand.hpp"
#include "c04_bc.hpp"
using namespace c04;

std::string handle(const std::string& op, const Args& a) {
    if (op == "tri" || op == "eye") {
        int n = (int)integer(a, "n"), k = (int)integer(a, "k");
        if (is_none(a, "m")) return op == "tri" ? sdump(view::tri(n, nm::None, k, nm::int32)) : sdump(view::eye(n, nm::None, k, nm::int32));
        int m = (int)integer(a, "m");
        return op == "tri" ? sdump(view::tri(n, m, k, nm::int32)) : sdump(view::eye(n, m, k, nm::int32));
    }
    if (op == "identity") return sdump(view::identity((int)integer(a, "n"), nm::int32));
    auto s = nats(a, "shape");
    if (op == "tril") { auto A = mk(s, 1); return sdump(view::tril(A, (int)integer(a, "k"))); }
    if (op == "triu") { auto A = mk(s, 1); return sdump(view::triu(A, (int)integer(a, "k"))); }
    if (op == "where") {
        auto C = mk(s); auto c = intsi(a, "cond");
        if (c.size() != (size_t)nm::size(C)) return "bad-args";
        for (size_t i = 0; i < c.size(); i++) C.data()[i] = c[i];
        auto X = mk(nats(a, "shape2"), 1000); auto Y = mk(nats(a, "shape3"), 2000);
        return sdump(view::where(C, X, Y));
    }
    if (op == "compress") {
        auto A = mk(s); auto c = intsi(a, "cond");
        if (is_none(a, "axis")) return sdump1(view::compress(c, A, nm::None));
        return sdump(view::compress(c, A, (int)integer(a, "axis")));
    }
    if (op == "resize") { auto A = mk(s); return sdump(view::resize(A, nats(a, "to"))); }
    if (op == "expand") {
        auto A = mk(s);
        if (has(a, "axis")) return sdump(view::expand(A, (int)integer(a, "axis"), (int)integer(a, "spacing"), -1));
        if (has(a, "slist")) return sdump(view::expand(A, intsi(a, "alist"), intsi(a, "slist"), -1));
        return sdump(view::expand(A, intsi(a, "alist"), (int)integer(a, "spacing"), -1));
    }
    return "unknown-op";
}
