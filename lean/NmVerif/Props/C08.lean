import NmVerif.Index.Reduce
namespace NmVerif.Props.C08
open NmVerif NmVerif.Reduce

theorem placeholder : True := trivial

end NmVerif.Props.C08
