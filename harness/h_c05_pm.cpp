// C05 harness TU: packed (variadic / tuple) encoding with 2..4 slice entries.  The None-pattern of every entry is part of
// the C++ type, so the entry kinds are dispatched onto template instantiations: per position one of
//   i<k> (integer) | e (ellipsis, at most one) | a:b:c (all-int range) | N:N:c (None,None,int)
// (single-entry requests with all 14 kinds are served by h_c05_p1, the dynamic encodings by h_c05_dyn).
#define C05_FEW_LEVELS
#include "c05_common.hpp"
using namespace c05;

// -DC05_LEN=4 -DC05_FIRST=<kind of the first entry>: one TU per first-entry kind for the 4-entry requests (compile time)
#ifndef C05_LEN
#define C05_LEN 0
#endif
#ifndef C05_FIRST
#define C05_FIRST -1
#endif

template <bool HasEll, size_t Len, typename... Acc>
static std::string build(const std::string& level, const uvec& src, const std::vector<Entry>& es, const Acc&... acc) {
    constexpr size_t pos = sizeof...(Acc);
    if constexpr (pos == Len) {
        return run_packed(level, src, acc...);
    } else {
        const Entry& e = es[pos];
        switch (e.kind) {
            case K_INT:    return build<HasEll, Len>(level, src, es, acc..., make<K_INT>(e));
            case K_R3:     return build<HasEll, Len>(level, src, es, acc..., make<K_R3>(e));
            case K_R3 + 3: return build<HasEll, Len>(level, src, es, acc..., make<K_R3 + 3>(e));
            case K_ELL:
                if constexpr (!HasEll) return build<true, Len>(level, src, es, acc..., make<K_ELL>(e));
                else return "bad-args";
        }
        return "bad-args";
    }
}

std::string handle(const std::string& op, const Args& a) {
    if (op != "slice") return "unknown-op";
    auto enc = get(a, "enc"); auto level = get(a, "level");
    auto src = nats(a, "shape"); auto es = parse_slices(get(a, "sl"));
    uvec at_v; if (has(a, "at")) { at_v = nats(a, "at"); at_arg() = &at_v; } else at_arg() = nullptr;
    if (enc != "packed") return "bad-args";
#if C05_LEN == 4
    if (es.size() != 4 || es[0].kind != C05_FIRST) return "bad-args";
    constexpr bool ell = (C05_FIRST == K_ELL);
    return build<ell, 4>(level, src, es, make<C05_FIRST>(es[0]));
#else
    switch (es.size()) {
        case 2: return build<false, 2>(level, src, es);
        case 3: return build<false, 3>(level, src, es);
    }
    return "bad-args";
#endif
}
