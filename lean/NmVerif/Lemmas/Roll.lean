import NmVerif.Index.Roll
import NmVerif.Lemmas.SelCommon
import NmVerif.Lemmas.Addressing
/-
  SPEC of np.roll and proofs that the MODEL meets it for every shift (positive extents).
  NumPy: `np.roll(a, shift, axis=k)[…, x, …] = a[…, (x - shift) mod n, …]` (`n` the extent; Python's non-negative mod);
         axis None rolls the flattened array and restores the shape.
-/
namespace NmVerif.Index

/-- NumPy: source position of destination position `x` on an axis of extent `n` rolled by `shift` -/
def rollSrc (n x : Nat) (shift : Int) : Nat := (((x : Int) - shift) % (n : Int)).toNat

theorem rollSrc_lt (n x : Nat) (shift : Int) (hn : 0 < n) : rollSrc n x shift < n := by
  unfold rollSrc
  have h1 := Int.emod_nonneg ((x : Int) - shift) (by omega : (n : Int) ≠ 0)
  have h2 := Int.emod_lt_of_pos ((x : Int) - shift) (by omega : (0 : Int) < n)
  omega

/-- C++ `%` followed by the sign correction is the mathematical modulo, for every shift (extent positive) -/
theorem normalizeRollIndex_eq (n : Nat) (a : Int) (hn : 0 < n) :
    normalizeRollIndex a n = a % (n : Int) := by
  have hpos : (0 : Int) < n := by omega
  have h1 := Int.emod_nonneg a (by omega : (n : Int) ≠ 0)
  have h2 := Int.emod_lt_of_pos a hpos
  have h := @Int.tmod_eq_emod a (n : Int)
  simp only [normalizeRollIndex]
  by_cases hc : 0 ≤ a ∨ (n : Int) ∣ a
  · rw [if_pos hc] at h
    rw [h]
    split <;> omega
  · rw [if_neg hc] at h
    have habs : (n : Int).natAbs = n := by omega
    rw [habs] at h
    rw [h]
    split <;> omega

theorem i2u_normalizeRollIndex (n x : Nat) (shift : Int) (hn : 0 < n) :
    i2u (normalizeRollIndex ((x : Int) - shift) n) = rollSrc n x shift := by
  rw [normalizeRollIndex_eq n _ hn, i2u_of_nonneg _ (Int.emod_nonneg _ (by omega))]
  rfl

/-- one accepted axis: the loop writes `rollSrc` at the normalised position -/
theorem indexRollU_single (s : Shape) (d : Idx) (shift axis : Int) (k : Nat)
    (hk : normalizeAxis1 axis s.length = some k) (hd : InShape d s) :
    indexRollU s d [shift] [axis] = some (d.set k (rollSrc (s[k]'(normalizeAxis1_some axis _ k hk).1) (d[k]'(by
      have := hd.length_eq; have := (normalizeAxis1_some axis _ k hk).1; omega)) shift)) := by
  obtain ⟨hkn, hpos⟩ := normalizeAxis1_some axis _ k hk
  have hl := hd.length_eq
  have hkd : k < d.length := by omega
  have hxk : d[k] < s[k] := ((inShape_iff_forall _ _).1 hd).2 k hkd hkn
  simp only [indexRollU, indexRollLoop, atPy, hpos, hl, Option.bind_some]
  simp only [List.getElem?_eq_getElem hkn, List.getElem?_eq_getElem hkd, setPy, hl, hpos]
  rw [i2u_normalizeRollIndex s[k] d[k] shift (by omega)]

end NmVerif.Index

namespace NmVerif.Index

/-- `ks` are the normalised (`normalize_axis`) positions of the accepted axis list `axes` of an array of rank `n` -/
inductive AxesNorm (n : Nat) : List Int → List Nat → Prop
  | nil : AxesNorm n [] []
  | cons {ax : Int} {k : Nat} {axes : List Int} {ks : List Nat} :
      normalizeAxis1 ax n = some k → AxesNorm n axes ks → AxesNorm n (ax :: axes) (k :: ks)

/-- NumPy adds up the shifts of an axis that is listed more than once: total shift of axis `j` -/
def shiftSum : List Nat → List Int → Nat → Int
  | k :: ks, sh :: shs, j => (if k = j then sh else 0) + shiftSum ks shs j
  | _, _, _ => 0

theorem rollSrc_zero (n x : Nat) (h : x < n) : rollSrc n x 0 = x := by
  unfold rollSrc
  rw [Int.sub_zero, Int.emod_eq_of_lt (by omega) (by omega)]
  simp

/-- rolling twice is rolling by the sum -/
theorem rollSrc_rollSrc (n x : Nat) (a b : Int) (hn : 0 < n) : rollSrc n (rollSrc n x a) b = rollSrc n x (a + b) := by
  unfold rollSrc
  have h1 := Int.emod_nonneg ((x : Int) - a) (by omega : (n : Int) ≠ 0)
  rw [Int.toNat_of_nonneg h1]
  congr 1
  rw [Int.sub_emod, Int.emod_emod_of_dvd _ (Int.dvd_refl _), ← Int.sub_emod]
  congr 1
  omega

/-- one step of the axis loop on accepted arguments: the partial result is rolled once more -/
theorem indexRollLoop_cons (s : Shape) (d : Idx) (ax : Int) (axes : List Int) (sh : Int) (shifts : List Int)
    (res : Idx) (hres : res.length = s.length) (k : Nat) (hk : normalizeAxis1 ax s.length = some k)
    (n y : Nat) (hn : s[k]? = some n) (hpos : 0 < n) (hy : res[k]? = some y) :
    indexRollLoop s d (ax :: axes) (sh :: shifts) res =
      indexRollLoop s d axes shifts (res.set k (rollSrc n y sh)) := by
  obtain ⟨hkn, hp⟩ := normalizeAxis1_some ax _ k hk
  simp only [indexRollLoop, atPy, hp, hres, Option.bind_some, hn, hy, setPy]
  rw [i2u_normalizeRollIndex n y sh hpos]

/-- the axis loop on accepted axes (repeats allowed): coordinate `j` ends up rolled by the SUM of the shifts listed
    for axis `j` (0 for an axis that is not listed) — NumPy's rule -/
theorem indexRollLoop_sum (s : Shape) (d : Idx) (hd : InShape d s) :
    ∀ (axes : List Int) (ks : List Nat) (shifts : List Int) (res : Idx) (acc : Nat → Int),
      AxesNorm s.length axes ks →
      shifts.length = axes.length →
      res.length = d.length →
      (∀ j, j < d.length → ∃ n x : Nat, s[j]? = some n ∧ d[j]? = some x ∧ res[j]? = some (rollSrc n x (acc j))) →
      ∃ r, indexRollLoop s d axes shifts res = some r ∧ r.length = d.length ∧
        ∀ j, j < d.length → ∃ n x : Nat, s[j]? = some n ∧ d[j]? = some x ∧
          r[j]? = some (rollSrc n x (acc j + shiftSum ks shifts j)) := by
  have hl := hd.length_eq
  intro axes
  induction axes with
  | nil =>
    intro ks shifts res acc hf _ hres hinv
    cases hf
    refine ⟨res, by simp [indexRollLoop], hres, ?_⟩
    intro j hj
    obtain ⟨n, x, h1, h2, h3⟩ := hinv j hj
    exact ⟨n, x, h1, h2, by simpa [shiftSum] using h3⟩
  | cons ax axes ih =>
    intro ks shifts res acc hf hlen hres hinv
    cases hf with
    | cons hk hf' =>
      rename_i k ks'
      cases shifts with
      | nil => simp at hlen
      | cons sh shifts' =>
        obtain ⟨hkn, _⟩ := normalizeAxis1_some ax _ k hk
        have hkd : k < d.length := by omega
        obtain ⟨n, x, hn, hx, hy⟩ := hinv k hkd
        have hxn : x < n := by
          have := ((inShape_iff_forall _ _).1 hd).2 k hkd hkn
          have e1 : s[k] = n := by simpa [hkn] using hn
          have e2 : d[k] = x := by simpa [hkd] using hx
          omega
        rw [indexRollLoop_cons s d ax axes sh shifts' res (by omega) k hk n _ hn (by omega) hy]
        rw [rollSrc_rollSrc n x (acc k) sh (by omega)]
        obtain ⟨r, hr, hrl, hspec⟩ := ih ks' shifts' (res.set k (rollSrc n x (acc k + sh)))
          (fun j => acc j + (if k = j then sh else 0)) hf' (by simpa using hlen) (by simpa using hres)
          (by
            intro j hj
            by_cases hkj : k = j
            · subst hkj
              refine ⟨n, x, hn, hx, ?_⟩
              rw [List.getElem?_set]
              simp [hres, hkd]
            · obtain ⟨n', x', h1, h2, h3⟩ := hinv j hj
              refine ⟨n', x', h1, h2, ?_⟩
              rw [List.getElem?_set]
              simp [hkj, h3])
        refine ⟨r, hr, hrl, ?_⟩
        intro j hj
        obtain ⟨n', x', h1, h2, h3⟩ := hspec j hj
        refine ⟨n', x', h1, h2, ?_⟩
        rw [h3]
        congr 2
        simp only [shiftSum]
        omega

end NmVerif.Index

namespace NmVerif.Index

theorem AxesNorm.length_eq {n : Nat} {axes : List Int} {ks : List Nat} (h : AxesNorm n axes ks) : ks.length = axes.length := by
  induction h with
  | nil => rfl
  | cons _ _ ih => simp [ih]

theorem shapeRoll_of_axesNorm (s : Shape) (axes : List Int) (ks : List Nat) (h : AxesNorm s.length axes ks) :
    shapeRoll s axes = some s := by
  have : axes.all (fun a => (normalizeAxis1 a s.length).isSome) = true := by
    induction h with
    | nil => rfl
    | cons hk _ ih => simp [hk, ih]
  simp [shapeRoll, this]

end NmVerif.Index
