// C15 harness (2/2): the same checked operations on FIXED-DIM sources (shape container std::array: the number of
// dimensions is a compile-time constant, the extents are run-time values) and operand mismatches of the linear-algebra
// views on dynamic sources; outcome = value | nothing | crash(kind, by the runner)
#include "nmtools/array/view/reshape.hpp"
#include "nmtools/array/view/transpose.hpp"
#include "nmtools/array/view/moveaxis.hpp"
#include "nmtools/array/view/swapaxes.hpp"
#include "nmtools/array/view/expand_dims.hpp"
#include "nmtools/array/view/broadcast_to.hpp"
#include "nmtools/array/view/concatenate.hpp"
#include "nmtools/array/view/matmul.hpp"
#include "nmtools/array/view/pad.hpp"
#include "nmtools/array/view/tile.hpp"
#include "nmtools/array/view/repeat.hpp"
#include "nmtools/array/view/roll.hpp"
#include "nmtools/array/view/sum.hpp"
#include "nmtools/array/view/dot.hpp"
#include "nmtools/array/view/inner.hpp"
#include "nmtools/array/view/vecdot.hpp"
#include "nmtools/array/view/tensordot.hpp"
#include "c15_common.hpp"

// unary operations on a source of any kind
template <typename X> static std::string unary(const std::string& op, const Args& a, const X& x) {
    if (op=="reshape")      { auto t = intsi(a,"to"); return outcome_eval(view::reshape(x, t)); }
    if (op=="transpose")    { auto ax = intsi(a,"axes"); return outcome_eval(view::transpose(x, ax)); }
    if (op=="moveaxis")     { auto s = intsi(a,"src"); auto d = intsi(a,"dst"); return outcome_eval(view::moveaxis(x, s, d)); }
    if (op=="swapaxes")     { int p = (int)integer(a,"a1"), q = (int)integer(a,"a2"); return outcome_eval(view::swapaxes(x, p, q)); }
    if (op=="expand_dims")  { auto ax = intsi(a,"axes"); return outcome_eval(view::expand_dims(x, ax)); }
    if (op=="broadcast_to") { auto t = nats(a,"to"); return outcome_eval(view::broadcast_to(x, t)); }
    if (op=="pad")          { auto w = intsi(a,"width"); return outcome_eval(view::pad(x, w, -1)); }
    if (op=="tile")         { auto r = intsi(a,"reps"); return outcome_eval(view::tile(x, r)); }
    if (op=="repeat")       { int ax = (int)integer(a,"axis");
                              if (has(a,"counts")) { auto c = intsi(a,"counts"); return outcome_eval(view::repeat(x, c, ax)); }
                              int r = (int)integer(a,"repeats"); return outcome_eval(view::repeat(x, r, ax)); }
    if (op=="roll")         { int sh = (int)integer(a,"shift"); int ax = (int)integer(a,"axis"); return outcome_eval(view::roll(x, sh, ax)); }
    if (op=="sum")          { if constexpr (meta::len_v<decltype(nm::shape(x))> >= 2) { int ax = (int)integer(a,"axis"); return outcome_eval(view::sum(x, ax)); }
                              else return "bad-args"; /* rank 1: the result is a number, not an array */ }
    if (op=="pipe_reshape_transpose") { auto t = intsi(a,"to"); return outcome_eval(view::transpose(view::reshape(x, t))); }
    return "unknown-op";
}
template <typename X> static std::string concat_rhs(const Args& a, const X& x, const uvec& s2) {
    // equal ranks only: operands of different fixed rank are rejected at compile time (static_assert in isequal)
    int ax = (int)integer(a,"axis");
    constexpr auto R = meta::len_v<decltype(nm::shape(x))>;
    if (s2.size()!=R) return "bad-args";
    return outcome_eval(view::concatenate(x, iota_fd<R>(s2, 1000), ax));
}
// matmul: operands of equal rank 2 or 3 (rank-1 operands of view::matmul are C16's finding matmul.v1-1d-operand; for
// fixed-dim operands of different rank na::eval deduces an output of the lhs rank and does not compile)
template <typename X> static std::string matmul_rhs(const X& x, const uvec& s2) {
    constexpr auto R = meta::len_v<decltype(nm::shape(x))>;
    if (s2.size()!=R) return "bad-args";
    return outcome_eval(view::matmul(x, iota_fd<R>(s2, 1)));
}

std::string handle(const std::string& op_, const Args& a) {
    auto shape = nats(a,"shape");
    // linear algebra on dynamic sources: operand mismatches
    if (op_=="dot" || op_=="inner" || op_=="vecdot" || op_=="tensordot") {
        nd_t x = iota(shape); nd_t y = iota(nats(a,"shape2"), 1);
        if (op_=="dot")    return outcome_eval(view::dot(x, y));
        if (op_=="inner")  return outcome_eval(view::inner(x, y));
        if (op_=="vecdot") return outcome_eval(view::vecdot(x, y));
        int n = (int)integer(a,"axes"); return outcome_eval(view::tensordot(x, y, n));
    }
    // fixed-dim sources: `fd_<op>`
    if (op_.rfind("fd_",0)!=0) return "unknown-op";
    std::string op = op_.substr(3);
    if (op=="concatenate") {
        auto s2 = nats(a,"shape2");
        switch (shape.size()) {
            case 1: return concat_rhs(a, iota_fd<1>(shape), s2);
            case 2: return concat_rhs(a, iota_fd<2>(shape), s2);
            case 3: return concat_rhs(a, iota_fd<3>(shape), s2);
        }
        return "bad-args";
    }
    if (op=="matmul") {
        auto s2 = nats(a,"shape2");
        switch (shape.size()) {
            case 2: return matmul_rhs(iota_fd<2>(shape), s2);
            case 3: return matmul_rhs(iota_fd<3>(shape), s2);
        }
        return "bad-args";
    }
    switch (shape.size()) {
        case 1: return unary(op, a, iota_fd<1>(shape));
        case 2: return unary(op, a, iota_fd<2>(shape));
        case 3: return unary(op, a, iota_fd<3>(shape));
    }
    return "bad-args";
}
