// C05 harness, shared part: request parsing, slice-entry kinds, packed (compile-time structure) and
// dynamic (list of either) dispatch onto the real index::/view:: entry points of $VERIF_REPO/include.
//
// request:  <op> enc=packed|dynP|dynA level=index|view shape=4,3 sl=<entry>;<entry>;...
//   entry:  e            Ellipsis
//           i<k>         integer k (drops the axis)
//           a:b:c        3-part range, each part an int or N (None)
//           a:b          2-part range (tuple{start,stop})
//   enc=packed : variadic / tuple encoding, None-pattern is part of the C++ type
//   enc=dynP   : nmtools_list< either<int, either<ellipsis_t, either<array<int,3>, tuple_P>>> >, every range entry of the
//                request must have the same None-pattern P (all-int ranges may be mixed in, they go as tuple_P when P is
//                the all-int pattern, else as nmtools_array<int,3>)
//   enc=dynA   : nmtools_list< either<int, either<ellipsis_t, array<int,3>>> > (all ranges all-int)
// answer:   ok shape=<dst shape> idx=<src index per dst index, row-major over dst shape>      (level=index)
//           ok shape=<dst shape> data=<flat source id per dst element>                        (level=view)
//           with at=<dst index>: idx=<src index of that one destination index>
//           idx=big  when the (possibly garbage) dst shape has more than 4096 elements
//           data=oob@<k> when the k-th element's source index leaves the source shape (element not read)
#pragma once
#include "nmtools/array/index/slice.hpp"
#include "nmtools/array/index/ndindex.hpp"
#include "nmtools/array/index/product.hpp"
#include "nmtools/array/view/slice.hpp"
#include "nmtools/array/view/mutable_slice.hpp"
#include "nmtools/array/ndarray.hpp"
#include "nmtools/utility/at.hpp"
#include "proto.hpp"
#include <array>
#include <vector>
#include <string>

namespace nm = nmtools; namespace ix = nmtools::index; namespace na = nmtools::array; namespace view = nmtools::view;
using namespace proto;

namespace c05 {

enum Kind { K_INT = 0, K_ELL = 1, K_R3 = 2 /* +mask 0..7 */, K_R2 = 10 /* +mask 0..3 */ };
// mask bit0: start None, bit1: stop None, bit2: step None

struct Entry { int kind; int a, b, c; };

inline bool parse_part(const std::string& s, int& v) { if (s == "N") return true; v = std::stoi(s); return false; }

inline std::vector<Entry> parse_slices(const std::string& s) {
    std::vector<Entry> r;
    if (s == "[]" || s.empty()) return r;
    for (auto& t : split(s, ';')) {
        Entry e{0, 0, 0, 0};
        if (t == "e") { e.kind = K_ELL; }
        else if (t.size() > 1 && t[0] == 'i') { e.kind = K_INT; e.a = std::stoi(t.substr(1)); }
        else {
            auto p = split(t, ':');
            if (p.size() == 3) {
                int m = 0;
                if (parse_part(p[0], e.a)) m |= 1;
                if (parse_part(p[1], e.b)) m |= 2;
                if (parse_part(p[2], e.c)) m |= 4;
                e.kind = K_R3 + m;
            } else if (p.size() == 2) {
                int m = 0;
                if (parse_part(p[0], e.a)) m |= 1;
                if (parse_part(p[1], e.b)) m |= 2;
                e.kind = K_R2 + m;
            } else throw bad_args("slice entry");
        }
        r.push_back(e);
    }
    return r;
}

// the slice object of a given kind, run-time integers inside a compile-time None-pattern
template <int K> inline auto make(const Entry& e) {
    using nm::None;
    if constexpr (K == K_INT) return (int)e.a;
    else if constexpr (K == K_ELL) return nm::Ellipsis;
    else if constexpr (K == K_R3 + 0) return nmtools_tuple<int, int, int>{e.a, e.b, e.c};
    else if constexpr (K == K_R3 + 1) return nmtools_tuple<nm::none_t, int, int>{None, e.b, e.c};
    else if constexpr (K == K_R3 + 2) return nmtools_tuple<int, nm::none_t, int>{e.a, None, e.c};
    else if constexpr (K == K_R3 + 3) return nmtools_tuple<nm::none_t, nm::none_t, int>{None, None, e.c};
    else if constexpr (K == K_R3 + 4) return nmtools_tuple<int, int, nm::none_t>{e.a, e.b, None};
    else if constexpr (K == K_R3 + 5) return nmtools_tuple<nm::none_t, int, nm::none_t>{None, e.b, None};
    else if constexpr (K == K_R3 + 6) return nmtools_tuple<int, nm::none_t, nm::none_t>{e.a, None, None};
    else if constexpr (K == K_R3 + 7) return nmtools_tuple<nm::none_t, nm::none_t, nm::none_t>{None, None, None};
    else if constexpr (K == K_R2 + 0) return nmtools_tuple<int, int>{e.a, e.b};
    else if constexpr (K == K_R2 + 1) return nmtools_tuple<nm::none_t, int>{None, e.b};
    else if constexpr (K == K_R2 + 2) return nmtools_tuple<int, nm::none_t>{e.a, None};
    else /* K_R2+3 */ return nmtools_tuple<nm::none_t, nm::none_t>{None, None};
}

template <typename V> inline std::string fmtn(const V& v) {
    return fmt_with(v, [](const auto& x) { return (size_t)nm::len(x); }, [](const auto& x, size_t i) { return nm::at(x, i); });
}
template <typename V> inline uvec to_uvec(const V& v) {
    uvec r; size_t n = nm::len(v); for (size_t i = 0; i < n; i++) r.push_back((size_t)nm::at(v, i)); return r;
}
inline std::string fmtu(const uvec& v) {
    if (v.empty()) return "[]";
    std::ostringstream o; for (size_t i = 0; i < v.size(); i++) { if (i) o << ','; o << (unsigned long long)v[i]; } return o.str();
}
// number of elements of a (possibly garbage) shape, saturating
inline size_t numel_sat(const uvec& s, size_t cap) {
    for (auto e : s) if (e == 0) return 0;
    size_t p = 1; for (auto e : s) { if (e > cap || p > cap) return cap + 1; p *= e; } return p;
}
inline uvec unravel(size_t k, const uvec& s) {
    uvec r(s.size()); for (size_t i = s.size(); i-- > 0;) { r[i] = k % s[i]; k /= s[i]; } return r;
}

constexpr size_t MAX_ELEMS = 4096;

// index level: shape function + index function for every destination index.
//   shape_f() -> dst shape container ; index_f(dst idx vector) -> src index container
// `at` (optional request argument at=<dst index>): only that destination index is mapped (large extents)
inline const uvec*& at_arg() { static const uvec* p = nullptr; return p; }
template <typename SF, typename IF>
inline std::string answer_index(const uvec& /*src*/, SF shape_f, IF index_f) {
    auto dst = to_uvec(shape_f());
    std::string out = "ok shape=" + fmtu(dst) + " idx=";
    if (at_arg()) return out + fmtu(to_uvec(index_f(*at_arg())));
    size_t n = numel_sat(dst, MAX_ELEMS);
    if (n > MAX_ELEMS) return out + "big";
    if (n == 0) return out + "[]";
    for (size_t k = 0; k < n; k++) {
        uvec d = unravel(k, dst);
        if (k) out += ';';
        out += fmtu(to_uvec(index_f(d)));
    }
    return out;
}

using array_t = na::ndarray_t<std::vector<int>, std::vector<size_t>>;

inline array_t iota_array(const uvec& src) {
    array_t a; a.resize(src);
    size_t n = nm::size(a);
    for (size_t k = 0; k < n; k++) a.data()[k] = (int)k;
    return a;
}
inline bool in_shape(const uvec& i, const uvec& s) {
    if (i.size() != s.size()) return false;
    for (size_t k = 0; k < i.size(); k++) if (i[k] >= s[k]) return false;
    return true;
}

// view level: v = view over iota array; v.indexer.indices(d) is the source index operator() is going to read (pre-check, so
// that an out-of-bounds read is reported instead of executed)
template <typename VF>
inline std::string answer_view(const uvec& src, VF view_f) {
    auto a = iota_array(src);
    auto v = view_f(a);
    auto dst = to_uvec(nm::shape(v));
    std::string out = "ok shape=" + fmtu(dst) + " data=";
    size_t n = numel_sat(dst, MAX_ELEMS);
    if (n > MAX_ELEMS) return out + "big";
    if (n == 0) return out + "[]";
    for (size_t k = 0; k < n; k++) {
        uvec d = unravel(k, dst);
        if (!in_shape(to_uvec(v.indexer.indices(d)), src)) return out + "oob@" + std::to_string(k);
        if (k) out += ',';
        out += std::to_string((long long)nm::apply_at(v, d));
    }
    return out;
}

// write through a mutable slice view: element k of the view := k+1 ; answer = source buffer afterwards
template <typename VF>
inline std::string answer_mutable(const uvec& src, VF view_f) {
    array_t a; a.resize(src);
    size_t ns = nm::size(a);
    for (size_t k = 0; k < ns; k++) a.data()[k] = 0;
    auto v = view_f(a);
    auto dst = to_uvec(nm::shape(v));
    std::string out = "ok shape=" + fmtu(dst) + " buf=";
    size_t n = numel_sat(dst, MAX_ELEMS);
    if (n > MAX_ELEMS) return out + "big";
    for (size_t k = 0; k < n; k++) {
        uvec d = unravel(k, dst);
        if (!in_shape(to_uvec(v.indexer.indices(d)), src)) return out + "oob@" + std::to_string(k);
        nm::apply_at(v, d) = (int)(k + 1);
    }
    std::vector<int> buf(a.data(), a.data() + ns);
    return out + fmt(buf);
}

// ---- packed encoding: f(slices...) -----------------------------------------------------------------------------
template <typename... S>
inline std::string run_packed(const std::string& level, const uvec& src, const S&... s) {
    auto shape_f = [&]() { return ix::shape_slice(src, s...); };
    auto index_f = [&](const uvec& d) { return ix::slice(d, src, s...); };
    if (level == "index") return answer_index(src, shape_f, index_f);
#ifdef C05_FEW_LEVELS   // multi-entry TUs: view::slice / mutable_slice already go through apply_(shape_)slice
    if (level == "view") return answer_view(src, [&](const auto& a) { return view::slice(a, s...); });
    if (level == "mutable") return answer_mutable(src, [&](auto& a) { return view::mutable_slice(a, s...); });
    throw bad_args("level");
#else
    if (level == "apply") {   // through the tuple entry points apply_shape_slice / apply_slice
        auto pack = nmtools_tuple<S...>{s...};
        return answer_index(src, [&]() { return ix::apply_shape_slice(src, pack); }, [&](const uvec& d) { return ix::apply_slice(d, src, pack); });
    }
    // view::slice(a, s...) / view::mutable_slice(a, s...): the variadic entry points (a single tuple argument included)
    if (level == "view") return answer_view(src, [&](const auto& a) { return view::slice(a, s...); });
    if (level == "mutable") return answer_mutable(src, [&](auto& a) { return view::mutable_slice(a, s...); });
    if (level == "viewapply") {
        auto pack = nmtools_tuple<S...>{s...};
        return answer_view(src, [&](const auto& a) { return view::apply_slice(a, pack); });
    }
    if (level == "mutableapply") {
        auto pack = nmtools_tuple<S...>{s...};
        return answer_mutable(src, [&](auto& a) { return view::apply_mutable_slice(a, pack); });
    }
    throw bad_args("level");
#endif
}

// ---- dynamic encoding ----------------------------------------------------------------------------------------------
template <typename range_t> struct dyn_types {
    using arr3_t  = nmtools_array<int, 3>;
    using rng_t   = nmtools_either<arr3_t, range_t>;
    using rest_t  = nmtools_either<nm::ellipsis_t, rng_t>;
    using slice_t = nmtools_either<int, rest_t>;
    static slice_t of_int(int k) { return slice_t{k}; }
    static slice_t of_ell() { return slice_t{rest_t{nm::Ellipsis}}; }
    static slice_t of_arr(const Entry& e) { return slice_t{rest_t{rng_t{arr3_t{e.a, e.b, e.c}}}}; }
    static slice_t of_rng(const range_t& r) { return slice_t{rest_t{rng_t{r}}}; }
};
struct dynA_types {
    using arr3_t  = nmtools_array<int, 3>;
    using rest_t  = nmtools_either<nm::ellipsis_t, arr3_t>;
    using slice_t = nmtools_either<int, rest_t>;
    static slice_t of_int(int k) { return slice_t{k}; }
    static slice_t of_ell() { return slice_t{rest_t{nm::Ellipsis}}; }
    static slice_t of_arr(const Entry& e) { return slice_t{rest_t{arr3_t{e.a, e.b, e.c}}}; }
};

template <typename L>
inline std::string run_dynamic(const std::string& level, const uvec& src, const L& slices) {
    auto shape_f = [&]() { return ix::shape_dynamic_slice(src, slices); };
    auto index_f = [&](const uvec& d) { return ix::dynamic_slice(d, src, slices); };
    if (level == "index") return answer_index(src, shape_f, index_f);
    if (level == "apply")
        return answer_index(src, [&]() { return ix::apply_shape_slice(src, slices); }, [&](const uvec& d) { return ix::apply_slice(d, src, slices); });
    if (level == "view") return answer_view(src, [&](const auto& a) { return view::apply_slice(a, slices); });
    if (level == "mutable") return answer_mutable(src, [&](auto& a) { return view::apply_mutable_slice(a, slices); });
    throw bad_args("level");
}

// dynP with range kind K (the None-pattern of the tuple alternative)
template <int K>
inline std::string run_dynP(const std::string& level, const uvec& src, const std::vector<Entry>& es) {
    using range_t = decltype(make<K>(Entry{}));
    using T = dyn_types<range_t>;
    nmtools_list<typename T::slice_t> l;
    for (auto& e : es) {
        if (e.kind == K_INT) l.push_back(T::of_int(e.a));
        else if (e.kind == K_ELL) l.push_back(T::of_ell());
        else if (e.kind == K) l.push_back(T::of_rng(make<K>(e)));
        else if (e.kind == K_R3) l.push_back(T::of_arr(e));
        else throw bad_args("mixed None-patterns in dynP");
    }
    return run_dynamic(level, src, l);
}
inline auto dynA_list(const std::vector<Entry>& es) {
    using T = dynA_types;
    nmtools_list<typename T::slice_t> l;
    for (auto& e : es) {
        if (e.kind == K_INT) l.push_back(T::of_int(e.a));
        else if (e.kind == K_ELL) l.push_back(T::of_ell());
        else if (e.kind == K_R3) l.push_back(T::of_arr(e));
        else throw bad_args("dynA needs all-int ranges");
    }
    return l;
}
inline std::string run_dynA(const std::string& level, const uvec& src, const std::vector<Entry>& es) {
    return run_dynamic(level, src, dynA_list(es));
}
// a slice view of a slice view (a[sl][sl2]): shape and the source element every result element reads
inline std::string run_slice2(const uvec& src, const std::vector<Entry>& es1, const std::vector<Entry>& es2) {
    auto l1 = dynA_list(es1); auto l2 = dynA_list(es2);
    auto a = iota_array(src);
    auto v1 = view::apply_slice(a, l1);
    auto v2 = view::apply_slice(v1, l2);
    auto dst = to_uvec(nm::shape(v2));
    std::string out = "ok shape=" + fmtu(dst) + " data=";
    size_t n = numel_sat(dst, MAX_ELEMS);
    if (n > MAX_ELEMS) return out + "big";
    if (n == 0) return out + "[]";
    for (size_t k = 0; k < n; k++) {
        uvec d = unravel(k, dst);
        auto mid = to_uvec(v2.indexer.indices(d));
        if (!in_shape(mid, to_uvec(nm::shape(v1)))) return out + "oob@" + std::to_string(k);
        if (!in_shape(to_uvec(v1.indexer.indices(mid)), src)) return out + "oob@" + std::to_string(k);
        if (k) out += ',';
        out += std::to_string((long long)nm::apply_at(v2, d));
    }
    return out;
}

} // namespace c05
