import NmVerif.Basic
import NmVerif.NDA
import NmVerif.Arr
/-
  Model of the default evaluator (include/nmtools/array/eval.hpp, evaluator_t<view,none>):

    operator()(output&) : if shape(output) != shape(view) return (silently);
                          for i < size: apply_at(output, ndindex(out_shape)[i]) = apply_at(view, ndindex(inp_shape)[i])
    operator()()        : default-construct the resolved output type, apply_resize to the view's shape, then the above.
-/
namespace NmVerif.Eval
open NmVerif

variable {α : Type}

/-- one iteration of the copy loop -/
def copyStep (v : Arr α) (s : Shape) (o : NDA α) (i : Nat) : NDA α :=
  o.set (ndindex s i) (v.get (ndindex s i))

/-- `evaluator_t::operator()(output&)` -/
def evalInto (out : NDA α) (v : Arr α) : NDA α :=
  if out.shape = v.shape then (List.range (prod v.shape)).foldl (copyStep v v.shape) out else out

/-- `evaluator_t::operator()()`: fresh output of the view's shape (any layout), then `evalInto` -/
def evalFresh [Inhabited α] (colMajor : Bool) (v : Arr α) : NDA α :=
  evalInto { shape := v.shape, colMajor := colMajor, data := List.replicate (prod v.shape) default } v

end NmVerif.Eval
