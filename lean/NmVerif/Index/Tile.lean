import NmVerif.Arr
/-
  NmVerif.Index.Tile — MODEL of include/nmtools/array/index/tile.hpp (+ view/tile.hpp).

  Stable names (reused by C02 / C10):
    `Index.shapeTile shape reps : Shape`          index::shape_tile   (right-aligned product, rank = max)
    `Index.indexTile shape d : Idx`               index::tile         (from the right: `ret[ai] = d[bi] % shape[ai]`)
    `Index.tileView src reps : Option IxView`     view::tile (never Nothing)

  The C++ loops run from the last axis to the first (`ai = m-i-1`, `bi = n-i-1`); the model runs the same
  loops over the reversed lists.  `index::tile` sizes its result `len(shape)` and is only ever called with
  `len(d) = max(len shape, len reps) ≥ len shape`; for a shorter `d` (never produced) the model returns a
  shorter list where the C++ would leave zeros.
  Core Lean only.
-/
namespace NmVerif.Index

/-- loop body of `shape_tile` on reversed lists: missing side ⇒ copy, both ⇒ product -/
def shapeTileRev : List Nat → List Nat → List Nat
  | [], r => r
  | a :: s, [] => a :: s
  | a :: s, b :: r => a * b :: shapeTileRev s r

/-- `index::shape_tile(shape, reps)` -/
def shapeTile (shape reps : List Nat) : Shape := (shapeTileRev shape.reverse reps.reverse).reverse

/-- loop of `index::tile` on reversed lists: while the source axis exists `ret[ai] = d[bi] % shape[ai]` -/
def indexTileRev : List Nat → List Nat → List Nat
  | a :: s, i :: d => i % a :: indexTileRev s d
  | _, _ => []

/-- `index::tile(shape, reps, d)` (reps is unused by the C++ as well) -/
def indexTile (shape : Shape) (d : Idx) : Idx := (indexTileRev shape.reverse d.reverse).reverse

/-- `view::tile(array, reps)` -/
def tileView (src : Shape) (reps : List Nat) : Option IxView :=
  some ⟨src, shapeTile src reps, fun d => some (indexTile src d)⟩

end NmVerif.Index
