// host-only stand-in for the CUDA runtime API: enough to parse (clang++ -x cuda --cuda-host-only -nocudainc) and RUN the HOST side
// of include/nmtools/array/eval/cuda/context.hpp (device memory = host memory; kernels are never launched)
#pragma once
#include <cstdlib>
#include <cstring>
#include <cstddef>
#include <string>
#include <cmath>
#define __host__ __attribute__((host))
#define __device__ __attribute__((device))
#define __global__ __attribute__((global))
struct dim3 { unsigned x, y, z; dim3(unsigned x=1, unsigned y=1, unsigned z=1) : x(x), y(y), z(z) {} };
struct uint3 { unsigned x, y, z; };
extern const uint3 threadIdx, blockIdx; extern const dim3 blockDim, gridDim;
enum cudaError { cudaSuccess = 0, cudaErrorUnknown = 1 };
typedef cudaError cudaError_t;
enum cudaMemcpyKind { cudaMemcpyHostToDevice, cudaMemcpyDeviceToHost };
typedef struct CUstream_st* cudaStream_t;
inline cudaError cudaMalloc(void** p, size_t n) { *p = std::malloc(n); return cudaSuccess; }
inline cudaError cudaFree(void* p) { std::free(p); return cudaSuccess; }
inline cudaError cudaMemcpy(void* d, const void* s, size_t n, cudaMemcpyKind) { std::memcpy(d, s, n); return cudaSuccess; }
inline const char* cudaGetErrorString(cudaError) { return "shim"; }
inline cudaError cudaDeviceSynchronize() { return cudaSuccess; }
inline cudaError cudaGetLastError() { return cudaSuccess; }
extern "C" inline int cudaConfigureCall(dim3, dim3, size_t = 0, cudaStream_t = 0) { return 0; }
extern "C" inline int cudaSetupArgument(const void*, size_t, size_t) { return 0; }
extern "C" inline int cudaLaunch(const void*) { return 0; }
extern "C" inline unsigned __cudaPushCallConfiguration(dim3, dim3, size_t = 0, void* = 0) { return 0; }
extern "C" inline int __cudaPopCallConfiguration(dim3*, dim3*, size_t*, void*) { return 0; }
extern "C" inline cudaError cudaLaunchKernel(const void*, dim3, dim3, void**, size_t, cudaStream_t) { return cudaSuccess; }
