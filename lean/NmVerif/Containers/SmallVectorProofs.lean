import NmVerif.Containers.Spec
import NmVerif.Containers.SmallVector
import NmVerif.Containers.VectorProofs
import NmVerif.Containers.StaticVectorProofs
/-
  Proofs about the `small_vector` mirror: it holds exactly what `std::vector` holds on the histories that never
  rely on value-initialisation of heap cells (`smallOk`), across the static ↔ dynamic switch.
-/
namespace NmVerif.Containers
variable {α : Type}

/-- refinement relation: the active part refines the list -/
def RSmall (c : Nat) (x : Small α) (l : List α) : Prop :=
  if x.tagS then RSVec c x.st l else RVec x.dy l

/-- every operation of the alphabet is inside the refinement domain (after the repairs) -/
def smallOk (_c : Nat) : Option (List α) → Op α → Prop := fun _ _ => True

instance decSmallOk (c : Nat) (st : Option (List α)) (op : Op α) : Decidable (smallOk c st op) := by
  simp only [smallOk]; infer_instance

namespace Small

/-- `small_vector(n)` for `n ≥ DIM`: a heap vector of `n` value-initialised elements -/
theorem mkSized_dyn (c : Nat) (zero : α) (n : Nat) (L : Ledger) (hn : ¬ n < c) :
    (mkSized c zero n L).1.tagS = false ∧ (mkSized c zero n L).1.dy.Inv ∧
    (mkSized c zero n L).1.dy.view = List.replicate n (some zero) := by
  simp only [mkSized, hn, if_false]
  have hd := Vec.mkDefault_inv (α := α) L
  have ha := Vec.mkCopy_spec zero (Vec.mkDefault (α := α) L).1 (Vec.mkDefault (α := α) L).2 hd
  have hv : (Vec.mkDefault (α := α) L).1.view = [] := by simp [Vec.mkDefault, Vec.view]
  rw [hv] at ha
  generalize (Vec.mkCopy zero (Vec.mkDefault (α := α) L).1 (Vec.mkDefault (α := α) L).2) = r at ha
  generalize Vec.destroy (Vec.mkDefault (α := α) L).1 r.2 = L3
  have hsz : r.1.size = 0 := by
    have := Vec.view_length _ ha.1; rw [ha.2] at this; simpa using this.symm
  refine ⟨trivial, Vec.resize_inv zero _ n L3 ha.1, ?_⟩
  rw [Vec.resize_view zero _ n L3 ha.1, ha.2, hsz]
  by_cases h0 : n = 0
  · subst h0; simp
  · have : ¬ n ≤ 0 := by omega
    simp [this]

/-- static → dynamic `resize(n)`, `n > DIM`: the old elements followed by value-initialised ones -/
theorem resize_grow_dyn (c : Nat) (zero : α) (x : Small α) (n : Nat) (L : Ledger) (ht : x.tagS = true)
    (hlen : x.st.cells.length = c) (hsz : x.st.size ≤ c) (hn : c < n) :
    (resize c zero x n L).1.tagS = false ∧ (resize c zero x n L).1.dy.Inv ∧
    (resize c zero x n L).1.dy.view = x.st.view ++ List.replicate (n - x.st.size) (some zero) := by
  have hnc : ¬ n ≤ c := by omega
  have hnc' : ¬ n < c := by omega
  obtain ⟨_, hinv, hview⟩ := mkSized_dyn c zero n L hnc'
  simp only [resize, ht, if_true, hnc, if_false]
  generalize mkSized c zero n L = nb at hinv hview
  have hsize : nb.1.dy.size = n := by
    have := Vec.view_length _ hinv; rw [hview] at this; simpa using this.symm
  have hl := hinv.len; have hle := hinv.le
  -- the block the temporary owns, with the copied prefix
  have hnbinv : ({ nb.1.dy with cells := x.st.cells.take x.st.size ++ nb.1.dy.cells.drop x.st.size } : Vec α).Inv := by
    refine ⟨hinv.blk, ?_, hinv.le⟩
    simp [List.length_take]
    omega
  generalize hL2 : nb.2.flagIf (decide (x.st.cells.length < x.st.size ∨ nb.1.dy.cells.length < x.st.size)) Event.oob = L2
  have ha := Vec.mkCopy_spec zero _ L2 hnbinv
  refine ⟨trivial, ha.1, ?_⟩
  rw [ha.2]
  -- view of the patched temporary: prefix from the static part, the rest from the temporary's (zero) cells
  have hdrop : (nb.1.dy.cells.drop x.st.size).take (n - x.st.size) = List.replicate (n - x.st.size) (some zero) := by
    have hv : nb.1.dy.cells.take n = List.replicate n (some zero) := by
      have := hview; simp only [Vec.view, hsize] at this; exact this
    have : (nb.1.dy.cells.take n).drop x.st.size = List.replicate (n - x.st.size) (some zero) := by
      rw [hv]; simp
    rw [← this, List.drop_take]
  simp only [Vec.view, hsize, SVec.view]
  rw [List.take_append]
  simp only [List.length_take]
  have e1 : min x.st.size x.st.cells.length = x.st.size := by omega
  rw [e1, hdrop]
  congr 1
  rw [List.take_of_length_le]
  simp [List.length_take]; omega

theorem view_dyn (x : Small α) (ht : x.tagS = false) : x.view = x.dy.view := by simp [view, ht]
theorem view_st (x : Small α) (ht : x.tagS = true) : x.view = x.st.view := by simp [view, ht]

theorem storeAll_dyn (x : Small α) (ht : x.tagS = false) (i : Nat) (as : List α) (L : Ledger)
    (h : i + as.length ≤ x.dy.cells.length) :
    storeAll x i as L =
      ({ x with dy := { x.dy with cells := x.dy.cells.take i ++ as.map some ++ x.dy.cells.drop (i + as.length) } }, L) := by
  induction as generalizing x i L with
  | nil => simp [storeAll]
  | cons a as ih =>
    simp only [List.length_cons] at h
    have hi : i < x.dy.cells.length := by omega
    simp only [storeAll, write, ht, Bool.false_eq_true, if_false, Vec.write, Vec.store, hi, if_true]
    rw [ih]
    · simp only [List.length_cons, List.map_cons]
      congr 3
      have e1 : (x.dy.cells.set i (some a)).take (i + 1) = x.dy.cells.take i ++ [some a] := take_succ_set _ _ _ hi
      have e2 : (x.dy.cells.set i (some a)).drop (i + 1 + as.length) = x.dy.cells.drop (i + (as.length + 1)) := by
        rw [List.drop_set]
        have : i < i + 1 + as.length := by omega
        simp only [this, if_true]; congr 1; omega
      rw [e1, e2]; simp
    · rfl
    · simp; omega

theorem storeAll_st (x : Small α) (ht : x.tagS = true) (i : Nat) (as : List α) (L : Ledger)
    (h : i + as.length ≤ x.st.cells.length) :
    storeAll x i as L =
      ({ x with st := { x.st with cells := x.st.cells.take i ++ as.map some ++ x.st.cells.drop (i + as.length) } }, L) := by
  induction as generalizing x i L with
  | nil => simp [storeAll]
  | cons a as ih =>
    simp only [List.length_cons] at h
    have hi : i < x.st.cells.length := by omega
    simp only [storeAll, write, ht, if_true, SVec.write, SVec.store, hi]
    rw [ih]
    · simp only [List.length_cons, List.map_cons]
      congr 3
      have e1 : (x.st.cells.set i (some a)).take (i + 1) = x.st.cells.take i ++ [some a] := take_succ_set _ _ _ hi
      have e2 : (x.st.cells.set i (some a)).drop (i + 1 + as.length) = x.st.cells.drop (i + (as.length + 1)) := by
        rw [List.drop_set]
        have : i < i + 1 + as.length := by omega
        simp only [this, if_true]; congr 1; omega
      rw [e1, e2]; simp
    · rfl
    · simp; omega

theorem mkVariadic_spec (c : Nat) (zero : α) (vs : List α) (L : Ledger) :
    RSmall c (mkVariadic c zero vs L).1 vs := by
  unfold mkVariadic
  simp only []
  by_cases hn : vs.length ≤ c
  · -- stays static
    obtain ⟨hrs, hl, _⟩ := svec_resize_spec c zero (freshSt c zero) vs.length L (by simp [freshSt]) (by simp [freshSt]) hn
    have hr : resize c zero (mkDefault c zero L).1 vs.length (mkDefault c zero L).2 =
        ({ (mkDefault c zero L).1 with st := { cells := initRange zero (freshSt c zero).cells 0 vs.length, size := vs.length } }, L) := by
      simp only [resize, mkDefault, if_true, hn, hrs]; simp [freshSt]
    have hl' : (initRange zero (freshSt c zero).cells 0 vs.length).length = c := by simpa [freshSt] using hl
    rw [hr, storeAll_st _ (by simp [mkDefault]) 0 vs L (by simp only [mkDefault]; omega)]
    simp only [RSmall, mkDefault, if_true]
    refine ⟨?_, hn, ?_⟩
    · simp [List.length_take]; omega
    · simp only [SVec.view, List.take_zero, List.nil_append, Nat.zero_add]
      rw [List.take_left']; simp
  · have hc : c < vs.length := by omega
    obtain ⟨htag, hinv, hview⟩ := resize_grow_dyn c zero (mkDefault c zero L).1 vs.length (mkDefault c zero L).2
      (by simp [mkDefault]) (by simp [mkDefault, freshSt]) (by simp [mkDefault, freshSt]) hc
    generalize resize c zero (mkDefault c zero L).1 vs.length (mkDefault c zero L).2 = r at htag hinv hview
    have hsz : r.1.dy.size = vs.length := by
      have := Vec.view_length _ hinv
      rw [hview] at this
      simp [mkDefault, freshSt, SVec.view] at this
      omega
    have hl := hinv.len; have hle := hinv.le
    rw [storeAll_dyn _ htag 0 vs r.2 (by omega)]
    simp only [RSmall, htag, Bool.false_eq_true, if_false]
    refine ⟨⟨hinv.blk, ?_, hinv.le⟩, ?_⟩
    · simp [List.length_take]; omega
    · simp only [Vec.view, hsz, List.take_zero, List.nil_append, Nat.zero_add]
      rw [List.take_left']; simp

end Small

theorem RSmall.size_eq {c : Nat} {x : Small α} {l : List α} (h : RSmall c x l) : x.size = l.length := by
  unfold RSmall at h
  cases ht : x.tagS with
  | true => simp only [ht, if_true] at h; simpa [Small.size, ht] using h.size_eq
  | false => simp only [ht, Bool.false_eq_true, if_false] at h; simpa [Small.size, ht] using h.size_eq

theorem rsmall_st {c : Nat} {x : Small α} {l : List α} (ht : x.tagS = true) : RSmall c x l ↔ RSVec c x.st l := by
  simp [RSmall, ht]
theorem rsmall_dy {c : Nat} {x : Small α} {l : List α} (ht : x.tagS = false) : RSmall c x l ↔ RVec x.dy l := by
  simp [RSmall, ht]

theorem rsvec_fresh (c : Nat) (zero : α) : RSVec c (Small.freshSt c zero) ([] : List α) :=
  ⟨by simp [Small.freshSt], by simp [Small.freshSt], by simp [Small.freshSt, SVec.view]⟩

theorem small_push_rel (c : Nat) (zero : α) (s : Nat) (a : α) (x : Small α) (y : List α) (L M : Ledger) (h : RSmall c x y) :
    RSmall c (Small.push c zero x a L).1 (y ++ [a]) := by
  have hsz := h.size_eq
  cases ht : x.tagS with
  | true =>
    have hx := (rsmall_st ht).mp h
    have hxs : x.size = x.st.size := by simp [Small.size, ht]
    by_cases hc : x.size = c
    · simp only [Small.push, hc, if_true]
      obtain ⟨htag, hinv, hview⟩ := Small.resize_grow_dyn c zero x (c + 1) L ht hx.len hx.le (by omega)
      generalize Small.resize c zero x (c + 1) L = r at htag hinv hview
      have hrs : r.1.dy.size = c + 1 := by
        have := Vec.view_length _ hinv
        rw [hview] at this
        have h2 := congrArg List.length hx.view
        simp at this h2; omega
      have hw := Vec.write_spec r.1.dy c a r.2 hinv (by omega)
      simp only [Small.write, htag, Bool.false_eq_true, if_false, RSmall]
      refine ⟨hw.1, ?_⟩
      rw [hw.2, hview, hx.view]
      have : x.st.size = c := by omega
      have hyl : y.length = c := by omega
      simp only [this, Nat.add_sub_cancel_left, List.replicate_one]
      rw [List.set_append_right _ _ (by simp [hyl])]
      simp [hyl]
    · have hlt : y.length + 1 ≤ c := by have := hx.le; omega
      simp only [Small.push, hc, if_false, ht, if_true, RSmall]
      have := (svec_sim c zero).push s a _ _ L M trivial hx
      simpa [boundedSpec, hlt, svecImpl] using this
  | false =>
    have hx := (rsmall_dy ht).mp h
    have hxs : x.size = x.dy.size := by simp [Small.size, ht]
    by_cases hc : x.size = c
    · simp only [Small.push, hc, if_true, Small.resize, ht, Bool.false_eq_true, if_false, Small.write, RSmall]
      have hri := Vec.resize_inv zero x.dy (c + 1) L hx.1
      have hrs := Vec.resize_size zero x.dy (c + 1) L hx.1
      have hrv := Vec.resize_view zero x.dy (c + 1) L hx.1
      have hcs : x.dy.size = c := by omega
      have hnle : ¬ c + 1 ≤ c := by omega
      simp only [hcs, hnle, if_false, Nat.add_sub_cancel_left, List.replicate_one] at hrv
      have hw := Vec.write_spec (x.dy.resize zero (c + 1) L).1 c a (x.dy.resize zero (c + 1) L).2 hri (by omega)
      refine ⟨hw.1, ?_⟩
      rw [hw.2, hrv, hx.2]
      have hyl : y.length = c := by omega
      rw [List.set_append_right _ _ (by simp [hyl])]
      simp [hyl]
    · simp only [Small.push, hc, if_false, ht, Bool.false_eq_true, RSmall]
      exact (vec_sim zero).push s a _ _ L M trivial hx

theorem Small.write_eq_storeCell (x : Small α) (i : Nat) (a : α) (L : Ledger) :
    Small.write x i a L = Small.storeCell x i (some a) L := by
  cases ht : x.tagS <;> simp [Small.write, Small.storeCell, ht, SVec.write, Vec.write]

/-- at size DIM `x.push_back(x[i])` is `x.push_back(v)` for the value `v` of element `i` -/
theorem small_pushAt_eq_push (c : Nat) (zero : α) (x : Small α) (y : List α) (i : Nat) (L : Ledger) (h : RSmall c x y)
    (hi : i < y.length) (hc : x.size = c) : Small.pushAt c zero x i L = Small.push c zero x (y[i]'hi) L := by
  have hcell : (if x.tagS then x.st.cells else x.dy.cells)[i]? = some (some (y[i]'hi)) := by
    cases ht : x.tagS with
    | true =>
      simp only [if_true]
      rw [((rsmall_st ht).mp h).cell i hi, List.getElem?_eq_getElem hi]
    | false =>
      simp only [Bool.false_eq_true, if_false]
      rw [((rsmall_dy ht).mp h).cell i hi, List.getElem?_eq_getElem hi]
  simp only [Small.pushAt, Small.push, hc, if_true, hcell, Small.write_eq_storeCell]

theorem small_sim (c : Nat) (zero : α) : Sim (smallImpl c zero) (stdSpec zero) (RSmall c) (smallOk c) where
  size_eq := fun x y h => h.size_eq
  mkDefault := fun s L M _ => by
    show RSmall c (Small.mkDefault c zero L).1 []
    simpa [RSmall, Small.mkDefault] using rsvec_fresh c zero
  mkSized := fun s n L M _ => by
    show RSmall c (Small.mkSized c zero n L).1 (List.replicate n zero)
    by_cases hn : n < c
    · have hle : n ≤ c := by omega
      simp only [Small.mkSized, hn, if_true, RSmall]
      have h0 := (svec_sim c zero).assign s s _ _ _ _ L M trivial (rsvec_fresh c zero) (rsvec_fresh c zero)
      have h1 := (svec_sim c zero).resize s n _ _ (SVec.assign c zero (Small.freshSt c zero) (Small.freshSt c zero) L).2 M trivial h0
      have e : listResize zero ([] : List α) n = List.replicate n zero := by
        by_cases h0 : n = 0
        · subst h0; simp [listResize]
        · have : ¬ n ≤ 0 := by omega
          simp [listResize, this]
      simpa [boundedSpec, svecImpl, hle, e] using h1
    · obtain ⟨htag, hinv, hview⟩ := Small.mkSized_dyn c zero n L hn
      simp only [RSmall, htag, Bool.false_eq_true, if_false]
      exact ⟨hinv, by rw [hview]; simp⟩
  mkVariadic := fun s vs L M _ => Small.mkVariadic_spec c zero vs L
  mkCopy := fun d s x y L M _ h => by
    show RSmall c (Small.mkCopy c zero x L).1 y
    cases ht : x.tagS with
    | true =>
      simp only [Small.mkCopy, ht, if_true, RSmall]
      exact (rsmall_st ht).mp h
    | false =>
      have hx := (rsmall_dy ht).mp h
      simp only [Small.mkCopy, ht, Bool.false_eq_true, if_false, RSmall]
      have := Vec.mkCopy_spec zero x.dy L hx.1
      exact ⟨this.1, by rw [this.2]; exact hx.2⟩
  assign := fun d s x y x' y' L M _ h h' => by
    show RSmall c (Small.assign c zero x x' L).1 y'
    cases ht : x.tagS <;> cases ht' : x'.tagS
    · simp only [Small.assign, ht, ht', bne_self_eq_false, Bool.false_eq_true, if_false, RSmall]
      exact (vec_sim zero).assign d s _ _ _ _ L M trivial ((rsmall_dy ht).mp h) ((rsmall_dy ht').mp h')
    · simp only [Small.assign, ht, ht', Bool.bne_true, Bool.not_false, if_true, RSmall]
      exact (rsmall_st ht').mp h'
    · have hx' := (rsmall_dy ht').mp h'
      simp only [Small.assign, ht, ht', Bool.bne_false, if_true, Bool.false_eq_true, if_false, RSmall]
      have := Vec.mkCopy_spec zero x'.dy L hx'.1
      exact ⟨this.1, by rw [this.2]; exact hx'.2⟩
    · simp only [Small.assign, ht, ht', bne_self_eq_false, Bool.false_eq_true, if_false, if_true, RSmall]
      exact (svec_sim c zero).assign d s _ _ _ _ L M trivial ((rsmall_st ht).mp h) ((rsmall_st ht').mp h')
  assignSelf := fun d x y L M _ h => h
  push := fun s a x y L M _ h => small_push_rel c zero s a x y L M h
  pushAt := fun s i x y L M _ h hi => by
    have hi' : i < y.length := hi
    have hsz := h.size_eq
    show RSmall c (Small.pushAt c zero x i L).1 ((stdSpec zero).pushAt y i M).1
    have hspec : ((stdSpec zero).pushAt y i M).1 = y ++ [y[i]'hi'] := by simp [stdSpec, List.getElem?_eq_getElem hi']
    rw [hspec]
    by_cases hc : x.size = c
    · rw [small_pushAt_eq_push c zero x y i L h hi' hc]
      exact small_push_rel c zero s _ x y L M h
    · cases ht : x.tagS with
      | true =>
        have hx := (rsmall_st ht).mp h
        have hxs : x.size = x.st.size := by simp [Small.size, ht]
        have hlt : y.length + 1 ≤ c := by have := hx.le; omega
        simp only [Small.pushAt, hc, if_false, ht, if_true, RSmall]
        have := (svec_sim c zero).pushAt s i _ _ L M trivial hx hi
        simpa [boundedSpec, hlt, svecImpl, List.getElem?_eq_getElem hi'] using this
      | false =>
        simp only [Small.pushAt, hc, if_false, ht, Bool.false_eq_true, RSmall]
        have := (vec_sim zero).pushAt s i _ _ L M trivial ((rsmall_dy ht).mp h) hi
        simpa [stdSpec, vecImpl, List.getElem?_eq_getElem hi'] using this
  resize := fun s n x y L M _ h => by
    show RSmall c (Small.resize c zero x n L).1 (listResize zero y n)
    cases ht : x.tagS with
    | true =>
      have hx := (rsmall_st ht).mp h
      by_cases hnc : n ≤ c
      · simp only [Small.resize, ht, if_true, hnc, RSmall]
        have := (svec_sim c zero).resize s n _ _ L M trivial hx
        simpa [boundedSpec, hnc, svecImpl] using this
      · obtain ⟨htag, hinv, hview⟩ := Small.resize_grow_dyn c zero x n L ht hx.len hx.le (by omega)
        simp only [RSmall, htag, Bool.false_eq_true, if_false]
        refine ⟨hinv, ?_⟩
        rw [hview, hx.view, hx.size_eq]
        have : ¬ n ≤ y.length := by have := hx.le; have := hx.size_eq; omega
        simp [listResize, this]
    | false =>
      simp only [Small.resize, ht, Bool.false_eq_true, if_false, RSmall]
      exact (vec_sim zero).resize s n _ _ L M trivial ((rsmall_dy ht).mp h)
  write := fun s i a x y L M _ h hi => by
    show RSmall c (Small.write x i a L).1 (y.set i a)
    cases ht : x.tagS with
    | true =>
      simp only [Small.write, ht, if_true, RSmall]
      exact (svec_sim c zero).write s i a _ _ L M trivial ((rsmall_st ht).mp h) hi
    | false =>
      simp only [Small.write, ht, Bool.false_eq_true, if_false, RSmall]
      exact (vec_sim zero).write s i a _ _ L M trivial ((rsmall_dy ht).mp h) hi

end NmVerif.Containers
