import NmVerif.Basic
import NmVerif.Arr
import NmVerif.Index.MatmulBroadcast
import NmVerif.Index.Matmul
/-
  MODEL and SPEC of the linear-algebra views (property C16).

  Everything is *symbolic in the data*: the operands are the leaf arrays `Arr.ident s` whose element at `i` is the
  multi-index `i` itself, every view combinator is polymorphic in the element type, so what a routine returns is, for
  each destination index, the list of product terms `(lhs index, rhs index)` it adds up, in the order the reducer folds
  them.  `valueAt` turns such a term list into a number for concrete operand data (the driver does that for the
  correspondence run; the value theorems are corollaries of the term theorems).

  MODEL (mirrors include/nmtools/array/view/*.hpp as compositions of the view combinators below)
    matmulV1   view::matmul      matmul.hpp:356-442  (slices of row/column, multiply, reduce_add over everything)
    matmulV2   view::matmulv2    matmul.hpp:945-988  (tile, reshape, transpose, reshape, multiply, sum(-1))
    dot, inner, outer, vecdot, tensordot (integer / explicit axes), kron, trace (through diagonal)
  SPEC  (NumPy's definitions, written directly on indices)
    specMatmul, specDot, specInner, specOuter, specVecdot, specTensordot, specKron, specTrace
  Core Lean only.
-/
namespace NmVerif
open NmVerif.MB
namespace Linalg

/-! ## view combinators (polymorphic in the element type) -/

variable {α β γ : Type}

/-- leaf operand with symbolic data: the element at `i` is `i` -/
def ident (s : Shape) : Arr Idx := ⟨s, id⟩

/-- `view::reshape(a, t)` for a target without `-1`: `Nothing` unless the element counts agree;
    element `d` = source element at `compute_indices(compute_offset(d, strides t), src_shape)` -/
def reshape (a : Arr α) (t : Shape) : Option (Arr α) :=
  if prod a.shape = prod t then
    some ⟨t, fun d => a.get (ndindex a.shape (computeOffset d (strides t)))⟩
  else none

/-- `view::flatten` -/
def flatten (a : Arr α) : Arr α := ⟨[prod a.shape], fun d => a.get (ndindex a.shape (d.headD 0))⟩

/-- `index::shape_tile`: right-aligned product of shape and reps, rank = max -/
def shapeTile (s r : List Nat) : List Nat :=
  let n := max s.length r.length
  let s' := List.replicate (n - s.length) 1 ++ s
  let r' := List.replicate (n - r.length) 1 ++ r
  List.zipWith (· * ·) s' r'

/-- `index::tile`: from the right, while the source axis exists: `ret[ai] = d[bi] % shape[ai]` -/
def tileIdx (d : Idx) (s : Shape) : Idx := List.zipWith (· % ·) (d.drop (d.length - s.length)) s

/-- `view::tile(a, reps)` -/
def tile (a : Arr α) (reps : List Nat) : Arr α := ⟨shapeTile a.shape reps, fun d => a.get (tileIdx d a.shape)⟩

/-- `index::scatter(d, axes)`: `ret[axes[i]] = d[i]` on a zero-initialised `ret` -/
def scatter (d : Idx) (axes : List Nat) : Idx :=
  (d.zip axes).foldl (fun acc p => acc.set p.2 p.1) (List.replicate d.length 0)

/-- `view::transpose(a, axes)`: `shape[i] = a.shape[axes[i]]`, element `d` = source element at `scatter(d, axes)`;
    the axes are not validated by the view (an out-of-range axis is modelled as `none`) -/
def transpose (a : Arr α) (axes : List Nat) : Option (Arr α) :=
  match axes.mapM (fun k => a.shape[k]?) with
  | some sh => some ⟨sh, fun d => a.get (scatter d axes)⟩
  | none => none

/-- a broadcasting binary ufunc (`view::multiply`): `Nothing` unless the shapes broadcast -/
def bcast2 (f : α → β → γ) (a : Arr α) (b : Arr β) : Option (Arr γ) :=
  match broadcastShape a.shape b.shape with
  | some sh => some ⟨sh, fun d => f (a.get (bcIdx d a.shape)) (b.get (bcIdx d b.shape))⟩
  | none => none

/-- `view::sum(a, axis = (-1, …, -n))`, keepdims = false: the last `n` axes are reduced; the reducer walks the
    sliced sub-array flattened in row-major order (reduce.hpp: `apply_slice` → `flatten` → left fold), so the terms
    come in `allIdx` order of the reduced extents -/
def sumLast (n : Nat) (a : Arr α) : Arr (List α) :=
  let k := a.shape.length - n
  ⟨a.shape.take k, fun d => (allIdx (a.shape.drop k)).map (fun r => a.get (d ++ r))⟩

/-- lhs and rhs term of an elementwise product -/
abbrev Term := Idx × Idx

def mulT (a b : Arr Idx) : Option (Arr Term) := bcast2 Prod.mk a b

/-! ## MODEL: the routines as the headers compose them -/

/-- `view::matmul` (`matmul_t`): shape by `shape_matmul` (the constructor unwraps it: mismatching operands are outside
    this model, see C15); element `d`: `index::matmul` gives the two slice lists, `apply_slice` takes the row of lhs and
    the column of rhs (two 1-d views; a 1-d operand is taken whole), `multiply` broadcasts them, `reduce_add(…, None)`
    folds everything.  `none` as an element = an out-of-range read of the result index (not reachable for an index
    inside the result shape, `matmul_elem_eq_sum`). -/
def matmulV1 (sa sb : Shape) : Option (Arr (Option (List Term))) :=
  match shapeMatmul sa sb with
  | none => none
  | some dst => some ⟨dst, fun d =>
      match matmulSlices d sa sb dst, getNeg? sa 1, (if sb.length = 1 then sb[0]? else getNeg? sb 2) with
      | some (lb, row, rb, col), some k, some k' =>
        let l : Arr Idx := ⟨[k], fun i => lb ++ row.toList ++ i⟩
        let r : Arr Idx := ⟨[k'], fun i => rb ++ i ++ col.toList⟩
        (mulT l r).map (fun m => ((sumLast 1 m).get []))
      | _, _, _ => none⟩

/-- `view::matmulv2` -/
def matmulV2 (sa sb : Shape) : Option (Arr (List Term)) := do
  let lhs := ident sa
  let rhs := ident sb
  let reps := matmulLhsTile sa sb
  let axes := matmulRhsTranspose sb.length
  let tfL := matmulLhsReshape sa sb
  let a ← reshape (tile lhs reps) tfL
  let b ← transpose rhs axes
  let tfR := matmulRhsReshape a.shape b.shape
  let c ← reshape b tfR
  let m ← mulT a c
  pure (sumLast 1 m)

/-- `index::dot_lhs_tile` -/
def dotLhsTile (ls rs : Shape) : List Nat :=
  let r := List.replicate ls.length 1
  if 1 < rs.length then
    match getNeg? rs 1 with
    | some n => setNeg r 1 n
    | none => r
  else r

/-- `index::dot_rhs_transpose` -/
def dotRhsTranspose (rs : Shape) : List Nat :=
  if 1 < rs.length then swapLast2 (List.range rs.length) else List.range rs.length

/-- `index::dot_lhs_reshape`: `dst_dim = max(lhs_dim + rhs_dim - 2, lhs_dim) (+1 when rhs_dim > 1)`, ones,
    the first `lhs_dim-1` entries from `lhs_shape`, then `[-2] = rhs[-1]`, `[-1] = rhs[-2]` (or `[-1] = rhs[-1]` for 1-d rhs) -/
def dotLhsReshape (ls rs : Shape) : Option (List Nat) :=
  let ldim := ls.length
  let rdim := rs.length
  let d0 := if ldim + rdim - 2 < ldim ∨ ldim + rdim < 2 then ldim else ldim + rdim - 2
  let dstDim := if 1 < rdim then d0 + 1 else d0
  let r := ls.take (ldim - 1) ++ List.replicate (dstDim - (ldim - 1)) 1
  if 1 < rdim then
    match getNeg? rs 1, getNeg? rs 2 with
    | some n, some k => if 2 ≤ r.length then some (setNeg (setNeg r 2 n) 1 k) else none
    | _, _ => none
  else
    match getNeg? rs 1 with
    | some k => if 1 ≤ r.length then some (setNeg r 1 k) else none
    | none => none

/-- `view::dot` -/
def dot (sa sb : Shape) : Option (Arr (List Term)) := do
  let reps := dotLhsTile sa sb
  let dstShape ← dotLhsReshape sa sb
  let axes := dotRhsTranspose sb
  let tfL ← reshape (tile (ident sa) reps) dstShape
  let tfR ← transpose (ident sb) axes
  let m ← mulT tfL tfR
  pure (sumLast 1 m)

/-- `index::inner_lhs_reshape`: `dst_dim = max(lhs_dim + rhs_dim - 1, lhs_dim)`, ones, first `lhs_dim-1` from lhs, last = `lhs[-1]` -/
def innerLhsReshape (ls rs : Shape) : Option (List Nat) :=
  let ldim := ls.length
  let rdim := rs.length
  let dstDim := if ldim + rdim - 1 > ldim then ldim + rdim - 1 else ldim
  let r := ls.take (ldim - 1) ++ List.replicate (dstDim - (ldim - 1)) 1
  match getNeg? ls 1 with
  | some k => if 1 ≤ r.length then some (setNeg r 1 k) else none
  | none => none

/-- `view::inner` -/
def inner (sa sb : Shape) : Option (Arr (List Term)) := do
  let dstShape ← innerLhsReshape sa sb
  let l ← reshape (ident sa) dstShape
  let m ← mulT l (ident sb)
  pure (sumLast 1 m)

/-- `view::outer`: `multiply(reshape(flatten lhs, (-1, 1)), flatten rhs)`; the `-1` resolves to the element count -/
def outer (sa sb : Shape) : Option (Arr Term) := do
  let fl := flatten (ident sa)
  let fr := flatten (ident sb)
  let l ← reshape fl [prod sa, 1]
  mulT l fr

/-- `view::vecdot` (keepdims = false) -/
def vecdot (sa sb : Shape) : Option (Arr (List Term)) := do
  let m ← mulT (ident sa) (ident sb)
  if m.shape.length = 0 then none else pure (sumLast 1 m)

/-- `index::normalize_axis` for one axis -/
def normAxis (a : Int) (dim : Nat) : Option Nat :=
  if -(dim : Int) ≤ a ∧ a < dim then some (if a < 0 then (a + dim).toNat else a.toNat) else none

/-- the non-listed axes in increasing order followed by the listed ones in the given order
    (`tensordot_lhs_transpose` / `tensordot_rhs_transpose` with explicit axes) -/
def moveToEnd (dim : Nat) (axes : List Nat) : List Nat :=
  (List.range dim).filter (fun i => !axes.contains i) ++ axes

/-- `index::tensordot_lhs_reshape(shape(a), rhs_shape, sum_axis)`: `dst_dim = lhs_dim + rhs_dim - n`, ones,
    first `lhs_dim - n` and last `n` entries from the (transposed) lhs shape -/
def tensordotLhsReshape (ls : Shape) (rdim n : Nat) : List Nat :=
  ls.take (ls.length - n) ++ List.replicate (rdim - n) 1 ++ ls.drop (ls.length - n)

/-- `view::tensordot` after the axes have been split into (lhs transpose axes, rhs transpose axes, number of summed axes) -/
def tensordotCore (sa sb : Shape) (lt rt : List Nat) (n : Nat) : Option (Arr (List Term)) := do
  let a ← transpose (ident sa) lt
  let lsh := tensordotLhsReshape a.shape sb.length n
  let b ← reshape a lsh
  let c ← transpose (ident sb) rt
  let d ← mulT b c
  pure (sumLast n d)

/-- `view::tensordot(lhs, rhs, n)` with an integer: lhs untouched, the first `n` rhs axes moved to the end -/
def tensordotInt (sa sb : Shape) (n : Nat) : Option (Arr (List Term)) :=
  tensordotCore sa sb (List.range sa.length) (moveToEnd sb.length (List.range n)) n

/-- `view::tensordot(lhs, rhs, (lhs_axes, rhs_axes))`; `normalize_axis` is unwrapped unchecked in the C++ (`none` here) -/
def tensordotAxes (sa sb : Shape) (la ra : List Int) : Option (Arr (List Term)) := do
  let la' ← la.mapM (normAxis · sa.length)
  let ra' ← ra.mapM (normAxis · sb.length)
  tensordotCore sa sb (moveToEnd sa.length la') (moveToEnd sb.length ra') la.length

/-- `index::kron_dst_transpose(lhs_dim, rhs_dim)`: the recursion on the rank difference, literally -/
def kronDstTranspose : Nat → Nat → Nat → List Nat
  | 0, l, r => List.range (l + r)
  | fuel + 1, l, r =>
    let dst := l + r
    let init := List.range dst
    if l = r then
      let r1 := (List.range (dst / 2)).foldl (fun acc i => acc.set (i * 2) i) init
      (List.range (dst / 2)).foldl (fun acc i => acc.set (i * 2 + 1) (i + dst / 2)) r1
    else if l < r then
      let ia := kronDstTranspose fuel l (r - 1)
      let r1 := (List.range (dst - 1)).foldl (fun acc i => acc.set i (ia.getD i 0)) init
      (List.range l).foldl (fun acc i =>
        -- idx = -(i+1)*2 : swap entries at len-2(i+1) and len-2(i+1)-1
        let p := dst - 2 * (i + 1)
        let x := acc.getD p 0
        let y := acc.getD (p - 1) 0
        (acc.set p y).set (p - 1) x) r1
    else
      let ia := kronDstTranspose fuel l (r + 1)
      let r1 := (List.range dst).foldl (fun acc i => acc.set i (ia.getD i 0)) init
      (List.range r).foldl (fun acc i =>
        -- idx = -(2i+1) : swap entries at len-(2i+1) and len-(2i+1)-1
        let p := dst - (2 * i + 1)
        let x := acc.getD p 0
        let y := acc.getD (p - 1) 0
        (acc.set p y).set (p - 1) x) r1

/-- `index::kron_dst_reshape`: right-aligned product, the longer shape's leading extents copied -/
def kronDstReshape (ls rs : Shape) : List Nat :=
  let n := max ls.length rs.length
  let l' := List.replicate (n - ls.length) 1 ++ ls
  let r' := List.replicate (n - rs.length) 1 ++ rs
  List.zipWith (· * ·) l' r'

/-- `view::kron` -/
def kron (sa sb : Shape) : Option (Arr Term) := do
  let ldim := sa.length
  let rdim := sb.length
  let lsh := sa ++ List.replicate rdim 1            -- kron_lhs_reshape
  let axes := kronDstTranspose (ldim + rdim + 1) ldim rdim
  let dst := kronDstReshape sa sb
  let a ← reshape (ident sa) lsh
  let b := tile a sb
  let c ← mulT b (ident sb)
  let d ← transpose c axes
  reshape d dst

/-- `index::shape_diagonal`: the other axes in order, then
    `min(offset < 0 ? n1 + offset : n1, offset > 0 ? n2 - offset : n2)` (in `nm_index_t`), clamped at 0 -/
def shapeDiagonal (s : Shape) (offset : Int) (ax1 ax2 : Nat) : Option Shape :=
  match s[ax1]?, s[ax2]? with
  | some n1, some n2 =>
    let rest := ((List.range s.length).filter (fun i => i ≠ ax1 ∧ i ≠ ax2)).filterMap (fun i => s[i]?)
    let s1 : Int := if offset < 0 then (n1 : Int) + offset else n1
    let s2 : Int := if offset > 0 then (n2 : Int) - offset else n2
    let m := if s1 < s2 then s1 else s2
    -- `src_i = (src_i < 0 ? 0 : src_i)`: an offset beyond the extent selects an empty diagonal
    some (rest ++ [(if m < 0 then 0 else m).toNat])
  | _, _ => none

/-- the loop of `index::diagonal`: walking the source axes `0..dim-1`, every axis other than the two diagonal ones takes
    the next destination coordinate (`at(indices, idx_i++)`); the two assignments after the loop
    (`result[axis1] = v1; result[axis2] = v2`, the second one winning when the axes coincide) are folded in -/
def diagonalFill (ax1 ax2 : Nat) (v1 v2 : Int) : List Nat → Idx → List Int
  | [], _ => []
  | i :: is, ds =>
    if i = ax2 then v2 :: diagonalFill ax1 ax2 v1 v2 is ds
    else if i = ax1 then v1 :: diagonalFill ax1 ax2 v1 v2 is ds
    else
      match ds with
      | x :: xs => (x : Int) :: diagonalFill ax1 ax2 v1 v2 is xs
      | [] => 0 :: diagonalFill ax1 ax2 v1 v2 is []

/-- `index::diagonal(src_shape, indices, offset, axis1, axis2)`:
    `result[axis1] = indices[-1] + (offset < 0 ? -offset : 0)`, `result[axis2] = indices[-1] + (offset > 0 ? offset : 0)` -/
def diagonalIdx (srcDim : Nat) (d : Idx) (offset : Int) (ax1 ax2 : Nat) : List Int :=
  match d.getLast? with
  | some last =>
    diagonalFill ax1 ax2 ((last : Int) + (if offset < 0 then -offset else 0)) ((last : Int) + (if offset > 0 then offset else 0))
      (List.range srcDim) d
  | none => []

/-- element read of a leaf `ndarray_t` at a (possibly wrapped) index: `data_.at(Σ strides·idx mod 2^64)`;
    `some p` = buffer position `p` is read, `none` = the range check of the buffer throws -/
def leafRead (s : Shape) (i : List Int) : Option Nat :=
  let off : Int := ((strides s).zip i).foldl (fun acc p => acc + (p.1 : Int) * p.2) 0
  if 0 ≤ off ∧ off < prod s then some off.toNat else none

/-- `view::trace(a, offset, axis1, axis2)` = `sum(diagonal(a, offset, axis1, axis2), -1)`; elements are the buffer
    positions read (`none` = out-of-range access) -/
def trace (s : Shape) (offset : Int) (axis1 axis2 : Int) : Option (Arr (List (Option Nat))) := do
  let ax1 ← normAxis axis1 s.length
  let ax2 ← normAxis axis2 s.length
  let dsh ← shapeDiagonal s offset ax1 ax2
  let diag : Arr (Option Nat) := ⟨dsh, fun d => leafRead s (diagonalIdx s.length d offset ax1 ax2)⟩
  if dsh.length = 0 then none else pure (sumLast 1 diag)

/-! ## contracted-extent validation (fix C15-contraction-extent)

  `view::matmulv2`, `view::inner`, `view::vecdot`, `view::tensordot` end in a broadcasting `multiply` of the re-arranged
  operands, which alone would pair a contracted axis of extent 1 with a partner of any extent.  Since the fix each of them
  returns the pipeline result only if the contracted extents are equal (shapes known at run time: `Nothing` otherwise);
  `view::tensordot` with an integer `n` first refuses `n` beyond the number of dimensions of an operand.
  The un-validated pipelines above (`matmulV2`, `inner`, `vecdot`, `tensordotCore` …) stay as they are: the views below are
  "pipeline, then the check", in the order of the C++ (the models of `linear` / `bilinear` in NN/ use the pipelines on
  operands that pass the check). -/

/-- the check of the repaired `view::inner` / `view::vecdot`: the last extents agree (or an operand has no axis at all) -/
def lastAligned (sa sb : Shape) : Bool := sa.length == 0 || sb.length == 0 || sa.getLast? == sb.getLast?

/-- `view::matmulv2` (repaired): the pipeline result, unless `index::shape_matmul` refuses the operand shapes -/
def matmulV2C (sa sb : Shape) : Option (Arr (List Term)) :=
  (matmulV2 sa sb).bind (fun r => if (shapeMatmul sa sb).isSome then some r else none)

/-- `view::inner` (repaired) -/
def innerC (sa sb : Shape) : Option (Arr (List Term)) :=
  (inner sa sb).bind (fun r => if lastAligned sa sb then some r else none)

/-- `view::vecdot` (repaired) -/
def vecdotC (sa sb : Shape) : Option (Arr (List Term)) :=
  (vecdot sa sb).bind (fun r => if lastAligned sa sb then some r else none)

/-- the check of the repaired `view::tensordot`: the last `n` extents of the two transposed operands agree pairwise
    (`n` not beyond either rank) -/
def tensordotAligned (sa sb : Shape) (lt rt : List Nat) (n : Nat) : Bool :=
  match lt.mapM (fun k => sa[k]?), rt.mapM (fun k => sb[k]?) with
  | some ash, some csh =>
    decide (n ≤ ash.length) && decide (n ≤ csh.length) && (ash.drop (ash.length - n) == csh.drop (csh.length - n))
  | _, _ => false

def tensordotCoreC (sa sb : Shape) (lt rt : List Nat) (n : Nat) : Option (Arr (List Term)) :=
  (tensordotCore sa sb lt rt n).bind (fun r => if tensordotAligned sa sb lt rt n then some r else none)

/-- `view::tensordot(lhs, rhs, n)` (repaired): `Nothing` for `n` beyond a rank, then the pipeline and the extent check -/
def tensordotIntC (sa sb : Shape) (n : Nat) : Option (Arr (List Term)) :=
  if n ≤ sa.length ∧ n ≤ sb.length then
    tensordotCoreC sa sb (List.range sa.length) (moveToEnd sb.length (List.range n)) n
  else none

/-- `view::tensordot(lhs, rhs, (lhs_axes, rhs_axes))` (repaired); the axes themselves are still unwrapped unchecked -/
def tensordotAxesC (sa sb : Shape) (la ra : List Int) : Option (Arr (List Term)) := do
  let la' ← la.mapM (normAxis · sa.length)
  let ra' ← ra.mapM (normAxis · sb.length)
  tensordotCoreC sa sb (moveToEnd sa.length la') (moveToEnd sb.length ra') la.length

/-! ## SPEC: NumPy's definitions -/

/-- batch part / matrix part of a matmul operand (NumPy: a 1-d lhs is promoted by prepending a 1, a 1-d rhs by appending) -/
def batchOf (s : Shape) : Shape := s.take (s.length - 2)

/-- `np.matmul` shape: broadcast batch ++ [m] (unless lhs is 1-d) ++ [n] (unless rhs is 1-d); needs equal contraction lengths -/
def specMatmulShape (sa sb : Shape) : Option Shape :=
  match sa.getLast?, (if sb.length = 1 then sb.head? else sb[sb.length - 2]?) with
  | some k, some k' =>
    if k = k' then
      (broadcastShape (batchOf sa) (batchOf sb)).map (fun bs =>
        bs ++ (if sa.length = 1 then [] else (sa[sa.length - 2]?).toList)
           ++ (if sb.length = 1 then [] else sb.getLast?.toList))
    else none
  | _, _ => none

/-- `np.matmul` element: `out[β…, i, j] = Σ_k a[β_a…, i, k] · b[β_b…, k, j]` with `β` broadcast to each operand's batch
    shape; the `i` (resp. `j`) coordinate is absent when lhs (resp. rhs) is 1-d -/
def specMatmulTerms (sa sb : Shape) (d : Idx) : List Term :=
  match sa.getLast? with
  | none => []
  | some k =>
    let nb := d.length - (if sa.length = 1 then 0 else 1) - (if sb.length = 1 then 0 else 1)
    let β := d.take nb
    let i := if sa.length = 1 then [] else (d[nb]?).toList
    let j := if sb.length = 1 then [] else d.getLast?.toList
    (List.range k).map (fun kk =>
      (bcIdx β (batchOf sa) ++ i ++ [kk], bcIdx β (batchOf sb) ++ [kk] ++ j))

def specMatmul (sa sb : Shape) : Option (Arr (List Term)) :=
  (specMatmulShape sa sb).map (fun sh => ⟨sh, specMatmulTerms sa sb⟩)

/-- `np.dot`: `dot(a,b)[i…, j…, m] = Σ_k a[i…, k] · b[j…, k, m]` (rhs 1-d: `Σ_k a[i…,k]·b[k]`) -/
def specDot (sa sb : Shape) : Option (Arr (List Term)) :=
  match sa.getLast?, (if sb.length = 1 then sb.head? else sb[sb.length - 2]?) with
  | some k, some k' =>
    if k = k' then
      let ia := sa.length - 1
      let jb := sb.length - 2
      some ⟨sa.take ia ++ sb.take jb ++ (if sb.length = 1 then [] else sb.getLast?.toList), fun d =>
        (List.range k).map (fun kk =>
          (d.take ia ++ [kk], (d.drop ia).take jb ++ [kk] ++ (if sb.length = 1 then [] else d.getLast?.toList)))⟩
    else none
  | _, _ => none

/-- `np.inner`: `inner(a,b)[i…, j…] = Σ_k a[i…, k] · b[j…, k]` -/
def specInner (sa sb : Shape) : Option (Arr (List Term)) :=
  match sa.getLast?, sb.getLast? with
  | some k, some k' =>
    if k = k' then
      let ia := sa.length - 1
      some ⟨sa.take ia ++ sb.take (sb.length - 1), fun d =>
        (List.range k).map (fun kk => (d.take ia ++ [kk], d.drop ia ++ [kk]))⟩
    else none
  | _, _ => none

/-- `np.outer`: `out[i, j] = a.ravel()[i] · b.ravel()[j]` -/
def specOuter (sa sb : Shape) : Arr Term :=
  ⟨[prod sa, prod sb], fun d =>
    match d with
    | [x, y] => (ndindex sa x, ndindex sb y)
    | _ => ([], [])⟩

/-- `np.vecdot`: the last axes (equal length) are contracted, the leading axes broadcast -/
def specVecdot (sa sb : Shape) : Option (Arr (List Term)) :=
  match sa.getLast?, sb.getLast? with
  | some k, some k' =>
    if k = k' then
      (broadcastShape (sa.take (sa.length - 1)) (sb.take (sb.length - 1))).map (fun bs =>
        ⟨bs, fun d => (List.range k).map (fun kk =>
          (bcIdx d (sa.take (sa.length - 1)) ++ [kk], bcIdx d (sb.take (sb.length - 1)) ++ [kk]))⟩)
    else none
  | _, _ => none

/-- walk the axes `0..dim-1`: axis `axes[t]` gets `c[t]`, every other axis the next unused coordinate of `free` -/
def placeIdx (axes : List Nat) (c : Idx) : List Nat → Idx → Idx
  | [], _ => []
  | i :: is, free =>
    match (axes.zip c).lookup i with
    | some v => v :: placeIdx axes c is free
    | none =>
      match free with
      | f :: fs => f :: placeIdx axes c is fs
      | [] => []

/-- `np.tensordot(a, b, (la, ra))`: `out[i_free…, j_free…] = Σ_c a[i_free, c at la] · b[j_free, c at ra]`, `c` running
    over the contracted extents (taken from `a`) in row-major order of the listed axes; needs distinct in-range axes,
    equal counts and equal paired extents -/
def specTensordot (sa sb : Shape) (la ra : List Nat) : Option (Arr (List Term)) :=
  if la.length = ra.length ∧ la.Nodup ∧ ra.Nodup ∧ (∀ x ∈ la, x < sa.length) ∧ (∀ x ∈ ra, x < sb.length)
     ∧ la.map (fun x => sa[x]?) = ra.map (fun x => sb[x]?) then
    let fa := ((List.range sa.length).filter (fun i => !la.contains i))
    let fb := ((List.range sb.length).filter (fun i => !ra.contains i))
    let ext := la.filterMap (fun x => sa[x]?)
    some ⟨fa.filterMap (fun i => sa[i]?) ++ fb.filterMap (fun i => sb[i]?), fun d =>
      (allIdx ext).map (fun c =>
        (placeIdx la c (List.range sa.length) (d.take fa.length), placeIdx ra c (List.range sb.length) (d.drop fa.length)))⟩
  else none

/-- `np.kron`: shapes right-aligned (the shorter padded with leading ones), `out.shape[t] = a'[t]·b'[t]`,
    `out[d] = a[d[t] / b'[t] …] · b[d[t] % b'[t] …]` (padded axes dropped again) -/
def specKron (sa sb : Shape) : Arr Term :=
  let n := max sa.length sb.length
  let a' := List.replicate (n - sa.length) 1 ++ sa
  let b' := List.replicate (n - sb.length) 1 ++ sb
  ⟨List.zipWith (· * ·) a' b', fun d =>
    ((List.zipWith (· / ·) d b').drop (n - sa.length), (List.zipWith (· % ·) d b').drop (n - sb.length))⟩

/-- `np.trace(a, offset, axis1, axis2)`: the two axes removed, `out[rest] = Σ_i a[rest; axis1 = i + max(-offset,0), axis2 = i + max(offset,0)]`,
    `i` below the diagonal length `max(0, min(n1 - max(-offset,0), n2 - max(offset,0)))` -/
def specTrace (s : Shape) (offset : Int) (ax1 ax2 : Nat) : Option (Arr (List Idx)) :=
  match s[ax1]?, s[ax2]? with
  | some n1, some n2 =>
    if ax1 ≠ ax2 then
      let o1 := (-offset).toNat
      let o2 := offset.toNat
      let len := min (n1 - o1) (n2 - o2)
      let restAxes := (List.range s.length).filter (fun i => i ≠ ax1 ∧ i ≠ ax2)
      some ⟨restAxes.filterMap (fun i => s[i]?), fun d =>
        (List.range len).map (fun i => placeIdx [ax1, ax2] [i + o1, i + o2] (List.range s.length) d)⟩
    else none
  | _, _ => none

/-! ## values for concrete data -/

/-- Σ of products over a term list -/
def valueAt (A B : Idx → Int) (ts : List Term) : Int := (ts.map (fun t => A t.1 * B t.2)).foldl (· + ·) 0

end Linalg
end NmVerif
