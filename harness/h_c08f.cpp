// C08 harness, TU 4: mean / var / stddev / vector_norm / trace and the float fold-order test.
// double arrays (`et=f64`) or int arrays (`et=i32`: mean/var promote to float32); results printed with 17 digits.
#include "nmtools/array/array/sum.hpp"
#include "nmtools/array/array/mean.hpp"
#include "nmtools/array/array/var.hpp"
#include "nmtools/array/array/stddev.hpp"
#include "nmtools/array/array/vector_norm.hpp"
#include "nmtools/array/array/trace.hpp"
#include "nmtools/array/ndarray.hpp"
#include "c08_common.hpp"
#include <vector>

namespace nm = nmtools; namespace na = nmtools::array; namespace view = nmtools::view;
using namespace proto;
using iarr_t = na::ndarray_t<std::vector<int>, std::vector<size_t>>;
using darr_t = na::ndarray_t<std::vector<double>, std::vector<size_t>>;
using farr_t = na::ndarray_t<std::vector<float>, std::vector<size_t>>;

// api=view: lazy view with a run-time bool keepdims; api=array: eval with compile-time True/False
template <typename array_t> static std::string do_mean(const array_t& arr, const Args& a) {
    bool keep = c08::keepdims_of(a); bool eager = get(a, "api") == "array";
    return c08::with_axis(a, [&](const auto& axis) {
        if (!eager) return c08::emit(view::mean(arr, axis, nm::None, keep));
        return keep ? c08::emit(na::mean(arr, axis, nm::None, nm::True)) : c08::emit(na::mean(arr, axis, nm::None, nm::False));
    });
}
template <typename array_t> static std::string do_var(const array_t& arr, const Args& a, bool sd) {
    bool keep = c08::keepdims_of(a); bool eager = get(a, "api") == "array";
    size_t ddof = has(a, "ddof") ? (size_t)integer(a, "ddof") : 0;
    return c08::with_axis(a, [&](const auto& axis) {
        if (sd) {
            if (!eager) return c08::emit(view::stddev(arr, axis, nm::None, ddof, keep));
            return keep ? c08::emit(na::stddev(arr, axis, nm::None, ddof, nm::True)) : c08::emit(na::stddev(arr, axis, nm::None, ddof, nm::False));
        }
        if (!eager) return c08::emit(view::var(arr, axis, nm::None, ddof, keep));
        return keep ? c08::emit(na::var(arr, axis, nm::None, ddof, nm::True)) : c08::emit(na::var(arr, axis, nm::None, ddof, nm::False));
    });
}
template <typename array_t> static std::string do_norm(const array_t& arr, const Args& a) {
    bool keep = c08::keepdims_of(a); bool eager = get(a, "api") == "array";
    int ord = has(a, "ord") ? (int)integer(a, "ord") : 2;
    int den = has(a, "ordden") ? (int)integer(a, "ordden") : 1;
    if (den != 1) {     // a real order `ord/ordden` (e.g. 2.5), passed as double
        double ordf = (double)ord / (double)den;
        if (eager) throw bad_args("ordden");      // lazy view only (keeps the build time of this TU down)
        return c08::with_axis(a, [&](const auto& axis) { return c08::emit(view::vector_norm(arr, axis, keep, ordf)); });
    }
    return c08::with_axis(a, [&](const auto& axis) {
        if (!eager) return c08::emit(view::vector_norm(arr, axis, keep, ord));
        return keep ? c08::emit(na::vector_norm(arr, axis, nm::True, ord)) : c08::emit(na::vector_norm(arr, axis, nm::False, ord));
    });
}
template <typename array_t> static std::string do_trace(const array_t& arr, const Args& a) {
    bool eager = get(a, "api") == "array";
    int offset = (int)integer(a, "offset"), a1 = (int)integer(a, "axis1"), a2 = (int)integer(a, "axis2");
    // form=d0: trace(a), form=d1: trace(a, offset) - the DEFAULT axis pair (NumPy: the first two axes)
    std::string form = has(a, "form") ? get(a, "form") : "full";
    if (form == "d0") return eager ? c08::emit(na::trace(arr)) : c08::emit(view::trace(arr));
    if (form == "d1") return eager ? c08::emit(na::trace(arr, offset)) : c08::emit(view::trace(arr, offset));
    if (!eager) return c08::emit(view::trace(arr, offset, a1, a2));
    return c08::emit(na::trace(arr, offset, a1, a2));
}
template <typename array_t> static std::string do_fsum(const array_t& arr, const Args& a) {
    bool keep = c08::keepdims_of(a); bool eager = get(a, "api") == "array";
    return c08::with_axis(a, [&](const auto& axis) {
        if (!eager) return c08::emit(view::sum(arr, axis, nm::None, nm::None, keep));
        return c08::emit(na::sum(arr, axis, nm::None, nm::None, keep));
    });
}

// the TU is compiled four times (-DC08F_PART=1|2|3|4) so that the parts build in parallel
#ifndef C08F_PART
#define C08F_PART 0
#endif
template <typename array_t> static std::string dispatch(const std::string& op, const Args& a) {
    auto arr = c08::make_array<array_t>(a);
#if C08F_PART == 0 || C08F_PART == 1
    if (op == "mean") return do_mean(arr, a);
    if (op == "var") return do_var(arr, a, false);
#endif
#if C08F_PART == 0 || C08F_PART == 2
    if (op == "stddev") return do_var(arr, a, true);
#endif
#if C08F_PART == 0 || C08F_PART == 3
    if (op == "vector_norm") return do_norm(arr, a);
#endif
#if C08F_PART == 0 || C08F_PART == 4
    if (op == "trace") return do_trace(arr, a);
#endif
    return "unknown-op";
}

std::string handle(const std::string& op, const Args& a) {
    std::string et = has(a, "et") ? get(a, "et") : "f64";
#if C08F_PART == 0 || C08F_PART == 4
    if (op == "fsum") {
        if (et == "f32") return do_fsum(c08::make_array<farr_t>(a), a);
        return do_fsum(c08::make_array<darr_t>(a), a);
    }
#endif
    if (et == "i32") {
        if (op == "vector_norm") return "unknown-op";
        return dispatch<iarr_t>(op, a);
    }
    return dispatch<darr_t>(op, a);
}
