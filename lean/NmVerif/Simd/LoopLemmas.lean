import NmVerif.Simd.Loop
import NmVerif.Lemmas.Addressing
/-
  Helper lemmas for the packed-loop + tail model (Simd/Loop.lean).  Property statements are in Props/C12.lean.
-/
namespace NmVerif.Simd
open NmVerif

variable {α β : Type}

/-! ### index sequences -/

theorem packedLoopIdx_eq (lanes n : Nat) (hl : 0 < lanes) :
    ∀ (fuel k : Nat), n / lanes - k < fuel →
      packedLoopIdx lanes n fuel (k * lanes) = (List.range' k (n / lanes - k)).map (· * lanes) := by
  intro fuel
  induction fuel with
  | zero => intro k h; omega
  | succ f ih =>
    intro k h
    simp only [packedLoopIdx]
    have hiff : k * lanes + lanes ≤ n ↔ k + 1 ≤ n / lanes := by
      rw [Nat.le_div_iff_mul_le hl, Nat.succ_mul]
    by_cases hc : k * lanes + lanes ≤ n
    · have hk : k + 1 ≤ n / lanes := hiff.1 hc
      rw [if_pos hc]
      have e : n / lanes - k = (n / lanes - (k+1)) + 1 := by omega
      rw [e, List.range'_succ, List.map_cons]
      congr 1
      have := ih (k+1) (by omega)
      rw [Nat.succ_mul] at this
      exact this
    · have hk : ¬ (k + 1 ≤ n / lanes) := fun h' => hc (hiff.2 h')
      rw [if_neg hc]
      have e : n / lanes - k = 0 := by omega
      rw [e]; rfl

/-- the packed loop visits `0, N, 2N, …, (n/N − 1)·N` -/
theorem packedStarts_eq (lanes n : Nat) (hl : 0 < lanes) :
    packedStarts lanes n = (List.range (n / lanes)).map (· * lanes) := by
  have hle : n / lanes ≤ n := Nat.div_le_self n lanes
  have := packedLoopIdx_eq lanes n hl (n+1) 0 (by omega)
  simp only [Nat.zero_mul, Nat.sub_zero] at this
  rw [packedStarts, this, List.range_eq_range']

theorem div_mul_le' (n lanes : Nat) : n / lanes * lanes ≤ n := Nat.div_mul_le_self n lanes

/-! ### `allSome` -/

theorem allSome_map_some (l : List γ) (g : γ → α) : allSome (l.map (fun k => some (g k))) = some (l.map g) := by
  induction l with
  | nil => rfl
  | cons x xs ih => simp [allSome, ih]

theorem allSome_congr {l : List γ} {g h : γ → Option α} (e : ∀ x ∈ l, g x = h x) :
    allSome (l.map g) = allSome (l.map h) := by
  have : l.map g = l.map h := List.map_congr_left e
  rw [this]

/-! ### buffer lemmas -/

theorem loadu_eq {buf : List α} {i lanes : Nat} (h : i + lanes ≤ buf.length) :
    loadu buf i lanes = some ((buf.drop i).take lanes) := by simp [loadu, h]

theorem storeu_eq {buf : List α} {i : Nat} {reg : List α} (h : i + reg.length ≤ buf.length) :
    storeu buf i reg = some (buf.take i ++ reg ++ buf.drop (i + reg.length)) := by simp [storeu, h]

theorem list_range_eq_map_getElem? (l : List α) : (List.range l.length).map (fun k => l[k]?) = l.map some := by
  apply List.ext_getElem?
  intro i
  simp only [List.getElem?_map, List.getElem?_range]
  by_cases h : i < l.length
  · simp [h]
  · simp [h, List.getElem?_eq_none (Nat.le_of_not_lt h)]

theorem storeu_prefix (pre rest reg : List α) (i : Nat) (hi : pre.length = i) (h : reg.length ≤ rest.length) :
    storeu (pre ++ rest) i reg = some (pre ++ reg ++ rest.drop reg.length) := by
  subst hi
  unfold storeu
  rw [if_pos (by simp; omega)]
  simp [List.drop_append]

theorem writeAt_prefix (pre rest : List α) (v : α) (i : Nat) (hi : pre.length = i) (h : 0 < rest.length) :
    writeAt (pre ++ rest) i v = some (pre ++ [v] ++ rest.drop 1) := by
  subst hi
  unfold writeAt
  rw [if_pos (by simp; omega)]
  cases rest with
  | nil => simp at h
  | cons x xs => simp

/-- packed loop: after chunk `m` the first `m·N` cells hold the final result `res`, the rest is untouched.
    `body` is only required to act as "store chunk k of `res` at `k·N`" on in-range chunks. -/
theorem packed_fold (res out : List β) (lanes n : Nat) (body : List β → Nat → Option (List β))
    (hres : res.length = n) (hout : out.length = n)
    (hbody : ∀ k o, k * lanes + lanes ≤ n → body o (k * lanes) = storeu o (k * lanes) ((res.drop (k * lanes)).take lanes)) :
    ∀ m, m * lanes ≤ n →
      ((List.range m).map (· * lanes)).foldlM body out = some (res.take (m * lanes) ++ out.drop (m * lanes)) := by
  intro m
  induction m with
  | zero => intro _; simp
  | succ m ih =>
    intro hm
    rw [Nat.succ_mul] at hm
    rw [List.range_succ, List.map_append, List.foldlM_append, ih (by omega)]
    simp only [Option.bind_eq_bind, Option.bind_some, List.map_cons, List.map_nil, List.foldlM_cons, List.foldlM_nil]
    rw [hbody m _ hm]
    have hlen : ((res.drop (m * lanes)).take lanes).length = lanes := by
      rw [List.length_take, List.length_drop]; omega
    rw [storeu_prefix _ _ _ (m * lanes) (by rw [List.length_take]; omega) (by rw [hlen, List.length_drop]; omega)]
    simp only [Option.bind_some, Option.pure_def, hlen, List.drop_drop]
    rw [Nat.succ_mul, List.take_add]

/-- leftover loop: cell `i` receives `res[i]`, one at a time -/
theorem tail_fold (res out : List β) (n : Nat) (body : List β → Nat → Option (List β))
    (hres : res.length = n) (hout : out.length = n)
    (hbody : ∀ i o v, res[i]? = some v → body o i = writeAt o i v) :
    ∀ j s, s + j ≤ n →
      (List.range' s j).foldlM body (res.take s ++ out.drop s) = some (res.take (s + j) ++ out.drop (s + j)) := by
  intro j
  induction j with
  | zero => intro s _; simp
  | succ j ih =>
    intro s hs
    have hlt : s < res.length := by omega
    rw [List.range'_succ, List.foldlM_cons, hbody s _ res[s] (by simp [hlt])]
    rw [writeAt_prefix _ _ _ s (by rw [List.length_take]; omega) (by rw [List.length_drop]; omega)]
    simp only [Option.bind_eq_bind, Option.bind_some, List.drop_drop]
    have e : res.take s ++ [res[s]] = res.take (s + 1) := by
      rw [List.take_add]
      congr 1
      rw [List.drop_eq_getElem_cons hlt]; rfl
    rw [e, ih (s+1) (by omega)]
    have e2 : s + 1 + j = s + (j + 1) := by omega
    rw [e2]

/-- packed chunks then leftover: the whole buffer is `res` -/
theorem packed_then_tail (res out : List β) (lanes n : Nat) (hl : 0 < lanes)
    (bodyP bodyT : List β → Nat → Option (List β))
    (hres : res.length = n) (hout : out.length = n)
    (hP : ∀ k o, k * lanes + lanes ≤ n → bodyP o (k * lanes) = storeu o (k * lanes) ((res.drop (k * lanes)).take lanes))
    (hT : ∀ i o v, res[i]? = some v → bodyT o i = writeAt o i v) :
    ((packedStarts lanes n).foldlM bodyP out).bind (fun o => (tailIdx lanes n).foldlM bodyT o) = some res := by
  rw [packedStarts_eq lanes n hl, packed_fold res out lanes n bodyP hres hout hP (n / lanes) (div_mul_le' n lanes)]
  simp only [Option.bind_some, tailIdx]
  rw [tail_fold res out n bodyT hres hout hT _ _ (by have := div_mul_le' n lanes; omega)]
  have : n / lanes * lanes + (n - n / lanes * lanes) = n := by have := div_mul_le' n lanes; omega
  rw [this, List.take_of_length_le (by omega), List.drop_of_length_le (by omega), List.append_nil]



theorem get?_ndindex_rowMajor (a : NDA α) (hr : a.colMajor = false) (hs : Pos a.shape) (k : Nat)
    (hk : k < prod a.shape) : a.get? (ndindex a.shape k) = a.data[k]? := by
  unfold NDA.get? NDA.offset NDA.stridesOf
  rw [hr]
  simp only [Bool.false_eq_true, if_false]
  have := offset_indices hs hk
  unfold ndindex
  rw [this]

/-- a well-formed row-major array enumerated through `ndindex` is its buffer, in order -/
theorem logical_rowMajor (a : NDA α) (hw : a.WF) (hr : a.colMajor = false) (hs : Pos a.shape) :
    logical a = some a.data := by
  unfold logical
  rw [allSome_congr (h := fun k => a.data[k]?)
        (fun k hk => get?_ndindex_rowMajor a hr hs k (by simpa using hk))]
  rw [← hw, list_range_eq_map_getElem?]
  have := allSome_map_some a.data (fun x => x)
  simpa using this

end NmVerif.Simd
