import Mathlib.Tactic.Ring
import NmVerif.Lemmas.Addressing
import NmVerif.NN.Conv
import NmVerif.NN.Spec
/-
  NN/ConvLemmas — the conv1d instance of the `convnd` pipeline, stage by stage, for symbolic extents.
-/
namespace NmVerif.NN

/-! ### sums -/

theorem sumTo_congr {n : Nat} {f g : Nat → Int} (h : ∀ i, i < n → f i = g i) : sumTo n f = sumTo n g := by
  induction n with
  | zero => rfl
  | succ n ih =>
    simp only [sumTo]
    rw [ih (fun i hi => h i (Nat.lt_succ_of_lt hi)), h n (Nat.lt_succ_self n)]

theorem sumTo_zero {n : Nat} {f : Nat → Int} (h : ∀ i, i < n → f i = 0) : sumTo n f = 0 := by
  induction n with
  | zero => rfl
  | succ n ih =>
    simp only [sumTo]
    rw [ih (fun i hi => h i (Nat.lt_succ_of_lt hi)), h n (Nat.lt_succ_self n)]
    rfl

theorem sumTo_add (n m : Nat) (f : Nat → Int) : sumTo (n + m) f = sumTo n f + sumTo m (fun i => f (n + i)) := by
  induction m with
  | zero => simp [sumTo]
  | succ m ih =>
    rw [← Nat.add_assoc]
    simp only [sumTo, ih]
    omega

theorem listSum_append (a b : List Int) : listSum (a ++ b) = listSum a + listSum b := by
  induction a with
  | nil => simp [listSum]
  | cons x xs ih => simp only [List.cons_append, listSum, ih]; omega

theorem listSum_map_range (n : Nat) (f : Nat → Int) : listSum ((List.range n).map f) = sumTo n f := by
  induction n with
  | zero => rfl
  | succ n ih =>
    rw [List.range_succ, List.map_append, listSum_append, ih]
    simp [listSum, sumTo]

theorem listSum_flatMap_range (n : Nat) (f : Nat → List Int) :
    listSum ((List.range n).flatMap f) = sumTo n (fun i => listSum (f i)) := by
  induction n with
  | zero => rfl
  | succ n ih =>
    rw [List.range_succ, List.flatMap_append, listSum_append, ih]
    simp [listSum, sumTo]

/-- sum over all multi-indices of a rank-2 shape = double sum -/
theorem listSum_allIdx2 (A B : Nat) (f : Idx → Int) :
    listSum ((allIdx [A, B]).map f) = sumTo A (fun i => sumTo B (fun j => f [i, j])) := by
  simp only [allIdx, List.map_flatMap, List.map_map, List.flatMap_cons, List.flatMap_nil, List.map_cons, List.map_nil,
    List.append_nil]
  rw [listSum_flatMap_range]
  apply sumTo_congr
  intro i _
  rw [listSum_flatMap_range]
  apply sumTo_congr
  intro j _
  simp [listSum]

/-- dilated kernel: only multiples of `d` carry weight — `Σ_{k' < (K-1)d+1} [d ∣ k'] F(k'/d, k') = Σ_{k<K} F(k, k·d)` -/
theorem sumTo_dilate (K d : Nat) (hd : 0 < d) (F : Nat → Nat → Int) :
    sumTo (K * d + 1) (fun k' => if k' % d = 0 then F (k' / d) k' else 0) = sumTo (K + 1) (fun k => F k (k * d)) := by
  induction K with
  | zero => simp [sumTo]
  | succ K ih =>
    have e : (K + 1) * d + 1 = (K * d + 1) + d := by ring
    rw [e, sumTo_add, ih]
    conv => rhs; rw [sumTo]
    congr 1
    -- the block K*d+1 .. K*d+d : only the last index is a multiple of d
    obtain ⟨d', rfl⟩ : ∃ d', d = d' + 1 := ⟨d - 1, by omega⟩
    rw [sumTo]
    rw [sumTo_zero]
    · have h1 : (K * (d' + 1) + 1 + d') = (K + 1) * (d' + 1) := by ring
      simp only [h1, Nat.mul_mod_left, if_true, Int.zero_add]
      rw [Nat.mul_div_cancel _ (Nat.succ_pos d')]
    · intro i hi
      have h1 : K * (d' + 1) + 1 + i = (i + 1) + (d' + 1) * K := by ring
      rw [h1, Nat.add_mul_mod_self_left, Nat.mod_eq_of_lt (by omega)]
      simp

/-! ### `at` with negative index -/

@[simp] theorem posI_neg (n k : Nat) : posI n (-(k : Int) - 1) = n - (k + 1) := by
  unfold posI
  have h : (-(k : Int) - 1) < 0 := by omega
  rw [if_pos h]
  omega

/-! ### reshape -/

theorem reshapeIdx_eq {src dst : Shape} {d i : Idx} (hi : InShape i src)
    (h : computeOffset d (strides dst) = computeOffset i (strides src)) : reshapeIdx src dst d = i := by
  unfold reshapeIdx
  rw [h]
  exact indices_offset hi

theorem reshapeV_some {a : Arr Int} {dst : Shape} (hne : dst ≠ []) (h : prod a.shape = prod dst) :
    reshapeV a dst = some ⟨dst, fun d => a.get (reshapeIdx a.shape dst d)⟩ := by
  unfold reshapeV
  have : dst.isEmpty = false := by cases dst <;> simp_all
  simp [this, h]

theorem bsel {s i : Nat} (h : i < s) : (if s = 1 then 0 else i) = i := by
  split <;> omega

/-! ### the index helpers at `n_planes = 1` -/

theorem crw1 (O Cg K g : Nat) : convReshapeWeight [O, Cg, K] g 1 = [g, O / g, Cg, K] := by
  simp [convReshapeWeight, setI, getI, posI, List.range, List.range.loop]

theorem cri1 (N C L g : Nat) : convReshapeInput [N, C, L] g 1 = [N, g, 1, C / g, L] := by
  simp [convReshapeInput, setI, getI, posI, List.range, List.range.loop]

theorem crr1 (a b c d : Nat) : convReshapeReduce [a, b, c, d] 1 = [a, b * c, d] := by
  simp [convReshapeReduce, setI, getI, posI, List.range, List.range.loop]

theorem crb1 (O : Nat) : convReshapeBias [O] 1 = [O, 1] := by
  simp [convReshapeBias, setI, getI, posI, List.range, List.range.loop]

theorem cks1 (a b c d : Nat) : convKernelSize [a, b, c, d] 1 = [d] := by
  simp [convKernelSize, getI, posI, List.range, List.range.loop]

theorem cwa1 : convWindowAxis 1 = [-1] := by
  simp [convWindowAxis, List.range, List.range.loop]

theorem csa1 : convSumAxes 1 = [-1, -3] := by
  simp [convSumAxes, convWindowAxis, List.range, List.range.loop]

theorem cpad1 (p : Nat) : convPad 5 (.int p) 1 = [0,0,0,0,p,0,0,0,0,p] := by
  simp [convPad, List.range, List.range.loop]

theorem cpad1a (p : Nat) : convPad 5 (.arr [p]) 1 = [0,0,0,0,p,0,0,0,0,p] := by
  simp [convPad, List.range, List.range.loop]

/-! ### the reshapes of the pipeline as index maps -/

theorem lt_mul_of_lt {a b Og g : Nat} (ha : a < Og) (hb : b < g) : a * g + b < Og * g := by
  have h1 : (a + 1) * g ≤ Og * g := Nat.mul_le_mul_right g ha
  have h2 : (a + 1) * g = a * g + g := by ring
  omega

/-- weight `(Og·g, Cg, K)` seen as `(g, Og, Cg, K)`: output channel `b·Og + a` (group `b`, `a`-th channel of the group) -/
theorem rsh_weight {Og g Cg K a b c k : Nat} (ha : a < Og) (hb : b < g) (hc : c < Cg) (hk : k < K) :
    reshapeIdx [Og * g, Cg, K] [g, Og, Cg, K] [b, a, c, k] = [b * Og + a, c, k] := by
  apply reshapeIdx_eq
  · simp only [InShape]; exact ⟨by rw [Nat.mul_comm Og g]; exact lt_mul_of_lt hb ha, hc, hk, trivial⟩
  · simp only [computeOffset, strides, prod]; ring

/-- input `(N, g·Cg, L)` seen as `(N, g, 1, Cg, L)`: input channel `b·Cg + c` -/
theorem rsh_input {N g Cg L n b c j : Nat} (hn : n < N) (hb : b < g) (hc : c < Cg) (hj : j < L) :
    reshapeIdx [N, g * Cg, L] [N, g, 1, Cg, L] [n, b, 0, c, j] = [n, b * Cg + c, j] := by
  apply reshapeIdx_eq
  · simp only [InShape]; exact ⟨hn, lt_mul_of_lt hb hc, hj, trivial⟩
  · simp only [computeOffset, strides, prod]; ring

/-- `o < Og·g` splits as group `o / Og < g` and position `o % Og < Og` inside the group -/
theorem div_lt_groups {Og g o : Nat} (hOg : 0 < Og) (ho : o < Og * g) : o / Og < g :=
  (Nat.div_lt_iff_lt_mul hOg).2 (by rw [Nat.mul_comm g Og]; exact ho)

/-- merged output `(N, Og·g, Lo)` read from `(N, g, Og, Lo)`: `o ↦ (o / Og, o % Og)` -/
theorem rsh_reduce {N Og g Lo n o l : Nat} (hOg : 0 < Og) (hn : n < N) (ho : o < Og * g) (hl : l < Lo) :
    reshapeIdx [N, g, Og, Lo] [N, Og * g, Lo] [n, o, l] = [n, o / Og, o % Og, l] := by
  apply reshapeIdx_eq
  · simp only [InShape]
    exact ⟨hn, div_lt_groups hOg ho, Nat.mod_lt _ hOg, hl, trivial⟩
  · simp only [computeOffset, strides, prod]
    have := Nat.div_add_mod o Og
    calc Og * g * (Lo * 1) * n + (Lo * 1 * o + (1 * l + 0)) = Og * g * Lo * n + (Lo * o + l) := by ring
      _ = Og * g * Lo * n + (Lo * (Og * (o / Og) + o % Og) + l) := by rw [this]
      _ = _ := by ring

theorem rsh_bias {O o : Nat} (ho : o < O) : reshapeIdx [O] [O, 1] [o, 0] = [o] := by
  apply reshapeIdx_eq
  · simp only [InShape]; exact ⟨ho, trivial⟩
  · simp only [computeOffset, strides, prod]

/-! ### stage 1: the weight -/

/-- value of an optional argument form at `n_planes = 1`: `None` ↦ 1, `d` ↦ `d`, the one-element index array `[d]` ↦ `d` -/
def dilV : PArg → Nat | .none => 1 | .int d => d | .arr [d] => d | .arr _ => 0

/-- accepted forms: None, a positive integer, or a one-element index array with a positive entry -/
def PosForm (a : PArg) : Prop := a = .none ∨ (∃ d, 0 < d ∧ a = .int d) ∨ (∃ d, 0 < d ∧ a = .arr [d])

def rwArr (w : Arr Int) (Og g Cg K : Nat) : Arr Int := ⟨[g, Og, Cg, K], fun d => w.get (reshapeIdx w.shape [g, Og, Cg, K] d)⟩

def awArr (w : Arr Int) (Og g Cg K : Nat) (dil : PArg) : Arr Int :=
  match dil with
  | .none => rwArr w Og g Cg K
  | _ => expandV (rwArr w Og g Cg K) (convWindowAxis 1) (convExpandSpacing dil 1)

theorem convWeight1_eq {w : Arr Int} {Og g Cg K : Nat} (hw : w.shape = [Og * g, Cg, K]) (hg : 0 < g) (dil : PArg) :
    convWeight 1 w dil g = some (awArr w Og g Cg K dil) := by
  have hdiv : Og * g / g = Og := Nat.mul_div_cancel _ hg
  have hprod : prod w.shape = prod [g, Og, Cg, K] := by rw [hw]; simp only [prod]; ring
  have hre := reshapeV_some (a := w) (dst := [g, Og, Cg, K]) (by simp) hprod
  unfold convWeight
  rw [hw, crw1, hdiv, hre]
  cases dil <;> rfl

theorem cexp1 (d : Nat) : convExpandSpacing (.arr [d]) 1 = [d - 1] := by
  simp [convExpandSpacing, List.range, List.range.loop]

theorem awArr_shape {w : Arr Int} {Og g Cg K : Nat} (hK : 0 < K) {dil : PArg} (hdil : PosForm dil) :
    (awArr w Og g Cg K dil).shape = [g, Og, Cg, (K - 1) * dilV dil + 1] := by
  rcases hdil with rfl | ⟨d, hd, rfl⟩ | ⟨d, hd, rfl⟩
  · simp [awArr, rwArr, dilV]; omega
  · obtain ⟨d', rfl⟩ : ∃ d', d = d' + 1 := ⟨d - 1, by omega⟩
    obtain ⟨K', rfl⟩ : ∃ K', K = K' + 1 := ⟨K - 1, by omega⟩
    simp [awArr, rwArr, dilV, expandV, expandShape, cwa1, convExpandSpacing, posI]
    ring
  · obtain ⟨d', rfl⟩ : ∃ d', d = d' + 1 := ⟨d - 1, by omega⟩
    obtain ⟨K', rfl⟩ : ∃ K', K = K' + 1 := ⟨K - 1, by omega⟩
    simp [awArr, rwArr, dilV, expandV, expandShape, cwa1, cexp1, posI]
    ring

theorem div_lt_of_lt_dil {k' K d : Nat} (hK : 0 < K) (hd : 0 < d) (h : k' < (K - 1) * d + 1) : k' / d < K := by
  obtain ⟨K', rfl⟩ : ∃ K', K = K' + 1 := ⟨K - 1, by omega⟩
  rw [Nat.div_lt_iff_lt_mul hd]
  have e : (K' + 1) * d = K' * d + d := by ring
  simp only [Nat.add_sub_cancel] at h
  rw [e]; omega

theorem awArr_get {w : Arr Int} {Og g Cg K : Nat} (hw : w.shape = [Og * g, Cg, K]) (hK : 0 < K) {dil : PArg} (hdil : PosForm dil)
    {a b c k' : Nat} (ha : a < Og) (hb : b < g) (hc : c < Cg) (hk : k' < (K - 1) * dilV dil + 1) :
    (awArr w Og g Cg K dil).get [b, a, c, k'] = if k' % dilV dil = 0 then w.get [b * Og + a, c, k' / dilV dil] else 0 := by
  rcases hdil with rfl | ⟨d, hd, rfl⟩ | ⟨d, hd, rfl⟩
  · simp only [dilV, Nat.mul_one] at hk ⊢
    have hk' : k' < K := by omega
    simp only [Nat.mod_one, if_true, Nat.div_one, awArr, rwArr, hw]
    rw [rsh_weight ha hb hc hk']
  · simp only [dilV] at hk ⊢
    have hk' := div_lt_of_lt_dil hK hd hk
    obtain ⟨d', rfl⟩ : ∃ d', d = d' + 1 := ⟨d - 1, by omega⟩
    simp only [awArr, rwArr, expandV, expandGet, cwa1, convExpandSpacing, List.replicate, List.zip_cons_cons, List.zip_nil_right, expandIdx, posI,
      List.length_cons, List.length_nil]
    by_cases hm : k' % (d' + 1) = 0
    · simp [hm, hw]
      rw [rsh_weight ha hb hc hk']
    · simp [hm]
  · simp only [dilV] at hk ⊢
    have hk' := div_lt_of_lt_dil hK hd hk
    obtain ⟨d', rfl⟩ : ∃ d', d = d' + 1 := ⟨d - 1, by omega⟩
    simp only [awArr, rwArr, expandV, expandGet, cwa1, cexp1, Nat.add_sub_cancel, List.zip_cons_cons, List.zip_nil_right, expandIdx, posI,
      List.length_cons, List.length_nil]
    by_cases hm : k' % (d' + 1) = 0
    · simp [hm, hw]
      rw [rsh_weight ha hb hc hk']
    · simp [hm]

/-! ### stage 2: the input -/

def padVal : PArg → Nat | .none => 0 | .int p => p | .arr [p] => p | .arr _ => 0

/-- accepted forms: None, an integer, or a one-element index array -/
def IntForm (a : PArg) : Prop := a = .none ∨ (∃ p, a = .int p) ∨ (∃ p, a = .arr [p])

def rinArr (x : Arr Int) (N g Cg L : Nat) : Arr Int :=
  ⟨[N, g, 1, Cg, L], fun d => x.get (reshapeIdx x.shape [N, g, 1, Cg, L] d)⟩

def ainArr (x : Arr Int) (N g Cg L : Nat) (pad : PArg) : Arr Int :=
  match pad with
  | .none => rinArr x N g Cg L
  | _ => ⟨[N, g, 1, Cg, L + padVal pad + padVal pad], padGet (rinArr x N g Cg L) [0, 0, 0, 0, padVal pad]⟩

theorem convInput1_eq {x : Arr Int} {N g Cg L : Nat} (hx : x.shape = [N, g * Cg, L]) (hg : 0 < g) {pad : PArg} (hpad : IntForm pad) :
    convInput 1 x pad g = .ok (ainArr x N g Cg L pad) := by
  have hdiv : g * Cg / g = Cg := Nat.mul_div_cancel_left _ hg
  have hprod : prod x.shape = prod [N, g, 1, Cg, L] := by rw [hx]; simp only [prod]; ring
  have hre := reshapeV_some (a := x) (dst := [N, g, 1, Cg, L]) (by simp) hprod
  unfold convInput
  rw [hx, cri1, hdiv, hre]
  rcases hpad with rfl | ⟨p, rfl⟩ | ⟨p, rfl⟩
  · rfl
  · simp only [List.length_cons, List.length_nil, Nat.reduceAdd, Nat.zero_add, padV, cpad1]
    simp [ainArr, padVal, padShape, rinArr]
  · simp only [List.length_cons, List.length_nil, Nat.reduceAdd, Nat.zero_add, padV, cpad1a]
    simp [ainArr, padVal, padShape, rinArr]

theorem ainArr_shape {x : Arr Int} {N g Cg L : Nat} {pad : PArg} (hpad : IntForm pad) :
    (ainArr x N g Cg L pad).shape = [N, g, 1, Cg, L + 2 * padVal pad] := by
  rcases hpad with rfl | ⟨p, rfl⟩ | ⟨p, rfl⟩
  · simp [ainArr, rinArr, padVal]
  · simp [ainArr, padVal]; omega
  · simp [ainArr, padVal]; omega

theorem padIdx_1d {N g Cg L p n b c j : Nat} (hn : n < N) (hb : b < g) (hc : c < Cg) :
    padIdx [n, b, 0, c, j] [N, g, 1, Cg, L] [0, 0, 0, 0, p]
      = if j < p ∨ j ≥ L + p then none else some [n, b, 0, c, j - p] := by
  have h1 : ¬ N ≤ n := by omega
  have h2 : ¬ g ≤ b := by omega
  have h3 : ¬ Cg ≤ c := by omega
  by_cases h : j < p ∨ j ≥ L + p <;> simp [padIdx, h1, h2, h3, h]

theorem ainArr_get {x : Arr Int} {N g Cg L : Nat} (hx : x.shape = [N, g * Cg, L]) {pad : PArg} (hpad : IntForm pad)
    {n b c j : Nat} (hn : n < N) (hb : b < g) (hc : c < Cg) (hj : j < L + 2 * padVal pad) :
    (ainArr x N g Cg L pad).get [n, b, 0, c, j] = padRead x L (padVal pad) n (b * Cg + c) j := by
  have padded : ∀ p, j < L + 2 * p →
      padGet (rinArr x N g Cg L) [0, 0, 0, 0, p] [n, b, 0, c, j] = padRead x L p n (b * Cg + c) j := by
    intro p hj
    simp only [padGet, padRead, rinArr, padIdx_1d hn hb hc]
    by_cases h : p ≤ j ∧ j < L + p
    · have h1 : ¬ (j < p ∨ j ≥ L + p) := by omega
      simp only [h1, if_false, h, and_self, if_true, hx]
      rw [rsh_input hn hb hc (by omega)]
    · have h1 : (j < p ∨ j ≥ L + p) := by omega
      simp only [h1, if_true, h, if_false]
  rcases hpad with rfl | ⟨p, rfl⟩ | ⟨p, rfl⟩
  · simp only [padVal, Nat.mul_zero, Nat.add_zero] at hj
    simp only [ainArr, rinArr, padRead, padVal, hx, Nat.zero_le, true_and, Nat.add_zero, hj, if_true, Nat.sub_zero]
    rw [rsh_input hn hb hc hj]
  · exact padded p hj
  · exact padded p hj

/-! ### stage 3: windows, multiply, sum, merge groups -/

theorem sw_shape5 (a b c d Lp Kp : Nat) :
    slidingWindowShape [a, b, c, d, Lp] [Kp] [-1] = [a, b, c, d, Lp - (Kp - 1), Kp] := by
  simp [slidingWindowShape, posI]

theorem sw_shape4 (a b c Kp : Nat) :
    slidingWindowShape [a, b, c, Kp] [Kp] [-1] = [a, b, c, Kp - (Kp - 1), Kp] := by
  simp [slidingWindowShape, posI]

theorem sw_idx5 (n0 n1 b c l k : Nat) : slidingWindowIdx 5 [-1] [n0, n1, b, c, l, k] = [n0, n1, b, c, l + k] := by
  simp [slidingWindowIdx, slidingWindowIdx.go, posI]

theorem sw_idx4 (a b c z k : Nat) : slidingWindowIdx 4 [-1] [a, b, c, z, k] = [a, b, c, z + k] := by
  simp [slidingWindowIdx, slidingWindowIdx.go, posI]

theorem bshape_core {N Og g Cg Lo Kp : Nat} (hOg : 0 < Og) (hLo : 0 < Lo) :
    bshape [N, g, 1, Cg, Lo, Kp] [g, Og, Cg, 1, Kp] = some [N, g, Og, Cg, Lo, Kp] := by
  have h1 : max Lo 1 = Lo := by omega
  have h2 : max 1 Og = Og := by omega
  simp [bshape, bshapeRev, h1, h2]

theorem sum_shape (N a b Cg Lo Kp : Nat) :
    removeAxes [5, 3] 0 [N, a, b, Cg, Lo, Kp] = [N, a, b, Lo] ∧ pickAxes [5, 3] 0 [N, a, b, Cg, Lo, Kp] = [Cg, Kp] := by
  simp [removeAxes, pickAxes]

theorem merge6 (n a b l c k : Nat) : mergeIdx [5, 3] 6 0 [n, a, b, l] [c, k] = [n, a, b, c, l, k] := by
  simp [mergeIdx]

theorem convCore1 {ain aw : Arr Int} {N Og g Cg Lp Kp : Nat} (hain : ain.shape = [N, g, 1, Cg, Lp]) (haw : aw.shape = [g, Og, Cg, Kp])
    (hOg : 0 < Og) (hg : 0 < g) (hKp : 0 < Kp) (hfit : Kp ≤ Lp) :
    ∃ rs, convCore 1 ain aw = some rs ∧ rs.shape = [N, Og * g, Lp - (Kp - 1)] ∧
      ∀ n o l, n < N → o < Og * g → l < Lp - (Kp - 1) →
        rs.get [n, o, l] = sumTo Cg (fun c => sumTo Kp (fun k =>
          ain.get [n, o / Og, 0, c, l + k] * aw.get [o / Og, o % Og, c, k])) := by
  have e1 : Kp - (Kp - 1) = 1 := by omega
  have hLo : 0 < Lp - (Kp - 1) := by omega
  unfold convCore
  simp only [haw, cks1, cwa1, csa1, slidingWindowV, hain, sw_shape5, sw_shape4, e1, binop, bshape_core hOg hLo,
    Option.map_some, Option.bind_some, sumAxes, List.length_cons, List.length_nil, List.map_cons, List.map_nil]
  have hp : posI (0 + 1 + 1 + 1 + 1 + 1 + 1) (-1) = 5 := by decide
  have hp3 : posI (0 + 1 + 1 + 1 + 1 + 1 + 1) (-3) = 3 := by decide
  simp only [hp, hp3, (sum_shape N g Og Cg (Lp - (Kp - 1)) Kp).1, (sum_shape N g Og Cg (Lp - (Kp - 1)) Kp).2, crr1]
  rw [reshapeV_some (by simp) (by simp only [prod]; ring)]
  rw [Nat.mul_comm g Og]
  refine ⟨_, rfl, rfl, ?_⟩
  intro n o l hn ho hl
  simp only []
  rw [rsh_reduce hOg hn ho hl, listSum_allIdx2]
  apply sumTo_congr; intro c hc
  apply sumTo_congr; intro k hk
  have ha : o % Og < Og := Nat.mod_lt _ hOg
  have hb : o / Og < g := div_lt_groups hOg ho
  simp only [Nat.reduceAdd, Nat.zero_add, merge6, bIdx, List.length_cons, List.length_nil, Nat.sub_self, List.drop_zero, List.drop_succ_cons,
    List.zipWith_cons_cons, List.zipWith_nil_right, if_true, bsel hn, bsel hb, bsel hc, bsel hl, bsel hk, bsel ha, sw_idx5, sw_idx4, Nat.zero_add]

/-! ### stage 4: bias and stride -/

def biasVal (bias : Option (Arr Int)) (o : Nat) : Int := match bias with | none => 0 | some b => b.get [o]

theorem convBias1 {rs : Arr Int} {N O Lo : Nat} (hrs : rs.shape = [N, O, Lo]) (hLo : 0 < Lo) (bias : Option (Arr Int))
    (hb : ∀ b, bias = some b → b.shape = [O]) :
    ∃ ad, convBias 1 rs bias = some ad ∧ ad.shape = [N, O, Lo] ∧
      ∀ n o l, n < N → o < O → l < Lo → ad.get [n, o, l] = rs.get [n, o, l] + biasVal bias o := by
  cases bias with
  | none => exact ⟨rs, rfl, hrs, fun n o l _ _ _ => by simp [biasVal]⟩
  | some b =>
    have hbs := hb b rfl
    have h1 : max Lo 1 = Lo := by omega
    have hbsh : bshape [N, O, Lo] [O, 1] = some [N, O, Lo] := by simp [bshape, bshapeRev, h1]
    unfold convBias
    simp only [hbs, crb1]
    rw [reshapeV_some (by simp) (by rw [hbs]; simp only [prod])]
    simp only [Option.bind_some, binop, hrs, hbsh, Option.map_some]
    refine ⟨_, rfl, rfl, ?_⟩
    intro n o l hn ho hl
    simp only [biasVal, hbs, bIdx, List.length_cons, List.length_nil, Nat.reduceAdd, Nat.zero_add, Nat.sub_self, List.drop_zero,
      Nat.reduceSub, List.drop_succ_cons, List.zipWith_cons_cons, List.zipWith_nil_right, if_true, bsel hn, bsel ho, bsel hl,
      rsh_bias ho]

def strideVal : PArg → Nat | .none => 1 | .int s => s | .arr [s] => s | .arr _ => 0

theorem convStride1 {ad : Arr Int} {N O Lo : Nat} (had : ad.shape = [N, O, Lo]) {stride : PArg} (hs : PosForm stride) :
    (convStride 1 ad stride).shape = [N, O, (Lo + strideVal stride - 1) / strideVal stride] ∧
      ∀ n o l, (convStride 1 ad stride).get [n, o, l] = ad.get [n, o, l * strideVal stride] := by
  rcases hs with rfl | ⟨s, hs, rfl⟩ | ⟨s, hs, rfl⟩
  · simp [convStride, strideVal, had]
  · simp [convStride, strideVal, sliceStepV, sliceStepShape, sliceStepIdx, convSteps, had]
  · simp [convStride, strideVal, sliceStepV, sliceStepShape, sliceStepIdx, convSteps, had, List.range, List.range.loop]

/-! ### assembly: conv1d = the nested loop -/

theorem dilV_pos {a : PArg} (h : PosForm a) : 0 < dilV a := by
  rcases h with rfl | ⟨d, hd, rfl⟩ | ⟨d, hd, rfl⟩ <;> simp [dilV, *]

theorem strideVal_pos {a : PArg} (h : PosForm a) : 0 < strideVal a := by
  rcases h with rfl | ⟨d, hd, rfl⟩ | ⟨d, hd, rfl⟩ <;> simp [strideVal, *]

/-- `⌈Lo/s⌉ = ⌊(L + 2p − d(K−1) − 1)/s⌋ + 1` where `Lo = L + 2p − ((K−1)d + 1 − 1)` is the stride-1 extent -/
theorem out_arith {L K s p d : Nat} (hs : 0 < s) (hfit : (K - 1) * d + 1 ≤ L + 2 * p) :
    (L + 2 * p - ((K - 1) * d + 1 - 1) + s - 1) / s = outSize L K s p d := by
  unfold outSize
  rw [Nat.mul_comm d (K - 1)]
  have e : L + 2 * p - ((K - 1) * d + 1 - 1) + s - 1 = (L + 2 * p - (K - 1) * d - 1) + s := by omega
  rw [e, Nat.add_div_right _ hs]

theorem mul_lt_of_lt_ceil {l s n : Nat} (hs : 0 < s) (h : l < (n + s - 1) / s) : l * s < n := by
  by_contra hc
  have hc : n ≤ l * s := by omega
  have : (n + s - 1) / s < l + 1 := by
    rw [Nat.div_lt_iff_lt_mul hs]
    have : (l + 1) * s = l * s + s := by ring
    omega
  omega

/-- `Σ_{k'} [d ∣ k'] F(k'/d, k')` over a dilated kernel of `K` taps -/
theorem sumTo_dilate' (K d : Nat) (hK : 0 < K) (hd : 0 < d) (F : Nat → Nat → Int) :
    sumTo ((K - 1) * d + 1) (fun k' => if k' % d = 0 then F (k' / d) k' else 0) = sumTo K (fun k => F k (k * d)) := by
  obtain ⟨K', rfl⟩ : ∃ K', K = K' + 1 := ⟨K - 1, by omega⟩
  simpa using sumTo_dilate K' d hd F

theorem convnd1_eq_codeLoop {x w : Arr Int} {bias : Option (Arr Int)} {N Og g Cg L K : Nat} {stride padding dilation : PArg}
    (hx : x.shape = [N, g * Cg, L]) (hw : w.shape = [Og * g, Cg, K]) (hb : ∀ b, bias = some b → b.shape = [Og * g])
    (hOg : 0 < Og) (hg : 0 < g) (hK : 0 < K) (hs : PosForm stride) (hp : IntForm padding) (hd : PosForm dilation)
    (hfit : (K - 1) * dilV dilation + 1 ≤ L + 2 * padVal padding) :
    ∃ r, convnd 1 x w bias stride padding dilation g = .ok r ∧
      r.shape = [N, Og * g, outSize L K (strideVal stride) (padVal padding) (dilV dilation)] ∧
      ∀ n o l, n < N → o < Og * g → l < outSize L K (strideVal stride) (padVal padding) (dilV dilation) →
        r.get [n, o, l] = conv1dLoop (grpCode Og) x w bias L Cg K (strideVal stride) (padVal padding) (dilV dilation) n o l := by
  have hdp := dilV_pos hd
  have hsp := strideVal_pos hs
  obtain ⟨rs, hrs, hrss, hrsg⟩ := convCore1 (ain := ainArr x N g Cg L padding) (aw := awArr w Og g Cg K dilation)
    (ainArr_shape hp) (awArr_shape hK hd) hOg hg (Nat.succ_pos _) hfit
  have hLo : 0 < L + 2 * padVal padding - ((K - 1) * dilV dilation + 1 - 1) := by omega
  obtain ⟨ad, had, hads, hadg⟩ := convBias1 hrss hLo bias hb
  have hst := convStride1 hads hs
  refine ⟨convStride 1 ad stride, ?_, ?_, ?_⟩
  · unfold convnd
    rw [convWeight1_eq hw hg, convInput1_eq hx hg hp]
    simp only [hrs, Option.bind_some, had]
  · rw [hst.1, out_arith hsp hfit]
  · intro n o l hn ho hl
    rw [hst.2]
    have hls : l * strideVal stride < L + 2 * padVal padding - ((K - 1) * dilV dilation + 1 - 1) := by
      apply mul_lt_of_lt_ceil hsp
      rw [out_arith hsp hfit]; exact hl
    rw [hadg n o _ hn ho hls, hrsg n o _ hn ho hls]
    unfold conv1dLoop grpCode
    congr 1
    apply sumTo_congr; intro c hc
    have hb' : o / Og < g := div_lt_groups hOg ho
    have ha' : o % Og < Og := Nat.mod_lt _ hOg
    have hog : o / Og * Og + o % Og = o := by rw [Nat.mul_comm]; exact Nat.div_add_mod o Og
    have step : ∀ k', k' < (K - 1) * dilV dilation + 1 →
        (ainArr x N g Cg L padding).get [n, o / Og, 0, c, l * strideVal stride + k'] * (awArr w Og g Cg K dilation).get [o / Og, o % Og, c, k']
        = if k' % dilV dilation = 0 then
            padRead x L (padVal padding) n (o / Og * Cg + c) (l * strideVal stride + k') * w.get [o, c, k' / dilV dilation]
          else 0 := by
      intro k' hk'
      rw [ainArr_get hx hp hn hb' hc (by omega), awArr_get hw hK hd ha' hb' hc hk', hog]
      split <;> simp
    rw [sumTo_congr step]
    exact sumTo_dilate' K (dilV dilation) hK hdp (fun k k' =>
      padRead x L (padVal padding) n (o / Og * Cg + c) (l * strideVal stride + k') * w.get [o, c, k])

/-- the code's group assignment `o / Og` is PyTorch's `o / (O/g)` for every `groups`: `O = Og·g`, so `O / g = Og` -/
theorem grpCode_eq_grpSpec {Og g : Nat} (hg : 0 < g) (o : Nat) : grpCode Og o = grpSpec (Og * g) g o := by
  unfold grpCode grpSpec
  rw [Nat.mul_div_cancel _ hg]

/-- where the assignment `o % g` of the code before fixes/C17-conv-groups-interleaved coincided with PyTorch's: one
    group, or one output channel per group -/
theorem grpInterleaved_eq_grpSpec {Og g o : Nat} (hdom : g = 1 ∨ Og = 1) (ho : o < Og * g) : grpInterleaved g o = grpSpec (Og * g) g o := by
  unfold grpInterleaved grpSpec
  rcases hdom with rfl | rfl
  · simp only [Nat.mul_one, Nat.mod_one, Nat.div_one] at ho ⊢
    exact (Nat.div_eq_of_lt ho).symm
  · simp only [Nat.one_mul] at ho ⊢
    have hg : 0 < g := by omega
    rw [Nat.mod_eq_of_lt ho, Nat.div_self hg, Nat.div_one]

theorem conv1dLoop_congr_grp {grp grp' : Nat → Nat} {o : Nat} (h : grp o = grp' o) (x w : Arr Int) (bias : Option (Arr Int))
    (L Cg K s p d n l : Nat) : conv1dLoop grp x w bias L Cg K s p d n o l = conv1dLoop grp' x w bias L Cg K s p d n o l := by
  unfold conv1dLoop; rw [h]

/-- is the evaluation defined (not Nothing, not UB) -/
def Res.isOk {α : Type} : Res α → Bool
  | .ok _ => true
  | _ => false

end NmVerif.NN
