// C17 harness: linear / bilinear / pairwise_distance / cosine_similarity (evaluated)
//   linear dt=f|i xs x ws w b=None|.. [bs]
//   bilinear dt=f|i as a bs b ws w c=None|.. [cs]          (a, b: inputs, w: (out,in1,in2), c: bias)
//   pairwise_distance as a bs b ord=int eps=real keepdims=0|1 | form=default
//   cosine_similarity as a bs b axis=int | form=default
#include "nmtools/array/array/linear.hpp"
#include "nmtools/array/array/bilinear.hpp"
#include "nmtools/array/array/pairwise_distance.hpp"
#include "nmtools/array/array/cosine_similarity.hpp"
#include "c17_util.hpp"

using namespace c17;

template <typename T> static std::string linear(const Args& a) {
    auto x = mk<T>(a, "x"); auto w = mk<T>(a, "w");
    if (proto::is_none(a, "b")) return fmt_result(na::linear(x, w));
    auto b = mk<T>(a, "b");
    return fmt_result(na::linear(x, w, b));
}
template <typename T> static std::string bilinear(const Args& a) {
    auto x = mk<T>(a, "a"); auto y = mk<T>(a, "b"); auto w = mk<T>(a, "w");
    if (proto::is_none(a, "c")) return fmt_result(na::bilinear(x, y, w));
    auto c = mk<T>(a, "c");
    return fmt_result(na::bilinear(x, y, w, c));
}

std::string handle(const std::string& op, const Args& a) {
    if (op == "linear") return proto::get(a, "dt") == "i" ? linear<int>(a) : linear<float>(a);
    if (op == "bilinear") return proto::get(a, "dt") == "i" ? bilinear<int>(a) : bilinear<float>(a);
    if (op == "pairwise_distance") {
        auto x = mk<float>(a, "a"); auto y = mk<float>(a, "b");
        if (proto::has(a, "form")) return fmt_result(na::pairwise_distance(x, y));
        int ord = (int)proto::integer(a, "ord"); float eps = (float)std::stod(proto::get(a, "eps"));
        if (proto::has(a, "api") && proto::get(a, "api") == "view")
            return proto::integer(a, "keepdims") ? fmt_result(na::eval(nmtools::view::pairwise_distance(x, y, ord, eps, nm::True)))
                                                 : fmt_result(na::eval(nmtools::view::pairwise_distance(x, y, ord, eps, nm::False)));
        if (proto::integer(a, "keepdims")) return fmt_result(na::pairwise_distance(x, y, ord, eps, nm::True));
        return fmt_result(na::pairwise_distance(x, y, ord, eps, nm::False));
    }
    if (op == "cosine_similarity") {
        auto x = mk<float>(a, "a"); auto y = mk<float>(a, "b");
        if (proto::has(a, "form")) return fmt_result(na::cosine_similarity(x, y));
        int axis = (int)proto::integer(a, "axis");
        if (proto::has(a, "eps")) {     // explicit eps, lazily (api=view: the view evaluated here) or eagerly (api=array)
            float eps = (float)std::stod(proto::get(a, "eps"));
            if (proto::has(a, "api") && proto::get(a, "api") == "view") return fmt_result(na::eval(nmtools::view::cosine_similarity(x, y, axis, eps)));
            return fmt_result(na::cosine_similarity(x, y, axis, eps));
        }
        return fmt_result(na::cosine_similarity(x, y, axis));
    }
    return "unknown-op";
}
