import NmVerif.Arr
/-
  NmVerif.Index.Flip — MODEL of
    include/nmtools/array/index/flip.hpp   index::flip_slices   (axis i gets the slice (None, None, -1) iff "in axes")
    include/nmtools/array/view/flip.hpp    view::flip = apply_slice(array, flip_slices(dim, axes))

  The slice machinery is C05's; here the effect of a `(None, None, -1)` slice on an axis of extent `n` is modelled
  directly as `i ↦ n-1-i` with unchanged extent (validated against the real headers by the correspondence run).
  What IS mirrored from flip.hpp: membership of axis `i` in `axes` — every entry `a` is normalised NumPy-style
  (`a < 0 ⇒ a + dim`) and compared with `i`; an entry that is still out of range matches no axis and is ignored.

  Stable names:
    flipInAxis axes dim i : Bool                 axes : Option (List Int), `none` = all axes
    flipIdx    src axes : Idx → Idx
    flipView   src axes : Option IxView          (always `some`: the C++ never returns Nothing here)

  Core Lean only.
-/
namespace NmVerif

/-- `in_axis` of `flip_slices`: `normalize(a) == i` with `normalize(a) = (size_t)(a < 0 ? a + dim : a)` -/
def flipInAxis (axes : Option (List Int)) (dim : Nat) (i : Nat) : Bool :=
  match axes with
  | none => true
  | some ax => ax.any (fun a => (if a < 0 then a + (dim : Int) else a) == (i : Int))

/-- positions `k, k+1, …` of the index: flipped where in axes -/
def flipGo (axes : Option (List Int)) (dim : Nat) : Nat → Shape → Idx → Idx
  | k, n :: ns, i :: is => (if flipInAxis axes dim k then n - 1 - i else i) :: flipGo axes dim (k+1) ns is
  | _, _, _ => []

def flipIdx (src : Shape) (axes : Option (List Int)) (d : Idx) : Idx := flipGo axes src.length 0 src d

def flipView (src : Shape) (axes : Option (List Int)) : Option IxView :=
  some ⟨src, src, fun d => some (flipIdx src axes d)⟩

end NmVerif
