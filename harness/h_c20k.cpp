// C20 harness, cast(a, kind): every kind tag of utility/cast.hpp / ndarray.hpp (fixed, hybrid, dynamic and the 15
// ndarray_t shape x buffer kinds) applied to sources whose shape is known at compile time (the tags resolve the
// destination type from it): fixed_ndarray (`fx`), ndarray_t with a constant shape, row-major (`cf`) and
// column-major (`cfc`).  Source buffer cell k holds base+k (physical order).
//   castkind src=<fx|cf|cfc> shape=<s> tag=<fixed|hybrid|dynamic|{c,f,h,d,l}_{f,h,d}> base=<int>
//   -> ok shape=… strides=<strides()> astrides=<addressing strides> n=<cells> data=<buffer>
#include "nmtools/array/ndarray.hpp"
#include "nmtools/array/ndarray/fixed.hpp"
#include "nmtools/array/ndarray/hybrid.hpp"
#include "nmtools/array/ndarray/dynamic.hpp"
#include "nmtools/utility/cast.hpp"
#include "nmtools/utility/at.hpp"
#include "proto.hpp"
#include <array>
#include <vector>
#include <type_traits>

namespace nm = nmtools; namespace na = nmtools::array; namespace meta = nmtools::meta; namespace kind = nmtools::array::kind;
using namespace proto;

template <typename V> static uvec tov(const V& v) {
    uvec r;
    constexpr auto N = meta::len_v<V>;
    if constexpr (meta::is_tuple_v<V>) { meta::template_for<N>([&](auto i){ r.push_back((size_t)nm::at(v,i)); }); }
    else { for (size_t i=0;i<(size_t)nm::len(v);i++) r.push_back((size_t)nm::at(v,i)); }
    return r;
}
static size_t prod_of(const uvec& s) { size_t n=1; for (auto e : s) n*=e; return n; }

template <typename A> struct is_fixed : std::false_type {};
template <typename T, size_t... S> struct is_fixed<na::fixed_ndarray<T,S...>> : std::true_type {};
template <typename A> struct is_hyb : std::false_type {};
template <typename T, size_t N, size_t D> struct is_hyb<na::hybrid_ndarray<T,N,D>> : std::true_type {};
template <typename A> struct is_dyn : std::false_type {};
template <typename T> struct is_dyn<na::dynamic_ndarray<T>> : std::true_type {};
template <typename A> constexpr bool legacy_v = is_fixed<A>::value || is_hyb<A>::value || is_dyn<A>::value;

template <typename A> static size_t cells(const A& a) {
    if constexpr (legacy_v<A>) return prod_of(tov(nm::shape(a))); else return (size_t)nm::len(a.data_);
}
template <typename A> static auto* buf(A& a) {
    if constexpr (is_fixed<A>::value) return (int*)&a.data;
    else if constexpr (is_dyn<A>::value) return a.data.data();
    else if constexpr (is_hyb<A>::value) return a.data();
    else return &a.data_[0];
}
template <typename A> static std::string dump(A& a) {
    size_t n = cells(a); std::vector<long long> d; for (size_t k=0;k<n;k++) d.push_back((long long)buf(a)[k]);
    uvec as; if constexpr (legacy_v<A>) as = tov(a.strides()); else as = tov(a.offset_.strides_);
    return "ok shape=" + fmt(tov(nm::shape(a))) + " strides=" + fmt(tov(a.strides())) + " astrides=" + fmt(as)
         + " n=" + std::to_string(n) + " data=" + fmt(d);
}

template <typename Src> static std::string with_tag(const Src& a, const std::string& t) {
#define TAG(name, expr) if (t==name) { auto r = nm::cast(a, expr); return dump(r); }
    TAG("fixed", kind::fixed) TAG("hybrid", kind::hybrid) TAG("dynamic", kind::dynamic)
    TAG("c_f", kind::ndarray_cs_fb) TAG("c_h", kind::ndarray_cs_hb) TAG("c_d", kind::ndarray_cs_db)
    TAG("f_f", kind::ndarray_fs_fb) TAG("f_h", kind::ndarray_fs_hb) TAG("f_d", kind::ndarray_fs_db)
    TAG("h_f", kind::ndarray_hs_fb) TAG("h_h", kind::ndarray_hs_hb) TAG("h_d", kind::ndarray_hs_db)
    TAG("d_f", kind::ndarray_ds_fb) TAG("d_h", kind::ndarray_ds_hb) TAG("d_d", kind::ndarray_ds_db)
    TAG("l_f", kind::ndarray_ls_fb) TAG("l_h", kind::ndarray_ls_hb) TAG("l_d", kind::ndarray_ls_db)
#undef TAG
    return "unsupported-tag";
}
template <typename Src> static std::string from(const std::string& t, long long base) {
    Src a; size_t n = cells(a);
    for (size_t k=0;k<n;k++) buf(a)[k] = (int)(base + (long long)k);
    return with_tag(a, t);
}

template <size_t... S> using cshape = nmtools_tuple<meta::ct<S>...>;

std::string handle(const std::string& op, const Args& a) {
    if (op!="castkind") return "unknown-op";
    auto src = get(a,"src"); auto sh = fmt(nats(a,"shape")); auto tag = get(a,"tag"); long long base = integer(a,"base");
    // two TUs (compile time): -DC20_KSRC=0 fixed_ndarray sources and the row-major constant-shape one, 1 the column-major ones
#ifndef C20_KSRC
#define C20_KSRC 0
#endif
#if C20_KSRC == 0
    if (src=="fx" && sh=="4")     return from<na::fixed_ndarray<int,4>>(tag, base);
    if (src=="fx" && sh=="2,3")   return from<na::fixed_ndarray<int,2,3>>(tag, base);
    if (src=="cf" && sh=="2,3")   return from<na::ndarray_t<std::array<int,6>, cshape<2,3>>>(tag, base);
#else
    if (src=="cfc" && sh=="3,2")  return from<na::column_major_ndarray_t<std::array<int,6>, cshape<3,2>>>(tag, base);
    if (src=="cfc" && sh=="2,1,3") return from<na::column_major_ndarray_t<std::vector<int>, cshape<2,1,3>>>(tag, base);
#endif
    return "unsupported-source";
}
