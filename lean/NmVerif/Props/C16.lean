import NmVerif.Basic
import NmVerif.Arr
import NmVerif.Linalg
import NmVerif.Lemmas.LinalgList
import NmVerif.Lemmas.LinalgMatmul
/-
  C16 — Linear-algebra routines equal their mathematical definitions.
  Only property statements (+ non-vacuity examples, counterexample theorems) live here; the proofs are in
  Lemmas/Linalg*.lean.  MODEL and SPEC: NmVerif/Linalg.lean, Index/Matmul.lean, Index/MatmulBroadcast.lean.

  Results are *symbolic*: a routine returns, for every destination index, the list of product terms
  `(lhs index, rhs index)` it sums, in fold order; `valueAt` evaluates such a list on concrete data.
-/
namespace NmVerif.Props.C16
open NmVerif NmVerif.Linalg

/-! ### matmul -/

/-- `index::shape_matmul` is NumPy's rule for every pair of operand shapes of rank ≥ 1 (accepted or refused):
    `Nothing` exactly when the contracted extents differ or the batch parts do not broadcast; otherwise
    broadcast(batch) ++ [m] (lhs not 1-d) ++ [n] (rhs not 1-d). -/
theorem shapeMatmul_eq_numpy (sa sb : Shape) (ha : 1 ≤ sa.length) (hb : 1 ≤ sb.length) :
    shapeMatmul sa sb = specMatmulShape sa sb := shapeMatmul_eq_spec sa sb ha hb

example : shapeMatmul [2, 1, 3, 4] [5, 4, 2] = some [2, 5, 3, 2] := by decide
example : shapeMatmul [4] [3, 4, 2] = some [3, 2] := by decide
example : shapeMatmul [2, 3] [4, 2] = none := by decide

/-- `view::matmul` (slicing implementation), both operands of rank ≥ 2, any batch ranks / broadcast pattern:
    the shape is NumPy's and the terms summed for `out[β…, i, j]` are exactly
    `a[β_a…, i, k] · b[β_b…, k, j]` for `k = 0, …, K-1`, in this order. -/
theorem matmul_elem_eq_sum (sa sb dst : Shape) (ha : 2 ≤ sa.length) (hb : 2 ≤ sb.length)
    (hacc : specMatmulShape sa sb = some dst) :
    ∃ r, matmulV1 sa sb = some r ∧ r.shape = dst ∧
      ∀ d, InShape d dst → r.get d = some (specMatmulTerms sa sb d) :=
  matmulV1_eq_spec sa sb dst ha hb hacc

example : specMatmulShape [2, 1, 2, 3] [4, 3, 2] = some [2, 4, 2, 2] := by decide
example : specMatmulTerms [2, 1, 2, 3] [4, 3, 2] [1, 3, 0, 1] =
    [([1, 0, 0, 0], [3, 0, 1]), ([1, 0, 0, 1], [3, 1, 1]), ([1, 0, 0, 2], [3, 2, 1])] := by decide

/-- the unchanged `view::matmul` has no working 1-d promotion: the slicing reads `at(indices, -2)` of a 1-entry index
    (known finding matmul.v1-1d-operand); NumPy's answer is the single sum `Σ_k a[k]·b[k]` -/
theorem matmul_v1_1d_counterexample :
    (matmulV1 [3] [3]).map (fun r => r.get []) = some none ∧
    (specMatmul [3] [3]).map (fun r => r.get []) = some [([0], [0]), ([1], [1]), ([2], [2])] := by decide

end NmVerif.Props.C16
