// C05 harness TU 1: packed (variadic / tuple) encoding with ONE slice entry, all 14 entry kinds
#include "c05_common.hpp"
using namespace c05;

template <int K> static std::string one(const std::string& level, const uvec& src, const Entry& e) {
    return run_packed(level, src, make<K>(e));
}

std::string handle(const std::string& op, const Args& a) {
    if (op != "slice") return "unknown-op";
    auto enc = get(a, "enc"); auto level = get(a, "level");
    auto src = nats(a, "shape"); auto es = parse_slices(get(a, "sl"));
    uvec at_v; if (has(a, "at")) { at_v = nats(a, "at"); at_arg() = &at_v; } else at_arg() = nullptr;
    if (enc != "packed" || es.size() != 1) return "bad-args";
    const Entry& e = es[0];
    switch (e.kind) {
#define CASE(K) case K: return one<K>(level, src, e);
        CASE(0) CASE(1) CASE(2) CASE(3) CASE(4) CASE(5) CASE(6) CASE(7) CASE(8) CASE(9) CASE(10) CASE(11) CASE(12) CASE(13)
#undef CASE
    }
    return "bad-args";
}
