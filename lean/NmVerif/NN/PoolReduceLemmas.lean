import NmVerif.NN.PoolReduce
import NmVerif.NN.PoolLemmas
import NmVerif.Lemmas.Reduce
/-
  NN/PoolReduceLemmas — the reducers of max_pool2d / avg_pool2d fold exactly the window `poolWindow` enumerates.
-/
namespace NmVerif.NN
open NmVerif.Reduce

variable {α : Type}

theorem sliceRange_eq_map (n : Nat) (sl : Nat × Nat × Nat) :
    sliceRange n sl = (List.range (sliceRange n sl).length).map (sl.1 + ·) := by
  unfold sliceRange
  simp

/-- the C-order enumeration of the sliced view's indices, mapped to source indices, is the row-major product of the
    per-axis ranges -/
theorem map_sliced_allIdx : ∀ (ns : List Nat) (sls : List (Nat × Nat × Nat)),
    (allIdx ((List.zipWith sliceRange ns sls).map List.length)).map
        (fun d => List.zipWith (fun (sl : Nat × Nat × Nat) k => sl.1 + k) sls d)
      = cartesian (List.zipWith sliceRange ns sls)
  | [], sls => by cases sls <;> simp [allIdx, cartesian]
  | _ :: _, [] => by simp [allIdx, cartesian]
  | n :: ns, sl :: sls => by
    simp only [List.zipWith_cons_cons, List.map_cons, allIdx, cartesian]
    rw [List.map_flatMap]
    conv => rhs; rw [sliceRange_eq_map n sl, List.flatMap_map]
    apply flatMap_congr'
    intro i _
    rw [List.map_map, ← map_sliced_allIdx ns sls, List.map_map]
    rfl

/-- the elements the reducer sees (flat positions `0 .. size−1` of the sliced view) are the source elements at
    `cartesian (zipWith sliceRange …)`, in that order -/
theorem slicedArr_flat (x : Arr α) (sls : List (Nat × Nat × Nat)) (hp : Pos (slicedArr x sls).shape) :
    (List.range (prod (slicedArr x sls).shape)).map (fun k => (slicedArr x sls).get (ndindex (slicedArr x sls).shape k))
      = (cartesian (List.zipWith sliceRange x.shape sls)).map x.get := by
  have h := map_ndindex_range (slicedArr x sls).shape hp
  have : (fun k => (slicedArr x sls).get (ndindex (slicedArr x sls).shape k))
      = (slicedArr x sls).get ∘ ndindex (slicedArr x sls).shape := rfl
  rw [this, ← List.map_map, h, ← map_sliced_allIdx x.shape sls, List.map_map]
  rfl

theorem removeDimsLoop_all_false (i : Nat) (s : Shape) : removeDimsLoop (fun _ => true) false i s = [] := by
  induction s generalizing i with
  | nil => rfl
  | cons a t ih => simp [removeDimsLoop, ih]

theorem removeDims_none_false (s : Shape) : removeDims s none false = some [] := by
  have h : inAxis none = fun _ => true := rfl
  simp [removeDims, unwrapAxes, h, removeDimsLoop_all_false]

/-- all lists of a list of lists non-empty ⇒ positive length vector -/
theorem pos_map_length {rs : List (List Nat)} (h : ∀ r ∈ rs, r ≠ []) : Pos (rs.map List.length) := by
  intro n hn
  simp only [List.mem_map] at hn
  obtain ⟨r, hr, rfl⟩ := hn
  exact List.length_pos_iff.2 (h r hr)

theorem rangeFrom_ne_nil {lo hi : Nat} (h : lo < hi) : rangeFrom lo hi ≠ [] := by
  intro hn
  have : lo ∈ rangeFrom lo hi := mem_rangeFrom.2 ⟨Nat.le_refl _, h⟩
  rw [hn] at this
  simp at this

theorem rangeFrom_length (lo hi : Nat) : (rangeFrom lo hi).length = hi - lo := by simp [rangeFrom]

/-- per-axis ranges of the pooling slices on the domain of the pooling theorems: unit ranges on the leading axes,
    the clipped window ranges on the last two -/
theorem pool_ranges {lead li : List Nat} (hli : InShape li lead) {H W kh kw sh sw i j : Nat}
    (hkh : 0 < kh) (hkw : 0 < kw) (hi : sh * i < H) (hj : sw * j < W) :
    List.zipWith sliceRange (lead ++ [H, W])
        (li.map (fun i => (i, i + 1, 1)) ++ [(sh * i, sh * i + kh, 1), (sw * j, sw * j + kw, 1)])
      = li.map (fun i => [i]) ++ [rangeFrom (sh * i) (min (sh * i + kh) H), rangeFrom (sw * j) (min (sw * j + kw) W)] := by
  rw [List.zipWith_append (by simp [hli.length_eq]), zipWith_sliceRange_lead hli]
  simp only [List.zipWith_cons_cons, List.zipWith_nil_right, sliceRange_window hkh hi, sliceRange_window hkw hj]

theorem pool_sliced_pos {lead li : List Nat} (hli : InShape li lead) {H W kh kw sh sw i j : Nat}
    (hkh : 0 < kh) (hkw : 0 < kw) (hi : sh * i < H) (hj : sw * j < W) (x : Arr α) (hx : x.shape = lead ++ [H, W]) :
    Pos (slicedArr x (li.map (fun i => (i, i + 1, 1)) ++ [(sh * i, sh * i + kh, 1), (sw * j, sw * j + kw, 1)])).shape := by
  show Pos ((List.zipWith sliceRange x.shape _).map List.length)
  rw [hx, pool_ranges hli hkh hkw hi hj]
  apply pos_map_length
  intro r hr
  simp only [List.mem_append, List.mem_map, List.mem_cons, List.not_mem_nil, or_false] at hr
  rcases hr with ⟨a, _, rfl⟩ | rfl | rfl
  · simp
  · exact rangeFrom_ne_nil (by omega)
  · exact rangeFrom_ne_nil (by omega)

/-- what the reducer of `pool2d_t::operator()` folds: the values at the reference window, in row-major order -/
theorem pool_sliced_flat {lead li : List Nat} (hli : InShape li lead) {H W kh kw sh sw i j : Nat}
    (hkh : 0 < kh) (hkw : 0 < kw) (hi : sh * i < H) (hj : sw * j < W) (x : Arr α) (hx : x.shape = lead ++ [H, W]) :
    let sl := slicedArr x (li.map (fun i => (i, i + 1, 1)) ++ [(sh * i, sh * i + kh, 1), (sw * j, sw * j + kw, 1)])
    (List.range (prod sl.shape)).map (fun k => sl.get (ndindex sl.shape k))
      = (specWindow li H W kh kw sh sw i j).map x.get := by
  intro sl
  rw [slicedArr_flat x _ (pool_sliced_pos hli hkh hkw hi hj x hx), hx, pool_ranges hli hkh hkw hi hj,
    cartesian_units, cartesian_two]
  unfold specWindow
  simp only [List.map_flatMap, List.map_map]
  rfl

theorem sum_map_const {β : Type} (l : List β) (c : Nat) : (l.map (fun _ => c)).sum = l.length * c := by
  induction l with
  | nil => simp
  | cons a t ih => simp [ih, Nat.add_mul, Nat.add_comm]

theorem specWindow_length (li : Idx) (H W kh kw sh sw i j : Nat) :
    (specWindow li H W kh kw sh sw i j).length
      = (min (sh * i + kh) H - sh * i) * (min (sw * j + kw) W - sw * j) := by
  unfold specWindow
  rw [List.length_flatMap]
  simp only [List.length_map, rangeFrom_length]
  rw [sum_map_const, rangeFrom_length]

/-- without identity and without initial value NumPy's fold is the fold from the first element (undefined on nothing) -/
theorem foldNumpy_none_none (op : α → α → α) (l : List α) : foldNumpy none op none l = foldFirst op none l := by
  cases l <;> rfl

theorem maxPoolElem_eq {lead li : List Nat} [LT α] [DecidableRel (α := α) (· < ·)]
    (hli : InShape li lead) {H W kh kw sh sw i j : Nat}
    (hkh : 0 < kh) (hkw : 0 < kw) (hi : sh * i < H) (hj : sw * j < W) (x : Arr α) (hx : x.shape = lead ++ [H, W]) :
    maxPoolElem x [kh, kw] [sh, sw] (li ++ [i, j])
      = foldFirst maximum none ((specWindow li H W kh kw sh sw i j).map x.get) := by
  unfold maxPoolElem
  rw [hx, slicePool2d_append lead li hli.length_eq]
  simp only [Option.bind_some, reduceElem, reduceElemId, flattenReduce_eq]
  rw [pool_sliced_flat hli hkh hkw hi hj x hx]
  exact foldNumpy_none_none _ _

theorem avgPoolElem_eq {lead li : List Nat} (add : α → α → α) (divn : α → Nat → α)
    (hli : InShape li lead) {H W kh kw sh sw i j : Nat}
    (hkh : 0 < kh) (hkw : 0 < kw) (hi : sh * i < H) (hj : sw * j < W) (x : Arr α) (hx : x.shape = lead ++ [H, W]) :
    avgPoolElem add divn x [kh, kw] [sh, sw] (li ++ [i, j])
      = (foldFirst add none ((specWindow li H W kh kw sh sw i j).map x.get)).map
          (fun S => divn S (specWindow li H W kh kw sh sw i j).length) := by
  unfold avgPoolElem
  rw [hx, slicePool2d_append lead li hli.length_eq]
  simp only [Option.bind_some, mean, unwrapAxes, meanDivisor, reduce, Option.map_none, removeDims_none_false,
    Option.map_some, reduceElem, reduceElemId, flattenReduce_eq]
  rw [pool_sliced_flat hli hkh hkw hi hj x hx, foldNumpy_none_none]
  have hlen : prod (slicedArr x (li.map (fun i => (i, i + 1, 1)) ++
      [(sh * i, sh * i + kh, 1), (sw * j, sw * j + kw, 1)])).shape = (specWindow li H W kh kw sh sw i j).length := by
    have := congrArg List.length (pool_sliced_flat hli hkh hkw hi hj x hx)
    simpa using this
  rw [hlen]

/-- a non-empty window has a defined fold -/
theorem foldFirst_some_of_ne {β : Type} (op : β → β → β) {l : List β} (h : l ≠ []) :
    ∃ y, foldFirst op none l = some y := by
  cases l with
  | nil => exact absurd rfl h
  | cons a t => exact ⟨_, rfl⟩

/-- over the integers the fold of `maximum` (`t > u ? t : u`) from the first element is the greatest element -/
theorem foldl_maximum_int (l : List Int) (a : Int) :
    l.foldl maximum a ∈ a :: l ∧ ∀ y ∈ a :: l, y ≤ l.foldl maximum a := by
  induction l generalizing a with
  | nil => simp
  | cons b t ih =>
    obtain ⟨h1, h2⟩ := ih (maximum a b)
    simp only [List.foldl_cons]
    have hm : maximum a b = a ∨ maximum a b = b := by unfold maximum; split <;> simp
    have hge : a ≤ maximum a b ∧ b ≤ maximum a b := by unfold maximum; split <;> omega
    refine ⟨?_, ?_⟩
    · simp only [List.mem_cons] at h1 ⊢
      rcases h1 with h | h
      · rcases hm with hm | hm
        · left; rw [h, hm]
        · right; left; rw [h, hm]
      · right; right; exact h
    · intro y hy
      simp only [List.mem_cons] at hy
      have hmax := h2 (maximum a b) (by simp)
      rcases hy with rfl | rfl | hy
      · omega
      · omega
      · exact h2 y (by simp [hy])

end NmVerif.NN
