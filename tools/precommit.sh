#!/bin/sh
# sanity before a commit: every property module imports, MANIFEST.json regenerates and validates, evidence files validate
cd "$(dirname "$0")/.."
/opt/veriftools/pyvenv/bin/python lib/mkmanifest.py | tail -n 1 || exit 1
/opt/veriftools/pyvenv/bin/python - <<'P' || exit 1
import json, jsonschema, glob, sys
jsonschema.validate(json.load(open('MANIFEST.json')), json.load(open('/root/.vp/MANIFEST.schema.json')))
sch = json.load(open('/root/.vp/EVIDENCE.schema.json'))
bad = 0
for f in sorted(glob.glob('evidence/*.json')):
    try: jsonschema.validate(json.load(open(f)), sch)
    except Exception as e: print('INVALID', f, str(e)[:200]); bad += 1
print('manifest valid; evidence files valid:', len(glob.glob('evidence/*.json')) - bad, 'invalid:', bad)
sys.exit(1 if bad else 0)
P
