// C12 harness, common part: array::fn(args, SIMD context) next to array::fn(args) (scalar evaluator)
// in the same binary, from $VERIF_REPO/include.  Each context TU (h_c12_<ctx>.cpp) defines
//   C12_CTX       the context object           (e.g. nmtools::array::simd::x86_AVX)
//   C12_BITS      its register width in bits   (lanes = C12_BITS / (8*sizeof(T)))
// and includes this file.
//
// request  : <kind> dtype=f32|f64 op=<name> lanes=<L> fmt=int|hex show=0|1 ... (see handle())
// answer   : ok shape=<simd result shape> val=<logical elements, row-major order>      (show=1)
//            ok shape=<simd result shape> agree                                        (show=0)
//            either one followed by " MISMATCH at=<k> simd=<v> scalar=<v> sshape=<scalar shape>"
//            when the SIMD result differs from the scalar evaluator's result (bitwise for
//            element-wise kinds, beyond the re-association tolerance for reductions / matmul).
#pragma once
#include "nmtools/array/array/ufuncs/sqrt.hpp"
#include "nmtools/array/array/ufuncs/ceil.hpp"
#include "nmtools/array/array/ufuncs/floor.hpp"
#include "nmtools/array/array/ufuncs/add.hpp"
#include "nmtools/array/array/ufuncs/subtract.hpp"
#include "nmtools/array/array/ufuncs/multiply.hpp"
#include "nmtools/array/array/ufuncs/divide.hpp"
#include "nmtools/array/array/activations/hardtanh.hpp"
#include "nmtools/array/array/activations/hardshrink.hpp"
#include "nmtools/array/array/activations/hardswish.hpp"
#include "nmtools/array/array/activations/leaky_relu.hpp"
#include "nmtools/array/array/activations/prelu.hpp"
#include "nmtools/array/array/activations/relu.hpp"
#include "nmtools/array/array/activations/relu6.hpp"
#include "nmtools/array/array/activations/softshrink.hpp"
#include "nmtools/array/array/activations/softsign.hpp"
#include "nmtools/array/array/matmul.hpp"
#include "nmtools/array/ndarray.hpp"
#include "nmtools/array/index/ndindex.hpp"
#include "nmtools/utility/at.hpp"
#include "proto.hpp"
#include <vector>
#include <cstring>
#include <cmath>
#include <cstdint>

namespace nm = nmtools; namespace na = nmtools::array; namespace meta = nmtools::meta;
using namespace proto;

namespace c12 {

template <typename T> using row_t = na::ndarray_t<std::vector<T>, std::vector<size_t>>;
template <typename T> using col_t = na::column_major_ndarray_t<std::vector<T>, std::vector<size_t>>;

inline std::vector<double> reals(const Args& a, const std::string& k) {
    std::vector<double> r; const auto& s = get(a,k); if (s=="[]"||s.empty()) return r;
    for (auto& t : split(s,',')) r.push_back(std::strtod(t.c_str(), nullptr));
    return r;
}

template <typename T> std::string hexbits(T v) {
    char buf[32];
    if constexpr (sizeof(T)==4) { uint32_t u; std::memcpy(&u,&v,4); std::snprintf(buf,sizeof buf,"%08x",u); }
    else { uint64_t u; std::memcpy(&u,&v,8); std::snprintf(buf,sizeof buf,"%016llx",(unsigned long long)u); }
    return buf;
}
template <typename T> bool same_bits(T a, T b) { return std::memcmp(&a,&b,sizeof(T))==0; }

template <typename T> std::string fmt_val(T v, bool as_int) {
    if (as_int) {
        double d = (double)v;
        if (std::isfinite(d) && std::fabs(d) < 9e15 && d == std::floor(d) && !(d==0 && std::signbit(d)))
            return std::to_string((long long)d);
        return "x" + hexbits(v);
    }
    return hexbits(v);
}

// a result (ndarray of either layout, or a number for axis=None reductions) -> shape + logical elements
template <typename T> struct flat_t { uvec shape; std::vector<T> vals; bool scalar=false; };

template <typename T, typename R> flat_t<T> flatten(const R& r) {
    flat_t<T> f;
    if constexpr (meta::is_num_v<R>) {
        f.scalar = true; f.vals.push_back((T)r);
    } else {
        auto s = nm::shape(r);
        for (size_t i=0;i<(size_t)nm::len(s);i++) f.shape.push_back((size_t)nm::at(s,i));
        auto nd = nm::index::ndindex(f.shape);
        size_t n = nd.size();
        for (size_t k=0;k<n;k++) f.vals.push_back((T)nm::apply_at(r, nd[k]));
    }
    return f;
}
template <typename T, typename R> flat_t<T> flatten_maybe(const R& r, bool& has) {
    if constexpr (meta::is_maybe_v<R>) {
        has = nm::has_value(r);
        if (!has) return {};
        return flatten<T>(*r);
    } else { has = true; return flatten<T>(r); }
}

template <typename T> std::string fmt_shape(const flat_t<T>& f) { return f.scalar ? std::string("num") : fmt(f.shape); }

// tol < 0 : bitwise; otherwise |a-b| <= tol_abs + tol_rel*|b|
struct tol_t { double abs=-1, rel=0; };

template <typename T>
std::string report(const flat_t<T>& simd, bool hs, const flat_t<T>& ref, bool hr, bool as_int, bool show, tol_t tol) {
    if (!hs && !hr) return "nothing";
    if (hs != hr) return std::string("ok MISMATCH simd_has=") + (hs?"1":"0") + " scalar_has=" + (hr?"1":"0");
    std::string out = "ok shape=" + fmt_shape(simd);
    if (show) {
        out += " val=";
        for (size_t k=0;k<simd.vals.size();k++) { if (k) out += ','; out += fmt_val(simd.vals[k], as_int); }
        if (simd.vals.empty()) out += "[]";
    } else out += " agree";
    long bad = -1;
    if (simd.scalar != ref.scalar || simd.shape != ref.shape || simd.vals.size() != ref.vals.size()) bad = 0;
    else for (size_t k=0;k<simd.vals.size();k++) {
        bool ok;
        if (tol.abs < 0) ok = same_bits(simd.vals[k], ref.vals[k]);
        else {
            double a = (double)simd.vals[k], b = (double)ref.vals[k];
            ok = same_bits(simd.vals[k], ref.vals[k]) || (std::fabs(a-b) <= tol.abs + tol.rel*std::fabs(b));
        }
        if (!ok) { bad = (long)k; break; }
    }
    if (bad >= 0) {
        out += " MISMATCH at=" + std::to_string(bad);
        if ((size_t)bad < simd.vals.size()) out += " simd=" + fmt_val(simd.vals[bad], as_int);
        if ((size_t)bad < ref.vals.size())  out += " scalar=" + fmt_val(ref.vals[bad], as_int);
        out += " sshape=" + fmt_shape(ref);
    }
    return out;
}

template <typename A, typename T = typename A::value_type>
void fill(A& a, const uvec& shape, const std::vector<double>& data) {
    a.resize(shape);
    size_t n = nm::size(a);
    if (data.size() != n) throw bad_args("data length");
    for (size_t k=0;k<n;k++) a.data()[k] = (T)data[k];      // buffer order
}

// run f(array) with the requested layout
template <typename T, typename F> std::string with_layout(const std::string& layout, const uvec& shape, const std::vector<double>& data, F f) {
    if (layout=="row") { row_t<T> a; fill<row_t<T>,T>(a,shape,data); return f(a); }
    if (layout=="col") { col_t<T> a; fill<col_t<T>,T>(a,shape,data); return f(a); }
    throw bad_args("layout");
}

template <typename T> constexpr size_t lanes_of() { return C12_BITS / (8*sizeof(T)); }

struct opts_t { bool as_int, show; tol_t tol; };

template <typename T, typename S, typename R>
std::string cmp2(const S& simd, const R& ref, const opts_t& o) {
    bool hs, hr;
    auto fs = flatten_maybe<T>(simd, hs);
    auto fr = flatten_maybe<T>(ref, hr);
    return report<T>(fs, hs, fr, hr, o.as_int, o.show, o.tol);
}

// ---------------------------------------------------------------------------------------------
template <typename T, typename A>
std::string unary_on(const std::string& op, const A& a, const opts_t& o) {
    const auto& ctx = C12_CTX;
#define U(name, ...) if (op==#name) return cmp2<T>(na::name(a, ##__VA_ARGS__, ctx), na::name(a, ##__VA_ARGS__), o);
    U(sqrt) U(ceil) U(floor) U(relu) U(relu6) U(softsign)
#ifndef C12_NO_MASKOPS
    U(hardswish)
    if (op=="softshrink") return cmp2<T>(na::softshrink(a, 0.5f, ctx), na::softshrink(a, 0.5f), o);
    if (op=="hardshrink") return cmp2<T>(na::hardshrink(a, 0.5f, ctx), na::hardshrink(a, 0.5f), o);
#endif
    if (op=="hardtanh")   return cmp2<T>(na::hardtanh(a, -1.0f, 1.0f, ctx), na::hardtanh(a, -1.0f, 1.0f), o);
    if (op=="leaky_relu") return cmp2<T>(na::leaky_relu(a, 0.01f, ctx), na::leaky_relu(a, 0.01f), o);
    if (op=="prelu")      return cmp2<T>(na::prelu(a, 0.25f, ctx), na::prelu(a, 0.25f), o);
#undef U
    return "unknown-op";
}

template <typename T, typename A, typename B>
std::string binary_on(const std::string& op, const A& a, const B& b, const opts_t& o) {
    const auto& ctx = C12_CTX;
#define Bn(name) if (op==#name) return cmp2<T>(na::name(a, b, ctx), na::name(a, b), o);
    Bn(add) Bn(subtract) Bn(multiply) Bn(divide)
#undef Bn
    return "unknown-op";
}

template <typename T, typename A, typename B>
std::string outer_on(const std::string& op, const A& a, const B& b, const opts_t& o) {
    const auto& ctx = C12_CTX;
#define On(name) if (op==#name) return cmp2<T>(na::name.outer(a, b, nm::None, ctx), na::name.outer(a, b, nm::None), o);
    On(add) On(subtract) On(multiply)      // fn::divide has no outer / reduce
#undef On
    return "unknown-op";
}

template <typename T, typename A, typename AX, typename KD>
std::string reduce_with(const std::string& op, const A& a, AX axis, KD kd, const opts_t& o) {
    const auto& ctx = C12_CTX;
#define Rn(name) if (op==#name) return cmp2<T>(na::name.reduce(a, axis, nm::None, nm::None, kd, ctx), na::name.reduce(a, axis, nm::None, nm::None, kd), o);
    Rn(add) Rn(multiply)
    if constexpr (!nm::is_none_v<AX>) {      // reduce_subtract: single integral axis only
        Rn(subtract)
    }
#undef Rn
    return "unknown-op";
}

template <typename T, typename A>
std::string reduce_on(const std::string& op, const A& a, const Args& args, const opts_t& o) {
    bool keep = integer(args,"keepdims") != 0;
    if (is_none(args,"axis")) {
        return keep ? reduce_with<T>(op, a, nm::None, nm::True, o) : reduce_with<T>(op, a, nm::None, nm::False, o);
    }
    int axis = (int)integer(args,"axis");
    return keep ? reduce_with<T>(op, a, axis, nm::True, o) : reduce_with<T>(op, a, axis, nm::False, o);
}

template <typename T>
std::string handle_t(const std::string& kind, const Args& a) {
    if (has(a,"lanes") && (size_t)integer(a,"lanes") != lanes_of<T>()) return "bad-args";
    std::string op = get(a,"op");
    opts_t o; o.as_int = (!has(a,"fmt") || get(a,"fmt")=="int"); o.show = (!has(a,"show") || integer(a,"show")!=0);
    if (has(a,"tolabs")) { o.tol.abs = std::strtod(get(a,"tolabs").c_str(),nullptr); o.tol.rel = has(a,"tolrel") ? std::strtod(get(a,"tolrel").c_str(),nullptr) : 0; }
    if (kind=="unary") {
        return with_layout<T>(get(a,"layout"), nats(a,"shape"), reals(a,"data"), [&](const auto& x){ return unary_on<T>(op, x, o); });
    }
    if (kind=="binary" || kind=="outer") {
        return with_layout<T>(get(a,"llayout"), nats(a,"lshape"), reals(a,"ldata"), [&](const auto& x){
            return with_layout<T>(get(a,"rlayout"), nats(a,"rshape"), reals(a,"rdata"), [&](const auto& y){
                return kind=="binary" ? binary_on<T>(op, x, y, o) : outer_on<T>(op, x, y, o); }); });
    }
    if (kind=="reduce") {
        return with_layout<T>(get(a,"layout"), nats(a,"shape"), reals(a,"data"), [&](const auto& x){ return reduce_on<T>(op, x, a, o); });
    }
    if (kind=="matmul") {
#ifdef C12_NO_MATMUL_F64
        if constexpr (sizeof(T)==8) return "unsupported";
        else
#endif
        {
        // lhs row-major (M,K) + rhs column-major (K,N): the only combination eval_matmul itself accepts (default);
        // a column-major lhs (llayout=col) is meant to be handed to the scalar evaluator by operator(), with either rhs
        // layout; row-major lhs + row-major rhs does not compile (static_assert in eval_matmul)
        const auto& ctx = C12_CTX;
        std::string ll = has(a,"llayout") ? get(a,"llayout") : std::string("row");
        std::string rl = has(a,"rlayout") ? get(a,"rlayout") : std::string("col");
        if (ll=="row" && rl=="col") {
            row_t<T> l; fill<row_t<T>,T>(l, nats(a,"lshape"), reals(a,"ldata"));
            col_t<T> r; fill<col_t<T>,T>(r, nats(a,"rshape"), reals(a,"rdata"));
            return cmp2<T>(na::matmul(l, r, ctx), na::matmul(l, r), o);
        }
        if (ll=="col" && rl=="col") {
            col_t<T> l; fill<col_t<T>,T>(l, nats(a,"lshape"), reals(a,"ldata"));
            col_t<T> r; fill<col_t<T>,T>(r, nats(a,"rshape"), reals(a,"rdata"));
            return cmp2<T>(na::matmul(l, r, ctx), na::matmul(l, r), o);
        }
#ifdef C12_MATMUL_LHS_FALLBACK
        // only compiles once the layout test of operator() on the lhs is effective (fixes/C12-matmul-lhs-layout-fallback.diff):
        // in the unchanged tree every lhs reaches eval_matmul and its static_assert on the rhs layout
        if (ll=="col" && rl=="row") {
            col_t<T> l; fill<col_t<T>,T>(l, nats(a,"lshape"), reals(a,"ldata"));
            row_t<T> r; fill<row_t<T>,T>(r, nats(a,"rshape"), reals(a,"rdata"));
            return cmp2<T>(na::matmul(l, r, ctx), na::matmul(l, r), o);
        }
#endif
        return "unsupported";
        }
    }
    return "unknown-op";
}

} // namespace c12

// sanitizer flavour: the memory-unsafe input classes abort on purpose; skip symbolisation of the (very deep)
// template stacks, the runner only needs the first line of the report
extern "C" const char* __asan_default_options() { return "symbolize=0:fast_unwind_on_fatal=1:malloc_context_size=0"; }

std::string handle(const std::string& kind, const Args& a) {
    if (kind=="lanes") return "ok f32=" + std::to_string(c12::lanes_of<float>()) + " f64=" + std::to_string(c12::lanes_of<double>());
    std::string dt = get(a,"dtype");
    if (dt=="f32") return c12::handle_t<float>(kind, a);
    if (dt=="f64") return c12::handle_t<double>(kind, a);
    return "bad-args";
}
