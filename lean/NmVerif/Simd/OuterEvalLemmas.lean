import NmVerif.Simd.Eval
import NmVerif.Simd.OuterLemmas
import NmVerif.Simd.AxisLemmas
/-
  `eval_outer`: the lhs / rhs offsets of every enumerator step are the operands of the outer product, and the evaluator
  fills the output with `f(lhs[o / |rhs|], rhs[o % |rhs|])`.
-/
namespace NmVerif.Simd
open NmVerif

variable {α β : Type}

/-! ### the three-way case analyses of `outer_simd` on the operand ranks collapse to `compute_offset` -/

/-- lhs offset (`lhs_dim == 1`, `== 2`, general): the row-major offset of the lhs part `IL` of the simd index -/
theorem outer_lhsOff (IL rest lhs more : List Nat) (h : IL.length = lhs.length) :
    (if lhs.length = 1 then (IL ++ rest).getD 0 0
     else if lhs.length = 2 then (IL ++ rest).getD 0 0 * (lhs ++ more).getD 1 0 + (IL ++ rest).getD 1 0
     else partialOffset (IL ++ rest) (strides lhs) 0 lhs.length) = computeOffset IL (strides lhs) := by
  match lhs, IL, h with
  | [], [], _ => simp [partialOffset, computeOffset, strides]
  | [m], [x], _ => simp [computeOffset, strides, prod]
  | [m1, m2], [x, y], _ => simp [computeOffset, strides, prod, Nat.mul_comm]
  | m1 :: m2 :: m3 :: t, IL, h =>
    have h1 : ¬ ((m1 :: m2 :: m3 :: t).length = 1) := by simp
    have h2 : ¬ ((m1 :: m2 :: m3 :: t).length = 2) := by simp
    rw [if_neg h1, if_neg h2]
    unfold partialOffset
    rw [List.drop_zero, ← h, List.take_left' rfl]

/-- rhs offset (`rhs_dim == 1`, `== 2`, general): the row-major offset of `(IR, sj·N)` in `rpre ++ [n]` -/
theorem outer_rhsOff (IL IR rpre : List Nat) (n sj N lhsDim : Nat) (hL : IL.length = lhsDim) (hR : IR.length = rpre.length) :
    (if (rpre ++ [n]).length = 1 then sj * N
     else if (rpre ++ [n]).length = 2 then
       (IL ++ IR ++ [sj]).getD ((IL ++ IR ++ [sj]).length - 2) 0 * n + sj * N
     else partialOffset (IL ++ IR ++ [sj]) (strides (rpre ++ [n])) lhsDim ((rpre ++ [n]).length - 1) + sj * N)
      = computeOffset IR (strides rpre) * n + sj * N := by
  match rpre, IR, hR with
  | [], [], _ => simp [computeOffset]
  | [r1], [x], _ =>
    have h1 : ¬ (([r1] ++ [n]).length = 1) := by simp
    have h2 : ([r1] ++ [n]).length = 2 := by simp
    rw [if_neg h1, if_pos h2]
    have e : (IL ++ [x] ++ [sj]).length - 2 = IL.length := by simp
    rw [e, List.append_assoc, List.getD_eq_getElem?_getD, List.getElem?_append_right (Nat.le_refl _)]
    simp [computeOffset, strides, prod]
  | r1 :: r2 :: t, IR, hR =>
    have h1 : ¬ ((r1 :: r2 :: t ++ [n]).length = 1) := by simp
    have h2 : ¬ ((r1 :: r2 :: t ++ [n]).length = 2) := by simp
    rw [if_neg h1, if_neg h2]
    unfold partialOffset
    have hl : (r1 :: r2 :: t ++ [n]).length - 1 = IR.length := by rw [hR]; simp
    rw [hl, ← hL, List.append_assoc, List.drop_left, List.take_left' rfl, strides_snoc,
        computeOffset_append_left _ _ _ (by rw [List.length_map, strides_length, hR]), computeOffset_map_mul]

/-- step `q·Cs + sj` of the outer enumerator, all three tagged indices -/
theorem outerAt_full (N : Nat) (lhs rpre : List Nat) (n q sj : Nat) (hposL : Pos lhs) (hposR : Pos rpre)
    (hq : q < prod (lhs ++ rpre)) (hsj : sj < oCs N n) :
    outerAt N (lhs ++ (rpre ++ [n])) lhs (rpre ++ [n]) (q * oCs N n + sj)
      = (⟨if sj * N + N > n then Tag.PAD (N - (n - n / N * N)) else Tag.PACKED, q * n + sj * N⟩,
         ⟨Tag.BROADCAST, q / prod rpre⟩,
         ⟨if sj * N + N > n then Tag.PAD (N - (n - n / N * N)) else Tag.PACKED, q % prod rpre * n + sj * N⟩) := by
  have hsh : lhs ++ (rpre ++ [n]) = (lhs ++ rpre) ++ [n] := by simp
  have hposP : Pos (lhs ++ rpre) := by
    intro x hx
    rcases List.mem_append.1 hx with h | h
    · exact hposL x h
    · exact hposR x h
  have hR : 0 < prod rpre := prod_pos hposR
  have hqL : q / prod rpre < prod lhs := by
    rw [Nat.div_lt_iff_lt_mul hR, ← prod_append]; exact hq
  have hqR : q % prod rpre < prod rpre := Nat.mod_lt _ hR
  have hout := outerAt_out N (lhs ++ (rpre ++ [n])) lhs (rpre ++ [n]) (lhs ++ rpre) n q sj hsh hsh hposP hq hsj
  -- the simd index of this step
  have hidx : computeIndices (q * oCs N n + sj) ((lhs ++ rpre) ++ [oCs N n]) (strides ((lhs ++ rpre) ++ [oCs N n]))
      = ndindex lhs (q / prod rpre) ++ ndindex rpre (q % prod rpre) ++ [sj] := by
    have := ndindex_snoc (lhs ++ rpre) (oCs N n) (q * oCs N n + sj)
    rw [(div_mod_of_row q sj _ hsj).1, (div_mod_of_row q sj _ hsj).2, ndindex_append lhs rpre q] at this
    exact this
  have hlL : (ndindex lhs (q / prod rpre)).length = lhs.length := computeIndices_length _ lhs
  have hlR : (ndindex rpre (q % prod rpre)).length = rpre.length := computeIndices_length _ rpre
  have hrest : outerAt N (lhs ++ (rpre ++ [n])) lhs (rpre ++ [n]) (q * oCs N n + sj)
      = ((outerAt N (lhs ++ (rpre ++ [n])) lhs (rpre ++ [n]) (q * oCs N n + sj)).1,
         ⟨Tag.BROADCAST, q / prod rpre⟩,
         ⟨if sj * N + N > n then Tag.PAD (N - (n - n / N * N)) else Tag.PACKED, q % prod rpre * n + sj * N⟩) := by
    unfold outerAt
    rw [outerSimdShape_eq N _ lhs (rpre ++ [n]) (lhs ++ rpre) n hsh hsh]
    simp only
    rw [hidx]
    unfold outerSimd
    have hlast : (ndindex lhs (q / prod rpre) ++ ndindex rpre (q % prod rpre) ++ [sj]).getLastD 0 = sj := by simp
    have hnl : (lhs ++ (rpre ++ [n])).getLastD 0 = n := by rw [hsh]; simp
    simp only [hlast, hnl]
    have hL := outer_lhsOff (ndindex lhs (q / prod rpre)) (ndindex rpre (q % prod rpre) ++ [sj]) lhs (rpre ++ [n]) hlL
    have hRr := outer_rhsOff (ndindex lhs (q / prod rpre)) (ndindex rpre (q % prod rpre)) rpre n sj N lhs.length hlL hlR
    rw [List.append_assoc] at hRr ⊢
    rw [hL, hRr]
    have o1 := offset_indices hposL hqL
    have o2 := offset_indices hposR hqR
    unfold ndindex
    rw [o1, o2]
  rw [hrest, hout]

/-! ### arithmetic of the outer product cell -/

theorem outer_divmod (q n R t : Nat) (ht : t < n) :
    (q * n + t) / (R * n) = q / R ∧ (q * n + t) % (R * n) = q % R * n + t := by
  have h := div_mod_of_row q t n ht
  constructor
  · rw [Nat.mul_comm R n, ← Nat.div_div_eq_div_mul, h.1]
  · rw [Nat.mul_comm R n, Nat.mod_mul, h.1, h.2, Nat.mul_comm]; omega

/-- cells of the outer product, read by flat output offset -/
theorem outer_cells (f : α → α → β) (Y : List α) (hY : 0 < Y.length) :
    ∀ (X : List α) (o : Nat),
      (X.flatMap (fun u => Y.map (fun v => f u v)))[o]?
        = match X[o / Y.length]?, Y[o % Y.length]? with
          | some u, some v => some (f u v)
          | _, _ => none := by
  intro X
  induction X with
  | nil => intro o; simp
  | cons u X ih =>
    intro o
    rw [List.flatMap_cons]
    by_cases h : o < Y.length
    · rw [List.getElem?_append_left (by simpa using h), Nat.div_eq_of_lt h, Nat.mod_eq_of_lt h]
      simp only [List.getElem?_cons_zero, List.getElem?_map]
      cases Y[o]? <;> rfl
    · have hge : Y.length ≤ o := Nat.le_of_not_lt h
      rw [List.getElem?_append_right (by simpa using hge), List.length_map, ih (o - Y.length),
          Nat.div_eq_sub_div hY hge, ← Nat.mod_eq_sub_mod hge]
      simp only [List.getElem?_cons_succ]

/-! ### the evaluator -/

theorem storeu_block (res old : List β) (p len : Nat) (hlen : res.length = old.length) (h : p + len ≤ old.length) :
    storeu (res.take p ++ old.drop p) p ((res.drop p).take len) = some (res.take (p + len) ++ old.drop (p + len)) := by
  have hl : ((res.drop p).take len).length = len := by rw [List.length_take, List.length_drop]; omega
  rw [storeu_prefix _ _ _ p (by rw [List.length_take]; omega) (by rw [hl, List.length_drop]; omega), hl, List.drop_drop,
      List.take_add]

/-- the scalar loop of a `PAD_k` step writes its `cnt` cells one after the other -/
theorem outerPadLoop_eq (f : α → α → β) (X Y : List α) (lo ro oo : Nat) (x : α) (hx : X[lo]? = some x)
    (res old : List β) (hlen : res.length = old.length) :
    ∀ cnt, oo + cnt ≤ old.length → (∀ i, i < cnt → ∃ y, Y[ro + i]? = some y ∧ res[oo + i]? = some (f x y)) →
      outerPadLoop f X Y lo ro oo cnt (res.take oo ++ old.drop oo)
        = some (res.take (oo + cnt) ++ old.drop (oo + cnt)) := by
  intro cnt
  induction cnt with
  | zero => intro _ _; simp [outerPadLoop]
  | succ cnt ih =>
    intro hb h
    have ih' := ih (by omega) (fun i hi => h i (by omega))
    unfold outerPadLoop at ih' ⊢
    rw [List.range_succ, List.foldlM_append, ih']
    obtain ⟨y, hy, hr⟩ := h cnt (by omega)
    simp only [Option.bind_eq_bind, Option.bind_some, List.foldlM_cons, List.foldlM_nil, readAt, hx, hy]
    rw [writeAt_prefix _ _ _ (oo + cnt) (by rw [List.length_take]; omega) (by rw [List.length_drop]; omega)]
    simp only [Option.bind_some, Option.pure_def, List.drop_drop]
    rw [← Nat.add_assoc, List.take_add_one, hr]
    rfl

/-- **`eval_outer` fills the output with the outer product**, on raw buffers: lhs of shape `lhs` (any rank), rhs of shape
    `rpre ++ [n]` -/
theorem simdOuter_eq_cells (N : Nat) (hN : 0 < N) (packF : List α → List α → List β) (f : α → α → β)
    (hpf : ∀ xs ys, xs.length = N → ys.length = N → packF xs ys = List.zipWith f xs ys)
    (X Y : List α) (lhs rpre : List Nat) (n : Nat) (hposL : Pos lhs) (hposR : Pos rpre) (hn : 0 < n)
    (hX : X.length = prod lhs) (hY : Y.length = prod rpre * n)
    (out : List β) (ho : out.length = prod lhs * (prod rpre * n)) :
    simdOuter N packF f X Y (lhs ++ (rpre ++ [n])) lhs (rpre ++ [n]) out
      = some (X.flatMap (fun u => Y.map (fun v => f u v))) := by
  have hR : 0 < prod rpre := prod_pos hposR
  have hYpos : 0 < Y.length := by rw [hY]; exact Nat.mul_pos hR hn
  have hsh : lhs ++ (rpre ++ [n]) = (lhs ++ rpre) ++ [n] := by simp
  have hposP : Pos (lhs ++ rpre) := by
    intro x hx
    rcases List.mem_append.1 hx with h | h
    · exact hposL x h
    · exact hposR x h
  generalize hresdef : X.flatMap (fun u => Y.map (fun v => f u v)) = res
  have hres : res.length = out.length := by
    rw [← hresdef, ho, ← hX, ← hY]
    clear hresdef hX
    induction X with
    | nil => simp
    | cons u X ih => rw [List.flatMap_cons, List.length_append, ih, List.length_map, List.length_cons, Nat.succ_mul]; omega
  have hcell : ∀ o, res[o]? = match X[o / (prod rpre * n)]?, Y[o % (prod rpre * n)]? with
      | some u, some v => some (f u v)
      | _, _ => none := by
    intro o; rw [← hresdef, outer_cells f Y hYpos X o, hY]
  have hP : prod (lhs ++ rpre) * n = out.length := by rw [ho, prod_append, Nat.mul_assoc]
  have hsz : outerSize N (lhs ++ (rpre ++ [n])) lhs (rpre ++ [n]) = prod (lhs ++ rpre) * oCs N n := by
    unfold outerSize; rw [outerSimdShape_eq N _ lhs (rpre ++ [n]) (lhs ++ rpre) n hsh hsh, prod_snoc]
  have hcontig := outer_contig N (lhs ++ (rpre ++ [n])) lhs (rpre ++ [n]) (lhs ++ rpre) n hN hsh hsh hposP
    (prod (lhs ++ rpre)) (Nat.le_refl _)
  unfold simdOuter
  rw [hsz]
  have key := seq_blocks res out (fun i => (outerAt N (lhs ++ (rpre ++ [n])) lhs (rpre ++ [n]) i).1.off)
    (fun i => outerLen N (outerAt N (lhs ++ (rpre ++ [n])) lhs (rpre ++ [n]) i).1)
    (outerStep N packF f X Y (lhs ++ (rpre ++ [n])) lhs (rpre ++ [n])) hres
    (List.range (prod (lhs ++ rpre) * oCs N n)) 0 _ hcontig (by rw [hP]; exact Nat.le_refl _)
    (by
      intro g hg hb
      have hg' : g < prod (lhs ++ rpre) * oCs N n := by simpa using hg
      have hCs : 0 < oCs N n := by
        rcases Nat.eq_zero_or_pos (oCs N n) with h0 | h0
        · rw [h0] at hg'; simp at hg'
        · exact h0
      have hq : g / oCs N n < prod (lhs ++ rpre) := by rw [Nat.div_lt_iff_lt_mul hCs]; exact hg'
      have hsj : g % oCs N n < oCs N n := Nat.mod_lt _ hCs
      have hg2 : g = g / oCs N n * oCs N n + g % oCs N n := by
        have := Nat.div_add_mod g (oCs N n); rw [Nat.mul_comm] at this; omega
      generalize g / oCs N n = q at hq hg2
      generalize g % oCs N n = sj at hsj hg2
      subst hg2
      have hfull := outerAt_full N lhs rpre n q sj hposL hposR hq hsj
      have hqL : q / prod rpre < X.length := by
        rw [hX, Nat.div_lt_iff_lt_mul hR, ← prod_append]; exact hq
      have hqR : q % prod rpre < prod rpre := Nat.mod_lt _ hR
      have hrow : (q % prod rpre + 1) * n ≤ prod rpre * n := Nat.mul_le_mul_right n hqR
      rw [Nat.succ_mul] at hrow
      have hndm : n = n / N * N + n % N := by
        have := Nat.div_add_mod n N; rw [Nat.mul_comm] at this; omega
      have hmod := Nat.mod_lt n hN
      have hsub : n - n / N * N = n % N := by omega
      unfold outerStep
      simp only [hfull] at hb ⊢
      have hxv : X[q / prod rpre]? = some X[q / prod rpre] := List.getElem?_eq_getElem hqL
      by_cases hpk : sj * N + N > n
      · -- PAD step: the last, partial register of row q
        have hsjeq : sj = n / N := by
          unfold oCs at hsj
          have h1 : ¬ (sj < n / N) := by
            intro hlt
            have : (sj + 1) * N ≤ n / N * N := Nat.mul_le_mul_right N hlt
            rw [Nat.succ_mul] at this; omega
          split at hsj <;> omega
        have hm0 : n % N ≠ 0 := by
          intro h0
          unfold oCs at hsj
          rw [if_neg (by simpa using h0)] at hsj; omega
        have htag : ¬ (Tag.PAD (N - n % N) = Tag.PACKED) := by simp only [Tag.PAD, Tag.PACKED]; omega
        have hrange : 1 ≤ Tag.PAD (N - n % N) ∧ Tag.PAD (N - n % N) < (N : Int) := by
          simp only [Tag.PAD]; omega
        have hcnt : N - (Tag.PAD (N - n % N)).toNat = n % N := by simp only [Tag.PAD, Int.toNat_natCast]; omega
        simp only [hpk, if_true, hsub, htag, if_false, hrange, and_self, outerLen, hcnt] at hb ⊢
        rw [storeu_block res out _ _ hres hb]
        apply outerPadLoop_eq f X Y _ _ _ X[q / prod rpre] hxv res out hres _ hb
        intro i hi
        have hin : q % prod rpre * n + sj * N + i < Y.length := by rw [hY]; subst hsjeq; omega
        refine ⟨Y[q % prod rpre * n + sj * N + i], List.getElem?_eq_getElem hin, ?_⟩
        have hdm := outer_divmod q n (prod rpre) (sj * N + i) (by subst hsjeq; omega)
        simp only [← Nat.add_assoc] at hdm
        rw [hcell, hdm.1, hdm.2, hxv, List.getElem?_eq_getElem hin]
      · -- PACKED step
        have hle : sj * N + N ≤ n := by omega
        simp only [hpk, if_false, outerLen, if_true] at hb ⊢
        have hTP : (Tag.PACKED = Tag.PACKED) := rfl
        simp only [readAt, hxv, Option.bind_eq_bind, Option.bind_some] at hb ⊢
        have hld : q % prod rpre * n + sj * N + N ≤ Y.length := by rw [hY]; omega
        rw [loadu_eq hld]
        simp only [Option.bind_some]
        congr 1
        rw [hpf _ _ (by simp) (by rw [List.length_take, List.length_drop]; omega)]
        apply List.ext_getElem?
        intro j
        rw [List.getElem?_zipWith, List.getElem?_take, List.getElem?_take, List.getElem?_drop, List.getElem?_drop,
            List.getElem?_replicate]
        by_cases hj : j < N
        · have hdm := outer_divmod q n (prod rpre) (sj * N + j) (by omega)
          have hin : q % prod rpre * n + sj * N + j < Y.length := by omega
          simp only [← Nat.add_assoc] at hdm
          simp only [hj, if_true]
          rw [hcell, hdm.1, hdm.2, hxv, List.getElem?_eq_getElem hin]
        · simp only [hj, if_false])
  simp only [List.take_zero, List.nil_append, List.drop_zero] at key
  rw [key, hP, List.take_of_length_le (by omega), List.drop_of_length_le (by omega), List.append_nil]

/-- **operands of every lane of every step**: lane `j` of step `i` writes output cell `o = out.off + j`; the broadcast lhs
    element is `lhs[o / |rhs|]`, the rhs element of that lane is `rhs[o % |rhs|]` -/
theorem outerAt_operand_lanes (N : Nat) (hN : 0 < N) (lhs rpre : List Nat) (n : Nat) (hposL : Pos lhs) (hposR : Pos rpre)
    (i : Nat) (hi : i < prod (lhs ++ rpre) * oCs N n)
    (j : Nat) (hj : j < outerLen N (outerAt N (lhs ++ (rpre ++ [n])) lhs (rpre ++ [n]) i).1) :
    (outerAt N (lhs ++ (rpre ++ [n])) lhs (rpre ++ [n]) i).2.1.off
        = ((outerAt N (lhs ++ (rpre ++ [n])) lhs (rpre ++ [n]) i).1.off + j) / prod (rpre ++ [n])
    ∧ (outerAt N (lhs ++ (rpre ++ [n])) lhs (rpre ++ [n]) i).2.2.off + j
        = ((outerAt N (lhs ++ (rpre ++ [n])) lhs (rpre ++ [n]) i).1.off + j) % prod (rpre ++ [n]) := by
  have hCs : 0 < oCs N n := by
    rcases Nat.eq_zero_or_pos (oCs N n) with h0 | h0
    · rw [h0] at hi; simp at hi
    · exact h0
  have hq : i / oCs N n < prod (lhs ++ rpre) := by rw [Nat.div_lt_iff_lt_mul hCs]; exact hi
  have hsj : i % oCs N n < oCs N n := Nat.mod_lt _ hCs
  have hi2 : i = i / oCs N n * oCs N n + i % oCs N n := by
    have := Nat.div_add_mod i (oCs N n); rw [Nat.mul_comm] at this; omega
  generalize i / oCs N n = q at hq hi2
  generalize i % oCs N n = sj at hsj hi2
  subst hi2
  have hfull := outerAt_full N lhs rpre n q sj hposL hposR hq hsj
  have hndm : n = n / N * N + n % N := by
    have := Nat.div_add_mod n N; rw [Nat.mul_comm] at this; omega
  have hmod := Nat.mod_lt n hN
  have hsub : n - n / N * N = n % N := by omega
  rw [hfull] at hj ⊢
  simp only at hj ⊢
  have hlane : sj * N + j < n := by
    by_cases hpk : sj * N + N > n
    · have hsjeq : sj = n / N := by
        unfold oCs at hsj
        have h1 : ¬ (sj < n / N) := by
          intro hlt
          have : (sj + 1) * N ≤ n / N * N := Nat.mul_le_mul_right N hlt
          rw [Nat.succ_mul] at this; omega
        split at hsj <;> omega
      have hm0 : n % N ≠ 0 := by
        intro h0
        unfold oCs at hsj
        rw [if_neg (by simpa using h0)] at hsj; omega
      have htag : ¬ (Tag.PAD (N - n % N) = Tag.PACKED) := by simp only [Tag.PAD, Tag.PACKED]; omega
      have hlen : ∀ off, outerLen N ⟨Tag.PAD (N - n % N), off⟩ = n % N := by
        intro off
        unfold outerLen
        rw [if_neg htag]
        simp only [Tag.PAD, Int.toNat_natCast]; omega
      simp only [hpk, if_true, hsub] at hj
      rw [hlen] at hj
      subst hsjeq; omega
    · have hlen : ∀ off, outerLen N ⟨Tag.PACKED, off⟩ = N := by intro off; simp [outerLen]
      simp only [hpk, if_false] at hj
      rw [hlen] at hj
      omega
  have hdm := outer_divmod q n (prod rpre) (sj * N + j) hlane
  simp only [← Nat.add_assoc] at hdm
  rw [prod_snoc, hdm.1, hdm.2]
  exact ⟨rfl, rfl⟩

end NmVerif.Simd
