import NmVerif.Proto
import NmVerif.Simd.Loop
/-
  Driver handler of C12: answers the harness protocol of harness/h_c12_*.cpp with the MODEL
  (Simd/Loop.lean …) on integer data.  The packed intrinsics are instantiated lane-wise
  (`xs.map f`, `List.zipWith f`): that is the assumption `LaneWise*` of Props/C12.lean.
-/
namespace NmVerif.Driver.C12
open NmVerif NmVerif.Proto NmVerif.Simd

/-- scalar functors the model can evaluate exactly on integer-valued data -/
def unaryF : String → Option (Int → Int)
  | "floor" => some id
  | "ceil" => some id
  | "relu" => some (fun x => max x 0)
  | "relu6" => some (fun x => min (max x 0) 6)
  | _ => none

def okVals (shape : List Nat) (vals : List Int) : String :=
  s!"ok shape={fmtNats shape} val={fmtInts vals}"

def handle : Handler := fun kind a =>
  match kind with
  | "unary" => orBad do
      let f ← (a.get? "op").bind unaryF
      let lanes ← a.nat "lanes"
      let shape ← a.nats "shape"
      let data ← a.ints "data"
      let col := (a.get? "layout") == some "col"
      let arr : NDA Int := { shape := shape, colMajor := col, data := data }
      match simdUnary lanes (·.map f) f arr (List.replicate (prod shape) 0) with
      | some out => pure (okVals shape out)
      | none => pure "ub"
  | _ => none

end NmVerif.Driver.C12
