import NmVerif.Arr
import NmVerif.Index.NormalizeAxis
/-
  NmVerif.Index.Reshape — MODEL of
    include/nmtools/array/index/reshape.hpp      index::count_negative_reshape, index::shape_reshape
    include/nmtools/array/view/reshape.hpp       view::reshape_t::indices, view::reshape
    include/nmtools/array/view/flatten.hpp       view::flatten
    include/nmtools/array/index/expand_dims.hpp  index::shape_expand_dims
    include/nmtools/array/view/expand_dims.hpp   view::expand_dims
    include/nmtools/array/index/squeeze.hpp      index::shape_squeeze
    include/nmtools/array/view/squeeze.hpp       view::squeeze
    include/nmtools/array/index/atleast_nd.hpp   index::shape_atleast_nd
    include/nmtools/array/view/atleast_nd.hpp    view::atleast_nd / atleast_1d / atleast_2d

  Stable names:
    countNegativeReshape dst         : Nat × Nat          (number of -1 entries, dst_numel)
    shapeReshape   src dst           : Option Shape       dst : List Int
    reshapeView    src dst           : Option IxView
    flattenView    src               : Option IxView
    shapeExpandDims shape axes       : Option Shape       axes : List Int (an integer axis = one-element list)
    expandDimsView src axes          : Option IxView
    shapeSqueeze   shape             : Shape
    squeezeView    src               : Option IxView
    shapeAtleastNd shape nd          : Shape
    atleastNdView  src nd            : Option IxView

  `none` = the C++ returns Nothing.  Modelled domain of `shapeReshape`: every target entry is `-1` or `≥ 0`
  (other negative entries are multiplied as wrapped `size_t` values by the C++; that is C15's domain and NOT mirrored:
  the model treats them like `0`), and `dst_numel ≠ 0` whenever a `-1` is present (`src_numel % 0` is UB in the C++;
  Lean's `x % 0 = x` is not a mirror of it).  `shapeExpandDims`: `none` also stands for the UB of unwrapping an empty
  `normalize_axis` result / reading past `shape` when axes repeat.

  Core Lean only.
-/
namespace NmVerif

/-- `index::count_negative_reshape`: `dst_numel` starts at 0 and becomes 1 only when the loop body runs,
    so an EMPTY target shape has `dst_numel = 0` (quirk, see Props.C03.reshape_to_rank0_counterexample). -/
def countNegativeReshape (dst : List Int) : Nat × Nat :=
  match dst with
  | [] => (0, 0)
  | _ => dst.foldl (fun (acc : Nat × Nat) d => if d = -1 then (acc.1 + 1, acc.2) else (acc.1, acc.2 * d.toNat)) (0, 1)

/-- `index::shape_reshape(src_shape, dst_shape)` (run-time branch, reshape.hpp:99-140). -/
def shapeReshape (src : Shape) (dst : List Int) : Option Shape :=
  let c := (countNegativeReshape dst).1
  let dstNumel := (countNegativeReshape dst).2
  if c > 1 then none else
  let srcNumel := prod src
  if c = 0 ∧ srcNumel ≠ dstNumel then none
  else if srcNumel % dstNumel ≠ 0 then none
  else some (dst.map (fun d => if d = -1 then srcNumel / dstNumel else d.toNat))

/-- `view::reshape`: `indices(d) = compute_indices(compute_offset(d, strides(dst_shape)), src_shape)` -/
def reshapeView (src : Shape) (dst : List Int) : Option IxView :=
  (shapeReshape src dst).map (fun s =>
    ⟨src, s, fun d => some (computeIndices (computeOffset d (strides s)) src (strides src))⟩)

/-- `view::flatten(a) = view::reshape(a, {size(a)})` -/
def flattenView (src : Shape) : Option IxView := reshapeView src [(prod src : Int)]

/-- loop of `index::shape_expand_dims`: for `i = pos, pos+1, …` (`k` positions left):
    `new_shape[i] = in_axis(i) ? 1 : shape[idx++]`; `rest` = the part of `shape` from `idx` on. -/
def expandGo (nax : List Nat) : Nat → Nat → List Nat → Option (List Nat)
  | 0, _, _ => some []
  | k+1, i, rest =>
    if nax.contains i then (expandGo nax k (i+1) rest).map (1 :: ·)
    else match rest with
      | [] => none
      | s :: rest' => (expandGo nax k (i+1) rest').map (s :: ·)

/-- `index::shape_expand_dims(shape, axes)`: `n = dim + len(axes)`, axes normalised against `n`. -/
def shapeExpandDims (shape : Shape) (axes : List Int) : Option Shape :=
  let n := shape.length + axes.length
  (normalizeAxes n axes).bind (fun nax => expandGo nax n 0 shape)

/-- `view::expand_dims(a, axes) = view::reshape(a, shape_expand_dims(shape(a), axes))` -/
def expandDimsView (src : Shape) (axes : List Int) : Option IxView :=
  (shapeExpandDims src axes).bind (fun s => reshapeView src (s.map Int.ofNat))

/-- `index::shape_squeeze(shape)`: keeps the extents `≠ 1` (for positive extents; with a 0 extent the C++ sizes the
    result by `> 1` and writes by `!= 1`, i.e. past its end — outside the modelled domain). -/
def shapeSqueeze (shape : Shape) : Shape := shape.filter (fun e => e != 1)

/-- `view::squeeze(a) = view::reshape(a, shape_squeeze(shape(a)))` — no axis argument exists. -/
def squeezeView (src : Shape) : Option IxView := reshapeView src ((shapeSqueeze src).map Int.ofNat)

/-- `index::shape_atleast_nd(shape, nd)`: `max(dim, nd) - dim` ones in front of the shape. -/
def shapeAtleastNd (shape : Shape) (nd : Nat) : Shape :=
  List.replicate (max shape.length nd - shape.length) 1 ++ shape

/-- `view::atleast_nd(a, nd) = view::reshape(a, shape_atleast_nd(shape(a), nd))`; `atleast_1d/2d` are `nd = 1, 2`. -/
def atleastNdView (src : Shape) (nd : Nat) : Option IxView := reshapeView src ((shapeAtleastNd src nd).map Int.ofNat)

end NmVerif
