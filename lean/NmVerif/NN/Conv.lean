import NmVerif.NN.Views
/-
  NN/Conv — mirror of `view::convnd` (include/nmtools/array/view/convnd.hpp) and its index helpers:

      weight --reshape(conv_reshape_weight)--[expand(conv_window_axis, conv_expand_spacing)]--sliding_window--+
      input  --reshape(conv_reshape_input)--[pad(conv_pad)]--------------------------------sliding_window--+--multiply
        --sum(conv_sum_axes)--reshape(conv_reshape_reduce)--[add reshape(bias, conv_reshape_bias)]--[slice(conv_slices)]

  State of the code mirrored here: /repo with the `fix:` commits for the batch extent (`conv_reshape_input` keeps it),
  for the dilation pair (spacing `i` is `dilation[n_planes-1-i] - 1`, applied to window axis `-(i+1)`) and for the group
  layout (fixes/C17-conv-groups-interleaved): the input is reshaped to `(N, g, 1, C/g, spatial…)` and the weight to
  `(g, O/g, C/g, kernel…)`, so the group of output channel `o` is `o / (O/g)` as in PyTorch.  (Before that repair the
  layouts were `(N, 1, g, C/g, …)` and `(O/g, g, C/g, …)`: group `o % g`, `grpInterleaved` in NN/Spec.)
-/
namespace NmVerif.NN

/-- an optional convolution argument: `None`, a single integer, or an index array (one entry per plane) -/
inductive PArg where
  | none
  | int (v : Nat)
  | arr (v : List Nat)
  deriving Repr, DecidableEq

/-- result of an evaluation: a value, `Nothing`, or undefined behaviour of the C++ (unchecked `unwrap`) -/
inductive Res (α : Type) where
  | ok (a : α)
  | nothing
  | ub (why : String)

/-! ### index helpers (loop for loop) -/

def convReshapeInput (src : Shape) (groups nPlanes : Nat) : Shape :=
  let r := List.replicate (src.length + 2) 1
  let chAx : Int := -(nPlanes : Int) - 1
  let grpAx : Int := -(nPlanes : Int) - 3
  let r := setI r grpAx groups
  let r := setI r chAx (getI src chAx / groups)
  let r := (List.range nPlanes).foldl (fun r (i : Nat) => setI r (-((i : Int) + 1)) (getI src (-((i : Int) + 1)))) r
  -- the batch extent of a (N, C, spatial…) input is kept (fix: conv_reshape_input keeps the batch extent)
  if src.length > nPlanes + 1 then setI r 0 (getI src 0) else r

def convReshapeWeight (src : Shape) (groups nPlanes : Nat) : Shape :=
  let r := List.replicate (src.length + 1) 1
  let r := (List.range (src.length - (nPlanes - 1))).foldl (fun r (i : Nat) => setI r (-((i : Int) + 1)) (getI src (-((i : Int) + 1)))) r
  let r := (List.range (nPlanes - 1)).foldl (fun r (i : Nat) => setI r (i : Int) (getI src (i : Int))) r
  let r := setI r 1 (getI src 0 / groups)
  setI r 0 groups

/-- `conv_reshape_reduce`: a batched sum `(N, g, O/g, planes…)` becomes `(N, O, planes…)`; the sum of an unbatched input
    `(g, O/g, planes…)` becomes `(O, planes…)` (the branch added by fixes/C17-conv-groups-interleaved; before, axis 0 was
    always taken for a batch axis: `convReshapeReduceOld`) -/
def convReshapeReduce (src : Shape) (nPlanes : Nat) : Shape :=
  let r := List.replicate (src.length - 1) 0
  let r := (List.range (nPlanes + 1)).foldl (fun r (i : Nat) => setI r (-(i : Int)) (getI src (-(i : Int)))) r
  if src.length > nPlanes + 2 then
    let r := setI r 0 (getI src 0)
    setI r 1 (getI src 1 * getI src 2)
  else
    setI r 0 (getI src 0 * getI src 1)

def convReshapeReduceOld (src : Shape) (nPlanes : Nat) : Shape :=
  let r := List.replicate (src.length - 1) 0
  let r := (List.range (nPlanes + 1)).foldl (fun r (i : Nat) => setI r (-(i : Int)) (getI src (-(i : Int)))) r
  let r := setI r 0 (getI src 0)
  setI r 1 (getI src 1 * getI src 2)

def convReshapeBias (src : Shape) (nPlanes : Nat) : Shape :=
  let r := List.replicate (src.length + nPlanes) 0
  let r := (List.range src.length).foldl (fun r (i : Nat) => setI r (i : Int) (getI src (i : Int))) r
  (List.range (src.length + nPlanes - 1)).foldl (fun r (i : Nat) => setI r ((i : Int) + 1) 1) r

/-- `conv_kernel_size`: `[w[-1], w[-2], …]` -/
def convKernelSize (wshape : Shape) (nPlanes : Nat) : List Nat :=
  (List.range nPlanes).map fun (i : Nat) => getI wshape (-((i : Int) + 1))

/-- `conv_window_axis`: `[-1, -2, …]` -/
def convWindowAxis (nPlanes : Nat) : List Int := (List.range nPlanes).map fun (i : Nat) => -((i : Int) + 1)

/-- `conv_sum_axes`: `[-1, …, -n, -(2n+1)]` -/
def convSumAxes (nPlanes : Nat) : List Int := convWindowAxis nPlanes ++ [-(2 * (nPlanes : Int) + 1)]

/-- `conv_expand_spacing`: entry `i` (for window axis `-(i+1)`) is `dilation[n_planes-1-i] - 1` (index array) or `dilation - 1` -/
def convExpandSpacing (dilation : PArg) (nPlanes : Nat) : List Nat :=
  match dilation with
  | .none => []
  | .int d => List.replicate nPlanes (d - 1)
  | .arr ds => (List.range nPlanes).map fun i => ds.getD (nPlanes - 1 - i) 0 - 1

/-- `conv_pad`: onnx-style widths of the reshaped input, padding on the last `nPlanes` axes -/
def convPad (srcDim : Nat) (padding : PArg) (nPlanes : Nat) : List Nat :=
  let r := List.replicate (2 * srcDim) 0
  let padAxis := srcDim - nPlanes
  match padding with
  | .none => r
  | .int p => (List.range nPlanes).foldl (fun r i => (r.set (i + padAxis) p).set (i + padAxis + srcDim) p) r
  | .arr ps => (List.range ps.length).foldl (fun r i => (r.set (i + padAxis) (ps.getD i 0)).set (i + padAxis + srcDim) (ps.getD i 0)) r

/-- `conv_slices`: one `(None, None, step)` per plane -/
def convSteps (stride : PArg) (nPlanes : Nat) : List Nat :=
  match stride with
  | .none => []
  | .int s => List.replicate nPlanes s
  | .arr ss => (List.range nPlanes).map fun i => ss.getD i 0

/-! ### the pipeline, stage by stage -/

/-- `a_weight`: reshape by groups, then (unless `dilation` is None) expand on the window axes.
    `none` = the reshape is Nothing, which the code unwraps unchecked. -/
def convWeight (nPlanes : Nat) (w : Arr Int) (dilation : PArg) (groups : Nat) : Option (Arr Int) :=
  (reshapeV w (convReshapeWeight w.shape groups nPlanes)).map fun rw =>
    match dilation with
    | .none => rw
    | _ => expandV rw (convWindowAxis nPlanes) (convExpandSpacing dilation nPlanes)

/-- `a_input`: reshape by groups, then (unless `padding` is None) zero-pad the plane axes -/
def convInput (nPlanes : Nat) (x : Arr Int) (padding : PArg) (groups : Nat) : Res (Arr Int) :=
  let rin := reshapeV x (convReshapeInput x.shape groups nPlanes)
  match padding with
  | .none => (match rin with | some r => .ok r | none => .nothing)
  | _ => (match rin with
          | none => .ub "unwrap(reshape(input))"
          | some r => (match padV r (convPad r.shape.length padding nPlanes) with
                       | some p => .ok p
                       | none => .nothing))

/-- sliding windows of input and weight, multiply, sum over window and channel axes, merge `(g, O/g)` -/
def convCore (nPlanes : Nat) (ain aw : Arr Int) : Option (Arr Int) :=
  let ks := convKernelSize aw.shape nPlanes
  let ax := convWindowAxis nPlanes
  (binop (· * ·) (slidingWindowV ain ks ax) (slidingWindowV aw ks ax)).bind fun m =>
    let sm := sumAxes m (convSumAxes nPlanes)
    reshapeV sm (convReshapeReduce sm.shape nPlanes)

def convBias (nPlanes : Nat) (rs : Arr Int) (bias : Option (Arr Int)) : Option (Arr Int) :=
  match bias with
  | none => some rs
  | some b => (reshapeV b (convReshapeBias b.shape nPlanes)).bind fun rb => binop (· + ·) rs rb

def convStride (nPlanes : Nat) (a : Arr Int) (stride : PArg) : Arr Int :=
  match stride with
  | .none => a
  | _ => sliceStepV a (convSteps stride nPlanes)

def convnd (nPlanes : Nat) (x w : Arr Int) (bias : Option (Arr Int)) (stride padding dilation : PArg) (groups : Nat) :
    Res (Arr Int) :=
  match convWeight nPlanes w dilation groups with
  | none => .ub "unwrap(reshape(weight))"
  | some aw =>
    match convInput nPlanes x padding groups with
    | .ub s => .ub s
    | .nothing => .nothing
    | .ok ain =>
      match (convCore nPlanes ain aw).bind (fun rs => convBias nPlanes rs bias) with
      | none => .nothing
      | some ad => .ok (convStride nPlanes ad stride)

end NmVerif.NN
