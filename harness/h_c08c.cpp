// C08 harness, TU 5: compile-time axis kinds (meta::ct<k>, tuple of ct) with compile-time keepdims, order-revealing functor.
#include "nmtools/array/view/ufunc.hpp"
#include "nmtools/array/ndarray.hpp"
#include "c08_common.hpp"
#include <vector>

namespace nm = nmtools; namespace na = nmtools::array; namespace view = nmtools::view; namespace meta = nmtools::meta;
using namespace proto;
struct f31 { constexpr unsigned operator()(unsigned a, unsigned b) const { return 31u * a + b; } };
using uarr_t = na::ndarray_t<std::vector<unsigned>, std::vector<size_t>>;

template <typename axis_t> static std::string go(const uarr_t& arr, axis_t axis, const Args& a) {
    bool keep = c08::keepdims_of(a);
    return c08::with_init<unsigned>(a, [&](auto init) {
        return keep ? c08::emit(view::reduce(f31{}, arr, axis, nm::None, init, nm::True))
                    : c08::emit(view::reduce(f31{}, arr, axis, nm::None, init, nm::False)); });
}

std::string handle(const std::string& op, const Args& a) {
    if (op != "reduce" || get(a, "op") != "f31") return "unknown-op";
    auto arr = c08::make_array<uarr_t>(a);
    auto ax = intsi(a, "axis");
    if (ax.size() == 1) {
        switch (ax[0]) {
#define CASE(K) case K: return go(arr, meta::ct_v<K>, a);
            CASE(-3) CASE(-2) CASE(-1) CASE(0) CASE(1) CASE(2)
#undef CASE
        }
        return "unsupported-kind";
    }
    if (ax.size() == 2) {
#define PAIR(A, B) if (ax[0] == A && ax[1] == B) return go(arr, nmtools_tuple{meta::ct_v<A>, meta::ct_v<B>}, a);
        PAIR(0, 1) PAIR(1, 0) PAIR(0, 2) PAIR(2, 0) PAIR(1, 2) PAIR(-1, 0) PAIR(-1, -3) PAIR(1, -1) PAIR(-2, -1)
#undef PAIR
    }
    return "unsupported-kind";
}
