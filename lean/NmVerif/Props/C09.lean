/-
  Property C09 — results are independent of container kind and of compile- vs run-time knowledge.

  The index functions of the model take `List Nat`: one semantic function per operation.  The part of
  C09 that is a theorem is the container layer (NmVerif.Containers.Kinds): a bounded vector refines a
  list as long as no capacity event occurs, a clipped integer is the identity inside its range, and the
  bounded / clipped result containers the C++ metafunctions pick are large enough, so none of those
  events can occur.  That each kind-specific C++ branch computes the one reference function is
  validated by the generated kind matrix (lib/props/c09.py), not proved.
-/
import NmVerif.Basic
import NmVerif.Containers.Kinds
import NmVerif.Containers.KindRefs
namespace NmVerif.Props.C09
open NmVerif NmVerif.Kinds NmVerif.KindRefs

/-! ### clipped integers -/

/-- inside `[lo,hi]` a clipped integer holds exactly the value it was given -/
theorem clipped_eq_of_inRange (lo hi v : Int) (h1 : lo ≤ v) (h2 : v ≤ hi) :
    (Clipped.mk' lo hi v).val = v := by
  unfold Clipped.mk'
  simp only
  split
  · omega
  · split
    · omega
    · rfl

/-- whatever it is given, a clipped integer lies in `[lo,hi]`; above the range it holds `hi`, below `lo` -/
theorem clipped_clamps (lo hi v : Int) (h : lo ≤ hi) :
    lo ≤ (Clipped.mk' lo hi v).val ∧ (Clipped.mk' lo hi v).val ≤ hi ∧
    (hi < v → (Clipped.mk' lo hi v).val = hi) ∧ (v < lo → (Clipped.mk' lo hi v).val = lo) := by
  unfold Clipped.mk'
  simp only
  split
  · refine ⟨h, Int.le_refl _, fun _ => rfl, fun h' => by omega⟩
  · split
    · refine ⟨Int.le_refl _, h, fun h' => by omega, fun _ => rfl⟩
    · refine ⟨by omega, by omega, fun h' => by omega, fun h' => by omega⟩

/-- assignment behaves as construction -/
theorem clipped_assign_eq_of_inRange (lo hi v : Int) (c : Clipped lo hi) (h1 : lo ≤ v) (h2 : v ≤ hi) :
    (c.assign v).val = v := clipped_eq_of_inRange lo hi v h1 h2

example : (Clipped.mk' 0 6 4).val = 4 := by decide
example : (Clipped.mk' 0 6 9).val = 6 := by decide
example : (Clipped.mk' (-2) 3 (-7)).val = -2 := by decide

/-- outside the range the clipped kind silently disagrees with the plain integer: the boundary of the refinement -/
theorem clipped_outOfRange_counterexample : (Clipped.mk' 0 6 9).val ≠ 9 := by decide

end NmVerif.Props.C09
