// C17 harness: conv1d through nmtools::array::conv1d (= eval of view::conv1d = view::convnd<1>)
//   conv1d dt=f|i xs=N,C,L x=.. ws=O,C/g,K w=.. b=None|.. stride=None|int padding=None|int dilation=None|int groups=int
#include "nmtools/array/array/conv1d.hpp"
#include "c17_util.hpp"

using namespace c17;

template <typename T> static std::string conv1d(const Args& a) {
    auto x = mk<T>(a, "x"); auto w = mk<T>(a, "w");
    int groups = (int)proto::integer(a, "groups");
    auto with_bias = [&](const auto& bias) {
        return opt_int(a, "stride", [&](auto stride) {
            return opt_int(a, "padding", [&](auto padding) {
                return opt_int(a, "dilation", [&](auto dilation) {
                    return fmt_result(na::conv1d(x, w, bias, stride, padding, dilation, groups));
                });
            });
        });
    };
    if (proto::is_none(a, "b")) return with_bias(nm::None);
    auto b = mk<T>(a, "b");
    return with_bias(b);
}

std::string handle(const std::string& op, const Args& a) {
    if (op == "conv1d") {
        auto dt = proto::get(a, "dt");
        if (dt == "f") return conv1d<float>(a);
        if (dt == "i") return conv1d<int>(a);
        return "bad-args";
    }
    return "unknown-op";
}
