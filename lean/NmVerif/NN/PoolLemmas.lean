import NmVerif.NN.Pool
import NmVerif.NN.Spec
/-
  NN/PoolLemmas — shape_pool2d / slice_pool2d / pool window against the reference (all extents, kernels, strides,
  any number of leading axes).
-/
namespace NmVerif.NN

/-- domain of the pooling theorems: positive kernel that fits the input, positive stride -/
def PoolDom (n k s : Nat) : Prop := 0 < k ∧ k ≤ n ∧ 0 < s

instance (n k s : Nat) : Decidable (PoolDom n k s) := by unfold PoolDom; exact inferInstance

theorem poolExtent_eq_spec {n k s : Nat} (c : Bool) (h : PoolDom n k s) :
    poolExtent n k s c = poolOutSpec n k s c := by
  obtain ⟨hk, hkn, hs⟩ := h
  unfold poolExtent poolOutSpec
  cases c with
  | true =>
    have e : n - k + s - 1 = n - k + (s - 1) := by omega
    simp only [if_true, e, Nat.add_sub_cancel]
    by_cases h1 : (n - k + (s - 1)) / s * s ≥ n
    · have hq : 0 < (n - k + (s - 1)) / s := by
        rcases Nat.eq_zero_or_pos ((n - k + (s - 1)) / s) with h0 | h0
        · rw [h0] at h1; omega
        · exact h0
      have h2 : (n - k + (s - 1)) / s + 1 > 1 := by omega
      simp only [h1, h2, and_self, if_true]
    · simp only [h1, and_false, if_false]
  | false =>
    simp only [Bool.false_eq_true, if_false, outSize]
    have e : n + 2 * 0 - 1 * (k - 1) - 1 = n - k := by omega
    rw [e]

/-- every counted window starts inside the input -/
theorem pool_start_lt {n k s : Nat} {c : Bool} (h : PoolDom n k s) {i : Nat} (hi : i < poolExtent n k s c) :
    s * i < n := by
  obtain ⟨hk, hkn, hs⟩ := h
  unfold poolExtent at hi
  cases c with
  | true =>
    have e : n - k + s - 1 = n - k + (s - 1) := by omega
    simp only [if_true, e, Nat.add_sub_cancel] at hi
    have hql : (n - k + (s - 1)) / s * s ≤ n - k + (s - 1) := Nat.div_mul_le_self _ _
    by_cases h1 : (n - k + (s - 1)) / s + 1 > 1 ∧ (n - k + (s - 1)) / s * s ≥ n
    · rw [if_pos h1] at hi
      -- i ≤ q - 1 and (q - 1) * s < n
      have hi' : i + 1 ≤ (n - k + (s - 1)) / s := by omega
      have h2 : s * (i + 1) ≤ s * ((n - k + (s - 1)) / s) := Nat.mul_le_mul_left s hi'
      rw [Nat.mul_comm s ((n - k + (s - 1)) / s)] at h2
      have h3 : s * (i + 1) = s * i + s := by rw [Nat.mul_add, Nat.mul_one]
      omega
    · rw [if_neg h1] at hi
      have hi' : i ≤ (n - k + (s - 1)) / s := by omega
      have h2 : s * i ≤ s * ((n - k + (s - 1)) / s) := Nat.mul_le_mul_left s hi'
      rw [Nat.mul_comm s ((n - k + (s - 1)) / s)] at h2
      rcases Nat.eq_zero_or_pos ((n - k + (s - 1)) / s) with h0 | h0
      · rw [h0] at h2; omega
      · have : ¬ (n - k + (s - 1)) / s * s ≥ n := fun hge => h1 ⟨by omega, hge⟩
        omega
  | false =>
    simp only [Bool.false_eq_true, if_false] at hi
    have h1 : i ≤ (n - k) / s := by omega
    have h2 : s * i ≤ s * ((n - k) / s) := Nat.mul_le_mul_left s h1
    have h3 : s * ((n - k) / s) ≤ n - k := Nat.mul_div_le _ _
    omega

theorem shapePool2d_append (lead : List Nat) (H W kh kw sh sw : Nat) (c : Bool) :
    shapePool2d (lead ++ [H, W]) [kh, kw] [sh, sw] c
      = some (lead ++ [poolExtent H kh sh c, poolExtent W kw sw c]) := by
  unfold shapePool2d
  have hl : (lead ++ [H, W]).length = lead.length + 2 := by simp
  have hnb : (lead ++ [H, W]).length - 2 = lead.length := by omega
  rw [if_neg (by omega)]
  simp only [hnb, List.drop_left, List.take_left]

theorem slicePool2d_append (lead li : List Nat) (hl : li.length = lead.length) (H W kh kw sh sw i j : Nat) :
    slicePool2d (li ++ [i, j]) (lead ++ [H, W]) [kh, kw] [sh, sw]
      = some (li.map (fun i => (i, i + 1, 1)) ++ [(sh * i, sh * i + kh, 1), (sw * j, sw * j + kw, 1)]) := by
  unfold slicePool2d
  have h1 : (lead ++ [H, W]).length = lead.length + 2 := by simp
  have h2 : (li ++ [i, j]).length - 2 = li.length := by simp
  have h3 : (lead ++ [H, W]).length - 2 = li.length := by omega
  rw [if_neg (by omega)]
  simp only [h2, h3, List.drop_left, List.take_left]

theorem sliceRange_unit {n i : Nat} (h : i < n) : sliceRange n (i, i + 1, 1) = [i] := by
  unfold sliceRange
  have e : min (i + 1) n = i + 1 := by omega
  simp [e]

theorem sliceRange_window {n k s i : Nat} (hk : 0 < k) (h : s * i < n) :
    sliceRange n (s * i, s * i + k, 1) = rangeFrom (s * i) (min (s * i + k) n) := by
  unfold sliceRange rangeFrom
  have e : min (s * i + k) n > s * i := by omega
  simp only [e, if_true]

theorem zipWith_sliceRange_lead {li lead : List Nat} (h : InShape li lead) :
    List.zipWith sliceRange lead (li.map (fun i => (i, i + 1, 1))) = li.map (fun i => [i]) := by
  induction lead generalizing li with
  | nil => cases li <;> simp_all [InShape]
  | cons s ss ih =>
    cases li with
    | nil => simp [InShape] at h
    | cons i is =>
      simp only [InShape] at h
      simp only [List.map_cons, List.zipWith_cons_cons, sliceRange_unit h.1, ih h.2]

theorem cartesian_units (li : List Nat) (rest : List (List Nat)) :
    cartesian (li.map (fun i => [i]) ++ rest) = (cartesian rest).map (li ++ ·) := by
  induction li with
  | nil => simp
  | cons i is ih =>
    simp only [List.map_cons, List.cons_append, cartesian, ih, List.flatMap_cons, List.flatMap_nil,
      List.append_nil, List.map_map]
    rfl

theorem cartesian_two (A B : List Nat) :
    cartesian [A, B] = A.flatMap fun a => B.map fun b => [a, b] := by
  simp only [cartesian, List.map_cons, List.map_nil, List.flatMap_cons, List.flatMap_nil, List.append_nil]
  congr 1
  funext a
  induction B with
  | nil => rfl
  | cons b bs ih => simp [List.flatMap_cons, ih]

/-- the window `pool2d_t::operator()` reads = the reference (clipped) window, element for element, in order -/
theorem poolWindow_eq_spec {lead li : List Nat} (hli : InShape li lead) {H W kh kw sh sw i j : Nat}
    (hkh : 0 < kh) (hkw : 0 < kw) (hi : sh * i < H) (hj : sw * j < W) :
    poolWindow (lead ++ [H, W]) [kh, kw] [sh, sw] (li ++ [i, j]) = some (specWindow li H W kh kw sh sw i j) := by
  unfold poolWindow
  rw [slicePool2d_append lead li hli.length_eq]
  simp only [Option.map_some]
  rw [List.zipWith_append (by simp [hli.length_eq])]
  rw [zipWith_sliceRange_lead hli]
  simp only [List.zipWith_cons_cons, List.zipWith_nil_right, sliceRange_window hkh hi, sliceRange_window hkw hj]
  rw [cartesian_units, cartesian_two]
  unfold specWindow
  simp only [List.map_flatMap, List.map_map]
  rfl

theorem mem_rangeFrom {lo hi a : Nat} : a ∈ rangeFrom lo hi ↔ lo ≤ a ∧ a < hi := by
  unfold rangeFrom
  simp only [List.mem_map, List.mem_range]
  constructor
  · rintro ⟨x, hx, rfl⟩; omega
  · intro h; exact ⟨a - lo, by omega, by omega⟩

theorem inShape_append {a b : Idx} {s t : Shape} (h1 : InShape a s) (h2 : InShape b t) : InShape (a ++ b) (s ++ t) := by
  induction s generalizing a with
  | nil => cases a <;> simp_all [InShape]
  | cons x xs ih =>
    cases a with
    | nil => simp [InShape] at h1
    | cons y ys => simp only [InShape] at h1; exact ⟨h1.1, ih h1.2⟩

theorem specWindow_inShape {lead li : List Nat} (hli : InShape li lead) {H W kh kw sh sw i j : Nat} :
    ∀ x ∈ specWindow li H W kh kw sh sw i j, InShape x (lead ++ [H, W]) := by
  intro x hx
  unfold specWindow at hx
  simp only [List.mem_flatMap, List.mem_map, mem_rangeFrom] at hx
  obtain ⟨a, ha, b, hb, rfl⟩ := hx
  refine inShape_append hli ?_
  simp only [InShape]
  exact ⟨by omega, by omega, trivial⟩

end NmVerif.NN
