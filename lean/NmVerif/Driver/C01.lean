import NmVerif.Proto
import NmVerif.Basic
import NmVerif.NDA
import NmVerif.Index.MachineAddr
namespace NmVerif.Driver.C01
open NmVerif NmVerif.Proto

/-- element type names of harness/h_c01w.cpp -/
def parseTy : String → Option ITy
  | "i32" => some ITy.i32 | "u32" => some ITy.u32 | "i64" => some ITy.i64 | "u64" => some ITy.u64 | _ => none

/-- the values can be stored in a container of element type `t` and of the requested kind
    (`std::array` ranks 1..6, run-time tuples of rank 1..3 and `static_vector` capacity 8 are what the harness instantiates) -/
def storable (t : ITy) (kind : String) (v : List Nat) : Bool :=
  v.all (fun x => decide (t.Fits x)) &&
    (match kind with
     | "vec" => true | "sv" => v.length ≤ 8 | "arr" => 1 ≤ v.length && v.length ≤ 6
     | "tup" => 1 ≤ v.length && v.length ≤ 3 | _ => false)

def fmtOpt : Option (List Nat) → String
  | some l => s!"ok {fmtNats l}"
  | none => "ub"

def handle : Handler := fun op a =>
  match op with
  | "w_strides" => orBad do
      let t ← (a.get? "ty").bind parseTy
      let k ← a.get? "kind"
      let s ← a.nats "shape"
      if !storable t k s then none
      pure (fmtOpt (mStrides t s))
  | "w_offset" => orBad do
      let ti ← (a.get? "tyi").bind parseTy
      let ts ← (a.get? "tys").bind parseTy
      let ki ← a.get? "ki"
      let ks ← a.get? "ks"
      let i ← a.nats "idx"
      let st ← a.nats "strides"
      if i.length != st.length || !storable ti ki i || !storable ts ks st then none
      pure s!"ok {mOffset i st}"
  | "w_indices" => orBad do
      let t ← (a.get? "ty").bind parseTy
      let k ← a.get? "kind"
      let s ← a.nats "shape"
      let off ← a.nat "off"
      let same := (a.get? "offty") == some "same"
      if !storable t k s || off ≥ SZ || (same && !decide (t.Fits off)) then none
      pure (fmtOpt (mNdindex t s off))
  | "w_indices3" => orBad do
      let t ← (a.get? "ty").bind parseTy
      let k ← a.get? "kind"
      let s ← a.nats "shape"
      let st ← a.nats "strides"
      let off ← a.nat "off"
      if !storable t k s || !storable t k st || s.length != st.length || off ≥ SZ then none
      pure (fmtOpt (mIndices t off s st))
  | "strides" => orBad do
      let s ← a.nats "shape"
      pure s!"ok {fmtNats (strides s)}"
  | "offset" => orBad do
      let i ← a.nats "idx"
      let st ← a.nats "strides"
      pure s!"ok {computeOffset i st}"
  | "indices" => orBad do
      let off ← a.nat "off"
      let s ← a.nats "shape"
      pure s!"ok {fmtNats (ndindex s off)}"
  | "product" => orBad do
      let s ← a.nats "shape"
      pure s!"ok {prod s}"
  | "nd_get" => orBad do
      -- array filled with data[k]=k : the element read IS the buffer position
      let s ← a.nats "shape"
      let i ← a.nats "idx"
      let cm := (a.get? "layout") == some "col"
      let arr : NDA Nat := { shape := s, colMajor := cm, data := List.range (prod s) }
      match arr.get? i with
      | some v => pure s!"ok {v}"
      | none => pure "oob"
  | "nd_set" => orBad do
      -- write a marker through operator(), report which buffer cell changed
      let s ← a.nats "shape"
      let i ← a.nats "idx"
      let cm := (a.get? "layout") == some "col"
      let arr : NDA Nat := { shape := s, colMajor := cm, data := List.replicate (prod s) 0 }
      let arr' := arr.set i 1
      pure s!"ok {fmtNats ((List.range (prod s)).filter (fun k => arr'.data[k]? == some 1))}"
  | _ => none

end NmVerif.Driver.C01
