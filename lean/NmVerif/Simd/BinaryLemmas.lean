import NmVerif.Simd.Eval
import NmVerif.Simd.SeqLemmas
import NmVerif.Simd.EnumLemmas
import NmVerif.Simd.VertLemmas
/-
  eval_binary BROADCASTED_2D (`simdBinary2d`) against NumPy broadcasting (`scalarBinary2d`).  Helper lemmas.
-/
namespace NmVerif.Simd
open NmVerif

variable {α β : Type}

/-- what output cell `k` (row-major) of the broadcast result holds -/
def bcastCell (f : α → α → β) (lhs rhs : List α) (lr lc rr rc oc k : Nat) : Option β :=
  match lhs[bcastOff lr lc oc k]?, rhs[bcastOff rr rc oc k]? with
  | some x, some y => some (f x y)
  | _, _ => none

theorem allSome_append (l₁ l₂ : List (Option α)) :
    allSome (l₁ ++ l₂) = (allSome l₁).bind (fun a => (allSome l₂).map (fun b => a ++ b)) := by
  induction l₁ with
  | nil => simp [allSome]
  | cons x xs ih =>
    cases x with
    | none => simp [allSome]
    | some v =>
      simp only [List.cons_append, allSome, ih]
      cases allSome xs with
      | none => rfl
      | some a => simp; cases allSome l₂ <;> rfl

/-- if every cell is defined, the list of cells exists and is indexed by them -/
theorem allSome_range (g : Nat → Option β) :
    ∀ n, (∀ k, k < n → (g k).isSome) →
      ∃ res, allSome ((List.range n).map g) = some res ∧ res.length = n ∧ ∀ k, k < n → res[k]? = g k := by
  intro n
  induction n with
  | zero => intro _; exact ⟨[], rfl, rfl, fun k hk => by omega⟩
  | succ n ih =>
    intro h
    obtain ⟨res, h1, h2, h3⟩ := ih (fun k hk => h k (by omega))
    obtain ⟨v, hv⟩ := Option.isSome_iff_exists.1 (h n (by omega))
    refine ⟨res ++ [v], ?_, by simp [h2], ?_⟩
    · rw [List.range_succ, List.map_append, allSome_append, h1]
      simp [allSome, hv]
    · intro k hk
      by_cases hkn : k < n
      · rw [List.getElem?_append_left (by omega), h3 k hkn]
      · have : k = n := by omega
        subst this
        rw [List.getElem?_append_right (by omega), h2]; simp [hv]

/-- a register load or a broadcast of one element: lane `j` holds `buf[laneOff t j]` -/
theorem loadOrSet1_ok (buf : List α) (t : TIdx) (N : Nat) (h : ∀ j, j < N → laneOff t j < buf.length) (hN : 0 < N) :
    ∃ L, loadOrSet1 buf t N = some L ∧ L.length = N ∧ ∀ j, j < N → L[j]? = buf[laneOff t j]? := by
  unfold loadOrSet1
  by_cases hp : t.tag = Tag.PACKED
  · have hb : t.off + N ≤ buf.length := by
      have := h (N - 1) (by omega); simp only [laneOff, hp, if_true] at this; omega
    rw [if_pos hp, loadu_eq hb]
    refine ⟨_, rfl, by rw [List.length_take, List.length_drop]; omega, ?_⟩
    intro j hj
    rw [List.getElem?_take, if_pos hj, List.getElem?_drop]
    simp [laneOff, hp]
  · have hb : t.off < buf.length := by
      have := h 0 hN; simp only [laneOff, hp, if_false] at this; exact this
    rw [if_neg hp]
    refine ⟨List.replicate N buf[t.off], by simp [readAt, List.getElem?_eq_getElem hb], by simp, ?_⟩
    intro j hj
    simp [laneOff, hp, List.getElem?_replicate, hj, List.getElem?_eq_getElem hb]

theorem bcastOff_lt (R oc rows cols o : Nat) (hoc : 0 < oc) (hok : OperandOK R oc rows cols)
    (hrows : 0 < rows) (ho : o < R * oc) : bcastOff rows cols oc o < rows * cols := by
  obtain ⟨hc, hrw⟩ := hok
  unfold bcastOff
  have hcols : 0 < cols := by rcases hc with h | h <;> omega
  have h1 : (if rows = 1 then 0 else o / oc) < rows := by
    by_cases h : rows = 1
    · simp [h]
    · rw [if_neg h]
      have : rows = R := by rcases hrw with h' | h'; exact h'; exact absurd h' h
      rw [this]; exact (Nat.div_lt_iff_lt_mul hoc).2 ho
  have h2 : (if cols = 1 then 0 else o % oc) < cols := by
    by_cases h : cols = 1
    · simp [h]
    · rw [if_neg h]
      have : cols = oc := by rcases hc with h' | h'; exact h'; exact absurd h' h
      rw [this]; exact Nat.mod_lt _ hoc
  generalize (if rows = 1 then 0 else o / oc) = a at h1
  generalize (if cols = 1 then 0 else o % oc) = b at h2
  have : (a + 1) * cols ≤ rows * cols := Nat.mul_le_mul_right cols h1
  rw [Nat.succ_mul] at this
  omega

/-- per-step operand offsets = broadcasting rule (restated from the row/column form for step `i`) -/
theorem binary2dAt_offsets (N oc lr lc rr rc : Nat) (hN : 0 < N)
    (hl : OperandOK (binary2dShape N oc lr rr).1 oc lr lc) (hr : OperandOK (binary2dShape N oc lr rr).1 oc rr rc)
    (i : Nat) (hi : i < binary2dSize N oc lr rr) (j : Nat) (hj : j < stepLen N (binary2dAt N oc lr lc rr rc i).1) :
    laneOff (binary2dAt N oc lr lc rr rc i).2.1 j = bcastOff lr lc oc ((binary2dAt N oc lr lc rr rc i).1.off + j)
    ∧ laneOff (binary2dAt N oc lr lc rr rc i).2.2 j = bcastOff rr rc oc ((binary2dAt N oc lr lc rr rc i).1.off + j) := by
  unfold binary2dSize at hi
  have hCs : 0 < (binary2dShape N oc lr rr).2 := by
    rcases Nat.eq_zero_or_pos (binary2dShape N oc lr rr).2 with h | h
    · rw [h] at hi; simp at hi
    · exact h
  have hsc : i % (oc / N + oc % N) < oc / N + oc % N := Nat.mod_lt _ hCs
  have hrr : i / (oc / N + oc % N) < (binary2dShape N oc lr rr).1 :=
    (Nat.div_lt_iff_lt_mul hCs).2 hi
  have hi' : i = (i / (oc / N + oc % N)) * (oc / N + oc % N) + i % (oc / N + oc % N) := by
    have := Nat.div_add_mod i (oc / N + oc % N); rw [Nat.mul_comm] at this; omega
  generalize i / (oc / N + oc % N) = r at hrr hi'
  generalize i % (oc / N + oc % N) = sc at hsc hi'
  subst hi'
  rw [binary2dAt_row _ _ _ _ _ _ _ _ hsc] at hj ⊢
  have hout : (binary2d N r sc oc lr lc rr rc).1.off
      = (if sc < oc / N then sc * N else oc / N * N + (sc - oc / N)) + r * oc := by
    by_cases h : sc < oc / N
    · rw [binary2d_out_packed _ _ _ _ _ _ _ _ h, if_pos h]
    · rw [binary2d_out_scalar _ _ _ _ _ _ _ _ (by omega), if_neg h]
  have hlen : stepLen N (binary2d N r sc oc lr lc rr rc).1 = (if sc < oc / N then N else 1) := by
    by_cases h : sc < oc / N
    · rw [binary2d_out_packed _ _ _ _ _ _ _ _ h, if_pos h]; simp [stepLen]
    · rw [binary2d_out_scalar _ _ _ _ _ _ _ _ (by omega), if_neg h]; simp [stepLen, Tag.SCALAR, Tag.PACKED]
  rw [hlen] at hj
  have e : (if sc < oc / N then sc * N else oc / N * N + (sc - oc / N)) + r * oc + j
      = (if sc < oc / N then sc * N else oc / N * N + (sc - oc / N)) + j + r * oc := by omega
  rw [hout, e]
  exact ⟨binary2dOperand_lane N r sc oc _ lr lc j hN hrr hsc hl hj,
         binary2dOperand_lane N r sc oc _ rr rc j hN hrr hsc hr hj⟩

/-- the SIMD evaluator fills the output with the broadcast cells `res` -/
theorem simdBinary2d_eq_cells (N : Nat) (hN : 0 < N) (packF : List α → List α → List β) (f : α → α → β)
    (hpf : ∀ xs ys, xs.length = N → ys.length = N → packF xs ys = List.zipWith f xs ys)
    (lhs rhs : List α) (lr lc rr rc oc : Nat) (hoc : 0 < oc) (hlr : 0 < lr) (hrr : 0 < rr)
    (hl : OperandOK (binary2dShape N oc lr rr).1 oc lr lc) (hr : OperandOK (binary2dShape N oc lr rr).1 oc rr rc)
    (hll : lhs.length = lr * lc) (hrl : rhs.length = rr * rc)
    (res : List β) (hres : res.length = (binary2dShape N oc lr rr).1 * oc)
    (hcell : ∀ k, k < (binary2dShape N oc lr rr).1 * oc → res[k]? = bcastCell f lhs rhs lr lc rr rc oc k)
    (out : List β) (ho : out.length = (binary2dShape N oc lr rr).1 * oc) :
    simdBinary2d N packF f lhs rhs lr lc rr rc oc out = some res := by
  unfold simdBinary2d
  have hsz : binary2dSize N oc lr rr = (binary2dShape N oc lr rr).1 * (oc / N + oc % N) := rfl
  have hcontig := binary2d_contig N oc lr lc rr rc (binary2dShape N oc lr rr).1
  rw [← hsz] at hcontig
  have := seq_blocks res out (fun i => (binary2dAt N oc lr lc rr rc i).1.off)
    (fun i => stepLen N (binary2dAt N oc lr lc rr rc i).1) (binary2dStep N packF f lhs rhs lr lc rr rc oc) (by rw [hres, ho])
    (List.range (binary2dSize N oc lr rr)) 0 _ hcontig (by rw [ho]; exact Nat.le_refl _)
    (by
      intro i hi hb
      have hi' : i < binary2dSize N oc lr rr := by simpa using hi
      rw [ho] at hb
      have hoff := binary2dAt_offsets N oc lr lc rr rc hN hl hr i hi'
      have hpre : (res.take (binary2dAt N oc lr lc rr rc i).1.off).length = (binary2dAt N oc lr lc rr rc i).1.off := by
        rw [List.length_take, hres]; omega
      -- name the three tagged indices of this step
      unfold binary2dStep
      simp only
      generalize hstep : binary2dAt N oc lr lc rr rc i = step at hoff hb hpre ⊢
      obtain ⟨ot, lt, rt⟩ := step
      simp only at hoff hb hpre ⊢
      have hlb : ∀ j, j < stepLen N ot → laneOff lt j < lhs.length := by
        intro j hj
        rw [(hoff j hj).1, hll]
        exact bcastOff_lt _ oc lr lc _ hoc hl hlr (by omega)
      have hrb : ∀ j, j < stepLen N ot → laneOff rt j < rhs.length := by
        intro j hj
        rw [(hoff j hj).2, hrl]
        exact bcastOff_lt _ oc rr rc _ hoc hr hrr (by omega)
      by_cases hp : ot.tag = Tag.PACKED
      · have hlen : stepLen N ot = N := by simp [stepLen, hp]
        rw [hlen] at hoff hlb hrb hb
        obtain ⟨L, hL, hLl, hLj⟩ := loadOrSet1_ok lhs lt N hlb hN
        obtain ⟨Rr, hR, hRl, hRj⟩ := loadOrSet1_ok rhs rt N hrb hN
        rw [if_pos hp, hL, hR, hlen]
        simp only [Option.bind_eq_bind, Option.bind_some]
        congr 1
        rw [hpf L Rr hLl hRl]
        apply List.ext_getElem?
        intro j
        rw [List.getElem?_zipWith, List.getElem?_take, List.getElem?_drop]
        by_cases hj : j < N
        · rw [if_pos hj, hcell _ (by omega), hLj j hj, hRj j hj, (hoff j hj).1, (hoff j hj).2]
          unfold bcastCell
          cases lhs[bcastOff lr lc oc (ot.off + j)]? <;> cases rhs[bcastOff rr rc oc (ot.off + j)]? <;> rfl
        · rw [if_neg hj, List.getElem?_eq_none (by omega : L.length ≤ j)]
      · have hlen : stepLen N ot = 1 := by simp [stepLen, hp]
        rw [hlen] at hoff hlb hrb hb
        rw [if_neg hp, hlen]
        have h0 := hoff 0 (by omega)
        have hl0 : laneOff lt 0 = lt.off := by unfold laneOff; split <;> simp
        have hr0 : laneOff rt 0 = rt.off := by unfold laneOff; split <;> simp
        rw [hl0, hr0, Nat.add_zero] at h0
        have hc := hcell ot.off (by omega)
        unfold bcastCell at hc
        rw [← h0.1, ← h0.2] at hc
        have hlx := hlb 0 (by omega); rw [hl0] at hlx
        have hrx := hrb 0 (by omega); rw [hr0] at hrx
        simp only [readAt, List.getElem?_eq_getElem hlx, List.getElem?_eq_getElem hrx, Option.bind_eq_bind,
          Option.bind_some] at hc ⊢
        rw [writeAt_eq_storeu]
        congr 1
        have hlt : ot.off < res.length := by omega
        rw [List.drop_eq_getElem_cons hlt]
        simp only [List.take_succ_cons, List.take_zero]
        rw [List.getElem?_eq_getElem hlt] at hc
        simpa using hc.symm)
  simp only [List.take_zero, List.nil_append, List.drop_zero] at this
  rw [this, List.take_of_length_le (by omega), List.drop_of_length_le (by omega), List.append_nil]

end NmVerif.Simd
