import NmVerif.Proto
import NmVerif.Arr
import NmVerif.Index.Tile
import NmVerif.Index.Repeat
import NmVerif.Index.Roll
import NmVerif.Index.Pad
import NmVerif.Index.Take
import NmVerif.Index.Concatenate
import NmVerif.Index.Stack
import NmVerif.Index.Resize
import NmVerif.Index.Compress
import NmVerif.Index.Expand
import NmVerif.Index.Diagonal
import NmVerif.Index.SlidingWindow
import NmVerif.Index.Split
import NmVerif.Driver.C04Gen
namespace NmVerif.Driver.C04
open NmVerif NmVerif.Proto NmVerif.Index

/-- the harness refuses to enumerate a view whose shape has wrapped around (`c04::is_huge`, limit 2^20) and prints
    the extents as signed 64-bit numbers -/
def hugeLimit : Nat := 2 ^ 20

def isHuge (s : Shape) : Bool :=
  (s.foldl (fun (acc : Bool × Nat) e =>
    if acc.1 then acc else
    if e > hugeLimit then (true, acc.2) else
    let n := acc.2 * e
    if n > hugeLimit then (true, n) else (false, n)) (false, 1)).1

def fmtSigned (s : Shape) : String :=
  fmtInts (s.map (fun (e : Nat) => if e < 2 ^ 63 then Int.ofNat e else Int.ofNat e - 2 ^ 64))

/-- What the harness prints for an indexing view over `data[k] = k + base`: `ndarray_t::operator()` computes the offset
    in `size_t` (wraps mod 2^64) and reads `data_.at(offset)`, which throws (→ `oob`) iff `offset ≥ size`;
    an index outside the shape whose offset stays below `size` is read silently.  `fill` = the view's fill value. -/
def fmtViewCore (base fill : Int) (pre : String) (v : IxView) : String :=
  if isHuge v.dst then s!"ok{pre} shape={fmtSigned v.dst} data=huge" else
  let st := strides v.src
  let n := prod v.src
  let offs : List (Option Nat) := (allIdx v.dst).map (fun d => (v.map d).map (fun i => computeOffset i st % 2^64))
  if offs.any (fun o => match o with | some k => decide (n ≤ k) | none => false) then "oob"
  else
    let data : List Int := offs.map (fun o => match o with | some k => (k : Int) + base | none => fill)
    s!"ok{pre} shape={fmtNats v.dst} data={fmtInts data}"

def fmtViewB (base fill : Int) (v : Option IxView) : String :=
  match v with
  | none => "nothing"
  | some v => fmtViewCore base fill "" v

def fmtView (v : Option IxView) : String := fmtViewB 0 (-1) v

def fmtGen (g : GenView) : String :=
  if isHuge g.dst then s!"ok shape={fmtSigned g.dst} data=huge" else
  s!"ok shape={fmtNats g.dst} data={fmtInts ((allIdx g.dst).map g.elem)}"

/-- two operands: left filled `k`, right `k + 1000`; neither flag set ⇒ the C++ (NDEBUG) reads the right operand
    at a zero-initialised index, i.e. element 1000 -/
def fmtView2 (v : Option IxView2) : String :=
  match v with
  | none => "nothing"
  | some v =>
    let offs : List (Option Int) := (allIdx v.dst).map (fun d =>
      match v.map d with
      | some (false, i) => let k := computeOffset i (strides v.srcA) % 2^64
                           if k < prod v.srcA then some (k : Int) else none
      | some (true, i) => let k := computeOffset i (strides v.srcB) % 2^64
                          if k < prod v.srcB then some ((k : Int) + 1000) else none
      | none => if 0 < prod v.srcB then some 1000 else none)
    if isHuge v.dst then s!"ok shape={fmtSigned v.dst} data=huge" else
    if offs.any (·.isNone) then "oob"
    else s!"ok shape={fmtNats v.dst} data={fmtInts (offs.map (·.getD 0))}"

def bcast (shift : Int) (axes : List Int) : List Int := axes.map (fun _ => shift)

def handle : Handler := fun op a =>
  match op with
  | "repeat" => orBad do
      let s ← a.nats "shape"
      match a.get? "repeats" with
      | some _ =>
        let r ← a.nat "repeats"
        let ax ← a.optInt "axis"
        pure (fmtView (repeatView s r ax))
      | none =>
        let rs ← a.nats "rlist"
        let ax ← a.int "axis"
        pure (fmtView (repeatListView s rs ax))
  | "roll" => orBad do
      let s ← a.nats "shape"
      match a.get? "axis", a.get? "alist", a.get? "slist" with
      | some "None", _, _ => do
        let sh ← a.int "shift"
        pure (fmtView (rollNoneView s sh))
      | some _, _, _ => do
        let sh ← a.int "shift"
        let ax ← a.int "axis"
        pure (fmtView (rollView s sh ax))
      | none, some _, none => do
        let sh ← a.int "shift"
        let axes ← a.ints "alist"
        pure (fmtView (rollAxesView s (bcast sh axes) axes))
      | none, some _, some _ => do
        let shs ← a.ints "slist"
        let axes ← a.ints "alist"
        pure (fmtView (rollAxesView s shs axes))
      | _, _, _ => none
  | "pad" => orBad do
      let s ← a.nats "shape"
      let w ← a.nats "widths"
      pure (fmtView (padView s w))
  | "take" => orBad do
      let s ← a.nats "shape"
      let ind ← a.ints "indices"
      let ax ← a.optInt "axis"
      pure (fmtView (takeView s ind ax))
  | "concatenate" => orBad do
      let s ← a.nats "shape"
      let s2 ← a.nats "shape2"
      let ax ← a.optInt "axis"
      pure (fmtView2 (concatenateView s s2 ax))
  | "tile" => orBad do
      let s ← a.nats "shape"
      let r ← a.nats "reps"
      pure (fmtView (tileView s r))
  | "stack" => orBad do
      pure (fmtView2 (stackView (← a.nats "shape") (← a.nats "shape2") (← a.int "axis")))
  | "hstack" => orBad do pure (fmtView2 (hstackView (← a.nats "shape") (← a.nats "shape2")))
  | "vstack" => orBad do pure (fmtView2 (vstackView (← a.nats "shape") (← a.nats "shape2")))
  | "dstack" => orBad do pure (fmtView2 (dstackView (← a.nats "shape") (← a.nats "shape2")))
  | "column_stack" => orBad do pure (fmtView2 (columnStackView (← a.nats "shape") (← a.nats "shape2")))
  | "split" => orBad do
      let s ← a.nats "shape"
      let ax ← a.int "axis"
      let part ← a.nat "part"
      let parts ← match a.get? "sections" with
        | some _ => do pure (splitViews s (some (← a.nat "sections")) [] ax)
        | none => do pure (splitViews s none (← a.ints "indices") ax)
      match parts with
      | none => pure "oob"
      | some ps =>
        match ps[part]? with
        | none => pure s!"ok parts={ps.length} part-out-of-range"
        | some v => pure (fmtViewCore 0 (-1) s!" parts={ps.length}" v)
  | "sliding_window" => orBad do
      let s ← a.nats "shape"
      match a.get? "window", a.get? "alist" with
      | some _, _ => do
        let w ← a.nat "window"
        let ax ← a.optInt "axis"
        pure (fmtView (slidingWindowView s [w] (ax.map (fun x => [x])) true))
      | none, some _ => do
        pure (fmtView (slidingWindowView s (← a.nats "wlist") (some (← a.ints "alist")) false))
      | none, none => do
        pure (fmtView (slidingWindowView s (← a.nats "wlist") none false))
  | "diagonal" => orBad do
      pure (fmtView (diagonalView (← a.nats "shape") (← a.int "offset") (← a.int "axis1") (← a.int "axis2")))
  | "diagflat" => orBad do pure (fmtViewB 1 0 (diagflatView (← a.nats "shape") (← a.int "k")))
  | "tril" => orBad do pure (fmtViewB 1 0 (trilView (← a.nats "shape") (← a.int "k")))
  | "triu" => orBad do pure (fmtViewB 1 0 (triuView (← a.nats "shape") (← a.int "k")))
  | "tri" => orBad do
      let m ← a.optInt "m"
      pure (fmtGen (triGen (← a.nat "n") (m.map Int.toNat) (← a.int "k")))
  | "eye" => orBad do
      let m ← a.optInt "m"
      pure (fmtGen (eyeGen (← a.nat "n") (m.map Int.toNat) (← a.int "k")))
  | "identity" => orBad do pure (fmtGen (identityGen (← a.nat "n")))
  | "compress" => orBad do
      pure (fmtView (compressView (← a.nats "shape") (← a.ints "cond") (← a.optInt "axis")))
  | "resize" => orBad do pure (fmtView (resizeView (← a.nats "shape") (← a.nats "to")))
  | "expand" => orBad do
      let s ← a.nats "shape"
      let axes ← match a.get? "alist" with
        | some _ => a.ints "alist"
        | none => (a.int "axis").map (fun x => [x])
      let sps ← match a.get? "slist" with
        | some _ => a.nats "slist"
        | none => (a.nat "spacing").map (fun x => axes.map (fun _ => x))
      pure (fmtView (expandView s axes sps))
  | _ => C04Gen.handle op a

end NmVerif.Driver.C04
