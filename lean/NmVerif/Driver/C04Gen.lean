import NmVerif.Proto
import NmVerif.Arr
import NmVerif.Index.Where
import NmVerif.Index.Generators
/-
  Driver ops of C04 answered from Index/Where.lean and Index/Generators.lean (dispatched from Driver/C04.lean).
-/
namespace NmVerif.Driver.C04Gen
open NmVerif NmVerif.Proto NmVerif.Index

/-- `where shape=<cond shape> cond=<entries, C order> shape2=<x shape> shape3=<y shape>`: x holds `1000 + k`, y holds
    `2000 + k`; an index computation that fails (never on accepted operands: `where_elem`) would print `oob` -/
def fmtWhere (c x y : Shape) (cond : List Int) : String :=
  match whereView c x y with
  | none => "nothing"
  | some w =>
    let cv : Idx → Int := fun ic => cond[computeOffset ic (strides c)]?.getD 0
    let data : List (Option Int) := (allIdx w.dst).map (fun d =>
      (w.select cv d).map (fun p =>
        if p.1 then (computeOffset p.2 (strides y) : Int) + 2000 else (computeOffset p.2 (strides x) : Int) + 1000))
    if data.any (·.isNone) then "oob"
    else s!"ok shape={fmtNats w.dst} data={fmtInts (data.map (·.getD 0))}"

/-- the harness enumerates nothing beyond 2^20 elements (`c04::is_huge`) -/
def hugeLimit : Nat := 2 ^ 20

def isHuge (s : Shape) : Bool :=
  (s.foldl (fun (acc : Bool × Nat) e =>
    if acc.1 then acc else
    if e > hugeLimit then (true, acc.2) else
    let n := acc.2 * e
    if n > hugeLimit then (true, n) else (false, n)) (false, 1)).1

/-- a rational element: an integer when the fraction is integral, `num/den` otherwise (the runner compares it with the
    floating value printed by the harness within the relative tolerance) -/
def fmtQ (q : Q) : String :=
  if q.den = 0 then "nan" else
  if q.num % (q.den : Int) = 0 then toString (q.num / (q.den : Int)) else s!"{q.num}/{q.den}"

def fmtQs (l : List Q) : String := if l.isEmpty then "[]" else ",".intercalate (l.map fmtQ)

def fmtGenI (g : GenView) : String :=
  if isHuge g.dst then s!"ok shape={fmtNats g.dst} data=huge" else
  s!"ok shape={fmtNats g.dst} data={fmtInts ((allIdx g.dst).map g.elem)}"

def fmtGenQ (g : QGen) : String :=
  if isHuge g.dst then s!"ok shape={fmtNats g.dst} data=huge" else
  s!"ok shape={fmtNats g.dst} data={fmtQs ((allIdx g.dst).map g.elem)}"

/-- selected positions only (`arange_at`, `linspace_at`): shape and the elements at the listed positions -/
def fmtGenAt (g : QGen) (at_ : List Nat) : String :=
  s!"ok shape={fmtNats g.dst} at={fmtQs (at_.map (fun k => g.elem [k]))}"

/-- `start=<int>` or `startq=<quarters>` → quarters -/
def quarters (a : Args) (k : String) : Option Int :=
  match a.get? (k ++ "q") with
  | some _ => a.int (k ++ "q")
  | none => (a.int k).map (· * 4)

/-- step of an arange request: `step=None` (the default `1_ct`), `step=<int>`, `stepq=<quarters>` -/
def arangeStep (a : Args) : Option (Int × Nat) :=
  match a.get? "stepq" with
  | some _ => (a.int "stepq").map (fun q => (q, 4))
  | none =>
    match a.optInt "step" with
    | some none => some (1, 1)
    | some (some k) => some (k, 1)
    | none => none

def arangeOf (a : Args) : Option (Option QGen) := do
  let start ← a.int "start"
  let stop ← a.int "stop"
  let st ← arangeStep a
  pure (arangeGen start stop st.1 st.2)

def linspaceOf (a : Args) : Option QGen := do
  let startq ← quarters a "start"
  let stopq ← quarters a "stop"
  let num ← a.nat "num"
  let ep ← a.nat "endpoint"
  pure (linspaceGen startq stopq num (ep != 0))

def handle : Handler := fun op a =>
  match op with
  | "where" => orBad do
      let c ← a.nats "shape"
      let x ← a.nats "shape2"
      let y ← a.nats "shape3"
      let cond ← a.ints "cond"
      pure (fmtWhere c x y cond)
  | "arange" =>
      if (a.get? "startq").isSome || (a.get? "stopq").isSome then some "unsupported" else
      orBad do
        match ← arangeOf a with
        | some g => pure (fmtGenQ g)
        | none => pure "unmodelled"
  | "arange_at" => orBad do
      let at_ ← a.nats "at"
      match ← arangeOf a with
      | some g => pure (fmtGenAt g at_)
      | none => pure "unmodelled"
  | "linspace" => orBad do pure (fmtGenQ (← linspaceOf a))
  | "linspace_at" => orBad do pure (fmtGenAt (← linspaceOf a) (← a.nats "at"))
  | "full" => orBad do pure (fmtGenI (fullGen (← a.nats "shape") (← a.int "value")))
  | "zeros" => orBad do pure (fmtGenI (zerosGen (← a.nats "shape")))
  | "ones" => orBad do pure (fmtGenI (onesGen (← a.nats "shape")))
  | "full_like" => orBad do pure (fmtGenI (fullLikeGen (← a.nats "shape") (← a.int "value")))
  | "zeros_like" => orBad do pure (fmtGenI (zerosLikeGen (← a.nats "shape")))
  | "ones_like" => orBad do pure (fmtGenI (onesLikeGen (← a.nats "shape")))
  | _ => none

end NmVerif.Driver.C04Gen
