import NmVerif.Index.SelCommon
/-
  NmVerif.Index.Concatenate — MODEL of include/nmtools/array/index/concatenate.hpp (+ view/concatenate.hpp).

  Stable names:
    `Index.IxView2`                                  two-operand indexing view: `map d = some (false, i)` reads the LEFT
                                                     operand at `i`, `some (true, i)` the RIGHT one, `none` = neither
                                                     (`aflag = bflag = false`: the C++ asserts / reads the right operand at zeros)
    `Index.shapeConcatenate a b axis : Bool × Shape`   index::shape_concatenate  (`success`, `ret`)
    `Index.shapeConcatenateNone a b : Shape`
    `Index.indexConcatenate a b d axis`, `Index.indexConcatenateNone a b d` : Option (Bool × Idx)   index::concatenate
    `Index.concatenateView a b axis : Option IxView2`  view::concatenate(lhs, rhs, axis) (`axis : Option Int`)

  Facts mirrored (concatenate.hpp; view/concatenate.hpp:110-125):
    * both functions normalise the axis first (`a < 0 ? a + len(ashape) : a`, repaired: "concatenate.negative-axis",
      which also repairs `stack` with a negative axis);
    * `shape_concatenate`: ranks must agree; `ret` is zero-initialised, the loop stops at the first non-axis extent
      that differs (`success = false`, later entries stay 0);
    * `view::concatenate` only *asserts* `success` (compiled out under NDEBUG) and builds the view with `ret` anyway;
    * `index::concatenate` reads `ashape[axis]`, `bshape[axis]`, `d[axis]` and adjusts the right operand's index where `i == axis`.
  Core Lean only.
-/
namespace NmVerif.Index

structure IxView2 where
  srcA : Shape
  srcB : Shape
  dst : Shape
  map : Idx → Option (Bool × Idx)

namespace IxView2
/-- both operands are only read inside their shapes -/
def InBounds (v : IxView2) : Prop :=
  ∀ d, InShape d v.dst → ∀ b i, v.map d = some (b, i) → InShape i (if b then v.srcB else v.srcA)

/-- apply to two operands -/
def apply {α : Type} (v : IxView2) (a b : Arr α) (dflt : α) : Arr α :=
  ⟨v.dst, fun d => match v.map d with
    | some (false, i) => a.get i
    | some (true, i) => b.get i
    | none => dflt⟩
end IxView2

/-- loop of `shape_concatenate` (ranks already equal): returns (`success`, entries written so far ++ zeros) -/
def shapeConcatLoop (axis : Int) : Nat → Shape → Shape → Bool × Shape
  | _, [], _ => (true, [])
  | _, _ :: _, [] => (true, [])
  | i, a :: as, b :: bs =>
      if (i : Int) = axis then
        let (ok, r) := shapeConcatLoop axis (i + 1) as bs
        (ok, (a + b) :: r)
      else if a = b then
        let (ok, r) := shapeConcatLoop axis (i + 1) as bs
        (ok, a :: r)
      else (false, List.replicate (as.length + 1) 0)

def shapeConcatenate (a b : Shape) (axis : Int) : Bool × Shape :=
  if a.length = b.length then shapeConcatLoop (normAxis axis a.length) 0 a b
  else (false, List.replicate a.length 0)

def shapeConcatenateNone (a b : Shape) : Shape := [prod a + prod b]

def indexConcatenateNone (a b : Shape) (d : Idx) : Option (Bool × Idx) :=
  match d with
  | i :: _ =>
      if i < prod a then some (false, computeIndices i a (strides a))
      else if i < prod a + prod b then some (true, computeIndices (i - prod a) b (strides b))
      else none
  | [] => none

def indexConcatenate (a b : Shape) (d : Idx) (axis0 : Int) : Option (Bool × Idx) :=
  let axis := normAxis axis0 a.length
  match atPy a axis, atPy b axis, atPy d axis with
  | some aa, some ba, some ia =>
      if ia < aa then some (false, d.take a.length)
      else if ia < ba + aa then some (true, mapAt (· - aa) axis 0 (d.take b.length))
      else none
  | _, _, _ => none

/-- `view::concatenate(lhs, rhs, axis)` under NDEBUG (the failed `success` is ignored) -/
def concatenateView (a b : Shape) (axis : Option Int) : Option IxView2 :=
  match axis with
  | none => some ⟨a, b, shapeConcatenateNone a b, indexConcatenateNone a b⟩
  | some ax => some ⟨a, b, (shapeConcatenate a b ax).2, fun d => indexConcatenate a b d ax⟩

end NmVerif.Index
