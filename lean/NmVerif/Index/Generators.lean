import NmVerif.Basic
import NmVerif.Index.Diagonal
/-
  NmVerif.Index.Generators — MODEL of the generator views
    include/nmtools/array/view/full.hpp, zeros.hpp, ones.hpp, full_like.hpp, zeros_like.hpp, ones_like.hpp
    include/nmtools/array/index/arange.hpp (index::arange_shape, index::ceil_), view/arange.hpp (arange_t::operator())
    include/nmtools/array/view/linspace.hpp (index::linspace_step, index::linspace_shape, linspace_t::operator())

  Stable names:
    `Index.Q`                  a rational `num / den` (not reduced) — element EXPRESSIONS of the real-valued generators;
                               the floating value that the C++ computes from the expression stays the harness's
    `Index.QGen`               generator with rational elements (shape + element function)
    `Index.fullGen s v`, `zerosGen s`, `onesGen s`, `fullLikeGen src v`, `zerosLikeGen src`, `onesLikeGen src`
    `Index.f32Round x`         IEEE-754 binary32 round-to-nearest-even of a rational (normal range)
    `Index.arangeLen start stop sn sd : Option Nat`   index::arange_shape for integer start/stop and step `sn/sd`:
                               `n = float(stop - start) / step; d = n > 0 ? ceil_(n) : 0`; `none` = step 0 (the C++ divides
                               by zero and converts inf/nan to size_t: UB) or a request outside what is modelled
    `Index.arangeGen start stop sn sd : Option QGen`  view::arange: shape `[arangeLen]`, element `k ↦ start + k·step`
    `Index.linspaceGen startq stopq num endpoint : QGen`   view::linspace with start/stop given in quarter units:
                               `div = endpoint ? num - 1 : num`, `step = div > 0 ? (stop - start)/div : 0`,
                               element `k ↦ start + k·step`, shape `[num]`
  Core Lean only.
-/
namespace NmVerif.Index

structure Q where
  num : Int
  den : Nat
deriving DecidableEq, Repr

structure QGen where
  dst : Shape
  elem : Idx → Q

/-! ### full / zeros / ones (`full_t::operator()` ignores the index) and the `_like` forms (shape of the array) -/

def fullGen (s : Shape) (v : Int) : GenView := ⟨s, fun _ => v⟩
def zerosGen (s : Shape) : GenView := fullGen s 0
def onesGen (s : Shape) : GenView := fullGen s 1
def fullLikeGen (src : Shape) (v : Int) : GenView := fullGen src v
def zerosLikeGen (src : Shape) : GenView := fullGen src 0
def onesLikeGen (src : Shape) : GenView := fullGen src 1

/-! ### binary32 rounding (only what `arange_shape` needs: conversion of an `int`, one division) -/

/-- round-half-even of `P / Q` to an integer -/
def rne (P Q : Nat) : Nat :=
  let fl := P / Q
  let r := P % Q
  if 2 * r > Q ∨ (2 * r = Q ∧ fl % 2 = 1) then fl + 1 else fl

/-- `p / (q · 2^e)` as a fraction of naturals -/
def scaleFrac (p q : Nat) (e : Int) : Nat × Nat :=
  if e ≥ 0 then (p, q * 2 ^ e.toNat) else (p * 2 ^ (-e).toNat, q)

/-- binary32 round-to-nearest-even of the positive rational `p / q` (normal range): `(m, e)` with value `m · 2^e` and
    `2^23 ≤ m ≤ 2^24`.  `p / q` lies in `(2^(lp-lq-1), 2^(lp-lq+1))` for the bit lengths `lp`, `lq`, so the exponent is
    `lp - lq - 23` or one less. -/
def f32RoundPos (p q : Nat) : Nat × Int :=
  let e0 : Int := (Nat.log2 p : Int) - (Nat.log2 q : Int) - 23
  let s0 := scaleFrac p q e0
  let e : Int := if s0.1 < 2 ^ 23 * s0.2 then e0 - 1 else e0
  let s := scaleFrac p q e
  (rne s.1 s.2, e)

def f32Round (x : Q) : Q :=
  if x.num = 0 ∨ x.den = 0 then ⟨0, 1⟩ else
  let r := f32RoundPos x.num.natAbs x.den
  let sgn : Int := if x.num < 0 then -1 else 1
  if r.2 ≥ 0 then ⟨sgn * (r.1 * 2 ^ r.2.toNat : Nat), 1⟩ else ⟨sgn * (r.1 : Nat), 2 ^ (-r.2).toNat⟩

/-- quotient of two rationals with the sign in the numerator (`b ≠ 0`) -/
def Q.div (a b : Q) : Q :=
  let sgn : Int := if b.num < 0 then -1 else 1
  ⟨sgn * a.num * b.den, a.den * b.num.natAbs⟩

/-- `ceil_` on a positive rational: truncation, plus one unless the value is integral -/
def ceilPos (x : Q) : Nat := (x.num.toNat + x.den - 1) / x.den

/-! ### arange -/

/-- `index::arange_shape(start, stop, step)` with `step = sn / sd` (`sd = 1`: an `int` step, also the default `1_ct`;
    `sd ∈ {2, 4}`: a `float` / `double` step on the quarter grid).
    Range A (`|stop - start|·sd < 2^24` and `|sn| < 2^24`): the conversions `float(stop - start)`, `float(step)` are exact and
    the correctly rounded quotient has the same ceiling and the same sign as the exact quotient (ASSUMPTION "arange
    quotient", see lib/props/c04.py), so the count is computed from the exact quotient.
    An `int` step does not go through binary32 any more (repair "arange.float32-length"): exact for every range.
    A real step outside range A is not modelled (`none`). -/
def arangeLenExact (n sn : Int) (sd : Nat) : Nat :=
  let q : Q := Q.div ⟨n * sd, 1⟩ ⟨sn, 1⟩
  if q.num > 0 then ceilPos q else 0

/-- the literal float32 computation for an `int` step -/
def arangeLenF32 (n sn : Int) : Nat :=
  let q := f32Round (Q.div (f32Round ⟨n, 1⟩) (f32Round ⟨sn, 1⟩))
  if q.num > 0 then ceilPos q else 0

def arangeLen (start stop sn : Int) (sd : Nat) : Option Nat :=
  let n := stop - start
  -- integer step (repaired code): exact integer ceiling division in `long long`; step 0 gives an empty range
  if sd = 1 then some (if sn = 0 then 0 else arangeLenExact n sn 1)
  else if sn = 0 ∨ sd = 0 then none
  else if n.natAbs * sd < 2 ^ 24 ∧ sn.natAbs < 2 ^ 24 then some (arangeLenExact n sn sd)
  else none

/-- `arange_t::operator()(k)`: `T(start) + T(k) * step` as an expression -/
def arangeElem (start sn : Int) (sd : Nat) (k : Nat) : Q := ⟨start * sd + k * sn, sd⟩

def arangeGen (start stop sn : Int) (sd : Nat) : Option QGen :=
  (arangeLen start stop sn sd).map (fun l =>
    ⟨[l], fun d => match d with
      | [k] => arangeElem start sn sd k
      | _ => ⟨0, 1⟩⟩)

/-! ### linspace (start / stop in quarter units: `startq / 4`, `stopq / 4`) -/

/-- `div = endpoint ? num - 1 : num` in `size_t` (`num = 0` with endpoint wraps; there is no element then) -/
def linspaceDiv (num : Nat) (endpoint : Bool) : Nat :=
  if endpoint then (if num = 0 then 2 ^ 64 - 1 else num - 1) else num

/-- element `k`: `start + k · step`, `step = div > 0 ? (stop - start) / div : 0` -/
def linspaceElem (startq stopq : Int) (num : Nat) (endpoint : Bool) (k : Nat) : Q :=
  let dv := linspaceDiv num endpoint
  if dv > 0 then ⟨startq * dv + k * (stopq - startq), 4 * dv⟩ else ⟨startq, 4⟩

def linspaceGen (startq stopq : Int) (num : Nat) (endpoint : Bool) : QGen :=
  ⟨[num], fun d => match d with
    | [k] => linspaceElem startq stopq num endpoint k
    | _ => ⟨0, 1⟩⟩

end NmVerif.Index
