import NmVerif.Lemmas.LinalgMatmul
namespace NmVerif
open NmVerif.MB
open Linalg

theorem replicate_succ_append (n : Nat) (x : Nat) : List.replicate (n + 1) x = List.replicate n x ++ [x] := by
  rw [List.replicate_succ']

theorem matmulLhsTile_22 (ba bb : List Nat) (m k k' n : Nat) :
    matmulLhsTile (ba ++ [m, k]) (bb ++ [k', n]) = List.replicate (ba.length + 1) 1 ++ [n] := by
  simp only [matmulLhsTile, List.length_append, List.length_cons, List.length_nil, getNeg?_append_two_1]
  have : List.replicate (ba.length + (0 + 1 + 1)) 1 = List.replicate (ba.length + 1) 1 ++ [1] := by
    rw [← replicate_succ_append]
  rw [this]
  simp

theorem matmulRhsTranspose_2 (n : Nat) : matmulRhsTranspose (n + 2) = List.range n ++ [n + 1, n] := by
  simp [matmulRhsTranspose, swapLast2_range]

theorem matmulLhsReshape_22 (ba bb : List Nat) (m k k' n : Nat) :
    matmulLhsReshape (ba ++ [m, k]) (bb ++ [k', n]) = ba ++ [m, n, k] := by
  simp only [matmulLhsReshape, List.length_append, List.length_cons, List.length_nil, getNeg?_append_two_1]
  have e1 : ba ++ [m, k] ++ [1] = (ba ++ [m, k]) ++ [1] := rfl
  rw [if_pos (by omega)]
  simp only [setNeg_append_one]
  have e2 : ba ++ [m, k] ++ [n] = (ba ++ [m]) ++ [k, n] := by simp
  rw [e2, swapLast2_append]; simp

theorem matmulRhsReshape_22 (x bb : List Nat) (n k : Nat) (hx : 2 ≤ x.length) :
    matmulRhsReshape x (bb ++ [n, k]) = bb ++ [1, n, k] := by
  simp only [matmulRhsReshape, List.length_append, List.length_cons, List.length_nil]
  rw [if_pos (by omega)]
  simp

theorem tile_lhs_shape (ba : List Nat) (m k n : Nat) :
    shapeTile (ba ++ [m, k]) (List.replicate (ba.length + 1) 1 ++ [n]) = ba ++ [m, k * n] := by
  rw [shapeTile_eq_length _ _ (by simp)]
  have : ba ++ [m, k] = (ba ++ [m]) ++ [k] := by simp
  rw [this, List.zipWith_append (by simp)]
  have h := zipWith_mul_replicate_one (ba ++ [m])
  simp only [List.length_append, List.length_cons, List.length_nil] at h
  rw [h]; simp

theorem prod_two (x y : Nat) : prod [x, y] = x * y := by simp [prod]
theorem prod_one' (x : Nat) : prod [x] = x := by simp [prod]
theorem prod_three (x y z : Nat) : prod [x, y, z] = x * (y * z) := by simp [prod]

/-- lhs of `matmulv2`: `reshape(tile(lhs, (1,…,1,n)), (…, m, n, k))` at `[p…, i, j, kk]` is `lhs[p…, i, kk]` -/
theorem matmulV2_lhs (ba : List Nat) (m k n : Nat) :
    ∃ a, reshape (tile (ident (ba ++ [m, k])) (List.replicate (ba.length + 1) 1 ++ [n])) (ba ++ [m, n, k]) = some a ∧
      a.shape = ba ++ [m, n, k] ∧
      ∀ p i j kk, InShape p ba → i < m → j < n → kk < k → a.get (p ++ [i, j, kk]) = p ++ [i, kk] := by
  have hp : prod (tile (ident (ba ++ [m, k])) (List.replicate (ba.length + 1) 1 ++ [n])).shape = prod (ba ++ [m, n, k]) := by
    simp only [tile, ident, tile_lhs_shape, prod_append, prod_two, prod_three]
    rw [Nat.mul_comm k n]
  rw [reshape_some _ _ hp]
  refine ⟨_, rfl, rfl, ?_⟩
  intro p i j kk hp' hi hj hkk
  simp only [tile, ident, tile_lhs_shape, id]
  have hin : InShape (p ++ [i, j * k + kk]) (ba ++ [m, k * n]) := by
    rw [inShape_append hp'.length_eq]
    refine ⟨hp', ?_⟩
    simp only [InShape, and_true]
    refine ⟨hi, ?_⟩
    calc j * k + kk < j * k + k := by omega
      _ = (j + 1) * k := by rw [Nat.add_mul]; simp
      _ ≤ n * k := Nat.mul_le_mul_right k (by omega)
      _ = k * n := Nat.mul_comm n k
  have hoff : computeOffset (p ++ [i, j * k + kk]) (strides (ba ++ [m, k * n])) =
      computeOffset (p ++ [i, j, kk]) (strides (ba ++ [m, n, k])) := by
    have e1 : p ++ [i, j * k + kk] = (p ++ [i]) ++ [j * k + kk] := by simp
    have e2 : ba ++ [m, k * n] = (ba ++ [m]) ++ [k * n] := by simp
    have e3 : p ++ [i, j, kk] = (p ++ [i]) ++ [j, kk] := by simp
    have e4 : ba ++ [m, n, k] = (ba ++ [m]) ++ [n, k] := by simp
    have hl : (p ++ [i]).length = (ba ++ [m]).length := by simp [hp'.length_eq]
    rw [e1, e2, e3, e4, offset_append _ _ _ _ hl, offset_append _ _ _ _ hl]
    simp only [prod_one', prod_two, strides, prod, computeOffset, Nat.mul_one, Nat.add_zero, Nat.one_mul]
    rw [Nat.mul_comm k n, Nat.mul_comm k j]
  rw [ndindex_of_offset_eq hin hoff]
  have e5 : p ++ [i, j * k + kk] = p ++ [i, j * k + kk] := rfl
  rw [tileIdx_append (β := p) (τ := [i, j * k + kk]) (s := ba) (t := [m, k]) (by simp) (by rw [hp'.length_eq]; exact Nat.le_refl _)]
  rw [tileIdx_self hp']
  simp only [tileIdx, List.length_cons, List.length_nil, Nat.sub_self, List.drop_zero, List.zipWith_cons_cons, List.zipWith_nil_right]
  rw [Nat.mod_eq_of_lt hi, Nat.mul_comm j k, Nat.mul_add_mod, Nat.mod_eq_of_lt hkk]

/-- rhs of `matmulv2`: `reshape(transpose(rhs, swap last two), (…, 1, n, k))` at `[q…, 0, j, kk]` is `rhs[q…, kk, j]` -/
theorem matmulV2_rhs (bb : List Nat) (k n : Nat) :
    ∃ b c, transpose (ident (bb ++ [k, n])) (List.range bb.length ++ [bb.length + 1, bb.length]) = some b ∧
      b.shape = bb ++ [n, k] ∧
      reshape b (bb ++ [1, n, k]) = some c ∧ c.shape = bb ++ [1, n, k] ∧
      ∀ q j kk, InShape q bb → j < n → kk < k → c.get (q ++ [0, j, kk]) = q ++ [kk, j] := by
  rw [transpose_swap_last2 (ident (bb ++ [k, n])) bb k n rfl]
  have hp : prod (bb ++ [n, k]) = prod (bb ++ [1, n, k]) := by
    simp [prod_append, prod_two, prod_three]
  let b : Arr Idx := ⟨bb ++ [n, k], fun d => (ident (bb ++ [k, n])).get (scatter d (List.range bb.length ++ [bb.length + 1, bb.length]))⟩
  refine ⟨b, ⟨bb ++ [1, n, k], fun d => b.get (ndindex b.shape (computeOffset d (strides (bb ++ [1, n, k]))))⟩, rfl, rfl, ?_, rfl, ?_⟩
  · exact reshape_some b _ hp
  intro q j kk hq hj hkk
  simp only [b, ident, id]
  have hin : InShape (q ++ [j, kk]) (bb ++ [n, k]) := by
    rw [inShape_append hq.length_eq]; exact ⟨hq, by simp [InShape, hj, hkk]⟩
  have hoff : computeOffset (q ++ [j, kk]) (strides (bb ++ [n, k])) =
      computeOffset (q ++ [0, j, kk]) (strides (bb ++ [1, n, k])) := by
    rw [offset_append _ _ _ _ hq.length_eq, offset_append _ _ _ _ hq.length_eq]
    simp [prod_two, prod_three, strides, prod, computeOffset]
  rw [ndindex_of_offset_eq hin hoff, ← hq.length_eq, scatter_swap_last2]

theorem matmulV2_elem_22 (ba bb bs : Shape) (m k n : Nat) (hbs : broadcastShape ba bb = some bs)
    (hpa : Pos ba) (hpb : Pos bb) (hm : 0 < m) (hn : 0 < n) :
    ∃ r, matmulV2 (ba ++ [m, k]) (bb ++ [k, n]) = some r ∧ r.shape = bs ++ [m, n] ∧
      ∀ (β : Idx) (i j : Nat), InShape β bs → i < m → j < n →
      r.get (β ++ [i, j]) = (List.range k).map (fun kk => (bcIdx β ba ++ [i, kk], bcIdx β bb ++ [kk, j])) := by
  obtain ⟨a, ha, hash, haget⟩ := matmulV2_lhs ba m k n
  obtain ⟨b, c, hb, hbsh, hc, hcsh, hcget⟩ := matmulV2_rhs bb k n
  have hX : broadcastShape (ba ++ [m, n]) (bb ++ [1, n]) = some (bs ++ [m, n]) := by
    have e1 : ba ++ [m, n] = (ba ++ [m]) ++ [n] := by simp
    have e2 : bb ++ [1, n] = (bb ++ [1]) ++ [n] := by simp
    rw [e1, e2, broadcastShape_append_one, bc1_self]
    simp only
    rw [broadcastShape_append_one, bc1_one_right hm]
    simp [hbs]
  obtain ⟨r, hr, hrsh, hrget⟩ := contract_last a c (ba ++ [m, n]) (bb ++ [1, n]) (bs ++ [m, n]) k
    (by rw [hash]; simp) (by rw [hcsh]; simp) hX
  refine ⟨r, ?_, hrsh, ?_⟩
  · unfold matmulV2
    simp only [matmulLhsTile_22, matmulLhsReshape_22, List.length_append, List.length_cons, List.length_nil]
    rw [show bb.length + (0 + 1 + 1) = bb.length + 2 by omega, matmulRhsTranspose_2]
    simp only [Option.bind_eq_bind, Option.pure_def]
    rw [ha]; simp only [Option.bind_some]
    rw [hb]; simp only [Option.bind_some]
    rw [hbsh, matmulRhsReshape_22 _ _ _ _ (by rw [hash]; simp), hc]
    simp only [Option.bind_some]
    cases hmul : mulT a c with
    | none => simp [hmul] at hr
    | some mm => simp [hmul] at hr ⊢; exact hr
  · intro β i j hβ hi hj
    have hlen := broadcastShape_length hbs
    rw [hrget (β ++ [i, j]) (by simp [hβ.length_eq])]
    apply List.map_congr_left
    intro kk hkk
    have hkk' := List.mem_range.1 hkk
    rw [bcIdx_append (β := β) (τ := [i, j]) (s := ba) (t := [m, n]) (by simp) (by rw [hβ.length_eq]; omega),
        bcIdx_append (β := β) (τ := [i, j]) (s := bb) (t := [1, n]) (by simp) (by rw [hβ.length_eq]; omega)]
    have h1 : bcIdx [i, j] [m, n] = [i, j] := bcIdx_self (by simp [InShape, hi, hj])
    have h2 : bcIdx [i, j] [1, n] = [0, j] := by
      simp only [bcIdx, List.length_cons, List.length_nil, Nat.sub_self, List.drop_zero, List.zipWith_cons_cons,
        List.zipWith_nil_right, if_true]
      by_cases hn1 : n = 1
      · simp [hn1]; omega
      · simp [hn1]
    rw [h1, h2]
    have e1 := haget (bcIdx β ba) i j kk (bcIdx_inShape_left' hpa hbs hβ) hi hj hkk'
    have e2 := hcget (bcIdx β bb) j kk (bcIdx_inShape_right hpb hbs hβ) hj hkk'
    have e3 : bcIdx β ba ++ [i, j] ++ [kk] = bcIdx β ba ++ [i, j, kk] := by simp
    have e4 : bcIdx β bb ++ [0, j] ++ [kk] = bcIdx β bb ++ [0, j, kk] := by simp
    rw [e3, e4, e1, e2]

/-- reshaping to the same shape changes nothing -/
theorem reshape_same {α : Type} (a : Arr α) (t : Shape) (h : a.shape = t) :
    ∃ r, reshape a t = some r ∧ r.shape = t ∧ ∀ d, InShape d t → r.get d = a.get d := by
  subst h
  rw [reshape_some a a.shape rfl]
  refine ⟨_, rfl, rfl, ?_⟩
  intro d hd
  simp only
  rw [ndindex_of_offset_eq hd rfl]

/-- tiling by all-ones changes nothing -/
theorem tile_ones {α : Type} (a : Arr α) (n : Nat) (h : a.shape.length = n) :
    (tile a (List.replicate n 1)).shape = a.shape ∧ ∀ d, InShape d a.shape → (tile a (List.replicate n 1)).get d = a.get d := by
  subst h
  constructor
  · simp [tile, shapeTile_eq_length, zipWith_mul_replicate_one]
  · intro d hd
    simp [tile, tileIdx_self hd]

theorem matmulRhsTranspose_1 : matmulRhsTranspose 1 = [0] := by simp [matmulRhsTranspose, List.range_succ]

theorem matmulLhsTile_1x (k : Nat) (sb : Shape) : matmulLhsTile [k] sb = [1] := by simp [matmulLhsTile]
theorem matmulLhsTile_x1 (sa : Shape) (k : Nat) : matmulLhsTile sa [k] = List.replicate sa.length 1 := by simp [matmulLhsTile]
theorem matmulLhsReshape_1x (k : Nat) (sb : Shape) : matmulLhsReshape [k] sb = [k] := by simp [matmulLhsReshape]
theorem matmulLhsReshape_x1 (sa : Shape) (k : Nat) : matmulLhsReshape sa [k] = sa := by simp [matmulLhsReshape]
theorem matmulRhsReshape_1x (k : Nat) (s : Shape) : matmulRhsReshape [k] s = s := by simp [matmulRhsReshape]
theorem matmulRhsReshape_x1 (s : Shape) (k : Nat) : matmulRhsReshape s [k] = [k] := by simp [matmulRhsReshape]

/-- the lhs of `matmulv2` when no tiling happens (a 1-d operand on either side): the operand itself -/
theorem matmulV2_lhs_plain (sa : Shape) :
    ∃ a, reshape (tile (ident sa) (List.replicate sa.length 1)) sa = some a ∧ a.shape = sa ∧
      ∀ d, InShape d sa → a.get d = d := by
  have ht := tile_ones (ident sa) sa.length rfl
  obtain ⟨r, hr, hrs, hrg⟩ := reshape_same (tile (ident sa) (List.replicate sa.length 1)) sa ht.1
  refine ⟨r, hr, hrs, ?_⟩
  intro d hd
  rw [hrg d hd, ht.2 d hd]; rfl

/-- the rhs of `matmulv2` for a 1-d rhs: the operand itself -/
theorem matmulV2_rhs_1d (k : Nat) :
    ∃ b c, transpose (ident [k]) [0] = some b ∧ b.shape = [k] ∧ reshape b [k] = some c ∧ c.shape = [k] ∧
      ∀ kk, kk < k → c.get [kk] = [kk] := by
  have hb := transpose_range (ident [k])
  simp only [ident, List.length_cons, List.length_nil, List.range_succ, List.range_zero, List.nil_append] at hb
  obtain ⟨c, hc, hcs, hcg⟩ := reshape_same (α := Idx) ⟨[k], fun d => id (scatter d [0])⟩ [k] rfl
  refine ⟨_, c, hb, rfl, hc, hcs, ?_⟩
  intro kk hkk
  rw [hcg [kk] (by simpa [InShape] using hkk)]
  rfl

/-- the rhs of `matmulv2` for a 1-d lhs and rhs of rank ≥ 2: just the transpose -/
theorem matmulV2_rhs_t (bb : List Nat) (k n : Nat) :
    ∃ b c, transpose (ident (bb ++ [k, n])) (List.range bb.length ++ [bb.length + 1, bb.length]) = some b ∧
      b.shape = bb ++ [n, k] ∧ reshape b (bb ++ [n, k]) = some c ∧ c.shape = bb ++ [n, k] ∧
      ∀ q j kk, InShape q bb → j < n → kk < k → c.get (q ++ [j, kk]) = q ++ [kk, j] := by
  rw [transpose_swap_last2 (ident (bb ++ [k, n])) bb k n rfl]
  obtain ⟨c, hc, hcs, hcg⟩ := reshape_same (α := Idx)
    ⟨bb ++ [n, k], fun d => (ident (bb ++ [k, n])).get (scatter d (List.range bb.length ++ [bb.length + 1, bb.length]))⟩ (bb ++ [n, k]) rfl
  refine ⟨_, c, rfl, rfl, hc, hcs, ?_⟩
  intro q j kk hq hj hkk
  rw [hcg _ (by rw [inShape_append hq.length_eq]; exact ⟨hq, by simp [InShape, hj, hkk]⟩)]
  simp only [ident, id]
  rw [← hq.length_eq, scatter_swap_last2]

theorem mulT_sumLast {a c : Arr Idx} {r : Arr (List Term)} (h : (mulT a c).map (sumLast 1) = some r) :
    (mulT a c).bind (fun m => some (sumLast 1 m)) = some r := by
  cases hm : mulT a c with
  | none => simp [hm] at h
  | some mm => simp [hm] at h ⊢; exact h

/-- 1-d lhs, rhs of rank ≥ 2 -/
theorem matmulV2_elem_12 (bb : Shape) (k n : Nat) :
    ∃ r, matmulV2 [k] (bb ++ [k, n]) = some r ∧ r.shape = bb ++ [n] ∧
      ∀ (γ : Idx) (j : Nat), InShape γ bb → j < n →
      r.get (γ ++ [j]) = (List.range k).map (fun kk => ([kk], γ ++ [kk, j])) := by
  obtain ⟨a, ha, hash, haget⟩ := matmulV2_lhs_plain [k]
  obtain ⟨b, c, hb, hbsh, hc, hcsh, hcget⟩ := matmulV2_rhs_t bb k n
  obtain ⟨r, hr, hrsh, hrget⟩ := contract_last a c [] (bb ++ [n]) (bb ++ [n]) k
    (by rw [hash]; simp) (by rw [hcsh]; simp) (by simp)
  refine ⟨r, ?_, hrsh, ?_⟩
  · unfold matmulV2
    simp only [matmulLhsTile_1x, matmulLhsReshape_1x, List.length_append, List.length_cons, List.length_nil]
    rw [show bb.length + (0 + 1 + 1) = bb.length + 2 by omega, matmulRhsTranspose_2]
    simp only [Option.bind_eq_bind, Option.pure_def]
    have ha' : reshape (tile (ident [k]) [1]) [k] = some a := ha
    rw [ha']; simp only [Option.bind_some]
    rw [hb]; simp only [Option.bind_some]
    rw [hbsh, hash, matmulRhsReshape_1x, hc]
    simp only [Option.bind_some]
    exact mulT_sumLast hr
  · intro γ j hγ hj
    rw [hrget (γ ++ [j]) (by simp [hγ.length_eq])]
    apply List.map_congr_left
    intro kk hkk
    have hkk' := List.mem_range.1 hkk
    rw [bcIdx_self (show InShape (γ ++ [j]) (bb ++ [n]) by rw [inShape_append hγ.length_eq]; exact ⟨hγ, by simpa [InShape] using hj⟩)]
    simp only [bcIdx_nil, List.nil_append]
    rw [haget [kk] (by simpa [InShape] using hkk')]
    have e : γ ++ [j] ++ [kk] = γ ++ [j, kk] := by simp
    rw [e, hcget γ j kk hγ hj hkk']

/-- lhs of rank ≥ 2, 1-d rhs -/
theorem matmulV2_elem_21 (ba : Shape) (m k : Nat) :
    ∃ r, matmulV2 (ba ++ [m, k]) [k] = some r ∧ r.shape = ba ++ [m] ∧
      ∀ (p : Idx) (i : Nat), InShape p ba → i < m →
      r.get (p ++ [i]) = (List.range k).map (fun kk => (p ++ [i, kk], [kk])) := by
  obtain ⟨a, ha, hash, haget⟩ := matmulV2_lhs_plain (ba ++ [m, k])
  obtain ⟨b, c, hb, hbsh, hc, hcsh, hcget⟩ := matmulV2_rhs_1d k
  obtain ⟨r, hr, hrsh, hrget⟩ := contract_last a c (ba ++ [m]) [] (ba ++ [m]) k
    (by rw [hash]; simp) (by rw [hcsh]; simp) (by simp)
  refine ⟨r, ?_, hrsh, ?_⟩
  · unfold matmulV2
    simp only [matmulLhsTile_x1, matmulLhsReshape_x1, List.length_cons, List.length_nil, Nat.zero_add, matmulRhsTranspose_1]
    simp only [Option.bind_eq_bind, Option.pure_def]
    rw [ha]; simp only [Option.bind_some]
    rw [hb]; simp only [Option.bind_some]
    rw [hbsh, matmulRhsReshape_x1, hc]
    simp only [Option.bind_some]
    exact mulT_sumLast hr
  · intro p i hp hi
    rw [hrget (p ++ [i]) (by simp [hp.length_eq])]
    apply List.map_congr_left
    intro kk hkk
    have hkk' := List.mem_range.1 hkk
    rw [bcIdx_self (show InShape (p ++ [i]) (ba ++ [m]) by rw [inShape_append hp.length_eq]; exact ⟨hp, by simpa [InShape] using hi⟩)]
    simp only [bcIdx_nil, List.nil_append]
    have e : p ++ [i] ++ [kk] = p ++ [i, kk] := by simp
    rw [e, haget (p ++ [i, kk]) (by rw [inShape_append hp.length_eq]; exact ⟨hp, by simp [InShape, hi, hkk']⟩), hcget kk hkk']

/-- both operands 1-d -/
theorem matmulV2_elem_11 (k : Nat) :
    ∃ r, matmulV2 [k] [k] = some r ∧ r.shape = [] ∧ r.get [] = (List.range k).map (fun kk => ([kk], [kk])) := by
  obtain ⟨a, ha, hash, haget⟩ := matmulV2_lhs_plain [k]
  obtain ⟨b, c, hb, hbsh, hc, hcsh, hcget⟩ := matmulV2_rhs_1d k
  obtain ⟨r, hr, hrsh, hrget⟩ := contract_last a c [] [] [] k (by rw [hash]; simp) (by rw [hcsh]; simp) (by simp)
  refine ⟨r, ?_, hrsh, ?_⟩
  · unfold matmulV2
    simp only [matmulLhsTile_1x, matmulLhsReshape_1x, List.length_cons, List.length_nil, Nat.zero_add, matmulRhsTranspose_1]
    simp only [Option.bind_eq_bind, Option.pure_def]
    have ha' : reshape (tile (ident [k]) [1]) [k] = some a := ha
    rw [ha']; simp only [Option.bind_some]
    rw [hb]; simp only [Option.bind_some]
    rw [hbsh, matmulRhsReshape_x1, hc]
    simp only [Option.bind_some]
    exact mulT_sumLast hr
  · rw [hrget [] rfl]
    apply List.map_congr_left
    intro kk hkk
    have hkk' := List.mem_range.1 hkk
    simp only [bcIdx_nil, List.nil_append]
    rw [haget [kk] (by simpa [InShape] using hkk'), hcget kk hkk']

theorem eq_singleton_of_length {s : List Nat} (h1 : 1 ≤ s.length) (h2 : ¬ 2 ≤ s.length) : ∃ x, s = [x] := by
  match s, h1, h2 with
  | [x], _, _ => exact ⟨x, rfl⟩
  | [], h, _ => simp at h
  | _ :: _ :: _, _, h => simp at h

theorem specMatmulTerms_12 (bb γ : List Nat) (k k' n j : Nat) :
    specMatmulTerms [k] (bb ++ [k', n]) (γ ++ [j]) = (List.range k).map (fun kk => ([kk], bcIdx γ bb ++ [kk, j])) := by
  simp [specMatmulTerms]

theorem specMatmulTerms_21 (ba p : List Nat) (m k k' i : Nat) :
    specMatmulTerms (ba ++ [m, k]) [k'] (p ++ [i]) = (List.range k).map (fun kk => (bcIdx p ba ++ [i, kk], [kk])) := by
  simp [specMatmulTerms]

theorem specMatmulTerms_11 (k k' : Nat) :
    specMatmulTerms [k] [k'] [] = (List.range k).map (fun kk => ([kk], [kk])) := by
  simp [specMatmulTerms]

/-- `view::matmulv2` = NumPy's matmul on every accepted pair of operand shapes of rank ≥ 1 with positive extents:
    shape and, per element, the list of product terms in order -/
theorem matmulV2_eq_spec (sa sb dst : Shape) (ha : 1 ≤ sa.length) (hb : 1 ≤ sb.length) (hpa : Pos sa) (hpb : Pos sb)
    (hacc : specMatmulShape sa sb = some dst) :
    ∃ r, matmulV2 sa sb = some r ∧ r.shape = dst ∧ ∀ d, InShape d dst → r.get d = specMatmulTerms sa sb d := by
  by_cases ha2 : 2 ≤ sa.length <;> by_cases hb2 : 2 ≤ sb.length
  · obtain ⟨ba, m, k, rfl⟩ := exists_append_two sa ha2
    obtain ⟨bb, k', n, rfl⟩ := exists_append_two sb hb2
    simp [specMatmulShape] at hacc
    obtain ⟨rfl, bs, hbs, rfl⟩ := hacc
    have hpa' := Pos_append.1 hpa
    have hpb' := Pos_append.1 hpb
    obtain ⟨r, hr, hsh, hget⟩ := matmulV2_elem_22 ba bb bs m k n hbs hpa'.1 hpb'.1 (hpa'.2 m (by simp)) (hpb'.2 n (by simp))
    refine ⟨r, hr, hsh, ?_⟩
    intro d hd
    obtain ⟨β, i, j, rfl, hβ, hi, hj⟩ := inShape_append_two hd
    rw [hget β i j hβ hi hj, specMatmulTerms_22]
  · obtain ⟨ba, m, k, rfl⟩ := exists_append_two sa ha2
    obtain ⟨k', rfl⟩ := eq_singleton_of_length hb hb2
    simp [specMatmulShape] at hacc
    obtain ⟨rfl, rfl⟩ := hacc
    obtain ⟨r, hr, hsh, hget⟩ := matmulV2_elem_21 ba m k
    refine ⟨r, hr, hsh, ?_⟩
    intro d hd
    obtain ⟨p, i, rfl, hp, hi⟩ := inShape_append_one hd
    rw [hget p i hp hi, specMatmulTerms_21, bcIdx_self hp]
  · obtain ⟨bb, k', n, rfl⟩ := exists_append_two sb hb2
    obtain ⟨k, rfl⟩ := eq_singleton_of_length ha ha2
    simp [specMatmulShape] at hacc
    obtain ⟨rfl, rfl⟩ := hacc
    obtain ⟨r, hr, hsh, hget⟩ := matmulV2_elem_12 bb k n
    refine ⟨r, hr, hsh, ?_⟩
    intro d hd
    obtain ⟨γ, j, rfl, hγ, hj⟩ := inShape_append_one hd
    rw [hget γ j hγ hj, specMatmulTerms_12, bcIdx_self hγ]
  · obtain ⟨k, rfl⟩ := eq_singleton_of_length ha ha2
    obtain ⟨k', rfl⟩ := eq_singleton_of_length hb hb2
    simp [specMatmulShape] at hacc
    obtain ⟨rfl, rfl⟩ := hacc
    obtain ⟨r, hr, hsh, hget⟩ := matmulV2_elem_11 k
    refine ⟨r, hr, hsh, ?_⟩
    intro d hd
    have : d = [] := by cases d <;> simp_all [InShape]
    subst this
    rw [hget, specMatmulTerms_11]

end NmVerif
