// C02 harness TU: the view kinds whose index functions have bounded results (expand_dims, squeeze, sliding_window, moveaxis,
// roll, resize, expand, diagonal, matmul, pool2d) over BOUNDED storage AT FULL CAPACITY:
//   array  = na::ndarray_t<nmtools_static_vector<int,64>, nmtools_static_vector<size_t,C>>  with C = rank of the request's shape
//   axis / window / shift / spacing lists = nmtools_static_vector<_,A> with A = length of the list
// so that every bounded result container of the view (its shape, the index it hands to the operand) is asked to hold as
// many entries as the operands' bounds allow.  Every element is read through apply_at.
//     capv kind=<k> shape=<dims> …   ->   ok shape=<dims> data=<every element, C order>   (data[k]=k in the leaf, +1000 for the
//     second operand of matmul folded as 31*acc + a*b mod 2^32 is NOT used: matmul answers the shape and every element)
// -DC02V_MASK selects the kinds compiled into this TU (bit order: see K_* below).
#include "nmtools/array/ndarray.hpp"
#include "nmtools/array/index/ndindex.hpp"
#include "nmtools/utility/at.hpp"
#include "nmtools/array/view/expand_dims.hpp"
#include "nmtools/array/view/squeeze.hpp"
#include "nmtools/array/view/sliding_window.hpp"
#include "nmtools/array/view/moveaxis.hpp"
#include "nmtools/array/view/roll.hpp"
#include "nmtools/array/view/resize.hpp"
#include "nmtools/array/view/expand.hpp"
#include "nmtools/array/view/diagonal.hpp"
#include "nmtools/array/view/matmul.hpp"
#include "nmtools/array/view/pooling.hpp"
#include "proto.hpp"
#include <array>

namespace nm = nmtools; namespace ix = nmtools::index; namespace na = nmtools::array; namespace view = nmtools::view;
namespace meta = nmtools::meta;
using namespace proto;

#ifndef C02V_MASK
#define C02V_MASK 0xFFFFu
#endif

namespace c02v {

enum : unsigned { K_EXPAND_DIMS = 1, K_SQUEEZE = 2, K_SLIDING = 4, K_MOVEAXIS = 8, K_ROLL = 16, K_RESIZE = 32, K_EXPAND = 64,
                  K_DIAGONAL = 128, K_MATMUL = 256, K_POOL = 512 };

template <size_t C> using arr_t = na::ndarray_t<nmtools_static_vector<int, 64>, nmtools_static_vector<size_t, C>>;

template <typename T, size_t C> inline nmtools_static_vector<T, C> sv(const ivec& v) {
    nmtools_static_vector<T, C> r; r.resize(v.size());
    for (size_t i = 0; i < v.size(); i++) nm::at(r, i) = (T)v[i];
    return r;
}

template <typename S> inline uvec to_uvec(const S& shp) {
    uvec s;
    if constexpr (nm::is_none_v<S>) return s;
    else { for (size_t i = 0; i < (size_t)nm::len(shp); i++) s.push_back((size_t)nm::at(shp, i)); return s; }
}

template <typename A> inline void fill_iota(A& a, int base) {
    auto shp = nm::shape(a);
    auto nd = ix::ndindex(shp);
    size_t n = nd.size();
    for (size_t k = 0; k < n; k++) nm::apply_at(a, nd[k]) = (int)k + base;
}

// array of capacity C == rank (full) holding data[k] = k + base
template <size_t C> inline bool make(arr_t<C>& a, const ivec& s, int base) {
    size_t n = 1; for (auto e : s) n *= (size_t)e;
    if (s.size() != C || n > 64) return false;
    if (!a.resize(sv<size_t, C>(s))) return false;
    fill_iota(a, base);
    return true;
}

template <size_t MAXC, typename K> inline std::string with_arr(const ivec& s, int base, K&& k) {
#define C02V_ARR(C) if constexpr (MAXC >= C) if (s.size() == C) { arr_t<C> a{}; if (!make(a, s, base)) return std::string("bad-args"); return k(a); }
    C02V_ARR(1) C02V_ARR(2) C02V_ARR(3) C02V_ARR(4)
#undef C02V_ARR
    return "bad-args";
}
template <typename T, size_t MAXC, typename K> inline std::string with_sv(const ivec& v, K&& k) {
    if constexpr (MAXC >= 1) if (v.size() == 1) return k(sv<T, 1>(v));
    if constexpr (MAXC >= 2) if (v.size() == 2) return k(sv<T, 2>(v));
    if constexpr (MAXC >= 3) if (v.size() == 3) return k(sv<T, 3>(v));
    if constexpr (MAXC >= 4) if (v.size() == 4) return k(sv<T, 4>(v));
    return "bad-args";
}

template <typename V> inline std::string dump(const V& v) {
    if constexpr (meta::is_maybe_v<V>) { if (!nm::has_value(v)) return "nothing"; return dump(*v); }
    else if constexpr (meta::is_num_v<V>) return "ok shape=[] data=" + std::to_string((long long)v);
    else {
        auto shp = nm::shape(v);
        uvec s = to_uvec(shp);
        if ((size_t)nm::dim(v) != s.size()) return "dim-mismatch";
        size_t n = 1; for (auto e : s) n *= e;
        if ((size_t)nm::size(v) != n) return "size-mismatch";
        auto nd = ix::ndindex(shp);
        if ((size_t)nd.size() != n) return "ndindex-mismatch";
        ivec data;
        for (size_t i = 0; i < n; i++) data.push_back((long long)nm::apply_at(v, nd[i]));
        return "ok shape=" + fmt(s) + " data=" + fmt(data);
    }
}

} // namespace c02v

std::string handle(const std::string& op, const Args& a) {
    using namespace c02v;
    if (op != "capv") return "unknown-op";
    const std::string kd = get(a, "kind");
    ivec shape = ints(a, "shape");
    constexpr unsigned M = C02V_MASK;
    constexpr size_t S = 4, L = 3;

    if constexpr (M & K_EXPAND_DIMS) if (kd == "expand_dims") {
        ivec axes = ints(a, "axes");
        return with_arr<S>(shape, 0, [&](const auto& x) { return with_sv<int, L>(axes, [&](const auto& ax) {
            return dump(view::expand_dims(x, ax)); }); });
    }
    if constexpr (M & K_SQUEEZE) if (kd == "squeeze")
        return with_arr<S>(shape, 0, [&](const auto& x) { return dump(view::squeeze(x)); });
    if constexpr (M & K_SLIDING) if (kd == "sliding_window") {
        if (has(a, "scalar")) {
            size_t w = (size_t)integer(a, "window");
            if (is_none(a, "axes")) return with_arr<S>(shape, 0, [&](const auto& x) { return dump(view::sliding_window(x, w)); });
            int axis = (int)integer(a, "axes");
            return with_arr<S>(shape, 0, [&](const auto& x) { return dump(view::sliding_window(x, w, axis)); });
        }
        ivec w = ints(a, "window");
        if (is_none(a, "axes"))
            return with_arr<L>(shape, 0, [&](const auto& x) { return with_sv<size_t, L>(w, [&](const auto& ws) {
                return dump(view::sliding_window(x, ws)); }); });
        ivec axes = ints(a, "axes");
        if (axes.size() != w.size()) throw bad_args("axes");
        return with_arr<S>(shape, 0, [&](const auto& x) { return with_sv<size_t, L>(w, [&](const auto& ws) {
            using ax_t = nmtools_static_vector<int, meta::bounded_size_v<meta::remove_cvref_t<decltype(ws)>>>;
            ax_t ax; ax.resize(axes.size()); for (size_t i = 0; i < axes.size(); i++) nm::at(ax, i) = (int)axes[i];
            return dump(view::sliding_window(x, ws, ax)); }); });
    }
    if constexpr (M & K_MOVEAXIS) if (kd == "moveaxis") {
        ivec src = ints(a, "source"), dst = ints(a, "destination");
        if (src.size() != dst.size()) throw bad_args("destination");
        return with_arr<S>(shape, 0, [&](const auto& x) { return with_sv<int, L>(src, [&](const auto& sa) {
            auto da = sa; for (size_t i = 0; i < dst.size(); i++) nm::at(da, i) = (int)dst[i];
            return dump(view::moveaxis(x, sa, da)); }); });
    }
    if constexpr (M & K_ROLL) if (kd == "roll") {
        ivec sh = ints(a, "shift"), axes = ints(a, "axes");
        if (sh.size() != axes.size()) throw bad_args("shift");
        return with_arr<S>(shape, 0, [&](const auto& x) { return with_sv<int, L>(axes, [&](const auto& ax) {
            auto shv = ax; for (size_t i = 0; i < sh.size(); i++) nm::at(shv, i) = (int)sh[i];
            return dump(view::roll(x, shv, ax)); }); });
    }
    if constexpr (M & K_RESIZE) if (kd == "resize") {
        ivec dst = ints(a, "dst");
        if (dst.size() != shape.size()) throw bad_args("dst");
        return with_arr<S>(shape, 0, [&](const auto& x) {
            using sh_t = meta::remove_cvref_t<decltype(nm::shape(x))>;
            sh_t d; d.resize(dst.size()); for (size_t i = 0; i < dst.size(); i++) nm::at(d, i) = (size_t)dst[i];
            return dump(view::resize(x, d)); });
    }
    if constexpr (M & K_EXPAND) if (kd == "expand") {
        ivec axes = ints(a, "axes"), sp = ints(a, "spacing");
        if (sp.size() != axes.size()) throw bad_args("spacing");
        return with_arr<S>(shape, 0, [&](const auto& x) { return with_sv<int, L>(axes, [&](const auto& ax) {
            auto spv = ax; for (size_t i = 0; i < sp.size(); i++) nm::at(spv, i) = (int)sp[i];
            return dump(view::expand(x, ax, spv, -1)); }); });
    }
    if constexpr (M & K_DIAGONAL) if (kd == "diagonal") {
        int off = (int)integer(a, "offset"), a1 = (int)integer(a, "axis1"), a2 = (int)integer(a, "axis2");
        if (shape.size() < 2) throw bad_args("shape");
        return with_arr<S>(shape, 0, [&](const auto& x) -> std::string {
            if constexpr (meta::bounded_size_v<meta::remove_cvref_t<decltype(nm::shape(x))>> >= 2) return dump(view::diagonal(x, off, a1, a2));
            else return "bad-args"; });
    }
    if constexpr (M & K_MATMUL) if (kd == "matmul") {
        ivec b = ints(a, "shape2");
        return with_arr<S>(shape, 0, [&](const auto& x) { return with_arr<S>(b, 1000, [&](const auto& y) {
            return dump(view::matmul(x, y)); }); });
    }
    if constexpr (M & K_POOL) if (kd == "max_pool2d" || kd == "avg_pool2d") {
        ivec k = ints(a, "kernel"), st = ints(a, "stride"); bool ceil = integer(a, "ceil") != 0;
        if (k.size() != 2 || st.size() != 2 || shape.size() < 2) throw bad_args("kernel");
        std::array<size_t, 2> ka{(size_t)k[0], (size_t)k[1]}, sa{(size_t)st[0], (size_t)st[1]};
        return with_arr<S>(shape, 0, [&](const auto& x) -> std::string {
            if constexpr (meta::bounded_size_v<meta::remove_cvref_t<decltype(nm::shape(x))>> >= 2) {
                if (kd == "max_pool2d") return dump(view::max_pool2d(x, ka, sa, ceil));
                return dump(view::avg_pool2d(x, ka, sa, ceil));
            } else return "bad-args"; });
    }
    return "unsupported";
}
