import NmVerif.Containers.LedgerInv
import NmVerif.Containers.SmallVectorLedger
/-
  Set-level ledger discipline of the repaired `small_vector` mirror: every operation's effect on the allocator ledger
  is an `EffG` on the block owned by the heap part (none in static mode), hence — `LInvG` — on every history nothing
  is freed twice, only blocks handed out are freed, live objects never share a block, and every block is freed or
  owned by a live object.
-/
namespace NmVerif.Containers
variable {α : Type}

/-- two allocations in a row, the first block freed afterwards (a temporary owning `a` is destroyed after the
    object owning `b` was built) -/
theorem Eff.par {a b : Nat} {L L1 L2 : Ledger} (h1 : Eff none (some a) L L1) (h2 : Eff none (some b) L1 L2) :
    Eff none (some b) L (L2.free a) := by
  obtain ⟨fs1, hf1, hn1, hm1, he1⟩ := h1.freed
  obtain ⟨fs2, hf2, hn2, hm2, he2⟩ := h2.freed
  have hmono1 := h1.mono; have hmono2 := h2.mono
  have ha : L.allocs ≤ a ∧ a < L1.allocs := by
    rcases h1.new_src with e | ⟨q, e, hq, hq'⟩
    · cases e
    · cases e; exact ⟨hq, hq'⟩
  have hb : L1.allocs ≤ b ∧ b < L2.allocs := by
    rcases h2.new_src with e | ⟨q, e, hq, hq'⟩
    · cases e
    · cases e; exact ⟨hq, hq'⟩
  have r1 : ∀ x ∈ fs1, L.allocs ≤ x ∧ x < L1.allocs ∧ x ≠ a := by
    intro x hx
    have := hm1 x hx
    rcases this.1 with e | e
    · cases e
    · exact ⟨e.1, e.2, fun e' => this.2 (by rw [e'])⟩
  have r2 : ∀ x ∈ fs2, L1.allocs ≤ x ∧ x < L2.allocs ∧ x ≠ b := by
    intro x hx
    have := hm2 x hx
    rcases this.1 with e | e
    · cases e
    · exact ⟨e.1, e.2, fun e' => this.2 (by rw [e'])⟩
  refine ⟨by simp only [Ledger.free]; omega, by simp only [Ledger.free]; rw [h2.lost, h1.lost],
    by simp only [Ledger.free]; rw [h2.events, h1.events], ⟨a :: (fs2 ++ fs1), ?_, ?_, ?_, ?_⟩, Or.inr ⟨b, rfl, by omega, by simp only [Ledger.free]; omega⟩⟩
  · simp only [Ledger.free]; rw [hf2, hf1]; simp
  · rw [List.nodup_cons, List.nodup_append]
    refine ⟨?_, hn2, hn1, ?_⟩
    · intro hin
      rcases List.mem_append.mp hin with h | h
      · have := r2 a h; omega
      · exact (r1 a h).2.2 rfl
    · intro x hx y hy hxy
      subst hxy
      have := r2 x hx; have := r1 x hy; omega
  · intro x hx
    simp only [Ledger.free]
    rcases List.mem_cons.mp hx with e | hx
    · subst e; exact ⟨Or.inr ⟨ha.1, by omega⟩, by intro e; cases e; omega⟩
    · rcases List.mem_append.mp hx with h | h
      · have := r2 x h; exact ⟨Or.inr ⟨by omega, this.2.1⟩, by intro e; cases e; exact this.2.2 rfl⟩
      · have := r1 x h; exact ⟨Or.inr ⟨this.1, by omega⟩, by intro e; cases e; omega⟩
  · intro x hx
    simp only [Ledger.free] at hx
    rcases hx with e | e
    · cases e
    · by_cases hlt : x < L1.allocs
      · rcases he1 x (Or.inr ⟨e.1, hlt⟩) with e' | e'
        · right; cases e'; exact List.mem_cons_self
        · right; exact List.mem_cons_of_mem _ (List.mem_append.mpr (Or.inr e'))
      · rcases he2 x (Or.inr ⟨by omega, e.2⟩) with e' | e'
        · left; exact e'
        · right; exact List.mem_cons_of_mem _ (List.mem_append.mpr (Or.inl e'))

namespace Small

/-- the block owned by the object: that of its heap vector, none in static mode -/
def blk (x : Small α) : Option Nat := if x.tagS then none else x.dy.blk

theorem blk_st {x : Small α} (ht : x.tagS = true) : blk x = none := by simp [blk, ht]
theorem blk_dy {x : Small α} (ht : x.tagS = false) : blk x = x.dy.blk := by simp [blk, ht]

/-- `small_vector(n)`, `n ≥ DIM` -/
theorem mkSized_eff (c : Nat) (zero : α) (n : Nat) (L : Ledger) (hn : ¬ n < c) :
    Eff none (mkSized c zero n L).1.dy.blk L (mkSized c zero n L).2 := by
  have hnone : ∀ (M : Ledger) p, (none : Option Nat) = some p → p < M.allocs := by intro M p hp; cases hp
  simp only [mkSized, hn, if_false]
  have g0 := Vec.mkDefault_good (α := α) L
  have g1 := Vec.mkCopy_good zero (Vec.mkDefault (α := α) L).1 (Vec.mkDefault (α := α) L).2 g0.inv
  have ha : (Vec.mkDefault (α := α) L).1.blk = some L.allocs := rfl
  obtain ⟨b, hb⟩ := Option.isSome_iff_exists.mp g1.inv.blk
  have e0 := g0.eff; rw [ha] at e0
  have e1 := g1.eff; rw [hb] at e1
  have hd : Vec.destroy (Vec.mkDefault (α := α) L).1 (Vec.mkCopy zero (Vec.mkDefault (α := α) L).1 (Vec.mkDefault (α := α) L).2).2
      = (Vec.mkCopy zero (Vec.mkDefault (α := α) L).1 (Vec.mkDefault (α := α) L).2).2.free L.allocs := by
    simp [Vec.destroy, ha]
  rw [hd]
  have ep := Eff.par e0 e1
  have hb3 : ∀ p, (Vec.mkCopy zero (Vec.mkDefault (α := α) L).1 (Vec.mkDefault (α := α) L).2).1.blk = some p →
      p < ((Vec.mkCopy zero (Vec.mkDefault (α := α) L).1 (Vec.mkDefault (α := α) L).2).2.free L.allocs).allocs := by
    intro p hp
    rw [hb] at hp; cases hp
    rcases ep.new_src with e | ⟨q, e, _, hq'⟩
    · cases e
    · cases e; exact hq'
  have g2 := Vec.resize_good zero _ n _ g1.inv hb3
  have e2 := g2.eff; rw [hb] at e2
  exact Eff.trans (hnone L) ep e2

theorem storeCell_led (c : Nat) (x : Small α) (i : Nat) (v : Cell α) (L : Ledger) (h : Inv c x) (hi : i < x.size) :
    (storeCell x i v L).2 = L ∧ blk (storeCell x i v L).1 = blk x := by
  cases ht : x.tagS with
  | true =>
    have hs := h.1 ht
    have hil : i < x.st.cells.length := by have := hs.1; have := hs.2; simp [size, ht] at hi; omega
    simp only [storeCell, ht, if_true]
    exact ⟨SVec.store_led _ _ _ _ hil, by simp [blk, ht]⟩
  | false =>
    have hd := h.2 ht
    have hil : i < x.dy.cells.length := by have := hd.len; have := hd.le; simp [size, ht] at hi; omega
    simp only [storeCell, ht, Bool.false_eq_true, if_false]
    exact ⟨by simp [Vec.store, hil], by simp [blk, ht, Vec.store, hil]⟩

/-- `resize(n)` -/
theorem resize_eff (c : Nat) (zero : α) (x : Small α) (n : Nat) (L : Ledger) (h : Inv c x)
    (hp : ∀ p, blk x = some p → p < L.allocs) : Eff (blk x) (blk (resize c zero x n L).1) L (resize c zero x n L).2 := by
  cases ht : x.tagS with
  | true =>
    have hs := h.1 ht
    rw [blk_st ht]
    by_cases hn : n ≤ c
    · simp only [resize, ht, if_true, hn]
      rw [SVec.resize_led c zero _ n L hs, blk_st rfl]
      exact Eff.refl _ _
    · have hnc : ¬ n < c := by omega
      obtain ⟨_, hnbinv, hnbview⟩ := mkSized_dyn c zero n L hnc
      have hnbsz : (mkSized c zero n L).1.dy.size = n := by
        have := Vec.view_length _ hnbinv; rw [hnbview] at this; simpa using this.symm
      have enb := mkSized_eff c zero n L hnc
      obtain ⟨a, ha⟩ := Option.isSome_iff_exists.mp hnbinv.blk
      rw [ha] at enb
      have hpatch : ({ (mkSized c zero n L).1.dy with
          cells := x.st.cells.take x.st.size ++ (mkSized c zero n L).1.dy.cells.drop x.st.size } : Vec α).Inv := by
        have hl := hnbinv.len; have hle := hnbinv.le
        refine ⟨hnbinv.blk, ?_, hnbinv.le⟩
        have := hs.1; have := hs.2
        simp [List.length_take]; omega
      have hflag : (mkSized c zero n L).2.flagIf
          (decide (x.st.cells.length < x.st.size ∨ (mkSized c zero n L).1.dy.cells.length < x.st.size)) Event.oob
          = (mkSized c zero n L).2 := by
        have hl := hnbinv.len; have hle := hnbinv.le
        have := hs.1; have := hs.2
        have : decide (x.st.cells.length < x.st.size ∨ (mkSized c zero n L).1.dy.cells.length < x.st.size) = false := by
          simp; omega
        rw [this]; rfl
      simp only [resize, ht, if_true, hn, if_false, hflag]
      have g1 := Vec.mkCopy_good zero _ (mkSized c zero n L).2 hpatch
      obtain ⟨b, hb⟩ := Option.isSome_iff_exists.mp g1.inv.blk
      have e1 := g1.eff; rw [hb] at e1
      have hd : ∀ M, Vec.destroy ({ (mkSized c zero n L).1.dy with
          cells := x.st.cells.take x.st.size ++ (mkSized c zero n L).1.dy.cells.drop x.st.size } : Vec α) M = M.free a := by
        intro M; simp [Vec.destroy, ha]
      rw [hd, blk_dy rfl]
      simp only [] at hb ⊢
      rw [hb]
      exact Eff.par enb e1
  | false =>
    have hd := h.2 ht
    rw [blk_dy ht] at hp ⊢
    simp only [resize, ht, Bool.false_eq_true, if_false]
    rw [blk_dy rfl]
    exact (Vec.resize_good zero x.dy n L hd hp).eff

theorem eff_storeCell {c : Nat} {ob : Option Nat} {L : Ledger} {r : Small α × Ledger} (i : Nat) (v : Cell α)
    (h : Inv c r.1) (hi : i < r.1.size) (e : Eff ob (blk r.1) L r.2) :
    Eff ob (blk (storeCell r.1 i v r.2).1) L (storeCell r.1 i v r.2).2 := by
  obtain ⟨h1, h2⟩ := storeCell_led c r.1 i v r.2 h hi
  rw [h1, h2]; exact e

theorem push_eff (c : Nat) (zero : α) (x : Small α) (a : α) (L : Ledger) (h : Inv c x)
    (hp : ∀ p, blk x = some p → p < L.allocs) : Eff (blk x) (blk (push c zero x a L).1) L (push c zero x a L).2 := by
  by_cases hc : x.size = c
  · simp only [push, hc, if_true]
    have g1 := resize_good c zero x (c + 1) L h
    have hsz := resize_size c zero x (c + 1) L h (by omega) (by
      cases ht : x.tagS with
      | true => left; omega
      | false => right; simp)
    rw [write_eq_storeCell]
    exact eff_storeCell c (some a) g1.inv (by omega) (resize_eff c zero x (c + 1) L h hp)
  · cases ht : x.tagS with
    | true =>
      simp only [push, hc, if_false, ht, if_true]
      rw [SVec.push_led c zero _ a L (h.1 ht), blk_st ht, blk_st rfl]
      exact Eff.refl _ _
    | false =>
      rw [blk_dy ht] at hp ⊢
      simp only [push, hc, if_false, ht, Bool.false_eq_true, Vec.push]
      rw [blk_dy rfl]
      exact (Vec.pushCell_good zero x.dy _ L (h.2 ht) hp).eff

theorem pushAt_eff (c : Nat) (zero : α) (x : Small α) (i : Nat) (L : Ledger) (h : Inv c x) (hi : i < x.size)
    (hp : ∀ p, blk x = some p → p < L.allocs) : Eff (blk x) (blk (pushAt c zero x i L).1) L (pushAt c zero x i L).2 := by
  by_cases hc : x.size = c
  · have hcell : ∃ v, (if x.tagS then x.st.cells else x.dy.cells)[i]? = some v := by
      cases ht : x.tagS with
      | true =>
        have hs := h.1 ht
        have : i < x.st.cells.length := by have := hs.1; have := hs.2; simp [size, ht] at hi; omega
        exact ⟨_, by simp only [if_true]; exact List.getElem?_eq_getElem this⟩
      | false =>
        have hd := h.2 ht
        have : i < x.dy.cells.length := by have := hd.len; have := hd.le; simp [size, ht] at hi; omega
        exact ⟨_, by simp only [Bool.false_eq_true, if_false]; exact List.getElem?_eq_getElem this⟩
    obtain ⟨v, hv⟩ := hcell
    simp only [pushAt, hc, if_true, hv]
    have g1 := resize_good c zero x (c + 1) L h
    have hsz := resize_size c zero x (c + 1) L h (by omega) (by
      cases ht : x.tagS with
      | true => left; omega
      | false => right; simp)
    exact eff_storeCell c v g1.inv (by omega) (resize_eff c zero x (c + 1) L h hp)
  · cases ht : x.tagS with
    | true =>
      have hi' : i < x.st.size := by simpa [size, ht] using hi
      simp only [pushAt, hc, if_false, ht, if_true]
      rw [SVec.pushAt_led c zero _ i L (h.1 ht) hi', blk_st ht, blk_st rfl]
      exact Eff.refl _ _
    | false =>
      have hi' : i < x.dy.size := by simpa [size, ht] using hi
      rw [blk_dy ht] at hp ⊢
      simp only [pushAt, hc, if_false, ht, Bool.false_eq_true]
      rw [blk_dy rfl]
      exact (Vec.pushAt_good zero x.dy i L (h.2 ht) hi' hp).eff

theorem mkCopy_eff (c : Nat) (zero : α) (o : Small α) (L : Ledger) (h : Inv c o) :
    Eff none (blk (mkCopy c zero o L).1) L (mkCopy c zero o L).2 := by
  cases ht : o.tagS with
  | true => simp only [mkCopy, ht, if_true]; rw [blk_st rfl]; exact Eff.refl _ _
  | false =>
    simp only [mkCopy, ht, Bool.false_eq_true, if_false]
    rw [blk_dy rfl]
    exact (Vec.mkCopy_good zero o.dy L (h.2 ht)).eff

theorem assign_eff (c : Nat) (zero : α) (x o : Small α) (L : Ledger) (h : Inv c x) (ho : Inv c o)
    (hp : ∀ p, blk x = some p → p < L.allocs) : EffG (blk x) (blk (assign c zero x o L).1) L (assign c zero x o L).2 := by
  cases ht : x.tagS <;> cases ht' : o.tagS
  · rw [blk_dy ht] at hp ⊢
    simp only [assign, ht, ht', bne_self_eq_false, Bool.false_eq_true, if_false]
    rw [blk_dy rfl]
    exact (Vec.assign_good zero x.dy o.dy L (h.2 ht) (ho.2 ht') hp).eff.toG
  · obtain ⟨p, hb⟩ := Option.isSome_iff_exists.mp (h.2 ht).blk
    rw [blk_dy ht, hb]
    simp only [assign, ht, ht', Bool.bne_true, Bool.not_false, if_true]
    rw [blk_st rfl]
    simp only [Vec.destroy, hb]
    exact EffG.free L p
  · rw [blk_st ht]
    simp only [assign, ht, ht', Bool.bne_false, if_true, Bool.false_eq_true, if_false]
    rw [blk_dy rfl]
    exact (Vec.mkCopy_good zero o.dy L (ho.2 ht')).eff.toG
  · rw [blk_st ht]
    simp only [assign, ht, ht', bne_self_eq_false, Bool.false_eq_true, if_false, if_true]
    rw [SVec.assign_led c zero _ _ L (h.1 ht) (ho.1 ht'), blk_st rfl]
    exact (Eff.refl _ _).toG

theorem destroy_eff (c : Nat) (x : Small α) (L : Ledger) (h : Inv c x) : EffG (blk x) none L (destroy x L) := by
  cases ht : x.tagS with
  | true => simp only [destroy, ht, if_true]; rw [blk_st ht]; exact (Eff.refl _ _).toG
  | false =>
    obtain ⟨p, hb⟩ := Option.isSome_iff_exists.mp (h.2 ht).blk
    rw [blk_dy ht, hb]
    simp only [destroy, ht, Bool.false_eq_true, if_false, Vec.destroy, hb]
    exact EffG.free L p

theorem mkSized_eff' (c : Nat) (zero : α) (n : Nat) (L : Ledger) :
    Eff none (blk (mkSized c zero n L).1) L (mkSized c zero n L).2 := by
  by_cases hn : n < c
  · have hf := svec_inv_fresh c zero (α := α)
    have h1 := SVec.assign_inv c zero _ _ L hf hf
    have hl : (mkSized c zero n L).2 = L := by
      simp only [mkSized, hn, if_true]
      rw [SVec.resize_led c zero _ n _ h1, SVec.assign_led c zero _ _ L hf hf]
    have ht : (mkSized c zero n L).1.tagS = true := by simp [mkSized, hn]
    rw [hl, blk_st ht]; exact Eff.refl _ _
  · obtain ⟨ht, _, _⟩ := mkSized_dyn c zero n L hn
    rw [blk_dy ht]; exact mkSized_eff c zero n L hn

theorem mkVariadic_eff (c : Nat) (zero : α) (vs : List α) (L : Ledger) :
    Eff none (blk (mkVariadic c zero vs L).1) L (mkVariadic c zero vs L).2 := by
  have hi0 : Inv c (mkDefault c zero L).1 := inv_st rfl (svec_inv_fresh c zero)
  have e1 := resize_eff c zero (mkDefault c zero L).1 vs.length L hi0 (by intro p hp; simp [blk, mkDefault] at hp)
  have g1 := resize_good c zero (mkDefault c zero L).1 vs.length L hi0
  have hsz : (resize c zero (mkDefault c zero L).1 vs.length L).1.size = vs.length := by
    have hr := ((small_sim c zero).resize 0 vs.length (mkDefault c zero L).1 [] L L trivial
      (by simpa [RSmall, mkDefault] using rsvec_fresh c zero)).size_eq
    have : (listResize zero ([] : List α) vs.length).length = vs.length := by
      simp only [listResize]; split
      · have : vs.length = 0 := by simpa using ‹vs.length ≤ ([] : List α).length›
        simp [this]
      · simp
    simpa [smallImpl, stdSpec, this] using hr
  have hb0 : blk (mkDefault c zero L).1 = none := by simp [blk, mkDefault]
  rw [hb0] at e1
  -- the element writes stay inside the buffer: ledger and block unchanged
  have key : ∀ (as : List α) (x : Small α) (i : Nat) (M : Ledger), Inv c x → i + as.length ≤ x.size →
      (storeAll x i as M).2 = M ∧ blk (storeAll x i as M).1 = blk x := by
    intro as
    induction as with
    | nil => intro x i M _ _; exact ⟨rfl, rfl⟩
    | cons a as ih =>
      intro x i M hx hb
      simp only [List.length_cons] at hb
      simp only [storeAll, write_eq_storeCell]
      obtain ⟨h1, h2⟩ := storeCell_led c x i (some a) M hx (by omega)
      have g := storeCell_good c x i (some a) M hx (by omega)
      obtain ⟨h3, h4⟩ := ih (storeCell x i (some a) M).1 (i + 1) (storeCell x i (some a) M).2 g.inv
        (by rw [storeCell_size]; omega)
      exact ⟨h3.trans h1, h4.trans h2⟩
  obtain ⟨k1, k2⟩ := key vs (resize c zero (mkDefault c zero L).1 vs.length L).1 0
    (resize c zero (mkDefault c zero L).1 vs.length L).2 g1.inv (by omega)
  show Eff none (blk (storeAll (resize c zero (mkDefault c zero L).1 vs.length L).1 0 vs
    (resize c zero (mkDefault c zero L).1 vs.length L).2).1) L _
  rw [k2]
  show Eff none _ L (storeAll (resize c zero (mkDefault c zero L).1 vs.length L).1 0 vs
    (resize c zero (mkDefault c zero L).1 vs.length L).2).2
  rw [k1]
  exact e1

end Small

/-- the set-level invariant of the `small_vector` machine is kept by every operation -/
theorem small_step_linvg (c : Nat) (zero : α) {w : World (Small α)} (hw : LInvG Small.blk (Small.Inv c) w) (op : Op α) :
    LInvG Small.blk (Small.Inv c) (step (smallImpl c zero) w op) := by
  have hown : ∀ s x, w.objs s = some x → ∀ p, Small.blk x = some p → p < w.led.allocs :=
    fun s x hx p hp => (hw.owned s x p hx hp).1
  cases op with
  | ctor s =>
    simp only [step]
    cases hx : w.objs s with
    | some x => exact hw
    | none =>
      refine hw.put s _ _ (by intro y hy; cases hy; exact Small.inv_st rfl (svec_inv_fresh c zero)) ?_
      rw [hx]; exact (Eff.refl _ _).toG
  | ctorN s n =>
    simp only [step]
    cases hx : w.objs s with
    | some x => exact hw
    | none =>
      refine hw.put s _ _ (by intro y hy; cases hy; exact (Small.mkSized_good c zero n w.led).inv) ?_
      rw [hx]; exact (Small.mkSized_eff' c zero n w.led).toG
  | ctorV s vs =>
    simp only [step]
    cases hx : w.objs s with
    | some x => exact hw
    | none =>
      refine hw.put s _ _ (by intro y hy; cases hy; exact ((small_sim c zero).mkVariadic 0 vs w.led w.led trivial).inv) ?_
      rw [hx]; exact (Small.mkVariadic_eff c zero vs w.led).toG
  | copy d s =>
    simp only [step]
    cases hd : w.objs d with
    | some x => exact hw
    | none =>
      cases hs : w.objs s with
      | none => exact hw
      | some y =>
        have hy := hw.objInv s y hs
        refine hw.put d _ _ (by intro z hz; cases hz; exact (Small.mkCopy_good c zero y w.led hy).inv) ?_
        rw [hd]; exact (Small.mkCopy_eff c zero y w.led hy).toG
  | assign d s =>
    simp only [step]
    cases hd : w.objs d with
    | none => exact hw
    | some x =>
      cases hs : w.objs s with
      | none => exact hw
      | some y =>
        have hxi := hw.objInv d x hd
        by_cases hds : d = s
        · simp only [hds, if_true, smallImpl, Small.assignSelf]
          subst hds
          refine hw.put d _ _ (by intro z hz; cases hz; exact hxi) ?_
          rw [hd]; exact (Eff.refl _ _).toG
        · simp only [hds, if_false]
          have hyi := hw.objInv s y hs
          refine hw.put d _ _ (by intro z hz; cases hz; exact (Small.assign_good c zero x y w.led hxi hyi).inv) ?_
          rw [hd]; exact Small.assign_eff c zero x y w.led hxi hyi (hown d x hd)
  | push s a =>
    simp only [step]
    cases hx : w.objs s with
    | none => exact hw
    | some x =>
      have hxi := hw.objInv s x hx
      refine hw.put s _ _ (by intro z hz; cases hz; exact (Small.push_good c zero x a w.led hxi).inv) ?_
      rw [hx]; exact (Small.push_eff c zero x a w.led hxi (hown s x hx)).toG
  | pushAt s i =>
    simp only [step]
    cases hx : w.objs s with
    | none => exact hw
    | some x =>
      have hxi := hw.objInv s x hx
      by_cases hi : i < (smallImpl c zero).size x
      · simp only [hi, if_true]
        refine hw.put s _ _ (by intro z hz; cases hz; exact (Small.pushAt_good c zero x i w.led hxi hi).inv) ?_
        rw [hx]; exact (Small.pushAt_eff c zero x i w.led hxi hi (hown s x hx)).toG
      · simp only [hi, if_false]; exact hw
  | resize s n =>
    simp only [step]
    cases hx : w.objs s with
    | none => exact hw
    | some x =>
      have hxi := hw.objInv s x hx
      refine hw.put s _ _ (by intro z hz; cases hz; exact (Small.resize_good c zero x n w.led hxi).inv) ?_
      rw [hx]; exact (Small.resize_eff c zero x n w.led hxi (hown s x hx)).toG
  | write s i a =>
    simp only [step]
    cases hx : w.objs s with
    | none => exact hw
    | some x =>
      have hxi := hw.objInv s x hx
      by_cases hi : i < (smallImpl c zero).size x
      · simp only [hi, if_true]
        have hi' : i < x.size := hi
        obtain ⟨h1, h2⟩ := Small.storeCell_led c x i (some a) w.led hxi hi'
        have g := Small.storeCell_good c x i (some a) w.led hxi hi'
        refine hw.put s _ _ (by intro z hz; cases hz; show Small.Inv c (Small.write x i a w.led).1; rw [Small.write_eq_storeCell]; exact g.inv) ?_
        rw [hx]
        show EffG (Small.blk x) (Small.blk (Small.write x i a w.led).1) w.led (Small.write x i a w.led).2
        rw [Small.write_eq_storeCell, h1, h2]
        exact (Eff.refl _ _).toG
      · simp only [hi, if_false]; exact hw
  | read s i =>
    simp only [step]
    cases hx : w.objs s with
    | none => exact hw
    | some x =>
      have hxi := hw.objInv s x hx
      by_cases hi : i < (smallImpl c zero).size x
      · simp only [hi, if_true]
        have hi' : i < x.size := hi
        have hl : ((smallImpl c zero).read x i w.led).2 = w.led := by
          show (Small.read x i w.led).2 = w.led
          cases ht : x.tagS with
          | true =>
            simp only [Small.read, ht, if_true]
            exact SVec.read_led c _ i _ (hxi.1 ht) (by simpa [Small.size, ht] using hi')
          | false =>
            simp only [Small.read, ht, Bool.false_eq_true, if_false]
            exact Vec.read_ledger _ i _ (hxi.2 ht) (by simpa [Small.size, ht] using hi')
        rw [hl]; exact hw
      · simp only [hi, if_false]; exact hw
  | destroy s =>
    simp only [step]
    cases hx : w.objs s with
    | none => exact hw
    | some x =>
      have hxi := hw.objInv s x hx
      refine hw.put s none _ (by intro z hz; cases hz) ?_
      rw [hx]; exact Small.destroy_eff c x w.led hxi

theorem small_run_linvg (c : Nat) (zero : α) (h : List (Op α)) {w : World (Small α)} (hw : LInvG Small.blk (Small.Inv c) w) :
    LInvG Small.blk (Small.Inv c) (run (smallImpl c zero) w h) := by
  induction h generalizing w with
  | nil => exact hw
  | cons op h ih =>
    simp only [run]
    exact ih (small_step_linvg c zero hw op)

end NmVerif.Containers
