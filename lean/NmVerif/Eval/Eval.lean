import NmVerif.Basic
import NmVerif.NDA
import NmVerif.Arr
/-
  Model of the default evaluator (include/nmtools/array/eval.hpp, evaluator_t<view,none>):

    operator()(output&) : if shape(output) != shape(view) return (silently);
                          for i < size: apply_at(output, ndindex(out_shape)[i]) = apply_at(view, ndindex(inp_shape)[i])
    operator()()        : default-construct the resolved output type, apply_resize to the view's shape, then the above.
-/
namespace NmVerif.Eval
open NmVerif

variable {α : Type}

/-- one iteration of the copy loop -/
def copyStep (v : Arr α) (s : Shape) (o : NDA α) (i : Nat) : NDA α :=
  o.set (ndindex s i) (v.get (ndindex s i))

/-- `evaluator_t::operator()(output&)` -/
def evalInto (out : NDA α) (v : Arr α) : NDA α :=
  if out.shape = v.shape then (List.range (prod v.shape)).foldl (copyStep v v.shape) out else out

/-- `evaluator_t::operator()()`: fresh output of the view's shape (any layout), then `evalInto` -/
def evalFresh [Inhabited α] (colMajor : Bool) (v : Arr α) : NDA α :=
  evalInto { shape := v.shape, colMajor := colMajor, data := List.replicate (prod v.shape) default } v

/-- `detail::eval` on `nmtools_maybe<view>` (eval.hpp:254-270): Nothing stays Nothing, a value is evaluated -/
def evalMaybe [Inhabited α] (colMajor : Bool) (ov : Option (Arr α)) : Option (NDA α) :=
  ov.map (evalFresh colMajor)

/-! ## compositions

  A view of views, as the evaluator sees it: every node answers `shape` and `get`, and computes `get` from the `get`
  of its operands (decorator_t holds nested views by value, arrays by pointer; view/decorator.hpp:249-271).

    index  w fill e    any `indexing_t` view (transpose … slice, pad, broadcast_to …): `w.apply`
    map    f e         unary ufunc
    zip    f e₁ e₂     binary ufunc on operands of one shape (nmtools broadcasts them with `index` nodes first)
    gather s r g e     result shape `s`; element `d` = `g` of the operand's elements at the indices `r d`, in that order
                       (reductions, accumulations: `r` = reduceReads / accumulateReads, `g` = the left fold)
    gather2 …          the same with two operands (matmul, tensordot, where-like selections by position)
-/
inductive Expr (α : Type) where
  | leaf : Arr α → Expr α
  | index : IxView → α → Expr α → Expr α
  | map : (α → α) → Expr α → Expr α
  | zip : (α → α → α) → Expr α → Expr α → Expr α
  | gather : Shape → (Idx → List Idx) → (List α → α) → Expr α → Expr α
  | gather2 : Shape → (Idx → List Idx) → (Idx → List Idx) → (List α → List α → α) → Expr α → Expr α → Expr α

/-- what the lazy view denotes -/
def Expr.denote : Expr α → Arr α
  | .leaf a => a
  | .index w fill e => w.apply e.denote fill
  | .map f e => e.denote.map f
  | .zip f e₁ e₂ => ⟨e₁.denote.shape, fun d => f (e₁.denote.get d) (e₂.denote.get d)⟩
  | .gather s r g e => ⟨s, fun d => g ((r d).map e.denote.get)⟩
  | .gather2 s r₁ r₂ g e₁ e₂ => ⟨s, fun d => g ((r₁ d).map e₁.denote.get) ((r₂ d).map e₂.denote.get)⟩

/-- the side conditions under which the C++ views are defined: operand shapes match what the node was built for,
    every access stays inside the operand (C02), extents are positive -/
def Expr.WF : Expr α → Prop
  | .leaf a => Pos a.shape
  | .index w _ e => e.WF ∧ w.src = e.denote.shape ∧ w.InBounds ∧ Pos w.dst
  | .map _ e => e.WF
  | .zip _ e₁ e₂ => e₁.WF ∧ e₂.WF ∧ e₁.denote.shape = e₂.denote.shape
  | .gather s r _ e => e.WF ∧ Pos s ∧ ∀ d, InShape d s → ∀ i ∈ r d, InShape i e.denote.shape
  | .gather2 s r₁ r₂ _ e₁ e₂ => e₁.WF ∧ e₂.WF ∧ Pos s ∧
      (∀ d, InShape d s → ∀ i ∈ r₁ d, InShape i e₁.denote.shape) ∧
      (∀ d, InShape d s → ∀ i ∈ r₂ d, InShape i e₂.denote.shape)

/-- `Mat cm e e'`: `e'` is `e` with an arbitrary set of sub-views evaluated to concrete arrays first
    (`array::eval` / `array::fn` with resolver layout `cm`), possibly nested -/
inductive Mat [Inhabited α] (cm : Bool) : Expr α → Expr α → Prop where
  | leaf (a : Arr α) : Mat cm (.leaf a) (.leaf a)
  | index (w fill) {e e'} : Mat cm e e' → Mat cm (.index w fill e) (.index w fill e')
  | map (f) {e e'} : Mat cm e e' → Mat cm (.map f e) (.map f e')
  | zip (f) {e₁ e₁' e₂ e₂'} : Mat cm e₁ e₁' → Mat cm e₂ e₂' → Mat cm (.zip f e₁ e₂) (.zip f e₁' e₂')
  | gather (s r g) {e e'} : Mat cm e e' → Mat cm (.gather s r g e) (.gather s r g e')
  | gather2 (s r₁ r₂ g) {e₁ e₁' e₂ e₂'} : Mat cm e₁ e₁' → Mat cm e₂ e₂' →
      Mat cm (.gather2 s r₁ r₂ g e₁ e₂) (.gather2 s r₁ r₂ g e₁' e₂')
  | eval {e e'} : Mat cm e e' → Mat cm e (.leaf (evalFresh cm e'.denote).toArr)

end NmVerif.Eval
