// C12 harness, compiler vector extension context (128 bit)
#include "nmtools/array/eval/simd/vector_128.hpp"
#define C12_CTX  nmtools::array::simd::vector_128
#define C12_BITS 128
#include "h_c12_common.hpp"
