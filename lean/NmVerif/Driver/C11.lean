import NmVerif.Proto
import NmVerif.Static
/-
  Driver for C11: `c11 rpn=<tok>;<tok>;… shapes=<leaf shape>;… rargs=<run-time argument>;…`
  interprets the program (reverse Polish, tokens written by harness/gen_c11.py) twice at once:
  abstractly with the transfer functions of `NmVerif.Static` (→ predicted static knowledge of the view TYPE) and
  concretely with the reference shape functions (→ run-time shape of the instance).
  Answer: `M sk=… fs=… fd=… fz=… bd=… bz=… shape=…`  |  `M unsupported:<why>`
-/
namespace NmVerif.Driver.C11
open NmVerif NmVerif.Proto NmVerif.Static

def fmtOptNats : Option (List Nat) → String
  | some l => fmtNats l
  | none => "-"
def fmtOptNat : Option Nat → String
  | some n => toString n
  | none => "-"

def fmtShapeK : ShapeK → String
  | .const l => "c:" ++ fmtNats l
  | .clipped b => "l:" ++ fmtNats b
  | .fixedDim k => s!"f:{k}"
  | .boundedDim k => s!"b:{k}"
  | .dyn => "d"

def fmtInfo (i : SInfo) : String :=
  s!"sk={fmtShapeK i.shape} fs={fmtOptNats i.fixedShape} fd={fmtOptNat i.fixedDim} fz={fmtOptNat i.fixedSize} bd={fmtOptNat i.boundedDim} bz={fmtOptNat i.boundedSize}"

structure St where
  stack : List (SInfo × Shape)
  shapes : List (List Nat)
  rargs : List (List Int)

abbrev M := Except String

def popArg (st : St) : M (List Int × St) :=
  match st.rargs with
  | [] => .error "missing-rarg"
  | r :: rs => .ok (r, { st with rargs := rs })

def toNats (l : List Int) : M (List Nat) :=
  if l.all (· ≥ 0) then .ok (l.map Int.toNat) else .error "negative-arg"

def nats? (s : String) : M (List Nat) :=
  match parseNats s with
  | some l => .ok l
  | none => .error s!"bad-list:{s}"

def nat? (s : String) : M Nat :=
  match s.toNat? with
  | some n => .ok n
  | none => .error s!"bad-nat:{s}"

def need {α} (o : Option α) (why : String) : M α :=
  match o with
  | some x => .ok x
  | none => .error why

def pop1 (st : St) : M ((SInfo × Shape) × St) :=
  match st.stack with
  | x :: rest => .ok (x, { st with stack := rest })
  | [] => .error "stack-underflow"

/-- index-array argument token fields → (kind, run-time value) -/
def arrArg (fields : List String) (st : St) : M (ArrK × List Int × St) :=
  match fields with
  | "ct" :: v :: _ => do let l ← nats? v; pure (.ct l, l.map Int.ofNat, st)
  | "cl" :: m :: v :: _ => do let mx ← nats? m; let l ← nats? v; pure (.cl mx, l.map Int.ofNat, st)
  | "rt" :: n :: _ => do let k ← nat? n; let (r, st') ← popArg st; pure (.rt k, r, st')
  | "rtv" :: _ => do let (r, st') ← popArg st; pure (.rtv, r, st')
  | _ => .error "bad-array-arg"

def axisArg (fields : List String) (st : St) : M (AxisK × Option (List Nat) × St) :=
  match fields with
  | "none" :: _ => pure (.none, none, st)
  | "cts" :: a :: _ => do let x ← nat? a; pure (.cts x, some [x], st)
  | "ctt" :: a :: _ => do let l ← nats? a; pure (.ctt l, some l, st)
  | "rts" :: _ => do let (r, st') ← popArg st; let l ← toNats r; pure (.rts, some l, st')
  | "rt" :: n :: _ => do let k ← nat? n; let (r, st') ← popArg st; let l ← toNats r; pure (.rt k, some l, st')
  | _ => .error "bad-axis-arg"

def step (st : St) (tok : String) : M St := do
  let fields := tok.splitOn "."
  match fields with
  | "L" :: kind :: p :: _ =>
    let P ← nats? p
    match st.shapes with
    | [] => .error "missing-shape"
    | s :: ss =>
      let i ← need (leafInfo kind P) "unknown-leaf-kind"
      pure { st with stack := (i, s) :: st.stack, shapes := ss }
  | "transpose" :: args =>
    let ((i, s), st) ← pop1 st
    match args with
    | "none" :: _ =>
      let o ← need (transferTranspose none i) "transfer"
      let t ← need (refTranspose none s) "ref-shape"
      pure { st with stack := (o, t) :: st.stack }
    | _ =>
      let (k, v, st) ← arrArg args st
      let ax ← toNats v
      let o ← need (transferTranspose (some k) i) "transfer"
      let t ← need (refTranspose (some ax) s) "ref-shape"
      pure { st with stack := (o, t) :: st.stack }
  | "reshape" :: args =>
    let ((i, s), st) ← pop1 st
    let (k, v, st) ← arrArg args st
    let o ← need (transferReshape k i) "transfer"
    let t ← need (refReshape v s) "ref-shape"
    pure { st with stack := (o, t) :: st.stack }
  | "flatten" :: _ =>
    let ((i, s), st) ← pop1 st
    let o ← need (transferFlatten i) "transfer"
    pure { st with stack := (o, refFlatten s) :: st.stack }
  | "broadcast_to" :: args =>
    let ((i, s), st) ← pop1 st
    let (k, v, st) ← arrArg args st
    let tv ← toNats v
    let o ← need (transferBroadcastTo k i) "transfer"
    let t ← need (refBroadcastTo tv s) "ref-shape"
    pure { st with stack := (o, t) :: st.stack }
  | "tile" :: args =>
    let ((i, s), st) ← pop1 st
    let (k, v, st) ← arrArg args st
    let r ← toNats v
    let o ← need (transferTile k i) "transfer"
    pure { st with stack := (o, refTile r s) :: st.stack }
  | "expand_dims" :: args =>
    let ((i, s), st) ← pop1 st
    let (k, v, st) ← axisArg args st
    let axes ← need v "axis"
    let o ← need (transferExpandDims k i) "transfer"
    let t ← need (refExpandDims axes s) "ref-shape"
    pure { st with stack := (o, t) :: st.stack }
  | "squeeze" :: _ =>
    let ((i, s), st) ← pop1 st
    let o ← need (transferSqueeze i) "transfer"
    pure { st with stack := (o, refSqueeze s) :: st.stack }
  | "sum" :: args =>
    let ((i, s), st) ← pop1 st
    let (k, v, st) ← axisArg args st
    let axes ← need v "axis"
    let kd := args.contains "kd1"
    let o ← need (transferReduce k kd i) "transfer"
    let t ← need (refReduce axes kd s) "ref-shape"
    pure { st with stack := (o, t) :: st.stack }
  | "negative" :: _ =>
    let ((i, s), st) ← pop1 st
    let o ← need (transferUfunc1 i) "transfer"
    pure { st with stack := (o, s) :: st.stack }
  | "add" :: _ =>
    let ((j, sb), st) ← pop1 st
    let ((i, sa), st) ← pop1 st
    let o ← need (transferUfunc2 i j) "transfer"
    let t ← need (refBroadcast sa sb) "ref-shape"
    pure { st with stack := (o, t) :: st.stack }
  | "concatenate" :: args =>
    let ((j, sb), st) ← pop1 st
    let ((i, sa), st) ← pop1 st
    let (k, v, st) ← axisArg args st
    let axis : Option Nat := match v with | some (x :: _) => some x | _ => none
    let o ← need (transferConcat k i j) "transfer"
    let t ← need (refConcat axis sa sb) "ref-shape"
    pure { st with stack := (o, t) :: st.stack }
  | _ => .error s!"unknown-token:{tok}"

def run (rpn : String) (shapes : List (List Nat)) (rargs : List (List Int)) : String :=
  let toks := (rpn.splitOn ";").filter (· ≠ "")
  match toks.foldlM step { stack := [], shapes := shapes, rargs := rargs } with
  | .error e => s!"M unsupported:{e}"
  | .ok st =>
    match st.stack with
    | [(i, s)] => s!"M {fmtInfo i} shape={fmtNats s}"
    | _ => "M unsupported:stack"

def handle : Handler := fun op a =>
  match op with
  | "c11" => orBad do
      let rpn ← a.get? "rpn"
      let shapes ← a.natLists "shapes"
      let rargs := (a.intLists "rargs").getD []
      pure (run rpn shapes rargs)
  | _ => none

end NmVerif.Driver.C11
