import NmVerif.Proto
import NmVerif.NN.Conv
import NmVerif.NN.Pool
import NmVerif.NN.PoolReduce
import NmVerif.NN.F32
import NmVerif.NN.Compose
namespace NmVerif.Driver.C17
open NmVerif NmVerif.Proto NmVerif.NN

/-- array of the request: shape `<key>s`, integer data `<key>` (row-major) -/
def mkArr (a : Args) (key : String) : Option (Arr Int) := do
  let shape ← a.nats (key ++ "s")
  let data ← a.ints key
  if data.length ≠ prod shape then none
  let arr := data.toArray
  pure ⟨shape, fun i => arr.getD (computeOffset i (strides shape)) 0⟩

def pArg (a : Args) (key : String) : Option PArg :=
  match a.get? key with
  | none => none
  | some "None" => some .none
  | some s => match parseNats s with
    | some [v] => some (.int v)
    | some l => some (.arr l)
    | none => none

def fmtArr (r : Arr Int) : String :=
  s!"ok shape={fmtNats r.shape} data={fmtInts ((allIdx r.shape).map r.get)}"

def fmtRes : Res (Arr Int) → String
  | .ok r => fmtArr r
  | .nothing => "nothing"
  | .ub why => s!"ub:{why}"

def conv (n : Nat) (a : Args) : Option String := do
  let x ← mkArr a "x"
  let w ← mkArr a "w"
  let b ← (match a.get? "b" with
    | some "None" => some none
    | some _ => (mkArr a "b").map some
    | none => none)
  let s ← pArg a "stride"
  let p ← pArg a "padding"
  let d ← pArg a "dilation"
  let g ← a.nat "groups"
  -- `forms=xyz` (conv1d, harness h_c17_conv1d_arr): letter `a` = the argument is passed as a one-element index array
  let fs := ((a.get? "forms").getD "").toList
  let asForm (k : Nat) (v : PArg) : PArg :=
    match fs[k]?, v with
    | some 'a', .int t => .arr [t]
    | _, _ => v
  pure (fmtRes (convnd n x w b (asForm 0 s) (asForm 1 p) (asForm 2 d) g))

/-! ### the composed routines at the element types of the harness -/

def f32max (t u : Float32) : Float32 := if u < t then t else u
def f32eps (m e : Nat) : Float32 := (Float.ofScientific m true e).toFloat32
def f32divn (s : Float32) (n : Nat) : Float32 := s / n.toFloat32
def f32sqabs (t : Float32) : Float32 := t.abs * t.abs

def fmtIntView (v : Option (Arr (Option Int))) : String :=
  match v with
  | none => "nothing"
  | some r =>
    match (allIdx r.shape).mapM r.get with
    | some vals => s!"ok shape={fmtNats r.shape} data={fmtInts vals}"
    | none => "ub:element"

def optArr {β : Type} (mk : Args → String → Option (Arr β)) (a : Args) (key : String) : Option (Option (Arr β)) :=
  match a.get? key with
  | some "None" => some none
  | some _ => (mk a key).map some
  | none => none

def composed (op : String) (a : Args) : Option String :=
  match op with
  | "softmax" => do
      let x ← F32.mkArr a "x"; let ax ← a.int "axis"
      pure (F32.fmtView (softmax f32max (· - ·) (· + ·) (· / ·) Float32.exp (lift x) ax))
  | "softmin" => do
      let x ← F32.mkArr a "x"; let ax ← a.int "axis"
      pure (F32.fmtView (softmin f32max (· - ·) (· + ·) (· / ·) Float32.exp (fun t => -t) (lift x) ax))
  | "linear" => do
      if a.get? "dt" == some "i" then
        let x ← mkArr a "x"; let w ← mkArr a "w"; let b ← optArr mkArr a "b"
        pure (fmtIntView (linear (· + ·) (· * ·) x w b))
      else
        let x ← F32.mkArr a "x"; let w ← F32.mkArr a "w"; let b ← optArr F32.mkArr a "b"
        pure (F32.fmtView (linear (· + ·) (· * ·) x w b))
  | "bilinear" => do
      if a.get? "dt" == some "i" then
        let x ← mkArr a "a"; let y ← mkArr a "b"; let w ← mkArr a "w"; let c ← optArr mkArr a "c"
        pure (fmtIntView (bilinear (· + ·) (· * ·) x y w c))
      else
        let x ← F32.mkArr a "a"; let y ← F32.mkArr a "b"; let w ← F32.mkArr a "w"; let c ← optArr F32.mkArr a "c"
        pure (F32.fmtView (bilinear (· + ·) (· * ·) x y w c))
  | "pairwise_distance" => do
      let x ← F32.mkArr a "a"; let y ← F32.mkArr a "b"
      let (ord, eps, keep) ← (if (a.get? "form").isSome then some ((2 : Nat), f32eps 1 6, false) else do
        let o ← a.nat "ord"; let e ← (a.get? "eps").bind F32.parseReal; let k ← a.nat "keepdims"
        pure (o, e, k != 0))
      let p := ord.toFloat32
      pure (F32.fmtView (pairwiseDistance (· + ·) (· - ·) (fun t => Float32.pow t.abs p) (fun t => Float32.pow t (1 / p)) eps x y keep))
  | "cosine_similarity" => do
      let x ← F32.mkArr a "a"; let y ← F32.mkArr a "b"
      let ax ← (if (a.get? "form").isSome then some (1 : Int) else a.int "axis")
      pure (F32.fmtView (cosineSimilarity (· + ·) (· * ·) (· / ·) f32max (fun t => Float32.pow t.abs 2) (fun t => Float32.pow t (1 / 2))
        (f32eps 1 8) x y ax))
  | "batch_norm" => do
      let x ← F32.mkArr a "x"; let m ← F32.mkArr a "m"; let v ← F32.mkArr a "v"; let w ← F32.mkArr a "w"; let b ← F32.mkArr a "b"
      pure (F32.fmtView (batchNorm (· + ·) (· - ·) (· * ·) (· / ·) Float32.sqrt (f32eps 1 5) x m v w b))
  | "layer_norm" => do
      let x ← F32.mkArr a "x"; let w ← F32.mkArr a "w"; let b ← F32.mkArr a "b"
      pure (F32.fmtView (layerNorm (· + ·) (· - ·) (· * ·) (· / ·) f32sqabs Float32.sqrt f32divn (f32eps 1 5) x w b))
  | "instance_norm" => do
      let x ← F32.mkArr a "x"; let w ← F32.mkArr a "w"; let b ← F32.mkArr a "b"; let nd ← a.nat "nd"
      pure (F32.fmtView (instanceNorm (· + ·) (· - ·) (· * ·) (· / ·) f32sqabs Float32.sqrt f32divn (f32eps 1 5) x w b nd))
  | "group_norm" => do
      let x ← F32.mkArr a "x"; let w ← F32.mkArr a "w"; let b ← F32.mkArr a "b"; let g ← a.nat "groups"
      pure (F32.fmtView (groupNorm (· + ·) (· - ·) (· * ·) (· / ·) f32sqabs Float32.sqrt f32divn (f32eps 1 5) x w b g))
  | _ => none

def handle : Handler := fun op a =>
  match op with
  | "conv1d" => orBad (conv 1 a)
  | "conv2d" => orBad (conv 2 a)
  | "pool_shape" => orBad do
      let s ← a.nats "shape"; let k ← a.nats "kernel"; let st ← a.nats "stride"; let c ← a.nat "ceil"
      match shapePool2d s k st (c != 0) with
      | some r => pure s!"ok {fmtNats r}"
      | none => pure "ub:rank"
  | "pool_slice" => orBad do
      let i ← a.nats "idx"; let sh ← a.nats "shape"; let k ← a.nats "kernel"; let st ← a.nats "stride"
      match slicePool2d i sh k st with
      | some r => pure ("ok " ++ ";".intercalate (r.map fun t => s!"{t.1},{t.2.1},{t.2.2}"))
      | none => pure "ub:rank"
  | "pool_fold" => orBad do
      let s ← a.nats "xs"; let k ← a.nats "kernel"; let st ← a.nats "stride"; let c ← a.nat "ceil"
      match shapePool2d s k st (c != 0) with
      | none => pure "ub:rank"
      | some os =>
        match (allIdx os).mapM (poolFold s k st) with
        | some vals => pure s!"ok shape={fmtNats os} data={fmtNats vals}"
        | none => pure "ub:window"
  | "max_pool2d" => orBad do
      let k ← a.nats "kernel"; let st ← a.nats "stride"; let c ← a.nat "ceil"
      -- integer-valued data: evaluated over Int (exact); otherwise over Float32
      match mkArr a "x" with
      | some x =>
        match maxPool2d x k st (c != 0) with
        | none => pure "ub:rank"
        | some v =>
          match (allIdx v.shape).mapM v.get with
          | some vals => pure s!"ok shape={fmtNats v.shape} data={fmtInts vals}"
          | none => pure "ub:window"
      | none =>
        let x ← F32.mkArr a "x"
        pure (F32.fmtView (maxPool2d x k st (c != 0)))
  | "avg_pool2d" => orBad do
      -- avg_reducer_t: elements promoted to float32, summed from the first element, divided by the slice's element count
      let x ← F32.mkArr a "x"
      let k ← a.nats "kernel"; let st ← a.nats "stride"; let c ← a.nat "ceil"
      pure (F32.fmtView (avgPool2d (· + ·) (fun s n => s / n.toFloat32) x k st (c != 0)))
  | "softmax" | "softmin" | "linear" | "bilinear" | "pairwise_distance" | "cosine_similarity"
  | "batch_norm" | "layer_norm" | "instance_norm" | "group_norm" => orBad (composed op a)
  | _ => none

end NmVerif.Driver.C17
