"""C12 — SIMD evaluation equals scalar evaluation for every size, shape and layout.

IMPL   : array::fn(args, ctx) for every SIMD context that builds here, next to array::fn(args) (scalar evaluator)
         in the same binary (harness/h_c12_<ctx>.cpp); the harness appends MISMATCH when the two differ.
MODEL  : lean/NmVerif/Simd/*.lean (packed loop + tail, enumerators) run on integer data by the driver.
ORACLE : NumPy on the logical arrays (independent statement of what the scalar evaluator must give).

Integer element types (int8 .. uint64): harness/h_c12i_<ctx>.cpp (ibinary / iouter / ireduce), model = the same evaluator
functions at element type BitVec w (lean/NmVerif/Simd/IntLanes.lean; ibinary / iouter / ireduce / imatmul), oracle = NumPy wrap-around arithmetic in that dtype.
"""
import numpy as np
from runner import Case as _Case


def Case(req, harness, **kw):
    """the Lean driver is shared by all properties: C12 requests carry the prefix `c12.` there"""
    kw.setdefault('mreq', 'c12.' + req)
    return _Case(req, harness, **kw)
from shapes import prod, fmt

ID = 'C12'
LEVEL = 'proof'

# context -> register bits, harness source, extra compiler flags
CTXS = {
    'avx': dict(bits=256, src='h_c12_avx.cpp', extra=['-mavx2', '-mfma']),
    'sse': dict(bits=128, src='h_c12_sse.cpp', extra=['-msse4.1']),
    'v128': dict(bits=128, src='h_c12_v128.cpp', extra=[]),
    'v256': dict(bits=256, src='h_c12_v256.cpp', extra=[]),
    'v512': dict(bits=512, src='h_c12_v512.cpp', extra=[]),
    'simde512': dict(bits=512, src='h_c12_simde512.cpp', extra=['-mavx2', '-mfma']),
}
# contexts that also get an ASan+UBSan build (out-of-buffer packed loads / stores abort there)
SAN_CTXS = {'quick': ['avx', 'sse'], 'thorough': ['avx', 'sse', 'v128', 'v256', 'v512', 'simde512']}
NO_MASKOPS = {'simde512'}        # installed SIMDe lacks simde_kxor_mask*/simde_knot_mask*: hardshrink/softshrink/hardswish do not compile
DTYPES = {'f32': (np.float32, 4), 'f64': (np.float64, 8)}
NO_MATMUL_F64 = {'simde512'}     # simd_op_t<simde_avx512_t,double>::fmadd does not compile
# Is the layout test of evaluator_t<matmul,simd>::operator() on the lhs effective in the tree under test?  False for the
# unchanged tree (lhs_type is computed from a reference-to-pointer, contiguous_axis_v fails, eval_matmul runs for every
# lhs: known finding matmul.column-major-lhs).  Set to True once fixes/C12-matmul-lhs-layout-fallback.diff is applied:
# the harness then also builds column-major lhs x row-major rhs, the model is asked with fallback=1 and the
# column-major-lhs cases are in-domain (simdEvalMatmul_repaired_eq_scalar).
MATMUL_LHS_FALLBACK_REPAIRED = True     # fix commit 8eebbc3 in /repo
import os as _os
if _os.environ.get('C12_MATMUL_LHS_FALLBACK') in ('0', '1'):      # try-out knob: VERIF_REPO=<repaired tree> C12_MATMUL_LHS_FALLBACK=1 ./check C12
    MATMUL_LHS_FALLBACK_REPAIRED = _os.environ['C12_MATMUL_LHS_FALLBACK'] == '1'

UNARY_MODEL_OPS = ['floor', 'relu', 'ceil', 'relu6']            # exact on integer data, evaluated by the Lean model
UNARY_NUMPY_OPS = ['sqrt', 'ceil', 'floor']                     # IEEE-exact in NumPy: bit patterns compared
UNARY_ALL_OPS = ['sqrt', 'ceil', 'floor', 'relu', 'relu6', 'hardtanh', 'leaky_relu', 'prelu', 'softshrink', 'softsign',
                 'hardshrink', 'hardswish']

RULE = ('per SIMD context (x86 SSE, x86 AVX, vector extension 128/256/512, SIMDe AVX-512) x dtype (f32, f64): unary ops on every '
        'element count 1..4*lanes+1 (1-d) plus 2-d/3-d shapes, row- and column-major; binary ops on equal shapes (every count) '
        'and on every 2-d broadcast pattern (R,C)x{(1,C),(R,1),(1,1)} both ways; outer on 1-d..3-d operand pairs; add/multiply/'
        'subtract reduce over every axis, axis=-1, axis=None, keepdims on/off, 1-d..4-d shapes; matmul (M,K)x(K,N) with column-major '
        'rhs, row- and column-major lhs. Each structural case carries integer provenance data (lhs id + 1000*rhs id, shuffled distinct summands, products of '
        '2s and 3s: non-zero, non-arange) and is answered three ways: SIMD evaluator (harness appends MISMATCH when it differs from '
        'the scalar evaluator in the same binary), Lean model, NumPy. Value cases use eighth-valued random data mixed one in three with '
        'precision-sensitive values of the dtype, compared bitwise (element-wise; precision scope: EVERY unary op (sqrt, ceil, floor and the nine '
        'activations) and add/subtract/multiply/divide x context x dtype on ~115 (float) / ~135 (double) finite non-zero values whose precision '
        'matters in that dtype: integers and the activation thresholds with both neighbours at 1 ulp, halves x.5 +-1 ulp, magnitudes around '
        '2^22..2^24 (float) / 2^51..2^53 (double), doubles that are not floats (2.0000000001, 16777217, 1e10+0.5, 30*0.1), 0.1, 1/3, largest / '
        'smallest normal and subnormal magnitudes; binary operand pairs with ties of the sum, products and quotients needing every bit, results '
        'just short of / just past overflow and underflow; every value and pair in a PACKED lane (two alignments) and once in the scalar TAIL, '
        'plus set1 operands (2-d broadcasting, outer); answered by the SIMD evaluator, the scalar evaluator in the same binary and NumPy '
        'evaluating the same IEEE-exact operation sequence in the dtype) or within a re-association tolerance derived from the operand magnitudes (reductions, matmul); special '
        'values (-0.0, NaN, inf, denormals) go through every unary op. The pure enumerators are diffed tuple by tuple against the '
        'Lean model for lanes 2,4,8,16. Structural and memory-unsafe cases are repeated under ASan+UBSan. '
        'Integer element types: per context x {int8,uint8,int16,uint16,int32,uint32,int64,uint64} x {add, subtract, multiply where '
        'simd_op_t::mul has a branch for the width}: same-shape binary (casting same_kind) on ALL pairs of ~20 boundary values of the '
        'type (limits, limits+-1, unsigned values around the signed maximum, 2^(w/2)+-1, bit patterns) in packed and in tail positions, '
        'every element count 1..4*lanes+1, every 2-d broadcast pattern, outer (dtype = the type) on counts 1..2*lanes+1 and 2-d/3-d '
        'operands, add / multiply reduce over every axis, axis None, keepdims on/off with wrapping data, matmul (x86 SSE 16/32 bit, vector '
        'extensions all widths) with inner extents around the lane count; each answered by the SIMD '
        'evaluator (MISMATCH against the scalar evaluator in the same binary), the Lean model at BitVec w and NumPy in that dtype; inputs '
        'on which the scalar functor itself is undefined behaviour (uint16 products beyond INT_MAX, signed 32/64-bit overflow) are '
        'off-domain and judged against NumPy; in-domain inputs are repeated under ASan+UBSan. '
        'non-trivial = the packed path runs (element count / row length >= lanes)')
EXHAUSTIVE = {'quick': False, 'thorough': False}
ANCHORS = {
    'NmVerif.Simd.simdUnary / packedStarts / tailIdx': 'array::evaluator_t<view,simd_base_t<tag>>::eval_unary (eval/simd/evaluator/ufunc.hpp:38-86)',
    'NmVerif.Simd.simdBinarySame': 'eval_binary, SAME_SHAPE branch (evaluator/ufunc.hpp:404-419)',
    'NmVerif.Simd.simdBinary2d / binary2dStep': 'eval_binary, BROADCASTED_2D branch (evaluator/ufunc.hpp:420-451)',
    'NmVerif.Simd.binary2dShape / binary2d / binary2dAt': 'index::binary_2d_simd_shape / binary_2d_simd / binary_2d_simd_enumerator_t::operator[] (index/ufunc.hpp:14-134)',
    'NmVerif.Simd.simdReduceAll': 'eval_reduction, out_size == 1 (evaluator/ufunc.hpp:199-230)',
    'NmVerif.Simd.simdReduceAxis / simdReduceVertical / simdReduceHorizontal': 'eval_reduction, index axis (evaluator/ufunc.hpp:231-351)',
    'NmVerif.Simd.reductionNdReshape / reduction2dShape / reduction2d / reductionAt': 'index::reduction_nd_reshape / reduction_2d_shape / reduction_2d / reduction_2d_enumerator (index/ufunc.hpp:148-324)',
    'NmVerif.Simd.simdOuter': 'eval_outer (evaluator/ufunc.hpp:95-171)',
    'NmVerif.Simd.outerSimdShape / outerSimd / outerAt': 'index::outer_simd_shape / outer_simd / outer_simd_enumerator_t::operator[] (index/ufunc.hpp:326-499)',
    'NmVerif.Simd.simdMatmul / matmulCellLoop / matmulStep': 'evaluator_t<matmul view,simd_base_t<tag>>::eval_matmul (evaluator/matmul.hpp:23-121)',
    'NmVerif.Simd.simdEvalMatmul / simdEvalMatmulWith / matmulLhsFallbackEffective': 'evaluator_t<matmul view,simd_base_t<tag>>::operator()(output_t&) (evaluator/matmul.hpp:125-142)',
    'NmVerif.Simd.simdReduceAxisK / reduceOutShape / normOutShape': 'eval_reduction: out_shape_ = keepdims ? out_shape : insert_index(out_shape,1,axis) (evaluator/ufunc.hpp:262-282)',
    'NmVerif.Simd.outerStep': 'eval_outer, body of the loop over outer_simd_enumerator (evaluator/ufunc.hpp:131-168)',
    'NmVerif.Simd.matmulInnerSize / matmulInner': 'index::matmul_simd_inner_size / matmul_simd_inner (index/matmul.hpp:39-105)',
    'NmVerif.Simd.IOp.lane / packInt': 'simd_op_t<tag,T>::add / sub / mul for integral T, branch chosen by n_bit = 8*sizeof(T) only '
        '(x86_sse.hpp:167-248, x86_avx.hpp:167-229, simde_avx512/simd_op.hpp:162-236, vector_extension.hpp:186-208) through '
        'ufunc_simd_t<add_t|subtract_t|multiply_t,...>::eval (eval/simd/ufunc.hpp:343-389)',
    'NmVerif.Simd.scalarOp / IntTy.encode / IntTy.decode': 'view::fun::add / subtract / multiply <T,T,T>::operator(): static_cast<T>(t op u) '
        '(view/ufuncs/add.hpp, subtract.hpp:31-41, multiply.hpp); reduce / outer variant <none_t,none_t,T> returning T',
    'NmVerif.Simd.IOp.identity': 'view.op.identity() / meta::has_identity_v in eval_reduction (evaluator/ufunc.hpp:182-217,252-259)',
    'NmVerif.Simd.packLanes / Builtin.laneD / Builtin.laneF / vecExtUnaryD / vecExtUnaryF / selectsF32': 'NMTOOLS_SIMD_VECTOR_BUILTIN and simd_op_t<vector_t<n>,T>::sqrt / floor / ceil: '
        'if constexpr (is_same_v<data_t,float>) builtin f else builtin (vector_extension.hpp:99-160); for the x86 / SIMDe contexts the one instruction per element type '
        '(_mm*_ceil_ps / _pd, _mm*_floor_*, _mm*_sqrt_*) is assumed to be that lane',
    'NmVerif.Simd.scalarUnary / scalarBinary2d / scalarReduceAxis / scalarReduceAxisK / scalarOuter / scalarMatmul / scalarMatmulNDA': 'array::evaluator_t<view,none_t> (array/eval.hpp) on ufunc / broadcast / reduce / outer / matmul views = NumPy',
}
ASSUMPTIONS = [
    'intrinsic wrappers are lane-wise (Props.C12.LaneWise1/LaneWise2): op.eval on a register = the scalar functor on each lane; '
    'hypothesis of the theorems (never an axiom), validated on this CPU by the bitwise IMPL-simd vs IMPL-scalar comparison of every run',
    'floating-point lanes compute at the element type\'s own precision (no double lane narrowed to float, no float lane rounded twice, no approximate '
    'reciprocal / rsqrt instruction): part of the lane-wise hypothesis for the x86 / SIMDe intrinsics, a definition for the vector-extension builtin '
    'loop (Simd.vecExtUnaryD / vecExtUnaryF with Simd.selectsF32); measured on every run on ~115 / ~135 precision-sensitive values per dtype through '
    'every unary op and on ~350 operand pairs per binary op, in packed lanes, tail positions and set1 operands, against the scalar evaluator and NumPy; '
    'the driver evaluates the lane model with the C library ceilf/ceil, floorf/floor, sqrtf/sqrt of the machine running the check',
    'integer lanes (Simd.packInt = List.zipWith IOp.lane): for every context and element width w the instruction behind '
    'simd_op_t<ctx,T>::add / sub / mul is ASSUMED to be the modular operation on every w-bit lane, whatever the signedness of T: '
    'x86 SSE _mm_add_epi8/16/32/64, _mm_sub_epi8/16/32/64, _mm_mullo_epi16/32; x86 AVX _mm256_add_epi8/16/32/64, '
    '_mm256_sub_epi8/16/32/64, _mm256_mullo_epi16/32; SIMDe AVX-512 simde_mm512_add_epi8/16/32/64, simde_mm512_sub_epi8/16/32/64, '
    'simde_mm512_mullo_epi16/32/64; vector extension 128/256/512: x + y, x - y, x * y on T __attribute__((vector_size)) for all eight '
    'types; and that loadu / storeu / set1 of those widths (_mm*_loadu_si*, _mm*_storeu_si*, _mm*_set1_epi8/16/32/64(x), element-wise '
    'copies for the vector extension) carry the bit pattern of every value of the type. Each of these (context, op, type) facts is '
    'exercised by every run on ALL pairs of the boundary values of the type (minimum, maximum, +-1 around them, unsigned values '
    'around the signed maximum, 2^(w/2)+-1 whose products just overflow, 0x55../0xAA.. patterns) in packed positions and in the '
    'scalar tail, for same-shape, broadcast (set1 of a boundary value) and outer forms, bit-exactly against the scalar evaluator, the '
    'Lean model (BitVec w) and NumPy; everything above that level (wrap-around meaning for signed and unsigned, equality with the '
    'scalar functor, exactness of reductions) is proved (intLane_eq_wrap, intWrap_spec, intScalarOp_eq_lane, *_int_eq_scalar)',
    'scalar functor on integers (Simd.scalarOp): static_cast<T>(t op u) after integral promotion; where C++ leaves it undefined '
    '(uint16 * uint16 beyond INT_MAX, signed 32/64-bit overflow: intScalarOp_u16_mul_undefined, intScalarOp_i32_add_undefined) the '
    'reference of the property is itself undefined: those boundary pairs are still run (optimised builds only, tag scalar-ub, '
    'off-domain) and judged against NumPy wrap-around (g++ -O1 wraps there); the in-domain classification (scalar_defined) is checked '
    'by running every in-domain integer request under UBSan',
    'SIMDe AVX-512 sanitizer build of the integer harness: -fno-sanitize=signed-integer-overflow, because SIMDe itself emulates the 512-bit '
    'integer adds / subs / mullos with + - * on signed vector types (reports come from /usr/include/simde/x86/avx512/*.h, not from nmtools)',
    'not provided by the library, not run: multiply on 8-bit (x86 SSE, x86 AVX, SIMDe) and 64-bit (x86 SSE, x86 AVX) element types '
    '(simd_op_t::mul has no branch and returns void: the call does not compile; the harness answers unsupported), unary ufuncs on '
    'integer element types (static_assert floating point in eval_unary), integer matmul in the x86 AVX and SIMDe contexts '
    '(simd_op_t::fmadd only has _ps / _pd branches) and for widths without mul',
    'the output of the evaluators is the row-major ndarray_t the default resolver produces (observed on every case; modelled as such)',
    'size_t arithmetic does not wrap (element counts far below 2^64 in every case run)',
    'SIMDe AVX-512: hardshrink/softshrink/hardswish and double matmul do not compile against the installed SIMDe (missing '
    'simde_kxor_mask*, simd_op_t<simde_avx512_t,double>::fmadd uses the float intrinsic): not provided, not run',
    'model and theorems follow the tree repaired by fixes/C12-*.diff (identity in the one-element reduction, negative axis '
    'normalised, (1,1) broadcast operand read at 0, scalar-evaluator fallback for column-major operands and identity-less ops); '
    'the matmul part of the column-major fallback is ineffective in the tree (model mirrors that: matmulLhsFallbackEffective = false)',
    'matmul: exact arithmetic (fma x y z = x*y + z over a commutative monoid) is a hypothesis of simdMatmul_eq_scalar; integer-valued '
    'data makes it true in the structural cases, value cases are compared within a tolerance',
]
PARTIAL = [
    'matmul: simdMatmul_eq_laneSums states the exact order/association of eval_matmul (N lane-strided fma chains over the zero-padded '
    'row/column, then a left-to-right horizontal sum) with no algebraic law; simdMatmul_eq_scalar identifies it with the sum of the K '
    'products only in exact arithmetic (commutative monoid, fma x y z = x*y + z): the single rounding of a hardware fmadd and the '
    're-association in floating point are outside the model (checked within a tolerance by the differential run)',
    'matmul with a column-major lhs: operator() falls back to the scalar evaluator since fix commit 8eebbc3 (simdEvalMatmul_repaired_eq_scalar, instance simdEvalMatmul_colMajorLhs_regression; before it the layout test was dead code)',
    'NaN / -0.0 through the min/max-built activations relu6, hardtanh, softshrink are outside the lane-wise hypothesis: open known finding '
    'elementwise.special-values',
]
MANIFEST = dict(
    text='Proof: 68 Lean theorems over all element counts / row lengths / ranks and all lane counts > 0: closed form of the packed loop, every '
         'packed access inside its buffer, packed chunks + tail partition [0,n); SIMD unary / same-shape binary = scalar evaluator for '
         'operands of either layout (column-major operands take the scalar path); 2-d broadcasting binary: every output cell written '
         'exactly once, operand offsets = NumPy broadcasting (incl. (1,1) operands), offsets in bounds, evaluator = NumPy broadcasting; '
         'full reduction = left fold over a commutative monoid from the identity of the op; reduction over ANY axis of an n-d operand '
         '(either layout, op with or without identity, axis written k or k-dim, keepdims on or off) = the cell-wise scalar reference '
         '(simdReduceAxis_eq_scalar / simdReduceAxisK_eq_scalar): horizontal with identity padding for the last axis, vertical = row '
         'accumulation = column fold identified with the n-d reference through the mixed-radix decomposition of ndindex for the others; '
         'outer: every output cell written once, lhs/rhs offsets of every lane = outer-product operands (all three rank branches), '
         'evaluator = scalar outer product for operands of any rank and either layout; matmul: inner steps read each lhs row / rhs column '
         'once, evaluator = explicit lane-strided fma association (no law) = sum of the K products in exact arithmetic, operator() with an '
         'effective lhs-layout test = n-d reference, counterexample for the dead test of the unchanged tree. '
         'Integer element types (int8 .. uint64): lanes are bit vectors, the packed add / sub / mullo is the modular lane operation '
         '(the one assumption), and it is PROVED that read as intN_t or uintN_t the lane result is the exact result wrapped into the '
         'type (NumPy arithmetic; wrap = the unique representable value congruent mod 2^w), that the scalar functor static_cast<T>(t op u) '
         'with integral promotion is the same function wherever C++ defines it (defined for all operands of 8/16-bit add/sub, 8-bit and '
         'int16 multiply, unsigned 32/64-bit; counterexamples uint16*uint16 and int32 overflow), hence SIMD = scalar evaluator for integer '
         'binary / broadcast / outer with no lane-wise hypothesis left, and integer add / multiply reductions over any axis are EXACT '
         '(modular + and * are commutative monoids), integer matmul (fmadd = mullo + add) is exactly the modular sum of products; saturating instructions are shown not to be lane-wise. '
         'Floating-point unary lanes: the vector-extension wrappers are a loop over the lanes applying the builtin selected from the element type; '
         'a lane loop is lane-wise for the scalar functor IFF its lane function is that functor on every value (packLanes_laneWise_iff), the own-precision '
         'selection (float -> ceilf, double -> ceil) is, double lanes through the single-precision builtin are iff narrowing is invisible on every double '
         '(fixed-point witness vecExtCeil_narrowed_not_laneWise), hence vector-extension unary = scalar evaluator with no lane-wise hypothesis; the same lane '
         'model at Float / Float32 answers the precision-sensitive ceil / floor / sqrt requests of every context bit for bit. '
         'Intrinsic wrappers are an explicit lane-wise hypothesis. Tied to the C++ by a differential run of array::fn(args, ctx) for six '
         'SIMD contexts x float/double and x eight integer types (boundary values of every type) against array::fn(args) in the same binary, the Lean model and NumPy, plus the pure enumerators '
         'tuple by tuple and an ASan run.',
    note='Lean kernel + propext/Classical.choice/Quot.sound; model hand-written, fidelity rests on the correspondence run; lane-wise '
         'behaviour of the intrinsics is a hypothesis measured bitwise on this CPU only; matmul = sum of products holds in exact '
         'arithmetic only (fmadd rounding outside the model); five defects found by this check were repaired in the source '
         '(fixes/C12-*.diff); two known findings stay open (NaN/-0.0 in min/max-built activations; SIMD matmul ignores a column-major '
         'lhs, repair in fixes/C12-matmul-lhs-layout-fallback.diff); open: the register type of the vector-extension contexts is 8/sizeof(T) '
         'times too wide and its extra lanes are never initialised (UBSan aborts on int8/16/32; values unaffected), repair in '
         'fixes/C12-vector-extension-width.diff; open: vector-extension lanes compute int8/int16 in the narrow signed type (wrap = signed '
         'overflow, UB in the SIMD path only; values agree), repair in fixes/C12-vector-extension-signed-lanes.diff.',
    technique='Lean 4 induction proofs over element counts / lane counts + hardware differential (SIMD vs scalar evaluator, ASan)')


def lanes_of(ctx, dt):
    return CTXS[ctx]['bits'] // (8 * DTYPES[dt][1])


def hname(ctx, san=False):
    return 'h_c12_%s%s' % (ctx, '_san' if san else '')


# without AVX-512 hardware flags SIMDe emulates _mm512_add_epi16 & co. by `+` on its own SIGNED vector types
# (/usr/include/simde/x86/avx512/add.h:350 "signed integer overflow: 255 + 32766 cannot be represented in type 'short int'"):
# third-party code, not nmtools; the rest of UBSan and ASan stay on for that build
INT_SAN_EXTRA = {'simde512': ['-fno-sanitize=signed-integer-overflow']}


def ihname(ctx, san=False):
    return 'h_c12i_%s%s' % (ctx, '_san' if san else '')


def harness_specs(tier):
    specs = []
    fb = ['-DC12_MATMUL_LHS_FALLBACK'] if MATMUL_LHS_FALLBACK_REPAIRED else []
    for c, d in CTXS.items():
        specs.append(dict(name=hname(c), src=d['src'], flavour='fast', extra=d['extra'] + fb))
    for c in SAN_CTXS[tier]:
        specs.append(dict(name=hname(c, True), src=CTXS[c]['src'], flavour='san', extra=CTXS[c]['extra'] + fb))
    specs.append(dict(name='h_c12_enum', src='h_c12_enum.cpp', flavour='fast'))
    # integer element types: one TU per context (h_c12i_<ctx>.cpp), same flags; sanitizer builds as for the float TUs
    for c, d in CTXS.items():
        specs.append(dict(name=ihname(c), src='h_c12i_%s.cpp' % c, flavour='fast', extra=d['extra']))
    for c in SAN_CTXS[tier]:
        specs.append(dict(name=ihname(c, True), src='h_c12i_%s.cpp' % c, flavour='san', extra=CTXS[c]['extra'] + INT_SAN_EXTRA.get(c, [])))
    return specs


# ------------------------------------------------------------------------------------------------
# formatting
# ------------------------------------------------------------------------------------------------

def fnum(x):
    x = float(x)
    if x == int(x) and not (x == 0 and np.signbit(x)) and abs(x) < 1e15:
        return str(int(x))
    return repr(x)


def fdata(xs):
    return ','.join(fnum(x) for x in xs)


def hexbits(arr, dt):
    t = DTYPES[dt][0]
    a = np.asarray(arr, dtype=t).ravel()
    if dt == 'f32':
        return ','.join('%08x' % int(v) for v in a.view(np.uint32))
    return ','.join('%016x' % int(v) for v in a.view(np.uint64))


def ints_str(arr):
    return ','.join(str(int(v)) for v in np.asarray(arr).ravel())


def logical(data, shape, layout, dt):
    """logical array of a buffer filled in buffer order"""
    return np.asarray(data, dtype=DTYPES[dt][0]).reshape(shape, order='F' if layout == 'col' else 'C')


def layout_matters(shape):
    return sum(1 for e in shape if e > 1) >= 2


# ------------------------------------------------------------------------------------------------
# reference semantics (NumPy)
# ------------------------------------------------------------------------------------------------

def unary_ref(op, x):
    if op in ('floor',):
        return np.floor(x)
    if op == 'ceil':
        return np.ceil(x)
    if op == 'sqrt':
        return np.sqrt(x)
    if op == 'relu':
        return np.where(x > 0, x, x.dtype.type(0))
    if op == 'relu6':
        return np.where(x < 0, x.dtype.type(0), np.where(x > 6, x.dtype.type(6), x))
    raise KeyError(op)


# ------------------------------------------------------------------------------------------------
# generators
# ------------------------------------------------------------------------------------------------

def shapes_for(L, tier, rng):
    """1-d: every element count 1..4L+1; a few 2-d / 3-d shapes around the lane count"""
    out = [[n] for n in range(1, 4 * L + 2)]
    nd = [[2, L], [3, L + 1], [L + 1, 3], [2, 2, L - 1], [1, 2 * L + 1], [L, 1], [2, 3, 2]]
    if tier == 'thorough':
        nd += [[r, c] for r in (1, 2, 3) for c in range(1, 2 * L + 2)]
    for _ in range(3 if tier == 'quick' else 20):
        r = rng.randint(2, 4)
        nd.append([rng.randint(1, 5) for _ in range(r)])
    return out + nd


def vdata(dt, n, rng, nonzero=False):
    """value data of the random element-wise cases: eighth-valued numbers in [-8,8] mixed (one in three) with the
    precision-sensitive values of the dtype (prec_pool)"""
    pool = prec_pool(dt)
    out = []
    for _ in range(n):
        v = (rng.randint(1, 64) / 8.0) * rng.choice([-1, 1]) if nonzero else rng.randint(-64, 64) / 8.0
        if rng.randrange(3) == 0:
            v = pool[rng.randrange(len(pool))]
        out.append(v)
    return out


def gen_unary(ctx, tier, rng):
    h = hname(ctx)
    for dt in DTYPES:
        L = lanes_of(ctx, dt)
        for si, shape in enumerate(shapes_for(L, tier, rng)):
            n = prod(shape)
            nt = n >= L
            layouts = ['row'] if len(shape) == 1 else ['row', 'col']
            for layout in layouts:
                # structural: integer provenance data 1..n (negatives for relu), three-way with the Lean model
                op = UNARY_MODEL_OPS[(si + len(layout)) % len(UNARY_MODEL_OPS)]
                data = list(range(1, n + 1))
                if op in ('relu', 'relu6'):
                    data = [v if (v % 3) else -v for v in data]
                x = logical(data, shape, layout, dt)
                exp = 'ok shape=%s val=%s' % (fmt(shape), ints_str(unary_ref(op, x)))
                req = 'unary dtype=%s op=%s lanes=%d shape=%s layout=%s fmt=int show=1 data=%s' % (dt, op, L, fmt(shape), layout, fdata(data))
                yield Case(req, h, dom=True, oracle=exp, nontrivial=nt,
                           tags=['unary', 'ctx=' + ctx, dt, 'layout=' + layout, 'model', 'n<lanes' if n < L else ('n%lanes=0' if n % L == 0 else 'n%lanes!=0')])
            # values: every op, eighth-valued data, bitwise against the scalar evaluator (and NumPy where IEEE-exact)
            ops = UNARY_ALL_OPS if (tier == 'thorough' or len(shape) > 1 or n in (1, L - 1, L, L + 1, 2 * L + 1, 4 * L + 1)) else [UNARY_ALL_OPS[si % len(UNARY_ALL_OPS)], 'sqrt']
            for op in ops:
                if ctx in NO_MASKOPS and op in ('hardshrink', 'softshrink', 'hardswish'):
                    continue
                data = vdata(dt, n, rng)
                if op == 'sqrt':
                    data = [abs(v) for v in data]
                if op in UNARY_NUMPY_OPS:
                    x = logical(data, shape, 'row', dt)
                    with np.errstate(all='ignore'):
                        exp = 'ok shape=%s val=%s' % (fmt(shape), hexbits(unary_ref(op, x), dt))
                    req = 'unary dtype=%s op=%s lanes=%d shape=%s layout=row fmt=hex show=1 data=%s' % (dt, op, L, fmt(shape), fdata(data))
                else:
                    exp = 'ok shape=%s agree' % fmt(shape)
                    req = 'unary dtype=%s op=%s lanes=%d shape=%s layout=row fmt=hex show=0 data=%s' % (dt, op, L, fmt(shape), fdata(data))
                yield Case(req, h, dom=True, oracle=exp, model=False, nontrivial=nt, tags=['unary', 'ctx=' + ctx, dt, 'values', 'op=' + op])


BIN_NP = {'add': np.add, 'subtract': np.subtract, 'multiply': np.multiply, 'divide': np.divide}
MODEL_BIN_OPS = ['add', 'subtract', 'multiply']


def int_operands(op, nl, nr, rng):
    """integer data, exact in float32, revealing which element was read (add: lhs id + 1000*rhs id)"""
    if op == 'multiply':
        return [k % 13 + 2 for k in range(nl)], [(k * 7) % 11 + 1 for k in range(nr)]
    if op == 'subtract':
        return [3 * (k + 1) for k in range(nl)], [1000 * (k + 1) for k in range(nr)]
    return [k + 1 for k in range(nl)], [1000 * (k + 1) for k in range(nr)]


def bcast_ok(ls, rs):
    if len(ls) != len(rs):
        return False
    return all(a == b or a == 1 or b == 1 for a, b in zip(ls, rs))


def binary_case(ctx, dt, L, op, ls, rs, ll, rl, ldata, rdata, as_int, tags, model=True, dom=None, h=None):
    x = logical(ldata, ls, ll, dt)
    y = logical(rdata, rs, rl, dt)
    with np.errstate(all='ignore'):
        z = BIN_NP[op](x, y)
    oshape = list(z.shape)
    vals = ints_str(z) if as_int else hexbits(z, dt)
    exp = 'ok shape=%s val=%s' % (fmt(oshape), vals)
    req = 'binary dtype=%s op=%s lanes=%d lshape=%s llayout=%s rshape=%s rlayout=%s fmt=%s show=1 ldata=%s rdata=%s' % (
        dt, op, L, fmt(ls), ll, fmt(rs), rl, 'int' if as_int else 'hex', fdata(ldata), fdata(rdata))
    if dom is None:
        dom = True
    return Case(req, h or hname(ctx), dom=dom, oracle=exp, model=model, nontrivial=(prod(oshape) >= L),
                tags=['binary', 'ctx=' + ctx, dt, 'op=' + op] + tags)


def bcast_patterns(R, C):
    full, row, col, one = [R, C], [1, C], [R, 1], [1, 1]
    pats = [(full, row), (row, full), (full, col), (col, full), (col, row), (row, col), (full, one), (one, full),
            (col, one), (one, col), (row, one), (one, row)]
    seen, out = set(), []
    for l, r in pats:
        k = (tuple(l), tuple(r))
        if k not in seen:
            seen.add(k); out.append((l, r))
    return out


SPECIALS = ['-0.0', '0', 'nan', 'inf', '-inf', '1e-40', '-1e-40', '3', '-3', '6', '0.5', '-0.5', '1', '-1']


def gen_unary_special(ctx, tier, rng):
    """-0.0, NaN, infinities, denormals and the activation thresholds, in packed and in tail positions"""
    for dt in DTYPES:
        L = lanes_of(ctx, dt)
        n = 2 * L + 3
        for op in UNARY_ALL_OPS:
            if ctx in NO_MASKOPS and op in ('hardshrink', 'softshrink', 'hardswish'):
                continue
            data = [SPECIALS[(k * 5 + 2) % len(SPECIALS)] for k in range(n)]
            if op == 'sqrt':
                data = [d.lstrip('-') if d not in ('-0.0',) else d for d in data]
            req = 'unary dtype=%s op=%s lanes=%d shape=%d layout=row fmt=hex show=0 data=%s' % (dt, op, L, n, ','.join(data))
            yield Case(req, hname(ctx), dom=False, oracle='ok shape=%d agree' % n, model=False,
                       tags=['unary', 'ctx=' + ctx, dt, 'special-values', 'op=' + op])


# ------------------------------------------------------------------------------------------------
# precision-sensitive values (element-wise kinds): data on which an operation carried out at another precision than
# the element type's (a double lane narrowed to float, a float lane widened to double and rounded twice, an
# approximate reciprocal / rsqrt instruction, a fused or re-ordered formula) gives different bits
# ------------------------------------------------------------------------------------------------

_PREC = {}


def prec_pool(dt):
    """finite, non-zero values of the dtype (as Python floats, exactly representable in the dtype):
    * integers and activation thresholds (0.5, 1, 3, 6) with their neighbours at 1 ulp of the dtype,
    * halves x.5 with their neighbours at 1 ulp (ties of ceil / floor / round),
    * magnitudes around 2^(p-2) .. 2^p, p = precision of the dtype (8388607.5, 16777216 for float; 2^52, 2^53 for double),
    * for double: values that are NOT floats in a way that matters (2.0000000001, 16777217, 1e10+0.5, 30*0.1 ...),
    * non-terminating fractions (0.1, 1/3), and large / small magnitudes short of overflow / underflow, smallest
      normal and subnormal numbers"""
    if dt in _PREC:
        return _PREC[dt]
    t = DTYPES[dt][0]
    p = 24 if dt == 'f32' else 53
    fi = np.finfo(t)
    up, dn = t(np.inf), t(-np.inf)
    out = []

    def add(v):
        v = t(v)
        assert np.isfinite(v) and v != 0
        f = float(v)
        if f not in out:
            out.append(f)

    def around(v):
        v = t(v)
        add(np.nextafter(v, dn)); add(v); add(np.nextafter(v, up))

    with np.errstate(all='ignore'):
        for k in (0.5, 1, 2, 3, 6, 17, 255):
            around(k); around(-k)
        for k in (1.5, 2.5, 1000.5, 2.0 ** (p - 2) + 0.5):
            around(k); around(-k)
        for e in (p - 1, p):
            for d in (-1, 0, 1):
                add(2.0 ** e + d * (1 if e == p - 1 else 2)); add(-(2.0 ** e + d * (1 if e == p - 1 else 2)))
        add(2.0 ** (p - 1) - 0.5); add(-(2.0 ** (p - 1) - 0.5)); add(2.0 ** p - 1); add(-(2.0 ** p - 1))
        if dt == 'f64':
            for v in (2.0000000001, -1.9999999999, 30 * 0.1, -30 * 0.1, 16777217.0, -16777217.0, 1e10 + 0.5, -1e10 - 0.5,
                      123456789.125, 33554433.0, 8388608.5, -8388607.75, 4294967296.5, 0.5000000001, -0.4999999999,
                      5.9999999999, 6.0000000001, -3.0000000001, 2.9999999999, 1.0000000001, -1.0000000001,
                      3.4028235677973366e+38, -3.4028235677973366e+38, 1e39, -1e39, 1e-39, -1e-46, 1.5e-320):
                add(v)
        else:
            for v in (8388609.0, -8388609.0, 16777215.0, 33554436.0, 1e10, -1e10):
                add(v)
        for v in (0.1, -0.1, 1 / 3.0, -2 / 3.0, 0.7, 1e-3, 123.456, -9876.54321):
            add(v)
        big, tiny = float(fi.max), float(fi.tiny)
        for v in (big, -big, big / 2, -big / 2, float(np.nextafter(t(big / 2), up)), float(np.sqrt(t(big))), -float(np.sqrt(t(big))) * 0.75,
                  1e30, -1e30, tiny, -tiny, tiny * 1.5, float(np.nextafter(t(tiny), t(0))), float(np.nextafter(t(0), up)),
                  -float(np.nextafter(t(0), up)) * 5, 1e-30, -1e-30, 2.0 ** -p, float(np.nextafter(t(2.0 ** -p), up)), -(2.0 ** -p), 2.0 ** (1 - p)):
            add(v)
    _PREC[dt] = out
    return out


def prec_unary_ref(op, x):
    """NumPy statement of every unary op at the element type's own precision: each is a fixed sequence of IEEE-exact
    operations (comparison, selection, one or a few correctly rounded + - * / sqrt) in the dtype of x; the parameters are
    those of the harness (hardtanh -1..1, leaky_relu 0.01f, prelu 0.25f, softshrink / hardshrink 0.5f)"""
    t = x.dtype.type
    with np.errstate(all='ignore'):
        if op in ('floor', 'ceil', 'sqrt', 'relu', 'relu6'):
            z = unary_ref(op, x)
        elif op == 'hardtanh':
            z = np.where(x < t(-1), t(-1), np.where(x > t(1), t(1), x))
        elif op == 'hardshrink':
            z = np.where((x >= t(-0.5)) & (x <= t(0.5)), t(0), x)
        elif op == 'softshrink':
            z = np.where(x > t(0.5), x - t(0.5), np.where(x < t(-0.5), x + t(0.5), t(0)))
        elif op == 'softsign':
            z = x / (t(1) + np.abs(x))
        elif op == 'hardswish':
            z = np.where(x < t(-3), t(0), np.where(x >= t(3), x, x * (x + t(3)) / t(6)))
        elif op == 'leaky_relu':
            z = np.where(x >= t(0), x, t(np.float32(0.01)) * x)
        elif op == 'prelu':
            z = np.where(x >= t(0), x, t(np.float32(0.25)) * x)
        else:
            raise KeyError(op)
    z = np.asarray(z)
    assert z.dtype == x.dtype, (op, z.dtype)
    return z


LANE_MODEL_OPS = ('ceil', 'floor', 'sqrt')      # ops whose lane the Lean model evaluates at native precision (driver: c12.funary)


def prec_unary_case(ctx, dt, L, op, data, tags):
    n = len(data)
    x = logical(data, [n], 'row', dt)
    exp = 'ok shape=%d val=%s' % (n, hexbits(prec_unary_ref(op, x), dt))
    req = 'unary dtype=%s op=%s lanes=%d shape=%d layout=row fmt=hex show=1 data=%s' % (dt, op, L, n, fdata(data))
    kw = dict(model=False)
    if op in LANE_MODEL_OPS:
        # MODEL: Simd.simdEvalUnary over Simd.vecExtUnaryD / vecExtUnaryF (Simd/FloatLanes.lean) at Float / Float32 with the
        # builtin selected as the unchanged tree does (usef = element type is float); operand sent as bit patterns
        bits = x.view(np.uint32 if dt == 'f32' else np.uint64).ravel().tolist()
        kw = dict(model=True, mreq='c12.funary dtype=%s op=%s lanes=%d usef=%d bits=%s' % (dt, op, L, 1 if dt == 'f32' else 0,
                                                                                       ','.join(str(int(v)) for v in bits)))
    return Case(req, hname(ctx), dom=True, oracle=exp, nontrivial=(n >= L),
                tags=['unary', 'ctx=' + ctx, dt, 'values', 'precision', 'op=' + op] + tags + (['lane-model'] if op in LANE_MODEL_OPS else []), **kw)


def pad_to(m, L):
    return ((m + L - 1) // L) * L


def gen_unary_precision(ctx, tier, rng):
    """every unary op x every precision-sensitive value of the dtype, in a PACKED position (all values, padded to whole
    registers, twice with different register alignment) and in a TAIL position (a full register followed by lanes-1 values:
    every value once), answered three ways: SIMD evaluator, scalar evaluator (MISMATCH), NumPy in the dtype (bitwise)"""
    for dt in DTYPES:
        L = lanes_of(ctx, dt)
        pool = prec_pool(dt)
        for op in UNARY_ALL_OPS:
            if ctx in NO_MASKOPS and op in ('hardshrink', 'softshrink', 'hardswish'):
                continue
            vals = pool
            if op == 'sqrt':
                vals = []
                for v in pool:
                    if abs(v) not in vals:
                        vals.append(abs(v))
            m = len(vals)
            n = pad_to(m, L) + L - 1
            for rot in (0, L // 2 + 1):
                yield prec_unary_case(ctx, dt, L, op, take_cyc(vals, rot, n), ['packed'])
            step = max(1, L - 1)
            for s in range(0, m, step):
                yield prec_unary_case(ctx, dt, L, op, take_cyc(vals, s + 29, L) + vals[s:s + step], ['tail'])


def prec_pairs(dt, op):
    """operand pairs on which the rounding of ONE operation in the dtype is visible: ties and near-ties of the sum
    (1 + 2^-p, 2^p + 1), products and quotients that need every bit, results that just overflow / underflow or just do
    not, and every pool value against three other pool values (neighbour, far, itself)"""
    k = (dt, op)
    if k in _PREC:
        return _PREC[k]
    t = DTYPES[dt][0]
    p = 24 if dt == 'f32' else 53
    pool = prec_pool(dt)
    m = len(pool)
    u = 2.0 ** -p
    big, tiny = float(np.finfo(t).max), float(np.finfo(t).tiny)
    nu = lambda v: float(np.nextafter(t(v), t(np.inf)))
    nd = lambda v: float(np.nextafter(t(v), t(-np.inf)))
    ps = []
    if op in ('add', 'subtract'):
        ps += [(1.0, u), (1.0, nu(u)), (nu(1.0), u), (1.0, -u / 2), (1.0, nd(-u / 2)), (2.0 ** p, 1.0), (2.0 ** p, 3.0), (2.0 ** p + 2, 1.0),
               (-2.0 ** p, -1.0), (2.0 ** p, -1.0), (0.1, 0.2), (big, big * u / 2), (big, nu(big * u / 2)), (big / 2, big / 2), (big / 2, nu(big / 2)),
               (tiny, -nd(tiny)), (1e10 + 0.5 if dt == 'f64' else 1024.5, 0.25), (16777216.0, 1.0), (16777217.0 if dt == 'f64' else 16777218.0, -0.5)]
    elif op == 'multiply':
        r = float(np.sqrt(t(big)))
        ps += [(nu(1.0), nu(1.0)), (nu(1.0), nd(1.0)), (3.0, float(t(1 / 3.0))), (0.1, 10.0), (0.1, 0.1), (r, r), (r, nd(r)), (nd(r), nd(r)),
               (big / 2, 2.0), (big / 2, nu(2.0)), (big, nd(1.0)), (tiny, 0.5), (tiny, nd(1.0)), (tiny, tiny), (nu(tiny), 0.75), (1e-3, 1e3),
               (16777217.0 if dt == 'f64' else 4097.0, 16777217.0 if dt == 'f64' else 4097.0), (-7.0, float(t(1 / 7.0)))]
    else:
        ps += [(1.0, 3.0), (2.0, 3.0), (1.0, 10.0), (-1.0, 7.0), (nu(1.0), nd(1.0)), (nd(1.0), nu(1.0)), (big, 0.5), (big, nu(1.0)), (big, nd(1.0)),
               (tiny, 2.0), (tiny, nu(1.0)), (1.0, big), (1.0, tiny), (1.0, nd(tiny)), (1.0, 2.0 ** (p - 1) + 1), (22.0, 7.0), (355.0, 113.0),
               (16777217.0 if dt == 'f64' else 8388609.0, 3.0)]
    for i in range(m):
        for j in ((i + 1) % m, (3 * i + 7) % m, i):
            ps.append((pool[i], pool[j]))
    ps = [(float(t(a)), float(t(b))) for a, b in ps]
    assert all(a != 0 and b != 0 and np.isfinite(a) and np.isfinite(b) for a, b in ps)
    _PREC[k] = ps
    return ps


def gen_binary_precision(ctx, tier, rng):
    """add / subtract / multiply / divide on the precision-sensitive operand pairs: same shape (every pair packed, twice
    with different alignment; every pair once in a tail position), 2-d broadcasting (one operand through set1) and outer
    (add / subtract / multiply), answered by the SIMD evaluator, the scalar evaluator (MISMATCH) and NumPy (bitwise)"""
    for dt in DTYPES:
        L = lanes_of(ctx, dt)
        pool = prec_pool(dt)
        for op in ('add', 'subtract', 'multiply', 'divide'):
            pairs = prec_pairs(dt, op)
            m = len(pairs)
            n = pad_to(m, L) + L - 1
            for rot in (0, L // 2 + 1):
                ps = take_cyc(pairs, rot, n)
                yield binary_case(ctx, dt, L, op, [n], [n], 'row', 'row', [q[0] for q in ps], [q[1] for q in ps], False,
                                  ['same-shape', 'values', 'precision', 'packed'], model=False)
            step = max(1, L - 1)
            for s in range(0, m, step):
                # a full register + lanes-1 tail elements: every pair once in the scalar leftover loop
                ps = take_cyc(pairs, s + 31, L) + pairs[s:s + step]
                yield binary_case(ctx, dt, L, op, [len(ps)], [len(ps)], 'row', 'row', [q[0] for q in ps], [q[1] for q in ps], False,
                                  ['same-shape', 'values', 'precision', 'tail'], model=False)
            # broadcasting: the (R,1) / (1,1) operand goes through set1, the (1,C) one is re-read per row
            C = 2 * L + 1
            sel = take_cyc(pool, 5 + len(op), 3)
            row = take_cyc(pool, 11, C)
            full = take_cyc(pool, 3, 3 * C)
            for ls, rs, ld, rd in (([3, C], [3, 1], full, sel), ([3, 1], [1, C], sel, row), ([1, C], [3, C], row, full), ([3, C], [1, 1], full, sel[:1]),
                                   ([1, 1], [3, C], sel[1:2], full)):
                yield binary_case(ctx, dt, L, op, ls, rs, 'row', 'row', ld, rd, False, ['bcast2d', 'values', 'precision'], model=False)
            if op != 'divide':
                lsel = take_cyc(pool, 2 + 7 * len(op), 5)
                nr = pad_to(len(pool), L) + L - 1
                yield outer_case(ctx, dt, L, op, [5], [nr], 'row', 'row', lsel, take_cyc(pool, 1, nr), False, ['values', 'precision'], model=False)


def gen_binary(ctx, tier, rng):
    for dt in DTYPES:
        L = lanes_of(ctx, dt)
        # same shape, every element count
        for n in range(1, 4 * L + 2):
            op = MODEL_BIN_OPS[n % 3] if n % 4 == 0 else 'add'
            ld, rd = int_operands(op, n, n, rng)
            yield binary_case(ctx, dt, L, op, [n], [n], 'row', 'row', ld, rd, True, ['same-shape', 'model'])
            vop = ['add', 'subtract', 'multiply', 'divide'][n % 4]
            ld = vdata(dt, n, rng)
            rd = vdata(dt, n, rng, nonzero=True)
            yield binary_case(ctx, dt, L, vop, [n], [n], 'row', 'row', ld, rd, False, ['same-shape', 'values'], model=False)
        for shape in ([2, L + 1], [3, 2, L - 1]):
            for ll, rl in (('row', 'row'), ('col', 'col'), ('row', 'col')):
                ld, rd = int_operands('add', prod(shape), prod(shape), rng)
                yield binary_case(ctx, dt, L, 'add', shape, shape, ll, rl, ld, rd, True, ['same-shape', 'model', 'layout=%s/%s' % (ll, rl)])
        # 2-d broadcasting, every pattern
        Cs = sorted(set([1, 2, L - 1, L, L + 1, 2 * L + 1] if tier == 'quick' else list(range(1, 2 * L + 2)) + [4 * L + 1]))
        Rs = [1, 2, 3] if tier == 'quick' else [1, 2, 3, 5]
        k = 0
        for R in Rs:
            for C in Cs:
                for ls, rs in bcast_patterns(R, C):
                    k += 1
                    op = MODEL_BIN_OPS[k % 3] if k % 5 == 0 else 'add'
                    ld, rd = int_operands(op, prod(ls), prod(rs), rng)
                    tag = 'same-shape' if ls == rs else 'bcast2d'
                    yield binary_case(ctx, dt, L, op, ls, rs, 'row', 'row', ld, rd, True, [tag, 'model'])
                    if k % 3 == 0:
                        vop = ['add', 'subtract', 'multiply', 'divide'][(k // 3) % 4]
                        ld = vdata(dt, prod(ls), rng)
                        rd = vdata(dt, prod(rs), rng, nonzero=True)
                        yield binary_case(ctx, dt, L, vop, ls, rs, 'row', 'row', ld, rd, False, [tag, 'values'], model=False)
                    if k % 7 == 0 and layout_matters(ls):
                        ld, rd = int_operands('add', prod(ls), prod(rs), rng)
                        yield binary_case(ctx, dt, L, 'add', ls, rs, 'col', 'row', ld, rd, True, [tag, 'model', 'layout=col/row'])


def outer_case(ctx, dt, L, op, ls, rs, ll, rl, ldata, rdata, as_int, tags, model=True):
    x = logical(ldata, ls, ll, dt)
    y = logical(rdata, rs, rl, dt)
    with np.errstate(all='ignore'):
        z = BIN_NP[op].outer(x, y)
    exp = 'ok shape=%s val=%s' % (fmt(ls + rs), ints_str(z) if as_int else hexbits(z, dt))
    req = 'outer dtype=%s op=%s lanes=%d lshape=%s llayout=%s rshape=%s rlayout=%s fmt=%s show=1 ldata=%s rdata=%s' % (
        dt, op, L, fmt(ls), ll, fmt(rs), rl, 'int' if as_int else 'hex', fdata(ldata), fdata(rdata))
    return Case(req, hname(ctx), dom=True, oracle=exp, model=model, nontrivial=(rs[-1] >= L),
                tags=['outer', 'ctx=' + ctx, dt, 'op=' + op, 'dims=%d,%d' % (len(ls), len(rs))] + tags)


def gen_outer(ctx, tier, rng):
    for dt in DTYPES:
        L = lanes_of(ctx, dt)
        pairs = [([m], [n]) for m in (1, 3) for n in range(1, (2 if tier == 'quick' else 4) * L + 2)]
        lasts = [1, L - 1, L, L + 1, 2 * L + 1]
        pairs += [([2, 2], [c]) for c in lasts] + [([2], [2, c]) for c in lasts] + [([2, 3], [2, c]) for c in lasts]
        pairs += [([2, 1, 2], [c]) for c in lasts] + [([2], [2, 1, c]) for c in lasts] + [([1, 2, 2], [2, 1, c]) for c in lasts]
        pairs += [([2, 3], [2, 2, c]) for c in lasts]
        for k, (ls, rs) in enumerate(pairs):
            op = MODEL_BIN_OPS[k % 3] if k % 4 == 0 else 'add'
            ld, rd = int_operands(op, prod(ls), prod(rs), rng)
            yield outer_case(ctx, dt, L, op, ls, rs, 'row', 'row', ld, rd, True, ['model'])
            if k % 4 == 1:
                vop = ['add', 'subtract', 'multiply'][(k // 4) % 3]
                ld = vdata(dt, prod(ls), rng)
                rd = vdata(dt, prod(rs), rng)
                yield outer_case(ctx, dt, L, vop, ls, rs, 'row', 'row', ld, rd, False, ['values'], model=False)
            if k % 9 == 2 and (layout_matters(ls) or layout_matters(rs)):
                ld, rd = int_operands('add', prod(ls), prod(rs), rng)
                yield outer_case(ctx, dt, L, 'add', ls, rs, 'col' if layout_matters(ls) else 'row', 'col' if layout_matters(rs) else 'row', ld, rd, True, ['model', 'layout=col'])


RED_NP = {'add': np.add, 'multiply': np.multiply, 'subtract': np.subtract}


def reduce_data(op, n, rng):
    if op == 'multiply':
        d = [1] * n
        for _ in range(min(n, 9)):
            d[rng.randrange(n)] = rng.choice([2, 3])
        return d
    d = list(range(1, n + 1))
    rng.shuffle(d)
    return d


def reduce_case(ctx, dt, L, op, shape, layout, axis, keep, data, tags, as_int=True, model=True, tol=None, h=None):
    x = logical(data, shape, layout, dt)
    if as_int:
        xr = x.astype(np.float64)
        z = RED_NP[op].reduce(xr, axis=axis, keepdims=bool(keep))
        oshape = 'num' if (axis is None and not keep) else fmt(list(np.shape(z)))
        exp = 'ok shape=%s val=%s' % (oshape, ints_str(z))
        extra = 'fmt=int show=1 tolabs=0'
    else:
        z = RED_NP[op].reduce(x.astype(np.float64), axis=axis, keepdims=bool(keep))
        oshape = 'num' if (axis is None and not keep) else fmt(list(np.shape(z)))
        exp = 'ok shape=%s agree' % oshape
        extra = 'fmt=hex show=0 tolabs=%s tolrel=%s' % (repr(float(tol[0])), repr(float(tol[1])))
    req = 'reduce dtype=%s op=%s lanes=%d shape=%s layout=%s axis=%s keepdims=%d %s data=%s' % (
        dt, op, L, fmt(shape), layout, 'None' if axis is None else str(axis), keep, extra, fdata(data))
    c = Case(req, h or hname(ctx), dom=True, oracle=exp, model=model, nontrivial=(prod(shape) >= L),
             tags=['reduce', 'ctx=' + ctx, dt, 'op=' + op, 'axis=' + ('None' if axis is None else ('neg' if axis < 0 else 'k')), 'keepdims=%d' % keep] + tags)
    return c


def reduce_shapes(L, tier):
    one = [[n] for n in range(1, 4 * L + 2)]
    Cs = [1, 2, L - 1, L, L + 1, 2 * L + 1]
    two = [[r, c] for r in (1, 2, 3, 5) for c in Cs]
    nd = [[2, 3, L + 1], [2, L, 3], [L + 1, 2, 2], [2, 1, 3, L - 1], [2, 2, 2, 3], [1, 3, 1]]
    if tier == 'thorough':
        two += [[r, c] for r in (4, L, 2 * L + 1) for c in range(1, 2 * L + 2)]
        nd += [[3, L - 1, 2], [2, 2, 2 * L + 1], [3, 2, 2, 2, 2]]
    return one, two, nd


def gen_reduce(ctx, tier, rng):
    for dt in DTYPES:
        L = lanes_of(ctx, dt)
        eps = 2.0 ** -23 if dt == 'f32' else 2.0 ** -52
        one, two, nd = reduce_shapes(L, tier)
        # random n-d shapes (rank 3..5, any axis): the any-axis identification simdReduceAxis_eq_scalar
        for _ in range(2 if tier == 'quick' else 12):
            r = rng.randint(3, 5)
            sh = [rng.randint(1, 3) for _ in range(r)]
            sh[rng.randrange(r)] = rng.choice([L - 1, L, L + 1, 2 * L + 1])
            nd.append(sh)
        k = 0
        for shape in one + two + nd:
            dim = len(shape)
            axes = list(range(dim)) + [None, -1]
            for axis in axes:
                for keep in (0, 1):
                    k += 1
                    if dim == 1 and axis == -1 and keep == 1 and tier == 'quick':
                        continue
                    op = 'multiply' if k % 3 == 0 else 'add'
                    yield reduce_case(ctx, dt, L, op, shape, 'row', axis, keep, reduce_data(op, prod(shape), rng), ['model'])
                    if k % 6 == 1:
                        # non-integer data: tolerance = n * eps * sum|a| (add) / relative n * eps (multiply)
                        n = prod(shape)
                        if k % 12 == 1:
                            data = [rng.randint(-800, 800) / 64.0 for _ in range(n)]
                            tol = (4 * n * eps * sum(abs(v) for v in data), 0.0)
                            yield reduce_case(ctx, dt, L, 'add', shape, 'row', axis, keep, data, ['values'], as_int=False, model=False, tol=tol)
                        else:
                            data = [rng.randint(48, 80) / 64.0 for _ in range(n)]
                            tol = (0.0, 4 * n * eps)
                            yield reduce_case(ctx, dt, L, 'multiply', shape, 'row', axis, keep, data, ['values'], as_int=False, model=False, tol=tol)
            if dim >= 2:
                # column-major operand, subtract (no identity), negative axes below -1
                yield reduce_case(ctx, dt, L, 'add', shape, 'col', k % dim, k % 2, reduce_data('add', prod(shape), rng), ['model', 'layout=col'])
                yield reduce_case(ctx, dt, L, 'subtract', shape, 'row', k % dim, k % 2, reduce_data('add', prod(shape), rng), ['model', 'no-identity'])
                if prod(shape) <= 4 * L:
                    yield reduce_case(ctx, dt, L, 'add', shape, 'row', -2 - (k % (dim - 1)), k % 2, reduce_data('add', prod(shape), rng), ['model', 'negative-axis'])


def gen_matmul(ctx, tier, rng):
    for dt in DTYPES:
        if ctx in NO_MATMUL_F64 and dt == 'f64':
            continue
        L = lanes_of(ctx, dt)
        eps = 2.0 ** -23 if dt == 'f32' else 2.0 ** -52
        Ks = sorted(set([1, 2, L - 1, L, L + 1, 2 * L + 1, 3 * L]))
        for M in (1, 2, 3):
            for Nn in (1, 2, 5):
                for K in Ks:
                    ld = [rng.randint(-9, 9) for _ in range(M * K)]
                    rd = [rng.randint(-9, 9) for _ in range(K * Nn)]
                    x = logical(ld, [M, K], 'row', 'f64')
                    y = logical(rd, [K, Nn], 'col', 'f64')
                    exp = 'ok shape=%s val=%s' % (fmt([M, Nn]), ints_str(x @ y))
                    req = 'matmul dtype=%s op=matmul lanes=%d lshape=%s rshape=%s fmt=int show=1 tolabs=0 ldata=%s rdata=%s' % (dt, L, fmt([M, K]), fmt([K, Nn]), fdata(ld), fdata(rd))
                    yield Case(req, hname(ctx), dom=True, oracle=exp, nontrivial=(K >= L), tags=['matmul', 'ctx=' + ctx, dt, 'model'])
                    # column-major lhs: operator() is meant to hand the view to the scalar evaluator (either rhs layout;
                    # a row-major rhs only compiles in the repaired tree)
                    ll = 'col'
                    rl = 'row' if (MATMUL_LHS_FALLBACK_REPAIRED and (M + Nn + K) % 2 == 1) else 'col'
                    # non-zero entries: the scalar evaluator folds from the first product, so 0 * (-5) would surface as -0.0
                    ld = [rng.randint(1, 9) * rng.choice([-1, 1]) for _ in range(M * K)]
                    rd = [rng.randint(1, 9) * rng.choice([-1, 1]) for _ in range(K * Nn)]
                    x = logical(ld, [M, K], ll, 'f64')
                    y = logical(rd, [K, Nn], rl, 'f64')
                    exp = 'ok shape=%s val=%s' % (fmt([M, Nn]), ints_str(x @ y))
                    req = 'matmul dtype=%s op=matmul lanes=%d lshape=%s rshape=%s llayout=%s rlayout=%s fmt=int show=1 tolabs=0 ldata=%s rdata=%s' % (
                        dt, L, fmt([M, K]), fmt([K, Nn]), ll, rl, fdata(ld), fdata(rd))
                    # in the unchanged tree the model mirrors the defect (eval_matmul reads the lhs buffer as row-major):
                    # off-domain there unless the layout of the lhs does not matter
                    yield Case(req, hname(ctx), dom=(MATMUL_LHS_FALLBACK_REPAIRED or not layout_matters([M, K])), oracle=exp,
                               mreq='c12.%s fallback=%d' % (req, 1 if MATMUL_LHS_FALLBACK_REPAIRED else 0), nontrivial=(K >= L),
                               tags=['matmul', 'ctx=' + ctx, dt, 'model', 'layout=%s/%s' % (ll, rl)])
                    if (M + Nn + K) % 3 == 0:
                        ld = [rng.randint(-64, 64) / 8.0 for _ in range(M * K)]
                        rd = [rng.randint(-64, 64) / 8.0 for _ in range(K * Nn)]
                        tol = 4 * K * eps * max(1.0, float(np.max(np.abs(logical(ld, [M, K], 'row', 'f64')) @ np.abs(logical(rd, [K, Nn], 'col', 'f64')))))
                        req = 'matmul dtype=%s op=matmul lanes=%d lshape=%s rshape=%s fmt=hex show=0 tolabs=%s tolrel=0 ldata=%s rdata=%s' % (dt, L, fmt([M, K]), fmt([K, Nn]), repr(tol), fdata(ld), fdata(rd))
                        yield Case(req, hname(ctx), dom=True, oracle='ok shape=%s agree' % fmt([M, Nn]), model=False, nontrivial=(K >= L), tags=['matmul', 'ctx=' + ctx, dt, 'values'])


def gen_enum(tier, rng):
    """the pure enumerators against the Lean model, tuple by tuple (no oracle: the theorems are about the model)"""
    h = 'h_c12_enum'
    for L in (2, 4, 8, 16):
        Cs = sorted(set([1, 2, 3, L - 1, L, L + 1, 2 * L, 2 * L + 1, 3 * L + 2]))
        for R in (1, 2, 3):
            for C in Cs:
                for ls, rs in bcast_patterns(R, C):
                    if ls == rs:
                        continue
                    yield Case('enum_binary2d lanes=%d out=%s lhs=%s rhs=%s' % (L, fmt([R, C]), fmt(ls), fmt(rs)), h,
                               dom=True, nontrivial=(C >= L), tags=['enum', 'enum_binary2d', 'lanes=%d' % L])
        shapes = [[n] for n in (1, L - 1, L, 2 * L + 1)] + [[r, c] for r in (1, 2, 3) for c in Cs] + \
                 [[2, 3, C] for C in Cs] + [[2, C, 3] for C in (1, 2, L, L + 1)] + [[C, 2, 2] for C in (1, 3, L + 1)] + [[2, 1, 3, L + 1], [2, 2, 2, 3]]
        for shape in shapes:
            dim = len(shape)
            for axis in range(dim):
                out = list(shape); out[axis] = 1
                kind = 'h' if axis == dim - 1 else 'v'
                yield Case('enum_reduce lanes=%d kind=%s out=%s inp=%s axis=%d' % (L, kind, fmt(out), fmt(shape), axis), h,
                           dom=True, nontrivial=(prod(shape) >= L), tags=['enum', 'enum_reduce', 'kind=' + kind, 'lanes=%d' % L])
        for ls, rs in [([m], [c]) for m in (1, 3) for c in Cs] + [([2, 2], [c]) for c in Cs] + [([2], [3, c]) for c in Cs] + \
                [([2, 3], [2, c]) for c in Cs] + [([2, 1, 2], [c]) for c in Cs[:5]] + [([2], [2, 1, c]) for c in Cs[:5]] + \
                [([1, 2, 2], [2, 1, c]) for c in Cs[:5]] + [([2, 3], [2, 2, c]) for c in Cs[:5]]:
            yield Case('enum_outer lanes=%d lhs=%s rhs=%s' % (L, fmt(ls), fmt(rs)), h, dom=True, nontrivial=(rs[-1] >= L),
                       tags=['enum', 'enum_outer', 'lanes=%d' % L])
        for M in (1, 2, 3):
            for Nn in (1, 3):
                for K in Cs:
                    yield Case('enum_matmul lanes=%d lhs=%s rhs=%s' % (L, fmt([M, K]), fmt([K, Nn])), h, dom=True, nontrivial=(K >= L),
                               tags=['enum', 'enum_matmul', 'lanes=%d' % L])



# ------------------------------------------------------------------------------------------------
# integer element types (harness/h_c12i_<ctx>.cpp, model Simd/IntLanes.lean)
# ------------------------------------------------------------------------------------------------

IDTYPES = {'i8': (np.int8, 8, True), 'u8': (np.uint8, 8, False), 'i16': (np.int16, 16, True), 'u16': (np.uint16, 16, False),
           'i32': (np.int32, 32, True), 'u32': (np.uint32, 32, False), 'i64': (np.int64, 64, True), 'u64': (np.uint64, 64, False)}
# element widths for which simd_op_t<ctx,T>::mul has NO branch (the function returns void: multiply does not compile);
# add / sub have a branch for every width in every context; the vector-extension contexts use x*y for every width
INT_NO_MUL = {'sse': {8, 64}, 'avx': {8, 64}, 'simde512': {8}, 'v128': set(), 'v256': set(), 'v512': set()}
IOPS = ['add', 'subtract', 'multiply']
IOP_PY = {'add': lambda x, y: x + y, 'subtract': lambda x, y: x - y, 'multiply': lambda x, y: x * y}
IOP_NP = {'add': np.add, 'subtract': np.subtract, 'multiply': np.multiply}


def ilanes(ctx, dt):
    return CTXS[ctx]['bits'] // IDTYPES[dt][1]


def int_ops(ctx, dt):
    return [o for o in IOPS if not (o == 'multiply' and IDTYPES[dt][1] in INT_NO_MUL[ctx])]


def irange(dt):
    _, w, sg = IDTYPES[dt]
    return (-(1 << (w - 1)), (1 << (w - 1)) - 1) if sg else (0, (1 << w) - 1)


def iwrap(dt, z):
    """NumPy arithmetic in dtype dt: the exact result reduced modulo 2^w into the range of the type (IntTy.wrap)"""
    _, w, sg = IDTYPES[dt]
    z %= (1 << w)
    return z - (1 << w) if (sg and z >= (1 << (w - 1))) else z


def scalar_defined(dt, op, x, y):
    """is `static_cast<T>(x op y)` free of undefined behaviour?  (Simd.scalarOp != none): operands narrower than int are
    promoted to int (signed 32 bit), signed overflow of the promoted type is UB, unsigned arithmetic wraps"""
    _, w, sg = IDTYPES[dt]
    z = IOP_PY[op](x, y)
    if w < 32:
        return -(1 << 31) <= z < (1 << 31)
    if sg:
        return -(1 << (w - 1)) <= z < (1 << (w - 1))
    return True


def iboundary(dt):
    """values at and around the limits of the type, of its signed half (unsigned values above the signed maximum),
    around 2^(w/2) (products that just overflow) and two bit patterns"""
    _, w, sg = IDTYPES[dt]
    lo, hi = irange(dt)
    h = 1 << (w // 2)
    p5 = int('55' * (w // 8), 16)
    if sg:
        vals = [lo, lo + 1, lo // 2 - 1, lo // 2, -h - 1, -h, -h + 1, -3, -2, -1, 0, 1, 2, 3, h - 1, h, h + 1,
                hi // 2, hi // 2 + 1, hi - 1, hi, p5, -p5 - 1]
    else:
        sm = hi >> 1
        vals = [0, 1, 2, 3, h - 1, h, h + 1, sm - 1, sm, sm + 1, sm + 2, sm + h, hi - h, hi - 2, hi - 1, hi, p5, hi - p5]
    out = []
    for v in vals:
        if lo <= v <= hi and v not in out:
            out.append(v)
    return out


_PAIRS = {}


def ipairs(dt, op):
    """(pairs on which the scalar functor is defined, pairs on which it is undefined behaviour) over iboundary x iboundary"""
    k = (dt, op)
    if k not in _PAIRS:
        b = iboundary(dt)
        allp = [(x, y) for x in b for y in b]
        _PAIRS[k] = ([q for q in allp if scalar_defined(dt, op, *q)], [q for q in allp if not scalar_defined(dt, op, *q)])
    return _PAIRS[k]


def isafe_pools(dt, op):
    """(lhs pool, rhs pool) of boundary values such that EVERY lhs x rhs combination is defined for the scalar functor
    (broadcast and outer forms pair every lhs element with several rhs elements)"""
    _, w, sg = IDTYPES[dt]
    b = iboundary(dt)
    lo, hi = irange(dt)
    if w >= 32 and sg:
        if op == 'multiply':
            q = 1 << (w // 2 - 1)
            pool = [-q, -q + 1, -7, -3, -1, 0, 1, 2, 3, 5, q - 1, q]
        else:
            pool = [lo // 2, lo // 2 + 1, -(1 << (w // 2)), -2, -1, 0, 1, 3, 1 << (w // 2), hi // 2 - 1, hi // 2]
        return pool, pool
    if dt == 'u16' and op == 'multiply':
        return b, [v for v in b if v < 32768]
    return b, b


def ifmt(vals):
    return ','.join(str(int(v)) for v in vals)


def inp(dt, data, shape):
    return np.array([int(v) for v in data], dtype=IDTYPES[dt][0]).reshape(shape)


def ians(shape, z):
    z = np.asarray(z)
    return 'ok shape=%s val=%s' % (shape if isinstance(shape, str) else fmt(list(shape)), ifmt(z.ravel().tolist()) if z.size else '[]')


def ibinary_case(ctx, dt, op, ls, rs, ld, rd, tags, h=None):
    L = ilanes(ctx, dt)
    x, y = inp(dt, ld, ls), inp(dt, rd, rs)
    with np.errstate(all='ignore'):
        z = IOP_NP[op](x, y)
    assert z.dtype == IDTYPES[dt][0]
    # every pair the evaluation forms must be defined for the scalar functor, else the scalar side is UB (off-domain)
    xb, yb = np.broadcast_arrays(x, y)
    dom = all(scalar_defined(dt, op, int(p), int(q)) for p, q in zip(xb.ravel().tolist(), yb.ravel().tolist()))
    req = 'ibinary dtype=%s op=%s lanes=%d lshape=%s rshape=%s ldata=%s rdata=%s' % (dt, op, L, fmt(ls), fmt(rs), ifmt(ld), ifmt(rd))
    return Case(req, h or ihname(ctx), dom=dom, oracle=ians(z.shape, z), nontrivial=(z.shape[-1] >= L if ls != rs else z.size >= L),
                tags=['int', 'ibinary', 'ctx=' + ctx, dt, 'op=' + op] + tags + ([] if dom else ['scalar-ub']))


def take_cyc(pool, start, n):
    return [pool[(start + k) % len(pool)] for k in range(n)]


def gen_int_binary(ctx, tier, rng):
    for dt in IDTYPES:
        L = ilanes(ctx, dt)
        ops = int_ops(ctx, dt)
        for op in IOPS:
            if op not in ops:
                req = 'ibinary dtype=%s op=%s lanes=%d lshape=1 rshape=1 ldata=1 rdata=1' % (dt, op, L)
                yield Case(req, ihname(ctx), dom=False, oracle='unsupported', model=False, nontrivial=False,
                           tags=['int', 'ibinary', 'ctx=' + ctx, dt, 'op=' + op, 'unsupported'])
        # (a) every boundary pair of the type in packed AND in tail positions: all pairs, padded to full registers, + 1
        for op in ops:
            good, ub = ipairs(dt, op)
            for pool, tg in ((good, 'boundary'), (ub, 'boundary-ub')):
                if not pool:
                    continue
                n = ((len(pool) + L - 1) // L) * L + 1
                # the tail element repeats an early pair; a second request rotated by one register puts the last pairs first
                for rot in (0, L // 2 + 1):
                    ps = take_cyc(pool, rot, n)
                    yield ibinary_case(ctx, dt, op, [n], [n], [p[0] for p in ps], [p[1] for p in ps], ['same-shape', tg])
        # (b) every element count 1..4*lanes+1 (same shape), defined boundary pairs
        off = 0
        for n in range(1, 4 * L + 2):
            op = ops[n % len(ops)]
            good, _ = ipairs(dt, op)
            ps = take_cyc(good, off, n); off += n + 7
            yield ibinary_case(ctx, dt, op, [n], [n], [p[0] for p in ps], [p[1] for p in ps], ['same-shape', 'count'])
        # (c) 2-d broadcasting, every pattern
        Cs = sorted(set([1, 2, L - 1, L, L + 1, 2 * L + 1] if tier == 'quick' else
                        list(range(1, min(2 * L + 1, 34) + 1)) + [L - 1, L, L + 1, 2 * L - 1, 2 * L, 2 * L + 1, 4 * L + 1]))
        Cs = [c for c in Cs if c >= 1]
        Rs = [1, 3] if tier == 'quick' else [1, 2, 3, 5]
        k = 0
        for R in Rs:
            for C in Cs:
                for ls, rs in bcast_patterns(R, C):
                    if ls == rs:
                        continue
                    k += 1
                    op = ops[k % len(ops)]
                    lp, rp = isafe_pools(dt, op)
                    ld = take_cyc(lp, k * 3, prod(ls)); rd = take_cyc(rp, k * 5 + 1, prod(rs))
                    yield ibinary_case(ctx, dt, op, ls, rs, ld, rd, ['bcast2d'])


def gen_int_outer(ctx, tier, rng):
    for dt in IDTYPES:
        L = ilanes(ctx, dt)
        ops = int_ops(ctx, dt)
        pairs = [([m], [n]) for m in (1, 3) for n in range(1, (2 if tier == 'quick' else 4) * L + 2)]
        lasts = [c for c in (1, L - 1, L, L + 1, 2 * L + 1) if c >= 1]
        pairs += [([2, 2], [c]) for c in lasts] + [([2], [2, c]) for c in lasts] + [([2, 1, 2], [2, 1, c]) for c in lasts[1:4]]
        for op in IOPS:
            if op not in ops:
                req = 'iouter dtype=%s op=%s lanes=%d lshape=1 rshape=1 ldata=1 rdata=1' % (dt, op, L)
                yield Case(req, ihname(ctx), dom=False, oracle='unsupported', model=False, nontrivial=False,
                           tags=['int', 'iouter', 'ctx=' + ctx, dt, 'op=' + op, 'unsupported'])
        # every safe boundary value on both sides: lhs broadcast by set1, rhs packed
        for op in ops:
            lp, rp = isafe_pools(dt, op)
            pairs_b = [([len(lp)], [((len(rp) + L - 1) // L) * L + 1])]
            for ls, rs in pairs_b:
                yield iouter_case(ctx, dt, op, ls, rs, lp, take_cyc(rp, 0, rs[0]), ['boundary'])
        for k, (ls, rs) in enumerate(pairs):
            op = ops[k % len(ops)]
            lp, rp = isafe_pools(dt, op)
            yield iouter_case(ctx, dt, op, ls, rs, take_cyc(lp, k * 3, prod(ls)), take_cyc(rp, k * 5 + 2, prod(rs)), ['count'])


def iouter_case(ctx, dt, op, ls, rs, ld, rd, tags):
    L = ilanes(ctx, dt)
    x, y = inp(dt, ld, ls), inp(dt, rd, rs)
    with np.errstate(all='ignore'):
        z = IOP_NP[op].outer(x, y)
    assert z.dtype == IDTYPES[dt][0]
    dom = all(scalar_defined(dt, op, int(p), int(q)) for p in ld for q in rd)
    req = 'iouter dtype=%s op=%s lanes=%d lshape=%s rshape=%s ldata=%s rdata=%s' % (dt, op, L, fmt(ls), fmt(rs), ifmt(ld), ifmt(rd))
    return Case(req, ihname(ctx), dom=dom, oracle=ians(ls + rs, z), nontrivial=(rs[-1] >= L),
                tags=['int', 'iouter', 'ctx=' + ctx, dt, 'op=' + op, 'dims=%d,%d' % (len(ls), len(rs))] + tags + ([] if dom else ['scalar-ub']))


def ireduce_data(dt, op, n, rng):
    """data whose reduction is defined for the scalar functor in EVERY association order (the SIMD evaluator folds lanes
    first): modular types (everything narrower than int except u16 products, and unsigned 32/64) get values over the
    whole range so the result wraps many times; signed 32/64 and u16 products stay inside the type"""
    _, w, sg = IDTYPES[dt]
    lo, hi = irange(dt)
    b = iboundary(dt)
    if op == 'add':
        if w >= 32 and sg:
            big = 1 << (w - 2)
            d = [rng.randint(-1000, 1000) for _ in range(n)]
            if n >= 2:
                i, j = rng.sample(range(n), 2)
                d[i], d[j] = big, -big + 3
            return d
        return [b[rng.randrange(len(b))] if rng.random() < 0.5 else rng.randint(lo, hi) for _ in range(n)]
    # multiply
    if (w >= 32 and sg) or dt == 'u16':
        d = [1] * n
        for _ in range(min(n, 7)):
            d[rng.randrange(n)] = rng.choice([2, 3, -1] if sg else [2, 3])
        return d
    # odd factors keep the product non-zero modulo 2^w; a few even ones
    d = [(rng.randint(lo, hi) | 1) for _ in range(n)]
    for _ in range(min(n, 3)):
        d[rng.randrange(n)] = rng.choice([2, 6, hi, lo if sg else hi - 1, -2 if sg else 4])
    return [max(lo, min(hi, v)) for v in d]


def ireduce_case(ctx, dt, op, shape, axis, keep, data, tags):
    L = ilanes(ctx, dt)
    x = inp(dt, data, shape)
    with np.errstate(all='ignore'):
        z = IOP_NP[op].reduce(x, axis=axis, keepdims=bool(keep), dtype=IDTYPES[dt][0])
    oshape = 'num' if (axis is None and not keep) else fmt(list(np.shape(z)))
    req = 'ireduce dtype=%s op=%s lanes=%d shape=%s axis=%s keepdims=%d data=%s' % (
        dt, op, L, fmt(shape), 'None' if axis is None else str(axis), keep, ifmt(data))
    return Case(req, ihname(ctx), dom=True, oracle=ians(oshape, z), nontrivial=(prod(shape) >= L),
                tags=['int', 'ireduce', 'ctx=' + ctx, dt, 'op=' + op, 'axis=' + ('None' if axis is None else ('neg' if axis < 0 else 'k')),
                      'keepdims=%d' % keep] + tags)


def gen_int_reduce(ctx, tier, rng):
    for dt in IDTYPES:
        L = ilanes(ctx, dt)
        ops = [o for o in int_ops(ctx, dt) if o != 'subtract']
        if 'multiply' not in ops:
            req = 'ireduce dtype=%s op=multiply lanes=%d shape=1 axis=0 keepdims=0 data=1' % (dt, L)
            yield Case(req, ihname(ctx), dom=False, oracle='unsupported', model=False, nontrivial=False,
                       tags=['int', 'ireduce', 'ctx=' + ctx, dt, 'op=multiply', 'unsupported'])
        k = 0
        for n in range(1, 4 * L + 2):
            k += 1
            op = ops[k % len(ops)]
            axis = None if k % 3 else 0
            yield ireduce_case(ctx, dt, op, [n], axis, (k // 2) % 2, ireduce_data(dt, op, n, rng), ['count'])
        Cs = [c for c in (1, L - 1, L, L + 1, 2 * L + 1) if c >= 1]
        shapes = [[r, c] for r in ((2, 3) if tier == 'quick' else (1, 2, 3, 5)) for c in Cs] + [[2, 3, L + 1], [2, L, 3], [L + 1, 2, 2]]
        for shape in shapes:
            dim = len(shape)
            for axis in list(range(dim)) + [None, -1]:
                k += 1
                op = ops[k % len(ops)]
                yield ireduce_case(ctx, dt, op, shape, axis, k % 2, ireduce_data(dt, op, prod(shape), rng), ['nd'])


INT_NO_MATMUL = {'avx', 'simde512'}       # simd_op_t::fmadd calls the _ps / _pd intrinsic for every element type


def imatmul_data(dt, n, rng):
    """values whose products and partial sums are defined in every association order: modular types (8 bit: int arithmetic
    cannot overflow; unsigned 32/64) over the whole range, the others small enough that nothing leaves the promoted type while
    16-bit results still wrap many times"""
    _, w, sg = IDTYPES[dt]
    lo, hi = irange(dt)
    b = iboundary(dt)
    if w == 8 or (w >= 32 and not sg):
        return [b[rng.randrange(len(b))] if rng.random() < 0.4 else rng.randint(lo, hi) for _ in range(n)]
    m = (1 << 12) if w == 16 else (1 << (w // 2 - 4))
    return [rng.randint(-m if sg else 0, m) for _ in range(n)]


def gen_int_matmul(ctx, tier, rng):
    for dt in IDTYPES:
        L = ilanes(ctx, dt)
        w = IDTYPES[dt][1]
        if ctx in INT_NO_MATMUL or w in INT_NO_MUL[ctx]:
            req = 'imatmul dtype=%s op=matmul lanes=%d lshape=1,1 rshape=1,1 ldata=1 rdata=1' % (dt, L)
            yield Case(req, ihname(ctx), dom=False, oracle='unsupported', model=False, nontrivial=False,
                       tags=['int', 'imatmul', 'ctx=' + ctx, dt, 'unsupported'])
            continue
        Ks = sorted(set(k for k in (1, 2, L - 1, L, L + 1, 2 * L + 1, 3 * L) if k >= 1))
        for M in (1, 2):
            for Nn in (1, 3):
                for K in Ks:
                    ld = imatmul_data(dt, M * K, rng)
                    rd = imatmul_data(dt, K * Nn, rng)
                    x = inp(dt, ld, [M, K])
                    y = np.array([int(v) for v in rd], dtype=IDTYPES[dt][0]).reshape([K, Nn], order='F')
                    with np.errstate(all='ignore'):
                        z = np.matmul(x, y)
                    assert z.dtype == IDTYPES[dt][0]
                    req = 'imatmul dtype=%s op=matmul lanes=%d lshape=%s rshape=%s ldata=%s rdata=%s' % (dt, L, fmt([M, K]), fmt([K, Nn]), ifmt(ld), ifmt(rd))
                    yield Case(req, ihname(ctx), dom=True, oracle=ians([M, Nn], z), nontrivial=(K >= L),
                               tags=['int', 'imatmul', 'ctx=' + ctx, dt])


def memory_unsafe(c):
    """input classes on which the code leaves its buffers: only ever sent to a sanitizer build (a plain build would
    corrupt its heap and poison the answers to later requests).  None since the (1,1)-broadcast and negative-axis
    repairs; the hook stays for future findings of that kind."""
    return False


def gen(tier, rng):
    yield from gen_enum(tier, rng)
    for ctx in CTXS:
        san = ctx in SAN_CTXS[tier]
        for g in (gen_unary, gen_unary_special, gen_unary_precision, gen_binary, gen_binary_precision, gen_outer, gen_reduce, gen_matmul):
            for c in g(ctx, tier, rng):
                c.tags = c.tags + tuple('repaired:' + n for n, pr in REPAIRED_CLASSES if pr(c))
                unsafe = memory_unsafe(c)
                if not unsafe:
                    yield c
                if san and ('model' in c.tags or unsafe):
                    # the same request through the ASan+UBSan build
                    yield Case(c.req, hname(ctx, True), dom=c.dom, oracle=c.oracle, model=False, nontrivial=c.nontrivial,
                               tags=[t for t in c.tags if t != 'model'] + ['san'])
        for g in (gen_int_binary, gen_int_outer, gen_int_reduce, gen_int_matmul):
            for c in g(ctx, tier, rng):
                yield c
                if san and c.dom and c.model:
                    # ASan + UBSan: no packed access outside a buffer, and no signed overflow in the scalar functor on the
                    # inputs classified as defined (scalar_defined = Simd.scalarOp != none)
                    yield Case(c.req, ihname(ctx, True), dom=c.dom, oracle=c.oracle, model=False, nontrivial=c.nontrivial,
                               tags=list(c.tags) + ['san'])


# ------------------------------------------------------------------------------------------------
# known findings: input classes (decided from the request only)
# ------------------------------------------------------------------------------------------------

def _args(case):
    parts = case.req.split()
    return parts[0], dict(p.split('=', 1) for p in parts[1:])


def _shape(s):
    return [] if s in ('[]', '') else [int(x) for x in s.split(',')]


def pred_colmajor(case):
    """some operand the SIMD evaluator reads through data() is column-major and its layout matters"""
    kind, a = _args(case)
    for lk, sk in (('layout', 'shape'), ('llayout', 'lshape'), ('rlayout', 'rshape')):
        if a.get(lk) == 'col' and layout_matters(_shape(a.get(sk, ''))):
            return True
    return False



def pred_bcast_1x1(case, ls=None, rs=None):
    """BROADCASTED_2D with a (1,1) operand while the result has more than one row: operand index = simd_row"""
    if case is not None:
        kind, a = _args(case)
        if kind != 'binary':
            return False
        ls, rs = _shape(a['lshape']), _shape(a['rshape'])
    if len(ls) != 2 or len(rs) != 2 or ls == rs:
        return False
    R = max(ls[0], rs[0])
    return R > 1 and (ls == [1, 1] or rs == [1, 1])


def _reduce_out_size(a):
    shape = _shape(a['shape'])
    if a['axis'] == 'None':
        return 1
    ax = int(a['axis'])
    if ax < 0:
        ax += len(shape)
    return prod(shape) // max(1, shape[ax]) if 0 <= ax < len(shape) else None


def pred_reduce_out1_nonadd(case):
    """reduction whose output has exactly one element (axis=None, 1-d, ...) with an op for which 0 is not an identity"""
    kind, a = _args(case)
    return kind == 'reduce' and a['op'] != 'add' and _reduce_out_size(a) == 1 and prod(_shape(a['shape'])) >= 1


def pred_reduce_noidentity(case):
    """reduce of an op without identity() (subtract): SIMD starts from 0 instead of the first element"""
    kind, a = _args(case)
    return kind == 'reduce' and a['op'] == 'subtract'


def pred_reduce_negaxis(case):
    """negative reduction axis other than -1"""
    kind, a = _args(case)
    return kind == 'reduce' and a['axis'] != 'None' and int(a['axis']) < -1


def pred_matmul_col_lhs(case):
    """SIMD matmul whose lhs is column-major with a layout that matters (more than one row and more than one column)"""
    kind, a = _args(case)
    return kind == 'matmul' and a.get('llayout') == 'col' and layout_matters(_shape(a['lshape']))


def pred_special_minmax(case):
    """min/max/compare-built activations (relu6, hardtanh, softshrink) on NaN or -0.0 input"""
    kind, a = _args(case)
    if kind != 'unary' or a['op'] not in ('relu6', 'hardtanh', 'softshrink'):
        return False
    d = a['data'].split(',')
    return 'nan' in d or '-0.0' in d


VECEXT_SAN = ('h_c12i_v128_san', 'h_c12i_v256_san', 'h_c12i_v512_san')


def pred_vecext_signed_lane_overflow(case):
    """int8 / int16 through a vector-extension context in the sanitizer build, some lane result outside the element type:
    the vector lane computes in T (signed overflow), the scalar functor in int (defined wrap-around)"""
    if case.harness not in VECEXT_SAN:
        return False
    kind, a = _args(case)
    dt = a.get('dtype')
    if dt not in ('i8', 'i16') or kind not in ('ibinary', 'iouter', 'ireduce', 'imatmul'):
        return False
    if kind in ('ireduce', 'imatmul'):
        return True          # lane partial sums / products of full-range data
    lo, hi = irange(dt)
    ld = np.array([int(v) for v in a['ldata'].split(',')], dtype=np.int64)
    rd = np.array([int(v) for v in a['rdata'].split(',')], dtype=np.int64)
    if kind == 'iouter':
        z = IOP_NP[a['op']].outer(ld, rd)
    else:
        z = IOP_NP[a['op']](ld.reshape(_shape(a['lshape'])), rd.reshape(_shape(a['rshape'])))
    return bool(((z < lo) | (z > hi)).any())


def pred_vecext_uninit_lanes(case):
    """signed integer element type narrower than 8 bytes through a vector-extension context in the sanitizer build, every
    lane result of the INPUT inside the element type (otherwise: vecext_signed_lane_overflow): UBSan sees the arithmetic on
    the never-initialised extra lanes of the over-wide register type"""
    if case.harness not in VECEXT_SAN:
        return False
    kind, a = _args(case)
    return (kind in ('ibinary', 'iouter', 'ireduce', 'imatmul') and a.get('dtype') in ('i8', 'i16', 'i32')
            and not pred_vecext_signed_lane_overflow(case))


REPAIRED_CLASSES = [('layout.column-major', pred_colmajor), ('binary.bcast-1x1', pred_bcast_1x1),
                    ('reduce.full-from-zero', pred_reduce_out1_nonadd), ('reduce.no-identity', pred_reduce_noidentity),
                    ('reduce.negative-axis', pred_reduce_negaxis)]

# the input classes of the repaired defects (column-major operand, (1,1) broadcast operand, one-element reduction of a
# non-add op, subtract.reduce, negative axis) stay as tag helpers above; only the open finding is a known predicate
KNOWN_PREDICATES = {
    'special_values_minmax': pred_special_minmax,
    'matmul_col_lhs': pred_matmul_col_lhs,
    'vecext_uninit_lanes': pred_vecext_uninit_lanes,
    'vecext_signed_lane_overflow': pred_vecext_signed_lane_overflow,
}
