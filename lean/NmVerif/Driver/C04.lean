import NmVerif.Proto
import NmVerif.Arr
import NmVerif.Index.Tile
import NmVerif.Index.Repeat
import NmVerif.Index.Roll
import NmVerif.Index.Pad
import NmVerif.Index.Take
import NmVerif.Index.Concatenate
namespace NmVerif.Driver.C04
open NmVerif NmVerif.Proto NmVerif.Index

/-- What the harness prints for an indexing view over `data[k] = k`: `ndarray_t::operator()` computes the offset
    in `size_t` (wraps mod 2^64) and reads `data_.at(offset)`, which throws (→ `oob`) iff `offset ≥ size`;
    an index outside the shape whose offset stays below `size` is read silently.  `-1` = fill value. -/
def fmtView (v : Option IxView) : String :=
  match v with
  | none => "nothing"
  | some v =>
    let st := strides v.src
    let n := prod v.src
    let offs : List (Option Nat) := (allIdx v.dst).map (fun d => (v.map d).map (fun i => computeOffset i st % 2^64))
    if offs.any (fun o => match o with | some k => decide (n ≤ k) | none => false) then "oob"
    else
      let data : List Int := offs.map (fun o => match o with | some k => (k : Int) | none => -1)
      s!"ok shape={fmtNats v.dst} data={fmtInts data}"

/-- two operands: left filled `k`, right `k + 1000`; neither flag set ⇒ the C++ (NDEBUG) reads the right operand
    at a zero-initialised index, i.e. element 1000 -/
def fmtView2 (v : Option IxView2) : String :=
  match v with
  | none => "nothing"
  | some v =>
    let offs : List (Option Int) := (allIdx v.dst).map (fun d =>
      match v.map d with
      | some (false, i) => let k := computeOffset i (strides v.srcA) % 2^64
                           if k < prod v.srcA then some (k : Int) else none
      | some (true, i) => let k := computeOffset i (strides v.srcB) % 2^64
                          if k < prod v.srcB then some ((k : Int) + 1000) else none
      | none => if 0 < prod v.srcB then some 1000 else none)
    if offs.any (·.isNone) then "oob"
    else s!"ok shape={fmtNats v.dst} data={fmtInts (offs.map (·.getD 0))}"

def bcast (shift : Int) (axes : List Int) : List Int := axes.map (fun _ => shift)

def handle : Handler := fun op a =>
  match op with
  | "repeat" => orBad do
      let s ← a.nats "shape"
      match a.get? "repeats" with
      | some _ =>
        let r ← a.nat "repeats"
        let ax ← a.optInt "axis"
        pure (fmtView (repeatView s r ax))
      | none =>
        let rs ← a.nats "rlist"
        let ax ← a.int "axis"
        pure (fmtView (repeatListView s rs ax))
  | "roll" => orBad do
      let s ← a.nats "shape"
      match a.get? "axis", a.get? "alist", a.get? "slist" with
      | some "None", _, _ => do
        let sh ← a.int "shift"
        pure (fmtView (rollNoneView s sh))
      | some _, _, _ => do
        let sh ← a.int "shift"
        let ax ← a.int "axis"
        pure (fmtView (rollView s sh ax))
      | none, some _, none => do
        let sh ← a.int "shift"
        let axes ← a.ints "alist"
        pure (fmtView (rollAxesView s (bcast sh axes) axes))
      | none, some _, some _ => do
        let shs ← a.ints "slist"
        let axes ← a.ints "alist"
        pure (fmtView (rollAxesView s shs axes))
      | _, _, _ => none
  | "pad" => orBad do
      let s ← a.nats "shape"
      let w ← a.nats "widths"
      pure (fmtView (padView s w))
  | "take" => orBad do
      let s ← a.nats "shape"
      let ind ← a.ints "indices"
      let ax ← a.optInt "axis"
      pure (fmtView (takeView s ind ax))
  | "concatenate" => orBad do
      let s ← a.nats "shape"
      let s2 ← a.nats "shape2"
      let ax ← a.optInt "axis"
      pure (fmtView2 (concatenateView s s2 ax))
  | "tile" => orBad do
      let s ← a.nats "shape"
      let r ← a.nats "reps"
      pure (fmtView (tileView s r))
  | _ => none

end NmVerif.Driver.C04
