"""C09 — results are independent of container kind and of compile- vs run-time knowledge.

IMPL here is not one harness but a generated *kind matrix* (harness/gen_kinds_c09.py): for every
operation x request x assignment of container kinds to the arguments one C++ `case` calling the real
nmtools function; four builds (STL / NMTOOLS_DISABLE_STL x g++ / clang++-14).  Every case of a request
must print the same normalised answer, and that answer must be the single reference answer (Lean driver
op + the NumPy oracle below).  Which (build, op, kind signature) combinations compile is pinned in
lib/kinds_supported_c09.json (python harness/gen_kinds_c09.py --pin); a pinned combination that stops
compiling is a violation (no failing input, compiler error in the replay).
"""
import os, sys, json, time, random, itertools, hashlib
from concurrent.futures import ThreadPoolExecutor
import numpy as np
import runner
from runner import Case

sys.path.insert(0, os.path.join(runner.ROOT, 'harness'))
import gen_kinds_c09 as G

ID = 'C09'
LEVEL = 'translation_validation'
RULE = ('programs = generated C++ cases, one per (operation, request, kind assignment, mode, build); 20 index-level operations (C01-C08 '
        'shape / index functions incl. slice and matmul shape) and 26 views / evaluations (transpose, reshape, tile, add, sum, broadcast_to, '
        'broadcast_arrays, repeat, pad, slice, flip, expand_dims, squeeze, concatenate, where, matmul, sum with axis list / scalar / None and '
        'ct / run-time keepdims, take; array::transpose/add/reshape/matmul/sum, eval(tile)) over 35 array kinds (nested std::array, raw, '
        'fixed / hybrid / dynamic ndarray, the 15 shape-x-buffer ndarray_t kinds in both layouts) x constant / clipped (slack and tight '
        'bounds) / std::array / raw / static_vector / vector / tuple kinds of the shape-like and axis-like arguments; requests: fixed sample '
        '(quick) / ~560 fixed + seeded requests (thorough); EVERY operation that can refuse has refused requests of each class in the fixed sample '
        '(reshape: target count a proper divisor / a multiple / coprime, -1 not dividing, two -1, zero / negative extent; broadcast_shape / '
        'broadcast_to / add / where / broadcast_arrays: mismatch in a last / leading / middle axis, rank above the target; concatenate and '
        'matmul shape: extent mismatch; pad: width list too short / too long; normalize_axis: out of range on either side) and every binary '
        'request runs in both operand orders; kind assignments per request and build: the diagonal (every kind for all arguments), every '
        'pair of argument classes constant/clipped/clipped-tight/fixed/bounded/dynamic for the first two list arguments, for views the '
        'shape classes of the array operand (constant / fixed-rank / bounded / dynamic / clipped) x every kind of the second argument, seeded '
        'mixed draws, and in thorough a sweep that covers EVERY pinned-supported kind signature at least once; builds stl-gcc, stl-clang, '
        'nostl-gcc, nostl-clang; constexpr evaluation (`constexpr auto r = f(args)`) where every argument kind is a literal type. A case '
        'is non-trivial when the request has >= 2 axes or is a refusal; distinct = distinct (request, kind signature, mode, build)')
EXHAUSTIVE = {'quick': False, 'thorough': False}
ANCHORS = {'Driver.C09 k9_* / k9v_* reference ops (NmVerif.KindRefs: NumPy semantics, one function per operation)':
           'nmtools::index::* under every meta::resolve_optype branch (constant / clipped / fixed / bounded / dynamic), view::transpose/reshape/tile/add/sum/'
           'broadcast_to/broadcast_arrays/repeat/pad/slice/flip/expand_dims/squeeze/concatenate/where/matmul/take, '
           'array::transpose/add/reshape/matmul/sum/eval over the array kinds of utility/cast.hpp and both layouts',
           'NmVerif.Kinds.BVec': 'utl::static_vector (utl/static_vector.hpp)', 'NmVerif.Kinds.Clipped': 'clipped_integer_t (def.hpp:55-132)'}
MANIFEST = dict(
    text='Translation validation: every operation is instantiated under the supported combinations of argument container kinds (constant tuple, clipped, std::array, raw array, static_vector, vector, run-time tuple, fixed/hybrid 1-d ndarray, utl::array/vector, boost::array/static_vector; 35 array kinds incl. the 15 ndarray_t shape-x-buffer kinds in both layouts), in STL and NMTOOLS_DISABLE_STL builds with g++ and clang++, including constexpr evaluation, on a common request list; the normalised (has_value, shape, elements) of all of them is compared with ONE reference answer (Lean reference function written from the NumPy semantics + NumPy itself). Which combinations compile is pinned; a pinned combination that stops compiling is reported. Proof-level Lean lemmas for the container layer: a bounded vector refines a list for every operation sequence without capacity event, a clipped integer is the identity inside its range and clamps outside, and the bounded / clipped result containers chosen by the metafunctions of compute_strides / shape_transpose / broadcast_shape never overflow or clamp.',
    note='The universally quantified part over configurations is finite and enumerated in the thorough tier (every pinned-supported signature at least once); over input values it is sampled (small extents). That the constant-index branch computes the same function (it calls the same constexpr function on to_value_v) is code structure validated by the matrix, not a theorem. Eight genuine kind-dependences of the unchanged tree are listed as known findings (two earlier ones, the column-major clipped shape and the clipped extent 1 in broadcast_shape, were closed by fix commits 930c763 / 90a319c and are kept as regression requests). Not covered: maybe-wrapped argument kinds, boost small_vector, the index-map functions of C03/C04 (only their shape functions), constexpr evaluation of views.',
    technique='generated kind-matrix differential run against one Lean/NumPy reference + Lean 4 container refinement lemmas')
ASSUMPTIONS = ['a kind signature that does not compile in the unchanged tree is an unsupported combination, not a violation (pinned in lib/kinds_supported_c09.json)',
               'a failure type returned for compile-time-constant arguments (meta::is_fail_v), or a compile error of a case with a constant argument, counts as the refusal `nothing`',
               'the None shape (none_t) is the empty shape',
               'input values are sampled; extents are small (<= 6 per axis); negative axes are not fed to shape_repeat / shape_concatenate (refused or out of bounds in EVERY kind alike: C04/C06 material)',
               'clipped integers are given bounds with slack (value <= bound), which is the purpose of the type']
PARTIAL = ['maybe-wrapped argument kinds (m_shape_a ...) are not in the matrix',
           'views / evaluations: 26 operations; the second array operand of a binary operation ranges over 8 of the 35 array kinds (4 for '
           'concatenate, 4 x 4 for the two value operands of where); the kind universe of the 18 operations added in round 4 is two '
           'diagonals + shape-class x second-argument pairs (~100-170 signatures per operation and build), not the full product',
           'refused requests exist only for operations that CAN refuse: transpose / take / reductions do not validate their axes / '
           'indices in any kind (C15 findings), so the matrix feeds them valid requests only; expand_dims, repeat, concatenate and '
           'matmul refuse since the fix: commits fb06f17 / 812bb12 / 972adee / 7d7a8ac and have refused requests in the fixed sample',
           'constexpr evaluation is compared at index level only',
           'index maps (tile / repeat / roll / pad / slice index functions) are covered through the views only, not kind by kind',
           'reference-refusal theorems cover reshape (count mismatch, two unknowns, zero / negative extent), broadcast_shape / broadcast_to '
           '(mismatching axis, rank), matmul (contraction), normalize_axis / repeat / expand_dims (axis out of range, count list length); the refusal of -1 with '
           'a non-dividing count, of concatenate and of a duplicate expand_dims axis are checked by the NumPy oracle only']
MAX_JOBS = min(10, int(os.environ.get('VERIF_JOBS', '10')))
CASES_PER_TU = 220
VIEW_WEIGHT = 3
# compile weight of one case relative to an index-level case (~0.035 s): light views ~0.3 s, broadcasting / contraction views ~1 s
OP_WEIGHT = {'v_add': 8, 'e_add': 8, 'v_where': 8, 'v_matmul': 10, 'e_matmul': 10, 'v_broadcast_arrays': 5, 'v_sum_k': 5, 'v_sum_ks': 4,
             'e_sum_k': 4, 'v_sum': 4}


def fmt(l):
    l = list(l)
    return '[]' if not l else ','.join(str(int(x)) for x in l)


def canon(a):
    # a failure type for constant arguments is the compile-time refusal; the None shape is the empty shape
    if a == 'fail-type':
        return 'nothing'
    if a == 'ok None':
        return 'ok []'
    return a


def same(a, b):
    a, b = canon(a), canon(b)
    # a refusal of constant arguments may surface as a compile error (static_assert / failure type misuse)
    if {a, b} == {'compile-error:ct', 'nothing'}:
        return True
    return a == b


# ------------------------------------------------------------------------------------------------
# reference semantics (NumPy) and request generators, one entry per operation
# ------------------------------------------------------------------------------------------------
def rshape(rng, rmin=1, rmax=4, emax=5, emin=1):
    return [rng.randint(emin, emax) for _ in range(rng.randint(rmin, rmax))]


def c_strides(s):
    return [int(x) for x in np.empty(s, dtype=np.int8).strides]


class Ref:
    """reference of one op: oracle(vals) -> answer string, mreq(vals) -> Lean driver request, gen(rng) -> vals"""
    def __init__(self, oracle, mreq, gen, fixed=()):
        self.oracle = oracle; self.mreq = mreq; self.gen = gen; self.fixed = list(fixed)


REFS = {}

REFS['compute_strides'] = Ref(
    lambda v: 'ok ' + fmt(c_strides(v[0])),
    lambda v: 'strides shape=%s' % fmt(v[0]),
    lambda rng: [rshape(rng, 1, 5)],
    fixed=[[[2, 3, 4]], [[5]], [[3, 1, 2, 2]]])
REFS['product'] = Ref(
    lambda v: 'ok %d' % int(np.prod(np.array(v[0], dtype=np.int64))),
    lambda v: 'product shape=%s' % fmt(v[0]),
    lambda rng: [rshape(rng, 1, 5)],
    fixed=[[[2, 3, 4]], [[7]]])


def _gen_offset(rng):
    s = rshape(rng, 1, 4)
    return [[rng.randrange(e) for e in s], c_strides(s)]


REFS['compute_offset'] = Ref(
    lambda v: 'ok %d' % int(np.dot(np.array(v[0], dtype=np.int64), np.array(v[1], dtype=np.int64))),
    lambda v: 'offset idx=%s strides=%s' % (fmt(v[0]), fmt(v[1])),
    _gen_offset,
    fixed=[[[1, 2, 3], [12, 4, 1]], [[0, 1], [3, 1]]])


def _gen_indices(rng):
    s = rshape(rng, 1, 4)
    return [rng.randrange(int(np.prod(s))), s]


REFS['compute_indices'] = Ref(
    lambda v: 'ok ' + fmt(np.unravel_index(v[0], v[1])),
    lambda v: 'indices off=%d shape=%s' % (v[0], fmt(v[1])),
    _gen_indices,
    fixed=[[23, [2, 3, 4]], [4, [3, 2]]])



def _np_shape(f):
    try:
        return 'ok ' + fmt(f())
    except Exception:
        return 'nothing'


def _perm(rng, n):
    p = list(range(n)); rng.shuffle(p); return p


def _gen_reshape(rng):
    s = rshape(rng, 1, 4, emax=4)
    n = int(np.prod(s))
    # a random factorisation of n, possibly with one -1, sometimes spoiled
    fac = []
    rem = n
    while rem > 1 and len(fac) < 3:
        ds = [d for d in range(1, rem + 1) if rem % d == 0]
        d = rng.choice(ds); fac.append(d); rem //= d
    fac.append(rem)
    rng.shuffle(fac)
    mode = rng.random()
    if mode < 0.4:
        fac[rng.randrange(len(fac))] = -1
    elif mode < 0.5:
        fac[rng.randrange(len(fac))] += 1          # wrong element count -> refused
    elif mode < 0.58:
        # target count a PROPER DIVISOR of the source count (drop a factor > 1) -> refused
        big = [k for k, f in enumerate(fac) if f > 1]
        if big:
            k = rng.choice(big)
            ds = [d for d in range(1, fac[k]) if fac[k] % d == 0]
            fac[k] = rng.choice(ds)
    elif mode < 0.64:
        fac[rng.randrange(len(fac))] *= rng.randint(2, 3)     # a multiple -> refused
    elif mode < 0.70 and len(fac) >= 2:
        fac[0] = -1; fac[1] = -1                   # two -1 -> refused
    elif mode < 0.75:
        fac[rng.randrange(len(fac))] = rng.choice([0, -2, -3])     # zero / negative extent -> refused
    return [s, fac]


def _reshape_oracle(v):
    """NumPy, except that an extent 0 or a negative extent other than -1 is refused (NumPy reads every negative
    extent as "unknown"; the library documents -1 only, array/index/reshape.hpp)"""
    if any(d == 0 or d < -1 for d in v[1]):
        return 'nothing'
    return _np_shape(lambda: np.empty(v[0], dtype=np.int8).reshape(v[1]).shape)


# refused reshape requests, one list per class (every class is in the fixed quick sample under every kind assignment)
RESHAPE_REFUSALS = {
    'count-divisor': [[[12], [2, 3]], [[2, 3, 2], [4]], [[3, 4], [1, 1, 1]], [[2, 3, 4], [2, 6]]],
    'count-multiple': [[[6], [3, 4]], [[2, 3], [12]]],
    'count-coprime': [[[6], [5]], [[2, 3], [7, 1]]],
    'minus1-not-dividing': [[[2, 3, 2], [5, -1]]],
    'two-minus1': [[[6], [-1, -1]], [[2, 2], [-1, -1, 4]]],
    'zero-extent': [[[6], [0, 6]], [[6], [0, -1]]],
    'negative-extent': [[[6], [-2, 3]], [[2, 3], [-3, -2]]],
}

REFS['shape_reshape'] = Ref(
    _reshape_oracle,
    lambda v: 'k9_reshape shape=%s newshape=%s' % (fmt(v[0]), fmt(v[1])),
    _gen_reshape,
    fixed=[[[2, 3, 4], [4, -1]], [[12], [3, 4]], [[2, 3], [3, 2]], [[2, 3, 2], [12]]] + [r for l in RESHAPE_REFUSALS.values() for r in l])


def _gen_transpose(rng):
    s = rshape(rng, 1, 4)
    return [s, None if rng.random() < 0.25 else _perm(rng, len(s))]


REFS['shape_transpose'] = Ref(
    lambda v: _np_shape(lambda: np.transpose(np.empty(v[0], dtype=np.int8), v[1]).shape),
    lambda v: 'k9_transpose shape=%s axes=%s' % (fmt(v[0]), 'None' if v[1] is None else fmt(v[1])),
    _gen_transpose,
    fixed=[[[2, 3, 4], [2, 0, 1]], [[2, 3, 4], None], [[5, 2], [1, 0]]])


def _bpartner(rng, s, spoil=False):
    """a shape broadcast-compatible with s (delete leading axes / set axes to 1 / add leading axes)"""
    t = list(s)
    for k in range(len(t)):
        if rng.random() < 0.4:
            t[k] = 1
    cut = rng.randint(0, len(t) - 1) if len(t) > 1 else 0
    t = t[cut:]
    if rng.random() < 0.3:
        t = [rng.randint(1, 3)] + [1] * (len(s) - len(t)) + t
    if spoil:
        k = rng.randrange(len(t))
        ref = s[len(s) - len(t) + k] if len(t) <= len(s) else 2
        t[k] = ref + 1 if ref > 1 else t[k]
        if t[k] == 1:
            t[k] = 1
    return t


def _both_orders(reqs):
    """operand order must not matter: every request also with its operands swapped"""
    out = []
    for v in reqs:
        for w in (v, [v[1], v[0]] + list(v[2:])):
            if w not in out:
                out.append(w)
    return out


def _gen_bshape(rng):
    s = rshape(rng, 1, 4, emax=4)
    t = _bpartner(rng, s, spoil=rng.random() < 0.2)
    return [s, t] if rng.random() < 0.5 else [t, s]


REFS['broadcast_shape'] = Ref(
    lambda v: _np_shape(lambda: np.broadcast_shapes(tuple(v[0]), tuple(v[1]))),
    lambda v: 'k9_broadcast_shape shapes=%s;%s' % (fmt(v[0]), fmt(v[1])),
    _gen_bshape,
    fixed=_both_orders([[[2, 1, 4], [3, 1]], [[1], [3, 2]], [[4], [4]], [[1, 3], [2, 1]], [[3, 1, 2], [1, 4, 1]], [[1, 1], [2, 3]],
                        [[2, 1], [2, 1, 3]], [[5, 1, 1], [1, 3]],
                        # refused: mismatch in the last / a leading / a middle axis, next to axes that stretch
                        [[2, 3, 4], [2, 1]], [[3], [4]], [[2, 3], [3, 3]], [[2, 1, 4], [3, 5]], [[1, 3], [2, 2]], [[2, 1, 3], [3, 1, 1]]]))


def _gen_bshape3(rng):
    s = rshape(rng, 1, 4, emax=4)
    return [_bpartner(rng, s), s, _bpartner(rng, s, spoil=rng.random() < 0.15)]


REFS['broadcast_shape3'] = Ref(
    lambda v: _np_shape(lambda: np.broadcast_shapes(*[tuple(x) for x in v])),
    lambda v: 'k9_broadcast_shape shapes=%s' % ';'.join(fmt(x) for x in v),
    _gen_bshape3,
    fixed=[[[2, 1, 4], [3, 1], [1]], [[3, 1], [1], [2, 1, 4]], [[1, 3], [2, 1], [2, 1, 1]],
           [[2, 1, 4], [3, 1], [5]], [[2], [3, 1], [3]], [[3], [1, 3], [2, 2]]])


def _bto_oracle(v):
    a, b = v
    try:
        r = np.broadcast_to(np.empty(a, dtype=np.int8), b).shape
    except Exception:
        return 'nothing'
    off = len(b) - len(a)
    mask = [1 if (k < off or a[k - off] != b[k]) else 0 for k in range(len(b))]
    return 'ok (%s),(%s)' % (fmt(r), fmt(mask))


def _gen_bto(rng):
    b = rshape(rng, 1, 4, emax=4)
    a = _bpartner(rng, b, spoil=rng.random() < 0.2)
    if len(a) > len(b) and rng.random() < 0.7:
        a = a[len(a) - len(b):]
    return [a, b]


REFS['shape_broadcast_to'] = Ref(
    _bto_oracle,
    lambda v: 'k9_broadcast_to ashape=%s bshape=%s' % (fmt(v[0]), fmt(v[1])),
    _gen_bto,
    fixed=[[[3, 1], [2, 3, 4]], [[1], [5]], [[2, 3], [2, 3]], [[1, 1], [2, 3]], [[2, 1, 1], [2, 3, 4]],
           # refused: extent mismatch, source rank above the target rank, target axis 1 under a source axis > 1
           [[3, 2], [2, 3, 4]], [[2, 3], [3]], [[3], [1]], [[2, 3], [2, 4]], [[2, 1, 3], [3, 3]]])


REFS['shape_tile'] = Ref(
    lambda v: _np_shape(lambda: np.tile(np.empty(v[0], dtype=np.int8), v[1]).shape),
    lambda v: 'k9_tile shape=%s reps=%s' % (fmt(v[0]), fmt(v[1])),
    lambda rng: [rshape(rng, 1, 3, emax=3), rshape(rng, 1, 4, emax=3)],
    fixed=[[[2, 3], [2, 1, 2]], [[2, 3, 2], [2]], [[4], [3]]])


def _gen_axis(rng, n, allow_none=True, neg=True):
    if allow_none and rng.random() < 0.2:
        return None
    a = rng.randrange(n)
    return a - n if (neg and rng.random() < 0.35) else a


REFS['shape_repeat'] = Ref(
    lambda v: _np_shape(lambda: np.repeat(np.empty(v[0], dtype=np.int8), v[1], v[2]).shape),
    lambda v: 'k9_repeat shape=%s repeats=%d axis=%s' % (fmt(v[0]), v[1], 'None' if v[2] is None else str(v[2])),
    lambda rng: (lambda s: [s, rng.randint(1, 3), _gen_axis(rng, len(s), neg=False)])(rshape(rng, 1, 3, emax=4)),
    fixed=[[[2, 3], 2, 1], [[2, 3], 2, None], [[2, 3, 2], 3, 0],
           # refused (run-time axis): axis out of range
           [[2, 3], 2, 2], [[2, 3, 2], 2, 3]])


def _gen_repeat_l(rng):
    s = rshape(rng, 1, 3, emax=3)
    ax = _gen_axis(rng, len(s), allow_none=False, neg=False)
    n = s[ax]
    return [s, [rng.randint(0, 3) for _ in range(n)], ax]


REFS['shape_repeat_l'] = Ref(
    lambda v: _np_shape(lambda: np.repeat(np.empty(v[0], dtype=np.int8), v[1], v[2]).shape),
    lambda v: 'k9_repeat shape=%s repeats=%s rlist=1 axis=%s' % (fmt(v[0]), fmt(v[1]), 'None' if v[2] is None else str(v[2])),
    _gen_repeat_l,
    fixed=[[[2, 3], [1, 2, 3], 1], [[2, 2], [2, 1], 0],
           # refused (run-time axis): one count per element of the axis is required; axis out of range
           [[2, 3], [1, 2], 1], [[2, 3], [1, 2, 3, 1], 1], [[2, 3], [1, 2, 3], 2]])


def _rd_oracle(v):
    s, ax, kd = v
    axis = None if ax is None else (tuple(ax) if isinstance(ax, (list, tuple)) else ax)
    return _np_shape(lambda: np.sum(np.empty(s, dtype=np.int8), axis=axis, keepdims=bool(kd)).shape)


def _gen_rd(rng):
    s = rshape(rng, 1, 4, emax=4)
    if rng.random() < 0.15:
        ax = None
    else:
        k = rng.randint(1, len(s))
        ax = rng.sample(range(len(s)), k)
        ax = [a - len(s) if rng.random() < 0.3 else a for a in ax]
    return [s, ax, rng.random() < 0.5]


REFS['remove_dims'] = Ref(
    _rd_oracle,
    lambda v: 'k9_remove_dims shape=%s axis=%s keepdims=%d' % (fmt(v[0]), 'None' if v[1] is None else fmt(v[1]), int(v[2])),
    _gen_rd,
    fixed=[[[2, 3, 4], [0, 2], False], [[2, 3, 4], [1], True], [[2, 3, 4], None, False], [[2, 3], [-1], False], [[2, 3], [1, 0], False]])
REFS['remove_dims_s'] = Ref(
    _rd_oracle,
    lambda v: 'k9_remove_dims shape=%s axis=%d keepdims=%d' % (fmt(v[0]), v[1], int(v[2])),
    lambda rng: (lambda s: [s, _gen_axis(rng, len(s), allow_none=False), rng.random() < 0.5])(rshape(rng, 1, 4, emax=4)),
    fixed=[[[2, 3, 4], 1, False], [[2, 3, 4], -1, True], [[5], 0, False]])


def _na_oracle(v):
    ax, nd = v
    from numpy.lib.array_utils import normalize_axis_index
    try:
        if isinstance(ax, (list, tuple)):
            return 'ok ' + fmt([normalize_axis_index(a, nd) for a in ax])
        return 'ok %d' % normalize_axis_index(ax, nd)
    except Exception:
        return 'nothing'


def _gen_na(rng):
    nd = rng.randint(1, 5)
    k = rng.randint(1, nd)
    ax = rng.sample(range(nd), k)
    ax = [a - nd if rng.random() < 0.4 else a for a in ax]
    if rng.random() < 0.2:
        ax[rng.randrange(k)] = rng.choice([nd, nd + 1, -nd - 1])
    return [ax, nd]


REFS['normalize_axis'] = Ref(
    _na_oracle,
    lambda v: 'k9_normalize_axis axis=%s ndim=%d' % (fmt(v[0]), v[1]),
    _gen_na,
    fixed=[[[-1, 0], 3], [[0, 1, 2], 3], [[-3, -1], 3], [[3, 0], 3], [[-4], 3], [[0, 2], 2], [[1, -3], 2]])
REFS['normalize_axis_s'] = Ref(
    _na_oracle,
    lambda v: 'k9_normalize_axis scalar=1 axis=%d ndim=%d' % (v[0], v[1]),
    lambda rng: (lambda nd: [rng.randint(-nd - 1, nd), nd])(rng.randint(1, 5)),
    fixed=[[-1, 3], [3, 3], [-4, 3], [0, 1]])


def _gen_cat(rng):
    a = rshape(rng, 1, 3, emax=4)
    if rng.random() < 0.2:
        return [a, rshape(rng, 1, 3, emax=4), None]
    ax = _gen_axis(rng, len(a), allow_none=False, neg=False)
    b = list(a); b[ax] = rng.randint(1, 4)
    if rng.random() < 0.2:
        k = rng.randrange(len(a)); b[k] += 1
    return [a, b, ax]


REFS['shape_concatenate'] = Ref(
    lambda v: _np_shape(lambda: np.concatenate((np.empty(v[0], dtype=np.int8), np.empty(v[1], dtype=np.int8)), axis=v[2]).shape),
    lambda v: 'k9_concatenate ashape=%s bshape=%s axis=%s' % (fmt(v[0]), fmt(v[1]), 'None' if v[2] is None else str(v[2])),
    _gen_cat,
    fixed=[[[2, 3], [4, 3], 0], [[2, 3], [4, 3], None], [[2, 3, 2], [2, 1, 2], 1],
           # refused: an extent differs off the joining axis
           [[2, 3], [4, 2], 0], [[2, 3], [3, 3], 1], [[2, 3, 2], [2, 3, 3], 0]])


def _pad_oracle(v):
    s, pw = v
    d = len(s)
    if len(pw) != 2 * d:
        return 'nothing'
    return _np_shape(lambda: np.pad(np.empty(s, dtype=np.int8), [(pw[k], pw[d + k]) for k in range(d)]).shape)


REFS['shape_pad'] = Ref(
    _pad_oracle,
    lambda v: 'k9_pad shape=%s pad_width=%s' % (fmt(v[0]), fmt(v[1])),
    lambda rng: (lambda s: [s, [rng.randint(0, 2) for _ in range(2 * len(s) - (1 if rng.random() < 0.15 else 0))]])(rshape(rng, 1, 3, emax=4)),
    fixed=[[[2, 3], [0, 2, 1, 0]], [[4], [1, 1]], [[2, 3], [0, 2, 1]], [[2, 3], [0, 2, 1, 0, 1]], [[4], [1]]])


def _matmul_oracle(v):
    a, b = v
    if len(a) < 2 or len(b) < 2:
        return 'nothing'
    return _np_shape(lambda: np.matmul(np.empty(a, dtype=np.int8), np.empty(b, dtype=np.int8)).shape)


def _gen_matmul_shape(rng):
    m, k, n = rng.randint(1, 4), rng.randint(1, 4), rng.randint(1, 4)
    batch = rshape(rng, 0, 2, emax=3)
    ba = _bpartner(rng, batch) if batch else []
    a, b = ba + [m, k], batch + [k, n]
    if rng.random() < 0.5:
        a, b = batch + [m, k], ba + [k, n]
    r = rng.random()
    if r < 0.15:
        b[-2] += 1                                  # contraction mismatch -> refused
    elif r < 0.25 and len(a) > 2 and len(b) > 2:
        a[0] = b[len(b) - len(a)] + 1 if len(b) >= len(a) else a[0]      # batch mismatch (unless it stretches)
    return [a, b]


REFS['shape_matmul'] = Ref(
    _matmul_oracle,
    lambda v: 'k9_matmul ashape=%s bshape=%s' % (fmt(v[0]), fmt(v[1])),
    _gen_matmul_shape,
    fixed=[[[2, 3], [3, 4]], [[2, 1, 3, 4], [5, 4, 2]], [[3, 2, 2], [2, 3]], [[1, 2, 3], [4, 3, 1]],
           # refused: contraction extents differ, batch extents neither equal nor 1
           [[2, 3], [2, 2]], [[2, 3, 4], [3, 4, 5]], [[4, 2, 3], [1, 2, 2]]])


def _gen_slice1(rng, n):
    a = rng.randrange(n); b = rng.randint(a + 1, n)
    sl = [None if rng.random() < 0.3 else a, None if rng.random() < 0.3 else b]
    if rng.random() < 0.5:
        sl.append(None if rng.random() < 0.2 else rng.randint(1, 3))
    return sl


REFS['shape_slice'] = Ref(
    lambda v: _np_shape(lambda: np.empty(v[0], dtype=np.int8)[slice(*v[1]), slice(*v[2])].shape),
    lambda v: 'k9_slice shape=%s s0=%s s1=%s' % (fmt(v[0]), G.fmtv(v[1]), G.fmtv(v[2])),
    lambda rng: (lambda s: [s, _gen_slice1(rng, s[0]), _gen_slice1(rng, s[1])])(rshape(rng, 2, 2, emax=6, emin=2)),
    fixed=[[[4, 5], [1, 3], [None, None, 2]], [[4, 5], [0, 4], [1, 5, 2]], [[3, 6], [None, 2], [2, None, 3]]])


# ---- views / evaluations over the array kinds (operand k holds 1000*k + row-major flat id) ------------------------------
def _arr(shape, pos):
    return np.arange(int(np.prod(shape)), dtype=np.int64).reshape(shape) + 1000 * pos


def _np_arr(f):
    try:
        a = np.asarray(f())
    except Exception:
        return 'nothing'
    return 'ok shape=%s data=%s' % (fmt(a.shape), fmt(a.ravel()))


def _vshape(rng, rmax=3, emax=3):
    return rshape(rng, 1, rmax, emax=emax)


def _none_or(v):
    return 'None' if v is None else fmt(v)


_tr = Ref(lambda v: _np_arr(lambda: np.transpose(_arr(v[0], 0), v[1])),
          lambda v: 'k9v_transpose x=%s axes=%s' % (fmt(v[0]), _none_or(v[1])),
          lambda rng: (lambda s: [s, None if rng.random() < 0.25 else _perm(rng, len(s))])(_vshape(rng)),
          fixed=[[[2, 3], [1, 0]], [[2, 3, 2], [2, 0, 1]], [[2, 3], None]])
REFS['v_transpose'] = _tr
REFS['e_transpose'] = Ref(_tr.oracle, _tr.mreq, lambda rng: (lambda s: [s, _perm(rng, len(s))])(_vshape(rng)), fixed=[[[2, 3], [1, 0]], [[3, 2, 2], [1, 2, 0]]])


def _gen_vreshape(rng):
    while True:
        s, d = _gen_reshape(rng)
        if len(s) <= 3 and _np_shape(lambda: np.empty(s, dtype=np.int8).reshape(d).shape) != 'nothing':
            return [s, d]


REFS['v_reshape'] = Ref(lambda v: _np_arr(lambda: _arr(v[0], 0).reshape(v[1])),
                        lambda v: 'k9v_reshape x=%s newshape=%s' % (fmt(v[0]), fmt(v[1])),
                        _gen_vreshape, fixed=[[[2, 3], [3, 2]], [[2, 3, 2], [4, -1]]])
_tile = Ref(lambda v: _np_arr(lambda: np.tile(_arr(v[0], 0), v[1])),
            lambda v: 'k9v_tile x=%s reps=%s' % (fmt(v[0]), fmt(v[1])),
            lambda rng: [_vshape(rng, 2, 3), [rng.randint(1, 2) for _ in range(rng.randint(1, 3))]],
            fixed=[[[2, 3], [2, 1]], [[3], [2, 2]]])
REFS['v_tile'] = _tile
REFS['e_tile'] = Ref(_tile.oracle, _tile.mreq, _tile.gen, fixed=[[[2, 3], [1, 2]], [[2, 2], [2, 1, 1]]])


def _gen_vadd(rng):
    s = _vshape(rng)
    t = _bpartner(rng, s)
    while len(t) > 3 or len(t) == 0:
        t = _bpartner(rng, s)
    return [s, t] if rng.random() < 0.6 else [t, s]


_add = Ref(lambda v: _np_arr(lambda: _arr(v[0], 0) + _arr(v[1], 1)),
           lambda v: 'k9v_add x=%s y=%s' % (fmt(v[0]), fmt(v[1])),
           _gen_vadd, fixed=[[[2, 3], [3]], [[2, 1, 2], [3, 1]]])
REFS['v_add'] = _add
REFS['e_add'] = Ref(_add.oracle, _add.mreq, _gen_vadd, fixed=[[[2, 3], [2, 1]], [[3], [2, 3]]])
REFS['v_sum'] = Ref(lambda v: _np_arr(lambda: np.sum(_arr(v[0], 0), axis=v[1])),
                    lambda v: 'k9v_sum x=%s axis=%d' % (fmt(v[0]), v[1]),
                    lambda rng: (lambda s: [s, _gen_axis(rng, len(s), allow_none=False)])(rshape(rng, 2, 3, emax=3)),
                    fixed=[[[2, 3], 1], [[2, 3, 2], 0], [[2, 3], -1]])


# ---- round 4: more views / evaluations -------------------------------------------------------------------------------
FILL = 9999


def _cond(shape):
    return (np.arange(int(np.prod(shape)), dtype=np.int64) % 2).reshape(shape)


def _vreshape_oracle(v):
    if any(d == 0 or d < -1 for d in v[1]):
        return 'nothing'
    return _np_arr(lambda: _arr(v[0], 0).reshape(v[1]))


def _gen_vreshape_any(rng):
    while True:
        s, d = _gen_reshape(rng)
        if len(s) <= 3:
            return [s, d]


VRESHAPE_FIXED = [[[2, 3], [3, 2]], [[2, 3, 2], [4, -1]], [[2, 3], [6]],
                  # refused: target count a proper divisor / a multiple / coprime, two -1, zero / negative extent
                  [[2, 3, 2], [2, 3]], [[2, 3], [4]], [[2, 3], [3, 4]], [[2, 3], [5]], [[2, 3], [-1, -1]], [[2, 3], [0, 6]], [[2, 3], [-2, 3]],
                  [[12], [2, 3]], [[2, 3], [4, -1]]]
REFS['v_reshape'] = Ref(_vreshape_oracle, REFS['v_reshape'].mreq, _gen_vreshape_any, fixed=VRESHAPE_FIXED)
REFS['e_reshape'] = Ref(_vreshape_oracle, REFS['v_reshape'].mreq, _gen_vreshape_any, fixed=VRESHAPE_FIXED)


def _gen_vadd_any(rng):
    s = _vshape(rng)
    t = _bpartner(rng, s, spoil=rng.random() < 0.25)
    while len(t) > 3 or len(t) == 0:
        t = _bpartner(rng, s)
    return [s, t] if rng.random() < 0.5 else [t, s]


VADD_FIXED = _both_orders([[[2, 3], [3]], [[2, 1, 2], [3, 1]], [[1, 3], [2, 1]], [[2, 3], [2, 1]],
                           # refused
                           [[2, 3], [2]], [[2, 3], [3, 3]], [[2, 1, 3], [2, 2]]])
REFS['v_add'] = Ref(_add.oracle, _add.mreq, _gen_vadd_any, fixed=VADD_FIXED)
REFS['e_add'] = Ref(_add.oracle, _add.mreq, _gen_vadd_any, fixed=VADD_FIXED)


def _gen_vbto(rng):
    b = rshape(rng, 1, 3, emax=3)
    a = _bpartner(rng, b, spoil=rng.random() < 0.25)
    if len(a) > len(b) and rng.random() < 0.7:
        a = a[len(a) - len(b):]
    if len(a) > 3:
        a = a[-3:]
    return [a, b]


_bto = Ref(lambda v: _np_arr(lambda: np.broadcast_to(_arr(v[0], 0), v[1])),
           lambda v: 'k9v_broadcast_to x=%s shape=%s' % (fmt(v[0]), fmt(v[1])),
           _gen_vbto,
           fixed=[[[3, 1], [2, 3, 2]], [[3], [2, 3]], [[1, 1], [2, 3]], [[2, 3], [2, 3]],
                  # refused: extent mismatch, source rank above target rank, target 1 under a source extent > 1
                  [[3, 2], [2, 3]], [[2, 3], [3]], [[3], [1]], [[2, 1, 3], [3, 3]]])
REFS['v_broadcast_to'] = _bto


def _barrays_oracle(v):
    try:
        x, y = np.broadcast_arrays(_arr(v[0], 0), _arr(v[1], 1))
    except Exception:
        return 'nothing'
    return 'ok shape=%s data=%s|shape=%s data=%s' % (fmt(x.shape), fmt(x.ravel()), fmt(y.shape), fmt(y.ravel()))


REFS['v_broadcast_arrays'] = Ref(_barrays_oracle,
                                 lambda v: 'k9v_broadcast_arrays x=%s y=%s' % (fmt(v[0]), fmt(v[1])),
                                 _gen_vadd_any,
                                 fixed=_both_orders([[[2, 1], [3]], [[1, 3], [2, 1]], [[2, 3], [2, 3]],
                                                     [[2, 3], [2]], [[2, 1, 3], [2, 2]]]))
REFS['v_repeat'] = Ref(lambda v: _np_arr(lambda: np.repeat(_arr(v[0], 0), v[1], v[2])),
                       lambda v: 'k9v_repeat x=%s repeats=%d axis=%s' % (fmt(v[0]), v[1], 'None' if v[2] is None else str(v[2])),
                       lambda rng: (lambda s: [s, rng.randint(1, 3), _gen_axis(rng, len(s), neg=False)])(_vshape(rng)),
                       fixed=[[[2, 3], 2, 1], [[2, 3], 2, None], [[2, 2, 2], 3, 0], [[2, 3], 2, 2], [[2, 3], 2, -3]])


def _vpad_oracle(v):
    s, pw = v
    d = len(s)
    if len(pw) != 2 * d:
        return 'nothing'
    return _np_arr(lambda: np.pad(_arr(s, 0), [(pw[k], pw[d + k]) for k in range(d)], constant_values=FILL))


REFS['v_pad'] = Ref(_vpad_oracle,
                    lambda v: 'k9v_pad x=%s pad_width=%s' % (fmt(v[0]), fmt(v[1])),
                    lambda rng: (lambda s: [s, [rng.randint(0, 2) for _ in range(2 * len(s) - (1 if rng.random() < 0.2 else 0))]])(_vshape(rng)),
                    fixed=[[[2, 3], [0, 2, 1, 0]], [[3], [1, 2]], [[2, 3], [0, 2, 1]], [[2, 3], [0, 2, 1, 0, 1]], [[3], [1]]])
REFS['v_slice'] = Ref(lambda v: _np_arr(lambda: _arr(v[0], 0)[slice(*v[1]), slice(*v[2])]),
                      lambda v: 'k9v_slice x=%s s0=%s s1=%s' % (fmt(v[0]), G.fmtv(v[1]), G.fmtv(v[2])),
                      lambda rng: (lambda s: [s, _gen_slice1(rng, s[0]), _gen_slice1(rng, s[1])])(rshape(rng, 2, 2, emax=5, emin=2)),
                      fixed=[[[2, 3], [0, 1], [None, None, 2]], [[3, 4], [1, 3], [0, 4, 3]], [[4, 3], [None, 2], [1, None]]])


def _gen_vflip(rng):
    s = _vshape(rng)
    if rng.random() < 0.2:
        return [s, None]
    ax = rng.sample(range(len(s)), rng.randint(1, len(s)))
    return [s, [a - len(s) if rng.random() < 0.3 else a for a in ax]]


def _axis_arg(a):
    return None if a is None else (tuple(a) if isinstance(a, (list, tuple)) else a)


REFS['v_flip'] = Ref(lambda v: _np_arr(lambda: np.flip(_arr(v[0], 0), _axis_arg(v[1]))),
                     lambda v: 'k9v_flip x=%s axis=%s' % (fmt(v[0]), _none_or(v[1])),
                     _gen_vflip, fixed=[[[2, 3], [1]], [[2, 3], None], [[2, 3, 2], [0, -1]]])
REFS['v_flip_s'] = Ref(lambda v: _np_arr(lambda: np.flip(_arr(v[0], 0), v[1])),
                       lambda v: 'k9v_flip x=%s axis=%d' % (fmt(v[0]), v[1]),
                       lambda rng: (lambda s: [s, _gen_axis(rng, len(s), allow_none=False)])(_vshape(rng)),
                       fixed=[[[2, 3], 1], [[2, 3, 2], -3]])


def _gen_vexpand(rng):
    s = _vshape(rng, 2, 3)
    k = rng.randint(1, 2)
    n = len(s) + k
    ax = sorted(rng.sample(range(n), k))
    return [s, ax]


REFS['v_expand_dims'] = Ref(lambda v: _np_arr(lambda: np.expand_dims(_arr(v[0], 0), tuple(v[1]))),
                            lambda v: 'k9v_expand_dims x=%s axis=%s' % (fmt(v[0]), fmt(v[1])),
                            _gen_vexpand, fixed=[[[2, 3], [1]], [[2, 3], [0, 2]], [[3], [1]],
                                                 # refused: axis outside [-n, n) of the result rank n, axis listed twice
                                                 [[2, 3], [3]], [[2, 3], [-4]], [[2, 3], [0, 0]]])
REFS['v_squeeze'] = Ref(lambda v: _np_arr(lambda: np.squeeze(_arr(v[0], 0))),
                        lambda v: 'k9v_squeeze x=%s' % fmt(v[0]),
                        lambda rng: [[rng.choice([1, 1, 2, 3]) for _ in range(rng.randint(1, 3))] + [2]],
                        fixed=[[[2, 1, 3]], [[1, 2, 1]], [[2, 3]]])


def _gen_vcat(rng):
    a = _vshape(rng)
    if rng.random() < 0.2:
        return [a, _vshape(rng), None]
    ax = _gen_axis(rng, len(a), allow_none=False, neg=False)
    b = list(a); b[ax] = rng.randint(1, 3)
    return [a, b, ax]


REFS['v_concatenate'] = Ref(lambda v: _np_arr(lambda: np.concatenate((_arr(v[0], 0), _arr(v[1], 1)), axis=v[2])),
                            lambda v: 'k9v_concatenate x=%s y=%s axis=%s' % (fmt(v[0]), fmt(v[1]), 'None' if v[2] is None else str(v[2])),
                            _gen_vcat, fixed=[[[2, 3], [1, 3], 0], [[2, 3], [2], None], [[2, 3], [2, 1], 1],
                                              # refused: an extent differs off the joining axis, axis out of range
                                              [[2, 3], [2, 2], 0], [[2, 3], [2, 3], 2],
                                              # (an extent along the axis above the extent of the last axis: known finding)
                                              [[3, 2], [2, 2], 0], [[3, 3, 2], [3, 3, 2], 0]])


def _gen_vwhere(rng):
    s = _vshape(rng)
    def part(spoil=False):
        t = _bpartner(rng, s, spoil=spoil)
        while len(t) > 3 or len(t) == 0:
            t = _bpartner(rng, s)
        return t
    l = [s, part(), part(spoil=rng.random() < 0.25)]
    rng.shuffle(l)
    return l


_where = Ref(lambda v: _np_arr(lambda: np.where(_cond(v[0]) != 0, _arr(v[1], 1), _arr(v[2], 2))),
             lambda v: 'k9v_where c=%s x=%s y=%s' % (fmt(v[0]), fmt(v[1]), fmt(v[2])),
             _gen_vwhere,
             fixed=[[[2, 3], [3], [2, 1]], [[3], [2, 1], [2, 3]], [[2, 1], [2, 3], [1, 3]], [[2, 3], [2, 3], [2, 3]],
                    # refused: one operand does not broadcast with the others (each position)
                    [[2, 3], [2], [2, 3]], [[2], [2, 3], [3]], [[2, 3], [3], [2, 2]]])
REFS['v_where'] = _where


def _gen_vmatmul(rng):
    m, k, n = rng.randint(1, 3), rng.randint(1, 3), rng.randint(1, 3)
    batch = rshape(rng, 0, 1, emax=2)
    ba = [1] * len(batch) if rng.random() < 0.3 else list(batch)
    if rng.random() < 0.3:
        ba = []
    a, b = ba + [m, k], batch + [k, n]
    return [a, b] if rng.random() < 0.5 else [batch + [m, k], ba + [k, n]]


_matmul = Ref(lambda v: _np_arr(lambda: np.matmul(_arr(v[0], 0), _arr(v[1], 1))),
              lambda v: 'k9v_matmul x=%s y=%s' % (fmt(v[0]), fmt(v[1])),
              _gen_vmatmul, fixed=[[[2, 3], [3, 2]], [[2, 2, 3], [3, 1]], [[1, 2], [2, 2, 2]],
                                   # refused: contraction extents differ, batch extents neither equal nor 1
                                   [[2, 3], [2, 2]], [[2, 2, 3], [3, 3, 1]]])
REFS['v_matmul'] = _matmul
REFS['e_matmul'] = Ref(_matmul.oracle, _matmul.mreq, _matmul.gen, fixed=_matmul.fixed)


def _gen_vsumk(rng):
    s = rshape(rng, 2, 3, emax=3)
    if rng.random() < 0.15:
        return [s, None, rng.random() < 0.5]
    ax = rng.sample(range(len(s)), rng.randint(1, len(s)))
    return [s, [a - len(s) if rng.random() < 0.3 else a for a in ax], rng.random() < 0.5]


_sumk = Ref(lambda v: _np_arr(lambda: np.sum(_arr(v[0], 0), axis=_axis_arg(v[1]), keepdims=bool(v[2]))),
            lambda v: 'k9v_sum_k x=%s axis=%s keepdims=%d' % (fmt(v[0]), _none_or(v[1]), int(v[2])),
            _gen_vsumk,
            fixed=[[[2, 3], [1], True], [[2, 3, 2], [0, 2], False], [[2, 3], None, False], [[2, 3, 2], [-1], True], [[2, 3], None, True]])
REFS['v_sum_k'] = _sumk
REFS['e_sum_k'] = Ref(_sumk.oracle, _sumk.mreq, _sumk.gen, fixed=_sumk.fixed)
REFS['v_sum_ks'] = Ref(lambda v: _np_arr(lambda: np.sum(_arr(v[0], 0), axis=v[1], keepdims=bool(v[2]))),
                       lambda v: 'k9v_sum_k x=%s axis=%d keepdims=%d' % (fmt(v[0]), v[1], int(v[2])),
                       lambda rng: (lambda s: [s, _gen_axis(rng, len(s), allow_none=False), rng.random() < 0.5])(rshape(rng, 2, 3, emax=3)),
                       fixed=[[[2, 3], 1, True], [[2, 3], -2, False], [[2, 3, 2], 1, False]])


def _gen_vtake(rng):
    s = _vshape(rng)
    ax = _gen_axis(rng, len(s), allow_none=False)
    return [s, [rng.randrange(s[ax]) for _ in range(rng.randint(1, 3))], ax]


REFS['v_take'] = Ref(lambda v: _np_arr(lambda: np.take(_arr(v[0], 0), v[1], axis=v[2])),
                     lambda v: 'k9v_take x=%s indices=%s axis=%d' % (fmt(v[0]), fmt(v[1]), v[2]),
                     _gen_vtake, fixed=[[[2, 3], [2, 0], 1], [[3, 2], [1, 1, 0], 0], [[2, 3], [1], -1]])


# ------------------------------------------------------------------------------------------------
# known findings: predicates over the INPUT CLASS of a case (operation, values, kinds, clipped bounds)
# ------------------------------------------------------------------------------------------------
CL = ('cl', 'clt')
FIXED_LEN_KINDS = {'ct', 'cl', 'clt', 'a', 'raw', 'tup', 'f', 'utla', 'ba'}
BOUNDED_LEN_KINDS = {'sv', 'h', 'bsv'}


def parse_req(req):
    """request line -> dict(op, build, mode, salt, kinds=[...], args={name: value}, argkind={name: kind})"""
    parts = dict(p.split('=', 1) for p in req.split(' ')[1:] if '=' in p)
    op = parts['op']
    o = G.OPS[op]
    kinds = parts['kinds'].split('/')
    args, argkind = {}, {}
    for (an, vt), k in zip(o.args, kinds):
        t = parts[an]
        if t == 'None':
            v = None
        elif vt in ('L', 'I', 'A', 'C', 'S'):
            v = [] if t == '[]' else [None if x == 'N' else int(x) for x in t.split(',')]
        else:
            v = int(t)
        args[an] = v; argkind[an] = k
    return dict(op=op, build=parts['build'], mode=parts['mode'], salt=int(parts['salt']), kinds=kinds, args=args, argkind=argkind,
                argpos={an: j for j, (an, vt) in enumerate(o.args)}, argtype={an: vt for an, vt in o.args})


def clipped_bounds(r, an):
    """[(lo, hi)] of the clipped elements of argument `an` as the generator spelled them"""
    v = r['args'][an]
    signed = r['argtype'][an] == 'I'
    base = r['salt'] + 5 * r['argpos'][an]
    return [G.cl_bounds(x, base + j, signed, r['argkind'][an] == 'clt') for j, x in enumerate(v)]


def kf_remove_dims_runtime_keepdims(c):
    """remove_dims with a RUN-TIME keepdims flag: the result container is sized from the TYPE of keepdims
    (true_type / false_type), so keepdims=true on a fixed- or bounded-length shape overflows the result, and
    axis=None with keepdims=false leaves rank dim-1 instead of 0"""
    r = parse_req(c.req)
    if r['op'] not in ('remove_dims', 'remove_dims_s') or r['argkind']['keepdims'] != 'rt':
        return False
    if r['args']['axis'] is None:
        return True      # rank 0 / rank dim is decided from the type: dim-1 zeros (keepdims=false), None (keepdims=true)
    return r['args']['keepdims'] == 1 and r['argkind']['shape'] in (FIXED_LEN_KINDS | BOUNDED_LEN_KINDS)


def kf_normalize_axis_clipped_negative(c):
    """normalize_axis with a tuple of clipped integers holding a negative or out-of-range axis: the element type is
    taken as unsigned, the value passes through un-normalised and is never refused"""
    r = parse_req(c.req)
    if r['op'] != 'normalize_axis' or r['argkind']['axis'] not in CL:
        return False
    nd = r['args']['ndim']
    return any(a < 0 or a >= nd for a in r['args']['axis'])


def kf_reshape_clipped_bounds(c):
    """shape_reshape with a clipped source or target shape: the result bounds / the acceptance are computed from the
    BOUNDS of the clipped integers: a `-1` slot is clamped to its own bound, and a valid request whose bounds do not
    multiply to the same element count yields a failure type"""
    r = parse_req(c.req)
    if r['op'] not in ('shape_reshape', 'v_reshape', 'e_reshape'):
        return False
    if r['argkind']['newshape'] in CL and any(d == -1 for d in r['args']['newshape']):
        return True
    lists = ('shape', 'newshape') if r['op'] == 'shape_reshape' else ('newshape',)
    if not any(r['argkind'][an] in CL for an in lists):
        return False
    # bounds not tight somewhere
    slack = False
    for an in lists:
        if r['argkind'][an] in CL:
            # upper bound above the value, or a range reaching below 0 around a non-negative value (the resolver reads
            # `min < 0` as "this slot is the -1 placeholder")
            slack |= any(hi != v or (lo < 0 <= v) for (lo, hi), v in zip(clipped_bounds(r, an), r['args'][an]))
    return slack


def kf_broadcast_clipped_one_with_slack(c):
    """broadcast_shape where a clipped shape holds an extent 1 whose bound is > 1: the result bound of that axis is
    taken from the clipped operand alone, so the extent contributed by the other operand is clamped"""
    r = parse_req(c.req)
    if r['op'] not in ('broadcast_shape', 'broadcast_shape3'):
        return False
    for an, k in r['argkind'].items():
        if k in CL and any(v == 1 and hi > 1 for (lo, hi), v in zip(clipped_bounds(r, an), r['args'][an])):
            return True
    return False


def kf_eval_tile_fixed_buffer(c):
    """eval(view::tile(x, reps)) where the tiling enlarges the array and the result container inferred for the evaluation
    is too small / of the wrong rank (measured over all 35 x 8 kind pairs): (a) x with a hybrid or dynamic SHAPE over a
    fixed or hybrid BUFFER, any reps kind; (b) hybrid shape over a dynamic buffer when the rank grows; (c) x with a
    fixed-rank or clipped shape (except fixed-rank over a dynamic buffer) when reps has a compile-time length (constant /
    clipped / array / raw / tuple) and the rank does not grow: the result keeps the extents / bounds of x"""
    r = parse_req(c.req)
    if r['op'] != 'e_tile':
        return False
    k = r['argkind']['x']
    k = k[:-4] if k.endswith('_col') else k
    reps, x = r['args']['reps'], r['args']['x']
    grow = any(v > 1 for v in reps) or len(reps) > len(x)
    if not grow:
        return False
    if k in ('hs_fb', 'hs_hb', 'ds_fb', 'ds_hb'):
        return True
    if k == 'hs_db':
        return len(reps) > len(x)
    if k in ('fs_fb', 'fs_hb', 'ls_fb', 'ls_hb', 'ls_db'):
        return len(reps) <= len(x) and r['argkind']['reps'] not in ('sv', 'v')
    return False


def kf_repeat_clipped_repeats(c):
    """shape_repeat with a constant shape, a constant axis and a tuple of CLIPPED repeats whose bounds are not tight: the
    all-compile-time branch treats the clipped repeats as constants equal to their bounds"""
    r = parse_req(c.req)
    if r['op'] != 'shape_repeat_l' or r['argkind']['repeats'] not in CL:
        return False
    if r['argkind']['shape'] != 'ct' or r['argkind']['axis'] not in ('ct', 'none'):
        return False
    return any(hi != v for (lo, hi), v in zip(clipped_bounds(r, 'repeats'), r['args']['repeats']))


def array_shape_class(kind):
    """how much of the shape of an array kind is known at compile time"""
    k = kind[:-4] if kind.endswith('_col') else kind
    if k in ('a', 'raw', 'f') or k.startswith('cs_'):
        return 'constant'
    if k.startswith('ls_'):
        return 'clipped'
    if k == 'h' or k.startswith('hs_'):
        return 'bounded'
    if k.startswith('fs_'):
        return 'fixed-rank'
    return 'dynamic'


def kf_take_clipped_indices(c):
    """view::take with a constant / clipped source shape and a tuple of CLIPPED index entries, where an extent
    of the result exceeds the upper bound of the last index entry: the result shape takes its element type from the index
    entries and clamps"""
    r = parse_req(c.req)
    if r['op'] != 'v_take' or r['argkind']['indices'] not in CL:
        return False
    if array_shape_class(r['argkind']['x']) not in ('constant', 'clipped'):
        return False
    s = list(r['args']['x'])
    s[r['args']['axis'] % len(s)] = len(r['args']['indices'])
    bound = clipped_bounds(r, 'indices')[-1][1]
    return any(e > bound for e in s)


def kf_repeat_constant_axis_invalid(c):
    """repeat with a compile-time-constant axis and a refused request (axis out of range / wrong number of counts): only
    a run-time axis is validated"""
    r = parse_req(c.req)
    if r['op'] not in ('shape_repeat', 'shape_repeat_l', 'v_repeat') or r['argkind']['axis'] != 'ct':
        return False
    shape = r['args']['shape' if 'shape' in r['args'] else 'x']
    ax = r['args']['axis']
    if ax is None:
        return False
    if not (-len(shape) <= ax < len(shape)):
        return True
    reps = r['args']['repeats']
    return isinstance(reps, list) and len(reps) != shape[ax]


def kf_concatenate_clipped_operand(c):
    """view::concatenate along an axis where an operand with a clipped shape has an extent above the bound of its last axis"""
    r = parse_req(c.req)
    if r['op'] != 'v_concatenate' or r['args']['axis'] is None:
        return False
    for an in ('x', 'y'):
        s_ = r['args'][an]
        if array_shape_class(r['argkind'][an]) == 'clipped':
            ax = r['args']['axis']
            if -len(s_) <= ax < len(s_) and s_[ax] > s_[-1]:
                return True
    return False


KNOWN_PREDICATES = {
    'concatenate_clipped_operand': kf_concatenate_clipped_operand,
    'repeat_constant_axis_invalid': kf_repeat_constant_axis_invalid,
    'take_clipped_indices': kf_take_clipped_indices,
    'repeat_clipped_repeats': kf_repeat_clipped_repeats,
    'eval_tile_fixed_buffer': kf_eval_tile_fixed_buffer,
    'remove_dims_runtime_keepdims': kf_remove_dims_runtime_keepdims,
    'normalize_axis_clipped_negative': kf_normalize_axis_clipped_negative,
    'reshape_clipped_bounds': kf_reshape_clipped_bounds,
}


# ------------------------------------------------------------------------------------------------
# the plan: requests x kind assignments x builds -> TUs
# ------------------------------------------------------------------------------------------------
_plan_cache = {}


def seed_now():
    return int(os.environ.get('VERIF_SEED', '0'))


def requests(tier, seed):
    """[(op, vals, rid)]"""
    out = []
    if tier == 'quick':
        rng = random.Random(1234)      # the quick request sample is fixed
        for op, ref in REFS.items():
            view = G.OPS[op].level == 'view'
            for v in (quick_view_requests(op) if view else ref.fixed):
                out.append((op, v))
            if not view:
                out.append((op, ref.gen(rng)))
    else:
        rng = random.Random(seed * 7919 + 17)
        for op, ref in REFS.items():
            view = G.OPS[op].level == 'view'
            for v in ref.fixed:
                out.append((op, v))
            for _ in range(3 if view else 10):
                out.append((op, ref.gen(rng)))
    seen = set(); res = []
    for op, v in out:
        k = (op, json.dumps(v))
        if k not in seen:
            seen.add(k); res.append((op, v, len(res)))
    return res


QUICK_VIEW_EXTRA = {
    # beyond "first accepted + first refused request": the count classes of reshape, operand order of the binary operations
    'v_reshape': [[[2, 3], [3, 4]], [[2, 3], [-1, -1]]],
    'v_add': [[[3], [2, 3]], [[1, 3], [2, 1]], [[2, 1], [1, 3]], [[2], [2, 3]]],
    'v_broadcast_arrays': [[[3], [2, 1]]],
    'v_where': [[[3], [2, 1], [2, 3]]],
    'v_sum_k': [[[2, 3], None, False]],
    'v_concatenate': [[[3, 2], [2, 2], 0]],
}


def quick_view_requests(op):
    """fixed quick sample of a view / evaluation: the first accepted request, the first refused one (when the operation
    can refuse), and the extras above"""
    ref = REFS[op]
    ok = [v for v in ref.fixed if ref.oracle(v) != 'nothing']
    bad = [v for v in ref.fixed if ref.oracle(v) == 'nothing']
    out = ok[:1] + bad[:1]
    for v in QUICK_VIEW_EXTRA.get(op, []):
        if v not in out:
            out.append(v)
    return out


def supported(pins, build, op, refusal=False):
    e = pins.get(build, {}).get(op, {})
    if refusal:
        return set(e.get('supported_refusal', [])) & set(e.get('supported', []))
    return set(e.get('supported', []))


def assignments(op, vals, build, rng, tier, pins, todo_sigs):
    """kind assignments (kinds, mode) of one request in one build"""
    sup = supported(pins, build, op, refusal=(REFS[op].oracle(vals) == 'nothing'))
    allk = G.all_assignments(op, vals, build)
    o = G.OPS[op]
    chosen = []
    # diagonal: every list kind used for all list arguments at once; scalars cycle
    per = G.kinds_per_arg(op, vals, build)
    width = max(len(p) for p in per)
    for j in range(width):
        chosen.append(tuple(p[j % len(p)] for p in per))
    refusal = REFS[op].oracle(vals) == 'nothing'
    if tier == 'quick' and o.level == 'view':
        # compile-bound: the full array-kind diagonal of an op runs in ONE build (rotating), every 4th kind in the others
        # (a refused request: none in the others); the shape-class x second-argument-kind pairs in ONE other build
        bi = sorted(G.BUILDS).index(build)
        oi = sorted(G.OPS).index(op)
        if (oi % len(G.BUILDS)) != bi:
            chosen = [] if refusal else chosen[(oi + bi) % 4::4]
        if ((oi + 2) % len(G.BUILDS)) == bi:
            chosen += G.view_pairs(op, per)
    if tier != 'quick' and o.level == 'view':
        # the array-kind diagonal and the class pairs once per op, build and verdict (accepted / refused); later requests
        # only get mixed draws + the signature sweep below
        if todo_sigs.get(('diag-done', build, op, refusal)):
            chosen = []
        else:
            chosen += G.view_pairs(op, per)
        todo_sigs[('diag-done', build, op, refusal)] = True
    nmix = (3 if o.level == 'view' else 6) if tier == 'quick' else (3 if o.level == 'view' else 10)
    if o.level == 'index':
        # the type-level branches key on the CLASS of each argument (constant / clipped / fixed / bounded / dynamic):
        # every pair of classes for the first two list arguments, the remaining arguments cycling
        lpos = [j for j, ((an, vt), v) in enumerate(zip(o.args, vals)) if vt in ('L', 'I') and v is not None][:2]
        if len(lpos) == 2:
            cls = ['ct', 'cl', 'clt', 'a', 'sv', 'v']
            t = 0
            for ka in cls:
                for kb in cls:
                    if ka in per[lpos[0]] and kb in per[lpos[1]]:
                        k = [p[t % len(p)] for p in per]
                        k[lpos[0]] = ka; k[lpos[1]] = kb
                        chosen.append(tuple(k)); t += 1
    n_diag = len(chosen)
    if len(allk) > len(chosen):
        chosen += rng.sample(allk, min(nmix, len(allk)))
    n_fixed = len(chosen)
    if len(allk) > len(chosen):
        pass
    out = []
    seen = set()
    for j, k in enumerate(chosen):
        for mode in ('rt', 'cx'):
            if mode == 'cx' and not G.cx_ok(op, vals, k):
                continue
            s = G.sig(op, k, mode)
            if s in sup and (k, mode) not in seen:
                seen.add((k, mode)); out.append((k, mode, j >= n_diag))
    if tier != 'quick':
        # cover every pinned signature at least once over the run
        pend = todo_sigs.setdefault((build, op), sorted(supported(pins, build, op)))
        take = []
        for s in list(pend):
            ks, mode = parse_sig(s)
            if s in sup and ks in allk and (mode == 'rt' or G.cx_ok(op, vals, ks)):
                take.append((ks, mode)); pend.remove(s)
                if len(take) >= (40 if o.level == 'view' else 120):
                    break
        for km in take:
            if km not in seen:
                seen.add(km); out.append((km[0], km[1], True))
    return out


def parse_sig(s):
    mode = 'rt'
    if s.endswith('|cx'):
        mode = 'cx'; s = s[:-3]
    return tuple(p.split(':', 1)[1] for p in s.split(',')), mode


def plan(tier):
    seed = seed_now()
    key = (tier, seed)
    if key in _plan_cache:
        return _plan_cache[key]
    pins = G.load_pins()
    rng = random.Random(seed * 104729 + 5)
    reqs = requests(tier, seed)
    tus = {}     # name -> (build, [KCase])
    items = []   # (KCase, build, expected, mreq, tags, harness)
    todo = {}
    for build in G.BUILDS:
        cases = []
        for op, vals, rid in reqs:
            rrng = random.Random(seed * 104729 + 31 * rid + 5)      # same draw for the same request in every build
            for kinds, mode, seeded in assignments(op, vals, build, rrng, tier, pins, todo):
                cases.append((seeded, G.KCase(op, vals, kinds, mode, salt=rid % 6, rid=rid)))
        # seed-independent cases (the kind diagonal) first: their TUs are identical for every VERIF_SEED and stay cached
        fixed_part = [c for sd, c in cases if not sd]
        seeded_part = [c for sd, c in cases if sd]
        cases = fixed_part + ['flush'] + seeded_part
        # chunk by compile weight (a view case instantiates ~6x more than an index case)
        chunk, w, n = [], 0, 0
        for c in cases + [None]:
            flush = c is None or c == 'flush'
            cw = 0 if flush else OP_WEIGHT.get(c.op, VIEW_WEIGHT if G.OPS[c.op].level == 'view' else 1)
            if flush or (chunk and w + cw > CASES_PER_TU):
                if chunk:
                    tus['k9_%s_%s_%02d' % (tier[0], build, n)] = (build, chunk)
                    n += 1
                chunk, w = [], 0
            if not flush:
                chunk.append(c); w += cw
    _plan_cache[key] = (reqs, tus)
    return _plan_cache[key]


_compile_errors = {}      # case key+build -> compiler error excerpt (cases of this run that do not compile)


def _ce_cache_path():
    return os.path.join(G.GEN_DIR, 'compile_errors_%s.json' % runner.include_tree_hash()[:16])


def _load_ce():
    p = _ce_cache_path()
    if os.path.exists(p):
        try:
            return json.load(open(p))
        except Exception:
            return {}
    return {}


_CHK = 'chk-%d' % os.getpid()


def build_tus(tus):
    """generate and build the TUs {name: (build, [KCase])} with a bounded number of jobs (the runner then finds them
    cached).  A TU that does not compile is bisected (G.probe): the offending cases become stubs answering `compile-error`,
    so that the other cases still run and the offending ones are judged like any other answer.  Returns the harness specs."""
    os.makedirs(G.GEN_DIR, exist_ok=True)
    runner.include_tree_hash()
    ce = _load_ce()           # {build: {case key: error}} for this include tree

    def build_one(name):
        build, cases = tus[name]
        b = G.BUILDS[build]
        known = ce.get(build, {})
        stubs = {c.key for c in cases if c.key in known}
        src = G.write_tu(name, cases, build, stubs)
        binp, log = runner.harness_build(name, src, 'fast', tuple(b['extra']), b['compiler'])
        new = {}
        if binp is None:
            live = [c for c in cases if c.key not in stubs]
            okc, bad = G.probe(live, build, name, repo=runner.REPO, subdir=_CHK)
            new = bad
            stubs |= set(bad)
            src = G.write_tu(name, cases, build, stubs)
            binp, log = runner.harness_build(name, src, 'fast', tuple(b['extra']), b['compiler'])
        return name, build, src, new, {k: known[k] for k in stubs if k in known}

    specs = []
    with ThreadPoolExecutor(max_workers=MAX_JOBS) as ex:
        for name, build, src, new, old in ex.map(build_one, list(tus)):
            b = G.BUILDS[build]
            specs.append(dict(name=name, src=src, flavour='fast', extra=tuple(b['extra']), compiler=b['compiler']))
            for k, v in list(new.items()) + list(old.items()):
                _compile_errors[(build, k)] = v
            if new:
                ce.setdefault(build, {}).update(new)
    tmp = '%s.%d.tmp' % (_ce_cache_path(), os.getpid())
    with open(tmp, 'w') as f:
        json.dump(ce, f, indent=0, sort_keys=True)
    os.replace(tmp, _ce_cache_path())
    # probe files of THIS process only (checks may run side by side and share .build/gen_c09)
    chk = os.path.join(G.GEN_DIR, _CHK)
    for fn in (os.listdir(chk) if os.path.isdir(chk) else []):
        try:
            os.remove(os.path.join(chk, fn))
        except OSError:
            pass
    try:
        os.rmdir(chk)
    except OSError:
        pass
    return specs


def harness_specs(tier):
    reqs, tus = plan(tier)
    return build_tus(tus)


def make_case(c, build, name):
    """the runner Case of one generated kind case"""
    ref = REFS[c.op]
    exp = ref.oracle(c.vals)
    nt = exp == 'nothing' or any(isinstance(v, (list, tuple)) and len(v) >= 2 for v in c.vals)
    tags = ['op=' + c.op, 'build=' + build, 'mode=' + c.mode] + ['kind=' + k for k in sorted(set(c.kinds))] + \
           (['expect-nothing'] if exp == 'nothing' else [])
    return Case('k9 id=%s build=%s %s' % (c.key, build, c.text()), name, dom=True, oracle=exp, mreq=ref.mreq(c.vals),
                nontrivial=nt, tags=tags, cmp=same)


def gen(tier, rng):
    reqs, tus = plan(tier)
    for name, (build, cases) in tus.items():
        for c in cases:
            yield make_case(c, build, name)


def post(cases, tier):
    """cross-kind agreement per request (independent of the reference): every answer of one request must be the same"""
    out = []
    groups = {}
    for c in cases:
        if c.impl in (None, 'no-harness'):
            continue
        rk = c.req.split(' op=', 1)[1].split(' kinds=', 1)[0]
        groups.setdefault(rk, []).append(c)
    bad = []
    for rk, cs in groups.items():
        answers = {}
        for c in cs:
            answers.setdefault(canon(c.impl), []).append(c)
        if len(answers) > 1:
            bad.append((rk, answers))
    if os.environ.get('K9_DEBUG'):
        with open(os.environ['K9_DEBUG'], 'w') as f:
            for c in cases:
                if c.impl is not None and c.oracle is not None and not same(c.impl, c.oracle):
                    f.write('%s -> impl=%s expected=%s err=%s\n' % (c.req, c.impl, c.oracle, _compile_errors.get(
                        (c.req.split(' build=')[1].split(' ')[0], c.req.split(' id=')[1].split(' ')[0]), '')))
    _stats['groups'] = len(groups)
    _stats['disagreeing_groups'] = len(bad)
    # pinned combinations that no longer compile (and are not a compile-time refusal / a known finding)
    known = runner.load_known(ID)
    stopped = []
    for c in cases:
        if c.impl is None or not c.impl.startswith('compile-error') or c.oracle is None or same(c.impl, c.oracle):
            continue
        if any(KNOWN_PREDICATES.get(e.get('predicate'), lambda _c: False)(c) for e in known):
            continue
        r = parse_req(c.req)
        stopped.append({'req': c.req, 'signature': G.sig(r['op'], r['kinds'], r['mode']), 'expected': c.oracle,
                        'compiler_error': _compile_errors.get((r['build'], c.req.split(' id=')[1].split(' ')[0]), '')})
    _stats['stopped_compiling'] = len(stopped)
    if stopped:
        sigs = sorted({(x['req'].split(' build=')[1].split(' ')[0], x['signature']) for x in stopped})
        out.append(('kind-stopped-compiling',
                    '%d pinned-supported kind combinations do not compile any more, e.g. %s %s: %s' % (
                        len(sigs), sigs[0][0], sigs[0][1], stopped[0]['compiler_error'][:200]),
                    {'cases': stopped[:40], 'signatures': ['%s %s' % x for x in sigs][:200]}, True))
    return out


_stats = {}


def coverage_extra(cases, tier):
    progs = len({c.req for c in cases})
    sigs = {}
    for c in cases:
        parts = dict(p.split('=', 1) for p in c.req.split(' ')[1:] if '=' in p)
        sigs.setdefault((parts.get('build'), parts.get('op')), set()).add((parts.get('kinds'), parts.get('mode')))
    pins = G.load_pins()
    n_sup = sum(len(v.get('supported', [])) for b in pins.values() for v in b.values())
    n_unsup = sum(len(v.get('unsupported', {})) for b in pins.values() for v in b.values())
    samples = [{'program': c.req, 'harness': c.harness, 'impl': c.impl, 'reference_lean': c.mans, 'reference_numpy': c.oracle}
               for c in (cases[:3] + cases[len(cases) // 2:len(cases) // 2 + 3] + cases[-2:])]
    return {
        'programs': progs,
        'disagreements_checked': sum(1 for c in cases if c.impl not in (None, 'no-harness')),
        'request_groups_cross_checked': _stats.get('groups', 0),
        'request_groups_disagreeing': _stats.get('disagreeing_groups', 0),
        'translation_units': len({c.harness for c in cases}),
        'kind_signatures_exercised': sum(len(v) for v in sigs.values()),
        'kind_signatures_pinned_supported': n_sup,
        'kind_signatures_pinned_unsupported': n_unsup,
        'builds': sorted(G.BUILDS),
        'samples': samples,
    }


# ------------------------------------------------------------------------------------------------
# slices of the kind matrix for the properties that own the operations
# ------------------------------------------------------------------------------------------------
# A defect seeded into a kind-specific `if constexpr` branch of an operation is invisible to the harness of the property
# owning that operation when that harness feeds dynamic containers only.  `slice_for` hands such a property the part of the
# kind matrix that concerns ITS operations, small enough to ride along in its own check.
OPS_BY_PROPERTY = {
    'C01': ['compute_strides', 'product', 'compute_offset', 'compute_indices'],
    'C03': ['shape_reshape', 'shape_transpose', 'v_transpose', 'e_transpose', 'v_reshape', 'e_reshape', 'v_flip', 'v_flip_s',
            'v_expand_dims', 'v_squeeze'],
    'C04': ['shape_tile', 'shape_repeat', 'shape_repeat_l', 'shape_concatenate', 'shape_pad', 'v_tile', 'e_tile', 'v_repeat', 'v_pad',
            'v_concatenate', 'v_take', 'v_where'],
    'C05': ['shape_slice', 'v_slice'],
    'C06': ['broadcast_shape', 'broadcast_shape3', 'shape_broadcast_to', 'v_broadcast_to', 'v_broadcast_arrays'],
    'C07': ['v_add', 'e_add', 'v_where'],
    'C08': ['remove_dims', 'remove_dims_s', 'normalize_axis', 'normalize_axis_s', 'v_sum', 'v_sum_k', 'v_sum_ks', 'e_sum_k'],
    # the operations that CAN refuse (use slice_for(..., refused_only=True): only their refused requests)
    'C15': ['shape_reshape', 'broadcast_shape', 'broadcast_shape3', 'shape_broadcast_to', 'normalize_axis', 'normalize_axis_s',
            'shape_concatenate', 'shape_pad', 'shape_matmul', 'v_reshape', 'e_reshape', 'v_broadcast_to', 'v_broadcast_arrays', 'v_add',
            'v_where', 'v_pad'],
    'C16': ['shape_matmul', 'v_matmul', 'e_matmul'],
}
SLICE_BUILD = 'stl-gcc'
# compile budget of one slice in units of one index-level case (~0.035 s with g++ -O1): quick ~55 s cold, one TU
SLICE_BUDGET = {'quick': 1600, 'thorough': 6400}
SLICE_CAP = {'quick': 150, 'thorough': 600}           # cases per operation


def _slice_cost(op):
    return 1 if G.OPS[op].level == 'index' else 3 * OP_WEIGHT.get(op, VIEW_WEIGHT)


def _slice_candidates(op, vals, salt, pins):
    """kind assignments of one request in priority order: the class pairs (constant / clipped / clipped-tight / array /
    static_vector / vector for the first two list arguments; for views the shape class of the array x every kind of the
    second argument) first, then the diagonal; constexpr twins directly after their run-time case"""
    o = G.OPS[op]
    refusal = REFS[op].oracle(vals) == 'nothing'
    sup = supported(pins, SLICE_BUILD, op, refusal=refusal)
    per = G.kinds_per_arg(op, vals, SLICE_BUILD)
    chosen = []
    if o.level == 'index':
        lpos = [j for j, ((an, vt), v) in enumerate(zip(o.args, vals)) if vt in ('L', 'I') and v is not None][:2]
        if len(lpos) == 2:
            cls = ['ct', 'cl', 'clt', 'a', 'sv', 'v']
            t = 0
            pairs = []
            for ka in cls:
                for kb in cls:
                    if ka in per[lpos[0]] and kb in per[lpos[1]]:
                        k = [p[t % len(p)] for p in per]
                        k[lpos[0]] = ka; k[lpos[1]] = kb
                        pairs.append(tuple(k)); t += 1
            # compile-time knowledge on ONE side first (a constant argument against a run-time one: array, vector, clipped,
            # static_vector, tight clipped), then clipped against run-time, then the rest
            rank = {'a': 0, 'v': 1, 'cl': 2, 'sv': 3, 'clt': 4}

            def prio(k):
                ka, kb = k[lpos[0]], k[lpos[1]]
                if (ka == 'ct') != (kb == 'ct'):
                    return (0, rank[kb if ka == 'ct' else ka], ka != 'ct')
                if ka != kb and 'ct' not in (ka, kb):
                    return (1, 0, 0)
                return (2, 0, 0)
            chosen += sorted(pairs, key=prio)
    else:
        # the second argument in its constant kind against every shape class of the array first (run-time shapes first),
        # then array / vector / clipped ..., i.e. the pairs of G.view_pairs read column by column
        pairs = G.view_pairs(op, per)
        arank = {k: j for j, k in enumerate(['fs_db', 'ds_db', 'a', 'hs_hb', 'cs_hb', 'ls_fb'])}
        brank = {k: j for j, k in enumerate(['ct', 'a', 'v', 'cl', 'fs_hb', 'cs_fb', 'd', 'sv', 'clt', 'raw', 'tup', 'rt', 'rtz'])}
        chosen += sorted(pairs, key=lambda k: (brank.get(k[1], 50), arank.get(k[0], 50)))
    chosen += G.diagonals(per, 1)
    out, seen = [], set()
    for k in chosen:
        for mode in ('rt', 'cx'):
            if mode == 'cx' and not G.cx_ok(op, vals, k):
                continue
            if G.sig(op, k, mode) in sup and (k, mode) not in seen:
                seen.add((k, mode))
                out.append(G.KCase(op, vals, k, mode, salt=salt))
    return out


def slice_for(ops, tier, rng, refused_only=False, prefix='k9s'):
    """The slice of the C09 kind matrix for the operations `ops` (names as in OPS_BY_PROPERTY), for use inside the check of
    the property that owns them.  Returns `(harness_specs, cases)`:

    * `harness_specs`: what `mod.harness_specs(tier)` returns for the generated TU(s) of the slice (ONE TU, build stl-gcc);
      the TU is generated and compiled here (a case that does not compile against $VERIF_REPO is stubbed and answers
      `compile-error`, exactly as in C09 proper), so the runner finds it cached.  The TU name is
      `<prefix>_<q|t>_<digest of the operation names>`: the same slice requested by two properties is built once.
    * `cases`: runner `Case` objects in the request format of C09 (`k9 id=.. build=.. op=.. <args> kinds=.. mode=.. salt=..`),
      `oracle` = the single reference answer (NumPy), `mreq` = the reference op of the Lean driver (`k9_*` / `k9v_*`,
      answered by Driver.C09 whatever property runs the check), `cmp` = `same` (failure type / compile-time refusal =
      `nothing`), `dom=True`.

    Content: per operation the fixed requests of C09 (accepted AND refused ones; `refused_only=True` keeps the refused ones,
    for C15) — in thorough also 10 requests drawn from `rng` — under the kind assignments of `_slice_candidates`
    (mixed constant / clipped / run-time pairs first, then every kind once), round-robin over the requests, capped at
    SLICE_CAP[tier] cases per operation and at a total compile budget of SLICE_BUDGET[tier] (~55 s cold in quick; view cases
    cost 9-30 units, so a slice with many views gets ~10-20 cases per view).  Only pinned-supported signatures are used.

    An open known finding of C09 can show up in a slice: apply `slice_known(case)` before reporting a disagreement."""
    ops = [op for op in ops if op in REFS]
    pins = G.load_pins()
    budget = SLICE_BUDGET.get(tier, SLICE_BUDGET['quick'])
    cap = SLICE_CAP.get(tier, SLICE_CAP['quick'])
    per_op = {}
    for op in ops:
        ref = REFS[op]
        view = G.OPS[op].level == 'view'
        reqs = list(ref.fixed) if (tier != 'quick' or not view) else quick_view_requests(op)
        if tier != 'quick':
            reqs += [ref.gen(rng) for _ in range(10)]
        ok = [v for v in reqs if ref.oracle(v) != 'nothing']
        bad = [v for v in reqs if ref.oracle(v) == 'nothing']
        if op in ('shape_reshape', 'v_reshape', 'e_reshape') and not view:
            # one refused request per class before the second of any class
            cl = list(RESHAPE_REFUSALS.values())
            bad = [l[j] for j in range(max(len(l) for l in cl)) for l in cl if j < len(l)] + [v for v in bad if not any(v in l for l in cl)]
        if tier == 'quick':
            ok, bad = ok[:3], bad[:(12 if refused_only else 7)]
        order = []
        if refused_only:
            order = bad
        else:
            for j in range(max(len(ok), len(bad))):       # accepted and refused requests alternate
                order += ok[j:j + 1] + bad[j:j + 1]
        lists = [_slice_candidates(op, v, j % 6, pins) for j, v in enumerate(order)]
        inter = []
        for i in range(max([len(l) for l in lists] + [0])):
            for l in lists:
                if i < len(l):
                    inter.append(l[i])
        per_op[op] = inter[:cap]
    # share the compile budget: every operation gets an equal share, what an operation cannot use goes to the others
    want = {op: len(per_op[op]) for op in ops}
    give = {op: 0 for op in ops}
    left = budget
    active = [op for op in ops if want[op] > 0]
    while active and left > 0:
        share = left / len(active)
        progressed = False
        for op in list(active):
            n = min(want[op] - give[op], int(share // _slice_cost(op)))
            if n > 0:
                give[op] += n; left -= n * _slice_cost(op); progressed = True
            if give[op] >= want[op]:
                active.remove(op)
        if not progressed:
            break
    chosen = [c for op in ops for c in per_op[op][:max(give[op], min(want[op], 4))]]
    if not chosen:
        return [], []
    digest = hashlib.sha256((','.join(sorted(ops)) + ('|refused' if refused_only else '')).encode()).hexdigest()[:8]
    name = '%s_%s_%s' % (prefix, tier[0], digest)
    specs = build_tus({name: (SLICE_BUILD, chosen)})
    return specs, [make_case(c, SLICE_BUILD, name) for c in chosen]


def slice_known(case):
    """id of the open C09 known finding whose input-class predicate contains the case (a slice case in the hands of another
    property), or None.  The entries are read from known/C09.json (falling back to known_findings.json)."""
    p = os.path.join(runner.ROOT, 'known', 'C09.json')
    try:
        entries = json.load(open(p))
    except Exception:
        entries = runner.load_known(ID)
    for e in entries:
        if e.get('status', 'open') != 'open':
            continue
        f = KNOWN_PREDICATES.get(e.get('predicate'))
        try:
            if f is not None and f(case):
                return e['id']
        except Exception:
            continue
    return None
