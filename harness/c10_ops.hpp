// C10 harness: the operations a composition may use, lazily (view::fn) and eagerly (array::fn), and the interpreter.
#pragma once
#include "nmtools/array/view/transpose.hpp"
#include "nmtools/array/view/reshape.hpp"
#include "nmtools/array/view/flatten.hpp"
#include "nmtools/array/view/expand_dims.hpp"
#include "nmtools/array/view/squeeze.hpp"
#include "nmtools/array/view/flip.hpp"
#include "nmtools/array/view/moveaxis.hpp"
#include "nmtools/array/view/tile.hpp"
#include "nmtools/array/view/repeat.hpp"
#include "nmtools/array/view/roll.hpp"
#include "nmtools/array/view/pad.hpp"
#include "nmtools/array/view/take.hpp"
#include "nmtools/array/view/slice.hpp"
#include "nmtools/array/view/broadcast_to.hpp"
#include "nmtools/array/view/ufuncs/add.hpp"
#include "nmtools/array/view/ufuncs/multiply.hpp"
#include "nmtools/array/view/ufuncs/amax.hpp"
#include "nmtools/array/view/where.hpp"
#include "nmtools/array/view/sum.hpp"
#include "nmtools/array/view/prod.hpp"
#include "nmtools/array/view/cumsum.hpp"
#include "nmtools/array/view/matmul.hpp"
#include "nmtools/array/view/concatenate.hpp"
#include "nmtools/array/view/stack.hpp"
#include "nmtools/array/view/softmax.hpp"

#include "nmtools/array/array/transpose.hpp"
#include "nmtools/array/array/reshape.hpp"
#include "nmtools/array/array/flatten.hpp"
// view::stack calls `concatenate(expand_dims(lhs, axis), …)` unqualified: with array/expand_dims.hpp or
// array/concatenate.hpp in the same TU these calls are ambiguous through ADL (compile error).  A TU that compiles STACK
// therefore evaluates expand_dims through array::eval and has no concatenate.
#ifndef C10_WITH_STACK
#include "nmtools/array/array/expand_dims.hpp"
#include "nmtools/array/array/concatenate.hpp"
#endif
#include "nmtools/array/array/squeeze.hpp"
#include "nmtools/array/array/flip.hpp"
#include "nmtools/array/array/moveaxis.hpp"
#include "nmtools/array/array/tile.hpp"
#include "nmtools/array/array/repeat.hpp"
#include "nmtools/array/array/roll.hpp"
#include "nmtools/array/array/pad.hpp"
#include "nmtools/array/array/take.hpp"
// array/slice.hpp declares array::apply_slice(array, tuple_t<slices_t...>), which ADL used to prefer over
// view::apply_slice in the unqualified calls inside view::flip / view::slice / view::split / reduce_t / accumulate_t /
// matmul_t (repaired defect adl.eager-apply_slice: view::flip silently became eager, view::matmul read dangling
// pointers).  It is included in every TU on purpose: all compositions run with the eager header present.
#include "nmtools/array/array/slice.hpp"
#include "nmtools/array/array/broadcast_to.hpp"
#include "nmtools/array/array/ufuncs/add.hpp"
#include "nmtools/array/array/ufuncs/multiply.hpp"
#include "nmtools/array/array/ufuncs/amax.hpp"
#include "nmtools/array/array/where.hpp"
#include "nmtools/array/array/sum.hpp"
#include "nmtools/array/array/prod.hpp"
#include "nmtools/array/array/cumsum.hpp"
#include "nmtools/array/array/matmul.hpp"
#include "nmtools/array/array/stack.hpp"
#include "nmtools/array/array/softmax.hpp"
#include "c10_common.hpp"

namespace c10 {

using slices_t = std::vector<std::array<int,3>>;
inline slices_t slices_of(const Op& op) {
    // slice:<start,stop,step>/<start,stop,step>... one triple per axis, written a,b,c/a,b,c
    slices_t r; if (op.args.empty()) throw bad_args("slice");
    for (auto& t : split(op.args[0], '/')) { auto v = parse_ints(t); if (v.size() != 3) throw bad_args("slice"); r.push_back({(int)v[0], (int)v[1], (int)v[2]}); }
    return r;
}

template <typename X> constexpr bool static_rank_below2() {
    constexpr auto d = meta::fixed_dim_v<X>;
    if constexpr (meta::is_fail_v<decltype(d)>) return false; else return d < 2;
}

// apply one operation to `x` lazily or eagerly and hand the result (view / maybe<view> / ndarray / maybe<ndarray>) to `k`
template <int W, int D, typename X, typename P, typename K>
std::string apply_op(const X& x, const Op& op, const P& p, bool eager, K k) {
    const int code = op_code(op.name);
    const auto Row = na::RowMajorResolver;
    (void)Row;
#define C10_CASE(OP, ...) case OP: if constexpr (on<W,D,OP>()) { __VA_ARGS__ } break;
#define C10_BOTH(fn, ...) return eager ? k(na::fn(__VA_ARGS__)) : k(view::fn(__VA_ARGS__));
    switch (code) {
    C10_CASE(TRANSPOSE,   auto ax = op.iv(0); C10_BOTH(transpose, x, ax))
    C10_CASE(RESHAPE,     auto s = op.iv(0); C10_BOTH(reshape, x, s))
    C10_CASE(FLATTEN,     C10_BOTH(flatten, x))
#ifndef C10_WITH_STACK
    C10_CASE(EXPAND_DIMS, auto ax = op.iv(0); C10_BOTH(expand_dims, x, ax))
#else
    C10_CASE(EXPAND_DIMS, auto ax = op.iv(0); return eager ? k(na::eval(view::expand_dims(x, ax), nm::None, nm::None, Row)) : k(view::expand_dims(x, ax));)
#endif
    C10_CASE(SQUEEZE,     C10_BOTH(squeeze, x))
    C10_CASE(FLIP,        auto ax = op.iv(0); C10_BOTH(flip, x, ax))
    C10_CASE(MOVEAXIS,    auto s = op.iv(0); auto d = op.iv(1); C10_BOTH(moveaxis, x, s, d))
    C10_CASE(TILE,        auto r = op.uv(0); C10_BOTH(tile, x, r))
    C10_CASE(REPEAT,      int r = op.i(0); int ax = op.i(1); C10_BOTH(repeat, x, r, ax))
    C10_CASE(ROLL,        int s = op.i(0); int ax = op.i(1); C10_BOTH(roll, x, s, ax))
    C10_CASE(PAD,         auto w = op.iv(0); C10_BOTH(pad, x, w, (elem_t)-1))
    C10_CASE(TAKE,        auto ind = op.iv(0); int ax = op.i(1); C10_BOTH(take, x, ind, ax))
    C10_CASE(SLICE,       auto sl = slices_of(op); C10_BOTH(apply_slice, x, sl))
    C10_CASE(BROADCAST_TO, auto s = op.uv(0); C10_BOTH(broadcast_to, x, s))
    C10_CASE(ADDB,        C10_BOTH(add, x, p.b))
    C10_CASE(MULB,        C10_BOTH(multiply, p.b, x))
    C10_CASE(WHERE,       C10_BOTH(where, p.c, x, p.b))
    C10_CASE(SUM,         int ax = op.i(0);
                          if (op.i(1)) { C10_BOTH(sum, x, ax, nm::None, nm::None, nm::True) }
                          else { C10_BOTH(sum, x, ax, nm::None, nm::None, nm::False) })
    C10_CASE(PROD,        int ax = op.i(0); C10_BOTH(prod, x, ax, nm::None, nm::None, nm::False))
    C10_CASE(AMAX,        int ax = op.i(0); C10_BOTH(amax, x, ax, nm::None, nm::None, nm::True))
    // 3-argument form: the 2-argument view::cumsum calls `cumsum(a, axis, None)` unqualified, which is ambiguous with
    // array::cumsum through ADL once array/cumsum.hpp is included
    C10_CASE(CUMSUM,      int ax = op.i(0); C10_BOTH(cumsum, x, ax, nm::None))
    // (a left operand whose rank is statically 1 does not instantiate: shape_matmul recurses over dim-2 axes)
    C10_CASE(MATMUL,      if constexpr (static_rank_below2<X>()) return "unsupported-static-rank"; else { C10_BOTH(matmul, x, p.b) })
#ifndef C10_WITH_STACK
    C10_CASE(CONCATENATE, int ax = op.i(0); C10_BOTH(concatenate, x, p.b, ax))
#else
    C10_CASE(STACK,       int ax = op.i(0); C10_BOTH(stack, x, p.b, ax))
#endif
    C10_CASE(SOFTMAX,     int ax = op.i(0); C10_BOTH(softmax, x, ax))
    C10_CASE(SUMRT,       int ax = op.i(0); bool keep = op.i(1) != 0; C10_BOTH(sum, x, ax, nm::None, nm::None, keep))
    C10_CASE(TRANSPOSE_N, C10_BOTH(transpose, x, nm::None))
    C10_CASE(RESHAPE_CT,  auto s = nmtools_tuple{meta::ct_v<3>, meta::ct_v<2>}; C10_BOTH(reshape, x, s))
    C10_CASE(SUM_CT,      C10_BOTH(sum, x, meta::ct_v<0>, nm::None, nm::None, nm::True))
    C10_CASE(TILE_CT,     auto r = nmtools_tuple{meta::ct_v<2>, meta::ct_v<1>}; C10_BOTH(tile, x, r))
    C10_CASE(ADDSELF,     C10_BOTH(add, x, x))
#ifndef C10_WITH_STACK
    C10_CASE(CONCATSELF,  C10_BOTH(concatenate, x, x, meta::ct_v<0>))
#endif
    default: break;
    }
#undef C10_CASE
#undef C10_BOTH
    return code < 0 ? "unknown-opname" : "op-not-compiled:" + op.name + "@" + std::to_string(D);
}

template <int W, int D, typename X, typename P, typename K> std::string run(const X& x, const P& p, size_t pos, K k);

// unwrap maybe / either results, then continue with the next op
template <int W, int D, typename V, typename P, typename K>
std::string next(const V& v, const P& p, size_t pos, K k) {
    if constexpr (meta::is_maybe_v<V>) {
        if (!nm::has_value(v)) return "nothing";
        return next<W,D>(*v, p, pos, k);
    } else if constexpr (meta::is_either_v<V>) {
        using L = meta::get_either_left_t<V>; using R = meta::get_either_right_t<V>;
        if (auto l = nm::get_if<L>(&v)) return next<W,D>(*l, p, pos, k);
        return next<W,D>(*nm::get_if<R>(&v), p, pos, k);
    } else {
        return run<W, D + 1>(v, p, pos + 1, k);
    }
}

#ifndef C10_MAXD
#define C10_MAXD 3
#endif
template <int W, int D, typename X, typename P, typename K>
std::string run(const X& x, const P& p, size_t pos, K k) {
    if (pos == p.ops.size()) return k(x);
    if constexpr (D >= C10_MAXD) return "too-deep";
    else if constexpr (meta::is_num_v<X>) return "num-operand";
    else return apply_op<W,D>(x, p.ops[pos], p, p.eager(pos), [&](const auto& v) { return next<W,D>(v, p, pos, k); });
}

} // namespace c10
