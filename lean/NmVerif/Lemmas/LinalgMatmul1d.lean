import NmVerif.Lemmas.LinalgMatmul
import NmVerif.Lemmas.LinalgMatmulV2
/-
  `view::matmul` (slicing implementation) with 1-d operands — NumPy's promotion, since fix C16-matmul-1d-operand:
  a 1-d lhs is taken whole as the row (`[:]`), a 1-d rhs whole as the column; the result index has no row / column
  coordinate for it.  Together with `matmulV1_elem` (both ranks ≥ 2): `matmulV1_eq_spec_all` for all ranks ≥ 1.
-/
namespace NmVerif
open NmVerif.MB
open Linalg

theorem getNeg?_single_1 (x : Nat) : getNeg? [x] 1 = some x := getNeg?_append_one [] x

/-- the element of `view::matmul` from its two 1-d slices of equal length `k`: the terms `(l kk, r kk)`, `kk` in order -/
theorem matmulV1_fold (k : Nat) (f g : Idx → Idx) :
    (mulT (⟨[k], f⟩ : Arr Idx) ⟨[k], g⟩).map (fun m => (sumLast 1 m).get []) =
      some ((List.range k).map (fun kk => (f [kk], g [kk]))) := by
  simp only [mulT, bcast2, broadcastShape, List.reverse_cons, List.reverse_nil, List.nil_append, bcRev, bc1_self]
  simp only [Option.map_some, List.reverse_cons, List.reverse_nil, List.nil_append]
  rw [sumLast_one_get _ [] k rfl]
  simp only [List.nil_append]
  congr 1
  apply List.map_congr_left
  intro kk hkk
  rw [bcIdx_single (List.mem_range.1 hkk)]

/-- lhs of rank ≥ 2, 1-d rhs: the result is `ba ++ [m]`, `out[p…, i] = Σ_k a[p…, i, k] · b[k]` -/
theorem matmulV1_elem_21 (ba : Shape) (m k : Nat) :
    ∃ r, matmulV1 (ba ++ [m, k]) [k] = some r ∧ r.shape = ba ++ [m] ∧
      ∀ (p : Idx) (i : Nat), p.length = ba.length →
      r.get (p ++ [i]) = some ((List.range k).map (fun kk => (bcIdx p ba ++ [i, kk], [kk]))) := by
  have hsh : shapeMatmul (ba ++ [m, k]) [k] = some (ba ++ [m]) := by
    rw [shapeMatmul_eq_spec _ _ (by simp) (by simp)]
    simp [specMatmulShape]
  unfold matmulV1
  rw [hsh]
  refine ⟨_, rfl, rfl, ?_⟩
  intro p i hp
  simp only
  have hs : matmulSlices (p ++ [i]) (ba ++ [m, k]) [k] (ba ++ [m]) = some (bcIdx p ba, some i, [], none) := by
    unfold matmulSlices
    have e1 : ¬ (ba ++ [m, k]).length = 1 := by simp
    simp only [e1, if_false, List.length_singleton, if_true, getNeg?_append_one, Option.map_some]
    rw [matmulBatchIdx_eq' p ba [i] m k _ (by simp; omega) (by omega), matmulBatchIdx_single]
    simp [hp]
  rw [hs]
  simp only [getNeg?_append_two_1, List.length_singleton, if_true, List.getElem?_cons_zero, Option.toList_some,
    Option.toList_none, List.append_nil, List.nil_append]
  rw [matmulV1_fold]
  simp

/-- 1-d lhs, rhs of rank ≥ 2: the result is `bb ++ [n]`, `out[γ…, j] = Σ_k a[k] · b[γ…, k, j]` -/
theorem matmulV1_elem_12 (bb : Shape) (k n : Nat) :
    ∃ r, matmulV1 [k] (bb ++ [k, n]) = some r ∧ r.shape = bb ++ [n] ∧
      ∀ (γ : Idx) (j : Nat), γ.length = bb.length →
      r.get (γ ++ [j]) = some ((List.range k).map (fun kk => ([kk], bcIdx γ bb ++ [kk, j]))) := by
  have hsh : shapeMatmul [k] (bb ++ [k, n]) = some (bb ++ [n]) := by
    rw [shapeMatmul_eq_spec _ _ (by simp) (by simp)]
    simp [specMatmulShape]
  unfold matmulV1
  rw [hsh]
  refine ⟨_, rfl, rfl, ?_⟩
  intro γ j hγ
  simp only
  have e2 : ¬ (bb ++ [k, n]).length = 1 := by simp
  have hs : matmulSlices (γ ++ [j]) [k] (bb ++ [k, n]) (bb ++ [n]) = some ([], none, bcIdx γ bb, some j) := by
    unfold matmulSlices
    simp only [e2, if_false, List.length_singleton, if_true, getNeg?_append_one, Option.map_some]
    rw [matmulBatchIdx_eq' γ bb [j] k n _ (by simp; omega) (by omega), matmulBatchIdx_single]
    simp [hγ]
  rw [hs]
  simp only [e2, if_false, getNeg?_single_1, getNeg?_append_two_2, Option.toList_some,
    Option.toList_none, List.append_nil, List.nil_append]
  rw [matmulV1_fold]
  simp

/-- both operands 1-d: the result has no axis, `out = Σ_k a[k] · b[k]` -/
theorem matmulV1_elem_11 (k : Nat) :
    ∃ r, matmulV1 [k] [k] = some r ∧ r.shape = [] ∧
      r.get [] = some ((List.range k).map (fun kk => ([kk], [kk]))) := by
  have hsh : shapeMatmul [k] [k] = some [] := by
    rw [shapeMatmul_eq_spec _ _ (by simp) (by simp)]
    simp [specMatmulShape, batchOf]
  unfold matmulV1
  rw [hsh]
  refine ⟨_, rfl, rfl, ?_⟩
  simp only
  have hs : matmulSlices [] [k] [k] [] = some ([], none, [], none) := by
    unfold matmulSlices
    simp [matmulBatchIdx_single]
  rw [hs]
  simp only [getNeg?_single_1, List.length_singleton, if_true, List.getElem?_cons_zero,
    Option.toList_none, List.append_nil, List.nil_append]
  rw [matmulV1_fold]

/-- `view::matmul` = NumPy's matmul on every accepted pair of operand shapes of rank ≥ 1 — batch broadcasting and 1-d
    promotion on either side included: NumPy's shape and, for every element, the list of product terms in order -/
theorem matmulV1_eq_spec_all (sa sb dst : Shape) (ha : 1 ≤ sa.length) (hb : 1 ≤ sb.length)
    (hacc : specMatmulShape sa sb = some dst) :
    ∃ r, matmulV1 sa sb = some r ∧ r.shape = dst ∧
      ∀ d, InShape d dst → r.get d = some (specMatmulTerms sa sb d) := by
  by_cases ha2 : 2 ≤ sa.length <;> by_cases hb2 : 2 ≤ sb.length
  · exact matmulV1_eq_spec sa sb dst ha2 hb2 hacc
  · obtain ⟨ba, m, k, rfl⟩ := exists_append_two sa ha2
    obtain ⟨k', rfl⟩ := eq_singleton_of_length hb hb2
    simp [specMatmulShape] at hacc
    obtain ⟨rfl, rfl⟩ := hacc
    obtain ⟨r, hr, hsh, hget⟩ := matmulV1_elem_21 ba m k
    refine ⟨r, hr, hsh, ?_⟩
    intro d hd
    obtain ⟨p, i, rfl, hp, hi⟩ := inShape_append_one hd
    rw [hget p i hp.length_eq, specMatmulTerms_21]
  · obtain ⟨bb, k', n, rfl⟩ := exists_append_two sb hb2
    obtain ⟨k, rfl⟩ := eq_singleton_of_length ha ha2
    simp [specMatmulShape] at hacc
    obtain ⟨rfl, rfl⟩ := hacc
    obtain ⟨r, hr, hsh, hget⟩ := matmulV1_elem_12 bb k n
    refine ⟨r, hr, hsh, ?_⟩
    intro d hd
    obtain ⟨γ, j, rfl, hγ, hj⟩ := inShape_append_one hd
    rw [hget γ j hγ.length_eq, specMatmulTerms_12]
  · obtain ⟨k, rfl⟩ := eq_singleton_of_length ha ha2
    obtain ⟨k', rfl⟩ := eq_singleton_of_length hb hb2
    simp [specMatmulShape] at hacc
    obtain ⟨rfl, rfl⟩ := hacc
    obtain ⟨r, hr, hsh, hget⟩ := matmulV1_elem_11 k
    refine ⟨r, hr, hsh, ?_⟩
    intro d hd
    have : d = [] := by cases d <;> simp_all [InShape]
    subst this
    rw [hget, specMatmulTerms_11]

end NmVerif
