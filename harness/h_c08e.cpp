// C08 harness, TU "e": cumsum / cumprod / sum / prod over NARROW element types (int8, uint8, int16) with a wider result
// dtype: the fold must be carried out in the requested dtype (NumPy: `np.cumsum(a, axis, dtype=int32)`), so a running
// value beyond the element range must not wrap (seeded change C08-2 held the accumulator in the element type).
//   request: narrow et=<i8|u8|i16> fn=<cumsum|cumprod|sum|prod> api=<view|array> dtype=<i32|i64|f64> shape=… axis=<int> data=…
#include "nmtools/array/array/sum.hpp"
#include "nmtools/array/array/prod.hpp"
#include "nmtools/array/array/cumsum.hpp"
#include "nmtools/array/array/cumprod.hpp"
#include "nmtools/array/ndarray.hpp"
#include "c08_common.hpp"
#include <vector>
#include <cstdint>
namespace nm = nmtools; namespace na = nmtools::array; namespace view = nmtools::view;
using namespace proto;

template <typename F> static std::string with_dtype(const Args& a, F f) {
    std::string d = get(a, "dtype");
    if (d == "i32") return f(nm::int32);
    if (d == "i64") return f(nm::int64);
    if (d == "f64") return f(nm::float64);
    throw bad_args("dtype");
}
template <typename T> static std::string run(const Args& a) {
    using arr_t = na::ndarray_t<std::vector<T>, std::vector<size_t>>;
    auto arr = c08::make_array<arr_t>(a);
    std::string fn = get(a, "fn"); bool eager = get(a, "api") == "array"; int axis = (int)integer(a, "axis");
    return with_dtype(a, [&](auto dtype) -> std::string {
        if (fn == "cumsum")  return eager ? c08::emit(na::cumsum(arr, axis, dtype))  : c08::emit(view::cumsum(arr, axis, dtype));
        if (fn == "cumprod") return eager ? c08::emit(na::cumprod(arr, axis, dtype)) : c08::emit(view::cumprod(arr, axis, dtype));
        std::vector<int> ax{axis};
        if (fn == "sum")  return eager ? c08::emit(na::sum(arr, ax, dtype, nm::None, false))  : c08::emit(view::sum(arr, ax, dtype, nm::None, false));
        if (fn == "prod") return eager ? c08::emit(na::prod(arr, ax, dtype, nm::None, false)) : c08::emit(view::prod(arr, ax, dtype, nm::None, false));
        throw bad_args("fn");
    });
}
std::string handle(const std::string& op, const Args& a) {
    if (op != "narrow") return "unknown-op";
    std::string et = get(a, "et");
    if (et == "i8")  return run<int8_t>(a);
    if (et == "u8")  return run<uint8_t>(a);
    if (et == "i16") return run<int16_t>(a);
    throw bad_args("et");
}
