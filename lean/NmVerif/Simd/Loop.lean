import NmVerif.Basic
import NmVerif.NDA
/-
  NmVerif.Simd.Loop — MODEL of the "packed loop + scalar tail" evaluators of
    include/nmtools/array/eval/simd/evaluator/ufunc.hpp
      eval_unary            (l.38-86)    packed loop on raw data(), tail through apply_at
      eval_binary SAME_SHAPE(l.404-419)  same structure with two operands
      eval_reduction, out_size == 1              vertical accumulate from set1(identity), horizontal fold, leftover
  and of the default (scalar) evaluator of include/nmtools/array/eval.hpp they are compared with.

  Buffers are `List`s; a packed load/store that would leave its buffer is `none`
  (the C++ has undefined behaviour there), so "never reads or writes outside its buffers"
  is the statement "the evaluator returns `some _`".

  The intrinsic wrappers (`op.eval` of `simd::ufunc_simd_t`) are a *parameter* `packF`; theorems
  take the hypothesis `LaneWise` (lane-wise = the scalar op) — see Props/C12.lean.

  Core Lean only: linked into the driver.
-/
namespace NmVerif.Simd
open NmVerif

variable {α β : Type}

/-! ### raw buffer accesses -/

/-- `op.loadu(&buf[i])`: `lanes` consecutive elements; `none` = the load leaves the buffer -/
def loadu (buf : List α) (i lanes : Nat) : Option (List α) :=
  if i + lanes ≤ buf.length then some ((buf.drop i).take lanes) else none

/-- `op.storeu(&buf[i], reg)`; `none` = the store leaves the buffer -/
def storeu (buf : List α) (i : Nat) (reg : List α) : Option (List α) :=
  if i + reg.length ≤ buf.length then some (buf.take i ++ reg ++ buf.drop (i + reg.length)) else none

/-- `buf[i] = v` on a raw pointer; `none` = outside the buffer -/
def writeAt (buf : List α) (i : Nat) (v : α) : Option (List α) :=
  if i < buf.length then some (buf.set i v) else none

/-- `buf[i]` on a raw pointer -/
def readAt (buf : List α) (i : Nat) : Option α := buf[i]?

/-! ### the loop skeleton -/

/-- index sequence of `for (size_t i=0; (i+N)<=size; i+=N)`, by fuel (`size+1` iterations suffice) -/
def packedLoopIdx (lanes n : Nat) : Nat → Nat → List Nat
  | 0, _ => []
  | fuel+1, i => if i + lanes ≤ n then i :: packedLoopIdx lanes n fuel (i + lanes) else []

def packedStarts (lanes n : Nat) : List Nat := packedLoopIdx lanes n (n+1) 0

/-- index sequence of the leftover loop `for (size_t i=(size/N)*N; i<size; i++)` -/
def tailIdx (lanes n : Nat) : List Nat := List.range' ((n / lanes) * lanes) (n - (n / lanes) * lanes)

/-! ### scalar (default) evaluator: `out(ndindex k) = f(view(ndindex k))`, output row-major -/

/-- all reads succeed (no access left a buffer) -/
def allSome : List (Option α) → Option (List α)
  | [] => some []
  | none :: _ => none
  | some x :: xs => (allSome xs).map (x :: ·)

/-- logical elements of an array in row-major enumeration order (what `eval` copies out) -/
def logical (a : NDA α) : Option (List α) :=
  allSome ((List.range (prod a.shape)).map (fun k => a.get? (ndindex a.shape k)))

def scalarUnary (f : α → β) (a : NDA α) : Option (List β) := (logical a).map (·.map f)

/-! ### eval_unary -/

/-- `eval_unary`: `packF` is `op.eval` on a register, `f` the scalar functor `view.op`.
    `out` is the freshly resized output buffer (row-major `ndarray_t`). -/
def simdUnary (lanes : Nat) (packF : List α → List β) (f : α → β) (a : NDA α) (out : List β) : Option (List β) := do
  let n := prod a.shape                       -- inp_index.size()
  let out ← (packedStarts lanes n).foldlM (fun o i => do
      let r ← loadu a.data i lanes            -- op.loadu(&inp_ptr[i])
      storeu o i (packF r)) out               -- op.storeu(&out_ptr[i], op.eval(a))
  (tailIdx lanes n).foldlM (fun o i => do
      let idx := ndindex a.shape i            -- inp_index[i] == out_index[i]
      let v ← a.get? idx                      -- apply_at(view, inp_idx)
      writeAt o (computeOffset idx (strides a.shape)) (f v)) out   -- apply_at(output, out_idx) = …

/-! ### eval_binary, SAME_SHAPE case -/

def scalarBinarySame (f : α → α → β) (a b : NDA α) : Option (List β) := do
  let x ← logical a
  let y ← logical b
  pure (List.zipWith f x y)

/-- `eval_binary`, `utils::isequal(lhs_shape, rhs_shape)` branch -/
def simdBinarySame (lanes : Nat) (packF : List α → List α → List β) (f : α → α → β)
    (a b : NDA α) (out : List β) : Option (List β) := do
  let n := prod a.shape
  let out ← (packedStarts lanes n).foldlM (fun o i => do
      let l ← loadu a.data i lanes
      let r ← loadu b.data i lanes
      storeu o i (packF l r)) out
  (tailIdx lanes n).foldlM (fun o i => do
      let idx := ndindex a.shape i
      let x ← a.get? idx
      let y ← b.get? idx
      writeAt o (computeOffset idx (strides a.shape)) (f x y)) out

/-! ### eval_reduction, `out_size == 1` (reduce everything to one scalar) -/

/-- left fold the scalar evaluator performs: first element, then `op(acc, x)` (no `initial`) -/
def scalarReduceAll (op : α → α → α) (a : NDA α) : Option α := do
  match (← logical a) with
  | [] => none
  | x :: xs => pure (xs.foldl op x)

/-- `eval_reduction` when the output has one element.  `identity` is `view.op.identity()`: the vector
    accumulator starts from `op.set1(identity)`.  (Ops without `identity()` never get here: the evaluator
    hands them to the scalar evaluator, see `simdReduceAxis` / `simdEvalReduceAll` in Simd/Eval.lean.) -/
def simdReduceAll (lanes : Nat) (packOp : List α → List α → List α) (op : α → α → α) (identity : α)
    (a : NDA α) : Option α := do
  let n := a.data.length                                   -- nmtools::size(*input_array_ptr)
  let reg ← (packedStarts lanes n).foldlM (fun reg i => do
      let x ← loadu a.data i lanes
      pure (packOp reg x)) (List.replicate lanes identity)   -- reg = op.set1(identity); reg = op.eval(reg, operand)
  -- horizontal: result = tmp_res[0]; for i in 1..N: result = view.op(result, tmp_res[i])
  match reg with
  | [] => none
  | r0 :: rs =>
    let result := rs.foldl op r0
    -- leftover: result = view.op(result, inp_data_ptr[i])
    (tailIdx lanes n).foldlM (fun res i => do
        let x ← readAt a.data i
        pure (op res x)) result

end NmVerif.Simd
