import NmVerif.Index.Broadcast
/-
  NmVerif.Index.BroadcastKinds — where the CONTAINER KIND of a shape changes what the broadcasting index functions
  return (C06, mixed-kind harness).  The functions of Index/Broadcast.lean are kind-blind (`List Nat` for every
  container); the definitions here mirror the places of the C++ where the result CONTAINER is chosen from the
  operand types and can be too small for the value.

  Core Lean only (linked into the `driver` executable).
-/
namespace NmVerif

/-- `impl::shape_broadcast_to(None, bshape)` (broadcast_to.hpp:36-75, the source is the shape of a number) when
    `bshape` is a tuple of clipped integers with bounds `bounds`:
    `result_t = tuple_to_array_t<transform_bounded_array_t<bshape_t>>` = `nmtools_array<E, N>` with `E` the common
    type of the tuple elements; for numbers of equal size `meta::common_type` keeps the right-hand one
    (`l_size > r_size ? left : right`, meta/bits/transform/common_type.hpp:80-86), so `E` is the LAST element's
    clipped type and `at(ret,i) = at(bshape,i)` clamps every extent to the last bound. -/
def sbtNoneClipped (bounds vals : List Nat) : List Nat :=
  match bounds.getLast? with
  | some m => vals.map (fun v => min v m)
  | none => vals

end NmVerif
