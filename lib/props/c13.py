"""C13 — per-thread device kernel body reproduces host evaluation for any launch geometry.

IMPL   harness/h_c13.cpp (+ c13_kernel.hpp): for a view program, `get_function_composition` + `get_function_operands`,
       operands rebuilt from (data(), shape, dim) the way the CUDA/HIP/SYCL contexts (mode=dev: `device_array`) and the
       OpenCL kernels (mode=ref: `create_array(ptr, shape_ptr, dim)`) do, then the kernel body
       `create_mutable_array` / `fn::apply` / `assign_result` once per (thread_id, block_id) of the requested schedule.
MODEL  lean/NmVerif/Kernel.lean `runSchedule` (fold of `assignResult` over the schedule) on the flattened host result.
ORACLE NumPy evaluates the view program; expected buffer = closed form "cell i holds res[i] iff some thread of the
       schedule has block*bsz+thread == i, else the sentinel" (what Props.C13.kernel_untouched_until_hit proves of the fold).
       harness/h_c13_sycl.cpp: the REAL SYCL evaluator (eval/sycl/evaluator.hpp + context.hpp: extraction, operand upload,
       launch geometry, kernel lambda, copy back) end to end over harness/c13_sycl_mock.hpp, a sequential stand-in for the SYCL
       runtime in which the generator picks which work items of the context's own launch run, in which order, how often.
       harness/h_c13_dev.cpp: the REAL context_t::create_array of the CUDA and HIP contexts over stand-ins for the runtime API
       (clang++ CUDA/HIP host-only mode): the uploaded (pointer, shape, dim) triple.
No device exists here: driver API, real memory transfers and real thread scheduling are NOT covered.
"""
import itertools
import os
import shutil
import numpy as np
from runner import Case
from shapes import prod, fmt, fmt_lists
from props.c14 import POPS, F32      # NumPy reference of the parametrised activations (binary32), shared with C14

ID = 'C13'
LEVEL = 'proof'
RULE = ('view programs of depth 1..3 over the device-supported operations (indexing views, unary/binary ufuncs with broadcasting, '
        'reductions, accumulations, outer, matmul, nullary full); operand shapes dim 1..4, extents 1..4 (output <= 64 cells); '
        'both operand rebuild modes (device_array / create_array(ptr,shape_ptr,dim)); block sizes cycle through 1..33, grids from '
        'exactly covering to 2x over-provisioned, orders ascending / descending / block-interleaved / even-odd / random permutation, '
        'duplicated threads, far out-of-range threads, partial launches; one program additionally over the full cross product '
        'bsz 1..33 x grid x order; binary ufuncs with both operands views and reductions over them; number-valued sub-views (reductions over all axes) as first / non-first operands of binary ufuncs, alone, nested, repeated leaf; number literal operands in either position; 15 programs over float leaves with unary ufuncs whose op carries run-time parameters (8 parametrised activations, two non-default values each, alone and in chains); 24 programs end to end through the real SYCL evaluator over a mock runtime '
        '(its own launch: work-group 32, global size rounded up; work items in 5 orders, duplicated, beyond the launch, omitted); uploads of row- and column-major '
        'operands of rank 1..8 through the real CUDA / HIP create_array. non-trivial = output has >= 2 cells and the schedule is not the plain ascending exact launch')
EXHAUSTIVE = {'quick': False, 'thorough': False}
ANCHORS = {'NmVerif.Kernel.createVector/createArray/createMutableArray': 'array::create_vector, create_array(ptr,shape_ptr,dim), create_mutable_array (eval/kernel_helper.hpp:30-129)',
           'NmVerif.Kernel.threadOffset': 'array::compute_offset(thread_id, block_id, block_size) (kernel_helper.hpp:149-155)',
           'NmVerif.Kernel.assignResult': 'array::assign_result (kernel_helper.hpp:157-191) over view::mutable_flatten / view::flatten',
           'NmVerif.Kernel.runSchedule': 'kernel entry nm_cuda_run_function / nm_hip_run_function / sycl parallel_for body, once per thread',
           'host side': 'functional::get_function_composition, get_function_operands, functional::apply (functor.hpp, function_composition.hpp)',
           'NmVerif.Kernel.deviceOperand': 'cuda::context_t::create_array / hip / sycl (eval/cuda/context.hpp:155-200, eval/hip/context.hpp:158-203, eval/sycl/context.hpp:372-412), run for real in h_c13_dev.cpp / h_c13_sycl.cpp',
           'SYCL launch': 'sycl::context_t::run / run_ (eval/sycl/context.hpp:448-520, 575-595) and evaluator_t<view, shared_ptr<sycl::context_t>> (eval/sycl/evaluator.hpp), run for real over the mock runtime'}
MANIFEST = dict(
    text='Proof: 13 Lean theorems about the kernel body model — create_vector/create_array/device_array round trips from raw (pointer, shape, dim) triples, the guard (global id >= size writes nothing), the closed form of the fold over ANY schedule (order, interleaving, duplication, block size, over-provisioned or partial grid: a cell is final iff some executed thread addressed it, otherwise untouched; never out of bounds) and hence output = flattened host result for every covering launch — tied to the C++ by running the real kernel_helper.hpp + functional extraction/apply on the host for 86 view programs of depth 1..3, the real SYCL evaluator end to end over a sequential mock of the SYCL runtime (24 programs) and the real CUDA/HIP operand upload over runtime stand-ins (CUDA/HIP/SYCL path: function extraction + device_array operands + fn::apply; OpenCL path: create_array(ptr,shape_ptr,dim) + direct view call), block sizes 1..33, exact..2x grids, five thread orders, duplicated / far / missing threads, against NumPy and the Lean fold on every check.',
    note='No device in this sandbox: kernel launch, driver API, memory transfer and real hardware scheduling are not exercised; the 1-d launch is modelled as an arbitrary list of (thread, block) pairs executed sequentially (threads write disjoint cells or identical values, so sequential consistency is the only assumption). Lean kernel + propext/Classical.choice/Quot.sound. Known findings (both replayed through the real SYCL evaluator and the real CUDA/HIP create_array as well): column-major host operands are re-read row-major on the device path (repair proposed: fixes/C13-kernel.colmajor-operand.diff); function extraction is wrong when a view operand is not the first operand (fixes/C14-extract.nonfirst-view-operand.diff); follow-ups on branch w4/c1314-postfix. Repaired: dangling reference in get_function_composition for binary ufuncs over views (regression programs kept, also under ASan in the thorough tier).',
    technique='Lean 4 induction over schedules (List (tid x bid)) + differential correspondence of the host-compilable kernel body')
ASSUMPTIONS = ['a device launch is equivalent to some sequential execution of its threads (each thread writes one cell; colliding writes carry the same value)',
               'block_id * block_size + thread_id does not wrap in size_t (launch geometry below 2^64 threads)',
               'operand rank <= NMTOOLS_KERNEL_MAX_DIM = 8 (create_vector uses static_vector<T,8>)',
               'kernel launch / memory copies / device compilers are outside the sandbox and not covered']
PARTIAL = []
TRUSTED = ['host simulation of the kernel body: same headers, same call sequence as eval/cuda/context.hpp:10-31, but compiled by g++ for the host',
           'harness/c13_sycl_mock.hpp (sequential stand-in for the SYCL runtime: buffers are host vectors, parallel_for runs the work items the generator lists), '
           'harness/c13_cuda_shim.hpp / c13_hip_shim.hpp (device memory = host memory, kernels never launched)']

SENTINEL = -7
MAXOUT = 64
FLOAT_GROUPS = [12, 13]           # harness TUs with float leaves (-DC13_ELEM_FLOAT): elements are printed as binary32 bit patterns
SYCL_FLOAT_GROUPS = [5]


def f32_codes(x):
    """binary32 values -> their bit patterns as int32 (the element codes of the float harness TUs)"""
    return [int(v) for v in np.ascontiguousarray(np.asarray(x, dtype=np.float32)).reshape(-1).view(np.int32)]


def encode(res, pg):
    """flattened result as the list of element codes the harness prints, and the code of the sentinel"""
    if pg['data'] == 'float':
        return f32_codes(res), f32_codes([SENTINEL])[0]
    return [int(x) for x in res.reshape(-1)], SENTINEL


def float_cmp(a, b):
    """answers of the float TUs: shape / hosteq exact, the out= bit patterns compared as binary32 numbers within tolerance"""
    if not (a.startswith('ok ') and b.startswith('ok ')):
        return a == b
    da = dict(kv.split('=', 1) for kv in a.split()[1:] if '=' in kv); db = dict(kv.split('=', 1) for kv in b.split()[1:] if '=' in kv)
    if da.get('shape') != db.get('shape') or da.get('hosteq') != db.get('hosteq'):
        return False
    dec = lambda t: np.array([] if t in ('[]', '') else [int(v) for v in t.split(',')], dtype=np.int64).astype(np.int32).view(np.float32).astype(np.float64)
    xa, xb = dec(da.get('out', '')), dec(db.get('out', ''))
    return xa.shape == xb.shape and bool(np.allclose(xa, xb, rtol=2e-5, atol=2e-6))


# ---------------------------------------------------------------------------------------------------------------
# leaves (mirror of c13::leaf_value)
# ---------------------------------------------------------------------------------------------------------------
def leaf(shape, j, data):
    n = prod(shape)
    k = np.arange(n, dtype=np.int64)
    if data == 'float':          # multiples of 0.5 in [-3, 3], binary32 (mirror of c13::leaf_value)
        return (0.5 * ((k * 7 + 3 * j) % 13) - 3.0).astype(np.float32).reshape(shape)
    if data == 'small':
        v = (k * 7 + 3 * j) % 5 + 1
    elif data == 'cond' and j == 0:
        v = (k % 3 != 1).astype(np.int64)          # 0/1 valued condition operand
    else:
        v = k + 1000 * j
    return v.reshape(shape)


def maxpool_np(a, k, st):
    h, w = a.shape[-2:]
    oh, ow = (h - k[0]) // st[0] + 1, (w - k[1]) // st[1] + 1
    out = np.empty(a.shape[:-2] + (oh, ow), dtype=a.dtype)
    for i in range(oh):
        for j in range(ow):
            out[..., i, j] = a[..., i * st[0]:i * st[0] + k[0], j * st[1]:j * st[1] + k[1]].max(axis=(-2, -1))
    return out


def rshape(rng, min_rank=1, max_rank=4, max_extent=4, cap=36):
    while True:
        s = [rng.randint(1, max_extent) for _ in range(rng.randint(min_rank, max_rank))]
        if prod(s) <= cap:
            return s


def bpartner(rng, s):
    """a shape broadcast-compatible with s (drop leading axes, set some to 1)"""
    k = rng.randint(0, len(s) - 1) if len(s) > 1 else 0
    t = [e if rng.random() < 0.6 else 1 for e in s[k:]]
    return t if t else [1]


def perm(rng, n):
    p = list(range(n)); rng.shuffle(p); return p


def P(**kw):
    return kw


# every program: group (harness binary), reference (numpy), case generator -> (shapes, params) ; data kind
def _progs():
    pr = {}

    def add(name, group, depth, ref, gen, data='prov', layout='row', nonfirst=False, bview=False, hprog=None):
        # nonfirst: some node of the view tree has a view (non-leaf) operand that is not its first operand
        # bview:    some broadcasting (binary) ufunc node has a view operand (regression class of the repaired dangling
        #           reference in get_function_composition, function_composition.hpp:99) — ordinary in-domain programs
        pr[name] = dict(group=group, depth=depth, ref=ref, gen=gen, data=data, layout=layout, nonfirst=nonfirst, bview=bview, hprog=hprog or name)

    # ---- depth 1, indexing ----
    def g_transpose(rng):
        s = rshape(rng); return [s], P(axes=perm(rng, len(s)))
    add('transpose', 1, 1, lambda A, p: np.transpose(A[0], p['axes']), g_transpose)
    def g_axis1(rng):
        s = rshape(rng); return [s], P(axis=rng.randrange(len(s)))
    add('flip', 1, 1, lambda A, p: np.flip(A[0], p['axis']), g_axis1)
    def g_tile(rng):
        s = rshape(rng, cap=12); r = [rng.randint(1, 2) for _ in range(rng.randint(1, min(3, len(s) + 1)))]
        return [s], P(reps=r)
    add('tile', 1, 1, lambda A, p: np.tile(A[0], p['reps']), g_tile)
    def g_repeat(rng):
        s = rshape(rng, cap=16); return [s], P(r=rng.randint(1, 3), axis=rng.randrange(len(s)))
    add('repeat', 1, 1, lambda A, p: np.repeat(A[0], p['r'], p['axis']), g_repeat)
    def g_expand(rng):
        s = rshape(rng, max_rank=3); return [s], P(axis=rng.randint(0, len(s)))
    add('expand_dims', 1, 1, lambda A, p: np.expand_dims(A[0], p['axis']), g_expand)
    def g_squeeze(rng):
        s = rshape(rng)
        for _ in range(rng.randint(1, 2)):
            s[rng.randrange(len(s))] = 1
        if all(e == 1 for e in s):
            s.append(rng.randint(2, 4))
        return [s], P()
    add('squeeze', 1, 1, lambda A, p: np.squeeze(A[0]), g_squeeze)
    add('flatten', 1, 1, lambda A, p: A[0].reshape(-1), lambda rng: ([rshape(rng)], P()))
    def g_moveaxis(rng):
        s = rshape(rng, min_rank=2); return [s], P(src=rng.randrange(len(s)), dst=rng.randrange(len(s)))
    add('moveaxis', 1, 1, lambda A, p: np.moveaxis(A[0], p['src'], p['dst']), g_moveaxis)
    add('atleast_2d', 1, 1, lambda A, p: np.atleast_2d(A[0]), lambda rng: ([rshape(rng, max_rank=3)], P()))
    def g_concat(rng):
        s = rshape(rng, cap=18); ax = rng.randrange(len(s)); t = list(s); t[ax] = rng.randint(1, 3)
        return [s, t], P(axis=ax)
    add('concatenate', 2, 1, lambda A, p: np.concatenate([A[0], A[1]], p['axis']), g_concat)
    def g_where(rng):
        s = rshape(rng, cap=24); return [bpartner(rng, s), s, bpartner(rng, s)], P()
    add('where', 2, 1, lambda A, p: np.where(A[0] != 0, A[1], A[2]), g_where, data='cond', nonfirst=True)
    def g_slice2(rng):
        s = rshape(rng, min_rank=2, max_rank=2, max_extent=6)
        sl = []
        for n in s:
            a = rng.randrange(n); b = rng.randint(a + 1, n); sl += [a, b, rng.randint(1, 2)]
        return [s], P(s=sl)
    add('slice2', 2, 1, lambda A, p: A[0][p['s'][0]:p['s'][1]:p['s'][2], p['s'][3]:p['s'][4]:p['s'][5]], g_slice2)
    def g_maxpool(rng):
        lead = [rng.randint(1, 2) for _ in range(rng.randint(1, 2))]   # pool2d works on (.., C, H, W)
        h, w = rng.randint(2, 5), rng.randint(2, 5)
        k = [rng.randint(1, min(2, h)), rng.randint(1, min(2, w))]
        return [lead + [h, w]], P(k=k, st=[rng.randint(1, 2), rng.randint(1, 2)])
    add('maxpool', 2, 1, lambda A, p: maxpool_np(A[0], p['k'], p['st']), g_maxpool)
    def g_reshape(rng):
        s = rshape(rng); n = prod(s)
        while True:
            t = []; rem = n
            for _ in range(rng.randint(1, 3)):
                d = rng.choice([x for x in range(1, rem + 1) if rem % x == 0]); t.append(d); rem //= d
            t.append(rem)
            if len(t) <= 4:
                break
        rng.shuffle(t)
        return [s], P(to=t)
    add('reshape', 2, 1, lambda A, p: A[0].reshape(p['to']), g_reshape)
    def g_bto(rng):
        t = rshape(rng); return [bpartner(rng, t)], P(to=t)
    add('broadcast_to', 2, 1, lambda A, p: np.broadcast_to(A[0], p['to']), g_bto)
    def g_hstack(rng):
        s = rshape(rng, cap=18); ax = 0 if len(s) == 1 else 1; t = list(s); t[ax] = rng.randint(1, 3)
        return [s, t], P()
    add('hstack', 2, 1, lambda A, p: np.hstack([A[0], A[1]]), g_hstack)
    def g_vstack(rng):
        s = rshape(rng, cap=18)
        if len(s) == 1:
            return [s, list(s)], P()
        t = list(s); t[0] = rng.randint(1, 3); return [s, t], P()
    add('vstack', 2, 1, lambda A, p: np.vstack([A[0], A[1]]), g_vstack, nonfirst=True)
    add('full', 2, 1, lambda A, p: np.full(p['to'], p['value'], dtype=np.int64), lambda rng: ([], P(to=rshape(rng), value=rng.randint(-5, 50))))
    # ---- depth 1, ufunc / reduce / accumulate / outer / matmul ----
    def g_bin(rng):
        s = rshape(rng); t = bpartner(rng, s)
        return ([s, t] if rng.random() < 0.5 else [t, s]), P()
    add('add', 3, 1, lambda A, p: A[0] + A[1], g_bin)
    add('multiply', 3, 1, lambda A, p: A[0] * A[1], g_bin)
    add('negative', 3, 1, lambda A, p: -A[0], lambda rng: ([rshape(rng)], P()))
    def g_red(rng):
        s = rshape(rng, min_rank=2); return [s], P(axis=rng.randrange(len(s)), keepdims=rng.randint(0, 1))
    add('reduce_add', 3, 1, lambda A, p: np.sum(A[0], axis=p['axis'], keepdims=bool(p['keepdims'])), g_red)
    def g_red_axes(rng):
        s = rshape(rng, min_rank=3); ax = sorted(rng.sample(range(len(s)), 2)); return [s], P(axes=ax)
    add('reduce_add_axes', 3, 1, lambda A, p: np.sum(A[0], axis=tuple(p['axes'])), g_red_axes)
    def g_axis2(rng):
        s = rshape(rng, min_rank=2); return [s], P(axis=rng.randrange(len(s)))
    add('reduce_multiply', 3, 1, lambda A, p: np.prod(A[0], axis=p['axis']), g_axis2, data='small')
    add('accumulate_add', 3, 1, lambda A, p: np.cumsum(A[0], axis=p['axis']), g_axis1)
    add('outer_add', 3, 1, lambda A, p: np.add.outer(A[0], A[1]), lambda rng: ([rshape(rng, max_rank=2, cap=8), rshape(rng, max_rank=2, cap=8)], P()))
    def g_matmul(rng):
        m, k, n = rng.randint(1, 4), rng.randint(1, 4), rng.randint(1, 4)
        b = [rng.randint(1, 3)] if rng.random() < 0.4 else []
        return [b + [m, k], ([] if rng.random() < 0.5 else b) + [k, n]], P()
    add('matmul', 3, 1, lambda A, p: np.matmul(A[0], A[1]), g_matmul)
    add('sum', 3, 1, lambda A, p: np.sum(A[0], axis=p['axis']), g_axis2)
    add('cumsum', 3, 1, lambda A, p: np.cumsum(A[0], axis=p['axis']), g_axis1)
    # ---- depth 2 ----
    add('neg_add', 4, 2, lambda A, p: -(A[0] + A[1]), g_bin)
    def g_tri(rng):
        s = rshape(rng); sh = [s, bpartner(rng, s), bpartner(rng, s)]; rng.shuffle(sh); return sh, P()
    add('mul_add', 4, 2, lambda A, p: (A[0] + A[1]) * A[2], g_tri, data='small', bview=True)
    add('add_mul2', 7, 2, lambda A, p: A[0] + A[1] * A[2], g_tri, nonfirst=True)
    def g_sum_mul(rng):
        s = rshape(rng, min_rank=2); t = bpartner(rng, s); return [s, t], P(axis=rng.randrange(len(s)))
    add('sum_mul', 4, 2, lambda A, p: np.sum(A[0] * A[1], axis=p['axis']), g_sum_mul)
    def g_tr_add(rng):
        s = rshape(rng); t = bpartner(rng, s); return [s, t], P(axes=perm(rng, len(s)))
    add('tr_add', 4, 2, lambda A, p: np.transpose(A[0] + A[1], p['axes']), g_tr_add)
    def g_add_tr(rng):
        s = rshape(rng); ax = perm(rng, len(s)); ts = [s[i] for i in ax]; return [s, bpartner(rng, ts)], P(axes=ax)
    add('add_tr', 4, 2, lambda A, p: np.transpose(A[0], p['axes']) + A[1], g_add_tr, bview=True)
    def g_add_sum(rng):
        s = rshape(rng, min_rank=2); return [bpartner(rng, s), s], P(axis=rng.randrange(len(s)))
    add('add_sum', 7, 2, lambda A, p: A[0] + np.sum(A[1], axis=p['axis'], keepdims=True), g_add_sum, nonfirst=True)
    def g_sum_add(rng):
        s = rshape(rng, min_rank=2); return [s, bpartner(rng, s)], P(axis=rng.randrange(len(s)))
    add('sum_add', 4, 2, lambda A, p: np.sum(A[0], axis=p['axis'], keepdims=True) + A[1], g_sum_add, bview=True)
    def g_cumsum_tr(rng):
        s = rshape(rng); return [s], P(axes=perm(rng, len(s)), axis=rng.randrange(len(s)))
    add('cumsum_tr', 7, 2, lambda A, p: np.cumsum(np.transpose(A[0], p['axes']), axis=p['axis']), g_cumsum_tr)
    add('flip_neg', 7, 2, lambda A, p: np.flip(-A[0], p['axis']), g_axis1)
    def g_sum_tr(rng):
        s = rshape(rng, min_rank=2); return [s], P(axes=perm(rng, len(s)), axis=rng.randrange(len(s)))
    add('sum_tr', 7, 2, lambda A, p: np.sum(np.transpose(A[0], p['axes']), axis=p['axis']), g_sum_tr)
    def g_tile_add(rng):
        s = rshape(rng, cap=12); r = [rng.randint(1, 2) for _ in range(rng.randint(1, min(3, len(s) + 1)))]
        return [s, bpartner(rng, s)], P(reps=r)
    add('tile_add', 7, 2, lambda A, p: np.tile(A[0] + A[1], p['reps']), g_tile_add)
    def g_cumsum_mul(rng):
        s = rshape(rng); return [s, bpartner(rng, s)], P(axis=rng.randrange(len(s)))
    add('cumsum_mul', 7, 2, lambda A, p: np.cumsum(A[0] * A[1], axis=p['axis']), g_cumsum_mul)
    # ---- depth 3 ----
    def g_asm(rng):
        s = rshape(rng, min_rank=2); return [s, bpartner(rng, s), bpartner(rng, s)], P(axis=rng.randrange(len(s)))
    add('add_sum_mul', 5, 3, lambda A, p: np.sum(A[0] * A[1], axis=p['axis'], keepdims=True) + A[2], g_asm, bview=True)
    def g_quad(rng):
        s = rshape(rng); sh = [s, bpartner(rng, s), bpartner(rng, s), bpartner(rng, s)]; rng.shuffle(sh); return sh, P()
    add('max_add_mul', 5, 3, lambda A, p: np.maximum(A[0] * A[1] + A[2], A[3]), g_quad, bview=True)
    add('neg_sub_max', 8, 3, lambda A, p: -(A[0] - np.max(A[0], axis=p['axis'], keepdims=True)), g_axis2, nonfirst=True)
    add('neg_max_sub', 5, 3, lambda A, p: -(np.max(A[0], axis=p['axis'], keepdims=True) - A[0]), g_axis2, bview=True)
    add('neg_add_mul', 5, 3, lambda A, p: -(A[0] * A[1] + A[2]), g_tri, bview=True)
    add('tr_neg_add', 5, 3, lambda A, p: np.transpose(-(A[0] + A[1]), p['axes']), g_tr_add)
    def g_stm(rng):
        s = rshape(rng, min_rank=2); return [s, bpartner(rng, s)], P(axes=perm(rng, len(s)), axis=rng.randrange(len(s)))
    add('sum_tr_mul', 8, 3, lambda A, p: np.sum(np.transpose(A[0] * A[1], p['axes']), axis=p['axis']), g_stm)
    def g_ftt(rng):
        s = rshape(rng, cap=12); r = [rng.randint(1, 2) for _ in range(len(s))]
        return [s], P(axes=perm(rng, len(s)), reps=r, axis=rng.randrange(len(s)))
    add('flip_tile_tr', 8, 3, lambda A, p: np.flip(np.tile(np.transpose(A[0], p['axes']), p['reps']), p['axis']), g_ftt)
    add('neg_sum_mul', 8, 3, lambda A, p: -np.sum(A[0] * A[1], axis=p['axis'], keepdims=True), g_sum_mul)
    def g_rta(rng):
        s = rshape(rng, cap=16); return [s, bpartner(rng, s)], P(axes=perm(rng, len(s)), r=rng.randint(1, 3), axis=rng.randrange(len(s)))
    add('rep_tr_add', 8, 3, lambda A, p: np.repeat(np.transpose(A[0] + A[1], p['axes']), p['r'], p['axis']), g_rta)
    # ---- both operands of a broadcasting binary ufunc are views, reductions over such nodes (depth 2, 3) ----
    def g_add_tr_neg(rng):
        s = rshape(rng); ax = perm(rng, len(s)); ts = [s[i] for i in ax]; return [s, bpartner(rng, ts)], P(axes=ax)
    add('add_tr_neg', 9, 2, lambda A, p: np.transpose(A[0], p['axes']) + (-A[1]), g_add_tr_neg, nonfirst=True)
    def g_same_axis(rng):
        s = rshape(rng, min_rank=2); return [s, list(s)], P(axis=rng.randrange(len(s)))
    add('mul_sum_sum', 9, 2, lambda A, p: np.sum(A[0], axis=p['axis'], keepdims=True) * np.sum(A[1], axis=p['axis'], keepdims=True), g_same_axis, data='small', nonfirst=True)
    add('sum_add_neg_neg', 9, 3, lambda A, p: np.sum((-A[0]) + (-A[1]), axis=p['axis']), g_sum_mul, nonfirst=True)
    add('max_mul_add', 9, 2, lambda A, p: np.maximum(A[0] * A[1], A[2] + A[3]), g_quad, data='small', nonfirst=True)
    add('neg_add_mul_mul', 9, 3, lambda A, p: -(A[0] * A[1] + A[2] * A[3]), g_quad, data='small', nonfirst=True)
    # ---- NUMBER-valued sub-views: a reduction over ALL axes (axis None, keepdims false: 0-d, broadcasts like a scalar) as an
    #      operand of a broadcasting binary ufunc; the device path re-applies the extracted composition, whose ufunc branch looks
    #      through the broadcast_to around the 0-d view (function_composition.hpp:96-113).  First position: in-domain; any other
    #      position: the known class extract.nonfirst-view-operand on the device path ----
    def g_free2(rng):
        return [rshape(rng), rshape(rng)], P()
    def g_one(rng):
        return [rshape(rng)], P()
    def g_pair_free(rng):
        s = rshape(rng); return [s, bpartner(rng, s), rshape(rng)], P()
    def g_free_pair(rng):
        s = rshape(rng); return [rshape(rng), s, bpartner(rng, s)], P()
    def g_free_tr(rng):
        s = rshape(rng); return [rshape(rng), s], P(axes=perm(rng, len(s)))
    add('mul_sumall_x', 10, 2, lambda A, p: np.sum(A[0]) * A[1], g_free2, bview=True)
    add('sub_maxall_x', 10, 2, lambda A, p: np.max(A[0]) - A[1], g_free2, bview=True)
    add('add_x_maxall', 10, 2, lambda A, p: A[0] + np.max(A[1]), g_free2, nonfirst=True)
    add('sub_sumall_x_rep', 10, 2, lambda A, p: np.sum(A[0]) - A[0], g_one, bview=True)
    add('sub_x_sumall_rep', 10, 2, lambda A, p: A[0] - np.sum(A[0]), g_one, nonfirst=True)
    add('neg_mul_sumall_mul_x', 11, 3, lambda A, p: -(np.sum(A[0] * A[1]) * A[2]), g_pair_free, data='small', bview=True)
    add('add_mul_sumall_x_x', 11, 3, lambda A, p: np.sum(A[0]) * A[1] + A[2], g_free_pair, bview=True)
    add('tr_add_maxall_x', 11, 3, lambda A, p: np.transpose(np.max(A[0]) + A[1], p['axes']), g_free_tr, bview=True)
    add('mul_x_sumall_mul', 11, 3, lambda A, p: A[0] * np.sum(A[1] * A[2]), g_free_pair, data='small', nonfirst=True)
    # ---- unary ufuncs whose op carries RUN-TIME PARAMETERS (float leaves; `pq` = the parameters in quarter units): the device path
    #      re-applies the extracted functor, which gets the op — and with it the parameter — through ufunc_t::attributes() only.
    #      Two NON-DEFAULT values per op, one far from the default, taken in turn ----
    def pgen(values, shapes_of):
        cyc = itertools.cycle(values)
        def g(rng):
            shapes, params = shapes_of(rng)
            params = dict(params); params['pq'] = list(next(cyc)); return shapes, params
        return g
    q = lambda p, i=None: [F32(v / 4.0) for v in (p['pq'] if i is None else p['pq'][i:])]
    one = lambda rng: ([rshape(rng)], P())
    ACT = [('leaky', 'leaky_relu', [(2,), (12,)]), ('elu', 'elu', [(2,), (10,)]), ('celu', 'celu', [(2,), (10,)]),
           ('hardtanh', 'hardtanh', [(-2, 3), (-10, 8)]), ('softplus', 'softplus', [(8, 2), (2, 4)]),
           ('hardshrink', 'hardshrink', [(1,), (8,)]), ('softshrink', 'softshrink', [(1,), (5,)]), ('prelu', 'prelu', [(2,), (16,)])]
    for short, op, vals in ACT:
        add('act_' + short, 12, 1, (lambda op: lambda A, p: POPS[op](A[0], q(p)))(op), pgen(vals, one), data='float')
    LK = [(2,), (12,)]
    add('neg_leaky', 13, 2, lambda A, p: -POPS['leaky_relu'](A[0], q(p)), pgen(LK, one), data='float')
    add('leaky_add', 13, 2, lambda A, p: POPS['leaky_relu'](A[0] + A[1], q(p)), pgen(LK, g_bin), data='float')
    add('add_leaky_x', 13, 2, lambda A, p: POPS['leaky_relu'](A[0], q(p)) + A[1], pgen(LK, g_bin), data='float', bview=True)
    add('add_x_leaky', 13, 2, lambda A, p: A[0] + POPS['leaky_relu'](A[1], q(p)), pgen(LK, g_bin), data='float', nonfirst=True)
    add('hardtanh_mul_elu_x', 13, 3, lambda A, p: POPS['hardtanh'](POPS['elu'](A[0], q(p)) * A[1], q(p, 1)), pgen([(10, -2, 3), (2, -10, 8)], g_bin), data='float', bview=True)
    add('sum_softshrink', 13, 2, lambda A, p: np.sum(POPS['softshrink'](A[0], q(p)), axis=p['axis'], dtype=np.float32), pgen([(1,), (5,)], g_axis2), data='float')
    add('prelu_tr', 13, 2, lambda A, p: POPS['prelu'](np.transpose(A[0], p['axes']), q(p)), pgen([(2,), (16,)], g_transpose), data='float')
    # number literal operands of binary ufuncs, either position
    def g_lit1(rng):
        return [rshape(rng)], P(lit=rng.choice([-7, -2, -1, 0, 1, 2, 3, 5, 11]))
    def g_lit2(rng):
        s = rshape(rng); return [s, bpartner(rng, s)], P(lit=rng.choice([-7, -2, -1, 0, 1, 2, 3, 5, 11]))
    add('add_x_lit', 10, 1, lambda A, p: A[0] + p['lit'], g_lit1)
    add('mul_lit_x', 10, 1, lambda A, p: p['lit'] * A[0], g_lit1)
    add('neg_add_mul_x_lit_x', 10, 3, lambda A, p: -(A[0] * p['lit'] + A[1]), g_lit2, bview=True)
    # ---- column-major leaves (known finding kernel.colmajor-operand) ----
    add('transpose_col', 6, 1, lambda A, p: np.transpose(A[0], p['axes']), g_transpose, layout='col')
    add('add_col', 6, 1, lambda A, p: A[0] + A[1], g_bin, layout='col')
    return pr


PROGS = _progs()
GROUPS = [1, 2, 3, 4, 5, 6, 7, 8, 9, 10, 11, 12, 13]


# programs also run END TO END through the real SYCL evaluator (eval/sycl/evaluator.hpp + context.hpp) over the sequential
# stand-in for the SYCL runtime harness/c13_sycl_mock.hpp: name -> harness TU group (h_c13_sycl.cpp)
SYCL_PROGS = {'transpose': 1, 'add': 1, 'reduce_add': 1, 'accumulate_add': 1, 'neg_add': 1, 'add_tr': 1,
              'sum_mul': 2, 'neg_add_mul': 2, 'tr_neg_add': 2, 'add_mul2': 2,
              'transpose_col': 3, 'add_col': 3,
              'mul_sumall_x': 4, 'sub_maxall_x': 4, 'neg_mul_sumall_mul_x': 4, 'add_x_maxall': 4, 'add_x_lit': 4, 'mul_lit_x': 4,
              'act_leaky': 5, 'act_hardtanh': 5, 'act_softplus': 5, 'leaky_add': 5, 'add_leaky_x': 5, 'hardtanh_mul_elu_x': 5}
SYCL_GROUPS = [1, 2, 3, 4, 5]
SYCL_LOCAL = 32          # work-group size chosen by sycl::context_t::run_
_SYCL_INC = os.path.join(os.path.dirname(os.path.dirname(os.path.dirname(os.path.abspath(__file__)))), 'harness', 'c13_sycl')


_HIP_INC = os.path.join(os.path.dirname(_SYCL_INC), 'c13_hip')
# the host side of the CUDA / HIP contexts (context_t::create_array) over stand-ins for the runtime API: the contexts use the
# launch syntax <<<...>>>, so these two TUs are compiled by clang++ in CUDA / HIP host-only mode (skipped when there is no clang++)
HAVE_CLANG = shutil.which('clang++') is not None
DEV_BACKENDS = {'cuda': ['-x', 'cuda', '--cuda-host-only', '-nocudainc', '-nocudalib', '-DC13_BACKEND_CUDA'],
                'hip': ['-x', 'hip', '--cuda-host-only', '-nogpuinc', '-nogpulib', '-I' + _HIP_INC, '-DC13_BACKEND_HIP']} if HAVE_CLANG else {}


def harness_specs(tier):
    fl = lambda g, groups: ['-DC13_ELEM_FLOAT'] if g in groups else []
    sp = [dict(name='h_c13_g%d' % g, src='h_c13.cpp', flavour='fast', extra=['-DC13_GROUP=%d' % g] + fl(g, FLOAT_GROUPS)) for g in GROUPS]
    sp += [dict(name='h_c13_sycl%d' % g, src='h_c13_sycl.cpp', flavour='fast', extra=['-DC13_SYCL_GROUP=%d' % g, '-I' + _SYCL_INC] + fl(g, SYCL_FLOAT_GROUPS)) for g in SYCL_GROUPS]
    sp += [dict(name='h_c13_%s' % b, src='h_c13_dev.cpp', flavour='fast', compiler='clang++', extra=fl) for b, fl in DEV_BACKENDS.items()]
    if tier == 'thorough':
        # the same TUs under ASan + UBSan (NDEBUG as the baseline): out-of-bounds / lifetime errors of the kernel body are results
        sp += [dict(name='h_c13_g%d_san' % g, src='h_c13.cpp', flavour='san', extra=['-DC13_GROUP=%d' % g] + fl(g, FLOAT_GROUPS)) for g in GROUPS]
    return sp


# ---------------------------------------------------------------------------------------------------------------
# schedules
# ---------------------------------------------------------------------------------------------------------------
ORDERS = ['asc', 'desc', 'interleave', 'evenodd', 'random']


def launch(n, bsz, extra_blocks, order, rng):
    g0 = -(-n // bsz)
    grid = g0 + extra_blocks
    th = [(t, b) for b in range(grid) for t in range(bsz)]
    if order == 'desc':
        th.reverse()
    elif order == 'interleave':            # blocks progress in lock step, one thread of each block in turn
        th = [(t, b) for t in range(bsz) for b in range(grid)]
    elif order == 'evenodd':               # even global ids first, then odd ones backwards
        th = [x for x in th if (x[1] * bsz + x[0]) % 2 == 0] + [x for x in reversed(th) if (x[1] * bsz + x[0]) % 2 == 1]
    elif order == 'random':
        rng.shuffle(th)
    return th, grid


def expected(res_flat, n, bsz, sched, sentinel=SENTINEL):
    hit = set(b * bsz + t for (t, b) in sched)
    out = [int(res_flat[i]) if i in hit else sentinel for i in range(n)]
    return out, int(all(int(res_flat[i]) == out[i] for i in range(n)))


def fmt_sched(s):
    return ';'.join('%d,%d' % x for x in s) if s else '[]'


def fmt_params(p):
    out = []
    for k in sorted(p):
        v = p[k]
        out.append('%s=%s' % (k, fmt(v) if isinstance(v, (list, tuple)) else str(int(v))))
    return ' '.join(out)


class Counter:
    def __init__(self):
        self.k = 0

    def next(self):
        self.k += 1
        return self.k


def kern_cases(name, shapes, params, scheds, mode, tags=()):
    """scheds: list of (bsz, sched, tags).  yields Cases for one evaluated program instance."""
    pg = PROGS[name]
    A = [leaf(s, j, pg['data']) for j, s in enumerate(shapes)]
    try:
        res = np.asarray(pg['ref'](A, params))
    except ValueError:
        return
    if res.size == 0 or res.size > MAXOUT or np.abs(res).max() >= 2 ** 31:
        return
    oshape = list(res.shape)
    rf, sent = encode(res, pg)
    n = len(rf)
    base = 'c13_kern prog=%s shapes=%s %s data=%s mode=%s' % (pg['hprog'], fmt_lists(shapes), fmt_params(params), pg['data'], mode)
    base = ' '.join(base.split())
    for bsz, sched, stags in scheds(n):
        out, eq = expected(rf, n, bsz, sched, sent)
        req = '%s init=%d bsz=%d sched=%s' % (base, SENTINEL, bsz, fmt_sched(sched))
        mreq = 'c13_kern shape=%s res=%s init=%d bsz=%d sched=%s' % (fmt(oshape), fmt(rf), sent, bsz, fmt_sched(sched))
        oracle = 'ok shape=%s out=%s hosteq=%d' % (fmt(oshape), fmt(out), eq)
        # known-defect regions (oracle is the judge there, the Lean model is not asked)
        col = pg['layout'] == 'col' or (pg['nonfirst'] and mode == 'dev')
        plain = ('asc' in stags and 'exact' in stags and 'dup' not in stags)
        yield Case(req, 'h_c13_g%d' % pg['group'], dom=not col, oracle=oracle, model=not col, mreq=mreq,
                   cmp=(float_cmp if pg['data'] == 'float' else None), nontrivial=(n >= 2 and not plain),
                   tags=['prog=' + name, 'depth=%d' % pg['depth'], 'mode=' + mode, 'outdim=%d' % len(oshape), 'bsz=%d' % bsz] + list(stags) + list(tags))


def sched_picker(rng, ctr, count, full_cross=False):
    def scheds(n):
        if full_cross:
            for bsz in range(1, 34):
                g0 = -(-n // bsz)
                for extra in sorted(set([0, 1, g0])):
                    for order in ['asc', 'desc', 'interleave']:
                        s, grid = launch(n, bsz, extra, order, rng)
                        yield bsz, s, [order, 'exact' if extra == 0 else ('2x' if extra == g0 else 'over'), 'cross']
            return
        for _ in range(count):
            k = ctr.next()
            bsz = 1 + (k % 33)
            g0 = -(-n // bsz)
            extra = [0, 1, g0, rng.randint(0, g0)][k % 4]
            order = ORDERS[(k // 3) % len(ORDERS)]
            s, grid = launch(n, bsz, extra, order, rng)
            tags = [order, 'exact' if extra == 0 else ('2x' if extra == g0 else 'over')]
            kind = k % 7
            if kind == 2:      # duplicated execution of some threads
                for _ in range(rng.randint(1, 4)):
                    s.insert(rng.randrange(len(s) + 1), rng.choice(s))
                tags.append('dup')
            elif kind == 4:    # threads far beyond the output (guard), in the middle of the launch
                s.insert(rng.randrange(len(s) + 1), (rng.randrange(bsz), 10 ** 6 + rng.randrange(1000)))
                s.insert(rng.randrange(len(s) + 1), (2 ** 33 + rng.randrange(bsz), rng.randrange(3)))
                tags.append('far')
            elif kind == 6:    # partial launch: some threads never ran -> their cells keep the sentinel
                drop = set(rng.sample(range(len(s)), max(1, len(s) // 4)))
                s = [x for i, x in enumerate(s) if i not in drop]
                tags.append('partial')
            yield bsz, s, tags
    return scheds


def sycl_cases(tier, rng):
    """the real SYCL evaluator over the mock runtime: the launch is the context's own (work-group 32, global size = output size
    rounded up to a multiple of 32); the harness chooses which work items of it run, in which order and how often"""
    ncase = 3 if tier == 'quick' else 20
    k = 0
    for name, grp in SYCL_PROGS.items():
        pg = PROGS[name]
        made = tries = 0
        while made < ncase and tries < 10 * ncase:
            tries += 1
            shapes, params = pg['gen'](rng)
            A = [leaf(sh, j, pg['data']) for j, sh in enumerate(shapes)]
            try:
                res = np.asarray(pg['ref'](A, params))
            except ValueError:
                continue
            if res.size == 0 or res.size > MAXOUT or np.abs(res).max() >= 2 ** 31:
                continue
            made += 1
            oshape = list(res.shape); (rf, sent) = encode(res, pg); n = len(rf)
            fcmp = float_cmp if pg['data'] == 'float' else None
            G = -(-n // SYCL_LOCAL) * SYCL_LOCAL
            base = ' '.join(('prog=%s shapes=%s %s data=%s init=%d' % (pg['hprog'], fmt_lists(shapes), fmt_params(params), pg['data'], SENTINEL)).split())
            off = pg['layout'] == 'col' or pg['nonfirst']        # known-defect regions: the oracle is the judge
            h = 'h_c13_sycl%d' % grp
            tags0 = ['sycl', 'prog=' + name, 'depth=%d' % pg['depth'], 'mode=sycl', 'outdim=%d' % len(oshape), 'bsz=%d' % SYCL_LOCAL]
            yield Case('c13_sycl_launch %s sched=all' % base, h, dom=False, oracle='ok launches=1 global=%d local=%d' % (G, SYCL_LOCAL),
                       model=False, nontrivial=False, tags=tags0 + ['launch'])
            for _ in range(3 if tier == 'quick' else 6):
                k += 1
                ids = list(range(G))
                order = ORDERS[k % len(ORDERS)]
                stags = [order, 'exact' if G == n else 'over']
                if order == 'desc':
                    ids.reverse()
                elif order == 'interleave':
                    ids = ids[0::2] + ids[1::2]
                elif order == 'evenodd':
                    ids = [g for g in ids if g % 2 == 0] + [g for g in reversed(ids) if g % 2 == 1]
                elif order == 'random':
                    rng.shuffle(ids)
                kind = k % 7
                if kind == 2:
                    for _ in range(rng.randint(1, 4)):
                        ids.insert(rng.randrange(len(ids) + 1), rng.choice(ids))
                    stags.append('dup')
                elif kind == 4:          # work items beyond the launch: the guard of assign_result
                    ids.insert(rng.randrange(len(ids) + 1), G + rng.randrange(1000)); ids.insert(rng.randrange(len(ids) + 1), 2 ** 33 + rng.randrange(7))
                    stags.append('far')
                elif kind == 6:
                    drop = set(rng.sample(range(len(ids)), max(1, len(ids) // 4)))
                    ids = [g for i, g in enumerate(ids) if i not in drop]
                    stags.append('partial')
                plain = (order == 'asc' and kind not in (2, 4, 6))
                sched = [(g, 0) for g in ids]
                out, eq = expected(rf, n, 1, sched, sent)
                req = 'c13_sycl %s sched=%s' % (base, 'all' if plain else fmt_sched(sched))
                mreq = 'c13_kern shape=%s res=%s init=%d bsz=1 sched=%s' % (fmt(oshape), fmt(rf), sent, fmt_sched(sched))
                yield Case(req, h, dom=not off, oracle='ok shape=%s out=%s hosteq=%d' % (fmt(oshape), fmt(out), eq), model=not off, mreq=mreq, cmp=fcmp,
                           nontrivial=(n >= 2 and not plain), tags=tags0 + stags)


def upload_cases(tier, rng):
    """context_t::create_array of the CUDA / HIP contexts (real host code over the runtime stand-ins): the uploaded operand,
    rebuilt as the kernels do, must be the host array — element k (row-major numbering) at row-major position k"""
    shapes = [[n] for n in (1, 2, 5)] + [[a, b] for a in (1, 2, 3) for b in (1, 2, 4)] + [[2, 3, 2], [1, 3, 1], [2, 1, 2, 3], [1, 1, 1, 1, 1, 1, 1, 2], [2, 1, 2, 1, 2, 1, 2, 1]]
    for _ in range(10 if tier == 'quick' else 100):
        shapes.append(rshape(rng, max_rank=(4 if rng.random() < 0.8 else 8), max_extent=(4 if rng.random() < 0.8 else 2), cap=64))
    for b in DEV_BACKENDS:
        for s in shapes:
            n = prod(s)
            for layout in ['row', 'col']:
                visible = layout == 'col' and len([e for e in s if e > 1]) >= 2
                yield Case('c13_upload layout=%s shape=%s' % (layout, fmt(s)), 'h_c13_%s' % b, dom=(layout == 'row'),
                           oracle='ok shape=%s data=%s buffer=%s' % (fmt(s), fmt(list(range(n))), fmt(list(range(n)))),
                           nontrivial=len([e for e in s if e > 1]) >= 2,
                           tags=['upload', 'backend=' + b, 'layout=' + layout, 'dim=%d' % len(s)] + (['layout-visible'] if visible else []))


def gen(tier, rng):
    k = 0
    for c in itertools.chain(gen_(tier, rng), sycl_cases(tier, rng), upload_cases(tier, rng)):
        yield c
        # thorough: every 4th in-domain request (every 16th of the known-defect regions) also goes to the sanitizer build
        k += 1
        if tier == 'thorough' and c.req.startswith('c13_kern') and 'cross' not in c.tags and k % (4 if c.dom else 16) == 0:
            yield Case(c.req, c.harness + '_san', dom=c.dom, oracle=c.oracle, model=False, mreq=c.mreq, cmp=c.cmp, nontrivial=False, tags=list(c.tags) + ['san'])


def gen_(tier, rng):
    ctr = Counter()
    ncase, nsched = (6, 3) if tier == 'quick' else (40, 6)
    # witness of the known finding first
    yield from kern_cases('transpose_col', [[2, 3]], dict(axes=[1, 0]), lambda n: [(4, launch(n, 4, 0, 'asc', rng)[0], ['asc', 'exact'])], 'dev', tags=['witness'])
    yield from kern_cases('add_mul2', [[3], [3], [3]], {}, lambda n: [(4, launch(n, 4, 0, 'asc', rng)[0], ['asc', 'exact'])], 'dev', tags=['witness'])
    yield from kern_cases('add_tr', [[2], [2]], dict(axes=[0]), lambda n: [(4, launch(n, 4, 0, 'asc', rng)[0], ['asc', 'exact'])], 'dev', tags=['witness'])
    # one program over the whole geometry cross product (block sizes 1..33 x grids x orders)
    cross = [('add', [[2, 3], [3]], {})] if tier == 'quick' else [('add', [[2, 3], [3]], {}), ('transpose', [[2, 3, 2]], dict(axes=[2, 0, 1])),
                                                                   ('sum_tr_mul', [[2, 3], [3]], dict(axes=[1, 0], axis=0))]
    for name, shapes, params in cross:
        for mode in (['dev'] if tier == 'quick' else ['dev', 'ref']):
            yield from kern_cases(name, shapes, params, sched_picker(rng, ctr, 0, full_cross=True), mode)
    for name in PROGS:
        pg = PROGS[name]
        made = 0
        tries = 0
        while made < ncase and tries < 10 * ncase:
            tries += 1
            shapes, params = pg['gen'](rng)
            mode = 'dev' if pg['layout'] == 'col' else ['dev', 'ref'][made % 2]
            cs = list(kern_cases(name, shapes, params, sched_picker(rng, ctr, nsched), mode))
            if cs:
                made += 1
                yield from cs
    # shapes that do not broadcast: the view is Nothing, nothing is launched
    for name, shapes in [('add', [[2, 3], [2]]), ('multiply', [[3], [4]]), ('neg_add', [[2, 2], [3]]), ('add_col', [[2, 3], [2]])]:
        pg = PROGS[name]
        yield Case('c13_kern prog=%s shapes=%s data=prov mode=dev init=-7 bsz=2 sched=0,0' % (name, fmt_lists(shapes)), 'h_c13_g%d' % pg['group'],
                   dom=False, oracle='nothing', model=False, nontrivial=False, tags=['nothing'])
    # raw-triple constructors and compute_offset
    nk = 60 if tier == 'quick' else 600
    for i in range(nk):
        s = rshape(rng, max_rank=(4 if i % 5 else 8), max_extent=(4 if i % 5 else 2), cap=64)
        n = prod(s)
        data = [rng.randint(-99, 999) for _ in range(n + rng.randint(0, 3))]          # buffer may be longer than numel
        sp = s + [rng.randint(0, 9) for _ in range(rng.randint(0, 2))]                # memory behind the shape
        for mode in ['ref', 'dev']:
            yield Case('c13_mkarr data=%s shapeptr=%s dim=%d mode=%s' % (fmt(data), fmt(sp), len(s), mode), 'h_c13_g6',
                       oracle='ok shape=%s data=%s' % (fmt(s), fmt(data[:n])), nontrivial=len([e for e in s if e > 1]) >= 2,
                       tags=['mkarr', 'mode=' + mode, 'dim=%d' % len(s)])
    for i in range(nk):
        t, b, z = rng.randrange(2 ** (1 + i % 33)), rng.randrange(2 ** (1 + (i * 7) % 31)), rng.randint(1, 1024)
        yield Case('c13_koff tid=%d bid=%d bsz=%d' % (t, b, z), 'h_c13_g6', oracle='ok %d' % (b * z + t), tags=['koff'])


# ---------------------------------------------------------------------------------------------------------------
# known findings
# ---------------------------------------------------------------------------------------------------------------
def _req_args(c):
    return dict(kv.split('=', 1) for kv in c.req.split()[1:] if '=' in kv)


def colmajor_operand(c):
    """a program over column-major host arrays where some operand has >= 2 axes of extent > 1 (layout visible in the buffer)"""
    if c.req.startswith('c13_upload '):
        a = _req_args(c)
        return a.get('layout') == 'col' and len([e for e in a.get('shape', '').split(',') if e and int(e) > 1]) >= 2
    if not (c.req.startswith('c13_kern ') or c.req.startswith('c13_sycl ')):
        return False
    a = _req_args(c)
    if not a.get('prog', '').endswith('_col'):
        return False
    shapes = [[int(x) for x in s.split(',')] for s in a.get('shapes', '').split(';') if s and s != '[]']
    return any(len([e for e in s if e > 1]) >= 2 for s in shapes)


def nonfirst_view_operand(c):
    """extraction path (mode=dev) of a view tree in which some node has a view operand that is not its first operand"""
    if c.req.startswith('c13_sycl '):
        return _req_args(c).get('prog', '') in NONFIRST
    if not c.req.startswith('c13_kern '):
        return False
    a = _req_args(c)
    if a.get('mode') != 'dev':
        return False
    return a.get('prog', '') in NONFIRST


NONFIRST = {pg['hprog'] for pg in PROGS.values() if pg['nonfirst']}
KNOWN_PREDICATES = {'colmajor_operand': colmajor_operand, 'nonfirst_view_operand': nonfirst_view_operand}


def coverage_extra(cases, tier):
    progs = sorted({t[5:] for c in cases for t in c.tags if t.startswith('prog=')})
    bs = sorted({int(t[4:]) for c in cases for t in c.tags if t.startswith('bsz=')})
    return {'programs': len(progs), 'program_names': progs, 'block_sizes': bs, 'device_launch_covered': False,
            'sycl_evaluator_over_mock_runtime': sorted(SYCL_PROGS), 'cuda_hip_create_array_over_shim': sorted(DEV_BACKENDS)}
