"""C16 — linear-algebra routines equal their mathematical definitions.
IMPL: view::matmul, view::matmulv2, view::dot/inner/outer/vecdot/tensordot/kron/trace (+ index::shape_matmul and the
shape helpers of the pipelines); results read through the view's element access AND through eval.
ORACLE: NumPy (np.matmul, np.dot, np.inner, np.outer, np.vecdot, np.tensordot, np.kron, np.trace) on int64 data."""
import itertools
import re
import numpy as np
from runner import Case
from shapes import shapes, prod, fmt

ID = 'C16'
LEVEL = 'proof'
RULE = ('exhaustive over operand shapes of rank 1..R with extents 1..E (quick R=3,E=3 plus all rank-4 shapes with extents 1..2; thorough R=4,E=4, results capped in size and '
        'sub-sampled by a fixed stride where the pair space explodes): every NumPy-accepted pair for matmul (both implementations), dot, inner, '
        'outer, vecdot, kron; tensordot with every integer axes 0..min(dim) and every explicit ordered axis pairing (plus negative spellings); '
        'view::matmul additionally over operands whose number of dimensions is a compile-time constant (std::array shape container: tuple slice lists in index::matmul), fixed-dim x fixed-dim and both mixed pairs; '
        'a fixed-stride sample of the operand pairs NumPy REFUSES for matmul (both implementations), dot, inner, vecdot, tensordot (integer and explicit axes): expected answer Nothing; '
        'trace over every axis pair (positive and negative spelling) and every offset, negative ones included, with a non-empty diagonal (plus a bounded sample of empty diagonals); index::shape_matmul on ALL pairs '
        '(accepted or not). Integer data (two data sets) so sums are exact and a wrong pairing changes the value. '
        'non-trivial = some contraction / product over an extent > 1')
EXHAUSTIVE = {'quick': True, 'thorough': False}
ANCHORS = {
    'NmVerif.shapeMatmul': 'index::shape_matmul (view/matmul.hpp:29)',
    'NmVerif.matmulSlices / Linalg.matmulV1': 'index::matmul + view::matmul_t::view_at (view/matmul.hpp:116,400)',
    'NmVerif.Linalg.matmulV2 (+matmulLhsTile, matmulRhsTranspose, matmulLhsReshape, matmulRhsReshape)': 'view::matmulv2 (view/matmul.hpp:556-988)',
    'NmVerif.Linalg.dot (+dotLhsTile, dotRhsTranspose, dotLhsReshape)': 'view::dot (view/dot.hpp)',
    'NmVerif.Linalg.inner (+innerLhsReshape)': 'view::inner (view/inner.hpp)',
    'NmVerif.Linalg.outer': 'view::outer (view/outer.hpp)',
    'NmVerif.Linalg.vecdot': 'view::vecdot (view/vecdot.hpp)',
    'NmVerif.Linalg.tensordotInt / tensordotAxes (+moveToEnd, tensordotLhsReshape)': 'view::tensordot (view/tensordot.hpp)',
    'NmVerif.Linalg.kron (+kronDstTranspose, kronDstReshape)': 'view::kron (view/kron.hpp)',
    'NmVerif.Linalg.trace (+shapeDiagonal, diagonalIdx)': 'view::trace, view::diagonal, index::shape_diagonal, index::diagonal (view/trace.hpp, view/diagonal.hpp)',
}
ASSUMPTIONS = [
    'the broadcast_to index map of a broadcasting ufunc operand is the per-axis rule (extent-1 axis read at 0), Index/MatmulBroadcast.lean; shown against the header by C06, exercised here through every multiply',
    'size_t / int arithmetic does not wrap on the valid domain (all intermediate values are below the element counts)',
    'compile-time / fixed / bounded shape kinds of the same routines are in the C09/C11 kind matrix, not here (dynamic shapes only)',
]
PARTIAL = [
    'tensordot_isSome_iff assumes valid explicit axis lists (in range, no repeats, equal counts): view::tensordot still unwraps normalize_axis unchecked and does not look for repeated axes (invalid explicit axes are outside the quantifier of C16; C15 lists no class for them)',
    'trace_eq_def covers every offset with a non-empty diagonal (-extent(axis1) < offset < extent(axis2), repaired index::diagonal); empty diagonals (sum over a zero-length axis = 0 since fix commit 10b33c2) are compared with NumPy only here; the Lean statement for every offset is trace_eq_sum_diag_any_offset of C08',
]
MANIFEST = dict(
    text='Proof: 28 Lean theorems over a symbolic term-list model (for every destination index the ordered list of (lhs index, rhs index) products a routine sums): index::shape_matmul = NumPy rule on all pairs (isSome iff accepted); view::matmul and view::matmulv2 (both for all ranks >= 1, batch broadcasting, 1-d promotion on either side) sum exactly a[..,i,k]*b[..,k,j], k in order; dot, inner, outer, vecdot, tensordot (integer and explicit axes, negative spellings), kron (incl. the closed form of kron_dst_transpose for all ranks), trace (offsets of either sign, non-empty diagonal) equal their NumPy definitions for every rank/extent; every contracting routine (view::matmul, view::matmulv2, dot, inner, vecdot, tensordot with integer and with valid explicit axes) answers Nothing exactly on the operand pairs NumPy refuses (X_isSome_iff). Tied to the C++ on every run by a differential run of all eight routines (element access and eval) + pipeline shape helpers against the model and against NumPy.',
    note='Lean kernel + propext/Classical.choice/Quot.sound; hand-written model (view combinators reshape/tile/transpose/broadcast-multiply/sum mirrored from the headers), fidelity rests on the correspondence run; broadcast_to index map taken in per-axis form (C06); dynamic-shape arrays only (static/bounded kinds in C09/C11); the 1-d operand defect of view::matmul is repaired in /repo (fix C16-matmul-1d-operand) and modelled as repaired (matmul_v1_1d_regression); view::matmul is also run over fixed-dim operand kinds (tuple slice lists); view::matmulv2 / inner / vecdot / tensordot no longer broadcast a contracted axis of extent 1 (fix C15-contraction-extent, modelled as pipeline + check: matmulV2C, innerC, vecdotC, tensordotIntC, tensordotAxesC; regression instances matmulv2_contraction_regression, contraction_extent_regression); no known finding is open; trace over an empty diagonal is repaired in /repo (fix 10b33c2); the negative-offset defect of index::diagonal is repaired in /repo and modelled as repaired.',
    technique='Lean 4 proofs over symbolic term lists (which (lhs index, rhs index) pairs are summed, in order) for every rank/extent + differential correspondence against the real views (element access and eval) + NumPy oracle')


def harness_specs(tier):
    return [dict(name='h_c16_mm', src='h_c16_mm.cpp', flavour='fast'),
            dict(name='h_c16_dot', src='h_c16_dot.cpp', flavour='fast'),
            dict(name='h_c16_td', src='h_c16_td.cpp', flavour='fast'),
            dict(name='h_c16_mmk', src='h_c16_mmk.cpp', flavour='fast'),
            dict(name='h_c16_bd', src='h_c16_bd.cpp', flavour='fast')]


# ------------------------------------------------------------------------------------------------
# data + oracle
# ------------------------------------------------------------------------------------------------

def val(mode, operand, k):
    if mode == 'lin':
        return k + 1 if operand == 0 else 2 * k + 3
    return 1 + (((k + 1 + 17 * operand) * 2654435761) % 4294967296) % 9973


def mk(shape, mode, operand):
    n = prod(shape)
    return np.array([val(mode, operand, k) for k in range(n)], dtype=np.int64).reshape(shape)


def show(r):
    r = np.asarray(r)
    return 'ok shape=%s data=%s eval=same' % (fmt(r.shape), fmt(r.reshape(-1).tolist()))


def np_try(f):
    try:
        return f()
    except (ValueError, TypeError, IndexError, np.exceptions.AxisError):
        return None


# ------------------------------------------------------------------------------------------------
# known findings (input classes)
# ------------------------------------------------------------------------------------------------

def _args(c):
    return dict(kv.split('=', 1) for kv in c.req.split()[1:])


def _shape(s):
    return [] if s == '[]' else [int(x) for x in s.split(',')]


def trace_empty_diagonal(c):
    if not c.req.startswith('trace '):
        return False
    a = _args(c)
    s = _shape(a['a'])
    o = int(a['offset'])
    n1, n2 = s[int(a['axis1'])], s[int(a['axis2'])]
    return min(n1 + min(o, 0), n2 - max(o, 0)) <= 0


KNOWN_PREDICATES = {
    'trace_empty_diagonal': trace_empty_diagonal,
}


# ------------------------------------------------------------------------------------------------
# generator
# ------------------------------------------------------------------------------------------------

def stride_pick(seq, keep):
    """deterministic sub-sample: at most `keep` items, evenly spaced"""
    seq = list(seq)
    if len(seq) <= keep:
        return seq
    step = len(seq) / float(keep)
    return [seq[int(i * step)] for i in range(keep)]


def _strip_eval(x):
    x = re.sub(r' bd=\S+$', '', x)
    return x[:-len(' eval=same')] if x.endswith(' eval=same') else x


def _bd_cmp(x, y):
    """same shape and elements; where the harness reports the static rank bound of the result type it covers the rank"""
    for z in (x, y):
        m = re.search(r'^ok shape=(\S+) .* bd=([0-9]+)$', z)
        if m and m.group(1) != '[]' and len(m.group(1).split(',')) > int(m.group(2)):
            return False
    return _strip_eval(x) == _strip_eval(y)


def bounded_rank_cases(tier, scale=1):
    """Operands whose rank is only BOUNDED at compile time (shape container static_vector<size_t, CAP>), evaluated through
    the eager functions: the helper index functions size their result containers from the rank bounds of both operands.
    The model is asked the same request as for dynamic rank (the bound must not change the answer)."""
    quick = tier == 'quick'
    S = list(shapes(3, 3, min_rank=1))
    out = []
    for fn, mop, f in (('dot', 'dot a=%s b=%s data=lin', np.dot), ('matmul', 'matmul impl=v1 a=%s b=%s data=lin', np.matmul),
                       ('matmulv2', 'matmul impl=v2 a=%s b=%s data=lin', np.matmul), ('inner', 'inner a=%s b=%s data=lin', np.inner),
                       ('kron', 'kron a=%s b=%s data=lin', np.kron),
                       ('tensordot', 'tensordot a=%s b=%s axes=1 data=lin', lambda x, y: np.tensordot(x, y, 1))):
        for a in S:
            for b in S:
                r = np_try(lambda: f(mk(a, 'lin', 0), mk(b, 'lin', 1)))
                if r is not None and np.asarray(r).size > 400:
                    continue
                for lc in range(len(a), 4):
                    for rc in range(len(b), 4):
                        out.append((fn, mop, a, b, lc, rc, r))
    ok = [t for t in out if t[6] is not None]
    ref = [t for t in out if t[6] is None]
    for fn, mop, a, b, lc, rc, r in stride_pick(ok, (2400 if quick else 30000) // scale) + stride_pick(ref, (300 if quick else 3000) // scale):
        req = 'linalg_bd fn=%s a=%s b=%s lcap=%d rcap=%d%s' % (fn, fmt(a), fmt(b), lc, rc, ' n=1' if fn == 'tensordot' else '')
        orc = 'nothing' if r is None else _strip_eval(show(r))
        rr = 0 if r is None else np.asarray(r).ndim
        yield Case(req, 'h_c16_bd', mreq='c16.' + mop % (fmt(a), fmt(b)), oracle=orc, nontrivial=r is not None and rr > 0,
                   cmp=_bd_cmp,
                   tags=['bounded-rank', fn, 'lcap%srank' % ('=' if lc == len(a) else '>'), 'rcap%srank' % ('=' if rc == len(b) else '>'),
                         'result-rank%scaps' % ('>' if rr > max(lc, rc) else '<=')] + ([] if r is not None else ['refused-by-numpy']))


def gen(tier, rng):
    # the Lean driver serves these ops under the prefix `c16.` (op names like `outer`, `dot` also exist in other drivers)
    yield from bounded_rank_cases(tier)
    for c in _gen(tier, rng):
        if not c.mreq.startswith('c16.'):
            c.mreq = 'c16.' + c.req
        yield c


def _gen(tier, rng):
    quick = tier == 'quick'
    R, E = (3, 3) if quick else (4, 4)
    S = list(shapes(R, E, min_rank=1))
    if quick:
        # the property names rank 4: add every rank-4 shape with extents 1..2 so that operands whose batch ranks differ
        # by one or two (rank 3 x rank 4, rank 2 x rank 4) and 4-axis pipelines are in the quick tier too
        S += [s for s in shapes(4, 2, min_rank=4)]
    cap = 800 if quick else 5000            # max result elements per request
    modes = ['mix', 'lin']
    cnt = [0]

    def mode():
        cnt[0] += 1
        return modes[0] if cnt[0] % 4 else modes[1]

    # ---- index::shape_matmul on all pairs (also the refused ones: isSome <-> NumPy accepts) ----
    pairs = [(a, b) for a in S for b in S]
    sm_pairs = pairs if quick else stride_pick(pairs, 30000)
    for a, b in sm_pairs:
        r = np_try(lambda: np.matmul(np.zeros(a, dtype=np.int8), np.zeros(b, dtype=np.int8)))
        orc = 'nothing' if r is None else 'ok ' + fmt(r.shape)
        yield Case('shape_matmul a=%s b=%s' % (fmt(a), fmt(b)), 'h_c16_mm', oracle=orc, nontrivial=(r is not None and len(a) + len(b) > 2),
                   tags=['shape_matmul', 'accepted' if r is not None else 'refused'])

    # ---- matmul, both implementations ----
    mm = []
    for a, b in pairs:
        r = np_try(lambda: np.matmul(np.zeros(a, dtype=np.int8), np.zeros(b, dtype=np.int8)))
        if r is not None and r.size <= cap:
            mm.append((a, b))
    if not quick:
        mm = stride_pick(mm, 9000)
    for a, b in mm:
        m = mode()
        orc = show(np.matmul(mk(a, m, 0), mk(b, m, 1)))
        ba, bb = a[:-2], b[:-2]
        tags = ['matmul', 'rank=%d,%d' % (len(a), len(b)), 'K=%d' % a[-1]]
        if len(a) == 1 or len(b) == 1:
            tags.append('1d-promotion')
        if len(ba) != len(bb) or any(x != y for x, y in zip(ba, bb)):
            tags.append('batch-broadcast')
        nt = a[-1] > 1
        # 1-d promotion of view::matmul: repaired (fix C16-matmul-1d-operand), inside the domain of matmul_elem_eq_sum
        yield Case('matmul impl=v1 a=%s b=%s data=%s' % (fmt(a), fmt(b), m), 'h_c16_mm', oracle=orc, nontrivial=nt, tags=tags + ['v1'])
        yield Case('matmul impl=v2 a=%s b=%s data=%s' % (fmt(a), fmt(b), m), 'h_c16_mm', oracle=orc, nontrivial=nt, tags=tags + ['v2'])
    for a, b in stride_pick(pairs, 400 if quick else 2000):
        yield Case('matmul_helpers a=%s b=%s' % (fmt(a), fmt(b)), 'h_c16_mm', nontrivial=False, tags=['helpers'])
    # view::matmul over operands whose number of dimensions is a compile-time constant (shape container std::array):
    # index::matmul then builds tuple slice lists (`if constexpr` branches of their own); same model answer as the
    # run-time-dim operands.  Mixed pairs (one side fixed-dim, the other run-time) take the run-time branch for one side.
    yield from matmul_kinds(mm, 220 if quick else 1500, mode)

    # ---- dot / inner / outer / vecdot / kron ----
    def binary(op, fn, harness, keep):
        ok = []
        for a, b in pairs:
            r = np_try(lambda: fn(np.zeros(a, dtype=np.int8), np.zeros(b, dtype=np.int8)))
            if r is not None and np.asarray(r).size <= cap:
                ok.append((a, b))
        if not quick:
            ok = stride_pick(ok, keep)
        for a, b in ok:
            m = mode()
            orc = show(fn(mk(a, m, 0), mk(b, m, 1)))
            tags = [op, 'rank=%d,%d' % (len(a), len(b))]
            if op == 'vecdot' and list(a[:-1]) != list(b[:-1]):
                tags.append('leading-broadcast')      # leading axes of different rank / extent 1 against n
            yield Case('%s a=%s b=%s data=%s' % (op, fmt(a), fmt(b), m), harness, oracle=orc,
                       nontrivial=(prod(a) > 1 and prod(b) > 1), tags=tags)

    yield from binary('dot', np.dot, 'h_c16_dot', 6000)
    yield from binary('inner', np.inner, 'h_c16_dot', 6000)
    yield from binary('outer', np.outer, 'h_c16_dot', 4000)
    yield from binary('vecdot', np.vecdot, 'h_c16_dot', 6000)
    yield from binary('kron', np.kron, 'h_c16_td', 6000)
    for a, b in stride_pick(pairs, 300 if quick else 1500):
        yield Case('dot_helpers a=%s b=%s' % (fmt(a), fmt(b)), 'h_c16_dot', nontrivial=False, tags=['helpers'])
        yield Case('inner_helpers a=%s b=%s' % (fmt(a), fmt(b)), 'h_c16_dot', nontrivial=False, tags=['helpers'])
        yield Case('kron_helpers a=%s b=%s' % (fmt(a), fmt(b)), 'h_c16_td', nontrivial=False, tags=['helpers'])

    # ---- operand pairs NumPy REFUSES (mismatching contracted extents — also 1 against n —, batch / leading axes that do not
    #      broadcast, tensordot(n) with n beyond a rank): every routine must answer Nothing (the property: the shape NumPy
    #      produces — here none).  Theorem domain: matmul_isSome_iff, matmulv2_isSome_iff, dot_isSome_iff, inner_isSome_iff,
    #      vecdot_isSome_iff, tensordot_int_isSome_iff, tensordot_isSome_iff (views repaired by fixes/C15-contraction-extent.diff)
    def refused(fn):
        return [(a, b) for a, b in pairs if np_try(lambda: fn(np.zeros(a, dtype=np.int8), np.zeros(b, dtype=np.int8))) is None]
    nref = 260 if quick else 2500
    for a, b in stride_pick(refused(np.matmul), nref):
        for impl in ('v1', 'v2'):
            yield Case('matmul impl=%s a=%s b=%s data=lin' % (impl, fmt(a), fmt(b)), 'h_c16_mm', oracle='nothing',
                       nontrivial=False, tags=['matmul', impl, 'refused-by-numpy'])
    for op, fn, h in (('dot', np.dot, 'h_c16_dot'), ('inner', np.inner, 'h_c16_dot'), ('vecdot', np.vecdot, 'h_c16_dot')):
        for a, b in stride_pick(refused(fn), nref):
            yield Case('%s a=%s b=%s data=lin' % (op, fmt(a), fmt(b)), h, oracle='nothing', nontrivial=False,
                       tags=[op, 'refused-by-numpy'])
    rtd = []
    for a, b in pairs:
        for n in range(1, max(len(a), len(b)) + 2):
            if n > min(len(a), len(b)) or a[len(a) - n:] != b[:n]:
                rtd.append(('tensordot a=%s b=%s axes=%d data=lin' % (fmt(a), fmt(b), n), 'int-axes'))
        if len(a) <= 3 and len(b) <= 3:
            for n in range(1, min(len(a), len(b)) + 1):
                for la in itertools.permutations(range(len(a)), n):
                    for ra in itertools.permutations(range(len(b)), n):
                        if any(a[x] != b[y] for x, y in zip(la, ra)):
                            rtd.append(('tensordot a=%s b=%s la=%s ra=%s data=lin' % (fmt(a), fmt(b), fmt(la), fmt(ra)), 'explicit-axes'))
    for kind in ('int-axes', 'explicit-axes'):
        for req, k in stride_pick([t for t in rtd if t[1] == kind], nref):
            yield Case(req, 'h_c16_td', oracle='nothing', nontrivial=False, tags=['tensordot', k, 'refused-by-numpy'])

    # ---- tensordot ----
    td = []
    for a, b in pairs:
        for n in range(0, min(len(a), len(b)) + 1):
            if n == 0 or a[len(a) - n:] == b[:n]:
                if prod(a[:len(a) - n]) * prod(b[n:]) <= cap:
                    td.append(('int', a, b, n, None))
        for n in range(1, min(len(a), len(b)) + 1):
            for la in itertools.permutations(range(len(a)), n):
                for ra in itertools.permutations(range(len(b)), n):
                    if all(a[x] == b[y] for x, y in zip(la, ra)):
                        td.append(('ax', a, b, list(la), list(ra)))
    ints = [t for t in td if t[0] == 'int']
    axs = [t for t in td if t[0] == 'ax']
    ints = stride_pick(ints, 1500 if quick else 8000)
    axs = stride_pick(axs, 3000 if quick else 20000)
    k = 0
    for kind, a, b, x, y in ints + axs:
        m = mode()
        A, B = mk(a, m, 0), mk(b, m, 1)
        if kind == 'int':
            orc = show(np.tensordot(A, B, x))
            yield Case('tensordot a=%s b=%s axes=%d data=%s' % (fmt(a), fmt(b), x, m), 'h_c16_td', oracle=orc,
                       nontrivial=(x > 0 and prod(a[len(a) - x:]) > 1), tags=['tensordot', 'int-axes', 'n=%d' % x])
        else:
            k += 1
            la, ra = list(x), list(y)
            if k % 3 == 0:      # negative spelling of some axes
                la = [v - len(a) if i % 2 == 0 else v for i, v in enumerate(la)]
                ra = [v - len(b) if i % 2 == 1 else v for i, v in enumerate(ra)]
            orc = show(np.tensordot(A, B, (la, ra)))
            yield Case('tensordot a=%s b=%s la=%s ra=%s data=%s' % (fmt(a), fmt(b), fmt(la), fmt(ra), m), 'h_c16_td', oracle=orc,
                       nontrivial=prod([a[v] for v in la]) > 1, tags=['tensordot', 'explicit-axes', 'n=%d' % len(la)] + (['negative-axes'] if k % 3 == 0 else []))
            if k % 10 == 0:
                yield Case('tensordot_helpers a=%s b=%s la=%s ra=%s' % (fmt(a), fmt(b), fmt(la), fmt(ra)), 'h_c16_td', nontrivial=False, tags=['helpers'])

    # ---- trace ----
    tr = []
    for s in S:
        if len(s) < 2:
            continue
        for a1, a2 in itertools.permutations(range(len(s)), 2):
            n1, n2 = s[a1], s[a2]
            for off in range(-n1, n2 + 1):
                tr.append((s, off, a1, a2))
    def _empty(t):
        s, off, a1, a2 = t
        return (off >= 0 and s[a2] - off <= 0) or (off < 0 and s[a1] + off <= 0)
    # empty diagonals (class of the repaired defect trace.empty-diagonal): a bounded sample
    tr = [t for t in tr if not _empty(t)] + stride_pick([t for t in tr if _empty(t)], 80 if quick else 300)
    if not quick:
        tr = stride_pick(tr, 12000)
    k = 0
    for s, off, a1, a2 in tr:
        k += 1
        m = mode()
        x1, x2 = (a1 - len(s), a2) if k % 4 == 0 else ((a1, a2 - len(s)) if k % 4 == 2 else (a1, a2))
        orc = show(np.trace(mk(s, m, 0), off, x1, x2))
        n1, n2 = s[a1], s[a2]
        empty = (off >= 0 and n2 - off <= 0) or (off < 0 and n1 + off <= 0)
        neg = off < 0
        tags = ['trace', 'offset<0' if neg else ('offset>0' if off > 0 else 'offset=0')] + (['empty-diagonal'] if empty else []) + (['negative-axis'] if k % 4 in (0, 2) else [])
        # empty diagonal: sum over nothing = 0 (repaired defect trace.empty-diagonal, fix 10b33c2) — no C16 model, NumPy (0) judges
        yield Case('trace a=%s offset=%d axis1=%d axis2=%d data=%s' % (fmt(s), off, x1, x2, m), 'h_c16_td', oracle=orc,
                   dom=not empty, model=not empty, nontrivial=(min(n1, n2) > 1), tags=tags)

    # trace with the DEFAULT axis pair (trace(a), trace(a, offset)): the first two axes, whatever the rank
    for s in [x for x in shapes(4, 3, min_rank=2) if len(x) >= 2][:: (3 if quick else 1)]:
        for form, offs in (('d0', [0]), ('d1', [o for o in (-1, 0, 1) if -s[0] < o < s[1]])):
            for off in offs:
                m = mode()
                base = 'trace a=%s offset=%d axis1=0 axis2=1 data=%s' % (fmt(s), off, m)
                yield Case(base + ' form=' + form, 'h_c16_td', mreq=base, oracle=show(np.trace(mk(s, m, 0), off)), nontrivial=len(s) > 2,
                           tags=['trace', 'default-axes', 'rank=%d' % len(s)])

    # ---- seeded random larger cases (extents up to 7, rank up to 4), every routine ----
    yield from random_cases(rng, 60 if quick else 600, cap if quick else 4000)


MATMUL_KIND_1D = True       # fixed-dim 1-d operands (fix C16-matmul-1d-operand); 1-d x 1-d with BOTH dims fixed is a number, not a view: left out


def matmul_kinds(mm, keep, mode):
    ok = [(a, b) for a, b in mm if (MATMUL_KIND_1D or (len(a) >= 2 and len(b) >= 2))]
    for lk, rk in (('fd', 'fd'), ('fd', 'dyn'), ('dyn', 'fd')):
        sel = [(a, b) for a, b in ok if not (len(a) == 1 and len(b) == 1 and lk == 'fd' and rk == 'fd')]
        if not MATMUL_KIND_1D:
            sel = [(a, b) for a, b in sel if len(a) >= 2 and len(b) >= 2]
        # every pair with a 1-d operand (the promotion branches), a fixed-stride sample of the others
        one_d = [(a, b) for a, b in sel if len(a) == 1 or len(b) == 1]
        rest = [(a, b) for a, b in sel if len(a) >= 2 and len(b) >= 2]
        for a, b in stride_pick(one_d, 2 * keep) + stride_pick(rest, keep):
            m = mode()
            orc = show(np.matmul(mk(a, m, 0), mk(b, m, 1)))
            tags = ['matmul', 'kinds', 'lhs=' + lk, 'rhs=' + rk, 'rank=%d,%d' % (len(a), len(b))]
            if len(a) == 1 or len(b) == 1:
                tags.append('1d-promotion')
            yield Case('matmul_k a=%s b=%s lhs_kind=%s rhs_kind=%s data=%s' % (fmt(a), fmt(b), lk, rk, m), 'h_c16_mmk', oracle=orc,
                       mreq='c16.matmul impl=v1 a=%s b=%s data=%s' % (fmt(a), fmt(b), m), nontrivial=a[-1] > 1, tags=tags)


def _bc_partner(rng, batch):
    """a batch shape that broadcasts with `batch`: drop leading axes, set some to 1, or prepend new ones"""
    b = list(batch)
    k = rng.randint(0, len(b))
    b = b[k:]
    b = [1 if rng.random() < 0.3 else e for e in b]
    if rng.random() < 0.3 and len(b) < 2:
        b = [rng.randint(1, 4)] + b
    return b


def random_cases(rng, n, cap):
    def rshape(lo, hi, emax=7):
        return [rng.randint(1, emax) for _ in range(rng.randint(lo, hi))]

    def ok(r):
        return r is not None and np.asarray(r).size <= cap

    for t in range(n):
        m = 'mix' if t % 3 else 'lin'
        # matmul
        a = rshape(1, 4)
        K = a[-1]
        if rng.random() < 0.2:
            b = [K]
        else:
            bb = _bc_partner(rng, a[:-2])[-2:]
            a2 = [1 if (rng.random() < 0.3 and len(a) > 2 and i < len(a) - 2) else e for i, e in enumerate(a)]
            a = a2
            b = bb + [K, rng.randint(1, 7)]
        r = np_try(lambda: np.matmul(mk(a, m, 0), mk(b, m, 1)))
        if ok(r):
            yield Case('matmul impl=v1 a=%s b=%s data=%s' % (fmt(a), fmt(b), m), 'h_c16_mm', oracle=show(r), tags=['matmul', 'v1', 'random'])
            yield Case('matmul impl=v2 a=%s b=%s data=%s' % (fmt(a), fmt(b), m), 'h_c16_mm', oracle=show(r), tags=['matmul', 'v2', 'random'])
        # dot / inner / vecdot
        a = rshape(1, 3)
        K = a[-1]
        b = rshape(0, 2, 5) + ([K, rng.randint(1, 6)] if rng.random() < 0.7 else [K])
        r = np_try(lambda: np.dot(mk(a, m, 0), mk(b, m, 1)))
        if ok(r):
            yield Case('dot a=%s b=%s data=%s' % (fmt(a), fmt(b), m), 'h_c16_dot', oracle=show(r), tags=['dot', 'random'])
        b = rshape(0, 2, 5) + [K]
        r = np_try(lambda: np.inner(mk(a, m, 0), mk(b, m, 1)))
        if ok(r):
            yield Case('inner a=%s b=%s data=%s' % (fmt(a), fmt(b), m), 'h_c16_dot', oracle=show(r), tags=['inner', 'random'])
        b = _bc_partner(rng, a[:-1]) + [K]
        r = np_try(lambda: np.vecdot(mk(a, m, 0), mk(b, m, 1)))
        if ok(r):
            yield Case('vecdot a=%s b=%s data=%s' % (fmt(a), fmt(b), m), 'h_c16_dot', oracle=show(r), tags=['vecdot', 'random'])
        # outer / kron
        a, b = rshape(1, 3, 5), rshape(1, 3, 5)
        r = np.outer(mk(a, m, 0), mk(b, m, 1))
        if ok(r):
            yield Case('outer a=%s b=%s data=%s' % (fmt(a), fmt(b), m), 'h_c16_dot', oracle=show(r), tags=['outer', 'random'])
        a, b = rshape(1, 4, 4), rshape(1, 4, 4)
        if prod(a) * prod(b) <= cap:
            r = np.kron(mk(a, m, 0), mk(b, m, 1))
            yield Case('kron a=%s b=%s data=%s' % (fmt(a), fmt(b), m), 'h_c16_td', oracle=show(r), tags=['kron', 'random', 'rank=%d,%d' % (len(a), len(b))])
        # tensordot: explicit axes (sometimes negative), integer axes
        a = rshape(1, 4, 5)
        rb = rng.randint(1, 4)
        nn = rng.randint(0, min(len(a), rb))
        la = rng.sample(range(len(a)), nn)
        ra = rng.sample(range(rb), nn)
        b = [rng.randint(1, 5) for _ in range(rb)]
        for x, y in zip(la, ra):
            b[y] = a[x]
        la_s = [x - len(a) if rng.random() < 0.3 else x for x in la]
        ra_s = [y - rb if rng.random() < 0.3 else y for y in ra]
        if nn > 0:
            r = np_try(lambda: np.tensordot(mk(a, m, 0), mk(b, m, 1), (la_s, ra_s)))
            if ok(r):
                yield Case('tensordot a=%s b=%s la=%s ra=%s data=%s' % (fmt(a), fmt(b), fmt(la_s), fmt(ra_s), m), 'h_c16_td', oracle=show(r),
                           tags=['tensordot', 'explicit-axes', 'random', 'n=%d' % nn])
        b = a[len(a) - nn:] + rshape(0, 2, 5)
        r = np_try(lambda: np.tensordot(mk(a, m, 0), mk(b, m, 1), nn))
        if ok(r) and len(b) >= 1:
            yield Case('tensordot a=%s b=%s axes=%d data=%s' % (fmt(a), fmt(b), nn, m), 'h_c16_td', oracle=show(r), tags=['tensordot', 'int-axes', 'random', 'n=%d' % nn])
        # trace, non-empty diagonal, offsets of both signs
        a = rshape(2, 4, 6)
        a1, a2 = rng.sample(range(len(a)), 2)
        off = rng.randint(-(a[a1] - 1), a[a2] - 1)
        x1 = a1 - len(a) if rng.random() < 0.3 else a1
        x2 = a2 - len(a) if rng.random() < 0.3 else a2
        r = np.trace(mk(a, m, 0), off, x1, x2)
        yield Case('trace a=%s offset=%d axis1=%d axis2=%d data=%s' % (fmt(a), off, x1, x2, m), 'h_c16_td', oracle=show(r), tags=['trace', 'random'])
