import NmVerif.Index.Broadcast
import NmVerif.Lemmas.Addressing
/-
  Helper lemmas for the broadcasting model (used by Props/C06, Props/C07 and later C02/C10/C16).
  Property statements live in NmVerif/Props/*.lean, never here.

  Part 1: per-axis facts (`compat`, `AllCompat`, `IsMaxOf`).
  Part 2: pointwise characterisation of `bcRev` (`bcRev_spec`) and of the n-ary fold (`bcRevN_spec`).
  Part 3: `sbtRev` / `shapeBroadcastTo`: forward description, origin axes, the index map.
-/
namespace NmVerif

/-! ## Part 0: small tools -/

theorem opt_ext {α} {x y : Option α} (h : ∀ r, x = some r ↔ y = some r) : x = y := by
  cases x with
  | none =>
    cases y with
    | none => rfl
    | some b => exact absurd ((h b).2 rfl) (by simp)
  | some a => exact ((h a).1 rfl).symm

/-- entry `k` of a (reversed) shape, absent entries count as 1 -/
def gd (l : List Nat) (k : Nat) : Nat :=
  match l[k]? with
  | some e => e
  | none => 1

theorem axR_eq_gd (s : Shape) (k : Nat) : axR s k = gd s.reverse k := rfl

@[simp] theorem gd_nil (k : Nat) : gd [] k = 1 := by simp [gd]
@[simp] theorem gd_cons_zero (a : Nat) (l : List Nat) : gd (a :: l) 0 = a := by simp [gd]
@[simp] theorem gd_cons_succ (a : Nat) (l : List Nat) (k : Nat) : gd (a :: l) (k+1) = gd l k := by simp [gd]

theorem gd_of_lt {l : List Nat} {k : Nat} (h : k < l.length) : gd l k = l[k] := by
  simp [gd, List.getElem?_eq_getElem h]

theorem gd_of_ge {l : List Nat} {k : Nat} (h : l.length ≤ k) : gd l k = 1 := by
  simp [gd, List.getElem?_eq_none h]

theorem gd_pos {l : List Nat} (h : Pos l) (k : Nat) : 0 < gd l k := by
  induction l generalizing k with
  | nil => simp
  | cons a t ih =>
    cases k with
    | zero => simpa using h.head
    | succ n => simpa using ih h.tail n

theorem gd_mem_or {l : List Nat} (k : Nat) : gd l k ∈ l ∨ gd l k = 1 := by
  induction l generalizing k with
  | nil => simp
  | cons a t ih =>
    cases k with
    | zero => simp
    | succ n =>
      rcases ih n with h | h
      · left; simp [h]
      · right; simpa using h

theorem ext_gd {l1 l2 : List Nat} (hl : l1.length = l2.length) (h : ∀ k, gd l1 k = gd l2 k) : l1 = l2 := by
  induction l1 generalizing l2 with
  | nil => cases l2 <;> simp_all
  | cons a t ih =>
    cases l2 with
    | nil => simp at hl
    | cons b u =>
      have h0 := h 0
      simp only [gd_cons_zero] at h0
      have ht : t = u := ih (by simpa using hl) (fun k => by simpa using h (k+1))
      rw [h0, ht]

theorem Pos.cons {a : Nat} {t : List Nat} (ha : 0 < a) (ht : Pos t) : Pos (a :: t) := by
  intro x hx
  simp at hx
  rcases hx with rfl | hx
  · exact ha
  · exact ht x hx

theorem Pos.reverse {s : List Nat} (h : Pos s) : Pos s.reverse := fun x hx => h x (by simpa using hx)

theorem Pos.of_reverse {s : List Nat} (h : Pos s.reverse) : Pos s := fun x hx => h x (by simpa using hx)

/-! ## Part 1: per-axis facts -/

/-- the `success` test of one loop iteration -/
def compat (a b : Nat) : Prop := a = b ∨ a = 1 ∨ b = 1

instance (a b : Nat) : Decidable (compat a b) := by unfold compat; exact inferInstance

theorem bc1_eq_some_iff {a b z : Nat} : bc1 a b = some z ↔ compat a b ∧ z = max a b := by
  unfold bc1 compat
  by_cases h : a = b ∨ a = 1 ∨ b = 1
  · simp only [h, if_true, Option.some.injEq, true_and]
    constructor <;> intro h' <;> split at * <;> omega
  · simp [h]

theorem bc1_eq_none_iff {a b : Nat} : bc1 a b = none ↔ ¬ compat a b := by
  unfold bc1 compat
  by_cases h : a = b ∨ a = 1 ∨ b = 1 <;> simp [h]

/-- all values are pairwise equal-or-1 -/
def AllCompat (xs : List Nat) : Prop := ∀ x ∈ xs, ∀ y ∈ xs, compat x y

/-- `m` is the largest member of `xs` -/
def IsMaxOf (m : Nat) (xs : List Nat) : Prop := m ∈ xs ∧ ∀ x ∈ xs, x ≤ m

theorem IsMaxOf.unique {m n : Nat} {xs : List Nat} (h1 : IsMaxOf m xs) (h2 : IsMaxOf n xs) : m = n := by
  have a := h1.2 n h2.1
  have b := h2.2 m h1.1
  omega

theorem isMaxOf_max_cons (m a s : Nat) (xs : List Nat) :
    IsMaxOf m (max a s :: xs) ↔ IsMaxOf m (a :: s :: xs) := by
  unfold IsMaxOf
  simp only [List.mem_cons, forall_eq_or_imp]
  constructor
  · rintro ⟨hm, hle, hx⟩
    refine ⟨?_, by omega, by omega, hx⟩
    rcases hm with hm | hm
    · by_cases h : a ≤ s
      · right; left; omega
      · left; omega
    · right; right; exact hm
  · rintro ⟨hm, ha, hs, hx⟩
    refine ⟨?_, by omega, hx⟩
    rcases hm with hm | hm | hm
    · left; omega
    · left; omega
    · right; exact hm

theorem allCompat_max_cons {a s : Nat} {xs : List Nat} (ha : 0 < a) (hs : 0 < s) (hxs : Pos xs) (hc : compat a s) :
    AllCompat (max a s :: xs) ↔ AllCompat (a :: s :: xs) := by
  unfold AllCompat compat at *
  constructor
  · intro h x hx y hy
    have hm : max a s ∈ max a s :: xs := by simp
    simp only [List.mem_cons] at hx hy
    have hpos : ∀ z ∈ xs, 0 < z := hxs
    rcases hx with rfl | rfl | hx <;> rcases hy with rfl | rfl | hy
    · omega
    · omega
    · have := h _ hm y (by simp [hy]); have := hpos y hy; omega
    · omega
    · omega
    · have := h _ hm y (by simp [hy]); have := hpos y hy; omega
    · have := h x (by simp [hx]) _ hm; have := hpos x hx; omega
    · have := h x (by simp [hx]) _ hm; have := hpos x hx; omega
    · exact h x (by simp [hx]) y (by simp [hy])
  · intro h x hx y hy
    simp only [List.mem_cons] at hx hy
    have haa : a ∈ a :: s :: xs := by simp
    have hss : s ∈ a :: s :: xs := by simp
    rcases hx with rfl | hx <;> rcases hy with rfl | hy
    · omega
    · have h1 := h a haa y (by simp [hy]); have h2 := h s hss y (by simp [hy]); omega
    · have h1 := h x (by simp [hx]) a haa; have h2 := h x (by simp [hx]) s hss; omega
    · exact h x (by simp [hx]) y (by simp [hy])

/-! ## Part 2: `bcRev` -/

theorem bcRev_nil_right (a : List Nat) : bcRev a [] = some a := by
  cases a <;> simp [bcRev]

theorem bcRev_comm (a b : List Nat) : bcRev a b = bcRev b a := by
  induction a generalizing b with
  | nil => cases b <;> simp [bcRev]
  | cons x xs ih =>
    cases b with
    | nil => simp [bcRev]
    | cons y ys =>
      have h1 : bc1 x y = bc1 y x := by
        apply opt_ext; intro r
        rw [bc1_eq_some_iff, bc1_eq_some_iff]; unfold compat
        constructor <;> rintro ⟨h, rfl⟩ <;> exact ⟨by omega, Nat.max_comm _ _⟩
      simp only [bcRev, h1, ih ys]

theorem bcRev_self (a : List Nat) : bcRev a a = some a := by
  induction a with
  | nil => simp [bcRev]
  | cons x xs ih =>
    have : bc1 x x = some x := by rw [bc1_eq_some_iff]; exact ⟨Or.inl rfl, by simp⟩
    simp [bcRev, this, ih]

/-- pointwise characterisation of the two-operand loop (positive extents) -/
theorem bcRev_spec {a b : List Nat} (ha : Pos a) (hb : Pos b) (r : List Nat) :
    bcRev a b = some r ↔
      r.length = max a.length b.length ∧ ∀ k, compat (gd a k) (gd b k) ∧ gd r k = max (gd a k) (gd b k) := by
  induction a generalizing b r with
  | nil =>
    simp only [bcRev, Option.some.injEq, List.length_nil, gd_nil]
    constructor
    · rintro rfl
      refine ⟨by simp, fun k => ⟨Or.inr (Or.inl rfl), ?_⟩⟩
      have := gd_pos hb k; omega
    · rintro ⟨hl, hk⟩
      apply ext_gd (by omega)
      intro k
      have := gd_pos hb k; have := (hk k).2; omega
  | cons x xs ih =>
    cases b with
    | nil =>
      simp only [bcRev, Option.some.injEq, List.length_nil, gd_nil]
      constructor
      · rintro rfl
        refine ⟨by simp, fun k => ⟨Or.inr (Or.inr rfl), ?_⟩⟩
        have := gd_pos ha k; omega
      · rintro ⟨hl, hk⟩
        apply ext_gd (by omega)
        intro k
        have := gd_pos ha k; have := (hk k).2; omega
    | cons y ys =>
      simp only [bcRev]
      constructor
      · intro h
        cases hz : bc1 x y with
        | none => simp [hz] at h
        | some z =>
          simp only [hz, Option.map_eq_some_iff] at h
          obtain ⟨r', hr', rfl⟩ := h
          obtain ⟨hc, rfl⟩ := bc1_eq_some_iff.1 hz
          obtain ⟨hl, hk⟩ := (ih ha.tail hb.tail r').1 hr'
          refine ⟨by simp only [List.length_cons, hl]; omega, fun k => ?_⟩
          cases k with
          | zero => simpa using hc
          | succ n => simpa using hk n
      · rintro ⟨hl, hk⟩
        cases r with
        | nil => simp only [List.length_nil, List.length_cons] at hl; omega
        | cons z r' =>
          have h0 := hk 0
          simp only [gd_cons_zero] at h0
          have hz : bc1 x y = some z := bc1_eq_some_iff.2 h0
          have hr' : bcRev xs ys = some r' :=
            (ih ha.tail hb.tail r').2 ⟨by simp at hl; omega, fun k => by simpa using hk (k+1)⟩
          simp [hz, hr']

theorem bcRev_pos {a b r : List Nat} (ha : Pos a) (hb : Pos b) (h : bcRev a b = some r) : Pos r := by
  obtain ⟨hl, hk⟩ := (bcRev_spec ha hb r).1 h
  intro x hx
  obtain ⟨k, hk', rfl⟩ := List.getElem_of_mem hx
  have h1 := (hk k).2
  rw [gd_of_lt hk'] at h1
  have := gd_pos ha k
  omega

theorem bcRev_isSome_of_compat {a b : List Nat} (h : ∀ k, compat (gd a k) (gd b k)) : ∃ r, bcRev a b = some r := by
  induction a generalizing b with
  | nil => exact ⟨b, by simp [bcRev]⟩
  | cons x xs ih =>
    cases b with
    | nil => exact ⟨x :: xs, by simp [bcRev]⟩
    | cons y ys =>
      obtain ⟨r', hr'⟩ := ih (b := ys) (fun k => by simpa using h (k+1))
      have h0 := h 0
      simp only [gd_cons_zero] at h0
      exact ⟨max x y :: r', by simp [bcRev, bc1_eq_some_iff.2 ⟨h0, rfl⟩, hr']⟩

theorem compat_of_bcRev {a b r : List Nat} (h : bcRev a b = some r) (k : Nat) : compat (gd a k) (gd b k) := by
  induction a generalizing b r k with
  | nil => simp [compat]
  | cons x xs ih =>
    cases b with
    | nil => simp [compat]
    | cons y ys =>
      simp only [bcRev] at h
      cases hz : bc1 x y with
      | none => simp [hz] at h
      | some z =>
        simp only [hz, Option.map_eq_some_iff] at h
        obtain ⟨r', hr', rfl⟩ := h
        cases k with
        | zero => simpa using (bc1_eq_some_iff.1 hz).1
        | succ n => simpa using ih hr' n

/-- associativity of the two-operand loop on `Option` -/
theorem bcRev_assoc {a b c : List Nat} (ha : Pos a) (hb : Pos b) (hc : Pos c) :
    (bcRev a b).bind (fun p => bcRev p c) = (bcRev b c).bind (fun q => bcRev a q) := by
  apply opt_ext
  intro r
  simp only [Option.bind_eq_some_iff]
  constructor
  · rintro ⟨p, hp, hr⟩
    have hpp := bcRev_pos ha hb hp
    obtain ⟨hl1, h1⟩ := (bcRev_spec ha hb p).1 hp
    obtain ⟨hl2, h2⟩ := (bcRev_spec hpp hc r).1 hr
    obtain ⟨q, hq⟩ := bcRev_isSome_of_compat (a := b) (b := c) (fun k => by
      have := h1 k; have := h2 k; have := gd_pos ha k; have := gd_pos hb k; have := gd_pos hc k
      unfold compat at *; omega)
    have hqp := bcRev_pos hb hc hq
    obtain ⟨hl3, h3⟩ := (bcRev_spec hb hc q).1 hq
    refine ⟨q, hq, (bcRev_spec ha hqp r).2 ⟨by omega, fun k => ?_⟩⟩
    have := h1 k; have := h2 k; have := h3 k; have := gd_pos ha k; have := gd_pos hb k; have := gd_pos hc k
    unfold compat at *; omega
  · rintro ⟨q, hq, hr⟩
    have hqp := bcRev_pos hb hc hq
    obtain ⟨hl1, h1⟩ := (bcRev_spec hb hc q).1 hq
    obtain ⟨hl2, h2⟩ := (bcRev_spec ha hqp r).1 hr
    obtain ⟨p, hp⟩ := bcRev_isSome_of_compat (a := a) (b := b) (fun k => by
      have := h1 k; have := h2 k; have := gd_pos ha k; have := gd_pos hb k; have := gd_pos hc k
      unfold compat at *; omega)
    have hpp := bcRev_pos ha hb hp
    obtain ⟨hl3, h3⟩ := (bcRev_spec ha hb p).1 hp
    refine ⟨p, hp, (bcRev_spec hpp hc r).2 ⟨by omega, fun k => ?_⟩⟩
    have := h1 k; have := h2 k; have := h3 k; have := gd_pos ha k; have := gd_pos hb k; have := gd_pos hc k
    unfold compat at *; omega

/-! ### n-ary fold on reversed shapes -/

def bcRevFold (acc : Option (List Nat)) (rest : List (List Nat)) : Option (List Nat) :=
  rest.foldl (fun acc s => acc.bind (fun r => bcRev r s)) acc

theorem bcRevFold_none (rest : List (List Nat)) : bcRevFold none rest = none := by
  induction rest with
  | nil => rfl
  | cons s t ih => simpa [bcRevFold] using ih

theorem broadcastFold_eq (acc : Option Shape) (rest : List Shape) :
    broadcastFold acc rest = (bcRevFold (acc.map List.reverse) (rest.map List.reverse)).map List.reverse := by
  induction rest generalizing acc with
  | nil => cases acc <;> simp [broadcastFold, bcRevFold]
  | cons s t ih =>
    have := ih (acc.bind (fun r => broadcastShape2 r s))
    simp only [broadcastFold, bcRevFold, List.foldl_cons, List.map_cons] at this ⊢
    rw [this]
    congr 2
    cases acc with
    | none => rfl
    | some r =>
      simp only [Option.bind_some, Option.map_some, broadcastShape2]
      cases bcRev r.reverse s.reverse <;> simp

/-- the per-axis statement for a family of reversed shapes -/
def FamSpec (r : List Nat) (ss : List (List Nat)) : Prop :=
  IsMaxOf r.length (ss.map List.length) ∧
  ∀ k, AllCompat (ss.map (gd · k)) ∧ IsMaxOf (gd r k) (ss.map (gd · k))

theorem bcRevFold_spec (a : List Nat) (rest : List (List Nat)) (ha : Pos a) (hr : ∀ s ∈ rest, Pos s) (r : List Nat) :
    bcRevFold (some a) rest = some r ↔ FamSpec r (a :: rest) := by
  induction rest generalizing a with
  | nil =>
    simp only [bcRevFold, List.foldl_nil, Option.some.injEq, FamSpec, List.map_cons, List.map_nil]
    constructor
    · rintro rfl
      exact ⟨⟨by simp, by simp⟩, fun k => ⟨by intro x hx y hy; simp at hx hy; subst hx; subst hy; exact Or.inl rfl,
        by simp [IsMaxOf]⟩⟩
    · rintro ⟨⟨hl, _⟩, hk⟩
      simp at hl
      exact (ext_gd hl (fun k => by have := (hk k).2.1; simpa using this)).symm
  | cons s t ih =>
    have hs : Pos s := hr s (by simp)
    have ht : ∀ u ∈ t, Pos u := fun u hu => hr u (by simp [hu])
    have hstep : bcRevFold (some a) (s :: t) = bcRevFold (bcRev a s) t := by
      simp [bcRevFold]
    rw [hstep]
    cases hp : bcRev a s with
    | none =>
      rw [bcRevFold_none]
      constructor
      · intro h; cases h
      · rintro ⟨_, hk⟩
        exfalso
        obtain ⟨p, hp'⟩ := bcRev_isSome_of_compat (a := a) (b := s) (fun k => (hk k).1 _ (by simp) _ (by simp))
        rw [hp] at hp'; cases hp'
    | some p =>
      have hpp := bcRev_pos ha hs hp
      obtain ⟨hlp, hkp⟩ := (bcRev_spec ha hs p).1 hp
      rw [ih p hpp ht]
      unfold FamSpec
      simp only [List.map_cons]
      rw [hlp, isMaxOf_max_cons]
      apply and_congr Iff.rfl
      apply forall_congr'
      intro k
      have hposk : Pos (t.map (gd · k)) := by
        intro x hx
        simp only [List.mem_map] at hx
        obtain ⟨u, hu, rfl⟩ := hx
        exact gd_pos (ht u hu) k
      rw [(hkp k).2, isMaxOf_max_cons, allCompat_max_cons (gd_pos ha k) (gd_pos hs k) hposk (hkp k).1]

theorem bcRevFold_isSome_of_allCompat (a : List Nat) (rest : List (List Nat)) (ha : Pos a) (hr : ∀ s ∈ rest, Pos s)
    (h : ∀ k, AllCompat ((a :: rest).map (gd · k))) : ∃ r, bcRevFold (some a) rest = some r := by
  induction rest generalizing a with
  | nil => exact ⟨a, rfl⟩
  | cons s t ih =>
    have hs : Pos s := hr s (by simp)
    have ht : ∀ u ∈ t, Pos u := fun u hu => hr u (by simp [hu])
    obtain ⟨p, hp⟩ := bcRev_isSome_of_compat (a := a) (b := s) (fun k => h k _ (by simp) _ (by simp))
    have hpp := bcRev_pos ha hs hp
    obtain ⟨hlp, hkp⟩ := (bcRev_spec ha hs p).1 hp
    have hstep : bcRevFold (some a) (s :: t) = bcRevFold (some p) t := by
      simp [bcRevFold, hp]
    rw [hstep]
    apply ih p hpp ht
    intro k
    have hposk : Pos (t.map (gd · k)) := by
      intro x hx
      simp only [List.mem_map] at hx
      obtain ⟨u, hu, rfl⟩ := hx
      exact gd_pos (ht u hu) k
    have := h k
    simp only [List.map_cons] at this ⊢
    rw [(hkp k).2]
    exact (allCompat_max_cons (gd_pos ha k) (gd_pos hs k) hposk (hkp k).1).2 this

theorem FamSpec.unique {r r' : List Nat} {ss : List (List Nat)} (h : FamSpec r ss) (h' : FamSpec r' ss) : r = r' :=
  ext_gd (h.1.unique h'.1) (fun k => (h.2 k).2.unique (h'.2 k).2)


/-! ## Part 3: `shape_broadcast_to`, origin axes, the index map -/

theorem sbtRev_isSome_iff (a b : List Nat) :
    (sbtRev a b).isSome ↔ a.length ≤ b.length ∧ ∀ k, k < a.length → (gd a k = gd b k ∨ gd a k = 1) := by
  induction a generalizing b with
  | nil => simp [sbtRev]
  | cons x xs ih =>
    cases b with
    | nil => simp [sbtRev]
    | cons y ys =>
      have key : (∀ k, k < (x :: xs).length → (gd (x :: xs) k = gd (y :: ys) k ∨ gd (x :: xs) k = 1)) ↔
          ((x = y ∨ x = 1) ∧ ∀ k, k < xs.length → (gd xs k = gd ys k ∨ gd xs k = 1)) := by
        constructor
        · intro h
          exact ⟨by simpa using h 0 (by simp), fun k hk => by simpa using h (k+1) (by simp; omega)⟩
        · rintro ⟨h0, h⟩ k hk
          cases k with
          | zero => simpa using h0
          | succ n => simpa using h n (by simpa using hk)
      rw [key]
      simp only [sbtRev, List.length_cons]
      by_cases hxy : x = y
      · simp [hxy, ih]
      · by_cases hx1 : x = 1
        · subst hx1
          simp [hxy, ih]
        · simp [hxy, hx1]

/-- forward (head-first) description of `shape_broadcast_to` on the aligned part: free flag per axis -/
def alignedFree : List Nat → List Nat → Option (List Bool)
  | [], [] => some []
  | a :: as, b :: bs =>
    if a = b then (alignedFree as bs).map (false :: ·)
    else if a = 1 then (alignedFree as bs).map (true :: ·)
    else none
  | _, _ => none

theorem alignedFree_length {xs ys : List Nat} {fs : List Bool} (h : alignedFree xs ys = some fs) :
    xs.length = ys.length ∧ fs.length = ys.length := by
  induction xs generalizing ys fs with
  | nil => cases ys <;> simp_all [alignedFree]
  | cons x xs ih =>
    cases ys with
    | nil => simp [alignedFree] at h
    | cons y ys =>
      simp only [alignedFree] at h
      split at h
      · simp only [Option.map_eq_some_iff] at h
        obtain ⟨f, hf, rfl⟩ := h
        have := ih hf; simp; omega
      · split at h
        · simp only [Option.map_eq_some_iff] at h
          obtain ⟨f, hf, rfl⟩ := h
          have := ih hf; simp; omega
        · cases h

theorem sbtRev_snoc (p q : List Nat) (x y : Nat) (h : p.length = q.length) :
    sbtRev (p ++ [x]) (q ++ [y]) =
      (sbtRev p q).bind (fun l => if x = y then some (l ++ [(x, false)]) else if x = 1 then some (l ++ [(y, true)]) else none) := by
  induction p generalizing q with
  | nil =>
    cases q with
    | nil =>
      simp only [List.nil_append, sbtRev, List.map_nil, Option.bind_some]
      by_cases hxy : x = y
      · simp [hxy]
      · by_cases hx1 : x = 1 <;> simp_all
    | cons b q' => simp at h
  | cons a p' ih =>
    cases q with
    | nil => simp at h
    | cons b q' =>
      have h' : p'.length = q'.length := by simpa using h
      simp only [List.cons_append, sbtRev, ih q' h']
      cases sbtRev p' q' with
      | none => by_cases hab : a = b <;> by_cases ha1 : a = 1 <;> simp_all
      | some l =>
        by_cases hab : a = b <;> by_cases ha1 : a = 1 <;> by_cases hxy : x = y <;> by_cases hx1 : x = 1 <;> simp_all

theorem sbtRev_reverse (xs ys : List Nat) (h : xs.length = ys.length) :
    sbtRev xs.reverse ys.reverse = (alignedFree xs ys).map (fun fs => (ys.zip fs).reverse) := by
  induction xs generalizing ys with
  | nil =>
    cases ys with
    | nil => simp [sbtRev, alignedFree]
    | cons y ys => simp at h
  | cons x xs ih =>
    cases ys with
    | nil => simp at h
    | cons y ys =>
      have h' : xs.length = ys.length := by simpa using h
      rw [List.reverse_cons, List.reverse_cons, sbtRev_snoc _ _ _ _ (by simpa using h'), ih ys h']
      simp only [alignedFree]
      cases alignedFree xs ys with
      | none => by_cases hxy : x = y <;> by_cases hx1 : x = 1 <;> simp_all
      | some fs => by_cases hxy : x = y <;> by_cases hx1 : x = 1 <;> simp_all

theorem sbtRev_append (xs ys zs : List Nat) (h : xs.length = ys.length) :
    sbtRev xs (ys ++ zs) = (sbtRev xs ys).map (· ++ zs.map (fun b => (b, true))) := by
  induction xs generalizing ys with
  | nil =>
    cases ys with
    | nil => simp [sbtRev]
    | cons y ys => simp at h
  | cons x xs ih =>
    cases ys with
    | nil => simp at h
    | cons y ys =>
      have h' : xs.length = ys.length := by simpa using h
      simp only [List.cons_append, sbtRev, ih ys h']
      cases sbtRev xs ys <;> by_cases hxy : x = y <;> by_cases hx1 : x = 1 <;> simp_all

/-- `shape_broadcast_to` in forward form: target `pre ++ dst'` with `dst'` the part aligned with the source -/
theorem shapeBroadcastTo_split (src pre dst' : List Nat) (h : src.length = dst'.length) :
    shapeBroadcastTo src (pre ++ dst') =
      (alignedFree src dst').map (fun fs => (pre ++ dst', List.replicate pre.length true ++ fs)) := by
  unfold shapeBroadcastTo
  have hle : src.length ≤ (pre ++ dst').length := by simp; omega
  simp only [hle, if_true, List.reverse_append]
  rw [sbtRev_append _ _ _ (by simpa using h), sbtRev_reverse _ _ h]
  cases hf : alignedFree src dst' with
  | none => simp
  | some fs =>
    have hl := (alignedFree_length hf).2
    simp only [Option.map_some, Option.some.injEq, Prod.mk.injEq]
    constructor
    · simp only [List.map_append, List.map_reverse, List.reverse_append, List.reverse_reverse, List.map_map]
      rw [List.map_fst_zip (by omega)]
      congr 1
      simp [Function.comp_def]
    · simp only [List.map_append, List.map_reverse, List.reverse_append, List.reverse_reverse, List.map_map]
      rw [List.map_snd_zip (by omega)]
      congr 1
      simp [Function.comp_def, List.map_const']

/-- entries of `w` selected by the mask -/
def pick : List Nat → List Bool → List Nat
  | x :: xs, m :: ms => if m then x :: pick xs ms else pick xs ms
  | _, _ => []

theorem nonzeroFrom_replicate_false (k n : Nat) (l : List Bool) :
    nonzeroFrom k (List.replicate n false ++ l) = nonzeroFrom (k + n) l := by
  induction n generalizing k with
  | zero => simp
  | succ n ih =>
    simp only [List.replicate_succ, List.cons_append, nonzeroFrom]
    rw [ih (k+1)]
    simp only [Bool.false_eq_true, if_false]
    congr 1; omega

theorem originAxes_split (n : Nat) (fs : List Bool) :
    originAxes (List.replicate n true ++ fs) = nonzeroFrom n (logicalNot fs) := by
  unfold originAxes nonzero logicalNot
  simp only [List.map_append, List.map_replicate, Bool.not_true]
  rw [nonzeroFrom_replicate_false]; simp

theorem gather_nonzeroFrom (pre w : List Nat) (m : List Bool) (h : w.length = m.length) :
    gather (pre ++ w) (nonzeroFrom pre.length m) = some (pick w m) := by
  induction m generalizing pre w with
  | nil =>
    cases w with
    | nil => simp [nonzeroFrom, gather, pick]
    | cons x ws => simp at h
  | cons b ms ih =>
    cases w with
    | nil => simp at h
    | cons x ws =>
      have h' : ws.length = ms.length := by simpa using h
      have hi := ih (pre ++ [x]) ws h'
      simp only [List.length_append, List.length_cons, List.length_nil, List.append_assoc, List.cons_append,
        List.nil_append, Nat.zero_add] at hi
      cases b with
      | false => simpa [nonzeroFrom, pick] using hi
      | true =>
        simp only [nonzeroFrom, if_true, pick]
        unfold gather at hi ⊢
        simp only [List.mapM_cons, hi]
        simp

theorem prod_pick_alignedFree {src dst' : List Nat} {fs : List Bool} (h : alignedFree src dst' = some fs) :
    prod (pick dst' (logicalNot fs)) = prod src := by
  induction src generalizing dst' fs with
  | nil => cases dst' <;> simp_all [alignedFree, pick, prod]
  | cons a as ih =>
    cases dst' with
    | nil => simp [alignedFree] at h
    | cons b bs =>
      simp only [alignedFree] at h
      split at h
      · simp only [Option.map_eq_some_iff] at h
        obtain ⟨f, hf, rfl⟩ := h
        have := ih hf
        simp_all [logicalNot, pick, prod]
      · split at h
        · simp only [Option.map_eq_some_iff] at h
          obtain ⟨f, hf, rfl⟩ := h
          have := ih hf
          simp_all [logicalNot, pick, prod]
        · cases h

theorem inShape_pick {d s : List Nat} (m : List Bool) (h : InShape d s) : InShape (pick d m) (pick s m) := by
  induction s generalizing d m with
  | nil => cases d <;> cases m <;> simp_all [InShape, pick]
  | cons a t ih =>
    cases d with
    | nil => simp [InShape] at h
    | cons x xs =>
      simp only [InShape] at h
      cases m with
      | nil => simp [pick, InShape]
      | cons b ms =>
        cases b with
        | false => simpa [pick] using ih ms h.2
        | true => simpa [pick, InShape] using ⟨h.1, ih ms h.2⟩

/-- the NumPy element rule on the aligned part -/
def specAligned (src d' : List Nat) : List Nat := List.zipWith (fun e x => if e = 1 then 0 else x) src d'

/-- the offset-through-origin-axes trick equals the element rule (aligned part) -/
theorem aligned_index {src dst' d' : List Nat} {fs : List Bool} (h : alignedFree src dst' = some fs)
    (hd : InShape d' dst') :
    computeIndices (computeOffset (pick d' (logicalNot fs)) (strides (pick dst' (logicalNot fs)))) src (strides src)
      = specAligned src d' := by
  induction src generalizing dst' d' fs with
  | nil => simp [computeIndices, specAligned]
  | cons a as ih =>
    cases dst' with
    | nil => simp [alignedFree] at h
    | cons b bs =>
      cases d' with
      | nil => simp [InShape] at hd
      | cons x xs =>
        simp only [InShape] at hd
        simp only [alignedFree] at h
        split at h
        · -- a = b : origin axis
          rename_i hab
          simp only [Option.map_eq_some_iff] at h
          obtain ⟨f, hf, rfl⟩ := h
          have hp := prod_pick_alignedFree hf
          have hin := inShape_pick (logicalNot f) hd.2
          have hlt := offset_lt hin
          rw [hp] at hlt
          have hpos : 0 < prod as := by omega
          have hi := ih hf hd.2
          simp only [logicalNot, List.map_cons, Bool.not_false, pick, if_true, strides, computeOffset,
            computeIndices, specAligned, List.zipWith_cons_cons] at hi ⊢
          simp only [logicalNot] at hp hlt
          rw [hp]
          congr 1
          · rw [Nat.mul_add_div hpos, Nat.div_eq_of_lt hlt, Nat.add_zero, Nat.mod_eq_of_lt (by omega)]
            split <;> omega
          · rw [indices_add_mul]; exact hi
        · split at h
          · -- a = 1 stretched: free axis
            rename_i hab ha1
            simp only [Option.map_eq_some_iff] at h
            obtain ⟨f, hf, rfl⟩ := h
            have hi := ih hf hd.2
            simp only [logicalNot, List.map_cons, Bool.not_true, pick, Bool.false_eq_true, if_false, strides,
              computeIndices, specAligned, List.zipWith_cons_cons] at hi ⊢
            subst ha1
            simp only [Nat.mod_one, if_true]
            congr 1
          · cases h

theorem specAligned_inShape {src dst' d' : List Nat} {fs : List Bool} (h : alignedFree src dst' = some fs)
    (hd : InShape d' dst') : InShape (specAligned src d') src := by
  induction src generalizing dst' d' fs with
  | nil => cases d' <;> simp [specAligned, InShape]
  | cons a as ih =>
    cases dst' with
    | nil => simp [alignedFree] at h
    | cons b bs =>
      cases d' with
      | nil => simp [InShape] at hd
      | cons x xs =>
        simp only [InShape] at hd
        simp only [alignedFree] at h
        split at h
        · rename_i hab
          simp only [Option.map_eq_some_iff] at h
          obtain ⟨f, hf, rfl⟩ := h
          simp only [specAligned, List.zipWith_cons_cons, InShape]
          refine ⟨by split <;> omega, ih hf hd.2⟩
        · split at h
          · rename_i hab ha1
            simp only [Option.map_eq_some_iff] at h
            obtain ⟨f, hf, rfl⟩ := h
            simp only [specAligned, List.zipWith_cons_cons, InShape]
            refine ⟨by split <;> omega, ih hf hd.2⟩
          · cases h

theorem inShape_append_split {d pre s : List Nat} (h : InShape d (pre ++ s)) :
    ∃ dpre d', d = dpre ++ d' ∧ dpre.length = pre.length ∧ InShape d' s := by
  induction pre generalizing d with
  | nil => exact ⟨[], d, rfl, rfl, h⟩
  | cons a t ih =>
    cases d with
    | nil => simp [InShape] at h
    | cons x xs =>
      simp only [List.cons_append, InShape] at h
      obtain ⟨dpre, d', rfl, hl, hin⟩ := ih h.2
      exact ⟨x :: dpre, d', rfl, by simp [hl], hin⟩

/-- the index map in split form -/
theorem broadcastToIndex_split {src pre dst' dpre d' : List Nat} {fs : List Bool}
    (hf : alignedFree src dst' = some fs) (hl : dpre.length = pre.length) (hd : InShape d' dst') :
    broadcastToIndex (dpre ++ d') src (pre ++ dst') (originAxes (List.replicate pre.length true ++ fs))
      = some (specAligned src d') := by
  have hlen := alignedFree_length hf
  have hdl := hd.length_eq
  unfold broadcastToIndex
  rw [originAxes_split]
  have g1 := gather_nonzeroFrom pre dst' (logicalNot fs) (by simp [logicalNot]; omega)
  have g2 := gather_nonzeroFrom dpre d' (logicalNot fs) (by simp [logicalNot]; omega)
  rw [hl] at g2
  rw [g1, g2]
  simp only [Option.bind_eq_bind, Option.bind_some, Option.pure_def, Option.some.injEq]
  exact aligned_index hf hd

/-- decomposition of a successful `shape_broadcast_to` -/
theorem shapeBroadcastTo_some {src dst sh : List Nat} {free : List Bool} (h : shapeBroadcastTo src dst = some (sh, free)) :
    src.length ≤ dst.length ∧ sh = dst ∧
    ∃ fs, alignedFree src (dst.drop (dst.length - src.length)) = some fs ∧
      free = List.replicate (dst.length - src.length) true ++ fs := by
  have hle : src.length ≤ dst.length := by
    unfold shapeBroadcastTo at h
    split at h
    · assumption
    · cases h
  have hsplit := shapeBroadcastTo_split src (dst.take (dst.length - src.length)) (dst.drop (dst.length - src.length))
    (by simp; omega)
  rw [List.take_append_drop] at hsplit
  rw [hsplit] at h
  simp only [Option.map_eq_some_iff, Prod.mk.injEq] at h
  obtain ⟨fs, hfs, h1, h2⟩ := h
  refine ⟨hle, h1.symm, fs, hfs, ?_⟩
  rw [← h2]
  simp only [List.length_take]
  congr 2
  omega

theorem shapeBroadcastTo_isSome_iff (src dst : Shape) :
    (shapeBroadcastTo src dst).isSome ↔ BroadcastableTo src dst := by
  unfold shapeBroadcastTo BroadcastableTo
  by_cases hle : src.length ≤ dst.length
  · simp only [hle, if_true, Option.isSome_map, true_and]
    rw [sbtRev_isSome_iff]
    simp [hle, axR_eq_gd]
  · simp [hle]

/-! ### zero extents: the implementation's maximum against NumPy's "extent that is not 1" -/

theorem bc1_eq_npBc1 (a b : Nat) (h : ¬ ((a = 0 ∧ b = 1) ∨ (a = 1 ∧ b = 0))) : bc1 a b = npBc1 a b := by
  unfold bc1 npBc1
  split
  · rename_i hc
    congr 1
    split <;> split <;> omega
  · rfl

theorem bcRev_eq_npRev (a b : List Nat) (h : zeroOneRev a b = false) : bcRev a b = npRev a b := by
  induction a generalizing b with
  | nil => simp [bcRev, npRev]
  | cons x xs ih =>
    cases b with
    | nil => simp [bcRev, npRev]
    | cons y ys =>
      simp only [zeroOneRev, Bool.or_eq_false_iff, Bool.and_eq_false_imp, beq_iff_eq] at h
      obtain ⟨⟨h1, h2⟩, h3⟩ := h
      have : bc1 x y = npBc1 x y := by
        apply bc1_eq_npBc1
        rintro (⟨e1, e2⟩ | ⟨e1, e2⟩)
        · have := h1 e1; simp [e2] at this
        · have := h2 e1; simp [e2] at this
      rw [bcRev, npRev, this, ih ys h3]
      try (cases npBc1 x y <;> rfl)

end NmVerif
