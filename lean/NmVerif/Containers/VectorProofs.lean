import NmVerif.Containers.Core
import NmVerif.Containers.Spec
import NmVerif.Containers.Vector
/-
  Proofs about the `utl::vector` mirror: representation invariant, exact refinement of `std::vector`
  (`stdSpec`) on the histories that never rely on value-initialisation, object-level lemmas.
-/
namespace NmVerif.Containers
variable {α : Type}

theorem take_succ_set (l : List β) (n : Nat) (a : β) (h : n < l.length) :
    (l.set n a).take (n + 1) = l.take n ++ [a] := by
  induction l generalizing n with
  | nil => simp at h
  | cons x xs ih =>
    cases n with
    | zero => simp
    | succ m => simp at h; simp [ih m h]

namespace Vec

/-- representation invariant: a block is held, `cells` is that block, the logical size fits -/
structure Inv (v : Vec α) : Prop where
  blk : v.blk.isSome
  len : v.cells.length = v.cap
  le : v.size ≤ v.cap

theorem view_length (v : Vec α) (h : v.Inv) : v.view.length = v.size := by
  have := h.le
  simp [view, List.length_take, h.len]; omega

theorem mkDefault_inv (L : Ledger) : (mkDefault (α := α) L).1.Inv := by
  constructor <;> simp [mkDefault]

theorem resize_inv (v : Vec α) (n : Nat) (L : Ledger) (h : v.Inv) : (v.resize n L).1.Inv := by
  obtain ⟨p, hp⟩ := Option.isSome_iff_exists.mp h.blk
  unfold resize
  simp only [hp]
  split
  · constructor
    · simp
    · have := h.len; have := h.le
      simp [List.length_take]; omega
    · simp
  · constructor
    · simp [hp]
    · exact h.len
    · simp; omega

theorem resize_size (v : Vec α) (n : Nat) (L : Ledger) (h : v.Inv) : (v.resize n L).1.size = n := by
  obtain ⟨p, hp⟩ := Option.isSome_iff_exists.mp h.blk
  unfold resize
  simp only [hp]
  split <;> rfl

/-- a resize that does not grow keeps the leading elements -/
theorem resize_shrink_view (v : Vec α) (n : Nat) (L : Ledger) (h : v.Inv) (hn : n ≤ v.size) :
    (v.resize n L).1.view = v.view.take n := by
  obtain ⟨p, hp⟩ := Option.isSome_iff_exists.mp h.blk
  have := h.le
  unfold resize
  simp only [hp]
  split
  · omega
  · have := h.len
    simp only [view, List.take_take]; congr 1; omega

theorem copyFrom_inv (v o : Vec α) (L : Ledger) (h : v.Inv) (ho : o.Inv) (hs : v.size = o.size) :
    (v.copyFrom o L).1.Inv := by
  have h1 := h.len; have h2 := h.le; have h3 := ho.len; have h4 := ho.le
  constructor
  · exact h.blk
  · simp [copyFrom, List.length_take]; omega
  · exact h.le

theorem copyFrom_view (v o : Vec α) (L : Ledger) (ho : o.Inv) (hs : v.size = o.size) :
    (v.copyFrom o L).1.view = o.view := by
  have h3 := ho.len; have h4 := ho.le
  simp only [copyFrom, view]
  rw [List.take_left']
  · rw [hs]
  · simp [List.length_take]; omega

theorem storeAll_spec (v : Vec α) (i : Nat) (as : List α) (L : Ledger) (h : i + as.length ≤ v.cells.length) :
    storeAll v i as L =
      ({ v with cells := v.cells.take i ++ as.map some ++ v.cells.drop (i + as.length) }, L) := by
  induction as generalizing v i L with
  | nil => simp [storeAll]
  | cons a as ih =>
    simp only [List.length_cons] at h
    have hi : i < v.cells.length := by omega
    simp only [storeAll, store, hi, if_true]
    rw [ih]
    · simp only [List.length_cons, List.map_cons]
      congr 2
      have e1 : (v.cells.set i (some a)).take (i + 1) = v.cells.take i ++ [some a] := take_succ_set _ _ _ hi
      have e2 : (v.cells.set i (some a)).drop (i + 1 + as.length) = v.cells.drop (i + (as.length + 1)) := by
        rw [List.drop_set]
        have : i < i + 1 + as.length := by omega
        simp only [this, if_true]; congr 1; omega
      rw [e1, e2]; simp
    · simp; omega

theorem store_inv (v : Vec α) (i : Nat) (c : Cell α) (L : Ledger) (h : v.Inv) : (v.store i c L).1.Inv := by
  unfold store
  split
  · exact ⟨h.blk, by simp [h.len], h.le⟩
  · exact h

theorem mkSized_zero (L : Ledger) : (mkSized (α := α) 0 L).1.Inv ∧ (mkSized (α := α) 0 L).1.view = [] := by
  simp [mkSized, resize, Ledger.alloc, view]
  constructor <;> simp

theorem mkVariadic_spec (vs : List α) (L : Ledger) :
    (mkVariadic vs L).1.Inv ∧ (mkVariadic vs L).1.view = vs.map some := by
  have h0 := mkDefault_inv (α := α) L
  have h1 := resize_inv _ vs.length (mkDefault (α := α) L).2 h0
  have h2 := resize_size _ vs.length (mkDefault (α := α) L).2 h0
  unfold mkVariadic
  simp only []
  rw [storeAll_spec]
  · constructor
    · exact ⟨h1.blk, by have := h1.len; have := h1.le; simp [List.length_take] at *; omega, h1.le⟩
    · simp only [view, h2, List.take_zero, List.nil_append]
      rw [List.take_left']
      simp
  · have := h1.len; have := h1.le; omega

theorem mkCopy_spec (o : Vec α) (L : Ledger) (ho : o.Inv) :
    (mkCopy o L).1.Inv ∧ (mkCopy o L).1.view = o.view := by
  have h0 := mkDefault_inv (α := α) L
  have h1 := resize_inv _ o.size (mkDefault (α := α) L).2 h0
  have h2 := resize_size _ o.size (mkDefault (α := α) L).2 h0
  exact ⟨copyFrom_inv _ o _ h1 ho h2, copyFrom_view _ o _ ho h2⟩

theorem assign_spec (v o : Vec α) (L : Ledger) (h : v.Inv) (ho : o.Inv) :
    (assign v o L).1.Inv ∧ (assign v o L).1.view = o.view := by
  have h1 := resize_inv v o.size L h
  have h2 := resize_size v o.size L h
  exact ⟨copyFrom_inv _ o _ h1 ho h2, copyFrom_view _ o _ ho h2⟩

/-- `x = x` changes nothing at all -/
theorem assignSelf_eq (v : Vec α) (L : Ledger) (h : v.Inv) : assignSelf v L = (v, L) := by
  obtain ⟨p, hp⟩ := Option.isSome_iff_exists.mp h.blk
  have h1 := h.len; have h2 := h.le
  have hr : v.resize v.size L = (v, L) := by
    cases v with
    | mk blk cells size cap =>
      simp only at hp h1 h2
      subst hp
      have : ¬ cap < size := by omega
      simp [resize, this]
  unfold assignSelf
  simp only [hr, copyFrom, List.take_append_drop]
  have : ¬ (v.cells.length < v.size) := by omega
  simp [Ledger.flagIf, this]

theorem push_spec (v : Vec α) (a : α) (L : Ledger) (h : v.Inv) :
    (push v a L).1.Inv ∧ (push v a L).1.view = v.view ++ [some a] := by
  obtain ⟨p, hp⟩ := Option.isSome_iff_exists.mp h.blk
  have h1 := h.len; have h2 := h.le
  unfold push
  split
  · -- full: reallocate to size+1
    have hr := resize_inv v (v.size + 1) L h
    have hs := resize_size v (v.size + 1) L h
    refine ⟨store_inv _ _ _ _ hr, ?_⟩
    have hc : (v.resize (v.size + 1) L).1.cells = v.cells.take v.size ++ [none] := by
      unfold resize; simp only [hp]
      have : v.cap < v.size + 1 := by omega
      simp [this]
    have hlen : v.size < (v.resize (v.size + 1) L).1.cells.length := by
      rw [hc]; simp [List.length_take]; omega
    simp only [store, hs, Nat.add_sub_cancel, hlen, if_true, view]
    rw [take_succ_set _ _ _ hlen, hc]
    rw [List.take_left']
    simp [List.length_take]; omega
  · have hlen : v.size < v.cells.length := by omega
    refine ⟨store_inv _ _ _ _ ⟨h.blk, h.len, by simp; omega⟩, ?_⟩
    simp only [store, Nat.add_sub_cancel, hlen, if_true, view]
    exact take_succ_set _ _ _ hlen

theorem write_spec (v : Vec α) (i : Nat) (a : α) (L : Ledger) (h : v.Inv) (hi : i < v.size) :
    (write v i a L).1.Inv ∧ (write v i a L).1.view = v.view.set i (some a) := by
  have h1 := h.len; have h2 := h.le
  have hlen : i < v.cells.length := by omega
  refine ⟨store_inv _ _ _ _ h, ?_⟩
  simp [write, store, hlen, view, List.take_set]

end Vec

/-- exact refinement relation towards `std::vector` -/
def RVec (v : Vec α) (l : List α) : Prop := v.Inv ∧ v.view = l.map some

/-- histories that never rely on value-initialisation and never push an aliasing argument:
    sized construction only with N = 0, `resize` only up to the current size -/
def vecOk : Option (List α) → Op α → Prop
  | _, .ctorN _ n => n = 0
  | some l, .resize _ n => n ≤ l.length
  | _, .pushAt _ _ => False
  | _, _ => True

theorem RVec.size_eq {v : Vec α} {l : List α} (h : RVec v l) : v.size = l.length := by
  have := Vec.view_length v h.1
  rw [h.2] at this; simpa using this.symm

theorem vec_sim (zero : α) : Sim (vecImpl α) (stdSpec zero) RVec vecOk where
  size_eq := fun x y h => h.size_eq
  mkDefault := fun s L M _ => ⟨Vec.mkDefault_inv L, by simp [vecImpl, stdSpec, Vec.mkDefault, Vec.view]⟩
  mkSized := fun s n L M hok => by
    simp only [vecOk] at hok; subst hok
    exact ⟨(Vec.mkSized_zero L).1, by simp [vecImpl, stdSpec, (Vec.mkSized_zero (α := α) L).2]⟩
  mkVariadic := fun s vs L M _ => ⟨(Vec.mkVariadic_spec vs L).1, (Vec.mkVariadic_spec vs L).2⟩
  mkCopy := fun d s x y L M _ h => ⟨(Vec.mkCopy_spec x L h.1).1, by
    show (Vec.mkCopy x L).1.view = _
    rw [(Vec.mkCopy_spec x L h.1).2]; exact h.2⟩
  assign := fun d s x y x' y' L M _ h h' => ⟨(Vec.assign_spec x x' L h.1 h'.1).1, by
    show (Vec.assign x x' L).1.view = _
    rw [(Vec.assign_spec x x' L h.1 h'.1).2]; exact h'.2⟩
  assignSelf := fun d x y L M _ h => by
    show RVec (Vec.assignSelf x L).1 y
    rw [Vec.assignSelf_eq x L h.1]; exact h
  push := fun s a x y L M _ h => ⟨(Vec.push_spec x a L h.1).1, by
    show (Vec.push x a L).1.view = _
    rw [(Vec.push_spec x a L h.1).2, h.2]; simp [stdSpec]⟩
  pushAt := fun s i x y L M hok _ _ => by simp [vecOk] at hok
  resize := fun s n x y L M hok h => by
    simp only [vecOk] at hok
    have hn : n ≤ x.size := by rw [h.size_eq]; exact hok
    refine ⟨Vec.resize_inv x n L h.1, ?_⟩
    show (Vec.resize x n L).1.view = _
    rw [Vec.resize_shrink_view x n L h.1 hn, h.2]
    simp [stdSpec, listResize, hok, List.map_take]
  write := fun s i a x y L M _ h hi => by
    have hi' : i < x.size := by rw [h.size_eq]; exact hi
    refine ⟨(Vec.write_spec x i a L h.1 hi').1, ?_⟩
    show (Vec.write x i a L).1.view = _
    rw [(Vec.write_spec x i a L h.1 hi').2, h.2]
    simp [stdSpec, List.map_set]

end NmVerif.Containers
