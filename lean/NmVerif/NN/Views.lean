import NmVerif.Arr
/-
  NN/Views — the view kinds `view::convnd` is assembled from, as operations on `Arr Int` (shape + element function).
  Each definition mirrors the index function of the corresponding header (core Lean only; linked into the driver):

    utility/at.hpp                      at(a, i) with python-style negative i           posI / getI / setI
    index/reshape.hpp, view/reshape.hpp shape_reshape (no -1 here), reshape_t::indices  reshapeV
    index/pad.hpp, view/pad.hpp         shape_pad, pad (outside the source box => fill) padV
    view/expand.hpp                     shape_expand, expand (non-multiples => fill)    expandV
    index/sliding_window.hpp            shape_sliding_window, sliding_window            slidingWindowV
    index/broadcast_shape.hpp, broadcast_to.hpp   right-aligned broadcasting            bshape / bIdx / binop
    index/remove_dims.hpp, reduce       sum over several axes, keepdims = false         sumAxes
    index/slice.hpp                     (Ellipsis, (None,None,step)...)                 sliceStepV
-/
namespace NmVerif.NN

/-- position addressed by `nmtools::at(a, i)` in a container of length `n` (negative `i` counts from the end) -/
def posI (n : Nat) (i : Int) : Nat := if i < 0 then (n + i).toNat else i.toNat

def getI (l : List Nat) (i : Int) : Nat := l.getD (posI l.length i) 0
def setI (l : List Nat) (i : Int) (v : Nat) : List Nat := l.set (posI l.length i) v

/-- `Σ_{i<n} f i` -/
def sumTo : Nat → (Nat → Int) → Int
  | 0, _ => 0
  | n + 1, f => sumTo n f + f n

def listSum : List Int → Int
  | [] => 0
  | x :: xs => x + listSum xs

/-! ### reshape -/

/-- `reshape_t::indices`: same flat position -/
def reshapeIdx (src dst : Shape) (d : Idx) : Idx :=
  computeIndices (computeOffset d (strides dst)) src (strides src)

/-- `view::reshape(a, dst)` for a target without `-1`: Nothing unless the element counts agree
    (`count_negative_reshape` leaves `dst_numel = 0` for an empty target) -/
def reshapeV (a : Arr Int) (dst : Shape) : Option (Arr Int) :=
  let dn := if dst.isEmpty then 0 else prod dst
  if prod a.shape ≠ dn then none
  else some ⟨dst, fun d => a.get (reshapeIdx a.shape dst d)⟩

/-! ### pad (onnx layout of widths: all `before`, then all `after`) -/

/-- `index::pad`: per axis `idx - before`, Nothing (fill) when outside the source box -/
def padIdx : Idx → Shape → List Nat → Option Idx
  | i :: is, s :: ss, p :: ps =>
      if i < p ∨ i ≥ s + p then none
      else (padIdx is ss ps).map ((i - p) :: ·)
  | _, _, _ => some []

def padShape : Shape → List Nat → List Nat → Shape
  | s :: ss, b :: bs, a :: as => (s + b + a) :: padShape ss bs as
  | _, _, _ => []

/-- element of the padded view (fill value 0) -/
def padGet (a : Arr Int) (before : List Nat) (d : Idx) : Int :=
  match padIdx d a.shape before with
  | some i => a.get i
  | none => 0

/-- `view::pad(a, widths)` with fill value 0 -/
def padV (a : Arr Int) (widths : List Nat) : Option (Arr Int) :=
  let dim := a.shape.length
  if 2 * dim ≠ widths.length then none
  else
    let before := widths.take dim
    let after := widths.drop dim
    some ⟨padShape a.shape before after, padGet a before⟩

/-! ### expand (insert `spacing` fill elements between neighbours on the listed axes) -/

def expandShape (src : Shape) (axes : List Int) (spacing : List Nat) : Shape :=
  (axes.zip spacing).foldl (fun r (as : Int × Nat) =>
    let k := posI src.length as.1
    r.set k (r.getD k 0 + (r.getD k 0 - 1) * as.2)) src

/-- `index::expand`: on each listed axis `d % (spacing+1) ≠ 0` ⇒ fill, else `d / (spacing+1)` -/
def expandIdx (srcDim : Nat) : List (Int × Nat) → Idx → Option Idx
  | [], d => some d
  | (ax, sp) :: rest, d =>
      let k := posI srcDim ax
      if d.getD k 0 % (sp + 1) ≠ 0 then none
      else expandIdx srcDim rest (d.set k (d.getD k 0 / (sp + 1)))

/-- element of the expanded view (fill value 0) -/
def expandGet (a : Arr Int) (axes : List Int) (spacing : List Nat) (d : Idx) : Int :=
  match expandIdx a.shape.length (axes.zip spacing) d with
  | some i => a.get i
  | none => 0

def expandV (a : Arr Int) (axes : List Int) (spacing : List Nat) : Arr Int :=
  ⟨expandShape a.shape axes spacing, expandGet a axes spacing⟩

/-! ### sliding_window with an explicit axis list -/

def slidingWindowShape (src window : List Nat) (axes : List Int) : Shape :=
  (axes.zip window).foldl (fun r (aw : Int × Nat) =>
    let k := posI src.length aw.1
    r.set k (r.getD k 0 - (aw.2 - 1))) src ++ window

/-- `index::sliding_window`: the first `srcDim` entries, plus window offset `a_i` added at `at(result, axis[a_i])` -/
def slidingWindowIdx (srcDim : Nat) (axes : List Int) (d : Idx) : Idx :=
  let rec go : List Int → Nat → Idx → Idx
    | [], _, r => r
    | ax :: rest, ai, r =>
        let k := posI srcDim ax
        go rest (ai + 1) (r.set k (r.getD k 0 + d.getD (srcDim + ai) 0))
  go axes 0 (d.take srcDim)

def slidingWindowV (a : Arr Int) (window : List Nat) (axes : List Int) : Arr Int :=
  ⟨slidingWindowShape a.shape window axes, fun d => a.get (slidingWindowIdx a.shape.length axes d)⟩

/-! ### broadcasting binary ufunc -/

/-- `broadcast_shape` on reversed shapes (right alignment = head alignment after reversal) -/
def bshapeRev : List Nat → List Nat → Option (List Nat)
  | [], b => some b
  | a, [] => some a
  | a :: as, b :: bs =>
      if a = b ∨ a = 1 ∨ b = 1 then (bshapeRev as bs).map (max a b :: ·) else none

def bshape (a b : Shape) : Option Shape := (bshapeRev a.reverse b.reverse).map List.reverse

/-- `broadcast_to` index: right-aligned, size-1 source axes read index 0 -/
def bIdx (src : Shape) (d : Idx) : Idx :=
  List.zipWith (fun s i => if s = 1 then 0 else i) src (d.drop (d.length - src.length))

def binop (f : Int → Int → Int) (a b : Arr Int) : Option (Arr Int) :=
  (bshape a.shape b.shape).map fun s => ⟨s, fun d => f (a.get (bIdx a.shape d)) (b.get (bIdx b.shape d))⟩

/-! ### sum over several axes, keepdims = false -/

def removeAxes (ax : List Nat) : Nat → Shape → Shape
  | _, [] => []
  | pos, s :: ss => if pos ∈ ax then removeAxes ax (pos + 1) ss else s :: removeAxes ax (pos + 1) ss

def pickAxes (ax : List Nat) : Nat → Shape → Shape
  | _, [] => []
  | pos, s :: ss => if pos ∈ ax then s :: pickAxes ax (pos + 1) ss else pickAxes ax (pos + 1) ss

/-- index of the source: position `pos` takes the next entry of `r` when it is a reduced axis, else the next of `d` -/
def mergeIdx (ax : List Nat) : Nat → Nat → Idx → Idx → Idx
  | 0, _, _, _ => []
  | n + 1, pos, d, r =>
      if pos ∈ ax then r.headD 0 :: mergeIdx ax n (pos + 1) d r.tail
      else d.headD 0 :: mergeIdx ax n (pos + 1) d.tail r

def sumAxes (a : Arr Int) (axes : List Int) : Arr Int :=
  let ax := axes.map (posI a.shape.length)
  ⟨removeAxes ax 0 a.shape, fun d =>
    listSum ((allIdx (pickAxes ax 0 a.shape)).map fun r => a.get (mergeIdx ax a.shape.length 0 d r))⟩

/-! ### final slice `(Ellipsis, (None,None,s_0), …)` over the last `steps.length` axes -/

def sliceStepShape (src : Shape) (steps : List Nat) : Shape :=
  let lead := src.length - steps.length
  src.take lead ++ List.zipWith (fun n s => (n + s - 1) / s) (src.drop lead) steps

def sliceStepIdx (srcDim : Nat) (steps : List Nat) (d : Idx) : Idx :=
  let lead := srcDim - steps.length
  d.take lead ++ List.zipWith (fun i s => i * s) (d.drop lead) steps

def sliceStepV (a : Arr Int) (steps : List Nat) : Arr Int :=
  ⟨sliceStepShape a.shape steps, fun d => a.get (sliceStepIdx a.shape.length steps d)⟩

end NmVerif.NN
