// C12 harness, integer element types, vector extension 512 bit; flags as h_c12_v512.cpp
#include "nmtools/array/eval/simd/vector_512.hpp"
#define C12_CTX  nmtools::array::simd::vector_512
#define C12_BITS 512
#include "h_c12_int_common.hpp"
