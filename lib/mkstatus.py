"""prints the per-property status table of DESIGN.md §6a from MANIFEST.json, evidence/*.json, known_findings.json, seeded/"""
import json, os, glob
ROOT = os.path.dirname(os.path.dirname(os.path.abspath(__file__)))
man = json.load(open(os.path.join(ROOT, 'MANIFEST.json')))
kf = json.load(open(os.path.join(ROOT, 'known_findings.json')))
props = {json.loads(l)['id']: json.loads(l)['title'] for l in open(os.path.join(ROOT, 'properties.jsonl'))}
seeded = {}
for d in sorted(glob.glob(os.path.join(ROOT, 'seeded', '*'))):
    try:
        m = json.load(open(os.path.join(d, 'meta.json')))
    except Exception:
        continue
    seeded.setdefault(m.get('property_id', os.path.basename(d)[:3]), []).append(os.path.basename(d))
print('| id | level | theorems (discharged/listed) | quick cases (IMPL~MODEL / IMPL~ORACLE) | open known findings | repaired by fix: commits | seeded changes |')
print('|---|---|---|---|---|---|---|')
for c in man['checks']:
    pid = c['property_id']
    try:
        ev = json.load(open(os.path.join(ROOT, 'evidence', pid + '.json')))
        cov = ev['coverage']
        th = '%s/%s' % (cov.get('discharged', '?'), cov.get('obligations', '?'))
        cs = '%s (%s / %s)' % (cov.get('evaluations', '?'), cov.get('compared_impl_vs_model', '?'), cov.get('compared_impl_vs_oracle', '?'))
    except Exception:
        th = cs = '?'
    openk = [e['id'] for e in kf if e.get('property') == pid and 'fixed' not in e]
    fixed = [e for e in kf if e.get('property') == pid and 'fixed' in e]
    print('| %s | %s | %s | %s | %s | %d | %s |' % (pid, c['level_claimed']['category'], th, cs, ', '.join(openk) or '–', len(fixed), ', '.join(seeded.get(pid, [])) or '–'))
