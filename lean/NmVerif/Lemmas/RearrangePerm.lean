import Mathlib.Data.List.Nodup
import Mathlib.Data.List.Perm.Subperm
import NmVerif.Lemmas.Rearrange
import NmVerif.Props.C01
/-
  Permutation lemmas for C03 (proof side only: imports two Mathlib list modules; never imported by the driver).
-/
namespace NmVerif

theorem allIdx_nodup (s : Shape) (hs : Pos s) : (allIdx s).Nodup := by
  rw [← map_ndindex_range s hs]
  exact Props.C01.enumeration_nodup s hs

/-- a duplicate-free list of `n` numbers below `n` is a permutation of `0..n-1` -/
theorem perm_range_of_nodup (l : List Nat) (n : Nat) (hnd : l.Nodup) (hlt : ∀ x ∈ l, x < n) (hlen : l.length = n) :
    l.Perm (List.range n) :=
  (List.subperm_of_subset hnd (fun x hx => by simpa using hlt x hx)).perm_of_length_le (by simp [hlen])

/-- an index map that is a bijection between the in-shape indices of `dst` and of the source (inverse `g`)
    makes the C-order element list of the view a permutation of the source's -/
theorem flat_perm_of_bij {α : Type} (a : Arr α) (dst : Shape) (f g : Idx → Idx)
    (hposd : Pos dst) (hposs : Pos a.shape)
    (hf : ∀ d, InShape d dst → InShape (f d) a.shape ∧ g (f d) = d)
    (hg : ∀ i, InShape i a.shape → InShape (g i) dst ∧ f (g i) = i) :
    ((allIdx dst).map (fun d => a.get (f d))).Perm a.flat := by
  have hperm : ((allIdx dst).map f).Perm (allIdx a.shape) := by
    rw [List.perm_ext_iff_of_nodup]
    · intro x
      simp only [List.mem_map, Props.C01.mem_allIdx_iff]
      constructor
      · rintro ⟨d, hd, rfl⟩; exact (hf d hd).1
      · intro hx; exact ⟨g x, (hg x hx).1, (hg x hx).2⟩
    · apply List.Nodup.map_on _ (allIdx_nodup dst hposd)
      intro x hx y hy hxy
      rw [Props.C01.mem_allIdx_iff] at hx hy
      rw [← (hf x hx).2, ← (hf y hy).2, hxy]
    · exact allIdx_nodup _ hposs
  have := hperm.map a.get
  rw [List.map_map] at this
  exact this

/-- inverse of `scatter · p`: `(gather i p)[k] = i[p[k]]` -/
def gatherIdx (i p : List Nat) : List Nat := p.map (fun a => i.getD a 0)

theorem gather_scatter (d p : List Nat) (n : Nat) (hp : p.Perm (List.range n)) (hd : d.length = n) :
    gatherIdx (scatter d p) p = d := by
  obtain ⟨hlen, hnd, hlt, _⟩ := perm_range_facts p _ hp
  apply List.ext_getElem?
  intro k
  simp only [gatherIdx, List.getElem?_map]
  by_cases hk : k < n
  · have hk' : k < p.length := by omega
    rw [List.getElem?_eq_getElem hk']
    have := scatter_get d p hnd (by simpa [hd] using hlt) (by omega) k p[k] (by simp [hk'])
    simp only [Option.map_some, List.getD_eq_getElem?_getD, this]
    have hkd : k < d.length := by omega
    simp [List.getElem?_eq_getElem hkd]
  · rw [List.getElem?_eq_none (by omega), List.getElem?_eq_none (by omega)]; rfl

theorem scatter_gather (i p : List Nat) (n : Nat) (hp : p.Perm (List.range n)) (hi : i.length = n) :
    scatter (gatherIdx i p) p = i := by
  obtain ⟨hlen, hnd, hlt, hsurj⟩ := perm_range_facts p _ hp
  have hgl : (gatherIdx i p).length = n := by simp [gatherIdx, hlen]
  apply List.ext_getElem?
  intro a
  by_cases ha : a < n
  · obtain ⟨k, hk⟩ := hsurj a ha
    rw [scatter_get (gatherIdx i p) p hnd (by simpa [hgl] using hlt) (by omega) k a hk]
    simp only [gatherIdx, List.getElem?_map, hk, Option.map_some, List.getD_eq_getElem?_getD]
    have hai : a < i.length := by omega
    simp [List.getElem?_eq_getElem hai]
  · rw [List.getElem?_eq_none (by simp [scatter_length, hgl]; omega), List.getElem?_eq_none (by omega)]

theorem gather_inShape (src dst i p : List Nat) (hp : p.Perm (List.range src.length))
    (hdst : p.mapM (fun k => src[k]?) = some dst) (hi : InShape i src) : InShape (gatherIdx i p) dst := by
  obtain ⟨hlen, hnd, hlt, _⟩ := perm_range_facts p _ hp
  have hdl : dst.length = p.length := mapM_some_length _ _ _ hdst
  rw [inShape_iff_getElem?] at hi ⊢
  refine ⟨by simp [gatherIdx, hdl], ?_⟩
  intro k x e hx he
  simp only [gatherIdx, List.getElem?_map] at hx
  cases hpk : p[k]? with
  | none => simp [hpk] at hx
  | some a =>
    simp only [hpk, Option.map_some, Option.some.injEq] at hx
    have h1 := (mapM_some_get _ _ _ hdst k a hpk).1
    rw [he] at h1
    have ha : a < i.length := by
      rw [hi.1]; exact hlt a (List.mem_of_getElem? hpk)
    have hia : i[a]? = some x := by
      rw [List.getD_eq_getElem?_getD, List.getElem?_eq_getElem ha] at hx
      simp at hx
      rw [List.getElem?_eq_getElem ha, hx]
    exact hi.2 a x e hia h1

theorem pos_of_mapM_getElem? (src dst p : List Nat) (hs : Pos src) (h : p.mapM (fun k => src[k]?) = some dst) :
    Pos dst := by
  intro x hx
  obtain ⟨k, hk, rfl⟩ := List.mem_iff_getElem.1 hx
  have hl := mapM_some_length _ _ _ h
  have hk' : k < p.length := by omega
  have := (mapM_some_get _ _ _ h k p[k] (by simp [hk'])).1
  rw [List.getElem?_eq_getElem hk] at this
  exact hs _ (List.mem_of_getElem? this)

/-! ### swapaxes -/
/-- SPEC: the axis permutation of `np.swapaxes(a, m1, m2)` — identity with `m1` and `m2` exchanged -/
def swapPos (m1 m2 k : Nat) : Nat := if k = m1 then m2 else if k = m2 then m1 else k

theorem swapPos_invol (m1 m2 k : Nat) : swapPos m1 m2 (swapPos m1 m2 k) = k := by
  unfold swapPos; split <;> split <;> (try split) <;> omega

theorem swapPos_lt (m1 m2 k n : Nat) (h1 : m1 < n) (h2 : m2 < n) (hk : k < n) : swapPos m1 m2 k < n := by
  unfold swapPos; split <;> (try split) <;> omega

theorem swap_order_eq (n m1 m2 : Nat) (h1 : m1 < n) (h2 : m2 < n) :
    ((List.range n).set m1 m2).set m2 m1 = (List.range n).map (swapPos m1 m2) := by
  apply List.ext_getElem?
  intro k
  simp only [List.getElem?_set, List.getElem?_map, List.length_set, List.length_range]
  by_cases hk : k < n
  · simp only [List.getElem?_range hk, Option.map_some, swapPos]
    by_cases hk2 : m2 = k
    · subst hk2
      by_cases hk1 : m1 = m2
      · subst hk1; simp [h2]
      · have : ¬ m2 = m1 := fun h => hk1 h.symm
        simp [h2, this]
    · by_cases hk1 : m1 = k
      · subst hk1; simp [hk2, h1]
      · have e1 : ¬ k = m1 := fun h => hk1 h.symm
        have e2 : ¬ k = m2 := fun h => hk2 h.symm
        simp [hk1, hk2, e1, e2]
  · have e1 : ¬ m1 = k := by omega
    have e2 : ¬ m2 = k := by omega
    simp [e1, e2, List.getElem?_eq_none (show (List.range n).length ≤ k by simp; omega)]

theorem swap_order_perm (n m1 m2 : Nat) (h1 : m1 < n) (h2 : m2 < n) :
    ((List.range n).map (swapPos m1 m2)).Perm (List.range n) := by
  apply perm_range_of_nodup
  · apply List.Nodup.map _ List.nodup_range
    intro x y hxy
    have := congrArg (swapPos m1 m2) hxy
    simpa [swapPos_invol] using this
  · intro x hx
    simp only [List.mem_map, List.mem_range] at hx
    obtain ⟨k, hk, rfl⟩ := hx
    exact swapPos_lt m1 m2 k n h1 h2 hk
  · simp

theorem normalizeAxis_ofNat (n k : Nat) (h : k < n) : normalizeAxis n (Int.ofNat k) = some k := by
  unfold normalizeAxis
  simp only [Int.ofNat_eq_natCast]
  have h1 : -(n:Int) ≤ (k:Int) ∧ (k:Int) < (n:Int) := by omega
  have h2 : ¬ ((k:Int) < 0) := by omega
  simp only [h1, h2, and_self, if_true, if_false, Int.toNat_natCast]

theorem normalizeAxes_ofNat (n : Nat) (p : List Nat) (h : ∀ a ∈ p, a < n) :
    normalizeAxes n (p.map Int.ofNat) = some p := by
  induction p with
  | nil => simp [normalizeAxes]
  | cons a p ih =>
    have := ih (fun b hb => h b (by simp [hb]))
    unfold normalizeAxes at this ⊢
    rw [List.map_cons, mapM_cons_opt, normalizeAxis_ofNat n a (h a (by simp)), this]
    rfl

end NmVerif
