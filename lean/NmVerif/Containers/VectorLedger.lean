import NmVerif.Containers.VectorProofs
/-
  Ledger discipline of the `utl::vector` mirror: every operation's effect on the allocator ledger (`Eff`),
  composition, and the world invariant `LInv` (blocks of live objects are distinct, allocated, not freed;
  nothing is freed twice; every block ever handed out is freed, lost or owned by a live object; no UB event).
-/
namespace NmVerif.Containers
variable {α : Type}

/-- effect on the ledger of an operation that turns an object owning block `old` into one owning `new` -/
structure Eff (old new : Option Nat) (L L' : Ledger) : Prop where
  mono : L.allocs ≤ L'.allocs
  lost : L'.lost = L.lost
  events : L'.events = L.events
  freed : ∃ fs : List Nat, L'.freed = fs ++ L.freed ∧ fs.Nodup ∧
    (∀ b ∈ fs, (some b = old ∨ (L.allocs ≤ b ∧ b < L'.allocs)) ∧ some b ≠ new) ∧
    (∀ b, (some b = old ∨ (L.allocs ≤ b ∧ b < L'.allocs)) → some b = new ∨ b ∈ fs)
  new_src : new = old ∨ ∃ b, new = some b ∧ L.allocs ≤ b ∧ b < L'.allocs

theorem Eff.refl (o : Option Nat) (L : Ledger) : Eff o o L L :=
  ⟨Nat.le_refl _, rfl, rfl, ⟨[], by simp, by simp, by simp, by
    intro b hb; rcases hb with hb | hb
    · exact Or.inl hb
    · omega⟩, Or.inl rfl⟩

/-- operations that only touch cells (or flag nothing) -/
theorem Eff.of_eq (o : Option Nat) {L L' : Ledger} (h1 : L'.allocs = L.allocs) (h2 : L'.freed = L.freed)
    (h3 : L'.lost = L.lost) (h4 : L'.events = L.events) : Eff o o L L' :=
  ⟨by omega, h3, h4, ⟨[], by simp [h2], by simp, by simp, by
    intro b hb; rcases hb with hb | hb
    · exact Or.inl hb
    · omega⟩, Or.inl rfl⟩

theorem Eff.trans {a b c : Option Nat} {L1 L2 L3 : Ledger} (ha : ∀ p, a = some p → p < L1.allocs)
    (h1 : Eff a b L1 L2) (h2 : Eff b c L2 L3) : Eff a c L1 L3 := by
  obtain ⟨fs1, hf1, hn1, hm1, he1⟩ := h1.freed
  obtain ⟨fs2, hf2, hn2, hm2, he2⟩ := h2.freed
  have hm := h1.mono; have hm' := h2.mono
  -- where `b` comes from
  have hb : ∀ p, b = some p → p < L2.allocs := by
    intro p hp
    rcases h1.new_src with e | ⟨q, e, h, h'⟩
    · have := ha p (by rw [← e]; exact hp); omega
    · rw [hp] at e; cases e; omega
  refine ⟨by omega, by rw [h2.lost, h1.lost], by rw [h2.events, h1.events], ⟨fs2 ++ fs1, ?_, ?_, ?_, ?_⟩, ?_⟩
  · rw [hf2, hf1]; simp
  · rw [List.nodup_append]
    refine ⟨hn2, hn1, ?_⟩
    intro x hx2 y hy1 hxy
    subst hxy
    have := hm1 x hy1
    have := hm2 x hx2
    have hlt : x < L2.allocs := by
      rcases (hm1 x hy1).1 with e | e
      · have := ha x e.symm; omega
      · omega
    rcases (hm2 x hx2).1 with e | e
    · exact (hm1 x hy1).2 e
    · omega
  · intro x hx
    rcases List.mem_append.mp hx with hx | hx
    · have h := hm2 x hx
      refine ⟨?_, h.2⟩
      rcases h.1 with e | e
      · rcases h1.new_src with e' | ⟨q, e', hq, hq'⟩
        · left; rw [← e']; exact e
        · right; rw [e'] at e; cases e; omega
      · right; omega
    · have h := hm1 x hx
      refine ⟨?_, ?_⟩
      · rcases h.1 with e | e
        · exact Or.inl e
        · right; omega
      · intro e
        have hlt : x < L2.allocs := by
          rcases h.1 with e' | e'
          · have := ha x e'.symm; omega
          · omega
        rcases h2.new_src with e' | ⟨q, e', hq, hq'⟩
        · exact h.2 (by rw [← e']; exact e)
        · rw [e'] at e; cases e; omega
  · intro x hx
    have hx' : (some x = a ∨ (L1.allocs ≤ x ∧ x < L2.allocs)) ∨ (L2.allocs ≤ x ∧ x < L3.allocs) := by
      rcases hx with e | e
      · exact Or.inl (Or.inl e)
      · by_cases h : x < L2.allocs
        · exact Or.inl (Or.inr ⟨e.1, h⟩)
        · exact Or.inr ⟨by omega, e.2⟩
    rcases hx' with h | h
    · rcases he1 x h with e | e
      · rcases he2 x (Or.inl e) with e' | e'
        · exact Or.inl e'
        · exact Or.inr (List.mem_append.mpr (Or.inl e'))
      · exact Or.inr (List.mem_append.mpr (Or.inr e))
    · rcases he2 x (Or.inr h) with e' | e'
      · exact Or.inl e'
      · exact Or.inr (List.mem_append.mpr (Or.inl e'))
  · rcases h2.new_src with e | ⟨q, e, hq, hq'⟩
    · rcases h1.new_src with e' | ⟨q, e', hq, hq'⟩
      · left; rw [e, e']
      · right; exact ⟨q, by rw [e, e'], hq, by omega⟩
    · right; exact ⟨q, e, by omega, hq'⟩

/-- a fresh allocation replacing nothing -/
theorem Eff.alloc (L : Ledger) : Eff none (some L.alloc.1) L L.alloc.2 := by
  refine ⟨by simp [Ledger.alloc], rfl, rfl, ⟨[], by simp [Ledger.alloc], by simp, by simp, ?_⟩, ?_⟩
  · intro b hb
    rcases hb with hb | hb
    · cases hb
    · left; simp [Ledger.alloc] at hb ⊢; omega
  · right; exact ⟨L.allocs, rfl, by simp [Ledger.alloc], by simp [Ledger.alloc]⟩

/-- allocate a new block, free the old one -/
theorem Eff.realloc (L : Ledger) (p : Nat) (hp : p < L.allocs) (f : Ledger → Ledger)
    (hf1 : ∀ M, (f M).allocs = M.allocs) (hf2 : ∀ M, (f M).freed = M.freed) (hf3 : ∀ M, (f M).lost = M.lost)
    (hf4 : ∀ M, (f M).events = M.events) :
    Eff (some p) (some L.alloc.1) L ((f L.alloc.2).free p) := by
  refine ⟨by simp [Ledger.free, hf1, Ledger.alloc], by simp [Ledger.free, hf3, Ledger.alloc],
    by simp [Ledger.free, hf4, Ledger.alloc], ⟨[p], by simp [Ledger.free, hf2, Ledger.alloc], by simp, ?_, ?_⟩, ?_⟩
  · intro b hb
    simp at hb; subst hb
    refine ⟨Or.inl rfl, ?_⟩
    simp [Ledger.alloc]; omega
  · intro b hb
    simp [Ledger.free, hf1, Ledger.alloc] at hb ⊢
    rcases hb with hb | hb
    · right; exact hb
    · left; omega
  · right; exact ⟨L.allocs, rfl, by simp, by simp [Ledger.free, hf1, Ledger.alloc]⟩

end NmVerif.Containers

namespace NmVerif.Containers
variable {α : Type}
namespace Vec

/-- summary of an operation on a live object: invariant kept, ledger effect, capacity never shrinks -/
structure Good (old : Option Nat) (oldCap : Nat) (L : Ledger) (r : Vec α × Ledger) : Prop where
  inv : r.1.Inv
  eff : Eff old r.1.blk L r.2
  cap : oldCap ≤ r.1.cap

theorem Good.trans {a : Option Nat} {c1 : Nat} {L : Ledger} {r1 r2 : Vec α × Ledger}
    (ha : ∀ p, a = some p → p < L.allocs) (h1 : Good a c1 L r1) (h2 : Good r1.1.blk r1.1.cap r1.2 r2) :
    Good a c1 L r2 :=
  ⟨h2.inv, Eff.trans ha h1.eff h2.eff, Nat.le_trans h1.cap h2.cap⟩

theorem blk_lt_of_alloc {a : Option Nat} {c : Nat} {L : Ledger} {r : Vec α × Ledger} (ha : ∀ p, a = some p → p < L.allocs)
    (g : Good a c L r) : ∀ p, r.1.blk = some p → p < r.2.allocs := by
  intro p hp
  have := g.eff.mono
  rcases g.eff.new_src with e | ⟨q, e, hq, hq'⟩
  · have := ha p (by rw [← e]; exact hp); omega
  · rw [hp] at e; cases e; exact hq'

theorem resize_good (zero : α) (v : Vec α) (n : Nat) (L : Ledger) (h : v.Inv) (hp : ∀ p, v.blk = some p → p < L.allocs) :
    Good v.blk v.cap L (v.resize zero n L) := by
  obtain ⟨p, hb⟩ := Option.isSome_iff_exists.mp h.blk
  have h1 := h.len; have h2 := h.le
  refine ⟨resize_inv zero v n L h, ?_, ?_⟩
  · unfold resize
    simp only [hb]
    split
    · have hc : decide (v.cells.length < v.size) = false := by simp; omega
      simp only [hc, Ledger.flagIf]
      exact Eff.realloc L p (hp p hb) id (fun _ => rfl) (fun _ => rfl) (fun _ => rfl) (fun _ => rfl)
    · have hc : decide (v.size < n ∧ v.cells.length < n) = false := by simp; omega
      simp only [hb, hc, Ledger.flagIf]; exact Eff.refl _ _
  · unfold resize
    simp only [hb]
    split
    · simp; omega
    · simp

theorem mkDefault_good (L : Ledger) : Good none 0 L (mkDefault (α := α) L) :=
  ⟨mkDefault_inv L, Eff.alloc L, Nat.zero_le _⟩

theorem mkSized_good (zero : α) (n : Nat) (L : Ledger) : Good none 0 L (mkSized zero n L) := by
  have hn : ∀ p, (none : Option Nat) = some p → p < L.allocs := by intro p hp; cases hp
  have g0 : Good none 0 L (({ blk := some L.alloc.1, cells := List.replicate n none, size := 0, cap := n } : Vec α), L.alloc.2) :=
    ⟨⟨by simp, by simp, by simp⟩, Eff.alloc L, Nat.zero_le _⟩
  exact Good.trans hn g0 (resize_good zero _ n _ g0.inv (blk_lt_of_alloc hn g0))

theorem copyFrom_good (v o : Vec α) (L : Ledger) (h : v.Inv) (ho : o.Inv) (hs : v.size = o.size) :
    Good v.blk v.cap L (v.copyFrom o L) := by
  refine ⟨copyFrom_inv v o L h ho hs, ?_, Nat.le_refl _⟩
  have h1 := h.len; have h2 := h.le; have h3 := ho.len; have h4 := ho.le
  have hc : decide (o.cells.length < v.size ∨ v.cells.length < v.size) = false := by simp; omega
  simp only [copyFrom, hc, Ledger.flagIf]
  exact Eff.refl _ _

theorem store_good (v : Vec α) (i : Nat) (c : Cell α) (L : Ledger) (h : v.Inv) (hi : i < v.cap) :
    Good v.blk v.cap L (v.store i c L) := by
  have h1 := h.len
  have hi' : i < v.cells.length := by omega
  simp only [store, hi', if_true]
  exact ⟨⟨h.blk, by simp [h.len], h.le⟩, Eff.refl _ _, Nat.le_refl _⟩

theorem mkVariadic_good (zero : α) (vs : List α) (L : Ledger) : Good none 0 L (mkVariadic zero vs L) := by
  have g0 := mkDefault_good (α := α) L
  have hn : ∀ p, (none : Option Nat) = some p → p < L.allocs := by intro p hp; cases hp
  have g1 := resize_good zero _ vs.length (mkDefault (α := α) L).2 g0.inv (blk_lt_of_alloc hn g0)
  have g01 := Good.trans hn g0 g1
  have hs := resize_size zero _ vs.length (mkDefault (α := α) L).2 g0.inv
  unfold mkVariadic
  simp only []
  rw [storeAll_spec]
  · refine ⟨⟨g01.inv.blk, ?_, g01.inv.le⟩, g01.eff, g01.cap⟩
    have := g01.inv.len; have := g01.inv.le
    simp [List.length_take] at *; omega
  · have := g01.inv.len; have := g01.inv.le; omega

theorem mkCopy_good (zero : α) (o : Vec α) (L : Ledger) (ho : o.Inv) : Good none 0 L (mkCopy zero o L) := by
  have g0 := mkDefault_good (α := α) L
  have hn : ∀ p, (none : Option Nat) = some p → p < L.allocs := by intro p hp; cases hp
  have g1 := resize_good zero _ o.size (mkDefault (α := α) L).2 g0.inv (blk_lt_of_alloc hn g0)
  have g01 := Good.trans hn g0 g1
  have hs := resize_size zero _ o.size (mkDefault (α := α) L).2 g0.inv
  exact Good.trans hn g01 (copyFrom_good _ o _ g01.inv ho hs)

theorem assign_good (zero : α) (v o : Vec α) (L : Ledger) (h : v.Inv) (ho : o.Inv) (hp : ∀ p, v.blk = some p → p < L.allocs) :
    Good v.blk v.cap L (assign zero v o L) := by
  have g1 := resize_good zero v o.size L h hp
  have hs := resize_size zero v o.size L h
  exact Good.trans hp g1 (copyFrom_good _ o _ g1.inv ho hs)

theorem pushCell_good (zero : α) (v : Vec α) (c : Cell α) (L : Ledger) (h : v.Inv) (hp : ∀ p, v.blk = some p → p < L.allocs) :
    Good v.blk v.cap L (pushCell zero v c L) := by
  have h1 := h.len; have h2 := h.le
  unfold pushCell
  split
  · have g1 := resize_good zero v (v.size + 1) L h hp
    have hs := resize_size zero v (v.size + 1) L h
    refine Good.trans hp g1 (store_good _ _ _ _ g1.inv ?_)
    have := g1.inv.le; omega
  · have hi : v.size + 1 ≤ v.cap := by omega
    have g1 : Good v.blk v.cap L (({ v with size := v.size + 1 } : Vec α), L) :=
      ⟨⟨h.blk, h.len, hi⟩, Eff.refl _ _, Nat.le_refl _⟩
    exact Good.trans hp g1 (store_good _ _ _ _ g1.inv (by simp; omega))

theorem pushAt_good (zero : α) (v : Vec α) (i : Nat) (L : Ledger) (h : v.Inv) (hi : i < v.size)
    (hp : ∀ p, v.blk = some p → p < L.allocs) : Good v.blk v.cap L (pushAt zero v i L) := by
  have h1 := h.len; have h2 := h.le
  have hil : i < v.cells.length := by omega
  simp only [pushAt, List.getElem?_eq_getElem hil]
  exact pushCell_good zero v _ L h hp

theorem write_good (v : Vec α) (i : Nat) (a : α) (L : Ledger) (h : v.Inv) (hi : i < v.size) :
    Good v.blk v.cap L (write v i a L) := by
  have := h.le
  exact store_good v i (some a) L h (by omega)

theorem read_ledger (v : Vec α) (i : Nat) (L : Ledger) (h : v.Inv) (hi : i < v.size) : (read v i L).2 = L := by
  have := h.le; have := h.len
  have hi' : i < v.cells.length := by omega
  simp [read, List.getElem?_eq_getElem hi']

end Vec
end NmVerif.Containers

namespace NmVerif.Containers
variable {α : Type}

/-- world invariant of the `utl::vector` machine -/
structure LInv (w : World (Vec α)) : Prop where
  objInv : ∀ k x, w.objs k = some x → x.Inv
  owned : ∀ k x p, w.objs k = some x → x.blk = some p → p < w.led.allocs ∧ p ∉ w.led.freed
  distinct : ∀ k1 k2 x1 x2 p, k1 ≠ k2 → w.objs k1 = some x1 → w.objs k2 = some x2 → x1.blk = some p → x2.blk ≠ some p
  freedNodup : w.led.freed.Nodup
  freedLt : ∀ b ∈ w.led.freed, b < w.led.allocs
  accounted : ∀ b, b < w.led.allocs → b ∈ w.led.freed ∨ ∃ k x, w.objs k = some x ∧ x.blk = some b
  noEvents : w.led.events = []
  lostNil : w.led.lost = []

theorem LInv.empty : LInv (World.empty : World (Vec α)) := by
  constructor <;> simp [World.empty]

theorem LInv.put {w : World (Vec α)} (hw : LInv w) (s : Nat) (x' : Vec α) (L' : Ledger)
    (old : Option Nat) (c : Nat) (hold : old = (w.objs s).bind (·.blk))
    (g : Vec.Good old c w.led (x', L')) :
    LInv (w.put s (some x') L') := by
  have geff : Eff old x'.blk w.led L' := g.eff
  have ginv : x'.Inv := g.inv
  obtain ⟨fs, hfs, hnd, hm, he⟩ := geff.freed
  have hmono := geff.mono
  have hold' : ∀ p, old = some p → ∃ x, w.objs s = some x ∧ x.blk = some p := by
    intro p hp
    rw [hold] at hp
    cases hx : w.objs s with
    | none => simp [hx] at hp
    | some x => exact ⟨x, rfl, by simpa [hx] using hp⟩
  have hold_lt : ∀ p, old = some p → p < w.led.allocs ∧ p ∉ w.led.freed := by
    intro p hp
    obtain ⟨x, hx, hb⟩ := hold' p hp
    exact hw.owned s x p hx hb
  have hfs_other : ∀ b ∈ fs, ∀ k x, k ≠ s → w.objs k = some x → x.blk ≠ some b := by
    intro b hb k x hk hx hxb
    rcases (hm b hb).1 with e | e
    · obtain ⟨y, hy, hyb⟩ := hold' b e.symm
      exact hw.distinct k s x y b hk hx hy hxb hyb
    · have := (hw.owned k x b hx hxb).1; omega
  have hnew_other : ∀ p, x'.blk = some p → ∀ k x, k ≠ s → w.objs k = some x → x.blk ≠ some p := by
    intro p hp k x hk hx hxb
    rcases geff.new_src with e | ⟨q, e, hq, hq'⟩
    · obtain ⟨y, hy, hyb⟩ := hold' p (by rw [← e]; exact hp)
      exact hw.distinct k s x y p hk hx hy hxb hyb
    · rw [hp] at e; cases e
      have := (hw.owned k x p hx hxb).1; omega
  constructor
  · intro k x hx
    simp only [World.put] at hx
    by_cases hk : k = s
    · simp [hk] at hx; subst hx; exact ginv
    · simp [hk] at hx; exact hw.objInv k x hx
  · intro k x p hx hp
    simp only [World.put] at hx ⊢
    rw [hfs]
    by_cases hk : k = s
    · simp [hk] at hx; subst hx
      have hnf : p ∉ fs := fun hin => (hm p hin).2 hp.symm
      rcases geff.new_src with e | ⟨q, e, hq, hq'⟩
      · have := hold_lt p (by rw [← e]; exact hp)
        exact ⟨by omega, by simp [hnf, this.2]⟩
      · rw [hp] at e; cases e
        refine ⟨hq', ?_⟩
        simp only [List.mem_append, hnf, false_or]
        intro hin; have := hw.freedLt p hin; omega
    · simp [hk] at hx
      have := hw.owned k x p hx hp
      refine ⟨by omega, ?_⟩
      simp only [List.mem_append, this.2, or_false]
      intro hin; exact hfs_other p hin k x hk hx hp
  · intro k1 k2 x1 x2 p hne h1 h2 hp1 hp2
    simp only [World.put] at h1 h2
    by_cases hk1 : k1 = s
    · have hk2 : k2 ≠ s := by omega
      simp [hk1] at h1; simp [hk2] at h2; subst h1
      exact hnew_other p hp1 k2 x2 hk2 h2 hp2
    · simp [hk1] at h1
      by_cases hk2 : k2 = s
      · simp [hk2] at h2; subst h2
        exact hnew_other p hp2 k1 x1 hk1 h1 hp1
      · simp [hk2] at h2
        exact hw.distinct k1 k2 x1 x2 p hne h1 h2 hp1 hp2
  · simp only [World.put]
    rw [hfs, List.nodup_append]
    refine ⟨hnd, hw.freedNodup, ?_⟩
    intro a ha b hb hab
    subst hab
    rcases (hm a ha).1 with e | e
    · exact (hold_lt a e.symm).2 hb
    · have := hw.freedLt a hb; omega
  · intro b hb
    simp only [World.put] at hb ⊢
    rw [hfs] at hb
    rcases List.mem_append.mp hb with h | h
    · rcases (hm b h).1 with e | e
      · have := (hold_lt b e.symm).1; omega
      · omega
    · have := hw.freedLt b h; omega
  · intro b hb
    simp only [World.put] at hb ⊢
    rw [hfs]
    have key : (some b = old ∨ (w.led.allocs ≤ b ∧ b < L'.allocs)) →
        b ∈ fs ++ w.led.freed ∨ ∃ k x, (if k = s then some x' else w.objs k) = some x ∧ x.blk = some b := by
      intro h
      rcases he b h with e | e
      · right; exact ⟨s, x', by simp, e.symm⟩
      · left; exact List.mem_append.mpr (Or.inl e)
    by_cases hlt : b < w.led.allocs
    · rcases hw.accounted b hlt with h | ⟨k, x, hx, hxb⟩
      · left; exact List.mem_append.mpr (Or.inr h)
      · by_cases hk : k = s
        · subst hk
          apply key; left
          rw [hold, hx]; simp [hxb]
        · right; exact ⟨k, x, by simp [hk, hx], hxb⟩
    · exact key (Or.inr ⟨by omega, hb⟩)
  · simp only [World.put]; rw [geff.events]; exact hw.noEvents
  · simp only [World.put]; rw [geff.lost]; exact hw.lostNil

/-- `~vector()` on slot `s` -/
theorem LInv.destroy {w : World (Vec α)} (hw : LInv w) (s : Nat) (x : Vec α) (hx : w.objs s = some x) :
    LInv (w.put s none (Vec.destroy x w.led)) := by
  obtain ⟨p, hp⟩ := Option.isSome_iff_exists.mp (hw.objInv s x hx).blk
  have hown := hw.owned s x p hx hp
  have hobj : ∀ k y, (w.put s none (Vec.destroy x w.led)).objs k = some y → k ≠ s ∧ w.objs k = some y := by
    intro k y hy
    simp only [World.put] at hy
    by_cases hk : k = s
    · simp [hk] at hy
    · simp [hk] at hy; exact ⟨hk, hy⟩
  have hd : Vec.destroy x w.led = w.led.free p := by simp [Vec.destroy, hp]
  rw [hd]
  constructor
  · intro k y hy; exact hw.objInv k y (hobj k y hy).2
  · intro k y q hy hq
    obtain ⟨hk, hy'⟩ := hobj k y hy
    have := hw.owned k y q hy' hq
    refine ⟨this.1, ?_⟩
    simp only [World.put, Ledger.free, List.mem_cons, not_or]
    refine ⟨?_, this.2⟩
    intro e; subst e
    exact hw.distinct k s y x q hk hy' hx hq hp
  · intro k1 k2 x1 x2 q hne h1 h2
    exact hw.distinct k1 k2 x1 x2 q hne (hobj k1 x1 h1).2 (hobj k2 x2 h2).2
  · simp only [World.put, Ledger.free, List.nodup_cons]; exact ⟨hown.2, hw.freedNodup⟩
  · intro b hb
    simp only [World.put, Ledger.free, List.mem_cons] at hb ⊢
    rcases hb with e | h
    · subst e; exact hown.1
    · exact hw.freedLt b h
  · intro b hb
    simp only [World.put, Ledger.free] at hb ⊢
    rcases hw.accounted b hb with h | ⟨k, y, hy, hyb⟩
    · left; exact List.mem_cons_of_mem _ h
    · by_cases hk : k = s
      · subst hk; rw [hx] at hy; cases hy
        rw [hp] at hyb; cases hyb
        left; exact List.mem_cons_self
      · right; exact ⟨k, y, by simp [hk, hy], hyb⟩
  · exact hw.noEvents
  · exact hw.lostNil

theorem step_linv (zero : α) {w : World (Vec α)} (hw : LInv w) (op : Op α) : LInv (step (vecImpl zero) w op) := by
  cases op with
  | ctor s =>
    simp only [step]
    cases hx : w.objs s with
    | some x => exact hw
    | none => exact hw.put s _ _ none 0 (by simp [hx]) (Vec.mkDefault_good w.led)
  | ctorN s n =>
    simp only [step]
    cases hx : w.objs s with
    | some x => exact hw
    | none => exact hw.put s _ _ none 0 (by simp [hx]) (Vec.mkSized_good zero n w.led)
  | ctorV s vs =>
    simp only [step]
    cases hx : w.objs s with
    | some x => exact hw
    | none => exact hw.put s _ _ none 0 (by simp [hx]) (Vec.mkVariadic_good zero vs w.led)
  | copy d s =>
    simp only [step]
    cases hd : w.objs d with
    | some x => exact hw
    | none =>
      cases hs : w.objs s with
      | none => exact hw
      | some y => exact hw.put d _ _ none 0 (by simp [hd]) (Vec.mkCopy_good zero y w.led (hw.objInv s y hs))
  | assign d s =>
    simp only [step]
    cases hd : w.objs d with
    | none => exact hw
    | some x =>
      cases hs : w.objs s with
      | none => exact hw
      | some y =>
        have hxi := hw.objInv d x hd
        have hp : ∀ p, x.blk = some p → p < w.led.allocs := fun p hp => (hw.owned d x p hd hp).1
        by_cases hds : d = s
        · simp only [hds, if_true, vecImpl]
          subst hds
          rw [Vec.assignSelf_eq zero x w.led hxi]
          exact hw.put d x w.led x.blk x.cap (by simp [hd]) ⟨hxi, Eff.refl _ _, Nat.le_refl _⟩
        · simp only [hds, if_false]
          exact hw.put d _ _ x.blk x.cap (by simp [hd]) (Vec.assign_good zero x y w.led hxi (hw.objInv s y hs) hp)
  | push s a =>
    simp only [step]
    cases hx : w.objs s with
    | none => exact hw
    | some x =>
      have hp : ∀ p, x.blk = some p → p < w.led.allocs := fun p hp => (hw.owned s x p hx hp).1
      exact hw.put s _ _ x.blk x.cap (by simp [hx]) (Vec.pushCell_good zero x (some a) w.led (hw.objInv s x hx) hp)
  | pushAt s i =>
    simp only [step]
    cases hx : w.objs s with
    | none => exact hw
    | some x =>
      have hp : ∀ p, x.blk = some p → p < w.led.allocs := fun p hp => (hw.owned s x p hx hp).1
      by_cases hi : i < x.size
      · simp only [vecImpl, hi, if_true]
        exact hw.put s _ _ x.blk x.cap (by simp [hx]) (Vec.pushAt_good zero x i w.led (hw.objInv s x hx) hi hp)
      · simp only [vecImpl, hi, if_false]; exact hw
  | resize s n =>
    simp only [step]
    cases hx : w.objs s with
    | none => exact hw
    | some x =>
      have hp : ∀ p, x.blk = some p → p < w.led.allocs := fun p hp => (hw.owned s x p hx hp).1
      exact hw.put s _ _ x.blk x.cap (by simp [hx]) (Vec.resize_good zero x n w.led (hw.objInv s x hx) hp)
  | write s i a =>
    simp only [step]
    cases hx : w.objs s with
    | none => exact hw
    | some x =>
      by_cases hi : i < x.size
      · simp only [vecImpl, hi, if_true]
        exact hw.put s _ _ x.blk x.cap (by simp [hx]) (Vec.write_good x i a w.led (hw.objInv s x hx) hi)
      · simp only [vecImpl, hi, if_false]; exact hw
  | read s i =>
    simp only [step]
    cases hx : w.objs s with
    | none => exact hw
    | some x =>
      by_cases hi : i < x.size
      · simp only [vecImpl, hi, if_true]
        rw [Vec.read_ledger x i w.led (hw.objInv s x hx) hi]
        exact hw
      · simp only [vecImpl, hi, if_false]; exact hw
  | destroy s =>
    simp only [step]
    cases hx : w.objs s with
    | none => exact hw
    | some x => exact hw.destroy s x hx

theorem run_linv (zero : α) (h : List (Op α)) {w : World (Vec α)} (hw : LInv w) : LInv (run (vecImpl zero) w h) := by
  induction h generalizing w with
  | nil => exact hw
  | cons op h ih =>
    simp only [run]
    exact ih (step_linv zero hw op)

end NmVerif.Containers
