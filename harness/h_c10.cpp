// C10 harness (chains and binary trees): eager evaluation = lazy view, composition unobservable.  Built several times
// with different op masks (C10_MASK0/1/2 = ops compiled at depth 0/1/2 of the main chain over leaf a, C10_BMASK0/1 =
// ops of the chain that builds the right operand of binary operations from leaf b; see lib/props/c10.py).
//
//   comp a=<shape> [la=row|col] [b=<shape>] [bops=<op;…>] [bmat=<bits>] [c=<shape>] ops=<op;op;…> mat=<bits>
//        builds the composition (bit i of mat: step i through array::fn instead of view::fn, i.e. its result is a
//        concrete ndarray before the next step is applied), then
//          B  reads the resulting view element by element (shape + apply_at at every index),
//          A  evaluates it: na::eval(v, None, None, RowMajorResolver) (= what array::fn does), ColumnMajorResolver,
//             and (C10_OLD_RESOLVER) the old default resolver na::eval(v);
//        all must agree in shape and in every element; the row-major buffer must be the C-order element list.
//        answer: ok shape=… data=… col=<buffer of the column-major result>     (or `nothing`)
//                view-eval-differ …   when A and B differ (never equal to any expected answer)
//   into a=… ops=… mat=… oshape=<shape> olayout=row|col
//        evaluates the composition into a caller-supplied ndarray pre-filled with -7: eval(v, None, out);
//        answer: ok shape=<out shape> buf=<raw buffer of out>   [+ events=3:1 appended by proto.hpp on the silent return]
//        olayout also names fixed / bounded output kinds (C10_OUT_KINDS): nested32 = std::array<std::array<T,2>,3>,
//        fixed32 = fixed_ndarray<T,3,2>, nested23, fixed23, hybrid = hybrid_ndarray<T,12,2> resized to oshape;
//        for these `buf` lists the logical elements in C order.
//   la=<kind> selects the storage kind of leaf a (C10_LEAF_KINDS bit mask: 1 row 2 col 4 nested 8 fixed 16 cshape
//        32 hybrid 64 bounded 128 cbounded 256 dynfd); with C10_REPORT_KIND a request carrying `kind=1` gets
//        ` kind=fixed|bounded|dynamic` appended (what the row-major resolver chose for the result; evidence only).
//   maybe a=<shape> to=<shape> : v = view::reshape(a, to) is nmtools_maybe<view>; answers has_value(v) / has_value(eval(v))
//        and, when present, the comp answer of *v against *eval(v) — the maybe lifting of detail::eval itself.
//   intofn fn=transpose_n|sum a=<shape> [axis=<k> keep=0|1] oshape=… olayout=row|col : the output handed to array::fn itself,
//        na::transpose(a, None, None, out) / na::sum(a, axis, None, None, True|False, None, out); same answer as `into`.
//        (Only for views that are not maybe-typed: with an output, eval of nmtools_maybe<view> would have to return
//        nmtools_maybe<void>, which does not compile — never a silent outcome.)
// Floats are printed as bit patterns (f<hex> / d<hex>).
#include "c10_ops.hpp"
using namespace c10;

template <typename X> static std::string finish_comp(const X& x, bool want_kind = false) {
    Obs B = observe(x);
    if (!B.err.empty()) return B.err;
    std::string col = "-";
    if constexpr (meta::is_num_v<X>) {
        if constexpr (meta::is_view_v<X>) {
            auto e = na::eval(x, nm::None, nm::None, na::RowMajorResolver);
            auto ec = na::eval(x, nm::None, nm::None, na::ColumnMajorResolver);
            Obs A = observe(e), AC = observe(ec);
            if (!same(A, B) || !same(AC, B)) return "view-eval-differ view{" + show(B) + "} eval{" + show(A) + "} eval-col{" + show(AC) + "}";
            col = AC.data;
        }
    } else if constexpr (meta::is_view_v<X>) {
        auto e = na::eval(x, nm::None, nm::None, na::RowMajorResolver);
        Obs A = observe(e);
        if (!same(A, B)) return "view-eval-differ view{" + show(B) + "} eval{" + show(A) + "}";
        if (buffer_of(e) != B.data) return "view-eval-differ row-major-buffer{" + buffer_of(e) + "} view{" + show(B) + "}";
        auto ec = na::eval(x, nm::None, nm::None, na::ColumnMajorResolver);
        Obs AC = observe(ec);
        if (!same(AC, B)) return "view-eval-differ view{" + show(B) + "} eval-col{" + show(AC) + "}";
        col = buffer_of(ec);
#ifdef C10_OLD_RESOLVER
        auto eo = na::eval(x);
        Obs AO = observe(eo);
        if (!same(AO, B)) return "view-eval-differ view{" + show(B) + "} eval-default{" + show(AO) + "}";
#endif
    }
    std::string kind;
#ifdef C10_REPORT_KIND
    if constexpr (meta::is_view_v<X> && !meta::is_num_v<X>) if (want_kind) {
        using E = decltype(na::eval(x, nm::None, nm::None, na::RowMajorResolver));
        kind = meta::is_fixed_size_v<E> ? " kind=fixed" : meta::is_bounded_size_v<E> ? " kind=bounded" : " kind=dynamic";
    }
#endif
    return "ok " + show(B) + " col=" + col + kind;
}

template <typename O, typename X> static std::string into_go(const X& x, const uvec& oshape);
template <typename O, typename X> static std::string into_with(const X& x, const uvec& oshape) {
    if constexpr (meta::is_num_v<X> || !meta::is_view_v<X>) return "not-a-view";
    else if constexpr (!std::is_same_v<O,arr_t> && !std::is_same_v<O,carr_t> && !meta::is_fail_v<decltype(meta::fixed_dim_v<X>)>
                       && !meta::is_fail_v<decltype(meta::fixed_dim_v<O>)>) {
        // both ranks are compile-time constants: a mismatch is a compile error (static_assert in isequal), never silent
        if constexpr (meta::fixed_dim_v<X> != meta::fixed_dim_v<O>) return "static-rank-mismatch";
        else return into_go<O>(x, oshape);
    } else return into_go<O>(x, oshape);
}
template <typename O, typename X> static std::string into_go(const X& x, const uvec& oshape) {
    {
        O out{}; if (!shape_to(out, oshape)) return "bad-args";
        auto oshp = nm::shape(out);
        auto nd = ix::ndindex(oshp);
        for (size_t k = 0; k < nd.size(); k++) nm::apply_at(out, nd[k]) = (elem_t)-7;
        na::eval(x, nm::None, out);
        if constexpr (std::is_same_v<O,arr_t> || std::is_same_v<O,carr_t>)
            return "ok shape=" + fmt(to_uvec(nm::shape(out))) + " buf=" + buffer_of(out);
        else { Obs o = observe(out); return "ok shape=" + fmt(to_uvec(nm::shape(out))) + " buf=" + (o.err.empty() ? o.data : o.err); }
    }
}
#ifdef C10_OUT_KINDS
using nested32_t = std::array<std::array<elem_t,2>,3>;
using fixed32_t  = na::fixed_ndarray<elem_t,3,2>;
namespace c10 {
template <> inline bool shape_to<nested32_t>(nested32_t&, const uvec& s) { return s == uvec{3,2}; }
template <> inline bool shape_to<fixed32_t>(fixed32_t&, const uvec& s) { return s == uvec{3,2}; }
}
#endif

template <typename L> static std::string serve(const std::string& op, const Args& a, const L& leaf) {
    auto ops = parse_ops(get(a, "ops"));
    unsigned mat = has(a, "mat") ? (unsigned)integer(a, "mat") : 0u;
    auto bops = has(a, "bops") ? parse_ops(get(a, "bops")) : std::vector<Op>{};
    unsigned bmat = has(a, "bmat") ? (unsigned)integer(a, "bmat") : 0u;
    arr_t bleaf = has(a, "b") ? mk(nats(a, "b"), 1000) : arr_t{};
    arr_t cleaf = has(a, "c") ? mk_cond(nats(a, "c")) : arr_t{};
    uvec oshape; bool col = false; std::string olay = "row";
    if (op == "into") { oshape = nats(a, "oshape"); if (has(a, "olayout")) olay = get(a, "olayout"); col = olay == "col"; }
    auto fin = [&](const auto& x) -> std::string {
        if (op == "comp") return finish_comp(x, has(a, "kind"));
#ifndef C10_NO_INTO
#ifdef C10_OUT_KINDS
        if (olay == "nested32") return into_with<nested32_t>(x, oshape);
        if (olay == "fixed32") return into_with<fixed32_t>(x, oshape);
        if (olay == "nested23") return into_with<nested_t>(x, oshape);
        if (olay == "fixed23") return into_with<fixed_t>(x, oshape);
        if (olay == "hybrid") return into_with<hybrid_t>(x, oshape);
#endif
        return col ? into_with<carr_t>(x, oshape) : into_with<arr_t>(x, oshape);
#else
        return "unknown-op";
#endif
    };
    // right operand first (its type is part of the type of everything built on it), then the main chain
    Prog<arr_t> pb{bops, bmat, bleaf, cleaf};
    return run<1, 0>(bleaf, pb, 0, [&](const auto& bv) -> std::string {
        using B = meta::remove_cvref_t<decltype(bv)>;
        if constexpr (meta::is_num_v<B>) return "num-operand";
        else {
            Prog<B> p{ops, mat, bv, cleaf};
            return run<0, 0>(leaf, p, 0, fin);
        }
    });
}

#ifndef C10_LEAF_KINDS
#define C10_LEAF_KINDS 1
#endif

#ifdef C10_MAYBE
#include "nmtools/array/view/reshape.hpp"
static std::string serve_maybe(const Args& a) {
    auto arr = mk<arr_t>(nats(a, "a"));
    auto to = intsi(a, "to");
    auto v = view::reshape(arr, to);                                      // nmtools_maybe<view>
    static_assert(meta::is_maybe_v<decltype(v)>);
    auto e = na::eval(v, nm::None, nm::None, na::RowMajorResolver);       // nmtools_maybe<ndarray>
    auto ec = na::eval(v, nm::None, nm::None, na::ColumnMajorResolver);
    auto eo = na::eval(v);
    auto ef = na::reshape(arr, to);
    static_assert(meta::is_maybe_v<decltype(e)> && meta::is_maybe_v<decltype(ef)>);
    bool hv = nm::has_value(v);
    if (nm::has_value(e) != hv || nm::has_value(ec) != hv || nm::has_value(eo) != hv || nm::has_value(ef) != hv)
        return "maybe-differ view=" + std::to_string(hv) + " eval=" + std::to_string(nm::has_value(e)) + std::to_string(nm::has_value(ec))
             + std::to_string(nm::has_value(eo)) + std::to_string(nm::has_value(ef));
    if (!hv) return "nothing";
    Obs B = observe(*v), A = observe(*e), AC = observe(*ec), AO = observe(*eo), AF = observe(*ef);
    if (!same(A, B) || !same(AC, B) || !same(AO, B) || !same(AF, B)) return "view-eval-differ view{" + show(B) + "} eval{" + show(A) + "}";
    return "ok " + show(B) + " col=" + buffer_of(*ec);
}
#endif

#ifdef C10_MAYBE
template <typename O> static std::string intofn_with(const Args& a) {
    auto arr = mk<arr_t>(nats(a, "a"));
    O out{}; if (!shape_to(out, nats(a, "oshape"))) return "bad-args";
    size_t n = nm::size(out);
    for (size_t k = 0; k < n; k++) out.data()[k] = (elem_t)-7;
    std::string fn = get(a, "fn");
    if (fn == "transpose_n") na::transpose(arr, nm::None, nm::None, out);
    else if (fn == "sum") {
        int ax = (int)integer(a, "axis");
        if (integer(a, "keep")) na::sum(arr, ax, nm::None, nm::None, nm::True, nm::None, out);
        else na::sum(arr, ax, nm::None, nm::None, nm::False, nm::None, out);
    } else return "bad-args";
    return "ok shape=" + fmt(to_uvec(nm::shape(out))) + " buf=" + buffer_of(out);
}
#endif

std::string handle(const std::string& op, const Args& a) {
#ifdef C10_MAYBE
    if (op == "maybe") return serve_maybe(a);
    if (op == "intofn") return (has(a, "olayout") && get(a, "olayout") == "col") ? intofn_with<carr_t>(a) : intofn_with<arr_t>(a);
#endif
    if (op != "comp" && op != "into") return "unknown-op";
    auto s = nats(a, "a");
    std::string la = has(a, "la") ? get(a, "la") : "row";
#if (C10_LEAF_KINDS) & 1
    if (la == "row") return serve(op, a, mk<arr_t>(s));
#endif
#if (C10_LEAF_KINDS) & 2
    if (la == "col") return serve(op, a, mk<carr_t>(s));
#endif
#if (C10_LEAF_KINDS) & 4
    if (la == "nested") return serve(op, a, mk<nested_t>(s));
#endif
#if (C10_LEAF_KINDS) & 8
    if (la == "fixed") return serve(op, a, mk<fixed_t>(s));
#endif
#if (C10_LEAF_KINDS) & 16
    if (la == "cshape") return serve(op, a, mk<cshape_t>(s));
#endif
#if (C10_LEAF_KINDS) & 32
    if (la == "hybrid") return serve(op, a, mk<hybrid_t>(s));
#endif
#if (C10_LEAF_KINDS) & 64
    if (la == "bounded") return serve(op, a, mk<bounded_t>(s));
#endif
#if (C10_LEAF_KINDS) & 128
    if (la == "cbounded") return serve(op, a, mk<cbounded_t>(s));
#endif
#if (C10_LEAF_KINDS) & 256
    if (la == "dynfd") return serve(op, a, mk<dynfd_t>(s));
#endif
    return "leaf-kind-not-compiled";
}
