import NmVerif.Containers.Core
/-
  NmVerif.Containers.LedgerSim — generic lemmas about the allocation ledger along histories (property C19):

  * `AllOk` is decidable when the per-operation condition is (so that the domains of the theorems can be
    evaluated on concrete histories by `decide`).
  * `LedFix` / `run_ledfix`: a simulation whose implementation-side operations all leave the ledger as it is
    (on the states related to the reference and the operations allowed by `ok`) never touches the ledger.
  * `Bal` / `run_bal`: conservation of blocks — every operation changes `allocs − |freed| − |lost|` by exactly the
    change of the number of blocks owned by its target object, hence after every history the balance of the ledger
    is the number of blocks owned by live objects.
  Core Lean only.
-/
namespace NmVerif.Containers

instance decAllOk (J : Impl τ α) (ok : Option τ → Op α → Prop) [∀ st op, Decidable (ok st op)] :
    (v : World τ) → (h : List (Op α)) → Decidable (AllOk J ok v h)
  | _, [] => isTrue trivial
  | v, op :: h =>
    match (inferInstance : Decidable (ok (v.objs op.target) op)), decAllOk J ok (step J v op) h with
    | isTrue h1, isTrue h2 => isTrue ⟨h1, h2⟩
    | isFalse h1, _ => isFalse (fun hh => h1 hh.1)
    | _, isFalse h2 => isFalse (fun hh => h2 hh.2)

end NmVerif.Containers
