// C11 — the OLDER eval resolver: a bare `array::eval(view)` (default resolver_t = array::eval_t, eval.hpp:888-948).
// request:  old op=<neg|tr|tile2|tileN|exp0|add> kind=<leaf kind> shape=<s> [kind2=<leaf kind> shape2=<s>]
// answer:   ok shape=<view shape> ork=<kind of the result's shape type> orfz=<fixed_size_v> orbz=<bounded_size_v>
//              oev=ok | shape:<result shape> | elem:<first differing flat index> | count:<n>   hk=<events>
// leaf kinds: fd2 fd3 (vector, array<size_t,N>), bd3 (vector, static_vector<size_t,3>), dy, cs23 (array<int,6>, tuple of
// constants 2,3), fdf23 (array<int,6>, array<size_t,2>), cld23 (vector, tuple of clipped 2,3)
#include "c11_support.hpp"
#include "nmtools/array/view/tile.hpp"
#include "nmtools/array/view/expand_dims.hpp"
#include "nmtools/array/view/transpose.hpp"
#include "nmtools/array/view/ufuncs/add.hpp"
#include "nmtools/array/view/ufuncs/negative.hpp"

namespace {
using FD2 = na::ndarray_t<std::vector<int>, std::array<size_t,2>>;
using FD3 = na::ndarray_t<std::vector<int>, std::array<size_t,3>>;
using BD3 = na::ndarray_t<std::vector<int>, nmtools_static_vector<size_t,3>>;
using DY  = na::ndarray_t<std::vector<int>, std::vector<size_t>>;
using CS23 = na::ndarray_t<std::array<int,6>, decltype(nmtools_tuple{2_ct,3_ct})>;
using FDF23 = na::ndarray_t<std::array<int,6>, std::array<size_t,2>>;
using CLD23 = na::ndarray_t<std::vector<int>, nmtools_tuple<nm::clipped_size_t<2>, nm::clipped_size_t<3>>>;

template <typename V> std::string report_old(const V& mv) {
    if constexpr (meta::is_maybe_v<V>) {
        if (!nm::has_value(mv)) return "nothing";
        return report_old(*mv);
    } else {
        const auto& v = mv;
        auto shp = nm::shape(v);
        auto ve = c11::elems(v);
        auto r = na::eval(v);          // no context, no output, no resolver: the older resolver
        using R = decltype(r);
        using rshape_t = decltype(nm::shape(r));
        auto rshp = nm::shape(r);
        std::string ev = "ok";
        if (c11::fmtv(rshp) != c11::fmtv(shp)) ev = "shape:" + c11::fmtv(rshp);
        else {
            auto re = c11::elems(r);
            if (re.size() != ve.size()) ev = "count:" + std::to_string(re.size());
            else for (size_t i=0;i<re.size();i++) if (re[i]!=ve[i]) { ev = "elem:" + std::to_string(i); break; }
        }
        return "ok shape=" + c11::fmtv(shp) + " ork=" + c11::shape_kind<rshape_t>() + " orfz=" + c11::fmt_any(meta::fixed_size_v<R>)
            + " orbz=" + c11::fmt_any(meta::bounded_size_v<R>) + " oev=" + ev + " hk=" + c11::events();
    }
}

template <typename A> std::string unary(const std::string& op, const proto::ivec& shape) {
    A a{}; if (!c11::make_leaf(a, shape, 0)) return "bad-leaf";
    constexpr auto R = meta::len_v<decltype(nm::shape(a))>;
    if (op == "neg") return report_old(view::negative(a));
    if (op == "tr")  return report_old(view::transpose(a, nm::None));
    if (op == "tile2") { std::vector<int> reps(shape.size()+1, 2); return report_old(view::tile(a, reps)); }
    if (op == "exp0") return report_old(view::expand_dims(a, 0));
    if constexpr (R > 0) {
        if (op == "tileN") { std::array<int,R> reps{}; for (auto& x : reps) x = 1; reps[R-1] = 2; return report_old(view::tile(a, reps)); }
    }
    return "unknown-op";
}
template <typename A, typename B> std::string binary(const proto::ivec& s1, const proto::ivec& s2) {
    A a{}; B b{}; if (!c11::make_leaf(a, s1, 0) || !c11::make_leaf(b, s2, 1000)) return "bad-leaf";
    return report_old(view::add(a, b));
}
}

std::string handle(const std::string& op_, const proto::Args& a) {
    if (op_ != "old") return "unknown-op";
    c11::reset_events();
    auto op = proto::get(a, "op"); auto k = proto::get(a, "kind");
    auto s = proto::ints(a, "shape");
    if (op == "add") {
        auto k2 = proto::get(a, "kind2"); auto s2 = proto::ints(a, "shape2");
        // (fd2, fd3): the evaluator compares an array<size_t,2> with an array<size_t,3> shape: static_assert, does not compile
        if (k == "fd2" && k2 == "fd2") return binary<FD2,FD2>(s, s2);
        if (k == "bd3" && k2 == "dy")  return binary<BD3,DY>(s, s2);
        if (k == "dy"  && k2 == "bd3") return binary<DY,BD3>(s, s2);
        if (k == "cs23" && k2 == "dy") return binary<CS23,DY>(s, s2);
        if (k == "cs23" && k2 == "fd2") return binary<CS23,FD2>(s, s2);
        if (k == "dy" && k2 == "dy")   return binary<DY,DY>(s, s2);
        return "bad-args";
    }
    if (k == "fd2") return unary<FD2>(op, s);
    if (k == "bd3") return unary<BD3>(op, s);
    if (k == "dy")  return unary<DY>(op, s);
    if (k == "cs23") return unary<CS23>(op, s);
    if (k == "fdf23") return unary<FDF23>(op, s);
    if (k == "cld23") return unary<CLD23>(op, s);
    return "bad-args";
}
