// C09 kind matrix, array part: normalisation of arrays / views / evaluated results to
// `ok shape=<list> data=<elements in row-major logical order>`, and construction of column-major twins.
#pragma once
#include "kinds_c09.hpp"
#include "nmtools/array/ndarray.hpp"
#include "nmtools/utility/cast.hpp"
#include "nmtools/utility/at.hpp"
#include "nmtools/utility/get_if.hpp"
#include "nmtools/array/index/ndindex.hpp"
#include "nmtools/array/index/product.hpp"

namespace k9 {
namespace na = nmtools::array;

template <typename T> inline std::string norm_arr(const T& v) {
    if constexpr (meta::is_fail_v<T>) return "fail-type";
    else if constexpr (meta::is_maybe_v<T>) {
        if (!nm::has_value(v)) return "nothing";
        return norm_arr(*v);
    } else if constexpr (meta::is_either_v<T>) {
        // a run-time keepdims flag gives either<view keepdims=true, view keepdims=false>
        using L = meta::get_either_left_t<T>; using R = meta::get_either_right_t<T>;
        if (auto l = nm::get_if<L>(&v)) return norm_arr(*l);
        return norm_arr(*nm::get_if<R>(&v));
    } else if constexpr (meta::is_num_v<T>) {
        return "ok shape=[] data=" + std::to_string((long long)v);
    } else {
        auto s = nm::shape(v);
        std::string o = "ok shape=" + items(s) + " data=";
        auto nd = nm::index::ndindex(s);
        size_t n = (size_t)nd.size();
        if (n == 0) return o + "[]";
        for (size_t i=0;i<n;i++) {
            if (i) o += ",";
            o += std::to_string((long long)nm::apply_at(v, nd[i]));
        }
        return o;
    }
}

// a tuple of arrays (view::broadcast_arrays): `ok shape=.. data=..|shape=.. data=..`
template <typename T> inline std::string norm_arrs(const T& v) {
    if constexpr (meta::is_fail_v<T>) return "fail-type";
    else if constexpr (meta::is_maybe_v<T>) {
        if (!nm::has_value(v)) return "nothing";
        return norm_arrs(*v);
    } else {
        std::string o = "ok ";
        bool bad = false;
        constexpr auto N = meta::len_v<T>;
        meta::template_for<N>([&](auto i){
            auto s = norm_arr(nmtools::get<decltype(i)::value>(v));
            if (s.rfind("ok ", 0) != 0) { bad = true; return; }
            if (decltype(i)::value) o += "|";
            o += s.substr(3);
        });
        return bad ? std::string("nothing") : o;
    }
}

// the same logical array in a column-major ndarray_t with the buffer and shape kinds of `row`
template <typename row_t> inline auto to_col(const row_t& row) {
    using buffer_t = typename row_t::buffer_type;
    using shape_t  = typename row_t::shape_type;
    using col_t = na::column_major_ndarray_t<buffer_t,shape_t>;
    auto col = col_t{};
    auto s = nm::shape(row);
    if constexpr (!meta::is_constant_index_array_v<shape_t>) {
        // plain run-time sizes (a clipped tuple is not accepted as resize argument)
        auto sizes = nmtools_list<size_t>{};
        sizes.resize((size_t)nm::len(s));
        size_t j = 0;
        if constexpr (meta::is_tuple_v<decltype(s)>) {
            meta::template_for<meta::len_v<decltype(s)>>([&](auto i){ sizes[j++] = (size_t)nm::at(s,i); });
        } else {
            for (; j<(size_t)nm::len(s); j++) sizes[j] = (size_t)nm::at(s,j);
        }
        col.resize(sizes);
    }
    auto nd = nm::index::ndindex(s);
    size_t n = (size_t)nd.size();
    for (size_t i=0;i<n;i++) {
        nm::apply_at(col, nd[i]) = nm::apply_at(row, nd[i]);
    }
    return col;
}
} // namespace k9
