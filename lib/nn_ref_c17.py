"""
Reference (SPEC oracle) for property C17: neural-network routines, written as direct nested loops from the
standard (PyTorch documentation) definitions.  No PyTorch in this sandbox; NumPy is only used as a container and
for float64 arithmetic.  Nothing here is derived from the nmtools sources.

Every function returns a numpy array (float64, or object/int for exact integer data) or raises RefError when the
reference rejects the arguments (e.g. non-positive output size).
"""
import itertools
import math
import numpy as np


class RefError(Exception):
    pass


def _pair(v, n):
    if v is None:
        return None
    if isinstance(v, (list, tuple)):
        if len(v) != n:
            raise RefError('bad length')
        return [int(x) for x in v]
    return [int(v)] * n


def conv_out_size(n, k, s, p, d):
    """torch.nn.Conv*d: out = floor((n + 2p - d(k-1) - 1)/s) + 1"""
    num = n + 2 * p - d * (k - 1) - 1
    if num < 0:
        return 0
    return num // s + 1


def convnd(x, w, b=None, stride=None, padding=None, dilation=None, groups=1):
    """x: (N, C, *spatial), w: (O, C/groups, *kernel), b: (O,) or None.  zero padding.  exact for integer data."""
    x = np.asarray(x); w = np.asarray(w)
    nsp = x.ndim - 2
    if nsp < 1 or w.ndim != x.ndim:
        raise RefError('rank')
    s = _pair(1 if stride is None else stride, nsp)
    p = _pair(0 if padding is None else padding, nsp)
    d = _pair(1 if dilation is None else dilation, nsp)
    N, C = x.shape[0], x.shape[1]
    O, Cg = w.shape[0], w.shape[1]
    g = int(groups)
    if g < 1 or C % g or O % g or Cg != C // g:
        raise RefError('groups')
    ks = list(w.shape[2:])
    outs = [conv_out_size(x.shape[2 + i], ks[i], s[i], p[i], d[i]) for i in range(nsp)]
    if any(o <= 0 for o in outs):
        raise RefError('non-positive output size')
    dt = object if (x.dtype == object or w.dtype == object) else np.result_type(x.dtype, w.dtype, np.float64 if (b is not None and np.asarray(b).dtype.kind == 'f') else x.dtype)
    out = np.zeros([N, O] + outs, dtype=dt)
    opg = O // g
    for n in range(N):
        for o in range(O):
            grp = o // opg                       # output channel o belongs to group o // (O/groups)
            for pos in itertools.product(*[range(t) for t in outs]):
                acc = 0
                for c in range(Cg):
                    ci = grp * Cg + c            # ... and reads that group's input channels
                    for kk in itertools.product(*[range(t) for t in ks]):
                        src = [pos[i] * s[i] + kk[i] * d[i] - p[i] for i in range(nsp)]
                        if all(0 <= src[i] < x.shape[2 + i] for i in range(nsp)):
                            acc = acc + x[(n, ci) + tuple(src)] * w[(o, c) + tuple(kk)]
                if b is not None:
                    acc = acc + b[o]
                out[(n, o) + pos] = acc
    return out


def pool_out_size(n, k, s, ceil_mode, p=0, d=1):
    """torch.nn.MaxPool2d / AvgPool2d output size (padding 0, dilation 1 here):
       floor or ceil of (n + 2p - d(k-1) - 1)/s + 1; in ceil mode the last window must start inside the input
       (or left padding), otherwise it is dropped."""
    num = n + 2 * p - d * (k - 1) - 1
    if num < 0:
        return 0
    if ceil_mode:
        o = -((-num) // s) + 1
        if (o - 1) * s >= n + p:
            o -= 1
    else:
        o = num // s + 1
    return o


def pool2d(x, kernel, stride, ceil_mode, kind):
    """x: (..., H, W) (any number >= 0 of leading axes), kind 'max' | 'avg'.  Windows clipped to the input;
       the average divides by the number of elements inside the input (no padding here)."""
    x = np.asarray(x)
    if x.ndim < 2:
        raise RefError('rank')
    k = _pair(kernel, 2); s = _pair(stride, 2)
    H, W = x.shape[-2], x.shape[-1]
    oh = pool_out_size(H, k[0], s[0], ceil_mode); ow = pool_out_size(W, k[1], s[1], ceil_mode)
    if oh <= 0 or ow <= 0:
        raise RefError('non-positive output size')
    lead = x.shape[:-2]
    out = np.zeros(tuple(lead) + (oh, ow), dtype=np.float64 if kind == 'avg' else x.dtype)
    for li in itertools.product(*[range(t) for t in lead]):
        for i in range(oh):
            for j in range(ow):
                h0, w0 = i * s[0], j * s[1]
                h1, w1 = min(h0 + k[0], H), min(w0 + k[1], W)
                vals = [x[li + (a, b)] for a in range(h0, h1) for b in range(w0, w1)]
                if not vals:
                    raise RefError('empty window')
                if kind == 'max':
                    m = vals[0]
                    for v in vals[1:]:
                        if v > m:
                            m = v
                    out[li + (i, j)] = m
                else:
                    out[li + (i, j)] = sum(float(v) for v in vals) / len(vals)
    return out


def pool_windows(shape, kernel, stride, ceil_mode):
    """for every output index (row-major) the list of flat source ids (row-major) of its clipped window"""
    k = _pair(kernel, 2); s = _pair(stride, 2)
    H, W = shape[-2], shape[-1]
    oh = pool_out_size(H, k[0], s[0], ceil_mode); ow = pool_out_size(W, k[1], s[1], ceil_mode)
    if oh <= 0 or ow <= 0:
        raise RefError('non-positive output size')
    lead = list(shape[:-2])
    res = []
    for li in itertools.product(*[range(t) for t in lead]):
        base = 0
        for a, n in zip(li, lead):
            base = base * n + a
        base *= H * W
        for i in range(oh):
            for j in range(ow):
                h0, w0 = i * s[0], j * s[1]
                res.append([base + a * W + b for a in range(h0, min(h0 + k[0], H)) for b in range(w0, min(w0 + k[1], W))])
    return lead + [oh, ow], res


def _axis(ax, nd):
    if not (-nd <= ax < nd):
        raise RefError('axis')
    return ax % nd


def softmax(x, axis):
    x = np.asarray(x, dtype=np.float64)
    ax = _axis(axis, x.ndim)
    out = np.zeros_like(x)
    for idx in itertools.product(*[range(t) for t in x.shape]):
        den = 0.0
        for j in range(x.shape[ax]):
            jdx = idx[:ax] + (j,) + idx[ax + 1:]
            den += math.exp(x[jdx])
        out[idx] = math.exp(x[idx]) / den
    return out


def softmin(x, axis):
    return softmax(-np.asarray(x, dtype=np.float64), axis)


def batch_norm(x, mean, var, weight, bias, eps=1e-5):
    """F.batch_norm (eval mode): input (N, C, *), statistics and affine per channel = axis 1"""
    x = np.asarray(x, dtype=np.float64)
    if x.ndim < 2:
        raise RefError('rank')
    C = x.shape[1]
    for t in (mean, var, weight, bias):
        if len(t) != C:
            raise RefError('channel count')
    out = np.zeros_like(x)
    for idx in itertools.product(*[range(t) for t in x.shape]):
        c = idx[1]
        out[idx] = (x[idx] - mean[c]) / math.sqrt(var[c] + eps) * weight[c] + bias[c]
    return out


def _norm_over(x, red_axes, eps):
    """(x - mean)/sqrt(var + eps), biased variance, statistics over red_axes for each index of the other axes"""
    x = np.asarray(x, dtype=np.float64)
    out = np.zeros_like(x)
    keep = [a for a in range(x.ndim) if a not in red_axes]
    for kidx in itertools.product(*[range(x.shape[a]) for a in keep]):
        cells = []
        for ridx in itertools.product(*[range(x.shape[a]) for a in red_axes]):
            full = [0] * x.ndim
            for a, v in zip(keep, kidx):
                full[a] = v
            for a, v in zip(red_axes, ridx):
                full[a] = v
            cells.append(tuple(full))
        n = len(cells)
        m = sum(x[c] for c in cells) / n
        v = sum((x[c] - m) ** 2 for c in cells) / n
        for c in cells:
            out[c] = (x[c] - m) / math.sqrt(v + eps)
    return out


def layer_norm(x, weight, bias, eps=1e-5):
    """F.layer_norm with normalized_shape = weight.shape (the trailing axes of x)"""
    x = np.asarray(x, dtype=np.float64); weight = np.asarray(weight, dtype=np.float64); bias = np.asarray(bias, dtype=np.float64)
    k = weight.ndim
    if k < 1 or k > x.ndim or tuple(x.shape[x.ndim - k:]) != tuple(weight.shape) or weight.shape != bias.shape:
        raise RefError('normalized_shape')
    red = list(range(x.ndim - k, x.ndim))
    nrm = _norm_over(x, red, eps)
    out = np.zeros_like(x)
    for idx in itertools.product(*[range(t) for t in x.shape]):
        out[idx] = nrm[idx] * weight[idx[x.ndim - k:]] + bias[idx[x.ndim - k:]]
    return out


def instance_norm(x, weight, bias, eps=1e-5):
    """F.instance_norm: input (N, C, *spatial); statistics over the spatial axes for each (n, c)"""
    x = np.asarray(x, dtype=np.float64)
    if x.ndim < 3:
        raise RefError('rank')
    C = x.shape[1]
    if len(weight) != C or len(bias) != C:
        raise RefError('channel count')
    nrm = _norm_over(x, list(range(2, x.ndim)), eps)
    out = np.zeros_like(x)
    for idx in itertools.product(*[range(t) for t in x.shape]):
        out[idx] = nrm[idx] * weight[idx[1]] + bias[idx[1]]
    return out


def group_norm(x, num_groups, weight, bias, eps=1e-5):
    """F.group_norm: input (N, C, *); channels split into num_groups consecutive groups; statistics per (n, group)
       over the group's channels and all trailing axes; affine per channel"""
    x = np.asarray(x, dtype=np.float64)
    if x.ndim < 2:
        raise RefError('rank')
    N, C = x.shape[0], x.shape[1]
    G = int(num_groups)
    if G < 1 or C % G or len(weight) != C or len(bias) != C:
        raise RefError('groups')
    cg = C // G
    out = np.zeros_like(x)
    rest = [range(t) for t in x.shape[2:]]
    for n in range(N):
        for g in range(G):
            cells = [(n, c) + r for c in range(g * cg, (g + 1) * cg) for r in itertools.product(*rest)]
            cnt = len(cells)
            m = sum(x[c] for c in cells) / cnt
            v = sum((x[c] - m) ** 2 for c in cells) / cnt
            for c in cells:
                out[c] = (x[c] - m) / math.sqrt(v + eps) * weight[c[1]] + bias[c[1]]
    return out


def linear(x, w, b=None):
    """y[..., o] = sum_i x[..., i] * w[o, i] + b[o]"""
    x = np.asarray(x); w = np.asarray(w)
    if x.ndim < 1 or w.ndim != 2 or x.shape[-1] != w.shape[1]:
        raise RefError('shape')
    O, I = w.shape
    out = np.zeros(tuple(x.shape[:-1]) + (O,), dtype=x.dtype)
    for lead in itertools.product(*[range(t) for t in x.shape[:-1]]):
        for o in range(O):
            acc = 0
            for i in range(I):
                acc = acc + x[lead + (i,)] * w[o, i]
            if b is not None:
                acc = acc + b[o]
            out[lead + (o,)] = acc
    return out


def bilinear(x1, x2, w, b=None):
    """y[..., o] = sum_{i,j} x1[..., i] * w[o, i, j] * x2[..., j] + b[o]"""
    x1 = np.asarray(x1); x2 = np.asarray(x2); w = np.asarray(w)
    if w.ndim != 3 or x1.ndim < 1 or x1.shape[:-1] != x2.shape[:-1] or x1.shape[-1] != w.shape[1] or x2.shape[-1] != w.shape[2]:
        raise RefError('shape')
    O, I, J = w.shape
    out = np.zeros(tuple(x1.shape[:-1]) + (O,), dtype=x1.dtype)
    for lead in itertools.product(*[range(t) for t in x1.shape[:-1]]):
        for o in range(O):
            acc = 0
            for i in range(I):
                for j in range(J):
                    acc = acc + x1[lead + (i,)] * w[o, i, j] * x2[lead + (j,)]
            if b is not None:
                acc = acc + b[o]
            out[lead + (o,)] = acc
    return out


def _bshape(a, b):
    r = []
    for i in range(1, max(len(a), len(b)) + 1):
        x = a[-i] if i <= len(a) else 1
        y = b[-i] if i <= len(b) else 1
        if x != y and x != 1 and y != 1:
            raise RefError('broadcast')
        r.append(max(x, y))
    return tuple(r[::-1])


def _bget(a, idx):
    off = len(idx) - a.ndim
    return a[tuple(0 if a.shape[k] == 1 else idx[off + k] for k in range(a.ndim))]


def pairwise_distance(x1, x2, p=2, eps=1e-6, keepdim=False):
    """|| x1 - x2 + eps ||_p over the last axis (operands broadcast)"""
    x1 = np.asarray(x1, dtype=np.float64); x2 = np.asarray(x2, dtype=np.float64)
    shp = _bshape(x1.shape, x2.shape)
    if len(shp) < 1:
        raise RefError('rank')
    D = shp[-1]
    oshape = shp[:-1] + ((1,) if keepdim else ())
    out = np.zeros(oshape, dtype=np.float64)
    for lead in itertools.product(*[range(t) for t in shp[:-1]]):
        acc = 0.0
        for i in range(D):
            acc += abs(_bget(x1, lead + (i,)) - _bget(x2, lead + (i,)) + eps) ** p
        out[lead + ((0,) if keepdim else ())] = acc ** (1.0 / p)
    return out


def cosine_similarity(x1, x2, dim=1, eps=1e-8):
    """sum(x1*x2, dim) / (max(||x1||_2, eps) * max(||x2||_2, eps)) (operands broadcast)"""
    x1 = np.asarray(x1, dtype=np.float64); x2 = np.asarray(x2, dtype=np.float64)
    shp = _bshape(x1.shape, x2.shape)
    ax = _axis(dim, len(shp))
    oshape = shp[:ax] + shp[ax + 1:]
    out = np.zeros(oshape, dtype=np.float64)
    for o in itertools.product(*[range(t) for t in oshape]):
        dot = n1 = n2 = 0.0
        for i in range(shp[ax]):
            idx = o[:ax] + (i,) + o[ax:]
            a = _bget(x1, idx); b = _bget(x2, idx)
            dot += a * b; n1 += a * a; n2 += b * b
        out[o] = dot / (max(math.sqrt(n1), eps) * max(math.sqrt(n2), eps))
    return out
