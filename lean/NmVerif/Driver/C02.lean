import NmVerif.Proto
import NmVerif.Arr
import NmVerif.Index.Transpose
import NmVerif.Index.Reshape
import NmVerif.Index.Flip
import NmVerif.Index.Tile
import NmVerif.Index.Pad
import NmVerif.Index.Take
import NmVerif.Index.Repeat
import NmVerif.Index.Broadcast
import NmVerif.Index.Capacity
import NmVerif.Index.SlidingWindow
import NmVerif.Index.Slice
import NmVerif.Index.NormalizeAxis
import NmVerif.Index.Roll
import NmVerif.Index.Resize
import NmVerif.Index.Expand
import NmVerif.Index.Diagonal
import NmVerif.Index.Matmul
import NmVerif.NN.Pool
/-
  C02 driver: chains of indexing views as `IxView.comp` of the per-kind models (the objects the theorems
  `Props.C02.chain_inBounds` / `chain_read_in_buffer` speak about).

    chain shape=<dims> ops=<stage>/<stage>/…      (store=, mode= are the harness' business and ignored here)
      stage = transpose:<axes> | reshape:<to> | tile:<reps> | flip:<axes> | bcast:<shape> | pad:<widths>
            | take:<indices>:<axis> | repeat:<r>:<axis>
    answer  `ok shape=<dims> data=<flat source id per element, -1 = fill>` | `nothing` | `unmodelled` (other stage kinds)

    cap fn=<f> shape=<dims> bs=<C> …      (harness/h_c02cap.cpp: index functions with bounded operands of capacity C)
    answer  `ok cap=<B> value=<entries>` | `nothing`: `B` = the bound of the result container (`Index/Capacity.lean`),
            `value` = what the mirrored index function computes
-/
namespace NmVerif.Driver.C02
open NmVerif NmVerif.Proto NmVerif.Index

def nats? (l : List Int) : Option (List Nat) := l.mapM (fun x => if x < 0 then none else some x.toNat)

/-- outer `none`: not a modelled stage / malformed; inner `none`: the view is Nothing -/
def stageView (s : Shape) (stage : String) : Option (Option IxView) :=
  match stage.splitOn ":" with
  | ["transpose", ax] => do let ax ← parseInts ax; pure (transposeView s (some ax))
  | ["reshape", t] => do let t ← parseInts t; pure (reshapeView s t)
  | ["tile", r] => do let r ← parseInts r; let r ← nats? r; pure (tileView s r)
  | ["flip", ax] => do let ax ← parseInts ax; pure (flipView s (some ax))
  | ["bcast", d] => do let d ← parseInts d; let d ← nats? d; pure (broadcastToView s d)
  | ["pad", w] => do let w ← parseInts w; let w ← nats? w; pure (padView s w)
  | ["take", ind, ax] => do let ind ← parseInts ind; let ax ← ax.toInt?; pure (takeView s ind (some ax))
  | ["repeat", r, ax] => do let r ← r.toNat?; let ax ← ax.toInt?; pure (repeatView s r (some ax))
  | _ => none

/-- stages applied left to right; the accumulated view reads from the leaf array -/
def chainView (s : Shape) : List String → Option (Option IxView)
  | [] => none
  | st :: rest => do
    let first ← stageView s st
    rest.foldlM (fun (acc : Option IxView) st =>
      match acc with
      | none => some none
      | some inner => do
        let outer ← stageView inner.dst st
        pure (outer.map (fun o => o.comp inner))) first

def capAns (cap : Nat) (v : Option (List Nat)) : String :=
  match v with
  | none => "nothing"
  | some l => s!"ok cap={cap} value={fmtNats l}"

/-- `s,e,t,s,e,t,…` → range entries -/
def triples : List Int → Option (List Slice.Entry)
  | [] => some []
  | s :: e :: t :: rest => (triples rest).map (Slice.Entry.range (some s) (some e) (some t) :: ·)
  | _ => none

def capHandle (a : Args) : Option String := do
  let fn ← a.get? "fn"
  let shape := (a.nats "shape").getD []
  let bs := (a.nat "bs").getD shape.length
  match fn with
  | "expand_dims" =>
      let axes ← a.ints "axes"; let ba := (a.nat "ba").getD axes.length
      pure (capAns (Cap.capExpandDims bs ba) (shapeExpandDims shape axes))
  | "expand_dims1" =>
      let axis ← a.int "axis"
      pure (capAns (Cap.capExpandDims bs 1) (shapeExpandDims shape [axis]))
  | "squeeze" => pure (capAns (Cap.capSame bs) (some (shapeSqueeze shape)))
  | "remove_single_dims" => pure (capAns (Cap.capSame bs) (some (Cap.removeSingleDims shape)))
  | "sliding_window" =>
      let axes ← a.optInts "axes"
      let ws ← a.nats "window"
      match a.get? "scalar" with
      | some _ => pure (capAns (Cap.capSlidingWindow bs 1) (shapeSlidingWindow shape ws axes true))
      | none =>
          let bw := (a.nat "bw").getD ws.length
          pure (capAns (Cap.capSlidingWindow bs bw) (shapeSlidingWindow shape ws axes false))
  | "take" =>
      let n ← a.nat "nidx"; let axis ← a.int "axis"
      pure (capAns (Cap.capSame bs) (some (shapeTake shape n axis)))
  | "dslice" =>
      let f ← a.ints "sl"; let es ← triples f
      pure (capAns (Cap.capSame bs) (Slice.shapeDynamicSlice shape es))
  | "moveaxis" =>
      let src ← a.ints "source"; let dst ← a.ints "destination"
      pure (capAns (Cap.capSame bs) (moveaxisToTranspose shape.length src dst))
  | "normalize_axis" =>
      let axes ← a.ints "axes"; let ba := (a.nat "ba").getD axes.length; let ndim ← a.nat "ndim"
      pure (capAns (Cap.capSame ba) (NmVerif.normalizeAxes ndim axes))
  | "roll" =>
      let axes ← a.ints "axes"
      pure (capAns (Cap.capSame bs) (shapeRoll shape axes))
  | "resize" =>
      let dst ← a.nats "dst"; let bd := (a.nat "bd").getD dst.length
      pure (capAns (Cap.capSame bd) (shapeResize shape dst))
  | "expand" =>
      let axes ← a.ints "axes"; let sp ← a.nats "spacing"
      pure (capAns (Cap.capSame bs) ((Index.normalizeAxes axes shape.length).map (fun ks => shapeExpand shape ks sp)))
  | "diagonal" =>
      let off ← a.int "offset"; let a1 ← a.int "axis1"; let a2 ← a.int "axis2"
      pure (capAns (Cap.capDiagonal bs) (do
        let k1 ← normalizeAxis1 a1 shape.length; let k2 ← normalizeAxis1 a2 shape.length
        shapeDiagonal shape off k1 k2))
  | "matmul" =>
      let b ← a.nats "shape2"; let bb := (a.nat "bb").getD b.length
      pure (capAns (Cap.capMatmul bs bb) (shapeMatmul shape b))
  | "pool2d" =>
      let k ← a.nats "kernel"; let st ← a.nats "stride"; let c ← a.nat "ceil"
      pure (capAns (Cap.capSame bs) (NN.shapePool2d shape k st (c != 0)))
  | _ => none

def viewAns (v : Option IxView) : String :=
  match v with
  | none => "nothing"
  | some v => s!"ok shape={fmtNats v.dst} data={fmtInts v.provenance}"

/-- `capv kind=… shape=…`: the indexing view kinds of harness/h_c02capv.cpp (matmul / pooling compute values: no model here) -/
def capvHandle (a : Args) : Option String := do
  let kd ← a.get? "kind"
  let shape ← a.nats "shape"
  match kd with
  | "expand_dims" => let axes ← a.ints "axes"; pure (viewAns (expandDimsView shape axes))
  | "squeeze" => pure (viewAns (squeezeView shape))
  | "sliding_window" =>
      let axes ← a.optInts "axes"; let ws ← a.nats "window"
      pure (viewAns (slidingWindowView shape ws axes (a.get? "scalar").isSome))
  | "moveaxis" =>
      let src ← a.ints "source"; let dst ← a.ints "destination"
      pure (viewAns (moveaxisView shape src dst))
  | "roll" => let sh ← a.ints "shift"; let axes ← a.ints "axes"; pure (viewAns (rollAxesView shape sh axes))
  | "resize" => let dst ← a.nats "dst"; pure (viewAns (resizeView shape dst))
  | "expand" => let axes ← a.ints "axes"; let sp ← a.nats "spacing"; pure (viewAns (expandView shape axes sp))
  | "diagonal" =>
      let off ← a.int "offset"; let a1 ← a.int "axis1"; let a2 ← a.int "axis2"
      pure (viewAns (diagonalView shape off a1 a2))
  | _ => pure "unmodelled"

def handle : Handler := fun op a =>
  match op with
  | "cap" => orBad (capHandle a)
  | "capv" => orBad (capvHandle a)
  | "chain" => orBad do
      let s ← a.nats "shape"; let ops ← a.get? "ops"
      match chainView s (ops.splitOn "/") with
      | none => pure "unmodelled"
      | some none => pure "nothing"
      | some (some v) => pure s!"ok shape={fmtNats v.dst} data={fmtInts v.provenance}"
  | _ => none

end NmVerif.Driver.C02
