import NmVerif.NN.LinearLemmas
import NmVerif.NN.AxisLemmas
import NmVerif.Lemmas.LinalgMatmulV2
import NmVerif.Lemmas.LinalgTensordot
/-
  NN/BilinearLemmas — `view::bilinear` on rank-2 inputs `(B, I)`, `(B, J)` with a weight `(O, I, J)`.
-/
namespace NmVerif.NN
open NmVerif.Reduce NmVerif.Linalg
variable {α : Type}

/-- matmulv2 of a `(B, I)` matrix with a `(O, I, J)` stack: shape `(O, B, J)`, element `[o, b, j]` adds the products
    `x[b, k] · w[o, k, j]`, `k = 0 .. I−1` -/
theorem matmulV2_BI_OIJ (B I O J : Nat) (hB : 0 < B) (hI : 0 < I) (hO : 0 < O) (hJ : 0 < J) :
    ∃ r, matmulV2 [B, I] [O, I, J] = some r ∧ r.shape = [O, B, J] ∧
      ∀ o b j, o < O → b < B → j < J → r.get [o, b, j] = (List.range I).map (fun k => ([b, k], [o, k, j])) := by
  have hacc : specMatmulShape [B, I] [O, I, J] = some [O, B, J] := by
    simp [specMatmulShape, batchOf, MB.broadcastShape, MB.bcRev]
  obtain ⟨r, h1, h2, h3⟩ := matmulV2_eq_spec [B, I] [O, I, J] [O, B, J] (by simp) (by simp)
    (by intro z hz; simp at hz; rcases hz with rfl | rfl <;> assumption)
    (by intro z hz; simp at hz; rcases hz with rfl | rfl | rfl <;> assumption) hacc
  refine ⟨r, h1, h2, fun o b j ho hb hj => ?_⟩
  rw [h3 [o, b, j] (by simp [InShape]; exact ⟨ho, hb, hj⟩)]
  simp only [specMatmulTerms, List.getLast?_cons_cons, List.getLast?_singleton, List.length_cons, List.length_nil]
  apply List.map_congr_left
  intro k _
  simp [batchOf, MB.bcIdx]
  omega

theorem reshape_id (x : Arr α) : ∃ x', reshape x x.shape = some x' ∧ x'.shape = x.shape ∧
    ∀ d, InShape d x.shape → x'.get d = x.get d := by
  rw [reshape_some x x.shape rfl]
  refine ⟨_, rfl, rfl, fun d hd => ?_⟩
  show x.get (ndindex x.shape _) = _
  rw [ndindex_of_offset_eq hd rfl]

theorem bilinear_rank2 (add mul : α → α → α) (x y w : Arr α) (bias : Option (Arr α)) (B I J O : Nat)
    (hx : x.shape = [B, I]) (hy : y.shape = [B, J]) (hw : w.shape = [O, I, J]) (hb : ∀ c, bias = some c → c.shape = [O])
    (hB : 0 < B) (hI : 0 < I) (hJ : 0 < J) (hO : 0 < O) :
    ∃ v, bilinear add mul x y w bias = some v ∧ v.shape = [B, O] ∧ ∀ b o, b < B → o < O →
      v.get [b, o] = match bias with
        | none => bilinearAt add mul x.get y.get w.get I J b o
        | some c => (bilinearAt add mul x.get y.get w.get I J b o).map (fun S => add S (c.get [o])) := by
  obtain ⟨x', hx1, hx2, hx3⟩ := reshape_id x
  obtain ⟨y', hy1, hy2, hy3⟩ := reshape_id y
  obtain ⟨r, hr1, hr2, hr3⟩ := matmulV2_BI_OIJ B I O J hB hI hO hJ
  -- the inner sums
  let T : Nat → Nat → Nat → Option α := fun o b j =>
    foldFirst add none ((List.range I).map fun i => mul (x.get [b, i]) (w.get [o, i, j]))
  have hT : ∀ o b j, ∃ S, T o b j = some S := fun o b j =>
    foldFirst_map_some add _ (l := List.range I) (by intro h; have := congrArg List.length h; simp at this; omega)
  have hpOBJ : Pos [O, B, J] := by intro z hz; simp at hz; rcases hz with rfl | rfl | rfl <;> assumption
  have hpBJ : Pos [B, J] := by intro z hz; simp at hz; rcases hz with rfl | rfl <;> assumption
  have hpBO : Pos [B, O] := by intro z hz; simp at hz; rcases hz with rfl | rfl <;> assumption
  -- a = matmulv2(x', w)
  let a : OArr α := ⟨r.shape, fun d => foldFirst add none ((r.get d).map fun tm => mul (x'.get tm.1) (w.get tm.2))⟩
  have ha : matmulVal add mul x' w = some a := by
    simp only [matmulVal, hx2, hx, hw, hr1, Option.map_some]; rfl
  have haget : ∀ o b j, o < O → b < B → j < J → a.get [o, b, j] = T o b j := by
    intro o b j ho hb' hj
    show foldFirst add none ((r.get [o, b, j]).map _) = _
    rw [hr3 o b j ho hb' hj, List.map_map]
    show foldFirst add none ((List.range I).map _) = foldFirst add none ((List.range I).map _)
    congr 1
    apply List.map_congr_left
    intro i hi
    have hi' : i < I := List.mem_range.1 hi
    simp only [Function.comp]
    rw [hx3 [b, i] (by rw [hx]; simp [InShape]; exact ⟨hb', hi'⟩)]
  -- b1 = multiply(a, y')
  have hdrop : ([O, B, J] : Shape).drop 1 = [B, J] := rfl
  obtain ⟨b1, hb1, hb2, hb3⟩ := bin_spec mul a (lift y') [O, B, J] (by show Pos r.shape; rw [hr2]; exact hpOBJ)
    (by show Pos y'.shape; rw [hy2, hy]; exact hpBJ)
    (by show broadcastShape2 r.shape y'.shape = _; rw [hr2, hy2, hy]; exact bshape_trailing [O, B, J] 1)
  have hden : Den b1 ([O, B] ++ [J]) (fun d => match d with
      | [o, b, j] => (match T o b j with | some S => mul S (y.get [b, j]) | none => y.get [b, j])
      | _ => y.get d) := by
    refine ⟨hb2, fun d hd => ?_⟩
    match d, hd with
    | [o, b, j], hd =>
      simp only [List.cons_append, List.nil_append, InShape, and_true] at hd
      have hin : InShape [o, b, j] [O, B, J] := by simp [InShape]; exact hd
      rw [hb3 _ hin]
      show optOp mul (a.get (specBroadcastIdx r.shape [o, b, j])) (some (y'.get (specBroadcastIdx y'.shape [o, b, j]))) = _
      have hs2 : specBroadcastIdx [B, J] [o, b, j] = [b, j] := sbi_trailing [O, B, J] 1 [o, b, j] hin
      rw [hr2, sbi_self _ _ hin, hy2, hy, hs2, haget o b j hd.1 hd.2.1 hd.2.2,
        hy3 [b, j] (by rw [hy]; simp [InShape]; exact ⟨hd.2.1, hd.2.2⟩), optOp_some_right]
      obtain ⟨S, hS⟩ := hT o b j
      simp only [hS, Option.map_some]
  -- c = sum(b1, -1), d = transpose(c, (1, 0))
  obtain ⟨c, hc1, hc2, hc3⟩ := red_last add hden (by intro z hz; simp at hz; rcases hz with rfl | rfl | rfl <;> assumption) false
  simp only [Bool.false_eq_true, if_false] at hc2 hc3
  have htr : transpose c (bilinearResultTranspose c.shape.length) = some ⟨[B, O], fun d => c.get (scatter d [1, 0])⟩ := by
    have : bilinearResultTranspose c.shape.length = [1, 0] := by
      rw [hc2]; show bilinearResultTranspose 2 = [1, 0]; decide
    rw [this]; simp [transpose, hc2]
  have hcget : ∀ b o, b < B → o < O → c.get (scatter [b, o] [1, 0]) = bilinearAt add mul x.get y.get w.get I J b o := by
    intro b o hb' ho
    have hsc : scatter [b, o] [1, 0] = [o, b] := by simp [scatter]
    rw [hsc, hc3 [o, b] (by simp [InShape]; exact ⟨ho, hb'⟩)]
    unfold bilinearAt
    rw [mapM_range_some J _ (fun j => match T o b j with | some S => mul S (y.get [b, j]) | none => y.get [b, j])]
    · rfl
    · intro j _
      obtain ⟨S, hS⟩ := hT o b j
      show (T o b j).map _ = _
      simp only [hS, Option.map_some]
  let D : OArr α := ⟨[B, O], fun d => c.get (scatter d [1, 0])⟩
  have hpre : ∀ (f : OArr α → Option (OArr α)),
      ((bilinearInputReshape x.shape).bind fun xs => (bilinearInputReshape y.shape).bind fun ys =>
        (reshape x xs).bind fun x' => (reshape y ys).bind fun y' => (matmulVal add mul x' w).bind fun a =>
        (bin mul a (lift y')).bind fun b => (red add b (some [-1]) false).bind fun c =>
        (transpose c (bilinearResultTranspose c.shape.length)).bind f) = f D := by
    intro f
    have e1 : bilinearInputReshape x.shape = some x.shape := by rw [hx]; rfl
    have e2 : bilinearInputReshape y.shape = some y.shape := by rw [hy]; rfl
    simp only [e1, e2, Option.bind_some, hx1, hy1, ha, hb1, hc1, htr]
    rfl
  cases bias with
  | none =>
    refine ⟨D, ?_, rfl, fun b o hb' ho => hcget b o hb' ho⟩
    exact hpre (fun d => some d)
  | some bb =>
    have hbs := hb bb rfl
    obtain ⟨v, hv1, hv2, hv3⟩ := bin_spec add D (lift bb) [B, O] hpBO
      (by show Pos bb.shape; rw [hbs]; intro z hz; simp at hz; subst hz; exact hO)
      (by show broadcastShape2 [B, O] bb.shape = _; rw [hbs]; exact bshape_trailing [B, O] 1)
    refine ⟨v, ?_, hv2, fun b o hb' ho => ?_⟩
    · exact (hpre (fun d => bin add d (lift bb))).trans hv1
    · have hin : InShape [b, o] [B, O] := by simp [InShape]; exact ⟨hb', ho⟩
      rw [hv3 _ hin]
      show optOp add (c.get (scatter (specBroadcastIdx [B, O] [b, o]) [1, 0])) (some (bb.get (specBroadcastIdx bb.shape [b, o]))) = _
      have hs2 : specBroadcastIdx [O] [b, o] = [o] := sbi_trailing [B, O] 1 [b, o] hin
      rw [sbi_self _ _ hin, hbs, hs2, hcget b o hb' ho, optOp_some_right]

end NmVerif.NN
