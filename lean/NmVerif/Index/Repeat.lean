import NmVerif.Index.SelCommon
/-
  NmVerif.Index.Repeat — MODEL of include/nmtools/array/index/repeat.hpp (+ view/repeat.hpp).

  Stable names:
    `Index.shapeRepeatNone shape r`, `Index.shapeRepeat shape r axis`, `Index.shapeRepeatList shape rs axis`
                                                   index::shape_repeat (axis None / scalar repeats / per-element repeats)
    `Index.indexRepeatNone shape r d`, `Index.indexRepeat shape r axis d`, `Index.indexRepeatList shape rs axis d`
                                                   index::repeat
    `Index.repeatView src r axis : Option IxView`       view::repeat(a, r, axis)   (`axis : Option Int`, `none` = None)
    `Index.repeatListView src rs axis : Option IxView`  view::repeat(a, {r₀,…}, axis)

  Facts mirrored (repeat.hpp:40-100, 199-260):
    * `shape_repeat` addresses `ret[axis]` through `nmtools::at` (Python-style wrap for a negative run-time axis),
      so the *shape* is right for a negative axis …
    * `index::repeat` first normalises the axis (`a < 0 ? a + len(shape) : a`, repaired: "repeat.negative-axis") and
      then compares `i == axis` per coordinate.
    * per-element repeats: `ret[axis] = sum(repeats)` (the length check is an assert, compiled out);
      source position = first `k` with `d[axis] < cumsum(repeats)[k]`.
    * axis None: `[prod·r]`, `compute_indices(d[0] / r, shape)`; per-element repeats with axis None do not instantiate.
  `Option` = `none` when `axis` addresses no entry of the shape (UB in the C++; C15's business).
  Core Lean only.
-/
namespace NmVerif.Index

def shapeRepeatNone (shape : Shape) (r : Nat) : Shape := [prod shape * r]

/-- scalar repeats, integer axis: `at(ret,axis) = at(ret,axis) * repeats` -/
def shapeRepeat (shape : Shape) (r : Nat) (axis : Int) : Option Shape :=
  (atPy shape axis).map (fun e => setPy shape axis (e * r))

/-- `index::cumsum` -/
def cumsum : List Nat → List Nat
  | [] => []
  | x :: xs => x :: (cumsum xs).map (x + ·)

/-- `index::sum` -/
def sum : List Nat → Nat
  | [] => 0
  | x :: xs => x + sum xs

/-- per-element repeats: `at(ret,axis) = sum(repeats)` -/
def shapeRepeatList (shape : Shape) (rs : List Nat) (axis : Int) : Option Shape :=
  (atPy shape axis).map (fun _ => setPy shape axis (sum rs))

def indexRepeatNone (shape : Shape) (r : Nat) (d : Idx) : Idx :=
  match d with
  | i :: _ => computeIndices (i / r) shape (strides shape)
  | [] => []

/-- loop `for i < len(d)`: `ret[i] = (i == axis) ? d[i] / r : d[i]`, `axis` normalised against `len(shape)` -/
def indexRepeat (shape : Shape) (r : Nat) (axis : Int) (d : Idx) : Idx :=
  mapAt (· / r) (normAxis axis shape.length) 0 d

/-- `at(where(idx < ·, cumsum(repeats)), 0)`: first position whose cumulative count exceeds `x`
    (`= length` when there is none: the C++ then reads element 0 of an empty container) -/
def firstAbove (rs : List Nat) (x : Nat) : Nat := (cumsum rs).findIdx (fun c => decide (x < c))

def indexRepeatList (shape : Shape) (rs : List Nat) (axis : Int) (d : Idx) : Idx :=
  mapAt (firstAbove rs) (normAxis axis shape.length) 0 d

/-- `view::repeat(a, r, axis)`, scalar repeats -/
def repeatView (src : Shape) (r : Nat) (axis : Option Int) : Option IxView :=
  match axis with
  | none => some ⟨src, shapeRepeatNone src r, fun d => some (indexRepeatNone src r d)⟩
  | some ax => (shapeRepeat src r ax).map (fun dst => ⟨src, dst, fun d => some (indexRepeat src r ax d)⟩)

/-- `view::repeat(a, repeats, axis)`, one count per entry of the axis -/
def repeatListView (src : Shape) (rs : List Nat) (axis : Int) : Option IxView :=
  (shapeRepeatList src rs axis).map (fun dst => ⟨src, dst, fun d => some (indexRepeatList src rs axis d)⟩)

end NmVerif.Index
